(* Proofs about NV.Index.BcfByteQuery: the BAM byte-level development (ByteQueryProofs C-E) carried
   over to the BCF record framing.  A record body b = l_indiv word ++ site ++ samples occupies
   4 + len b bytes of the data bstream (the l_shared word in front), so the scan / chunk arithmetic is
   that of BAM; what is new is the one-record lemma bcf_gen_read_record (four reads: two length words,
   site, Fields::index, samples).  Sections D/E are the BAM proofs over bcf_read_record. *)
From Coq Require Import List NArith PeanoNat Lia Bool ZifyBool ZifyNat ZifyN.
From NV Require Import Base.LE Bgzf.Vpos Bgzf.VposProofs Bgzf.Gzi Bgzf.ReaderOps Bgzf.FlatRef
  Bgzf.ReaderOpsProofs Bgzf.ReaderTellProofs Index.Chunks Index.ByteQuery Index.ByteQueryProofs
  Index.BcfByteQuery.
From NV Require Index.Formats.
Import ListNotations.
Open Scope N_scope.
Arguments N.add : simpl never.
Arguments N.sub : simpl never.
Arguments N.mul : simpl never.
Arguments N.min : simpl never.
Arguments N.max : simpl never.
Arguments N.ltb : simpl never.
Arguments N.leb : simpl never.
Arguments N.eqb : simpl never.
Arguments N.to_nat : simpl never.
Arguments N.of_nat : simpl never.
Arguments firstn : simpl never.
Arguments skipn : simpl never.
Arguments pack : simpl never.

(* ---- C. a generic byte reader and the BCF record framing --------------------------------- *)

(* the bytes of one record in the bstream: l_shared, then the body (l_indiv word, site, samples) *)
Definition bframed (b : list N) : list N := le32 (len b - 4 - le_dec (firstn 4 b)) ++ b.
Definition brec_ok (b : list N) : Prop :=
  exists li site smp, b = le32 li ++ site ++ smp /\ len smp = li /\
    0 < len site /\ len site < 4294967296 /\ li < 4294967296 /\ bcf_val site = true.

Lemma bframed_shape : forall li site smp, li < 4294967296 -> len smp = li ->
  bframed (le32 li ++ site ++ smp) = le32 (len site) ++ le32 li ++ site ++ smp.
Proof.
  intros li site smp Hli Hsm. unfold bframed.
  assert (Hf4 : firstn 4 (le32 li ++ site ++ smp) = le32 li).
  { rewrite firstn_app, le32_length, Nat.sub_diag, firstn_O, app_nil_r.
    apply firstn_all2. rewrite le32_length. lia. }
  assert (Hd : le_dec (le32 li) = li).
  { unfold le32. apply le_dec_le_bytes. change (256 ^ N.of_nat 4) with 4294967296. exact Hli. }
  rewrite Hf4, Hd.
  rewrite !len_app, len_le32, Hsm.
  replace (4 + (len site + li) - 4 - li) with (len site) by lia. reflexivity.
Qed.

Section BGen.
  Variable R : Type.
  Variable rd : R -> N -> R * res (list N).
  Variable bsz : N -> N.
  Variable D : list N.
  Variable GRel : R -> N -> Prop.
  Variable GJC : R -> N -> Prop.
  Variable lim : N.
  Hypothesis rd_data : forall r o n, GRel r o -> o < lim -> o < len D -> 0 < n ->
    exists r' k, rd r n = (r', Ok (slice D o k)) /\ 1 <= k /\ k <= n /\ o + k <= len D /\
      GRel r' (o + k) /\ GJC r' (o + k).

  Lemma bid_ok : forall x : N, 0 < x -> 1 <= x /\ x <= x.
  Proof. intros; lia. Qed.

  Lemma bclamp_ok : forall x, 0 < x -> 1 <= clamp bsz x /\ clamp bsz x <= x.
  Proof. intros x Hx. unfold clamp. lia. Qed.

  Lemma gen_read_record : forall r o b tl, GRel r o ->
    skipn (N.to_nat o) D = bframed b ++ tl -> brec_ok b -> o + 4 + len b <= lim ->
    exists r', bcf_read_record R rd bsz r = (r', RRec b) /\
               GRel r' (o + 4 + len b) /\ GJC r' (o + 4 + len b).
  Proof.
    intros r o b tl HR Hsk (li & site & smp & Hb & Hsm & Hs0 & Hs32 & Hli & Hval) HL.
    assert (Hlb : len b = 4 + len site + li).
    { rewrite Hb, !len_app, len_le32, Hsm. lia. }
    rewrite Hb, (bframed_shape li site smp Hli Hsm) in Hsk. rewrite <- !app_assoc in Hsk.
    assert (Hne : forall n, le32 n <> []).
    { intros n E. pose proof (len_le32 n) as H4. rewrite E in H4. discriminate. }
    pose proof (skipn_len_bound D o _ _ Hsk (Hne _)) as Hbd.
    rewrite !len_app, !len_le32, Hsm in Hbd.
    pose proof (slice_at D o _ _ Hsk) as Hs4. rewrite len_le32 in Hs4.
    pose proof (skipn_at D o _ _ Hsk) as Hsk2. rewrite len_le32 in Hsk2.
    pose proof (slice_at D (o + 4) _ _ Hsk2) as Hs4b. rewrite len_le32 in Hs4b.
    pose proof (skipn_at D (o + 4) _ _ Hsk2) as Hsk3. rewrite len_le32 in Hsk3.
    pose proof (slice_at D (o + 4 + 4) _ _ Hsk3) as Hss.
    pose proof (skipn_at D (o + 4 + 4) _ _ Hsk3) as Hsk4.
    pose proof (slice_at D (o + 4 + 4 + len site) _ _ Hsk4) as Hsm'. rewrite Hsm in Hsm'.
    assert (Hdec : forall n, n < 4294967296 -> le_dec (le32 n) = n).
    { intros n Hn. unfold le32. apply le_dec_le_bytes. change (256 ^ N.of_nat 4) with 4294967296. exact Hn. }
    unfold bcf_read_record.
    destruct (read_upto_exact R rd bsz D GRel GJC lim rd_data (fun x => x) bid_ok
                5%nat r o 4 [] HR) as (r1 & Hru & HR1 & _); try lia.
    rewrite Hru. cbn [app]. rewrite Hs4, len_le32.
    change ((0 <? 4) && (4 <? 4)) with false. cbv beta iota zeta.
    rewrite (Hdec _ Hs32). destruct (N.eqb_spec (len site) 0) as [|_]; [lia|].
    destruct (read_upto_exact R rd bsz D GRel GJC lim rd_data (fun x => x) bid_ok
                5%nat r1 (o + 4) 4 [] HR1) as (r2 & Hru2 & HR2 & _); try lia.
    rewrite Hru2. cbn [app]. rewrite Hs4b, len_le32.
    change (4 <? 4) with false. cbv beta iota zeta. rewrite (Hdec _ Hli).
    destruct (read_upto_exact R rd bsz D GRel GJC lim rd_data (clamp bsz) bclamp_ok
                (S (N.to_nat (len site))) r2 (o + 4 + 4) (len site) [] HR2)
      as (r3 & Hru3 & HR3 & HJ3); try lia.
    rewrite Hru3. cbn [app]. rewrite Hss.
    destruct (N.ltb_spec (len site) (len site)) as [|_]; [lia|]. rewrite Hval. cbn [negb].
    destruct (N.eq_dec li 0) as [Z|NZ].
    - assert (smp = []) by (destruct smp; [reflexivity | unfold len in Hsm; cbn [length] in Hsm; lia]).
      subst smp. subst li. change (N.to_nat 0) with 0%nat. cbn [read_upto].
      change (0 =? 0) with true. cbv beta iota zeta.
      change (len (@nil N) <? 0) with false. cbv beta iota zeta.
      exists r3. split; [rewrite Hb; reflexivity|]. rewrite Hlb.
      replace (o + 4 + (4 + len site + 0)) with (o + 4 + 4 + len site) by lia.
      split; [exact HR3 | apply HJ3; lia].
    - destruct (read_upto_exact R rd bsz D GRel GJC lim rd_data (clamp bsz) bclamp_ok
                  (S (N.to_nat li)) r3 (o + 4 + 4 + len site) li [] HR3)
        as (r4 & Hru4 & HR4 & HJ4); try lia.
      rewrite Hru4. cbn [app]. rewrite Hsm', Hsm.
      destruct (N.ltb_spec li li) as [|_]; [lia|].
      exists r4. split; [rewrite Hb; reflexivity|]. rewrite Hlb.
      replace (o + 4 + (4 + len site + li)) with (o + 4 + 4 + len site + li) by lia.
      split; [exact HR4 | apply HJ4; lia].
  Qed.
End BGen.

(* ---- D. the sequential scan over the file bytes --------------------------------------------- *)

Section File.
  Variable f : file.
  Variable bsz : N -> N.
  Hypothesis Hwf : wf f.
  Hypothesis Hmax : total_csize f <= MAX_COMPRESSED_POSITION.
  Notation D := (concat (chunks f)).

  (* v is what a reader tells right after consuming the byte before flat offset o *)
  Definition Told (v o : N) : Prop :=
    denote f v = Some o /\ exists st, JC f st o /\ virtual_position st = Ok v.

  (* the scanned records lie one after the other from flat offset o on, the first starting at
     told position a *)
  Fixpoint blaid (o a : N) (L : list brec) : Prop :=
    match L with
    | [] => True
    | x :: t => br_a x = a /\ denote f a = Some o /\ brec_ok (br_body x) /\
                Told (br_b x) (o + 4 + len (br_body x)) /\
                blaid (o + 4 + len (br_body x)) (br_b x) t
    end.

  Definition bstream (bodies : list (list N)) : list N := concat (map bframed bodies).

  Lemma len_framed : forall b, len (bframed b) = 4 + len b.
  Proof. intros. unfold bframed. rewrite len_app, len_le32. reflexivity. Qed.

  Lemma told_denote : forall st o v, Rel f st o -> virtual_position st = Ok v -> denote f v = Some o.
  Proof.
    intros st o v (s & HI & Ho) Hv. destruct (vpos_denote f st s Hwf Hmax HI) as (v' & Hv' & Hd).
    rewrite Hv in Hv'. inversion Hv'; subst. exact Hd.
  Qed.

  Lemma told_defined : forall st o, Rel f st o -> exists v, virtual_position st = Ok v /\ denote f v = Some o.
  Proof.
    intros st o (s & HI & Ho). destruct (vpos_denote f st s Hwf Hmax HI) as (v' & Hv' & Hd).
    exists v'. subst o. auto.
  Qed.

  Lemma plain_rd_data : forall r o n, Rel f r o -> o < total_dlen f + 1 -> o < len D -> 0 < n ->
    exists r' k, read true r n = (r', Ok (slice D o k)) /\ 1 <= k /\ k <= n /\ o + k <= len D /\
      Rel f r' (o + k) /\ JC f r' (o + k).
  Proof.
    intros r o n HR _ Hlt Hn. rewrite len_concat_chunks in *.
    apply read_data; assumption.
  Qed.

  Lemma plain_read_end : forall st o, Rel f st o -> total_dlen f <= o ->
    exists st', bcf_read_record state (read true) bsz st = (st', REnd) /\ Rel f st' o.
  Proof.
    intros st o HR Hge. destruct (read_eof f st o 4 Hwf HR Hge) as (st' & Hrd & HR').
    exists st'. unfold bcf_read_record. cbn [read_upto].
    change (4 =? 0) with false. cbv iota. rewrite Hrd. rewrite len_nil.
    change (0 =? 0) with true. cbv iota. rewrite len_nil.
    change ((0 <? 0) && (0 <? 4)) with false. cbv iota. cbn [le_dec].
    change (0 =? 0) with true. cbv iota. auto.
  Qed.

  Lemma scan_loop_spec : forall bodies fuel st o a acc,
    Rel f st o -> virtual_position st = Ok a -> skipn (N.to_nat o) D = bstream bodies ->
    Forall brec_ok bodies -> (length bodies < fuel)%nat ->
    exists st' L, bcf_scan_loop bsz fuel st a acc = (st', Ok (acc ++ L)) /\
      map br_body L = bodies /\ blaid o a L /\ Rel f st' (total_dlen f).
  Proof.
    induction bodies as [|b bodies IH]; intros fuel st o a acc HR Hv Hsk Hok Hf;
      (destruct fuel as [|fuel]; [cbn [length] in Hf; lia|]); cbn [bcf_scan_loop].
    - assert (Hge : total_dlen f <= o).
      { pose proof (f_equal (@length N) Hsk) as HL. rewrite skipn_length in HL. cbn in HL.
        rewrite <- len_concat_chunks. unfold len. lia. }
      destruct (plain_read_end st o HR Hge) as (st' & Hrr & HR'). rewrite Hrr.
      exists st', []. rewrite app_nil_r. splits; fin. cbn [blaid]. 
      destruct HR' as (s & HI & Ho). pose proof (Inv_bound _ _ _ HI).
      exists s. split; [exact HI | lia].
    - cbn [bstream map concat] in Hsk. fold (bstream bodies) in Hsk.
      inversion Hok as [|? ? Hb Hoks]; subst.
      pose proof (skipn_len_bound D o (bframed b) (bstream bodies) Hsk) as Hbd.
      assert (Hne : bframed b <> []).
      { intros E. pose proof (len_framed b) as H4. rewrite E in H4. rewrite len_nil in H4. lia. }
      specialize (Hbd Hne). rewrite len_framed, len_concat_chunks in Hbd.
      destruct (gen_read_record state (read true) bsz D (Rel f) (JC f) (total_dlen f + 1) plain_rd_data
                  st o b (bstream bodies) HR Hsk Hb) as (st1 & Hrr & HR1 & HJ1); [lia|].
      rewrite Hrr.
      destruct (told_defined st1 _ HR1) as (e & He & Hde). rewrite He.
      pose proof (skipn_at D o _ _ Hsk) as Hsk2. rewrite len_framed in Hsk2.
      replace (o + (4 + len b)) with (o + 4 + len b) in Hsk2 by lia.
      destruct (IH fuel st1 (o + 4 + len b) e (acc ++ [mkbrec b a e]) HR1 He Hsk2 Hoks) as (st' & L & Hsl & Hm & Hl & HR');
        [cbn [length] in Hf; lia|].
      exists st', (mkbrec b a e :: L). rewrite Hsl, <- app_assoc. cbn [app map br_body].
      splits; fin.
      + rewrite Hm. reflexivity.
      + cbn [blaid br_a br_b br_body]. splits; fin.
        * apply (told_denote st o a HR Hv).
        * split; [exact Hde|]. exists st1. auto.
  Qed.

  (* ---- E. csi::io::Query over the file bytes ------------------------------------------------ *)

  Lemma laid_a_lt_b : forall o a x t, blaid o a (x :: t) -> br_a x < br_b x.
  Proof.
    intros o a x t (Ha & Hd & Hok & (Hdb & _) & _). rewrite Ha.
    apply (denote_strict f a (br_b x) o (o + 4 + len (br_body x)) Hwf Hd Hdb). lia.
  Qed.

  Lemma laid_a_le : forall S o a y, blaid o a S -> In y S -> a <= br_a y.
  Proof.
    induction S as [|x S IH]; intros o a y HL Hin; [destruct Hin|].
    destruct Hin as [E|Hin].
    - subst y. destruct HL as (Ha & _). lia.
    - pose proof (laid_a_lt_b _ _ _ _ HL) as Hlt.
      destruct HL as (Ha & _ & _ & _ & HL'). specialize (IH _ _ y HL' Hin). lia.
  Qed.

  (* (told end position, flat end offset) of some record of S *)
  Fixpoint end_in (o : N) (S : list brec) (ce oe : N) : Prop :=
    match S with
    | [] => False
    | x :: t => let o' := o + 4 + len (br_body x) in (br_b x = ce /\ oe = o') \/ end_in o' t ce oe
    end.

  Lemma end_in_of_In : forall S o a y, blaid o a S -> In y S -> exists oe, end_in o S (br_b y) oe.
  Proof.
    induction S as [|x S IH]; intros o a y HL Hin; [destruct Hin|].
    destruct Hin as [E|Hin].
    - subst y. eexists. cbn [end_in]. left. split; reflexivity.
    - destruct HL as (_ & _ & _ & _ & HL'). destruct (IH _ _ y HL' Hin) as (oe & H).
      exists oe. cbn [end_in]. right. exact H.
  Qed.

  Lemma end_in_told : forall S o a ce oe, blaid o a S -> end_in o S ce oe -> Told ce oe /\ o < oe.
  Proof.
    induction S as [|x S IH]; intros o a ce oe HL He; [destruct He|].
    destruct HL as (_ & _ & _ & HT & HL'). cbn [end_in] in He. destruct He as [[E1 E2]|He].
    - subst. split; [exact HT | lia].
    - destruct (IH _ _ _ _ HL' He) as [H1 H2]. split; [exact H1 | lia].
  Qed.

  Lemma Told_same : forall v1 v2 o, Told v1 o -> Told v2 o -> v1 = v2.
  Proof.
    intros v1 v2 o (_ & st1 & HJ1 & Hv1) (_ & st2 & HJ2 & Hv2).
    pose proof (JC_told f st1 st2 o HJ1 HJ2) as E. rewrite Hv1, Hv2 in E. inversion E. reflexivity.
  Qed.

  Notation rdq := (q_read f).
  Notation in_c := (NV.Index.Formats.in_chunk_f brec br_a).

  Lemma read_records_ext : forall q q' fuel acc,
    (forall n, rdq q n = rdq q' n) ->
    bcf_read_records qstate rdq bsz (S fuel) q acc = bcf_read_records qstate rdq bsz (S fuel) q' acc.
  Proof.
    intros q q' fuel acc H. cbn [bcf_read_records].
    assert (E : bcf_read_record qstate rdq bsz q = bcf_read_record qstate rdq bsz q').
    { unfold bcf_read_record. cbn [read_upto]. change (4 =? 0) with false. cbv iota.
      rewrite H. reflexivity. }
    rewrite E. reflexivity.
  Qed.

  (* at the end of the chunk (told position not before the chunk end) the Query reader behaves as
     in State::Seek *)
  Lemma q_read_at_end : forall q e v n, q_mode q = QRead e -> virtual_position (q_rd q) = Ok v ->
    e <= v -> rdq q n = rdq (mkQ (q_rd q) (q_cs q) QSeek) n.
  Proof.
    intros q e v n Hm Hv Hle. unfold q_read, q_fill. rewrite Hm, Hv. cbn [q_mode q_rd q_cs].
    destruct (N.ltb_spec v e); [lia|]. reflexivity.
  Qed.

  (* a seek to a chunk whose end lies after the position told there: State::Read *)
  Lemma q_read_seek : forall st c t st1 r v n, seek true f st (cstart c) = (st1, Ok r) ->
    virtual_position st1 = Ok v -> v < cend c ->
    rdq (mkQ st (c :: t) QSeek) n = rdq (mkQ st1 t (QRead (cend c))) n.
  Proof.
    intros st c t st1 r v n Hs Hv Hlt. unfold q_read, q_fill. cbn [q_mode q_rd q_cs q_seek_loop].
    rewrite Hs, Hv. destruct (N.ltb_spec v (cend c)); [|lia]. reflexivity.
  Qed.

  Section Chunk.
    Variable c : chunk.
    Variable t : list chunk.
    Variable oe : N.
    Hypothesis Hce : Told (cend c) oe.

    Definition GRelQ (q : qstate) (o : N) : Prop :=
      q_mode q = QRead (cend c) /\ q_cs q = t /\ Rel f (q_rd q) o.
    Definition GJCQ (q : qstate) (o : N) : Prop := JC f (q_rd q) o.

    Lemma q_rd_data : forall q o n, GRelQ q o -> o < oe -> o < len D -> 0 < n ->
      exists q' k, rdq q n = (q', Ok (slice D o k)) /\ 1 <= k /\ k <= n /\ o + k <= len D /\
        GRelQ q' (o + k) /\ GJCQ q' (o + k).
    Proof.
      intros q o n (Hm & Hcs & HR) Hlt HltD Hn. rewrite len_concat_chunks in *.
      destruct (told_defined _ _ HR) as (v & Hv & Hd).
      assert (Hvlt : v < cend c).
      { destruct Hce as (Hdc & _). apply (denote_strict f v (cend c) o oe Hwf Hd Hdc Hlt). }
      destruct (bread_data f (q_rd q) o n Hwf HR HltD Hn) as (st' & k & Hb & Hk1 & Hkn & Hkd & HR' & HJ').
      unfold q_read, q_fill. rewrite Hm, Hv. destruct (N.ltb_spec v (cend c)); [|lia].
      unfold bread in Hb. destruct (fill_buf (q_rd q)) as [st1 [src|e| | |]]; try discriminate.
      injection Hb as Hst Hsrc. cbn [q_rd q_cs q_mode].
      exists (mkQ st' (q_cs q) (QRead (cend c))), k.
      rewrite Hst, Hsrc. splits; fin.
      unfold GRelQ. cbn [q_rd q_cs q_mode]. auto.
    Qed.

    (* reading on from a record boundary inside (or at the end of) the chunk *)
    Lemma qloop : forall S q o a acc fuel',
      GRelQ q o -> blaid o a S -> skipn (N.to_nat o) D = bstream (map br_body S) ->
      cstart c <= a ->
      ((o < oe /\ end_in o S (cend c) oe) \/ (o = oe /\ JC f (q_rd q) o /\ Told a o)) ->
      exists st' o', Rel f st' o' /\
        bcf_read_records qstate rdq bsz (length (filter (in_c c) S) + Datatypes.S fuel') q acc
        = bcf_read_records qstate rdq bsz (Datatypes.S fuel') (mkQ st' t QSeek)
            (acc ++ map br_body (filter (in_c c) S)).
    Proof.
      induction S as [|x S IH]; intros q o a acc fuel' HG HL Hsk Hcs Hcase.
      - destruct Hcase as [[_ []]|(Ho & HJ & HT)].
        destruct HG as (Hm & Hq & HR). cbn [filter length map plus]. rewrite app_nil_r.
        destruct (told_defined _ _ HR) as (v & Hv & Hd).
        assert (Ev : v = cend c).
        { apply (Told_same v (cend c) oe); [|exact Hce]. subst o. split; [exact Hd|]. exists (q_rd q). auto. }
        exists (q_rd q), o. split; [exact HR|].
        rewrite <- Hq. apply read_records_ext. intros n.
        apply (q_read_at_end q (cend c) v n Hm Hv). lia.
      - destruct Hcase as [(Hlt & Hend)|(Ho & HJ & HT)].
        + (* the record starts inside the chunk: it is read *)
          pose proof (laid_a_lt_b _ _ _ _ HL) as Hab.
          destruct HL as (Ha & Hda & Hok & HTb & HL').
          assert (Hin : in_c c x = true).
          { unfold NV.Index.Formats.in_chunk_f. rewrite Ha. destruct Hce as (Hdc & _).
            pose proof (denote_strict f a (cend c) o oe Hwf Hda Hdc Hlt). lia. }
          cbn [filter]. rewrite Hin. cbn [length map plus].
          cbn [map bstream concat] in Hsk. fold (bstream (map br_body S)) in Hsk.
          assert (Hoe : o + 4 + len (br_body x) <= oe).
          { cbn [end_in] in Hend. destruct Hend as [[_ E]|He]; [lia|].
            destruct (end_in_told _ _ _ _ _ HL' He). lia. }
          destruct (gen_read_record qstate rdq bsz D GRelQ GJCQ oe q_rd_data q o (br_body x)
                      (bstream (map br_body S)) HG Hsk Hok Hoe) as (q1 & Hrr & HG1 & HJ1).
          cbn [bcf_read_records]. rewrite Hrr.
          pose proof (skipn_at D o _ _ Hsk) as Hsk2. rewrite len_framed in Hsk2.
          replace (o + (4 + len (br_body x))) with (o + 4 + len (br_body x)) in Hsk2 by lia.
          assert (Hcase' : (o + 4 + len (br_body x) < oe /\ end_in (o + 4 + len (br_body x)) S (cend c) oe) \/
                           (o + 4 + len (br_body x) = oe /\ JC f (q_rd q1) (o + 4 + len (br_body x)) /\
                            Told (br_b x) (o + 4 + len (br_body x)))).
          { cbn [end_in] in Hend. destruct Hend as [[_ E]|He].
            - right. splits; fin. 
            - left. split; [|exact He]. destruct (end_in_told _ _ _ _ _ HL' He). lia. }
          destruct (IH q1 _ (br_b x) (acc ++ [br_body x]) fuel' HG1 HL' Hsk2) as (st' & o' & HR' & Heq);
            [lia | exact Hcase' |].
          exists st', o'. split; [exact HR'|]. rewrite Heq. rewrite <- app_assoc. reflexivity.
        + (* the chunk ends here: nothing more is in it *)
          assert (Ea : a = cend c).
          { apply (Told_same a (cend c) oe); [subst o; exact HT | exact Hce]. }
          assert (Hnone : filter (in_c c) (x :: S) = []).
          {
            assert (Hall : forall y, In y (x :: S) -> in_c c y = false).
            { intros y Hy. pose proof (laid_a_le _ _ _ y HL Hy). unfold NV.Index.Formats.in_chunk_f. lia. }
            clear - Hall. induction (x :: S) as [|z l IHl]; [reflexivity|].
            cbn [filter]. rewrite (Hall z (or_introl eq_refl)). apply IHl.
            intros y Hy. apply Hall. right. exact Hy. }
          rewrite Hnone. cbn [length map plus]. rewrite app_nil_r.
          destruct HG as (Hm & Hq & HR).
          destruct (told_defined _ _ HR) as (v & Hv & Hd).
          assert (Ev : v = cend c).
          { apply (Told_same v (cend c) oe); [|exact Hce]. subst o. split; [exact Hd|]. exists (q_rd q). auto. }
          exists (q_rd q), o. split; [exact HR|].
          rewrite <- Hq. apply read_records_ext. intros n.
          apply (q_read_at_end q (cend c) v n Hm Hv). lia.
    Qed.
  End Chunk.

  Lemma seek_to_told : forall st o v ov, Rel f st o -> denote f v = Some ov ->
    exists st1, seek true f st v = (st1, Ok v) /\ Rel f st1 ov.
  Proof.
    intros st o v ov (s & HI & _) Hd. unfold denote in Hd.
    destruct (frame_start f 0 0 (vcomp v)) as [[s0 l]|] eqn:Hfs; [|discriminate].
    destruct (N.leb_spec (vuncomp v) l) as [Hu|]; [|discriminate]. inversion Hd; subst ov.
    assert (Hok : seek_ok true f st v) by (intros H; discriminate).
    destruct (seek_refines true f st s v s0 l Hwf HI Hfs Hu Hok) as [Hr HI'].
    destruct (seek true f st v) as [st1 r]. cbn [fst snd] in *. subst r.
    exists st1. split; [reflexivity|]. eexists. split; [exact HI'|]. unfold f_seek. cbn [off]. reflexivity.
  Qed.

  Lemma laid_suffix : forall P S o a, blaid o a (P ++ S) ->
    skipn (N.to_nat o) D = bstream (map br_body (P ++ S)) ->
    exists o' a', blaid o' a' S /\ skipn (N.to_nat o') D = bstream (map br_body S) /\
      (forall y z, In y P -> In z S -> br_a y < br_a z).
  Proof.
    induction P as [|x P IH]; intros S o a HL Hsk.
    - exists o, a. cbn [app] in *. splits; fin. intros y z [].
    - cbn [app] in HL, Hsk. pose proof (laid_a_lt_b _ _ _ _ HL) as Hab.
      destruct HL as (Ha & Hda & Hok & HTb & HL').
      cbn [map bstream concat] in Hsk. fold (bstream (map br_body (P ++ S))) in Hsk.
      pose proof (skipn_at D o _ _ Hsk) as Hsk2. rewrite len_framed in Hsk2.
      replace (o + (4 + len (br_body x))) with (o + 4 + len (br_body x)) in Hsk2 by lia.
      destruct (IH S _ _ HL' Hsk2) as (o' & a' & HLS & HskS & Hlt).
      exists o', a'. splits; fin. intros y z [E|Hy] Hz.
      + subst y. pose proof (laid_a_le _ _ _ z HL' (in_or_app _ _ _ (or_intror Hz))). lia.
      + apply Hlt; assumption.
  Qed.

  Lemma filter_none : forall (g : brec -> bool) l, (forall y, In y l -> g y = false) -> filter g l = [].
  Proof.
    intros g l. induction l as [|z l IHl]; intros H; [reflexivity|].
    cbn [filter]. rewrite (H z (or_introl eq_refl)). apply IHl. intros y Hy. apply H. right. exact Hy.
  Qed.

  Section Scanned.
    Variable L : list brec.
    Variable o0 a0 : N.
    Hypothesis HL : blaid o0 a0 L.
    Hypothesis HD : skipn (N.to_nat o0) D = bstream (map br_body L).

    (* what an index holds: the chunk starts where a record starts and ends where that or a
       later record ends *)
    Definition baligned (c : chunk) : Prop :=
      exists P x S', L = P ++ x :: S' /\ cstart c = br_a x /\
                     exists y, In y (x :: S') /\ cend c = br_b y.

    Notation cread := (NV.Index.Formats.chunk_read_f brec br_a).

    Theorem query_read : forall cs, Forall baligned cs -> forall st o acc fuel, Rel f st o ->
      (length (cread cs L) < fuel)%nat ->
      exists st' o', Rel f st' o' /\
        bcf_read_records qstate rdq bsz fuel (mkQ st cs QSeek) acc
        = (mkQ st' [] QDone, Ok (acc ++ map br_body (cread cs L))).
    Proof.
      induction cs as [|c t IH]; intros Hal st o acc fuel HR Hf;
        (destruct fuel as [|k]; [lia|]).
      - cbn [bcf_read_records]. unfold bcf_read_record. cbn [read_upto].
        change (4 =? 0) with false. cbv iota.
        unfold q_read, q_fill. cbn [q_mode q_rd q_cs q_seek_loop]. rewrite firstn_nil, !len_nil.
        change (0 =? 0) with true. cbv iota. rewrite len_nil.
        change ((0 <? 0) && (0 <? 4)) with false. cbv iota. cbn [le_dec].
        change (0 =? 0) with true. cbv iota.
        exists (consume st 0), o. split.
        + destruct HR as (s & HI & Ho). exists (f_consume s 0). split; [apply inv_consume; assumption|].
          unfold f_consume, f_advance. cbn [off]. lia.
        + unfold NV.Index.Formats.chunk_read_f. cbn [flat_map map]. rewrite app_nil_r. reflexivity.
      - inversion Hal as [|? ? Hc Hat]; subst.
        destruct Hc as (P & x & S' & HLs & Hcs & y & Hy & Hce).
        rewrite HLs in HL, HD.
        destruct (laid_suffix P (x :: S') o0 a0 HL HD) as (ox & ax & HLS & HskS & Hlt).
        assert (Eax : ax = br_a x) by (destruct HLS as (E & _); auto). subst ax.
        destruct (end_in_of_In _ _ _ y HLS Hy) as (oe & Hend). rewrite <- Hce in Hend.
        destruct (end_in_told _ _ _ _ _ HLS Hend) as (HT & Hoe).
        assert (Hdx : denote f (cstart c) = Some ox) by (rewrite Hcs; destruct HLS as (_ & Hd & _); exact Hd).
        destruct (seek_to_told st o (cstart c) ox HR Hdx) as (st1 & Hsk & HR1).
        destruct (told_defined _ _ HR1) as (v1 & Hv1 & Hd1).
        assert (Hv1lt : v1 < cend c).
        { destruct HT as (Hdc & _). apply (denote_strict f v1 (cend c) ox oe Hwf Hd1 Hdc Hoe). }
        rewrite (read_records_ext (mkQ st (c :: t) QSeek) (mkQ st1 t (QRead (cend c))) k acc)
          by (intros n; apply (q_read_seek st c t st1 (cstart c) v1 n Hsk Hv1 Hv1lt)).
        assert (Hfl : filter (in_c c) L = filter (in_c c) (x :: S')).
        { rewrite HLs, filter_app. rewrite (filter_none (in_c c) P); [reflexivity|].
          intros z Hz. pose proof (Hlt z x Hz (or_introl eq_refl)).
          unfold NV.Index.Formats.in_chunk_f. lia. }
        assert (Hcr : cread (c :: t) L = filter (in_c c) (x :: S') ++ cread t L).
        { unfold NV.Index.Formats.chunk_read_f. cbn [flat_map]. rewrite Hfl. reflexivity. }
        rewrite Hcr in *. rewrite app_length in Hf.
        set (nc := length (filter (in_c c) (x :: S'))) in *.
        replace (Datatypes.S k) with (nc + Datatypes.S (k - nc))%nat by lia.
        destruct (qloop c t oe HT (x :: S') (mkQ st1 t (QRead (cend c))) ox (br_a x) acc (k - nc)%nat)
          as (st2 & o2 & HR2 & Heq); try assumption.
        + unfold GRelQ. cbn [q_mode q_cs q_rd]. auto.
        + lia.
        + left. auto.
        + fold nc in Heq. rewrite Heq.
          destruct (IH Hat st2 o2 (acc ++ map br_body (filter (in_c c) (x :: S'))) (Datatypes.S (k - nc)) HR2)
            as (st' & o' & HR' & Hfin); [lia|].
          exists st', o'. split; [exact HR'|]. rewrite Hfin. rewrite map_app, app_assoc. reflexivity.
    Qed.
  End Scanned.
End File.

(* ---- the entry points ------------------------------------------------------------------------ *)

Lemma filter_len_le : forall (A : Type) (g : A -> bool) l, (length (filter g l) <= length l)%nat.
Proof. intros A g l. induction l as [|x l IH]; cbn [filter length]; [lia|]. destruct (g x); cbn [length]; lia. Qed.

Lemma cread_len : forall cs (L : list brec),
  (length (NV.Index.Formats.chunk_read_f brec br_a cs L) <= length cs * length L)%nat.
Proof.
  intros cs L. unfold NV.Index.Formats.chunk_read_f. induction cs as [|c t IH]; cbn [flat_map length]; [lia|].
  rewrite app_length. pose proof (filter_len_le brec (NV.Index.Formats.in_chunk_f brec br_a c) L).
  rewrite Nat.mul_succ_l. revert IH H.
  generalize (length t * length L)%nat, (length (filter (NV.Index.Formats.in_chunk_f brec br_a c) L)), (length L).
  generalize (length (flat_map (fun c0 : chunk => filter (NV.Index.Formats.in_chunk_f brec br_a c0) L) t)).
  intros; lia.
Qed.

Lemma stream_len : forall bodies, (length bodies <= length (bstream bodies))%nat.
Proof.
  induction bodies as [|b t IH]; [cbn; lia|]. unfold bstream in *. cbn [map concat length].
  rewrite app_length. unfold bframed at 1. rewrite app_length, le32_length. lia.
Qed.

Section Entry.
  Variable f : file.
  Variable bsz : N -> N.
  Hypothesis Hwf : wf f.
  Hypothesis Hmax : total_csize f <= MAX_COMPRESSED_POSITION.
  Variable L : list brec.
  Variable o0 a0 : N.
  Hypothesis HL : blaid f o0 a0 L.
  Hypothesis HD : skipn (N.to_nat o0) (concat (chunks f)) = bstream (map br_body L).

  Lemma scanned_len : (length L < scan_fuel f)%nat.
  Proof.
    pose proof (f_equal (@length N) HD) as H. rewrite skipn_length in H.
    pose proof (stream_len (map br_body L)) as H2. rewrite map_length in H2.
    unfold scan_fuel. fold (chunks f). lia.
  Qed.

  (* Reader::query's reading step on a reader in ANY state the C02 invariant allows (fresh, after a
     scan, after earlier queries ...): chunk by chunk the records starting in the chunk, and the
     reader is again in such a state *)
  Theorem bcf_byte_query_spec : forall cs st o, Forall (baligned L) cs -> Rel f st o ->
    exists st' o', Rel f st' o' /\
      bcf_byte_query bsz f st cs = (st', Ok (map br_body (NV.Index.Formats.chunk_read_f brec br_a cs L))).
  Proof.
    intros cs st o Hal HR. unfold bcf_byte_query, q_new.
    destruct (query_read f bsz Hwf Hmax L o0 a0 HL HD cs Hal st o [] (S (length cs * scan_fuel f)) HR)
      as (st' & o' & HR' & Heq).
    { pose proof (cread_len cs L). pose proof scanned_len. nia. }
    rewrite Heq. exists st', o'. split; [exact HR'|]. reflexivity.
  Qed.

  (* histories: several queries one after the other on the same reader object each give the
     answer a fresh reader gives *)
  Theorem bcf_byte_queries_spec : forall qs st o, Forall (Forall (baligned L)) qs -> Rel f st o ->
    bcf_byte_queries bsz f st qs
    = map (fun cs => Ok (map br_body (NV.Index.Formats.chunk_read_f brec br_a cs L))) qs.
  Proof.
    induction qs as [|cs t IH]; intros st o Hal HR; [reflexivity|].
    inversion Hal as [|? ? Hc Ht]; subst. cbn [bcf_byte_queries map].
    destruct (bcf_byte_query_spec cs st o Hc HR) as (st' & o' & HR' & Heq). rewrite Heq.
    f_equal. apply (IH st' o' Ht HR').
  Qed.
End Entry.

(* the scan from a reader that has consumed the header: every record of the bstream with the
   positions told before / after it; those positions are strictly increasing numbers *)
Theorem bcf_byte_scan_spec : forall f bsz st o bodies, wf f -> total_csize f <= MAX_COMPRESSED_POSITION ->
  Rel f st o -> skipn (N.to_nat o) (concat (chunks f)) = bstream bodies -> Forall brec_ok bodies ->
  exists st' a L, virtual_position st = Ok a /\ bcf_scan_from bsz f st = (st', Ok L) /\
    map br_body L = bodies /\ blaid f o a L /\ Rel f st' (total_dlen f).
Proof.
  intros f bsz st o bodies Hwf Hmax HR Hsk Hok.
  destruct (told_defined f Hwf Hmax st o HR) as (a & Ha & _).
  destruct (scan_loop_spec f bsz Hwf Hmax bodies (scan_fuel f) st o a [] HR Ha Hsk Hok) as (st' & L & Hs & Hm & Hl & HR').
  { pose proof (f_equal (@length N) Hsk) as H. rewrite skipn_length in H.
    pose proof (stream_len bodies). unfold scan_fuel. fold (chunks f). lia. }
  exists st', a, L. unfold bcf_scan_from. rewrite Ha. cbn [app] in Hs. auto.
Qed.

Fixpoint ordered_b (prev : N) (L : list brec) : Prop :=
  match L with
  | [] => True
  | x :: t => prev <= br_a x /\ br_a x < br_b x /\ ordered_b (br_b x) t
  end.

Lemma laid_ordered : forall f, wf f -> total_csize f <= MAX_COMPRESSED_POSITION ->
  forall L o a, blaid f o a L -> ordered_b a L.
Proof.
  intros f Hwf Hmax. induction L as [|x t IH]; intros o a HL; [exact I|].
  assert (Hlt : br_a x < br_b x) by (eapply (laid_a_lt_b f (fun z => z)); eauto). destruct HL as (Ha & _ & _ & _ & HL').
  cbn [ordered_b]. splits; fin; try lia. apply (IH _ _ HL').
Qed.
