(* C04 "used in memory or after being written to and read from an index file": the query = scan
   theorems for the index as it is read back from the bytes the writer model produced.
   BAI: by the equality of bai_roundtrip; CSI: by csi_file_roundtrip_queries (the loffsets that
   read back are not the ones written, the query answers are). *)
From Coq Require Import List Arith NArith Bool Lia.
From NV Require Import Base.LE Index.Bins Index.Chunks Index.Indexer Index.QueryProofs Index.BinnedProofs
  Index.Layout Index.LayoutProofs Index.CsiLoffset Index.CsiLayout Index.CsiLayoutProofs.
Import ListNotations.
Open Scope N_scope.

(* query_records with the index given (Indexer.query_records is this at build_ref) *)
Definition query_records_ix (kd : kind) (ms : N) (d : nat) (ix : refidx) (file : list rec) (k qs qe : N)
  : option (list rec) :=
  match query kd ms d ix qs qe with
  | None => None
  | Some cs => Some (filter (intersects k qs qe) (chunk_read cs file))
  end.

Lemma query_records_ix_built kd ms d file k qs qe :
  query_records_ix kd ms d (build_ref ms d k file) file k qs qe = query_records kd ms d file k qs qe.
Proof. reflexivity. Qed.

Definition built_bai (ms : N) (d : nat) (file : list rec) (meta : nat -> option metadata)
    (nref : nat) (unplaced : option N) : bai_index :=
  mkbai (map (fun k => let ix := build_ref ms d (N.of_nat k) file in mkbref (bins ix) (meta k) (lin ix))
             (seq 0 nref)) unplaced.

Definition empty_bref : bai_ref := mkbref [] None [].
Definition bref_refidx (r : bai_ref) : refidx := mkref (br_bins r) (br_intervals r) [].

Theorem via_file_bai ms d file meta nref unplaced k qs qe :
  let i := built_bai ms d file meta nref unplaced in
  bai_ok i -> offsets_ordered 0 file -> spans_ok ms d file ->
  1 <= qs -> qs <= qe -> qe <= max_position ms d -> (k < nref)%nat ->
  exists i', read_bai (w_bai i) = Some i' /\
    query_records_ix Linear ms d (bref_refidx (nth k (bi_refs i') empty_bref)) file (N.of_nat k) qs qe
    = Some (scan_records file (N.of_nat k) qs qe).
Proof.
  intros i Hok Ho Hs H1 H2 H3 Hk. exists i. split; [apply bai_roundtrip; exact Hok|].
  unfold i, built_bai. cbn [bi_refs]. rewrite nth_map_seq by exact Hk.
  unfold bref_refidx. cbn [br_bins br_intervals].
  rewrite <- (query_equals_scan_linear ms d (N.of_nat k) file qs qe Ho Hs H1 H2 H3).
  unfold query_records, query_records_ix.
  destruct (build_ref ms d (N.of_nat k) file) as [b l lo]. reflexivity.
Qed.

Theorem via_file_csi ms d file hdr meta nref unplaced k qs qe :
  let i := built_csi ms d file hdr meta nref unplaced in
  csi_ok i -> offsets_ordered 0 file -> spans_ok ms d file ->
  1 <= qs -> qs <= qe -> qe <= max_position ms d -> (k < nref)%nat ->
  exists i', w_csi i = WOk (w_csi_bytes i) /\ read_csi (w_csi_bytes i) = Some i' /\
    query_records_ix Binned ms d (cref_refidx (nth k (ci_refs i') empty_cref)) file (N.of_nat k) qs qe
    = Some (scan_records file (N.of_nat k) qs qe).
Proof.
  intros i Hok Ho Hs H1 H2 H3 Hk.
  destruct (csi_file_roundtrip_queries ms d file hdr meta nref unplaced Hok Hs)
    as (i' & Hw & Hr & _ & _ & _ & _ & _ & Hq).
  exists i'. split; [exact Hw|]. split; [exact Hr|].
  destruct (Hq k Hk) as (_ & _ & Hqq).
  rewrite <- (query_equals_scan_binned ms d (N.of_nat k) file qs qe Ho Hs H1 H2 H3).
  unfold query_records, query_records_ix. rewrite Hqq. reflexivity.
Qed.
