(* Proofs about NV.Index.FormatsVcf: region query = scan filter for tabix/CSI-indexed VCF/BCF,
   with the span the specification gives; the VCF 4.5 SVLEN rule of noodles is the excluded class. *)
From Coq Require Import List Arith NArith ZArith Bool Lia.
From Coq Require Import ZifyBool ZifyNat ZifyN.
From NV Require Import Text.TextBase Vcf.Values Vcf.Span.
From NV Require Import Index.Bins Index.Chunks Index.Indexer Index.QueryProofs Index.AlignEnd
  Index.Formats Index.FormatsProofs Index.FormatsVcf.
Import ListNotations.
Open Scope N_scope.

(* noodles' end of the record is the specification's *)
Definition span_agrees (v45 : bool) (x : vcf_rec) : Prop :=
  forall e, si_pos (v_in x) <> 0 -> variant_end v45 (v_in x) = Ok e -> vcf_spec_end v45 x = Some e.

Lemma vcf_ctx_ok bcf v45 x :
  vcf_ctx bcf v45 x <> CErr -> vcf_ctx bcf v45 x <> CPanic ->
  si_pos (v_in x) <> 0 /\ exists e, variant_end v45 (v_in x) = Ok e /\
    vcf_ctx bcf v45 x = CSome (v_id x) (si_pos (v_in x)) e.
Proof.
  unfold vcf_ctx. destruct (si_pos (v_in x) =? 0) eqn:E0.
  - destruct (bcf && negb bcf_index_repaired); intros H1 H2; congruence.
  - destruct (variant_end v45 (v_in x)) as [e|er|]; intros H1 H2; try congruence.
    split; [lia|]. exists e. auto.
Qed.

Theorem vcf_query_equals_scan bcf v45 kd ms d nref l ixs k iv :
  ordered_f vcf_rec v_a v_b 0 l ->
  spans_ok ms d (placed vcf_rec (vcf_ctx bcf v45) v_a v_b l) ->
  vcf_index bcf v45 ms d nref l = Some ixs -> (N.to_nat k < length ixs)%nat ->
  region_ok ms d iv -> max_position ms d <= pos_max ->
  Forall (span_agrees v45) l ->
  vcf_query v45 kd ms d ixs l k iv = QOk (vcf_scan v45 l k iv).
Proof.
  intros Ho Hsp Hix Hk (Hq1 & Hq2 & Hq3) Hmax Hag. unfold vcf_query, vcf_scan.
  rewrite Forall_forall in Hag.
  assert (Hrec : forall x, In x l -> si_pos (v_in x) <> 0 /\ exists e,
            variant_end v45 (v_in x) = Ok e /\ vcf_spec_end v45 x = Some e /\
            vcf_ctx bcf v45 x = CSome (v_id x) (si_pos (v_in x)) e /\
            1 <= si_pos (v_in x) /\ si_pos (v_in x) <= e /\ e <= max_position ms d).
  { intros x Hx. destruct (fmt_index_ctx_ok _ _ _ _ _ _ _ _ x Hix Hx) as [H1 H2].
    destruct (vcf_ctx_ok bcf v45 x H1 H2) as (Hp & e & He & Hc). split; [exact Hp|].
    exists e.
    assert (Hs : 1 <= si_pos (v_in x) /\ si_pos (v_in x) <= e /\ e <= max_position ms d).
    { apply (Hsp (mkrec (v_id x) (si_pos (v_in x)) e (v_a x) (v_b x))).
      apply placed_in. exists x. split; [exact Hx|]. unfold to_rec. rewrite Hc. reflexivity. }
    split; [exact He|]. split; [exact (Hag x Hx e Hp He)|]. split; [exact Hc|exact Hs]. }
  apply (fmt_query_equals_scan vcf_rec (vcf_ctx bcf v45) v_a v_b (vcf_hit v45) kd ms d nref l ixs k iv
           (vcf_scan_hit v45 k iv) Ho Hsp Hix Hk Hq1 Hq2 Hq3).
  - intros x Hx. destruct (Hrec x Hx) as (Hp & e & He & Hs & _ & H1 & H2 & H3).
    unfold vcf_hit, vcf_scan_hit. rewrite Hs, He.
    destruct (v_id x =? k); cbn [negb andb]; [|reflexivity].
    replace (si_pos (v_in x) =? 0) with false by lia.
    destruct (unbounded iv) eqn:Eu; [|reflexivity].
    destruct iv as [[?|] [?|]]; try discriminate.
    unfold iv_intersects, iv_end_filter, iv_start. cbn [fst snd].
    f_equal. symmetry. apply andb_true_intro. split; lia.
  - intros x Hx Hh. destruct (Hrec x Hx) as (Hp & e & He & Hs & Hc & H1 & H2 & H3).
    unfold vcf_scan_hit in Hh. rewrite Hs in Hh. apply andb_prop in Hh. destruct Hh as [Ek Hi].
    apply N.eqb_eq in Ek. eexists. split; [unfold to_rec; rewrite Hc; reflexivity|].
    unfold intersects, on_ref. cbn [r_rid r_s r_e]. rewrite Ek, N.eqb_refl. cbn [andb].
    unfold iv_intersects in Hi. apply andb_prop in Hi. destruct Hi as [Hi1 Hi2].
    apply andb_true_intro. split; [|exact Hi2].
    unfold iv_end_query, iv_end_filter in *. destruct (snd iv); [exact Hi1|]. lia.
Qed.

(* ---- before VCF 4.5 the two spans always agree ---- *)
Lemma span_agrees_44 x : span_agrees false x.
Proof.
  intros e Hp H. unfold vcf_spec_end, spec_end_44. unfold variant_end in H. cbn match in H.
  unfold info_end in H.
  destruct (si_end (v_in x)) as [[v|]|].
  - destruct v; try discriminate. destruct (1 <=? z)%Z; [congruence|discriminate].
  - unfold Span.ref_len, end_from_len, start_of in H.
    destruct (si_reflen (v_in x) =? 0) eqn:E0; [discriminate|].
    replace (si_pos (v_in x) =? 0) with false in H by lia.
    destruct (usize_max <? _); [discriminate|]. injection H as H. f_equal. lia.
  - unfold Span.ref_len, end_from_len, start_of in H.
    destruct (si_reflen (v_in x) =? 0) eqn:E0; [discriminate|].
    replace (si_pos (v_in x) =? 0) with false in H by lia.
    destruct (usize_max <? _); [discriminate|]. injection H as H. f_equal. lia.
Qed.

Theorem vcf_query_equals_scan_44 bcf kd ms d nref l ixs k iv :
  ordered_f vcf_rec v_a v_b 0 l ->
  spans_ok ms d (placed vcf_rec (vcf_ctx bcf false) v_a v_b l) ->
  vcf_index bcf false ms d nref l = Some ixs -> (N.to_nat k < length ixs)%nat ->
  region_ok ms d iv -> max_position ms d <= pos_max ->
  vcf_query false kd ms d ixs l k iv = QOk (vcf_scan false l k iv).
Proof.
  intros. eapply vcf_query_equals_scan; eauto. apply Forall_forall. intros x _. apply span_agrees_44.
Qed.

(* ---- VCF 4.5: they agree on every record without an INFO SVLEN value ---- *)
Definition acc_val (a : option N) : N := match a with Some m => m | None => 0 end.

Lemma fold_max_base : forall L u v, fold_right N.max (N.max u v) L = N.max v (fold_right N.max u L).
Proof. induction L as [|h t IH]; intros u v; cbn [fold_right]; [lia|]. rewrite IH. lia. Qed.

Lemma max_sample_lens_spec pos b : 1 <= b -> forall l acc r,
  max_sample_lens l acc = Ok r ->
  pos + N.max b (acc_val r) - 1 = fold_right N.max (pos + N.max b (acc_val acc) - 1) (len_ends pos l).
Proof.
  intros Hb. induction l as [|[v|] t IH]; intros acc r H; cbn [max_sample_lens len_ends] in *.
  - injection H as H. subst r. reflexivity.
  - destruct v; try discriminate. destruct (z <? 0)%Z eqn:Ez; [discriminate|].
    cbn [fold_right]. rewrite (IH _ _ H). destruct acc as [m|]; cbn [acc_val].
    + replace (pos + N.max b (N.max m (Z.to_N z)) - 1) with (N.max (pos + N.max b m - 1) (pos + Z.to_N z - 1)) by lia.
      apply fold_max_base.
    + replace (pos + N.max b (Z.to_N z) - 1) with (N.max (pos + N.max b 0 - 1) (pos + Z.to_N z - 1)) by lia.
      apply fold_max_base.
  - exact (IH _ _ H).
Qed.

Lemma max_lens_none : forall l acc r,
  existsb (fun o : option Z => match o with Some _ => true | None => false end) l = false ->
  max_lens l acc = Ok r -> r = acc.
Proof.
  induction l as [|[z|] t IH]; intros acc r Hn H; cbn [max_lens existsb] in *.
  - congruence.
  - discriminate.
  - exact (IH _ _ Hn H).
Qed.

Lemma allele_ends_none pos : forall sv alts,
  existsb (fun o : option Z => match o with Some _ => true | None => false end) sv = false ->
  allele_ends pos alts sv = [].
Proof.
  induction sv as [|[z|] t IH]; intros alts Hn; destruct alts as [|a at_]; cbn [allele_ends existsb] in *;
    try reflexivity; try discriminate. apply IH. exact Hn.
Qed.

Lemma span_agrees_45 x : has_svlen x = false -> span_agrees true x.
Proof.
  intros Hn e Hp H. unfold vcf_spec_end, spec_end_45. f_equal.
  unfold has_svlen, svlen_list in *. unfold variant_end in H. cbn match in H.
  unfold Span.ref_len in H. destruct (si_reflen (v_in x) =? 0) eqn:E0; [discriminate|].
  assert (Hsv : exists sv, info_max_svlen (si_svlen (v_in x)) = Ok sv /\ sv = None /\
            allele_ends (si_pos (v_in x)) (v_alts x)
              match si_svlen (v_in x) with Some (Some (VIntArr l)) => l | _ => [] end = []).
  { unfold info_max_svlen in *. destruct (si_svlen (v_in x)) as [[v|]|].
    - destruct v; try discriminate.
      destruct (max_lens l None) as [sv|er|] eqn:Em; try discriminate.
      exists sv. split; [reflexivity|]. split; [exact (max_lens_none _ _ _ Hn Em)|].
      apply allele_ends_none. exact Hn.
    - exists None. repeat split; destruct (v_alts x); reflexivity.
    - exists None. repeat split; destruct (v_alts x); reflexivity. }
  destruct Hsv as (sv & Hsv & Esv & Hae). rewrite Hsv in H. subst sv. rewrite Hae. cbn [app].
  unfold samples_max_len in H.
  destruct (si_len (v_in x)) as [ls|].
  - destruct (max_sample_lens ls None) as [sl|er|] eqn:Es; try discriminate.
    pose proof (max_sample_lens_spec (si_pos (v_in x)) (si_reflen (v_in x)) ltac:(lia) ls None sl Es) as Hm.
    cbn [acc_val] in Hm. replace (N.max (si_reflen (v_in x)) 0) with (si_reflen (v_in x)) in Hm by lia.
    rewrite <- Hm. unfold end_from_len, start_of in H.
    replace (si_pos (v_in x) =? 0) with false in H by lia.
    destruct (usize_max <? _); [discriminate|]. injection H as H. subst e.
    destruct sl as [n|]; cbn [acc_val]; lia.
  - cbn [fold_right len_ends]. unfold end_from_len, start_of in H.
    replace (si_pos (v_in x) =? 0) with false in H by lia.
    destruct (usize_max <? _); [discriminate|]. injection H as H. lia.
Qed.

Theorem vcf_query_equals_scan_45 bcf kd ms d nref l ixs k iv :
  ordered_f vcf_rec v_a v_b 0 l ->
  spans_ok ms d (placed vcf_rec (vcf_ctx bcf true) v_a v_b l) ->
  vcf_index bcf true ms d nref l = Some ixs -> (N.to_nat k < length ixs)%nat ->
  region_ok ms d iv -> max_position ms d <= pos_max ->
  Forall (fun x => has_svlen x = false) l ->
  vcf_query true kd ms d ixs l k iv = QOk (vcf_scan true l k iv).
Proof.
  intros Ho Hsp Hix Hk Hr Hm Hn. eapply vcf_query_equals_scan; eauto.
  rewrite Forall_forall in *. intros x Hx. apply span_agrees_45. exact (Hn x Hx).
Qed.

(* ---- tabix: a region on a contig without records (known finding
   vcf-tabix-query-on-contig-without-records-is-an-error): the query is refused although the scan
   answer is the empty list ---- *)
Lemma index_of_none : forall l c, index_of c l = None <-> ~ In c l.
Proof.
  induction l as [|y t IH]; intros c; cbn [index_of In]; [tauto|].
  destruct (c =? y) eqn:E.
  - split; [discriminate|]. intros H. exfalso. apply H. left. lia.
  - destruct (index_of c t) eqn:Et.
    + split; [discriminate|]. intros H. exfalso. assert (Hn : ~ In c t) by tauto. apply IH in Hn. congruence.
    + split; [|reflexivity]. intros _ [H|H]; [lia|]. revert H. apply IH. exact Et.
Qed.

Lemma tabix_names_in : forall names seen c, In c (tabix_names seen names) <-> In c seen \/ In c names.
Proof.
  induction names as [|x t IH]; intros seen c; cbn [tabix_names In]; [tauto|].
  destruct (index_of x seen) eqn:E.
  - rewrite IH. split; [tauto|]. intros [H|[H|H]]; auto. subst x. left.
    destruct (in_dec N.eq_dec c seen) as [Hi|Hn]; [exact Hi|]. apply index_of_none in Hn. congruence.
  - rewrite IH, in_app_iff. cbn [In]. tauto.
Qed.

Theorem tabix_query_contig_without_records v45 ixs l c iv :
  (forall x, In x l -> v_id x <> c) ->
  tabix_query v45 ixs l c iv = (if tabix_empty_contig_repaired then QOk [] else QInvalid) /\
  vcf_scan v45 l c iv = [].
Proof.
  intros H. split.
  - unfold tabix_query, tabix_renumber.
    replace (index_of c (tabix_names [] (map v_id l))) with (@None N); [reflexivity|].
    symmetry. apply index_of_none. rewrite tabix_names_in. intros [[]|Hin].
    apply in_map_iff in Hin. destruct Hin as (x & E & Hx). exact (H x Hx E).
  - unfold vcf_scan. apply filter_none. intros x Hx. unfold vcf_scan_hit.
    replace (v_id x =? c) with false; [reflexivity|]. symmetry. apply N.eqb_neq. exact (H x Hx).
Qed.
