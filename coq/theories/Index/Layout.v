(* Byte layouts of the binary index files and their readers:
   BAI  (noodles-bam/src/bai/io/{writer,reader}/index/**, sharing chunk/metadata readers with noodles-csi)
   gzi  (noodles-bgzf/src/gzi/io/{writer,reader}/index.rs)
   Writers produce byte lists; readers are parsers  list N -> option (value * rest)
   (None = any io::Error: UnexpectedEof or InvalidData). *)
From Coq Require Import List Arith NArith Bool.
From NV Require Import Base.LE.
Import ListNotations.
Open Scope N_scope.

Definition parser (A : Type) := list N -> option (A * list N).

Definition p_le (k : nat) : parser N := fun bs =>
  if (k <=? length bs)%nat then Some (le_dec (firstn k bs), skipn k bs) else None.

Fixpoint p_repeat {A} (n : nat) (p : parser A) : parser (list A) := fun bs =>
  match n with
  | O => Some ([], bs)
  | S n' => match p bs with
            | None => None
            | Some (x, rest) => match p_repeat n' p rest with
                                | None => None
                                | Some (xs, rest') => Some (x :: xs, rest')
                                end
            end
  end.

(* ---------- chunks, bins, metadata (shared by BAI and CSI) ---------- *)
Definition chunkp := (N * N)%type.
Definition w_chunk (c : chunkp) : list N := le64 (fst c) ++ le64 (snd c).
Definition p_chunk : parser chunkp := fun bs =>
  match p_le 8 bs with
  | None => None
  | Some (a, r1) => match p_le 8 r1 with None => None | Some (b, r2) => Some ((a, b), r2) end
  end.

Definition w_chunks (cs : list chunkp) : list N := le32 (N.of_nat (length cs)) ++ concat (map w_chunk cs).
(* n_chunk is read as an i32 and must be non-negative *)
Definition p_chunks : parser (list chunkp) := fun bs =>
  match p_le 4 bs with
  | None => None
  | Some (n, r) => if n <? 2147483648 then p_repeat (N.to_nat n) p_chunk r else None
  end.

Record metadata := mkmeta { m_beg : N; m_end : N; m_mapped : N; m_unmapped : N }.
Definition w_metadata_body (m : metadata) : list N :=
  le32 2 ++ le64 (m_beg m) ++ le64 (m_end m) ++ le64 (m_mapped m) ++ le64 (m_unmapped m).
Definition p_metadata_body : parser metadata := fun bs =>
  match p_le 4 bs with
  | None => None
  | Some (n, r0) =>
    if n =? 2 then
      match p_le 8 r0 with None => None | Some (a, r1) =>
      match p_le 8 r1 with None => None | Some (b, r2) =>
      match p_le 8 r2 with None => None | Some (c, r3) =>
      match p_le 8 r3 with None => None | Some (d, r4) => Some (mkmeta a b c d, r4) end end end end
    else None
  end.

(* ---------- BAI ---------- *)
Definition bai_metadata_id : N := 37450.
Definition bai_magic : list N := [66; 65; 73; 1].

Definition binp := (N * list chunkp)%type.
Record bai_ref := mkbref { br_bins : list binp; br_meta : option metadata; br_intervals : list N }.
Record bai_index := mkbai { bi_refs : list bai_ref; bi_unplaced : option N }.

Definition w_bin (b : binp) : list N := le32 (fst b) ++ w_chunks (snd b).
Definition w_bins (bins : list binp) (m : option metadata) : list N :=
  le32 (N.of_nat (length bins) + match m with Some _ => 1 | None => 0 end)
  ++ concat (map w_bin bins)
  ++ match m with Some m => le32 bai_metadata_id ++ w_metadata_body m | None => [] end.
Definition w_intervals (l : list N) : list N := le32 (N.of_nat (length l)) ++ concat (map le64 l).
Definition w_bai_ref (r : bai_ref) : list N := w_bins (br_bins r) (br_meta r) ++ w_intervals (br_intervals r).
Definition w_bai (i : bai_index) : list N :=
  bai_magic ++ le32 (N.of_nat (length (bi_refs i))) ++ concat (map w_bai_ref (bi_refs i))
  ++ match bi_unplaced i with Some n => le64 n | None => [] end.

(* read_bins: n_bin entries; the metadata pseudo-bin may appear anywhere; duplicates are errors *)
Fixpoint p_bins_loop (n : nat) (acc : list binp) (m : option metadata) : parser (list binp * option metadata) := fun bs =>
  match n with
  | O => Some ((rev acc, m), bs)
  | S n' =>
    match p_le 4 bs with
    | None => None
    | Some (id, r) =>
      if id =? bai_metadata_id then
        match p_metadata_body r with
        | None => None
        | Some (md, r') => match m with Some _ => None | None => p_bins_loop n' acc (Some md) r' end
        end
      else
        match p_chunks r with
        | None => None
        | Some (cs, r') =>
          if existsb (fun b => fst b =? id) acc then None else p_bins_loop n' ((id, cs) :: acc) m r'
        end
    end
  end.

Definition p_bins : parser (list binp * option metadata) := fun bs =>
  match p_le 4 bs with
  | None => None
  | Some (n, r) => p_bins_loop (N.to_nat n) [] None r
  end.

Definition p_intervals : parser (list N) := fun bs =>
  match p_le 4 bs with
  | None => None
  | Some (n, r) => p_repeat (N.to_nat n) (p_le 8) r
  end.

Definition p_bai_ref : parser bai_ref := fun bs =>
  match p_bins bs with
  | None => None
  | Some ((bins, m), r) => match p_intervals r with None => None | Some (iv, r') => Some (mkbref bins m iv, r') end
  end.

(* whole-file reader: magic, references, then the optional trailing count: exactly 8 more bytes
   give Some, zero bytes give None; a partial field is UnexpectedEof from read_exact... which the
   reader maps to None as well (read_exact reports UnexpectedEof for 1..7 bytes too) *)
Definition read_bai (bs : list N) : option bai_index :=
  match bs with
  | 66 :: 65 :: 73 :: 1 :: r0 =>
    match p_le 4 r0 with
    | None => None
    | Some (n, r1) =>
      match p_repeat (N.to_nat n) p_bai_ref r1 with
      | None => None
      | Some (refs, r2) =>
        match p_le 8 r2 with
        | Some (c, _) => Some (mkbai refs (Some c))
        | None => Some (mkbai refs None)
        end
      end
    end
  | _ => None
  end.

(* ---------- gzi ---------- *)
Definition w_gzi (idx : list (N * N)) : list N :=
  le64 (N.of_nat (length idx)) ++ concat (map w_chunk idx).
Definition read_gzi (bs : list N) : option (list (N * N)) :=
  match p_le 8 bs with
  | None => None
  | Some (n, r) =>
    match p_repeat (N.to_nat n) p_chunk r with
    | Some (l, []) => Some l
    | _ => None          (* truncated, or trailing data = InvalidData *)
    end
  end.
