(* Text layouts of the fai (FASTA) and crai (CRAM, inside gzip -- the gzip container is opaque
   here) index files: tab-separated decimal fields, LF-terminated lines.
     noodles-fasta/src/fai/io/writer/record.rs, fai/io/reader.rs, fai/io/reader/record.rs
     noodles-cram/src/crai/io/writer/record.rs, crai/io/reader.rs, crai/io/reader/record.rs
   Readers: crai reads each line into a String (InvalidData when the line is not UTF-8); fai reads
   it as bytes (the name is any bytes up to the first TAB; only the numeric fields go through
   str::from_utf8); both strip the LF and a CR before it, split on the first 5 (4) tabs, parse the
   fields with str::parse.
   None = any io::Error.  Definitions only; proofs in TextIndexProofs.v. *)
From Coq Require Import List NArith ZArith Bool.
From NV Require Import Base.Decimal.
Import ListNotations.
Open Scope N_scope.

(* core::str::from_utf8(..).is_ok(): well-formed UTF-8 byte sequences (Unicode table 3-7); the
   same definition as NV.Fasta.Fastq.utf8_valid, repeated here so that this file does not depend
   on another property's theory *)
Definition in_rng (lo hi b : N) : bool := (lo <=? b) && (b <=? hi).
Definition cont (b : N) : bool := in_rng 128 191 b.
Fixpoint utf8_valid (s : list N) : bool :=
  match s with
  | [] => true
  | b :: t =>
      if b <? 128 then utf8_valid t
      else if in_rng 194 223 b then
        match t with
        | c1 :: t1 => cont c1 && utf8_valid t1
        | _ => false
        end
      else if in_rng 224 239 b then
        match t with
        | c1 :: c2 :: t2 =>
            (if b =? 224 then in_rng 160 191 c1 else if b =? 237 then in_rng 128 159 c1 else cont c1)
            && cont c2 && utf8_valid t2
        | _ => false
        end
      else if in_rng 240 244 b then
        match t with
        | c1 :: c2 :: c3 :: t3 =>
            (if b =? 240 then in_rng 144 191 c1 else if b =? 244 then in_rng 128 143 c1 else cont c1)
            && cont c2 && cont c3 && utf8_valid t3
        | _ => false
        end
      else false
  end.

Definition TAB : N := 9.
Definition LF : N := 10.
Definition CR : N := 13.

(* up to the first [sep]: (before, Some after) or (all, None) *)
Fixpoint break_at (sep : N) (bs : list N) : list N * option (list N) :=
  match bs with
  | [] => ([], None)
  | b :: t => if b =? sep then ([], Some t)
              else let '(l, r) := break_at sep t in (b :: l, r)
  end.

(* drop one trailing CR *)
Fixpoint strip_cr (l : list N) : list N :=
  match l with
  | [] => []
  | x :: t => match t with
              | [] => if x =? CR then [] else [x]
              | _ => x :: strip_cr t
              end
  end.

(* the line loop shared by both readers: [parse] is parse_record; [check] is the validation the
   line reader applies to the raw line (up to and without the LF) before anything else:
     crai: BufRead::read_line into a String  -> the line must be valid UTF-8 (InvalidData otherwise)
     fai : BufRead::read_until into a Vec<u8> (since the `fix:` commit 24986d3) -> no check *)
Fixpoint read_lines_gen {A} (check : list N -> bool) (fuel : nat) (parse : list N -> option A)
    (bs : list N) : option (list A) :=
  match fuel with
  | O => None
  | S f =>
      match bs with
      | [] => Some []                       (* the line reader returned 0 *)
      | _ =>
          let '(raw, rest) := break_at LF bs in
          if check raw then
            let line := match rest with Some _ => strip_cr raw | None => raw end in
            match parse line with
            | None => None
            | Some r =>
                match rest with
                | None => Some [r]
                | Some rest' =>
                    match read_lines_gen check f parse rest' with
                    | None => None
                    | Some rs => Some (r :: rs)
                    end
                end
            end
          else None
      end
  end.

(* lines read as Strings (crai) / as bytes (fai) *)
Definition read_lines {A} := @read_lines_gen A utf8_valid.
Definition no_check (_ : list N) : bool := true.
Definition read_lines_bytes {A} := @read_lines_gen A no_check.

(* <u64 as FromStr>::from_str: optional '+', digits, no '-', range checked *)
Definition u64_max : Z := 18446744073709551615%Z.
Definition parse_u64 (s : list N) : option N := option_map Z.to_N (parse_int false 0 u64_max s).
Definition parse_nz_u64 (s : list N) : option N :=
  match parse_u64 s with Some 0 => None | o => o end.
(* the fai reader's numeric fields are byte slices: str::from_utf8 (InvalidData when it fails) and
   then str::parse.  The UTF-8 step never decides alone: a field that parses is ASCII
   (TextIndexProofs.parse_u64_bytes_eq), so parse_fai_rec uses parse_u64 / parse_nz_u64 directly *)
Definition parse_u64_bytes (s : list N) : option N := if utf8_valid s then parse_u64 s else None.
Definition parse_nz_u64_bytes (s : list N) : option N := if utf8_valid s then parse_nz_u64 s else None.

(* ---------- fai ---------- *)
Record fai_rec := mkfai { f_name : list N; f_len : N; f_pos : N; f_lb : N; f_lw : N }.

Definition w_fai_rec (r : fai_rec) : list N :=
  f_name r ++ TAB :: fmt_N (f_len r) ++ TAB :: fmt_N (f_pos r) ++ TAB :: fmt_N (f_lb r)
  ++ TAB :: fmt_N (f_lw r) ++ [LF].
Definition w_fai (l : list fai_rec) : list N := concat (map w_fai_rec l).

(* splitn(5, '\t'): the fifth field is whatever is left *)
Definition parse_fai_rec (s : list N) : option fai_rec :=
  match s with
  | [] => None                                         (* "empty input" *)
  | _ =>
    let '(name, o1) := break_at TAB s in
    match o1 with None => None | Some r1 =>
    let '(f2, o2) := break_at TAB r1 in
    match parse_u64 f2 with None => None | Some len =>
    match o2 with None => None | Some r2 =>
    let '(f3, o3) := break_at TAB r2 in
    match parse_u64 f3 with None => None | Some pos =>
    match o3 with None => None | Some r3 =>
    let '(f4, o4) := break_at TAB r3 in
    match parse_nz_u64 f4 with None => None | Some lb =>
    match o4 with None => None | Some r4 =>
    match parse_nz_u64 r4 with None => None | Some lw =>
    Some (mkfai name len pos lb lw)
    end end end end end end end end
  end.

Definition read_fai (bs : list N) : option (list fai_rec) :=
  read_lines_bytes (S (length bs)) parse_fai_rec bs.

(* ---------- crai (the text inside the gzip member) ---------- *)
Record crai_rec := mkcrai {
  c_rid : option N;      (* reference_sequence_id: Option<usize> *)
  c_start : option N;    (* alignment_start: Option<Position>, Some p has p >= 1 *)
  c_span : N; c_off : N; c_land : N; c_slen : N }.

Definition w_crai_rec (r : crai_rec) : list N :=
  match c_rid r with Some id => fmt_N id | None => fmt_dec (-1) end
  ++ TAB :: fmt_N (match c_start r with Some p => p | None => 0 end)
  ++ TAB :: fmt_N (c_span r) ++ TAB :: fmt_N (c_off r) ++ TAB :: fmt_N (c_land r)
  ++ TAB :: fmt_N (c_slen r) ++ [LF].
Definition w_crai (l : list crai_rec) : list N := concat (map w_crai_rec l).

Definition i32_min : Z := (-2147483648)%Z.
Definition i32_maxz : Z := 2147483647%Z.

Definition parse_crai_rec (s : list N) : option crai_rec :=
  let '(f1, o1) := break_at TAB s in
  match parse_int true i32_min i32_maxz f1 with None => None | Some ridz =>
  if (ridz <? -1)%Z then None else
  let rid := if (ridz =? -1)%Z then None else Some (Z.to_N ridz) in
  match o1 with None => None | Some r1 =>
  let '(f2, o2) := break_at TAB r1 in
  match parse_u64 f2 with None => None | Some st =>
  match o2 with None => None | Some r2 =>
  let '(f3, o3) := break_at TAB r2 in
  match parse_u64 f3 with None => None | Some span =>
  match o3 with None => None | Some r3 =>
  let '(f4, o4) := break_at TAB r3 in
  match parse_u64 f4 with None => None | Some off =>
  match o4 with None => None | Some r4 =>
  let '(f5, o5) := break_at TAB r4 in
  match parse_u64 f5 with None => None | Some land =>
  match o5 with None => None | Some r5 =>
  match parse_u64 r5 with None => None | Some slen =>
  Some (mkcrai rid (if st =? 0 then None else Some st) span off land slen)
  end end end end end end end end end end end.

Definition read_crai (bs : list N) : option (list crai_rec) :=
  read_lines (S (length bs)) parse_crai_rec bs.
