(* Model of chunk-list handling in noodles-csi:
   bin.rs::Bin::add_chunk and binning_index.rs::{merge_chunks, optimize_chunks}.
   A chunk is a pair (start, end) of virtual positions, taken as plain N. *)
From Coq Require Import List NArith.
Import ListNotations.
Open Scope N_scope.

Definition chunk := (N * N)%type.
Definition cstart (c : chunk) : N := fst c.
Definition cend (c : chunk) : N := snd c.

(* half-open coverage, as csi/io/query.rs reads while vpos < chunk.end *)
Definition covers (c : chunk) (v : N) : Prop := cstart c <= v /\ v < cend c.
Definition covered (cs : list chunk) (v : N) : Prop := exists c, In c cs /\ covers c v.

(* Bin::add_chunk: merge into the last chunk when the new one starts at or before its end *)
Fixpoint add_chunk (cs : list chunk) (c : chunk) : list chunk :=
  match cs with
  | [] => [c]
  | [l] => if cstart c <=? cend l then [(cstart l, cend c)] else [l; c]
  | x :: rest => x :: add_chunk rest c
  end.

(* insertion sort by start (the Rust uses sort_unstable_by_key on start) *)
Fixpoint insert_by_start (c : chunk) (cs : list chunk) : list chunk :=
  match cs with
  | [] => [c]
  | x :: rest => if cstart c <? cstart x then c :: x :: rest else x :: insert_by_start c rest
  end.
Definition sort_by_start (cs : list chunk) : list chunk := fold_right insert_by_start [] cs.

(* the merge loop: cur is current_chunk, acc is pushed in order *)
Fixpoint merge_loop (cur : chunk) (rest : list chunk) : list chunk :=
  match rest with
  | [] => [cur]
  | nx :: rest' =>
      if cend cur <? cstart nx then cur :: merge_loop nx rest'
      else if cend cur <? cend nx then merge_loop (cstart cur, cend nx) rest'
      else merge_loop cur rest'
  end.

Definition optimize_chunks (cs : list chunk) (min_offset : N) : list chunk :=
  match sort_by_start (filter (fun c => min_offset <? cend c) cs) with
  | [] => []
  | c :: rest => merge_loop c rest
  end.

Definition merge_chunks (cs : list chunk) : list chunk := optimize_chunks cs 0.
