(* C17 -- optimize_chunks on ARBITRARY chunk lists (duplicates, nested and overlapping chunks, empty
   chunks start = end, inverted chunks end < start; not only lists an indexer can build), and for
   ANY order in which `sort_unstable_by_key(start)` may leave chunks with equal starts:
   [merge_sorted s] is the merge loop of binning_index.rs::optimize_chunks run on ANY list [s]
   that is a permutation of the retained chunks sorted by start.
     * coverage: exactly the points of the retained input chunks (nothing uncovered, nothing added);
     * shape: sorted and strictly separated; every output start is the start of a retained input
       chunk and every output end the end of one; never more chunks than were retained;
     * canonical form: when the retained chunks are proper (start < end) the output is THE separated
       list of proper chunks with that coverage -- so it does not depend on how the unstable sort
       orders ties, and equals the model's (stable insertion sort) [optimize_chunks]. *)
From Coq Require Import List Arith NArith Lia Sorted Permutation.
From Coq Require Import ZifyBool ZifyNat ZifyN.
From NV Require Import Index.Chunks Index.ChunksProofs Index.ChunksAny.
Import ListNotations.
Open Scope N_scope.

Lemma optimize_chunks_is_merge_sorted : forall cs m,
  optimize_chunks cs m = merge_sorted (sort_by_start (retained m cs)).
Proof. reflexivity. Qed.

Lemma insert_perm : forall c cs, Permutation (insert_by_start c cs) (c :: cs).
Proof.
  intros c cs. induction cs as [|x rest IH]; cbn [insert_by_start]; [apply Permutation_refl|].
  destruct (cstart c <? cstart x); [apply Permutation_refl|].
  apply perm_trans with (x :: c :: rest); [apply perm_skip; exact IH|apply perm_swap].
Qed.

Lemma sort_perm : forall cs, Permutation (sort_by_start cs) cs.
Proof.
  induction cs as [|x rest IH]; cbn [sort_by_start fold_right]; [apply perm_nil|].
  fold (sort_by_start rest). apply perm_trans with (x :: sort_by_start rest); [apply insert_perm|].
  apply perm_skip. exact IH.
Qed.

(* ---- endpoints and length of the merge loop (no sortedness needed) ---- *)
Lemma merge_loop_endpoints : forall rest cur o, In o (merge_loop cur rest) ->
  (exists c, In c (cur :: rest) /\ cstart o = cstart c) /\
  (exists c, In c (cur :: rest) /\ cend o = cend c).
Proof.
  induction rest as [|nx rest IH]; intros cur o Ho; cbn [merge_loop] in Ho.
  - destruct Ho as [Ho|[]]. subst o. split; exists cur; cbn [In]; auto.
  - destruct (cend cur <? cstart nx).
    + destruct Ho as [Ho|Ho].
      * subst o. split; exists cur; cbn [In]; auto.
      * destruct (IH nx o Ho) as [[c [Hc Hs]] [c' [Hc' He]]].
        split; [exists c|exists c']; cbn [In] in *; auto.
    + destruct (cend cur <? cend nx).
      * destruct (IH _ o Ho) as [[c [Hc Hs]] [c' [Hc' He]]]. split.
        -- destruct Hc as [Hc|Hc]; [exists cur; subst c; cbn [In cstart fst] in *; auto|exists c; cbn [In]; auto].
        -- destruct Hc' as [Hc'|Hc']; [exists nx; subst c'; cbn [In cend snd] in *; auto|exists c'; cbn [In]; auto].
      * destruct (IH _ o Ho) as [[c [Hc Hs]] [c' [Hc' He]]]. split.
        -- destruct Hc as [Hc|Hc]; [exists cur; subst c; cbn [In]; auto|exists c; cbn [In]; auto].
        -- destruct Hc' as [Hc'|Hc']; [exists cur; subst c'; cbn [In]; auto|exists c'; cbn [In]; auto].
Qed.

Lemma merge_loop_length : forall rest cur, (length (merge_loop cur rest) <= S (length rest))%nat.
Proof.
  induction rest as [|nx rest IH]; intros cur; cbn [merge_loop length]; [lia|].
  destruct (cend cur <? cstart nx).
  - cbn [length]. specialize (IH nx). lia.
  - destruct (cend cur <? cend nx).
    + specialize (IH (cstart cur, cend nx)). lia.
    + specialize (IH cur). lia.
Qed.

Lemma merge_loop_proper : forall rest cur, proper cur -> Forall proper rest ->
  Forall proper (merge_loop cur rest).
Proof.
  induction rest as [|nx rest IH]; intros cur Hc Hr; cbn [merge_loop]; [constructor; [exact Hc|constructor]|].
  inversion Hr as [|? ? Hnx Hr']; subst.
  destruct (cend cur <? cstart nx) eqn:E1.
  - constructor; [exact Hc|]. apply IH; assumption.
  - destruct (cend cur <? cend nx) eqn:E2.
    + apply IH; [|assumption]. unfold proper in *. cbn [cstart cend fst snd]. unfold cstart, cend in *. lia.
    + apply IH; assumption.
Qed.

(* ---- the merge loop on any sorted list ---- *)
Theorem merge_sorted_spec : forall s,
  StronglySorted le_start s ->
  (forall v, covered (merge_sorted s) v <-> covered s v) /\
  separated (merge_sorted s) /\
  (forall o, In o (merge_sorted s) ->
     (exists c, In c s /\ cstart o = cstart c) /\ (exists c, In c s /\ cend o = cend c)) /\
  (length (merge_sorted s) <= length s)%nat.
Proof.
  intros s Hs. destruct s as [|c rest]; cbn [merge_sorted].
  - split; [tauto|]. split; [constructor|]. split; [intros o []|cbn [length]; lia].
  - split; [intros v; apply merge_loop_covered; exact Hs|].
    split; [apply merge_loop_separated|].
    split; [intros o Ho; apply merge_loop_endpoints; exact Ho|].
    cbn [length]. apply merge_loop_length.
Qed.

(* the property for arbitrary chunk lists and any tie order of the unstable sort *)
Theorem optimize_chunks_any : forall cs m s,
  Permutation s (retained m cs) -> StronglySorted le_start s ->
  let out := merge_sorted s in
  (forall v, covered out v <-> exists c, In c cs /\ m < cend c /\ covers c v) /\
  separated out /\
  (forall o, In o out ->
     (exists c, In c cs /\ m < cend c /\ cstart o = cstart c) /\
     (exists c, In c cs /\ m < cend c /\ cend o = cend c)) /\
  (length out <= length (retained m cs))%nat.
Proof.
  intros cs m s Hp Hs out.
  assert (Hin : forall c, In c s <-> In c cs /\ m < cend c).
  { intros c. split.
    - intros H. apply (Permutation_in _ Hp) in H. unfold retained in H.
      rewrite filter_In, N.ltb_lt in H. exact H.
    - intros H. apply (Permutation_in _ (Permutation_sym Hp)). unfold retained.
      rewrite filter_In, N.ltb_lt. exact H. }
  destruct (merge_sorted_spec s Hs) as [Hcov [Hsep [Hend Hlen]]].
  split.
  { intros v. unfold out. rewrite Hcov. unfold covered. split.
    - intros (c & Hc & Hv). exists c. apply Hin in Hc. tauto.
    - intros (c & Hc & Hm & Hv). exists c. split; [apply Hin; auto|exact Hv]. }
  split; [exact Hsep|]. split.
  { intros o Ho. destruct (Hend o Ho) as [[c [Hc E]] [c' [Hc' E']]].
    apply Hin in Hc. apply Hin in Hc'. split; [exists c|exists c']; tauto. }
  unfold out. rewrite <- (Permutation_length Hp). exact Hlen.
Qed.

(* the model's own sort is one such order *)
Corollary optimize_chunks_model_any : forall cs m,
  let out := optimize_chunks cs m in
  (forall v, covered out v <-> exists c, In c cs /\ m < cend c /\ covers c v) /\
  separated out /\
  (forall o, In o out ->
     (exists c, In c cs /\ m < cend c /\ cstart o = cstart c) /\
     (exists c, In c cs /\ m < cend c /\ cend o = cend c)) /\
  (length out <= length (retained m cs))%nat.
Proof.
  intros cs m. rewrite optimize_chunks_is_merge_sorted.
  apply optimize_chunks_any; [apply sort_perm|apply sort_sorted].
Qed.

(* ---- canonical form ---- *)
Lemma separated_tail : forall a tl, separated (a :: tl) -> separated tl.
Proof. intros a tl H. inversion H; subst; [constructor|assumption]. Qed.

Lemma separated_above : forall tl a, separated (a :: tl) -> Forall proper (a :: tl) ->
  forall c, In c tl -> cend a < cstart c.
Proof.
  induction tl as [|b tl IH]; intros a Hs Hp c Hc; [destruct Hc|].
  inversion Hs as [| |? ? ? Hab Hs']; subst.
  inversion Hp as [|? ? Ha Hp']; subst. inversion Hp' as [|? ? Hb Hp'']; subst.
  destruct Hc as [Hc|Hc]; [subst c; exact Hab|].
  specialize (IH b Hs' Hp' c Hc). unfold proper in Hb. lia.
Qed.

Lemma covered_tail_above : forall tl a v, separated (a :: tl) -> Forall proper (a :: tl) ->
  covered tl v -> cend a < v.
Proof.
  intros tl a v Hs Hp (c & Hc & Hv). pose proof (separated_above tl a Hs Hp c Hc) as H.
  unfold covers in Hv. lia.
Qed.

Lemma head_start_le : forall a tl v, separated (a :: tl) -> Forall proper (a :: tl) ->
  covered (a :: tl) v -> cstart a <= v.
Proof.
  intros a tl v Hs Hp (c & [Hc|Hc] & Hv).
  - subst c. unfold covers in Hv. lia.
  - pose proof (separated_above tl a Hs Hp c Hc) as H. inversion Hp as [|? ? Ha _]; subst.
    unfold proper in Ha. unfold covers in Hv. lia.
Qed.

Lemma covered_head : forall a tl, proper a -> covered (a :: tl) (cstart a).
Proof. intros a tl Ha. exists a. cbn [In]. unfold covers, proper in *. split; [auto|lia]. Qed.

Lemma head_end_le : forall a t1 b t2,
  separated (a :: t1) -> Forall proper (a :: t1) -> Forall proper (b :: t2) ->
  (forall v, covered (a :: t1) v <-> covered (b :: t2) v) ->
  cstart a = cstart b -> cend b <= cend a.
Proof.
  intros a t1 b t2 Hs1 Hp1 Hp2 Hcov Hst.
  destruct (N.le_gt_cases (cend b) (cend a)) as [H|H]; [exact H|exfalso].
  inversion Hp1 as [|? ? Ha _]; subst. unfold proper in Ha.
  assert (Hc : covered (b :: t2) (cend a)).
  { exists b. cbn [In]. unfold covers. split; [auto|lia]. }
  apply Hcov in Hc. destruct Hc as (c & [Hc|Hc] & Hv).
  - subst c. unfold covers in Hv. lia.
  - pose proof (separated_above t1 a Hs1 Hp1 c Hc) as Hab. unfold covers in Hv. lia.
Qed.

Theorem separated_proper_unique : forall l1 l2,
  separated l1 -> separated l2 -> Forall proper l1 -> Forall proper l2 ->
  (forall v, covered l1 v <-> covered l2 v) -> l1 = l2.
Proof.
  induction l1 as [|a t1 IH]; intros l2 Hs1 Hs2 Hp1 Hp2 Hcov.
  - destruct l2 as [|b t2]; [reflexivity|exfalso].
    inversion Hp2 as [|? ? Hb _]; subst.
    destruct (proj2 (Hcov _) (covered_head b t2 Hb)) as (c & [] & _).
  - destruct l2 as [|b t2].
    { exfalso. inversion Hp1 as [|? ? Ha _]; subst.
      destruct (proj1 (Hcov _) (covered_head a t1 Ha)) as (c & [] & _). }
    pose proof Hp1 as Hp1'. pose proof Hp2 as Hp2'.
    inversion Hp1 as [|? ? Ha Hpt1]; subst. inversion Hp2 as [|? ? Hb Hpt2]; subst.
    assert (Hst : cstart a = cstart b).
    { pose proof (head_start_le b t2 _ Hs2 Hp2' (proj1 (Hcov _) (covered_head a t1 Ha))) as H1.
      pose proof (head_start_le a t1 _ Hs1 Hp1' (proj2 (Hcov _) (covered_head b t2 Hb))) as H2. lia. }
    assert (Hen : cend a = cend b).
    { pose proof (head_end_le a t1 b t2 Hs1 Hp1' Hp2' Hcov Hst) as H1.
      pose proof (head_end_le b t2 a t1 Hs2 Hp2' Hp1' (fun v => iff_sym (Hcov v)) (eq_sym Hst)) as H2. lia. }
    assert (Hab : a = b).
    { destruct a as [a1 a2], b as [b1 b2]. cbn [cstart cend fst snd] in Hst, Hen. subst. reflexivity. }
    subst b. f_equal.
    apply IH; [apply (separated_tail a); exact Hs1|apply (separated_tail a); exact Hs2|exact Hpt1|exact Hpt2|].
    intros v. split.
    + intros Hv. pose proof (covered_tail_above t1 a v Hs1 Hp1' Hv) as Hgt.
      destruct Hv as (c & Hc & Hv).
      assert (Hc1 : covered (a :: t1) v) by (exists c; cbn [In]; auto).
      apply Hcov in Hc1. destruct Hc1 as (c' & [Hc'|Hc'] & Hv').
      * subst c'. unfold covers in Hv'. lia.
      * exists c'. auto.
    + intros Hv. pose proof (covered_tail_above t2 a v Hs2 Hp2' Hv) as Hgt.
      destruct Hv as (c & Hc & Hv).
      assert (Hc1 : covered (a :: t2) v) by (exists c; cbn [In]; auto).
      apply Hcov in Hc1. destruct Hc1 as (c' & [Hc'|Hc'] & Hv').
      * subst c'. unfold covers in Hv'. lia.
      * exists c'. auto.
Qed.

Lemma merge_sorted_proper : forall s, Forall proper s -> Forall proper (merge_sorted s).
Proof.
  intros s H. destruct s as [|c rest]; cbn [merge_sorted]; [constructor|].
  inversion H; subst. apply merge_loop_proper; assumption.
Qed.

(* proper chunks: the result does not depend on the order of ties *)
Theorem merge_sorted_tie_independent : forall s1 s2,
  Permutation s1 s2 -> StronglySorted le_start s1 -> StronglySorted le_start s2 ->
  Forall proper s1 -> merge_sorted s1 = merge_sorted s2.
Proof.
  intros s1 s2 Hp H1 H2 Hpr.
  assert (Hpr2 : Forall proper s2).
  { rewrite Forall_forall in *. intros x Hx. apply Hpr. apply (Permutation_in _ (Permutation_sym Hp)). exact Hx. }
  destruct (merge_sorted_spec s1 H1) as [Hc1 [Hsep1 _]].
  destruct (merge_sorted_spec s2 H2) as [Hc2 [Hsep2 _]].
  apply separated_proper_unique; try assumption; try (apply merge_sorted_proper; assumption).
  intros v. rewrite Hc1, Hc2. unfold covered. split; intros (c & Hc & Hv); exists c; split; try exact Hv.
  - apply (Permutation_in _ Hp). exact Hc.
  - apply (Permutation_in _ (Permutation_sym Hp)). exact Hc.
Qed.

Theorem optimize_chunks_sort_independent : forall cs m s,
  (forall c, In c cs -> m < cend c -> proper c) ->
  Permutation s (retained m cs) -> StronglySorted le_start s ->
  merge_sorted s = optimize_chunks cs m.
Proof.
  intros cs m s Hpr Hp Hs. rewrite optimize_chunks_is_merge_sorted.
  apply merge_sorted_tie_independent; [|exact Hs|apply sort_sorted|].
  - apply perm_trans with (retained m cs); [exact Hp|apply Permutation_sym, sort_perm].
  - rewrite Forall_forall. intros x Hx. apply (Permutation_in _ Hp) in Hx. unfold retained in Hx.
    rewrite filter_In, N.ltb_lt in Hx. apply Hpr; tauto.
Qed.

(* the separated list of proper chunks with a given coverage is unique: optimize_chunks is
   idempotent on its own output and a function of the covered set only *)
Theorem optimize_chunks_canonical : forall cs1 cs2 m1 m2,
  (forall c, In c cs1 -> m1 < cend c -> proper c) ->
  (forall c, In c cs2 -> m2 < cend c -> proper c) ->
  (forall v, (exists c, In c cs1 /\ m1 < cend c /\ covers c v) <->
             (exists c, In c cs2 /\ m2 < cend c /\ covers c v)) ->
  optimize_chunks cs1 m1 = optimize_chunks cs2 m2.
Proof.
  intros cs1 cs2 m1 m2 H1 H2 Hcov.
  assert (Hp : forall cs m, (forall c, In c cs -> m < cend c -> proper c) -> Forall proper (optimize_chunks cs m)).
  { intros cs m H. rewrite optimize_chunks_is_merge_sorted. apply merge_sorted_proper.
    rewrite Forall_forall. intros x Hx. apply (Permutation_in _ (sort_perm _)) in Hx. unfold retained in Hx.
    rewrite filter_In, N.ltb_lt in Hx. apply H; tauto. }
  apply separated_proper_unique; try apply optimize_chunks_separated; try (apply Hp; assumption).
  intros v. rewrite !optimize_chunks_covered. apply Hcov.
Qed.
