(* Proofs about NV.Index.ByteIndex: the region query over the BYTES of a BAM file equals the scan
   filter, for the index bam::fs::index's loop builds from the same bytes.
   Composition of: ByteQueryProofs (scan over bytes; csi::io::Query over aligned chunk lists),
   AlignedProofs (index-built chunk lists are aligned), FormatsProofs (query = scan at the level
   of records with offsets), AlignEndProofs (span from POS and CIGAR). *)
From Coq Require Import List NArith PeanoNat Lia Bool ZifyBool ZifyNat ZifyN Sorted.
From NV Require Import Base.LE Bgzf.Vpos Bgzf.Gzi Bgzf.ReaderOps Bgzf.FlatRef Bgzf.ReaderOpsProofs
  Index.Bins Index.Chunks Index.Indexer Index.QueryProofs Index.QueryFast Index.AlignEnd Index.AlignEndProofs
  Index.Formats Index.FormatsProofs Index.AlignedProofs Index.ByteQuery Index.ByteQueryProofs Index.ByteIndex.
Import ListNotations.
Open Scope N_scope.

(* ---- 1. the filtering read loop = the plain read loop followed by the filter ---- *)
Lemma res_cast_not_ok : forall (A B : Type) (r : res A) (x : B), @res_cast A B r <> Ok x.
Proof. intros A B r x. destruct r; discriminate. Qed.

Lemma read_records_keep_spec (R : Type) rd bsz keep : forall fuel (r : R) acc r' out,
  read_records R rd bsz fuel r acc = (r', Ok out) ->
  exists bs, out = acc ++ bs /\ forall acc',
    snd (read_records_keep R rd bsz keep fuel r acc')
      = match filter_res keep bs with Some l => Ok (acc' ++ l) | None => Err InvalidData end /\
    (filter_res keep bs <> None -> fst (read_records_keep R rd bsz keep fuel r acc') = r').
Proof.
  induction fuel as [|k IH]; intros r acc r' out H; cbn [read_records] in H; [discriminate|].
  cbn [read_records_keep].
  destruct (bam_read_record R rd bsz r) as [r1 [b| |e]].
  - destruct (IH _ _ _ _ H) as (bs & Eo & Hk). exists (b :: bs).
    split; [rewrite Eo, <- app_assoc; reflexivity|]. intros acc'. cbn [filter_res].
    destruct (keep b) as [[|]|].
    + destruct (Hk (acc' ++ [b])) as [H1 H2]. destruct (filter_res keep bs) as [l|].
      * rewrite <- app_assoc in H1. split; [exact H1|]. intros _. apply H2. discriminate.
      * split; [exact H1|]. intros C. congruence.
    + destruct (Hk acc') as [H1 H2]. destruct (filter_res keep bs) as [l|].
      * split; [exact H1|]. intros _. apply H2. discriminate.
      * split; [exact H1|]. intros C. congruence.
    + cbn [fst snd]. split; [reflexivity|]. intros C. congruence.
  - injection H as H1 H2. subst. exists []. split; [rewrite app_nil_r; reflexivity|].
    intros acc'. cbn [filter_res fst snd]. rewrite app_nil_r. auto.
  - exfalso. injection H as _ H. exact (res_cast_not_ok _ _ _ _ H).
Qed.

Lemma filter_res_map_body (h : list N -> option bool) : forall X : list brec,
  filter_res h (map br_body X)
  = match filter_res (fun x => h (br_body x)) X with Some l => Some (map br_body l) | None => None end.
Proof.
  induction X as [|x t IH]; cbn [map filter_res]; [reflexivity|].
  destruct (h (br_body x)) as [b|]; [|reflexivity]. rewrite IH.
  destruct (filter_res _ t); [|reflexivity]. destruct b; reflexivity.
Qed.

Lemma filter_map_body (h : list N -> bool) : forall X : list brec,
  map br_body (filter (fun x => h (br_body x)) X) = filter h (map br_body X).
Proof.
  induction X as [|x t IH]; cbn [map filter]; [reflexivity|].
  destruct (h (br_body x)); cbn [map]; rewrite IH; reflexivity.
Qed.

(* ---- 3. the reader's filter on a record whose accessors succeed ---- *)
Lemma dec_ctx_bam x a b : dec_clean x -> dec_ctx x = bam_ctx (dec_bam x a b).
Proof.
  intros (rid & pos & cg & E1 & E2 & E3). unfold dec_ctx, bam_ctx, dec_bam. rewrite E1, E2, E3.
  cbn [b_rid b_pos b_cigar]. destruct pos as [s|]; [|reflexivity].
  destruct (alignment_end (Some s) cg); try reflexivity; destruct rid; reflexivity.
Qed.

Lemma dec_hit_bam x a b k iv : dec_clean x -> dec_hit k iv x = bam_hit k iv (dec_bam x a b).
Proof.
  intros (rid & pos & cg & E1 & E2 & E3). unfold dec_hit, bam_hit, dec_bam. rewrite E1, E2, E3.
  cbn [b_rid b_pos b_cigar]. destruct rid as [id|]; [|reflexivity].
  destruct (negb (id =? k)); [reflexivity|]. destruct (unbounded iv); [reflexivity|].
  destruct pos as [s|]; reflexivity.
Qed.

(* the reader's filter computes the specification's predicate (pointwise form of the first
   obligation in FormatsProofs.bam_query_equals_scan) *)
Lemma bam_hit_pt x k iv : bam_pos_ok x -> bam_ctx x <> CErr ->
  bam_hit k iv x = Some (bam_scan_hit k iv x).
Proof.
  intros Hwf Hctx. unfold bam_hit, bam_scan_hit.
  destruct (b_rid x) as [id|] eqn:Er; [|reflexivity].
  destruct (id =? k) eqn:Ek; cbn [negb].
  2:{ destruct (b_pos x); reflexivity. }
  apply N.eqb_eq in Ek. subst id.
  destruct (b_pos x) as [s|] eqn:Es.
  2:{ exfalso. destruct Hwf as [H _]. apply H; [rewrite Er; discriminate|exact Es]. }
  destruct (bam_ctx_some x Hwf Hctx k s Er Es) as (Hae & Hlt & _).
  pose proof (spec_end_ge s (b_cigar x)) as Hge.
  destruct Hwf as [_ Hp]. destruct (Hp s Es) as [H1 _].
  cbn [andb]. destruct (unbounded iv) eqn:Eu.
  - destruct iv as [[?|] [?|]]; try discriminate.
    unfold iv_intersects, iv_end_filter, iv_start, pos_max. cbn [fst snd].
    unfold AlignEnd.usize_lim in Hlt. f_equal. symmetry. apply andb_true_intro. split; lia.
  - rewrite Hae. reflexivity.
Qed.

(* a record the scan keeps was indexed, with that span (second obligation) *)
Lemma bam_scan_hit_pt ms d x k iv : bam_pos_ok x -> bam_ctx x <> CErr ->
  (forall k' s e, bam_ctx x = CSome k' s e -> e <= max_position ms d) ->
  bam_scan_hit k iv x = true ->
  exists s e, bam_ctx x = CSome k s e /\
              (s <=? iv_end_query ms d iv) && (iv_start iv <=? e) = true.
Proof.
  intros Hwf Hctx Hb Hh. unfold bam_scan_hit in Hh.
  destruct (b_rid x) as [id|] eqn:Er; [|discriminate].
  destruct (b_pos x) as [s|] eqn:Es; [|discriminate].
  apply andb_prop in Hh. destruct Hh as [Ek Hi]. apply N.eqb_eq in Ek. subst id.
  destruct (bam_ctx_some x Hwf Hctx k s Er Es) as (_ & _ & Hc).
  exists s, (spec_end s (b_cigar x)). split; [exact Hc|].
  pose proof (Hb _ _ _ Hc) as H3. pose proof (spec_end_ge s (b_cigar x)) as Hge.
  unfold iv_intersects in Hi. apply andb_prop in Hi. destruct Hi as [Hi1 Hi2].
  apply andb_true_intro. split; [|exact Hi2].
  unfold iv_end_query, iv_end_filter in *. destruct (snd iv); [exact Hi1|]. lia.
Qed.


(* ---- 2. the indexing loop = the scan, when the indexer accepts every record ---- *)
Section Dec.
  Variable dec : list N -> bam_dec.
  Variable bsz : N -> N.
  Notation bctx := (bctx dec).
  Notation body_ctx := (fun b : list N => dec_ctx (dec b)).

  Lemma index_scan_bodies : forall L cur,
    index_scan brec bctx cur L = index_scan (list N) body_ctx cur (map br_body L).
  Proof.
    induction L as [|x t IH]; intros cur; cbn [map index_scan]; [reflexivity|].
    unfold ByteIndex.bctx at 1. destruct (dec_ctx (dec (br_body x))); try reflexivity; try apply IH.
    destruct (cur <=? k); [apply IH|reflexivity].
  Qed.

  Lemma index_loop_spec : forall fuel st a cur acc st' out,
    scan_loop bsz fuel st a acc = (st', Ok out) ->
    exists L, out = acc ++ L /\ forall acc',
      index_scan brec bctx cur L = None ->
      index_loop dec bsz fuel st a cur acc' = (st', IxOk (acc' ++ L)).
  Proof.
    induction fuel as [|k IH]; intros st a cur acc st' out H; cbn [scan_loop] in H; [discriminate|].
    cbn [index_loop].
    destruct (bam_read_record state (read true) bsz st) as [st1 [b| |e]].
    - destruct (virtual_position st1) as [e| | | |] eqn:Ev;
        try (exfalso; injection H as _ H; discriminate).
      assert (Hgen : forall cur', exists L, out = (acc ++ [mkbrec b a e]) ++ L /\
                forall acc', index_scan brec bctx cur' L = None ->
                  index_loop dec bsz k st1 e cur' acc' = (st', IxOk (acc' ++ L))).
      { intros cur'. exact (IH _ _ cur' _ _ _ H). }
      destruct (Hgen cur) as (L0 & Eo & _). exists (mkbrec b a e :: L0).
      split; [rewrite Eo, <- app_assoc; reflexivity|]. intros acc' Hs.
      cbn [index_scan] in Hs. unfold ByteIndex.bctx at 1 in Hs. cbn [br_body] in Hs.
      destruct (dec_ctx (dec b)) as [| | |id s e']; try discriminate.
      + destruct (Hgen cur) as (L1 & Eo1 & Hk). assert (L1 = L0) by (rewrite Eo in Eo1; apply app_inv_head in Eo1; congruence).
        subst L1. rewrite (Hk (acc' ++ [mkbrec b a e]) Hs), <- app_assoc. reflexivity.
      + destruct (cur <=? id); [|discriminate].
        destruct (Hgen id) as (L1 & Eo1 & Hk). assert (L1 = L0) by (rewrite Eo in Eo1; apply app_inv_head in Eo1; congruence).
        subst L1. rewrite (Hk (acc' ++ [mkbrec b a e]) Hs), <- app_assoc. reflexivity.
    - injection H as H1 H2. subst. exists []. split; [rewrite app_nil_r; reflexivity|].
      intros acc' _. rewrite app_nil_r. reflexivity.
    - exfalso. injection H as _ H. exact (res_cast_not_ok _ _ _ _ H).
  Qed.

End Dec.

Lemma ordered_b_f : forall L p, ordered_b p L -> ordered_f brec br_a br_b p L.
Proof.
  induction L as [|x t IH]; intros p H; [exact I|]. cbn [ordered_b] in H. cbn [ordered_f].
  destruct H as (H1 & H2 & H3). auto.
Qed.

Lemma ordered_f_weaken (A : Type) (oa ob : A -> N) : forall l p p', p' <= p ->
  ordered_f A oa ob p l -> ordered_f A oa ob p' l.
Proof. destruct l as [|x t]; intros p p' Hp H; cbn [ordered_f] in *; [exact I|]. intuition lia. Qed.

Lemma ref_count_ge nref rs : (nref <= ref_count nref rs)%nat.
Proof. unfold ref_count. destruct rs; lia. Qed.

(* ---- 4. the byte-level main theorem ---- *)
Definition body_ok (dec : list N -> bam_dec) (ms : N) (d : nat) (b : list N) : Prop :=
  dec_clean (dec b) /\ bam_pos_ok (dec_bam (dec b) 0 0) /\
  (forall k s e, dec_ctx (dec b) = CSome k s e -> 1 <= s /\ s <= e /\ e <= max_position ms d).

Definition query_ok (ms : N) (d : nat) (nref : nat) (q : N * region) : Prop :=
  (N.to_nat (fst q) < nref)%nat /\ region_ok ms d (snd q).

Section Main.
  Variable dec : list N -> bam_dec.
  Variable bsz : N -> N.
  Variable f : file.
  Hypothesis Hwf : wf f.
  Hypothesis Hmax : total_csize f <= MAX_COMPRESSED_POSITION.
  Variable L : list brec.
  Variables o0 a0 : N.
  Hypothesis HL : laid f o0 a0 L.
  Hypothesis HD : skipn (N.to_nat o0) (concat (chunks f)) = stream (map br_body L).
  Variables (ms : N) (d : nat) (nref : nat).
  Hypothesis Hok : Forall (body_ok dec ms d) (map br_body L).
  Hypothesis Hscan : index_scan (list N) (fun b => dec_ctx (dec b)) 0 (map br_body L) = None.

  Notation bctx := (bctx dec).
  Notation ixs := (built dec ms d nref L).

  Lemma Hbody : forall x, In x L -> body_ok dec ms d (br_body x).
  Proof. intros x Hx. rewrite Forall_forall in Hok. apply Hok. apply in_map. exact Hx. Qed.

  Lemma L_ordered : ordered_f brec br_a br_b 0 L.
  Proof.
    apply (ordered_f_weaken brec br_a br_b L a0 0); [lia|]. apply ordered_b_f.
    exact (laid_ordered f Hwf Hmax L o0 a0 HL).
  Qed.

  Lemma L_index : fmt_index brec bctx br_a br_b ms d nref L = Some ixs.
  Proof. unfold fmt_index. rewrite index_scan_bodies, Hscan. reflexivity. Qed.

  Lemma L_spans : spans_ok ms d (placed brec bctx br_a br_b L).
  Proof.
    intros r Hr. apply (placed_in brec bctx br_a br_b) in Hr. destruct Hr as (x & Hx & Hxr).
    destruct (Hbody x Hx) as (_ & _ & Hb). unfold to_rec in Hxr. unfold ByteIndex.bctx in Hxr.
    destruct (dec_ctx (dec (br_body x))) as [| | |k s e] eqn:Ec; try discriminate.
    injection Hxr as Hxr. subst r. cbn [r_s r_e]. exact (Hb k s e eq_refl).
  Qed.

  Lemma L_ctx_ok : forall x, In x L -> bctx x <> CErr.
  Proof.
    intros x Hx. exact (proj1 (fmt_index_ctx_ok bctx br_a br_b ms d nref L ixs x L_index Hx)).
  Qed.

  (* one region query on a reader in any state of C02's invariant *)
  Theorem byte_bam_query_spec : forall kd q st o, query_ok ms d nref q -> Rel f st o ->
    exists st' o', Rel f st' o' /\
      byte_bam_query dec bsz query f st kd ms d nref ixs q
      = (st', BRead (Ok (filter (body_scan_hit dec (fst q) (snd q)) (map br_body L)))).
  Proof.
    intros kd [k iv] st o [Hk (Hq1 & Hq2 & Hq3)] HR. cbn [fst snd] in *.
    set (hitb := fun x : brec => body_scan_hit dec k iv (br_body x)).
    assert (Hlen : (N.to_nat k < length ixs)%nat).
    { unfold built. rewrite map_length, seq_length. pose proof (ref_count_ge nref (placed brec bctx br_a br_b L)). lia. }
    (* the format-level theorem on the scanned list *)
    assert (HQ : fmt_query brec br_a (bhit dec) kd ms d ixs L k iv = QOk (filter hitb L)).
    { apply (fmt_query_equals_scan brec bctx br_a br_b (bhit dec) kd ms d nref L ixs k iv hitb
               L_ordered L_spans L_index Hlen Hq1 Hq2 Hq3).
      - intros x Hx. destruct (Hbody x Hx) as (Hc & Hp & _).
        unfold bhit, hitb. rewrite (dec_hit_bam _ 0 0 k iv Hc). apply bam_hit_pt; [exact Hp|].
        rewrite <- (dec_ctx_bam _ 0 0 Hc). exact (L_ctx_ok x Hx).
      - intros x Hx Hh. destruct (Hbody x Hx) as (Hc & Hp & Hb). unfold hitb in Hh.
        destruct (bam_scan_hit_pt ms d (dec_bam (dec (br_body x)) 0 0) k iv Hp) as (s & e & Hcs & Hi).
        + rewrite <- (dec_ctx_bam _ 0 0 Hc). exact (L_ctx_ok x Hx).
        + intros k' s e Hcs. rewrite <- (dec_ctx_bam _ 0 0 Hc) in Hcs. exact (proj2 (proj2 (Hb _ _ _ Hcs))).
        + exact Hh.
        + rewrite <- (dec_ctx_bam _ 0 0 Hc) in Hcs.
          exists (mkrec k s e (br_a x) (br_b x)). split.
          * unfold to_rec, ByteIndex.bctx. rewrite Hcs. reflexivity.
          * unfold intersects, on_ref. cbn [r_rid r_s r_e]. rewrite N.eqb_refl. exact Hi. }
    unfold fmt_query in HQ. unfold byte_bam_query.
    replace (N.to_nat k <? nref)%nat with true by (symmetry; apply Nat.ltb_lt; exact Hk). cbn [negb].
    rewrite (fmt_index_nth brec bctx br_a br_b ms d nref L ixs k L_index Hlen) in *.
    destruct (query kd ms d (build_ref ms d k (placed brec bctx br_a br_b L)) (iv_start iv) (iv_end_query ms d iv))
      as [cs|] eqn:Eq; [|discriminate].
    destruct (filter_res (bhit dec k iv) (chunk_read_f brec br_a cs L)) as [res|] eqn:Ef; [|discriminate].
    injection HQ as HQ. subst res.
    (* the chunks are aligned to the scanned records *)
    assert (Hal : Forall (aligned L) cs).
    { exact (fmt_query_chunks_aligned brec br_a br_b bctx kd ms d L k _ _ cs L_ordered Eq). }
    destruct (byte_query_spec f bsz Hwf Hmax L o0 a0 HL HD cs st o Hal HR) as (st' & o' & HR' & Hbq).
    unfold byte_query in Hbq.
    destruct (read_records qstate (q_read f) bsz (S (length cs * scan_fuel f)) (q_new st cs) []) as [qq rr] eqn:Err.
    injection Hbq as Hst Hrr. subst rr.
    destruct (read_records_keep_spec qstate (q_read f) bsz (body_hit dec k iv) _ _ _ _ _ Err)
      as (bs & Ebs & Hk'). cbn [app] in Ebs. subst bs.
    destruct (Hk' []) as [Hs Hf]. clear Hk'.
    assert (Efr : filter_res (body_hit dec k iv) (map br_body (chunk_read_f brec br_a cs L))
                  = Some (map br_body (filter hitb L))).
    { rewrite filter_res_map_body. change (fun x : brec => body_hit dec k iv (br_body x)) with (bhit dec k iv).
      rewrite Ef. reflexivity. }
    rewrite Efr in Hs, Hf. cbn [app] in Hs.
    destruct (read_records_keep qstate (q_read f) bsz (body_hit dec k iv) (S (length cs * scan_fuel f)) (q_new st cs) [])
      as [q2 r2]. cbn [fst snd] in Hs, Hf. subst r2. rewrite Hf by discriminate. rewrite Hst.
    exists st', o'. split; [exact HR'|]. unfold hitb. rewrite filter_map_body. reflexivity.
  Qed.

  (* histories: any number of region queries on the same reader *)
  Theorem byte_bam_queries_spec : forall kd qs st o, Forall (query_ok ms d nref) qs -> Rel f st o ->
    byte_bam_queries dec bsz query f st kd ms d nref ixs qs
    = map (fun q => BRead (Ok (filter (body_scan_hit dec (fst q) (snd q)) (map br_body L)))) qs.
  Proof.
    intros kd. induction qs as [|q t IH]; intros st o Hq HR; [reflexivity|].
    inversion Hq as [|? ? Hq1 Hqt]; subst. cbn [byte_bam_queries map].
    destruct (byte_bam_query_spec kd q st o Hq1 HR) as (st' & o' & HR' & E). rewrite E.
    f_equal. exact (IH st' o' Hqt HR').
  Qed.
End Main.

(* the executed form (query_fast) is the modelled one (query) *)
Lemma byte_bam_query_fast_eq dec bsz f st kd ms d nref ixs q :
  byte_bam_query dec bsz query_fast f st kd ms d nref ixs q = byte_bam_query dec bsz query f st kd ms d nref ixs q.
Proof.
  unfold byte_bam_query. destruct q as [k iv]. destruct (negb _); [reflexivity|].
  destruct (nth_error ixs (N.to_nat k)); [|reflexivity].
  rewrite query_fast_eq. reflexivity.
Qed.

Lemma byte_bam_queries_fast_eq dec bsz f kd ms d nref ixs : forall qs st,
  byte_bam_queries dec bsz query_fast f st kd ms d nref ixs qs = byte_bam_queries dec bsz query f st kd ms d nref ixs qs.
Proof.
  induction qs as [|q t IH]; intros st; [reflexivity|]. cbn [byte_bam_queries].
  rewrite byte_bam_query_fast_eq. destruct (byte_bam_query dec bsz query f st kd ms d nref ixs q) as [st1 r].
  rewrite IH. reflexivity.
Qed.

Theorem byte_bam_session_fast_eq dec bsz f hl kd ms d nref qs :
  byte_bam_session dec bsz query_fast f hl kd ms d nref qs = byte_bam_session dec bsz query f hl kd ms d nref qs.
Proof.
  unfold byte_bam_session. destruct (after_header f hl) as [st [x|e| | |]]; try reflexivity.
  destruct (index_from dec bsz f st) as [st1 [L|e|e]]; try reflexivity.
  rewrite byte_bam_queries_fast_eq. reflexivity.
Qed.

(* ---- 5. from the bytes: the indexing loop, then the queries ---- *)
Theorem byte_bam_index_query_equals_scan :
  forall dec bsz f, wf f -> total_csize f <= MAX_COMPRESSED_POSITION ->
  forall st0 o0 bodies ms d nref,
    Rel f st0 o0 -> skipn (N.to_nat o0) (concat (chunks f)) = stream bodies ->
    Forall rec_ok bodies -> Forall (body_ok dec ms d) bodies ->
    index_scan (list N) (fun b => dec_ctx (dec b)) 0 bodies = None ->
    exists st1 L,
      index_from dec bsz f st0 = (st1, IxOk L) /\ map br_body L = bodies /\
      Rel f st1 (total_dlen f) /\
      forall kd qs st o, Forall (query_ok ms d nref) qs -> Rel f st o ->
        byte_bam_queries dec bsz query f st kd ms d nref (built dec ms d nref L) qs
        = map (fun q => BRead (Ok (filter (body_scan_hit dec (fst q) (snd q)) bodies))) qs.
Proof.
  intros dec bsz f Hwf Hmax st0 o0 bodies ms d nref HR Hsk Hrec Hok Hscan.
  destruct (byte_scan_spec f bsz st0 o0 bodies Hwf Hmax HR Hsk Hrec) as (st1 & a & L & Hv & Hs & Hm & Hl & HR1).
  exists st1, L. unfold scan_from in Hs. rewrite Hv in Hs.
  destruct (index_loop_spec dec bsz _ _ _ 0 _ _ _ Hs) as (L' & EL & Hix). cbn [app] in EL. subst L'.
  split.
  - unfold index_from. rewrite Hv. rewrite (Hix []); [reflexivity|].
    rewrite index_scan_bodies, Hm. exact Hscan.
  - split; [exact Hm|]. split; [exact HR1|]. intros kd qs st o Hq HRq. rewrite <- Hm in *.
    exact (byte_bam_queries_spec dec bsz f Hwf Hmax L o0 a Hl Hsk ms d nref Hok Hscan kd qs st o Hq HRq).
Qed.
