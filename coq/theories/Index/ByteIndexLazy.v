(* C04 byte level: the decoder instance of NV.Index.ByteIndex -- the lazy accessors of bam::Record
   as modelled by C05 (NV.Bam.Decode lz_rid / lz_pos / lz_flags, NV.Bam.Lazy lzp_cigar = record_ref.rs
   cigar() with its CG:B,I branch, collected), imported read-only.  lzp_cigar = None is a panic of
   the slice index; C05's c05_lazy_no_panic shows it cannot happen on a body the record reader
   accepted (validate), so it is folded into the error case here.  Definitions only. *)
From Coq Require Import List NArith Bool.
From NV Require Bam.Record Bam.Decode Bam.Lazy.
From NV Require Import Bgzf.ReaderOps Index.Indexer Index.QueryFast Index.Formats Index.ByteQuery Index.ByteIndex.
Import ListNotations.
Open Scope N_scope.

Definition of_res {A : Type} (r : NV.Bam.Record.res A) : option A :=
  match r with NV.Bam.Record.Ok a => Some a | NV.Bam.Record.Err _ => None end.

Definition lazy_dec (b : list N) : bam_dec :=
  mkdec (of_res (NV.Bam.Decode.lz_rid b)) (of_res (NV.Bam.Decode.lz_pos b))
        (match NV.Bam.Lazy.lzp_cigar b with Some r => of_res r | None => None end)
        (N.testbit (NV.Bam.Decode.lz_flags b) 2).

(* the executed form: query_fast, one read for all that is missing of a record *)
Definition byte_bam_session_x := byte_bam_session lazy_dec bsz_whole query_fast.
