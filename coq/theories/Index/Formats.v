(* C04, format level: the region query and the unmapped query of the format readers over a file
   whose records carry what the real code looks at, not an abstract span.

   Generic part (Section Fmt), mirroring
     noodles-bam/src/fs/index.rs, noodles-bcf/src/fs/index.rs, noodles-vcf/src/fs/index.rs
       (the loop: alignment context of each record -> Indexer::add_record, chunk = [a, b)),
     noodles-csi/src/binning_index/indexer.rs (add_record: None = unplaced, counted only;
       a reference id smaller than the current one = InvalidInput; build(n) pads to n references),
     noodles-csi/src/binning_index/index.rs (query: reference id beyond the index = InvalidInput;
       resolve_interval: missing start = 1, missing end = max_position;
       last_first_record_start_position = the last reference, from the back, that has one),
     linear_index.rs / binned_index.rs last_first_start_position (last element / maximum loffset),
     the readers' Query (csi::io::Query chunk reading + `intersects` filter) and
     bam::io::Reader::query_unmapped (seek, then keep the records flagged unmapped).

   Instances: BAM records (reference id, POS, CIGAR, unmapped flag) with the span computed by
   NV.Index.AlignEnd.alignment_end.  The VCF/BCF instance is in NV.Index.FormatsVcf.
   Definitions only. *)
From Coq Require Import List Arith NArith Bool.
From NV Require Import Index.Bins Index.Chunks Index.Indexer Index.AlignEnd.
Import ListNotations.
Open Scope N_scope.

(* what the indexing loop hands to Indexer::add_record for one record *)
(* CErr / CPanic: the loop stops with an error / panics at this record *)
Inductive ctxr := CErr | CPanic | CNone | CSome (k s e : N).
Inductive ixfail := FErr | FPanic.

(* noodles_core::region::Interval: either bound may be missing *)
Definition region := (option N * option N)%type.
Definition unbounded (iv : region) : bool :=
  match iv with (None, None) => true | _ => false end.
Definition pos_max : N := 18446744073709551615.   (* Position::MAX = usize::MAX *)
Definition iv_start (iv : region) : N := match fst iv with Some s => s | None => 1 end.
(* Interval::intersects resolves a missing end to Position::MAX ... *)
Definition iv_end_filter (iv : region) : N := match snd iv with Some e => e | None => pos_max end.
(* ... resolve_interval (the index query) to max_position *)
Definition iv_end_query (ms : N) (d : nat) (iv : region) : N :=
  match snd iv with Some e => e | None => max_position ms d end.

(* Interval::intersects of the record interval [s, e] with the region *)
Definition iv_intersects (iv : region) (s e : N) : bool :=
  (s <=? iv_end_filter iv) && (iv_start iv <=? e).

Fixpoint list_max (l : list N) : option N :=
  match l with
  | [] => None
  | x :: rest => match list_max rest with None => Some x | Some m => Some (if m <? x then x else m) end
  end.

(* LinearIndex::last_first_start_position = self.last(); BinnedIndex: self.values().max() *)
Definition last_first (kd : kind) (ix : refidx) : option N :=
  match kd with
  | Linear => match lin ix with [] => None | _ => Some (last (lin ix) 0) end
  | Binned => list_max (map snd (loffs ix))
  end.

Fixpoint find_map_o {X Y : Type} (f : X -> option Y) (l : list X) : option Y :=
  match l with
  | [] => None
  | x :: t => match f x with Some y => Some y | None => find_map_o f t end
  end.

(* Index::last_first_record_start_position: reference_sequences.iter().rev().find_map(..) *)
Definition unmapped_start (kd : kind) (ixs : list refidx) : option N :=
  find_map_o (last_first kd) (rev ixs).

(* number of reference sequences of the built index: the indexer has grown to the last (= largest)
   reference id seen, build(nref) pads to nref *)
Definition ref_count (nref : nat) (rs : list rec) : nat :=
  match rs with
  | [] => nref
  | _ => Nat.max nref (S (N.to_nat (r_rid (last rs (mkrec 0 0 0 0 0)))))
  end.

Inductive qres (A : Type) := QInvalid | QRecErr | QOk (l : list A).
Arguments QInvalid {A}.
Arguments QRecErr {A}.
Arguments QOk {A} l.

Fixpoint filter_res {A : Type} (f : A -> option bool) (l : list A) : option (list A) :=
  match l with
  | [] => Some []
  | x :: t =>
      match f x with
      | None => None
      | Some b => match filter_res f t with
                  | None => None
                  | Some r => Some (if b then x :: r else r)
                  end
      end
  end.

Section Fmt.
  Variable A : Type.
  Variable ctx : A -> ctxr.                         (* alignment context / (id, start, end) *)
  Variable oa : A -> N.                             (* virtual position before the record *)
  Variable ob : A -> N.                             (* ... and after it *)
  Variable hit : N -> region -> A -> option bool.   (* the reader's `intersects`; None = Err *)
  Variable unm : A -> bool.                         (* flags().is_unmapped() *)

  Definition to_rec (x : A) : option rec :=
    match ctx x with CSome k s e => Some (mkrec k s e (oa x) (ob x)) | _ => None end.

  (* the records that reach ReferenceSequence::update, in file order *)
  Fixpoint placed (l : list A) : list rec :=
    match l with
    | [] => []
    | x :: t => match to_rec x with Some r => r :: placed t | None => placed t end
    end.

  (* no alignment context: Indexer::add_record only counts the record *)
  Definition unplaced_f (x : A) : bool := match to_rec x with None => true | Some _ => false end.

  (* the indexing loop, record by record: the first record that makes it stop decides how.
     Indexer::add_record refuses (InvalidInput) a reference id below the current one (0 before
     the first placed record).  None = the loop reaches the end of the file. *)
  Fixpoint index_scan (cur : N) (l : list A) : option ixfail :=
    match l with
    | [] => None
    | x :: t =>
        match ctx x with
        | CErr => Some FErr
        | CPanic => Some FPanic
        | CNone => index_scan cur t
        | CSome k _ _ => if cur <=? k then index_scan k t else Some FErr
        end
    end.

  (* <fmt>::fs::index: None = the indexing loop fails (how: index_scan) *)
  Definition fmt_index (ms : N) (d : nat) (nref : nat) (l : list A) : option (list refidx) :=
    match index_scan 0 l with
    | Some _ => None
    | None =>
      Some (map (fun k => build_ref ms d (N.of_nat k) (placed l)) (seq 0 (ref_count nref (placed l))))
    end.

  (* csi::io::Query over the format's records: positions of record starts are the oa *)
  Definition in_chunk_f (c : chunk) (x : A) : bool := (cstart c <=? oa x) && (oa x <? cend c).
  Definition chunk_read_f (cs : list chunk) (l : list A) : list A :=
    flat_map (fun c => filter (in_chunk_f c) l) cs.

  (* csi::io::Query as it behaves for ANY chunk list: in State::Read(end) it calls the reader's
     fill_buf while virtual_position() < end; at the end of the data (virtual position eof = the
     offset after the last record) with eof < end that returns an empty buffer, which the format
     reader takes for the end of the stream: the remaining chunks are never read.  Index-built
     chunk lists have ends <= eof, where this is chunk_read_f (FormatsProofs.chunk_read_eof_eq). *)
  Fixpoint chunk_read_eof (eof : N) (cs : list chunk) (l : list A) : list A :=
    match cs with
    | [] => []
    | c :: t => filter (in_chunk_f c) l ++ (if eof <? cend c then [] else chunk_read_eof eof t l)
    end.

  (* Reader::query(index, region) with the reference already resolved to its id k *)
  Definition fmt_query (kd : kind) (ms : N) (d : nat) (ixs : list refidx) (l : list A)
      (k : N) (iv : region) : qres A :=
    match nth_error ixs (N.to_nat k) with
    | None => QInvalid
    | Some ix =>
        match query kd ms d ix (iv_start iv) (iv_end_query ms d iv) with
        | None => QInvalid
        | Some cs =>
            match filter_res (hit k iv) (chunk_read_f cs l) with
            | None => QRecErr
            | Some r => QOk r
            end
        end
    end.

  (* Reader::query_unmapped: seek to last_first_record_start_position, or to the first record
     (virtual position h0, the end of the header) when the index has none; then every record
     from there to the end of the file that is flagged unmapped *)
  Definition fmt_query_unmapped (kd : kind) (ixs : list refidx) (h0 : N) (l : list A) : list A :=
    let pos := match unmapped_start kd ixs with Some p => p | None => h0 end in
    filter unm (filter (fun x => pos <=? oa x) l).

  (* file order = offset order, records abut or leave gaps but never overlap *)
  Fixpoint ordered_f (prev : N) (l : list A) : Prop :=
    match l with
    | [] => True
    | x :: t => prev <= oa x /\ oa x < ob x /\ ordered_f (ob x) t
    end.
End Fmt.

(* ---- BAM ---- *)
Record bam_rec := mkbam {
  b_rid : option N;      (* reference_sequence_id() *)
  b_pos : option N;      (* alignment_start() *)
  b_cigar : cigar;       (* cigar(), as (kind code, length) *)
  b_unm : bool;          (* flags().is_unmapped() *)
  b_a : N; b_b : N
}.

(* bam/fs/index.rs alignment_context + the match in index_inner *)
Definition bam_ctx (x : bam_rec) : ctxr :=
  match alignment_end (b_pos x) (b_cigar x) with
  | EErr => CErr
  | ENone => CNone
  | EPos e =>
      match b_rid x, b_pos x with
      | Some k, Some s => CSome k s e
      | _, _ => CNone
      end
  end.

(* bam/io/reader/query.rs intersects *)
Definition bam_hit (k : N) (iv : region) (x : bam_rec) : option bool :=
  match b_rid x with
  | None => Some false
  | Some id =>
      if negb (id =? k) then Some false
      else if unbounded iv then Some true
      else match b_pos x with
           | None => Some false
           | Some s =>
               match alignment_end (Some s) (b_cigar x) with
               | EErr => None
               | ENone => Some false
               | EPos e => Some (iv_intersects iv s e)
               end
           end
  end.

Definition bam_index := fmt_index bam_rec bam_ctx b_a b_b.
Definition bam_index_scan := index_scan bam_rec bam_ctx 0.
Definition bam_query := fmt_query bam_rec b_a bam_hit.
Definition bam_query_unmapped := fmt_query_unmapped bam_rec b_a b_unm.
Definition bam_chunk_read := chunk_read_eof bam_rec b_a.

(* the scan the property compares with: same reference, and the span POS .. POS + (sum of the
   M D N = X lengths) - 1 (POS alone when that sum is 0) meets the region *)
Definition bam_scan_hit (k : N) (iv : region) (x : bam_rec) : bool :=
  match b_rid x, b_pos x with
  | Some id, Some s => (id =? k) && iv_intersects iv s (spec_end s (b_cigar x))
  | _, _ => false
  end.
Definition bam_scan (l : list bam_rec) (k : N) (iv : region) : list bam_rec :=
  filter (bam_scan_hit k iv) l.

Definition bam_unplaced : bam_rec -> bool := unplaced_f bam_rec bam_ctx b_a b_b.
