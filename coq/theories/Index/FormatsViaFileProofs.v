(* C04, fifth deepening: the format-level and byte-level query = scan theorems for the index as it
   is READ BACK from the bytes of its index file (BAI: NV.Index.Layout; CSI: NV.Index.CsiLayout,
   both tied to the real writers / readers in C17's check).  The region query through the
   written-and-read index gives, reference by reference, the chunk lists of the in-memory index
   (BAI: the index reads back equal; CSI: the per-bin loffsets differ, the answers do not), so
   every theorem about Reader::query with the in-memory index transfers. *)
From Coq Require Import List Arith NArith Bool Lia.
From NV Require Import Base.LE Bgzf.ReaderOps Index.Bins Index.Chunks Index.Indexer Index.QueryProofs Index.BinnedProofs
  Index.Layout Index.LayoutProofs Index.CsiLoffset Index.CsiLayout Index.CsiLayoutProofs Index.ViaFileProofs
  Index.AlignEnd Index.Formats Index.FormatsProofs Index.ByteQuery Index.ByteIndex
  Bgzf.Vpos Bgzf.FlatRef Bgzf.ReaderOpsProofs Index.ByteQueryProofs Index.ByteIndexProofs.
Import ListNotations.
Open Scope N_scope.

(* two lists of per-reference indexes that answer every query of kind kd alike *)
Definition same_answers (kd : kind) (ms : N) (d : nat) (ixs' ixs : list refidx) : Prop :=
  length ixs' = length ixs /\
  forall k ix' ix, nth_error ixs' k = Some ix' -> nth_error ixs k = Some ix ->
    forall qs qe, query kd ms d ix' qs qe = query kd ms d ix qs qe.

Lemma same_answers_nth kd ms d ixs' ixs k : same_answers kd ms d ixs' ixs ->
  match nth_error ixs' k, nth_error ixs k with
  | Some ix', Some ix => forall qs qe, query kd ms d ix' qs qe = query kd ms d ix qs qe
  | None, None => True
  | _, _ => False
  end.
Proof.
  intros [Hl Hq]. destruct (nth_error ixs' k) as [ix'|] eqn:E1; destruct (nth_error ixs k) as [ix|] eqn:E2.
  - exact (Hq k ix' ix E1 E2).
  - apply nth_error_None in E2. assert (nth_error ixs' k <> None) by congruence.
    apply nth_error_Some in H. lia.
  - apply nth_error_None in E1. assert (nth_error ixs k <> None) by congruence.
    apply nth_error_Some in H. lia.
  - exact I.
Qed.

Lemma fmt_query_same (A : Type) oa hit kd ms d ixs' ixs (l : list A) k iv :
  same_answers kd ms d ixs' ixs ->
  fmt_query A oa hit kd ms d ixs' l k iv = fmt_query A oa hit kd ms d ixs l k iv.
Proof.
  intros H. pose proof (same_answers_nth kd ms d ixs' ixs (N.to_nat k) H) as Hn. unfold fmt_query.
  destruct (nth_error ixs' (N.to_nat k)); destruct (nth_error ixs (N.to_nat k)); try contradiction; [|reflexivity].
  rewrite Hn. reflexivity.
Qed.

Lemma byte_bam_queries_same dec bsz f kd ms d nref ixs' ixs : same_answers kd ms d ixs' ixs ->
  forall qs st, byte_bam_queries dec bsz query f st kd ms d nref ixs' qs
              = byte_bam_queries dec bsz query f st kd ms d nref ixs qs.
Proof.
  intros H. induction qs as [|[k iv] t IH]; intros st; [reflexivity|]. cbn [byte_bam_queries].
  assert (E : byte_bam_query dec bsz query f st kd ms d nref ixs' (k, iv)
            = byte_bam_query dec bsz query f st kd ms d nref ixs (k, iv)).
  { pose proof (same_answers_nth kd ms d ixs' ixs (N.to_nat k) H) as Hn. unfold byte_bam_query.
    destruct (negb _); [reflexivity|].
    destruct (nth_error ixs' (N.to_nat k)); destruct (nth_error ixs (N.to_nat k)); try contradiction; [|reflexivity].
    rewrite Hn. reflexivity. }
  rewrite E. destruct (byte_bam_query dec bsz query f st kd ms d nref ixs (k, iv)) as [st1 r]. rewrite IH. reflexivity.
Qed.

(* what Indexer::build leaves for a file *)
Definition built_refs (ms : N) (d : nat) (n : nat) (file : list rec) : list refidx :=
  map (fun k => build_ref ms d (N.of_nat k) file) (seq 0 n).

Lemma nth_error_map_seq' {B} (g : nat -> B) n k : (k < n)%nat -> nth_error (map g (seq 0 n)) k = Some (g k).
Proof. apply nth_error_map_seq. Qed.

Lemma nth_error_nth_some {B} (l : list B) k x d0 : nth_error l k = Some x -> nth k l d0 = x.
Proof. intros H. apply nth_error_nth. exact H. Qed.

(* ---- BAI ---- *)
Theorem bai_file_same_answers ms d file meta n unplaced :
  let i := built_bai ms d file meta n unplaced in
  bai_ok i ->
  exists i', read_bai (w_bai i) = Some i' /\
    same_answers Linear ms d (map bref_refidx (bi_refs i')) (built_refs ms d n file).
Proof.
  intros i Hok. exists i. split; [apply bai_roundtrip; exact Hok|].
  unfold i, built_bai, built_refs. cbn [bi_refs]. split.
  - rewrite !map_length. reflexivity.
  - intros k ix' ix H1 H2 qs qe. rewrite map_map in H1.
    assert (Hk : (k < n)%nat).
    { assert (nth_error (map (fun k0 => build_ref ms d (N.of_nat k0) file) (seq 0 n)) k <> None) by congruence.
      apply nth_error_Some in H. rewrite map_length, seq_length in H. exact H. }
    rewrite nth_error_map_seq' in H1, H2 by exact Hk. injection H1 as H1. injection H2 as H2. subst ix' ix.
    unfold bref_refidx. cbn [br_bins br_intervals].
    destruct (build_ref ms d (N.of_nat k) file) as [b l lo]. reflexivity.
Qed.

(* ---- CSI ---- *)
Theorem csi_file_same_answers ms d file hdr meta n unplaced :
  let i := built_csi ms d file hdr meta n unplaced in
  csi_ok i -> spans_ok ms d file ->
  exists i', w_csi i = WOk (w_csi_bytes i) /\ read_csi (w_csi_bytes i) = Some i' /\
    same_answers Binned ms d (map cref_refidx (ci_refs i')) (built_refs ms d n file).
Proof.
  intros i Hok Hs.
  destruct (csi_file_roundtrip_queries ms d file hdr meta n unplaced Hok Hs)
    as (i' & Hw & Hr & _ & _ & _ & _ & Hlen & Hq).
  exists i'. split; [exact Hw|]. split; [exact Hr|]. unfold built_refs. split.
  - rewrite !map_length, seq_length. exact Hlen.
  - intros k ix' ix H1 H2 qs qe.
    assert (Hk : (k < n)%nat).
    { assert (nth_error (map (fun k0 => build_ref ms d (N.of_nat k0) file) (seq 0 n)) k <> None) by congruence.
      apply nth_error_Some in H. rewrite map_length, seq_length in H. exact H. }
    rewrite nth_error_map_seq' in H2 by exact Hk. injection H2 as H2. subst ix.
    destruct (Hq k Hk) as (_ & _ & Hqq). rewrite <- Hqq. f_equal.
    rewrite nth_error_map in H1. destruct (nth_error (ci_refs i') k) as [r|] eqn:E; [|discriminate].
    injection H1 as H1. subst ix'. rewrite (nth_error_nth_some _ _ _ empty_cref E). reflexivity.
Qed.

(* ---- the format-level index is built_refs ---- *)
Lemma fmt_index_built (A : Type) ctx oa ob ms d nref (l : list A) ixs :
  fmt_index A ctx oa ob ms d nref l = Some ixs ->
  ixs = built_refs ms d (length ixs) (placed A ctx oa ob l).
Proof.
  unfold fmt_index. destruct (index_scan A ctx 0 l); [discriminate|]. intros H. injection H as H.
  subst ixs. rewrite map_length, seq_length. reflexivity.
Qed.

(* BAM, format level, through the BAI file *)
Theorem bam_query_via_bai_file ms d nref l ixs meta unplaced k iv :
  let i := built_bai ms d (placed bam_rec bam_ctx b_a b_b l) meta (length ixs) unplaced in
  bai_ok i ->
  ordered_f bam_rec b_a b_b 0 l -> Forall bam_pos_ok l ->
  spans_ok ms d (placed bam_rec bam_ctx b_a b_b l) ->
  bam_index ms d nref l = Some ixs -> (N.to_nat k < length ixs)%nat ->
  region_ok ms d iv ->
  exists i', read_bai (w_bai i) = Some i' /\
    bam_query Linear ms d (map bref_refidx (bi_refs i')) l k iv = QOk (bam_scan l k iv).
Proof.
  intros i Hok Ho Hp Hs Hix Hk Hr.
  destruct (bai_file_same_answers ms d _ meta (length ixs) unplaced Hok) as (i' & Hrd & Hsame).
  exists i'. split; [exact Hrd|]. unfold bam_query.
  rewrite (fmt_query_same bam_rec b_a bam_hit Linear ms d _ _ l k iv Hsame).
  rewrite <- (fmt_index_built bam_rec bam_ctx b_a b_b ms d nref l ixs Hix).
  exact (bam_query_equals_scan Linear ms d nref l ixs k iv Ho Hp Hs Hix Hk Hr).
Qed.

(* BAM, format level, through a CSI file *)
Theorem bam_query_via_csi_file ms d nref l ixs hdr meta unplaced k iv :
  let i := built_csi ms d (placed bam_rec bam_ctx b_a b_b l) hdr meta (length ixs) unplaced in
  csi_ok i ->
  ordered_f bam_rec b_a b_b 0 l -> Forall bam_pos_ok l ->
  spans_ok ms d (placed bam_rec bam_ctx b_a b_b l) ->
  bam_index ms d nref l = Some ixs -> (N.to_nat k < length ixs)%nat ->
  region_ok ms d iv ->
  exists i', w_csi i = WOk (w_csi_bytes i) /\ read_csi (w_csi_bytes i) = Some i' /\
    bam_query Binned ms d (map cref_refidx (ci_refs i')) l k iv = QOk (bam_scan l k iv).
Proof.
  intros i Hok Ho Hp Hs Hix Hk Hr.
  destruct (csi_file_same_answers ms d _ hdr meta (length ixs) unplaced Hok Hs) as (i' & Hw & Hrd & Hsame).
  exists i'. split; [exact Hw|]. split; [exact Hrd|]. unfold bam_query.
  rewrite (fmt_query_same bam_rec b_a bam_hit Binned ms d _ _ l k iv Hsame).
  rewrite <- (fmt_index_built bam_rec bam_ctx b_a b_b ms d nref l ixs Hix).
  exact (bam_query_equals_scan Binned ms d nref l ixs k iv Ho Hp Hs Hix Hk Hr).
Qed.

(* ---- byte level: index built from the BAM bytes, written to its file, read back, then the
   region queries over the BAM bytes ---- *)
Lemma built_is_built_refs dec ms d nref L :
  built dec ms d nref L
  = built_refs ms d (length (built dec ms d nref L)) (placed brec (bctx dec) br_a br_b L).
Proof. unfold built, built_refs. rewrite map_length, seq_length. reflexivity. Qed.

Theorem byte_bam_query_via_index_file :
  forall dec bsz f, wf f -> total_csize f <= MAX_COMPRESSED_POSITION ->
  forall st0 o0 bodies ms d nref,
    Rel f st0 o0 -> skipn (N.to_nat o0) (concat (chunks f)) = stream bodies ->
    Forall rec_ok bodies -> Forall (body_ok dec ms d) bodies ->
    index_scan (list N) (fun b => dec_ctx (dec b)) 0 bodies = None ->
    exists st1 L,
      index_from dec bsz f st0 = (st1, IxOk L) /\ map br_body L = bodies /\
      let file := placed brec (bctx dec) br_a br_b L in
      let n := length (built dec ms d nref L) in
      let answer := fun qs : list (N * region) =>
        map (fun q => BRead (NV.Bgzf.Vpos.Ok (List.filter (body_scan_hit dec (fst q) (snd q)) bodies))) qs in
      (* BAI *)
      (forall meta unplaced, let i := built_bai ms d file meta n unplaced in bai_ok i ->
         exists i', read_bai (w_bai i) = Some i' /\
           forall qs st o, Forall (query_ok ms d nref) qs -> Rel f st o ->
             byte_bam_queries dec bsz query f st Linear ms d nref (map bref_refidx (bi_refs i')) qs = answer qs) /\
      (* CSI *)
      (forall hdr meta unplaced, let i := built_csi ms d file hdr meta n unplaced in csi_ok i ->
         exists i', w_csi i = WOk (w_csi_bytes i) /\ read_csi (w_csi_bytes i) = Some i' /\
           forall qs st o, Forall (query_ok ms d nref) qs -> Rel f st o ->
             byte_bam_queries dec bsz query f st Binned ms d nref (map cref_refidx (ci_refs i')) qs = answer qs).
Proof.
  intros dec bsz f Hwf Hmax st0 o0 bodies ms d nref HR Hsk Hrec Hok Hscan.
  destruct (byte_scan_spec f bsz st0 o0 bodies Hwf Hmax HR Hsk Hrec) as (st1' & a & L0 & Hv & Hs & Hm & Hl & _).
  destruct (byte_bam_index_query_equals_scan dec bsz f Hwf Hmax st0 o0 bodies ms d nref HR Hsk Hrec Hok Hscan)
    as (st1 & L & Hix & HmL & _ & Hq).
  exists st1, L. split; [exact Hix|]. split; [exact HmL|]. cbv zeta. split.
  - intros meta unplaced Hbok.
    destruct (bai_file_same_answers ms d _ meta _ unplaced Hbok) as (i' & Hrd & Hsame).
    exists i'. split; [exact Hrd|]. intros qs st o Hqs HRq.
    rewrite (byte_bam_queries_same dec bsz f Linear ms d nref _ _ Hsame qs st).
    rewrite <- built_is_built_refs. exact (Hq Linear qs st o Hqs HRq).
  - intros hdr meta unplaced Hcok.
    assert (Hsp : spans_ok ms d (placed brec (bctx dec) br_a br_b L)).
    { intros r Hr. apply (placed_in brec (bctx dec) br_a br_b) in Hr. destruct Hr as (x & Hx & Hxr).
      rewrite Forall_forall in Hok. assert (Hb : body_ok dec ms d (br_body x)).
      { apply Hok. rewrite <- HmL. apply in_map. exact Hx. }
      destruct Hb as (_ & _ & Hb). unfold to_rec, ByteIndex.bctx in Hxr.
      destruct (dec_ctx (dec (br_body x))) as [| | |k s e] eqn:Ec; try discriminate.
      injection Hxr as Hxr. subst r. cbn [r_s r_e]. exact (Hb k s e eq_refl). }
    destruct (csi_file_same_answers ms d _ hdr meta _ unplaced Hcok Hsp) as (i' & Hw & Hrd & Hsame).
    exists i'. split; [exact Hw|]. split; [exact Hrd|]. intros qs st o Hqs HRq.
    rewrite (byte_bam_queries_same dec bsz f Binned ms d nref _ _ Hsame qs st).
    rewrite <- built_is_built_refs. exact (Hq Binned qs st o Hqs HRq).
Qed.

(* ---- any format: the query through the written-and-read index file is the query with the
   in-memory index (so c04_vcf_query_equals_scan* transfer as well) ---- *)
Theorem fmt_query_via_index_file (A : Type) ctx oa ob hit ms d nref (l : list A) ixs k iv :
  fmt_index A ctx oa ob ms d nref l = Some ixs ->
  let file := placed A ctx oa ob l in
  (forall meta unplaced, let i := built_bai ms d file meta (length ixs) unplaced in bai_ok i ->
     exists i', read_bai (w_bai i) = Some i' /\
       fmt_query A oa hit Linear ms d (map bref_refidx (bi_refs i')) l k iv
       = fmt_query A oa hit Linear ms d ixs l k iv) /\
  (forall hdr meta unplaced, let i := built_csi ms d file hdr meta (length ixs) unplaced in
     csi_ok i -> spans_ok ms d file ->
     exists i', w_csi i = WOk (w_csi_bytes i) /\ read_csi (w_csi_bytes i) = Some i' /\
       fmt_query A oa hit Binned ms d (map cref_refidx (ci_refs i')) l k iv
       = fmt_query A oa hit Binned ms d ixs l k iv).
Proof.
  intros Hix file. pose proof (fmt_index_built A ctx oa ob ms d nref l ixs Hix) as Eb. split.
  - intros meta unplaced i Hok.
    destruct (bai_file_same_answers ms d file meta (length ixs) unplaced Hok) as (i' & Hrd & Hsame).
    exists i'. split; [exact Hrd|]. rewrite (fmt_query_same A oa hit Linear ms d _ _ l k iv Hsame).
    fold file in Eb. rewrite <- Eb. reflexivity.
  - intros hdr meta unplaced i Hok Hs.
    destruct (csi_file_same_answers ms d file hdr meta (length ixs) unplaced Hok Hs) as (i' & Hw & Hrd & Hsame).
    exists i'. split; [exact Hw|]. split; [exact Hrd|].
    rewrite (fmt_query_same A oa hit Binned ms d _ _ l k iv Hsame).
    fold file in Eb. rewrite <- Eb. reflexivity.
Qed.
