From Coq Require Import List Arith NArith Bool Lia Sorted.
From Coq Require Import ZifyBool ZifyNat ZifyN.
From NV Require Import Index.Bins Index.BinsProofs Index.Chunks Index.ChunksProofs Index.Indexer.
Import ListNotations.
Open Scope N_scope.

(* ====================================================================================== *)
(* A. optimize_chunks output is pairwise separated: every earlier chunk ends before every
      later chunk starts.  (Stronger than [separated], needed for "each record read once".) *)

Definition before (c c' : chunk) : Prop := cend c < cstart c'.

Lemma merge_loop_starts : forall rest cur x,
  In x (merge_loop cur rest) -> exists c, In c (cur :: rest) /\ cstart x = cstart c.
Proof.
  induction rest as [|nx rest IH]; intros cur x Hx; cbn [merge_loop] in Hx.
  - destruct Hx as [Hx|[]]. subst x. exists cur. cbn [In]. auto.
  - destruct (cend cur <? cstart nx).
    + destruct Hx as [Hx|Hx].
      * subst x. exists cur. cbn [In]. auto.
      * destruct (IH nx x Hx) as (c & Hc & He). exists c. cbn [In] in *. tauto.
    + destruct (cend cur <? cend nx).
      * destruct (IH _ x Hx) as (c & Hc & He). cbn [In] in Hc. destruct Hc as [Hc|Hc].
        -- subst c. cbn [cstart fst] in He. exists cur. cbn [In]. auto.
        -- exists c. cbn [In]. auto.
      * destruct (IH _ x Hx) as (c & Hc & He). exists c. cbn [In] in *. tauto.
Qed.

Lemma merge_loop_head_end : forall rest cur, exists e tl,
  merge_loop cur rest = (cstart cur, e) :: tl /\ cend cur <= e.
Proof.
  induction rest as [|nx rest IH]; intros cur; cbn [merge_loop].
  - destruct cur as [a b]. exists b, []. cbn. split; [reflexivity|lia].
  - destruct (cend cur <? cstart nx) eqn:E1.
    + destruct cur as [a b]. exists b. eexists. cbn. split; [reflexivity|lia].
    + destruct (cend cur <? cend nx) eqn:E2.
      * destruct (IH (cstart cur, cend nx)) as (e & tl & H & Hle). rewrite H. exists e, tl.
        cbn [cstart cend fst snd] in *. split; [reflexivity|lia].
      * apply IH.
Qed.

Lemma merge_loop_pairwise : forall rest cur,
  StronglySorted le_start (cur :: rest) -> StronglySorted before (merge_loop cur rest).
Proof.
  induction rest as [|nx rest IH]; intros cur Hs; cbn [merge_loop].
  - constructor; constructor.
  - inversion Hs as [|? ? Hs' Hall]; subst.
    destruct (cend cur <? cstart nx) eqn:E1.
    + constructor; [apply IH; exact Hs'|].
      rewrite Forall_forall. intros x Hx.
      destruct (merge_loop_starts _ _ _ Hx) as (c & Hc & He).
      unfold before. rewrite He.
      inversion Hs' as [|? ? _ Hall']; subst.
      destruct Hc as [Hc|Hc]; [subst c; lia|].
      rewrite Forall_forall in Hall'. specialize (Hall' c Hc). unfold le_start in Hall'. lia.
    + assert (Hsorted_new : forall e, StronglySorted le_start ((cstart cur, e) :: rest)).
      { intros e. inversion Hs' as [|? ? Hs'' Hall']; subst. constructor; [assumption|].
        rewrite Forall_forall in *. intros z Hz. specialize (Hall z (or_intror Hz)).
        unfold le_start in *. cbn [cstart fst]. exact Hall. }
      destruct (cend cur <? cend nx).
      * apply IH. apply Hsorted_new.
      * apply IH. destruct cur as [a b]. apply (Hsorted_new b).
Qed.

Theorem optimize_chunks_pairwise cs m : StronglySorted before (optimize_chunks cs m).
Proof.
  unfold optimize_chunks.
  pose proof (sort_sorted (filter (fun c => m <? cend c) cs)) as Hs.
  destruct (sort_by_start _) as [|c rest]; [constructor|apply merge_loop_pairwise; exact Hs].
Qed.

(* ====================================================================================== *)
(* B. reading pairwise-separated chunks from a file with increasing offsets = filtering *)

Definition a_lt (x y : rec) : Prop := r_a x < r_a y.

Lemma offsets_ordered_sorted : forall file prev, offsets_ordered prev file ->
  StronglySorted a_lt file /\ Forall (fun r => prev <= r_a r) file.
Proof.
  induction file as [|r rest IH]; intros prev H; cbn [offsets_ordered] in H.
  - split; constructor.
  - destruct H as (H1 & H2 & H3). destruct (IH _ H3) as [Hs Hf]. split.
    + constructor; [exact Hs|]. rewrite Forall_forall in *. intros y Hy. specialize (Hf y Hy).
      unfold a_lt. lia.
    + constructor; [exact H1|]. rewrite Forall_forall in *. intros y Hy. specialize (Hf y Hy). lia.
Qed.

Lemma filter_none {A} (p : A -> bool) l : (forall x, In x l -> p x = false) -> filter p l = [].
Proof.
  induction l as [|h t IH]; intros H; cbn [filter]; [reflexivity|].
  rewrite (H h (or_introl eq_refl)). apply IH. intros x Hx. apply H. right. exact Hx.
Qed.

Lemma filter_app_split (p q : rec -> bool) : forall file,
  StronglySorted a_lt file ->
  (forall x y, In x file -> In y file -> p x = true -> q y = true -> r_a x < r_a y) ->
  filter p file ++ filter q file = filter (fun r => p r || q r) file.
Proof.
  induction file as [|h t IH]; intros Hs Hpq; cbn [filter]; [reflexivity|].
  inversion Hs as [|? ? Hs' Hall]; subst.
  assert (IH' := IH Hs' (fun x y Hx Hy => Hpq x y (or_intror Hx) (or_intror Hy))).
  destruct (p h) eqn:Ep.
  - assert (Eq : q h = false).
    { destruct (q h) eqn:Eq; [|reflexivity]. exfalso.
      pose proof (Hpq h h (or_introl eq_refl) (or_introl eq_refl) Ep Eq). lia. }
    rewrite Eq. cbn [orb app]. f_equal. exact IH'.
  - cbn [orb]. destruct (q h) eqn:Eq; [|exact IH'].
    (* no later element satisfies p *)
    assert (Hnone : filter p t = []).
    { apply filter_none. intros x Hx. destruct (p x) eqn:Epx; [|reflexivity]. exfalso.
      pose proof (Hpq x h (or_intror Hx) (or_introl eq_refl) Epx Eq) as Hlt.
      rewrite Forall_forall in Hall. specialize (Hall x Hx). unfold a_lt in Hall. lia. }
    rewrite Hnone in *. cbn [app] in *. f_equal. exact IH'.
Qed.

Definition covb (cs : list chunk) (r : rec) : bool := existsb (fun c => in_chunk c r) cs.

Lemma chunk_read_filter : forall cs file,
  StronglySorted before cs -> StronglySorted a_lt file ->
  chunk_read cs file = filter (covb cs) file.
Proof.
  induction cs as [|c rest IH]; intros file Hcs Hf; unfold chunk_read; cbn [flat_map covb existsb].
  - symmetry. apply filter_none. reflexivity.
  - inversion Hcs as [|? ? Hcs' Hall]; subst.
    fold (chunk_read rest file). rewrite (IH file Hcs' Hf).
    apply filter_app_split; [exact Hf|].
    intros x y _ _ Hx Hy. unfold in_chunk in Hx. unfold covb in Hy.
    apply existsb_exists in Hy. destruct Hy as (c' & Hc' & Hy). unfold in_chunk in Hy.
    rewrite Forall_forall in Hall. specialize (Hall c' Hc'). unfold before in Hall. lia.
Qed.

Lemma filter_filter {A} (p q : A -> bool) l : filter p (filter q l) = filter (fun x => q x && p x) l.
Proof.
  induction l as [|h t IH]; cbn [filter]; [reflexivity|].
  destruct (q h); cbn [filter andb]; [destruct (p h); rewrite IH; reflexivity|exact IH].
Qed.

Lemma filter_ext_in' {A} (p q : A -> bool) l : (forall x, In x l -> p x = q x) -> filter p l = filter q l.
Proof.
  induction l as [|h t IH]; intros H; cbn [filter]; [reflexivity|].
  rewrite (H h (or_introl eq_refl)). rewrite IH; [reflexivity|]. intros x Hx. apply H. right. exact Hx.
Qed.

Lemma covb_covered cs r : covb cs r = true <-> covered cs (r_a r).
Proof.
  unfold covb, covered, covers. rewrite existsb_exists. split; intros (c & Hc & H); exists c; (split; [exact Hc|]);
    unfold in_chunk in *; lia.
Qed.

(* ====================================================================================== *)
(* C. invariants of the index under construction *)

Lemma bins_get_add_same : forall bm id c,
  bins_get (bins_add bm id c) id =
  Some (add_chunk (match bins_get bm id with Some cs => cs | None => [] end) c).
Proof.
  induction bm as [|[k cs] rest IH]; intros id c; cbn [bins_add bins_get].
  - rewrite N.eqb_refl. reflexivity.
  - destruct (k =? id) eqn:E; cbn [bins_get]; rewrite E; [reflexivity|apply IH].
Qed.

Lemma bins_get_add_other : forall bm id id' c, id' <> id ->
  bins_get (bins_add bm id c) id' = bins_get bm id'.
Proof.
  induction bm as [|[k cs] rest IH]; intros id id' c Hne; cbn [bins_add bins_get].
  - replace (id =? id') with false by lia. reflexivity.
  - destruct (k =? id) eqn:E; cbn [bins_get].
    + replace (k =? id') with false by lia. reflexivity.
    + destruct (k =? id'); [reflexivity|apply IH; exact Hne].
Qed.

Lemma bins_get_in : forall bm id cs, bins_get bm id = Some cs -> In (id, cs) bm.
Proof.
  induction bm as [|[k cs0] rest IH]; intros id cs H; cbn [bins_get] in H; [discriminate|].
  destruct (k =? id) eqn:E.
  - injection H as H. subst cs0. left. f_equal. lia.
  - right. apply IH. exact H.
Qed.

Lemma last_in {A} (l : list A) d : l <> [] -> In (last l d) l.
Proof.
  induction l as [|x t IH]; intros H; [congruence|].
  destruct t as [|y t']; [left; reflexivity|].
  right. change (last (x :: y :: t') d) with (last (y :: t') d). apply IH. discriminate.
Qed.

Lemma add_chunk_in_cases : forall cs c x, In x (add_chunk cs c) ->
  In x cs \/ x = c \/ exists l, In l cs /\ x = (cstart l, cend c).
Proof.
  induction cs as [|y rest IH]; intros c x Hx.
  - cbn [add_chunk In] in Hx. destruct Hx as [Hx|[]]. auto.
  - destruct rest as [|z rest'].
    + cbn [add_chunk] in Hx. destruct (cstart c <=? cend y).
      * destruct Hx as [Hx|[]]. right. right. exists y. cbn [In]. auto.
      * destruct Hx as [Hx|[Hx|[]]]; cbn [In]; auto.
    + change (add_chunk (y :: z :: rest') c) with (y :: add_chunk (z :: rest') c) in Hx.
      destruct Hx as [Hx|Hx]; [left; left; exact Hx|].
      destruct (IH c x Hx) as [H|[H|(l & Hl & H)]]; [left; right; exact H|auto|].
      right. right. exists l. split; [right; exact Hl|exact H].
Qed.

Lemma nth_repeat_lt {A} (a d : A) : forall m n, (n < m)%nat -> nth n (repeat a m) d = a.
Proof.
  induction m as [|m IH]; intros n H; [lia|]. destruct n as [|n]; cbn [repeat nth]; [reflexivity|].
  apply IH. lia.
Qed.

Section Build.
  Variables (ms : N) (d : nat).

  Definition binof (r : rec) : N := reg2bin ms d (r_s r) (r_e r).

  Record Inv (ix : refidx) (D : rec -> Prop) (m : N) : Prop := {
    inv_cov : forall r, D r -> exists cs, bins_get (bins ix) (binof r) = Some cs /\ covered cs (r_a r);
    inv_le : forall id cs c, bins_get (bins ix) id = Some cs -> In c cs -> cstart c <= m /\ cend c <= m;
    inv_lin : forall r, D r -> forall w, w <= window (r_e r) ->
                (N.to_nat w < length (lin ix))%nat /\ nth (N.to_nat w) (lin ix) 0 <= r_a r;
    inv_lin_le : Forall (fun x => x <= m) (lin ix)
  }.

  Lemma inv_init m : Inv empty_ref (fun _ => False) m.
  Proof. constructor; cbn; try tauto; try discriminate. constructor. Qed.

  Lemma inv_step ix D m r :
    Inv ix D m -> m <= r_a r -> r_a r < r_b r ->
    Inv (update ms d ix r) (fun x => D x \/ x = r) (r_b r).
  Proof.
    intros [Hcov Hle Hlin Hlinle] Hm Hab.
    set (c := (r_a r, r_b r)).
    set (cs0 := match bins_get (bins ix) (binof r) with Some cs => cs | None => [] end).
    assert (Hcs0 : forall l, In l cs0 -> cstart l <= m /\ cend l <= m).
    { intros l Hl. unfold cs0 in Hl. destruct (bins_get (bins ix) (binof r)) as [cs|] eqn:E; [|destruct Hl].
      eapply Hle; eauto. }
    assert (Hmono : forall l, last cs0 c = l -> cs0 <> [] -> cstart l <= cstart c /\ cend l <= cend c).
    { intros l Hl Hne. subst l. pose proof (last_in cs0 c Hne) as Hin. destruct (Hcs0 _ Hin).
      change (cstart c) with (r_a r). change (cend c) with (r_b r). lia. }
    constructor; unfold update; cbn [bins lin loffs]; fold (binof r); fold c.
    - (* coverage *)
      intros x [Hx|Hx].
      + destruct (Hcov x Hx) as (cs & Hget & Hc).
        destruct (N.eq_dec (binof x) (binof r)) as [Heq|Hne].
        * rewrite Heq in *. rewrite bins_get_add_same. fold cs0. eexists. split; [reflexivity|].
          apply add_chunk_covered; [exact Hmono|]. left. unfold cs0. rewrite Hget. exact Hc.
        * rewrite bins_get_add_other by exact Hne. exists cs. auto.
      + subst x. rewrite bins_get_add_same. fold cs0. eexists. split; [reflexivity|].
        apply add_chunk_covered; [exact Hmono|]. right. unfold covers, c. cbn [cstart cend fst snd]. lia.
    - (* bound *)
      intros id cs x Hget Hx.
      destruct (N.eq_dec id (binof r)) as [Heq|Hne].
      + subst id. rewrite bins_get_add_same in Hget. fold cs0 in Hget. injection Hget as Hget. subst cs.
        destruct (add_chunk_in_cases _ _ _ Hx) as [H|[H|(l & Hl & H)]].
        * destruct (Hcs0 _ H). lia.
        * subst x. unfold c. cbn [cstart cend fst snd]. lia.
        * subst x. destruct (Hcs0 _ Hl). unfold c. cbn [cstart cend fst snd]. lia.
      + rewrite bins_get_add_other in Hget by exact Hne. destruct (Hle _ _ _ Hget Hx). lia.
    - (* linear index *)
      intros x Hx w Hw. unfold lin_update.
      destruct (length (lin ix) <? S (N.to_nat (window (r_e r))))%nat eqn:E.
      + rewrite app_length, repeat_length.
        destruct Hx as [Hx|Hx].
        * destruct (Hlin x Hx w Hw) as [H1 H2]. split; [lia|]. rewrite app_nth1 by exact H1. exact H2.
        * subst x. split; [lia|].
          destruct (lt_dec (N.to_nat w) (length (lin ix))) as [Hlt|Hge].
          -- rewrite app_nth1 by exact Hlt. rewrite Forall_forall in Hlinle.
             specialize (Hlinle _ (nth_In _ 0 Hlt)). cbn beta in Hlinle. lia.
          -- rewrite app_nth2 by lia. rewrite nth_repeat_lt by lia. lia.
      + destruct Hx as [Hx|Hx].
        * apply Hlin; assumption.
        * subst x. split; [lia|].
          assert (Hlt : (N.to_nat w < length (lin ix))%nat) by lia.
          rewrite Forall_forall in Hlinle. specialize (Hlinle _ (nth_In _ 0 Hlt)). cbn beta in Hlinle. lia.
    - (* linear values bounded *)
      unfold lin_update. destruct (length (lin ix) <? S (N.to_nat (window (r_e r))))%nat.
      + apply Forall_app. split.
        * eapply Forall_impl; [|exact Hlinle]. cbn beta. intros; lia.
        * rewrite Forall_forall. intros y Hy. apply repeat_spec in Hy. subst y. lia.
      + eapply Forall_impl; [|exact Hlinle]. cbn beta. intros; lia.
  Qed.

  Lemma inv_weaken ix (D D' : rec -> Prop) m : (forall x, D' x -> D x) -> Inv ix D m -> Inv ix D' m.
  Proof. intros H [H1 H2 H3 H4]. constructor; auto. Qed.

  Lemma inv_fold : forall recs ix D m,
    Inv ix D m -> offsets_ordered m recs ->
    exists m', Inv (fold_left (update ms d) recs ix) (fun x => D x \/ In x recs) m'.
  Proof.
    induction recs as [|r rest IH]; intros ix D m HI Ho; cbn [fold_left].
    - exists m. eapply inv_weaken; [|exact HI]. intros x [H|[]]. exact H.
    - cbn [offsets_ordered] in Ho. destruct Ho as (H1 & H2 & H3).
      destruct (IH _ _ _ (inv_step ix D m r HI H1 H2) H3) as (m' & HI').
      exists m'. eapply inv_weaken; [|exact HI']. cbn [In]. intros x [H|[H|H]]; auto.
  Qed.

  Lemma offsets_ordered_weaken : forall l p p', p' <= p -> offsets_ordered p l -> offsets_ordered p' l.
  Proof. destruct l as [|r rest]; intros p p' Hp H; cbn [offsets_ordered] in *; [exact I|]. intuition lia. Qed.

  Lemma offsets_ordered_filter (f : rec -> bool) : forall l p, offsets_ordered p l -> offsets_ordered p (filter f l).
  Proof.
    induction l as [|r rest IH]; intros p H; cbn [filter]; [exact I|].
    cbn [offsets_ordered] in H. destruct H as (H1 & H2 & H3). destruct (f r).
    - cbn [offsets_ordered]. auto.
    - apply IH. eapply offsets_ordered_weaken; [|exact H3]. lia.
  Qed.

  Lemma build_inv k file : offsets_ordered 0 file ->
    exists m, Inv (build_ref ms d k file) (fun x => In x file /\ on_ref k x = true) m.
  Proof.
    intros Ho. unfold build_ref.
    destruct (inv_fold (filter (on_ref k) file) empty_ref (fun _ => False) 0 (inv_init 0)
                (offsets_ordered_filter _ _ _ Ho)) as (m & HI).
    exists m. eapply inv_weaken; [|exact HI]. intros x [Hx Hk]. right. apply filter_In. auto.
  Qed.

  (* ---- query side ---- *)
  Lemma query_chunks_in ix qs qe id cs c :
    bins_get (bins ix) id = Some cs -> In id (reg2bins ms d qs qe) -> In c cs ->
    In c (query_chunks ms d ix qs qe).
  Proof.
    intros Hget Hid Hc. unfold query_chunks. apply in_flat_map. exists (id, cs).
    split; [apply bins_get_in; exact Hget|]. cbn [fst snd].
    replace (existsb (N.eqb id) (reg2bins ms d qs qe)) with true; [exact Hc|].
    symmetry. apply existsb_exists. exists id. split; [exact Hid|apply N.eqb_refl].
  Qed.

  Lemma window_mono p q : p <= q -> window p <= window q.
  Proof. intros H. unfold window. apply N.div_le_mono; lia. Qed.

  (* completeness for any pruning offset that does not exceed the record's start offset *)
  Theorem query_complete_generic k file qs qe r moff :
    offsets_ordered 0 file -> spans_ok ms d file ->
    1 <= qs -> qs <= qe ->
    In r file -> intersects k qs qe r = true ->
    moff <= r_a r ->
    covered (optimize_chunks (query_chunks ms d (build_ref ms d k file) qs qe) moff) (r_a r).
  Proof.
    intros Ho Hsp Hq1 Hq2 Hr Hint Hm.
    destruct (build_inv k file Ho) as (m & [Hcov _ _ _]).
    unfold intersects in Hint. apply andb_prop in Hint. destruct Hint as [Hint H3].
    apply andb_prop in Hint. destruct Hint as [H1 H2].
    destruct (Hcov r (conj Hr H1)) as (cs & Hget & (c & Hc & Hcv)).
    destruct (Hsp r Hr) as (Hs1 & Hs2 & Hs3).
    apply optimize_chunks_covers with (c := c).
    - eapply query_chunks_in; [exact Hget| |exact Hc].
      unfold binof. apply reg2bin_in_reg2bins; lia.
    - unfold covers in Hcv. lia.
    - exact Hcv.
  Qed.

  Theorem linear_min_offset_sound k file qs qe r :
    offsets_ordered 0 file ->
    In r file -> intersects k qs qe r = true ->
    lin_min_offset (lin (build_ref ms d k file)) qs <= r_a r.
  Proof.
    intros Ho Hr Hint.
    destruct (build_inv k file Ho) as (m & [_ _ Hlin _]).
    unfold intersects in Hint. apply andb_prop in Hint. destruct Hint as [Hint H3].
    apply andb_prop in Hint. destruct Hint as [H1 H2].
    unfold lin_min_offset.
    apply (Hlin r (conj Hr H1) (window qs)). apply window_mono. lia.
  Qed.

  (* ---- the end-to-end statement: a region query returns exactly the scan-filtered records ---- *)
  Theorem query_equals_scan_generic kd k file qs qe :
    offsets_ordered 0 file -> spans_ok ms d file ->
    1 <= qs -> qs <= qe -> qe <= max_position ms d ->
    (forall r, In r file -> intersects k qs qe r = true ->
               min_offset kd ms d (build_ref ms d k file) qs <= r_a r) ->
    query_records kd ms d file k qs qe = Some (scan_records file k qs qe).
  Proof.
    intros Ho Hsp Hq1 Hq2 Hq3 Hmoff. unfold query_records, query.
    replace (max_position ms d <? qs) with false by lia.
    replace (max_position ms d <? qe) with false by lia. cbn [orb].
    f_equal. unfold scan_records.
    set (out := optimize_chunks _ _).
    destruct (offsets_ordered_sorted file 0 Ho) as [Hsorted _].
    rewrite (chunk_read_filter out file (optimize_chunks_pairwise _ _) Hsorted).
    rewrite filter_filter. apply filter_ext_in'. intros r Hr.
    destruct (intersects k qs qe r) eqn:E; [|apply andb_false_r].
    rewrite andb_true_r. apply covb_covered. unfold out.
    apply query_complete_generic; auto.
  Qed.

  Theorem query_equals_scan_linear k file qs qe :
    offsets_ordered 0 file -> spans_ok ms d file ->
    1 <= qs -> qs <= qe -> qe <= max_position ms d ->
    query_records Linear ms d file k qs qe = Some (scan_records file k qs qe).
  Proof.
    intros Ho Hsp Hq1 Hq2 Hq3. apply query_equals_scan_generic; auto.
    intros r Hr Hint. cbn [min_offset]. eapply linear_min_offset_sound; eauto.
  Qed.

  (* out-of-range bounds are rejected (InvalidInput), never silently clipped *)
  Theorem query_rejects_out_of_range kd ix qs qe :
    max_position ms d < qs \/ max_position ms d < qe -> query kd ms d ix qs qe = None.
  Proof.
    intros H. unfold query.
    destruct (max_position ms d <? qs) eqn:E1; [reflexivity|].
    destruct (max_position ms d <? qe) eqn:E2; [reflexivity|]. lia.
  Qed.
End Build.
