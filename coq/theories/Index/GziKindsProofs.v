(* Proofs about the kinded gzi reader: it refines Layout.read_gzi, and its result on EVERY byte
   string is given by a closed form in the length of the input and the declared count. *)
From Coq Require Import List Arith NArith Bool Lia.
From Coq Require Import ZifyBool ZifyNat ZifyN.
From NV Require Import Base.LE Index.Layout Index.LayoutProofs Index.GziKinds.
Import ListNotations.
Open Scope N_scope.

Lemma p_chunk_len bs :
  match p_chunk bs with
  | Some (_, r) => length bs = (16 + length r)%nat
  | None => (length bs < 16)%nat
  end.
Proof.
  unfold p_chunk, p_le.
  destruct (8 <=? length bs)%nat eqn:E1; [|lia].
  rewrite skipn_length.
  destruct (8 <=? length bs - 8)%nat eqn:E2; [|lia].
  rewrite !skipn_length. lia.
Qed.

Lemma p_repeat_chunk_len k : forall bs,
  match p_repeat k p_chunk bs with
  | Some (l, r) => length bs = (16 * k + length r)%nat /\ length l = k
  | None => (length bs < 16 * k)%nat
  end.
Proof.
  induction k as [|k IH]; intros bs; cbn [p_repeat].
  - split; [lia|reflexivity].
  - pose proof (p_chunk_len bs) as Hc.
    destruct (p_chunk bs) as [[c r]|]; [|lia].
    specialize (IH r). destruct (p_repeat k p_chunk r) as [[l r']|].
    + destruct IH as [H1 H2]. cbn [length]. split; lia.
    + lia.
Qed.

(* the fuelled binary-counter loop is p_repeat; the fuel is never exhausted *)
Lemma gzi_entries_fuel fuel : forall n acc bs,
  (length bs < fuel)%nat ->
  gzi_entries fuel n acc bs =
  match p_repeat (N.to_nat n) p_chunk bs with
  | Some (l, r) => Some (rev acc ++ l, r)
  | None => None
  end.
Proof.
  induction fuel as [|f IH]; intros n acc bs Hf; [lia|].
  cbn [gzi_entries].
  destruct (n =? 0) eqn:En.
  - apply N.eqb_eq in En. subst n. cbn [N.to_nat p_repeat]. rewrite app_nil_r. reflexivity.
  - apply N.eqb_neq in En.
    replace (N.to_nat n) with (S (N.to_nat (n - 1))) by lia.
    cbn [p_repeat].
    pose proof (p_chunk_len bs) as Hc.
    destruct (p_chunk bs) as [[c r]|]; [|reflexivity].
    rewrite IH by lia.
    destruct (p_repeat (N.to_nat (n - 1)) p_chunk r) as [[l r']|]; [|reflexivity].
    cbn [rev]. rewrite <- app_assoc. reflexivity.
Qed.

(* the kinded reader refines the option-valued reader of Layout *)
Theorem read_gzi_k_refines bs :
  read_gzi bs = match read_gzi_k bs with GOk l => Some l | _ => None end.
Proof.
  unfold read_gzi, read_gzi_k.
  destruct (p_le 8 bs) as [[n r]|]; [|reflexivity].
  rewrite gzi_entries_fuel by lia. cbn [rev app].
  destruct (p_repeat (N.to_nat n) p_chunk r) as [[l [|x r']]|]; reflexivity.
Qed.

Corollary read_gzi_k_ok_iff bs l : read_gzi_k bs = GOk l <-> read_gzi bs = Some l.
Proof.
  rewrite read_gzi_k_refines. destruct (read_gzi_k bs); split; intros H; try discriminate; congruence.
Qed.

(* closed form on every input: the error kind is a function of the length and the declared count *)
Definition gzi_declared (bs : list N) : N := le_dec (firstn 8 bs).

Theorem read_gzi_k_total bs :
  match read_gzi_k bs with
  | GEof => N.of_nat (length bs) < 8 \/ N.of_nat (length bs) < 8 + 16 * gzi_declared bs
  | GOk l => N.of_nat (length bs) = 8 + 16 * gzi_declared bs /\ N.of_nat (length l) = gzi_declared bs
  | GInvalidData => 8 + 16 * gzi_declared bs < N.of_nat (length bs)
  end.
Proof.
  unfold read_gzi_k, gzi_declared, p_le.
  destruct (8 <=? length bs)%nat eqn:E8; [|cbv beta iota; left; lia].
  cbv beta iota.
  rewrite gzi_entries_fuel by lia. cbn [rev app].
  set (n := le_dec (firstn 8 bs)).
  pose proof (p_repeat_chunk_len (N.to_nat n) (skipn 8 bs)) as H.
  rewrite skipn_length in H. clearbody n.
  destruct (p_repeat (N.to_nat n) p_chunk (skipn 8 bs)) as [[l [|x r']]|]; cbv beta iota; unfold chunkp in *.
  - destruct H as [H1 H2]. cbn [length] in H1. apply Nat.leb_le in E8.
    assert (E : length bs = (8 + 16 * N.to_nat n)%nat) by lia.
    split; [rewrite E|rewrite H2]; lia.
  - destruct H as [H1 H2]. cbn [length] in H1. apply Nat.leb_le in E8.
    assert (E : length bs = (8 + 16 * N.to_nat n + S (length r'))%nat) by lia.
    rewrite E; lia.
  - right. apply Nat.leb_le in E8.
    assert (E : (length bs < 8 + 16 * N.to_nat n)%nat) by lia. lia.
Qed.

(* the three classes are exclusive and exhaustive, so the closed form is an iff *)
Corollary read_gzi_k_eof_iff bs :
  read_gzi_k bs = GEof <-> N.of_nat (length bs) < 8 + 16 * gzi_declared bs \/ N.of_nat (length bs) < 8.
Proof.
  pose proof (read_gzi_k_total bs) as H. destruct (read_gzi_k bs); split; intros G; try discriminate; try reflexivity; lia.
Qed.

Corollary read_gzi_k_invalid_iff bs :
  read_gzi_k bs = GInvalidData <-> 8 + 16 * gzi_declared bs < N.of_nat (length bs).
Proof.
  pose proof (read_gzi_k_total bs) as H. destruct (read_gzi_k bs); split; intros G; try discriminate; try reflexivity; lia.
Qed.

Corollary read_gzi_k_accepts_iff bs :
  (exists l, read_gzi_k bs = GOk l) <-> N.of_nat (length bs) = 8 + 16 * gzi_declared bs.
Proof.
  pose proof (read_gzi_k_total bs) as H. destruct (read_gzi_k bs) as [l| |]; split; intros G.
  - tauto.
  - eauto.
  - destruct G as [l G]; discriminate.
  - lia.
  - destruct G as [l G]; discriminate.
  - lia.
Qed.

(* written index + trailing bytes: the kind is InvalidData; a strict prefix: UnexpectedEof *)
Definition gzi_ok (idx : list (N * N)) : Prop :=
  N.of_nat (length idx) < 18446744073709551616 /\ Forall chunk_ok idx.

Lemma w_gzi_length idx : length (w_gzi idx) = (8 + 16 * length idx)%nat.
Proof.
  unfold w_gzi. rewrite app_length. unfold le64. rewrite le_bytes_length.
  f_equal. induction idx as [|c idx IH]; [reflexivity|].
  cbn [map concat length]. rewrite app_length, IH. unfold w_chunk, le64.
  rewrite app_length, !le_bytes_length. lia.
Qed.

Lemma gzi_declared_w idx rest : N.of_nat (length idx) < 18446744073709551616 ->
  gzi_declared (w_gzi idx ++ rest) = N.of_nat (length idx).
Proof.
  intros H. unfold gzi_declared, w_gzi. rewrite <- app_assoc.
  unfold le64. rewrite firstn_app, le_bytes_length, Nat.sub_diag, firstn_O, app_nil_r.
  rewrite <- (le_bytes_length 8 (N.of_nat (length idx))) at 1. rewrite firstn_all.
  apply le_dec_le_bytes. exact H.
Qed.

Theorem gzi_trailing_invalid_data idx b rest : N.of_nat (length idx) < 18446744073709551616 ->
  read_gzi_k (w_gzi idx ++ b :: rest) = GInvalidData.
Proof.
  intros H. apply read_gzi_k_invalid_iff. rewrite gzi_declared_w by exact H.
  rewrite app_length, w_gzi_length. cbn [length]. lia.
Qed.

Theorem gzi_truncated_eof idx k : N.of_nat (length idx) < 18446744073709551616 ->
  (k < length (w_gzi idx))%nat ->
  read_gzi_k (firstn k (w_gzi idx)) = GEof.
Proof.
  intros H Hk. apply read_gzi_k_eof_iff.
  rewrite firstn_length, Nat.min_l by lia.
  destruct (Nat.ltb k 8) eqn:E; [right; lia|]. left.
  assert (Hd : gzi_declared (firstn k (w_gzi idx)) = N.of_nat (length idx)).
  { unfold gzi_declared. rewrite firstn_firstn, Nat.min_l by lia.
    rewrite <- (gzi_declared_w idx [] H). unfold gzi_declared. rewrite app_nil_r. reflexivity. }
  rewrite Hd. rewrite w_gzi_length in Hk. lia.
Qed.
