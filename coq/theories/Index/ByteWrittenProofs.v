(* C04, seventh deepening: END TO END over a file noodles wrote.

   The uncompressed stream is C05's model of bam::io::Writer (NV.Bam.File.write_file: C06's header
   block followed by one encoded record each), cut into BGZF blocks in ANY way (a frame table f
   with concat (chunks f) = the stream).  Composition, all read-only imports:
     C06  NV.Sam.BamHeaderProofs.bam_header_roundtrip: the header reader returns the header and
          leaves exactly the record part of the stream;
     C05  NV.Bam.FileProofs.bodies_written (the stream is 4 size bytes + body per record, every
          body passes validate and decodes to the record), NV.Bam.LazyProofs.decode_body_fields
          and NV.Bam.LazyCigarProofs.lazy_cigar_eq (the lazy accessors lz_rid / lz_pos / lz_flags
          / lzp_cigar of a written body yield the record's own reference id, POS, flags, CIGAR);
     C04  after_header_rel (the reader after the header is in a state of C02's invariant at the
          first record) and byte_bam_index_ops_equals_scan.
   Result: write records with the BAM writer, index the bytes, query = scan of WHAT WAS WRITTEN
   (the records' own fields), for region and unmapped queries in any order on one reader. *)
From Coq Require Import List NArith ZArith PeanoNat Lia Bool ZifyBool ZifyNat ZifyN.
From NV Require Bam.Record Bam.Encode Bam.Decode Bam.Lazy Bam.File Bam.CodecProofs Bam.FileProofs
  Bam.LazyProofs Bam.LazyCigarProofs Sam.Header Sam.HeaderProofs Sam.BamHeader Sam.BamHeaderProofs.
From NV Require Import Base.LE Bgzf.Vpos Bgzf.Gzi Bgzf.ReaderOps Bgzf.FlatRef Bgzf.ReaderOpsProofs
  Index.Bins Index.Chunks Index.Indexer Index.QueryProofs Index.QueryFast Index.AlignEnd Index.AlignEndProofs
  Index.Formats Index.FormatsProofs Index.ByteQuery Index.ByteQueryProofs Index.ByteIndex Index.ByteIndexLazy
  Index.ByteIndexProofs Index.ByteUnmapped Index.ByteUnmappedProofs.
Import ListNotations.
Open Scope N_scope.
Arguments N.add : simpl never.
Arguments N.mul : simpl never.
Arguments N.div : simpl never.
Arguments N.modulo : simpl never.
Arguments N.ltb : simpl never.
Arguments N.leb : simpl never.
Arguments N.eqb : simpl never.
Arguments firstn : simpl never.
Arguments skipn : simpl never.

Module R := NV.Bam.Record.
Module Dc := NV.Bam.Decode.
Module BF := NV.Bam.File.
Module BFP := NV.Bam.FileProofs.
Module BH := NV.Sam.BamHeader.

Lemma Forall2_impl {A B : Type} (P Q : A -> B -> Prop) : forall la lb,
  (forall a b, P a b -> Q a b) -> Forall2 P la lb -> Forall2 Q la lb.
Proof. intros la lb H F. induction F; constructor; auto. Qed.

(* ---- bridges between the two developments' byte helpers ---- *)
Lemma lenN_len : forall (A : Type) (l : list A), R.lenN l = len l.
Proof. intros A l. unfold len. induction l as [|x t IH]; cbn [R.lenN length]; [reflexivity|]. rewrite IH. lia. Qed.

Lemma leW_le_bytes : forall w n, R.leW w n = le_bytes w n.
Proof. induction w as [|w IH]; intros n; cbn [R.leW le_bytes]; [reflexivity|]. rewrite IH. reflexivity. Qed.

Lemma framed_leW : forall b, R.leW 4 (R.lenN b) ++ b = framed b.
Proof. intros b. unfold framed, le32. rewrite leW_le_bytes, lenN_len. reflexivity. Qed.

Lemma rdW_le_dec : forall w l v r, R.rdW w l = Some (v, r) -> le_dec (firstn w l) = v.
Proof.
  induction w as [|w IH]; intros l v r H; cbn [R.rdW] in H.
  - injection H as H _. subst v. reflexivity.
  - destruct l as [|b t]; [discriminate|]. destruct (R.rdW w t) as [[v' r']|] eqn:E; [|discriminate].
    injection H as H _. subst v. rewrite firstn_cons. cbn [le_dec]. rewrite (IH _ _ _ E). reflexivity.
Qed.

Lemma nth_hd_skipn : forall (n : nat) (l : list N) d, nth n l d = hd d (skipn n l).
Proof.
  induction n as [|n IH]; intros l d; destruct l as [|x t]; try reflexivity.
  rewrite skipn_cons. cbn [nth]. apply IH.
Qed.

(* C05's validate (io/reader/record.rs) is the check C04's record framing performs *)
Lemma validate_bam_validate : forall b, Dc.validate b = R.Ok tt -> bam_validate b = true.
Proof.
  intros b H. unfold Dc.validate in H. unfold bam_validate. rewrite <- lenN_len.
  destruct (R.lenN b <? 32) eqn:E32; [discriminate|].
  destruct (R.rdW 1 (skipn 8 b)) as [[lname r1]|] eqn:E1; [|discriminate].
  destruct (R.rdW 2 (skipn 12 b)) as [[nops r2]|] eqn:E2; [|discriminate].
  destruct (R.rdW 4 (skipn 16 b)) as [[lseq r3]|] eqn:E3; [|discriminate].
  rewrite (rdW_le_dec _ _ _ _ E2), (rdW_le_dec _ _ _ _ E3).
  assert (Hn : nth 8 b 0 = lname).
  { rewrite nth_hd_skipn. cbn [R.rdW] in E1. destruct (skipn 8 b) as [|x t]; [discriminate|].
    injection E1 as E1 _. cbn [hd]. lia. }
  rewrite Hn.
  destruct (R.lenN b <? 32 + lname + 4 * nops + (lseq + 1) / 2 + lseq) eqn:EL; [discriminate|].
  set (X := (lseq + 1) / 2) in *. lia.
Qed.

(* ---- what the lazy accessors see on a body the writer produced ---- *)
Definition rec_bam (r : R.record) : bam_rec :=
  mkbam (R.r_rid r) (R.r_pos r) (R.r_cigar r) (N.testbit (R.r_flags r) 2) 0 0.

Lemma lazy_dec_written : forall b r,
  Dc.validate b = R.Ok tt -> Dc.decode_body b = R.Ok r ->
  lazy_dec b = mkdec (Some (R.r_rid r)) (Some (R.r_pos r)) (Some (R.r_cigar r)) (N.testbit (R.r_flags r) 2).
Proof.
  intros b r Hv Hd. unfold lazy_dec.
  destruct (NV.Bam.LazyProofs.decode_body_fields b r Hd) as (F1 & F2 & _ & F4 & _).
  rewrite F1, F2, F4, (NV.Bam.LazyCigarProofs.lazy_cigar_eq b r Hv Hd). reflexivity.
Qed.

Lemma dec_bam_written : forall b r,
  Dc.validate b = R.Ok tt -> Dc.decode_body b = R.Ok r ->
  dec_clean (lazy_dec b) /\ dec_bam (lazy_dec b) 0 0 = rec_bam r /\ dec_ctx (lazy_dec b) = bam_ctx (rec_bam r).
Proof.
  intros b r Hv Hd. pose proof (lazy_dec_written b r Hv Hd) as E.
  assert (Hc : dec_clean (lazy_dec b)).
  { rewrite E. exists (R.r_rid r), (R.r_pos r), (R.r_cigar r). auto. }
  split; [exact Hc|]. split.
  - rewrite E. reflexivity.
  - rewrite (dec_ctx_bam _ 0 0 Hc). rewrite E. reflexivity.
Qed.

(* a record the encoder accepted has POS - 1 <= i32::MAX *)
Lemma encode_body_pos : forall nref r b, NV.Bam.Encode.encode_body nref r = R.Ok b ->
  forall s, R.r_pos r = Some s -> s < AlignEnd.usize_lim.
Proof.
  intros nref r b H s Es. unfold NV.Bam.Encode.encode_body in H.
  NV.Bam.CodecProofs.bind_ok H rid E1. NV.Bam.CodecProofs.bind_ok H pos E2.
  rewrite Es in E2. cbn [NV.Bam.Encode.enc_pos] in E2. cbv zeta in E2.
  destruct (s - 1 <=? NV.Bam.Encode.i32_max) eqn:E; [|discriminate].
  unfold NV.Bam.Encode.i32_max in E. unfold AlignEnd.usize_lim. lia.
Qed.

(* ---- the premises on the WRITTEN RECORDS (coordinate-sorted file within the index geometry) ---- *)
Definition rec_placed_ok (ms : N) (d : nat) (r : R.record) : Prop :=
  (* a read with a reference id has a POS *)
  (R.r_rid r <> None -> R.r_pos r <> None) /\
  (* the span of a placed read lies within the geometry *)
  (forall k s e, bam_ctx (rec_bam r) = CSome k s e -> s <= e /\ e <= max_position ms d).

Definition rec_ctx (r : R.record) : ctxr := bam_ctx (rec_bam r).

Lemma index_scan_ext (A B : Type) (ca : A -> ctxr) (cb : B -> ctxr) : forall la lb cur,
  Forall2 (fun a b => ca a = cb b) la lb -> index_scan A ca cur la = index_scan B cb cur lb.
Proof.
  intros la lb cur H. revert cur. induction H as [|a b ta tb E _ IH]; intros cur; cbn [index_scan]; [reflexivity|].
  rewrite E. destruct (cb b); try reflexivity; try apply IH. destruct (cur <=? k); [apply IH|reflexivity].
Qed.

Theorem written_bam_queries_equal_scan :
  forall h rs bytes,
    NV.Sam.HeaderProofs.wf_header h -> Forall BFP.rec_ok rs -> BF.write_file h rs = R.Ok bytes ->
  forall f bsz, wf f -> total_csize f <= MAX_COMPRESSED_POSITION -> concat (chunks f) = bytes ->
  forall ms d, Forall (rec_placed_ok ms d) rs -> index_scan R.record rec_ctx 0 rs = None ->
    let nref := length (NV.Sam.Header.h_sq h) in
    exists hb bodies L,
      (* the stream: C06's header block, then 4 size bytes + body per record; the header reader
         returns h and leaves exactly the records *)
      BH.write_bam_header h = Some hb /\ bytes = hb ++ stream bodies /\
      BH.read_bam_header bytes = R.Ok (h, stream bodies) /\
      Forall2 (fun r b => NV.Bam.Encode.encode_body (R.lenN (NV.Sam.Header.h_sq h)) r = R.Ok b) rs bodies /\
      (* the fields the indexer and the filters read from a written body are the record's own *)
      Forall2 (fun r b => dec_bam (lazy_dec b) 0 0 = rec_bam r /\
                          forall k iv, body_scan_hit lazy_dec k iv b = bam_scan_hit k iv (rec_bam r)) rs bodies /\
      map br_body L = bodies /\
      forall kd, exists U, unmapped_answer_ok lazy_dec bodies U /\
        forall ops, Forall (op_ok ms d nref) ops ->
          byte_bam_ops_session lazy_dec bsz query f (len hb) kd ms d nref ops
          = (IxOk L, map (op_answer lazy_dec bodies U) ops).
Proof.
  intros h rs bytes Hh Hrs Hw f bsz Hwf Hmax Hcat ms d Hpl Hsc nref.
  unfold BF.write_file in Hw.
  destruct (BH.write_bam_header h) as [hb|] eqn:Eh; [|discriminate].
  NV.Bam.CodecProofs.bind_ok Hw rb Erb. injection Hw as Hw. subst bytes.
  destruct (BFP.bodies_written _ rs rb Hrs Erb) as (bodies & HF & Hrb & Hlen & _).
  assert (Estream : rb = stream bodies).
  { rewrite Hrb. unfold stream. f_equal. apply map_ext. intros b. apply framed_leW. }
  subst rb. rewrite Estream in Hcat, Erb |- *.
  (* per record facts *)
  assert (HF2 : Forall2 (fun r b => Dc.validate b = R.Ok tt /\ Dc.decode_body b = R.Ok (NV.Bam.CodecProofs.norm r) /\
                                     NV.Bam.Encode.encode_body (R.lenN (NV.Sam.Header.h_sq h)) r = R.Ok b) rs bodies).
  { eapply Forall2_impl; [|exact HF]. intros r b (H1 & H2 & H3). auto. }
  assert (Hnorm : forall r, rec_bam (NV.Bam.CodecProofs.norm r) = rec_bam r) by reflexivity.
  assert (Hrec : Forall rec_ok bodies).
  { clear - Hlen HF2. induction HF2 as [|r b tr tb (Hv & _) _ IH]; [constructor|].
    inversion Hlen as [|? ? Hb Ht]; subst. constructor; [|exact (IH Ht)].
    unfold rec_ok. rewrite <- lenN_len. split; [lia|]. split; [lia|]. apply validate_bam_validate. exact Hv. }
  assert (Hbok : Forall (body_ok lazy_dec ms d) bodies).
  { clear - HF2 Hpl Hnorm Hrs. revert Hpl Hrs. induction HF2 as [|r b tr tb (Hv & Hd & He) _ IH]; intros Hpl Hrs; [constructor|].
    inversion Hpl as [|? ? (Hp1 & Hp2) Hplt]; subst. inversion Hrs as [|? ? (Hwfr & _) Hrst]; subst.
    constructor; [|exact (IH Hplt Hrst)].
    destruct (dec_bam_written b _ Hv Hd) as (Hc & Hb & Hx). rewrite Hnorm in Hb, Hx.
    split; [exact Hc|]. split.
    - rewrite Hb. split; [exact Hp1|]. intros s Es. cbn [rec_bam b_pos] in Es.
      destruct Hwfr as (_ & _ & Hp & _). split; [exact (Hp s Es)|]. exact (encode_body_pos _ _ _ He s Es).
    - intros k s e Hcs. rewrite Hx in Hcs. destruct (Hp2 k s e Hcs) as [H1 H2].
      split; [|split; assumption].
      unfold bam_ctx in Hcs. cbn [rec_bam b_pos b_rid b_cigar] in Hcs.
      destruct (alignment_end (R.r_pos r) (R.r_cigar r)); try discriminate.
      destruct (R.r_rid r); [|discriminate]. destruct (R.r_pos r) as [s'|] eqn:Es; [|discriminate].
      injection Hcs as _ Hs _. subst s'. destruct Hwfr as (_ & _ & Hp & _). exact (Hp s Es). }
  assert (Hscan : index_scan (list N) (fun b => dec_ctx (lazy_dec b)) 0 bodies = None).
  { rewrite <- Hsc. symmetry. apply index_scan_ext.
    eapply Forall2_impl; [|exact HF2]. intros r b (Hv & Hd & _). unfold rec_ctx.
    destruct (dec_bam_written b _ Hv Hd) as (_ & _ & Hx). rewrite Hx, Hnorm. reflexivity. }
  (* the reader after the header *)
  assert (Hhl : len hb <= total_dlen f).
  { rewrite <- len_concat_chunks, Hcat, len_app. lia. }
  destruct (after_header_rel f Hwf (len hb) Hhl) as (st0 & Hah & HR0).
  assert (Hsk : skipn (N.to_nat (len hb)) (concat (chunks f)) = stream bodies).
  { rewrite Hcat. unfold len. rewrite Nat2N.id. rewrite skipn_app, Nat.sub_diag, skipn_all. reflexivity. }
  destruct (byte_bam_index_ops_equals_scan lazy_dec bsz f Hwf Hmax st0 (len hb) bodies ms d nref HR0 Hsk Hrec Hbok Hscan)
    as (st1 & L & Hix & Hm & HR1 & Hops).
  exists hb, bodies, L.
  split; [reflexivity|]. split; [reflexivity|].
  split; [exact (NV.Sam.BamHeaderProofs.bam_header_roundtrip h hb (stream bodies) Hh Eh)|].
  split; [eapply Forall2_impl; [|exact HF2]; intros r b (_ & _ & H3); exact H3|].
  split.
  { eapply Forall2_impl; [|exact HF2]. intros r b (Hv & Hd & _).
    destruct (dec_bam_written b _ Hv Hd) as (_ & Hb & _). rewrite Hnorm in Hb.
    split; [exact Hb|]. intros k iv. unfold body_scan_hit. rewrite Hb. reflexivity. }
  split; [exact Hm|].
  intros kd. destruct (Hops kd) as (U & HU & Hq). exists U. split; [exact HU|].
  intros ops Hok. unfold byte_bam_ops_session. rewrite Hah, Hix.
  rewrite (Hq ops st1 _ Hok HR1). reflexivity.
Qed.
