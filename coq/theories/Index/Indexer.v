(* Model of index construction and region queries in noodles-csi:
   binning_index/indexer.rs (per-reference routing), index/reference_sequence.rs::update,
   reference_sequence/index/{linear_index,binned_index}.rs (update, min_offset),
   binning_index/index.rs::query, and the chunk-by-chunk reading of csi/io/query.rs followed by
   the format readers' `intersects` filter.

   A file is a list of records in file order.  Each record carries its reference id, its
   1-based inclusive reference span [s,e], and the virtual offsets a < b before / after it. *)
From Coq Require Import List Arith NArith Bool.
From NV Require Import Index.Bins Index.Chunks.
Import ListNotations.
Open Scope N_scope.

Record rec := mkrec { r_rid : N; r_s : N; r_e : N; r_a : N; r_b : N }.

(* ---- IndexMap<usize, Bin> as an insertion-ordered association list ---- *)
Definition binmap := list (N * list chunk).

Fixpoint bins_add (bm : binmap) (id : N) (c : chunk) : binmap :=
  match bm with
  | [] => [(id, add_chunk [] c)]
  | (k, cs) :: rest => if k =? id then (k, add_chunk cs c) :: rest else (k, cs) :: bins_add rest id c
  end.

Fixpoint bins_get (bm : binmap) (id : N) : option (list chunk) :=
  match bm with
  | [] => None
  | (k, cs) :: rest => if k =? id then Some cs else bins_get rest id
  end.

(* ---- linear index: Vec<VirtualPosition>, window = 2^14 whatever the geometry ---- *)
Definition window (p : N) : N := (p - 1) / 16384.

Definition lin_update (lin : list N) (e : N) (a : N) : list N :=
  let new_len := S (N.to_nat (window e)) in
  if (length lin <? new_len)%nat then lin ++ repeat a (new_len - length lin)%nat else lin.

Definition lin_min_offset (lin : list N) (s : N) : N := nth (N.to_nat (window s)) lin 0.

(* ---- binned index: IndexMap<usize, VirtualPosition> ---- *)
Definition loffmap := list (N * N).

Fixpoint loff_update (lm : loffmap) (id a : N) : loffmap :=
  match lm with
  | [] => [(id, a)]
  | (k, v) :: rest => if k =? id then (k, if a <? v then a else v) :: rest else (k, v) :: loff_update rest id a
  end.

Fixpoint loff_get (lm : loffmap) (id : N) : option N :=
  match lm with
  | [] => None
  | (k, v) :: rest => if k =? id then Some v else loff_get rest id
  end.

(* BinnedIndex::min_offset (after the `fix:` commit in /repo): the minimum loffset over all bins
   that do not end before the query start.  bin_end mirrors the Rust helper, including its
   refusal (None = "keep the bin") when the id is outside the scheme or the end does not fit a
   usize (checked_shl / checked_mul on 64-bit). *)
Definition usize_lim : N := 2 ^ 64.

Fixpoint bin_end_loop (k : nat) (level : nat) (level_start level_len : N) (ms : N) (d : nat) (id : N) : option N :=
  match k with
  | O => None
  | S k' =>
      if id - level_start <? level_len then
        let shift := ms + 3 * N.of_nat (d - level) in
        let n := id - level_start + 1 in
        if (shift <? 64) && (N.shiftl n shift <? usize_lim) then Some (N.shiftl n shift - 1) else None
      else if level_len * 8 <? usize_lim then
        bin_end_loop k' (S level) (level_start + level_len) (level_len * 8) ms d id
      else None
  end.

Definition bin_end (ms : N) (d : nat) (id : N) : option N := bin_end_loop (S d) O 0 1 ms d id.

Definition bin_qualifies (ms : N) (d : nat) (start0 : N) (id : N) : bool :=
  match bin_end ms d id with None => true | Some e => start0 <=? e end.

Fixpoint list_min (l : list N) : option N :=
  match l with
  | [] => None
  | x :: rest => match list_min rest with None => Some x | Some m => Some (if x <? m then x else m) end
  end.

Definition binned_min_offset (ms : N) (d : nat) (lm : loffmap) (s : N) : N :=
  match list_min (map snd (filter (fun kv => bin_qualifies ms d (s - 1) (fst kv)) lm)) with
  | None => 0
  | Some m => m
  end.

(* the pre-fix behaviour (nearest present ancestor-or-self of the leaf bin of `s`), kept for the
   refutation witness in props/C04.v *)
Fixpoint binned_walk (fuel : nat) (lm : loffmap) (id : N) : N :=
  match loff_get lm id with
  | Some v => v
  | None =>
      match fuel with
      | O => 0
      | S f => match parent_id id with Some p => binned_walk f lm p | None => 0 end
      end
  end.

Definition binned_min_offset_old (ms : N) (d : nat) (lm : loffmap) (s : N) : N :=
  binned_walk (S d) lm (reg2bin ms d s s).

(* ---- one reference sequence of an index ---- *)
Record refidx := mkref { bins : binmap; lin : list N; loffs : loffmap }.
Definition empty_ref : refidx := mkref [] [] [].

(* ReferenceSequence::update (both index kinds are tracked; a BAI/tabix index uses [lin],
   a CSI index uses [loffs]) *)
Definition update (ms : N) (d : nat) (ix : refidx) (r : rec) : refidx :=
  let id := reg2bin ms d (r_s r) (r_e r) in
  mkref (bins_add (bins ix) id (r_a r, r_b r))
        (lin_update (lin ix) (r_e r) (r_a r))
        (loff_update (loffs ix) id (r_a r)).

Definition on_ref (k : N) (r : rec) : bool := r_rid r =? k.

Definition build_ref (ms : N) (d : nat) (k : N) (file : list rec) : refidx :=
  fold_left (update ms d) (filter (on_ref k) file) empty_ref.

(* ---- query ---- *)
Definition query_chunks (ms : N) (d : nat) (ix : refidx) (qs qe : N) : list chunk :=
  let ids := reg2bins ms d qs qe in
  flat_map (fun kv => if existsb (N.eqb (fst kv)) ids then snd kv else []) (bins ix).

Inductive kind := Linear | Binned.

Definition min_offset (k : kind) (ms : N) (d : nat) (ix : refidx) (qs : N) : N :=
  match k with
  | Linear => lin_min_offset (lin ix) qs
  | Binned => binned_min_offset ms d (loffs ix) qs
  end.

(* Index::query after resolve_interval: None = InvalidInput (bound beyond max_position) *)
Definition query (k : kind) (ms : N) (d : nat) (ix : refidx) (qs qe : N) : option (list chunk) :=
  if (max_position ms d <? qs) || (max_position ms d <? qe) then None
  else Some (optimize_chunks (query_chunks ms d ix qs qe) (min_offset k ms d ix qs)).

(* ---- reading ---- *)
(* csi::io::Query: for each chunk, seek to its start and read records while the position is
   before its end; positions of record starts are the r_a *)
Definition in_chunk (c : chunk) (r : rec) : bool := (cstart c <=? r_a r) && (r_a r <? cend c).
Definition chunk_read (cs : list chunk) (file : list rec) : list rec :=
  flat_map (fun c => filter (in_chunk c) file) cs.

(* the readers' filter: same reference and intervals intersect *)
Definition intersects (k qs qe : N) (r : rec) : bool :=
  on_ref k r && (r_s r <=? qe) && (qs <=? r_e r).

Definition query_records (kd : kind) (ms : N) (d : nat) (file : list rec) (k qs qe : N) : option (list rec) :=
  match query kd ms d (build_ref ms d k file) qs qe with
  | None => None
  | Some cs => Some (filter (intersects k qs qe) (chunk_read cs file))
  end.

Definition scan_records (file : list rec) (k qs qe : N) : list rec := filter (intersects k qs qe) file.

(* well-formed file: offsets strictly increase in file order; spans are valid and inside the geometry *)
Fixpoint offsets_ordered (prev : N) (file : list rec) : Prop :=
  match file with
  | [] => True
  | r :: rest => prev <= r_a r /\ r_a r < r_b r /\ offsets_ordered (r_b r) rest
  end.

Definition spans_ok (ms : N) (d : nat) (file : list rec) : Prop :=
  forall r, In r file -> 1 <= r_s r /\ r_s r <= r_e r /\ r_e r <= max_position ms d.
