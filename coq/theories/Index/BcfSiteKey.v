(* C04, byte level for BCF, the indexing / filtering KEY of a record decoded from its site bytes
   (kind `bcfk`): what bcf/fs/index.rs and bcf/io/reader/query.rs read off the site buffer the
   record reader (NV.Index.BcfByteQuery.bcf_read_record) has filled:

     Record::reference_sequence_id   i32 at 0..4, usize::try_from (negative = InvalidData)
     Record::variant_start           C10's NV.Bcf.Lazy.lz_pos; the indexer turns None into
                                     InvalidData "missing position"
     Record::rlen                    i32 at 8..12, usize::try_from (negative = InvalidData)
     Record::end                     start (None -> Position::MIN) + (rlen - 1); rlen 0 = InvalidData
                                     (usize arithmetic on 64 bits: start <= 2^31, rlen < 2^31, the
                                     checked_add cannot fail)

   RPanic = a slice out of the buffer (cannot happen behind Fields::index, c04_bcf_site_key_total).
   The theorems tie these to C10's eager record head decoder (NV.Bcf.Record.dec_head). *)
From Coq Require Import ZArith NArith List Bool Lia ZifyBool ZifyNat ZifyN.
From NV Require Import Bcf.Ints Bcf.IntsProofs Bcf.Typed Bcf.StringMap Bcf.Record Bcf.Lazy Bcf.LazySiteProofs.
From NV Require Index.BcfByteQuery.
Import ListNotations.
Open Scope Z_scope.

Definition bcf_site_rid (sb : list N) : rres Z :=
  rbind (lz_slice 0 4 sb) (fun c => let n := dec_int W32 c in if n <? 0 then RErr else ROk n).

(* the indexer: variant_start().transpose()?.ok_or("missing position")? *)
Definition bcf_site_start (sb : list N) : rres Z :=
  rbind (lz_pos sb) (fun o => match o with Some p => ROk p | None => RErr end).

Definition bcf_site_rlen (sb : list N) : rres Z :=
  rbind (lz_slice 8 12 sb) (fun l => let n := dec_int W32 l in if n <? 0 then RErr else ROk n).

Definition bcf_site_end (sb : list N) : rres Z :=
  rbind (lz_pos sb) (fun o =>
  let start := match o with Some p => p | None => 1 end in
  rbind (bcf_site_rlen sb) (fun n => if n =? 0 then RErr else ROk (start + (n - 1)))).

(* what the correspondence check prints: the three answers *)
Definition bcf_site_key (sb : list N) : option (rres Z * rres (option Z) * rres Z) :=
  if Index.BcfByteQuery.bcf_val sb then Some (bcf_site_rid sb, lz_pos sb, bcf_site_end sb) else None.

(* ------------------------------------------------------------------ proofs *)
Lemma slice_ok : forall s e sb, (s <= e)%nat -> (e <= length sb)%nat ->
  lz_slice s e sb = ROk (firstn (e - s) (skipn s sb)).
Proof.
  intros s e sb H1 H2. unfold lz_slice.
  replace (s <=? e)%nat with true by (symmetry; apply Nat.leb_le; exact H1).
  replace (e <=? length sb)%nat with true by (symmetry; apply Nat.leb_le; exact H2).
  reflexivity.
Qed.

(* Record::reference_sequence_name = contigs[reference_sequence_id] *)
Lemma lz_chrom_via_rid : forall contigs sb,
  lz_chrom contigs sb =
  rbind (bcf_site_rid sb) (fun c =>
    match get_index contigs (znat (length (entries contigs)) c) with Some n => ROk n | None => RErr end).
Proof.
  intros contigs sb. unfold lz_chrom, bcf_site_rid.
  destruct (lz_slice 0 4 sb) as [c| |]; cbn [rbind]; try reflexivity.
  destruct (dec_int W32 c <? 0); reflexivity.
Qed.

Lemma val_len : forall sb, Index.BcfByteQuery.bcf_val sb = true -> (24 <= length sb)%nat.
Proof.
  intros sb H. unfold Index.BcfByteQuery.bcf_val, lz_index, index_bounds in H.
  destruct (length sb <? 24)%nat eqn:E; [discriminate|].
  apply Nat.ltb_ge in E. exact E.
Qed.

(* behind Fields::index none of the key accessors can slice out of the buffer *)
Theorem site_key_total : forall sb, Index.BcfByteQuery.bcf_val sb = true ->
  bcf_site_rid sb <> RPanic /\ lz_pos sb <> RPanic /\ bcf_site_start sb <> RPanic /\
  bcf_site_rlen sb <> RPanic /\ bcf_site_end sb <> RPanic.
Proof.
  intros sb H. apply val_len in H.
  assert (Hr : bcf_site_rid sb <> RPanic).
  { unfold bcf_site_rid. rewrite slice_ok by lia. cbn [rbind].
    destruct (dec_int W32 _ <? 0); discriminate. }
  assert (Hp : lz_pos sb <> RPanic).
  { unfold lz_pos. rewrite slice_ok by lia. cbn [rbind].
    destruct (dec_int W32 _ =? -1); [discriminate|]. destruct (dec_int W32 _ <? 0); discriminate. }
  assert (Hl : bcf_site_rlen sb <> RPanic).
  { unfold bcf_site_rlen. rewrite slice_ok by lia. cbn [rbind].
    destruct (dec_int W32 _ <? 0); discriminate. }
  repeat split; try assumption.
  - unfold bcf_site_start. destruct (lz_pos sb) as [[p|]| |]; cbn [rbind]; try discriminate. congruence.
  - unfold bcf_site_end. destruct (lz_pos sb) as [o| |]; cbn [rbind]; try discriminate; [|congruence].
    destruct (bcf_site_rlen sb) as [n| |]; cbn [rbind]; try discriminate; [|congruence].
    destruct (n =? 0); discriminate.
Qed.

(* whenever C10's eager read_site accepts the site block, the key read off the bytes is the head's *)
Theorem site_key_agrees_with_head : forall strings contigs sb h info_bytes,
  byte_list sb ->
  dec_head strings contigs sb = Some (h, info_bytes) ->
  exists c l,
    bcf_site_rid sb = ROk c /\ 0 <= c /\
    get_index contigs (znat (length (entries contigs)) c) = Some (h_chrom h) /\
    lz_pos sb = ROk (h_pos h) /\
    bcf_site_start sb = match h_pos h with Some p => ROk p | None => RErr end /\
    bcf_site_rlen sb = ROk l /\ 0 <= l /\
    bcf_site_end sb = (if l =? 0 then RErr
                       else ROk (match h_pos h with Some p => p | None => 1 end + (l - 1))) /\
    Index.BcfByteQuery.bcf_val sb = true.
Proof.
  intros strings contigs sb h ib Hb H.
  destruct (site_agree strings contigs sb h ib Hb H) as [bd V].
  pose proof (sv_chrom _ _ _ _ _ _ V) as Hc. pose proof (sv_pos _ _ _ _ _ _ V) as Hp.
  pose proof (sv_index _ _ _ _ _ _ V) as Hi.
  rewrite lz_chrom_via_rid in Hc.
  destruct (bcf_site_rid sb) as [c| |] eqn:Er; cbn [rbind] in Hc; try discriminate.
  assert (0 <= c) as Hc0.
  { unfold bcf_site_rid in Er. destruct (lz_slice 0 4 sb); cbn [rbind] in Er; try discriminate.
    destruct (dec_int W32 a <? 0) eqn:E; [discriminate|]. inversion Er; subst. lia. }
  assert (exists l, bcf_site_rlen sb = ROk l /\ 0 <= l) as [l [Hl Hl0]].
  { unfold dec_head in H.
    destruct (chunks 4 4 sb) as [[l0 r0]|] eqn:Ech; [|discriminate].
    apply chunks_concat in Ech. destruct Ech as [Hsb [Hl0 Hall]].
    destruct l0 as [|c' [|p [|l [|q [|]]]]]; try discriminate Hl0.
    destruct ((dec_int W32 c' <? 0) || (dec_int W32 p <? -1) || (dec_int W32 l <? 0)) eqn:Hneg; [discriminate|].
    inversion Hall as [|? ? Lc Hall1]. inversion Hall1 as [|? ? Lp Hall2].
    inversion Hall2 as [|? ? Ll Hall3]. inversion Hall3 as [|? ? Lq _]. subst.
    len_explicit c' 4%nat. len_explicit p 4%nat. len_explicit l 4%nat. len_explicit q 4%nat.
    unfold bcf_site_rlen.
    cbn [concat app lz_slice length Nat.leb andb Nat.sub skipn firstn rbind].
    apply orb_false_iff in Hneg. destruct Hneg as [_ Hneg]. rewrite Hneg.
    eexists. split; [reflexivity|]. lia. }
  exists c, l.
  destruct (get_index contigs (znat (length (entries contigs)) c)) as [nm|] eqn:Eg; [|discriminate].
  inversion Hc; subst nm.
  repeat split; try assumption; try reflexivity.
  - unfold bcf_site_start. rewrite Hp. reflexivity.
  - unfold bcf_site_end. rewrite Hp, Hl. reflexivity.
  - unfold Index.BcfByteQuery.bcf_val. rewrite Hi. reflexivity.
Qed.
