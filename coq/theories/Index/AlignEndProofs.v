From Coq Require Import List NArith Bool Lia.
From Coq Require Import ZifyBool ZifyNat ZifyN.
From NV Require Import Index.AlignEnd.
Import ListNotations.
Open Scope N_scope.

Lemma span_loop_spec c : forall acc, acc + ref_len c < usize_lim -> span_loop c acc = Some (acc + ref_len c).
Proof.
  induction c as [|[k l] c IH]; intros acc H; cbn [span_loop ref_len fold_right fst snd] in *.
  - f_equal. lia.
  - fold (ref_len c) in *. destruct (consumes_ref k).
    + replace (acc + l <? usize_lim) with true by lia. rewrite IH by lia. f_equal. lia.
    + rewrite IH by lia. f_equal.
Qed.

Lemma span_loop_overflow c : forall acc, acc < usize_lim -> usize_lim <= acc + ref_len c -> span_loop c acc = None.
Proof.
  induction c as [|[k l] c IH]; intros acc Ha H; cbn [span_loop ref_len fold_right fst snd] in *.
  - lia.
  - fold (ref_len c) in *. destruct (consumes_ref k).
    + destruct (acc + l <? usize_lim) eqn:E; [|reflexivity]. apply IH; lia.
    + apply IH; lia.
Qed.

(* alignment_end = POS + (sum of M D N = X lengths) - 1, or POS when that sum is 0, whenever the
   result fits a usize; an error exactly when it does not *)
Theorem alignment_end_spec s c :
  1 <= s -> s < usize_lim ->
  alignment_end (Some s) c = if spec_end s c <? usize_lim then EPos (spec_end s c) else EErr.
Proof.
  intros H1 H2. unfold alignment_end, spec_end.
  destruct (ref_len c <? usize_lim) eqn:El.
  - rewrite (span_loop_spec c 0) by lia. cbn [N.add].
    destruct (ref_len c =? 0) eqn:E0.
    + replace (s <? usize_lim) with true by lia. reflexivity.
    + replace (s + ref_len c - 1) with (s + (ref_len c - 1)) by lia. reflexivity.
  - rewrite (span_loop_overflow c 0) by (unfold usize_lim in *; lia).
    replace (ref_len c =? 0) with false by (unfold usize_lim in *; lia).
    replace (s + ref_len c - 1 <? usize_lim) with false by lia. reflexivity.
Qed.

Theorem alignment_end_unmapped c : alignment_end None c = ENone.
Proof. reflexivity. Qed.
