(* C04, seventh deepening: the tabix (.tbi) index file at format level.  The index vcf::fs::index
   builds (names by first appearance, linear (14, 5) geometry) is written with the tabix writer
   model and read back with the reader model (NV.Index.CsiLayout w_tbi / read_tbi, owned by C17
   and tied to noodles-tabix there; the BGZF container of the .tbi is opaque): the reference
   sequences read back unchanged, so Reader::query with the index that was read back gives the
   in-memory answers, and the VCF query = scan theorems hold through the .tbi file. *)
From Coq Require Import List Arith NArith Bool Lia.
From NV Require Import Base.LE Index.Bins Index.Chunks Index.Indexer Index.QueryProofs Index.QueryFast
  Index.Layout Index.LayoutProofs Index.CsiLayout Index.CsiLayoutProofs Index.ViaFileProofs
  Index.AlignEnd Index.Formats Index.FormatsFast Index.FormatsProofs Vcf.Values Vcf.Span
  Index.FormatsVcf Index.FormatsVcfProofs Index.FormatsViaFileProofs.
Import ListNotations.
Open Scope N_scope.

(* the .tbi vcf::fs::index + tabix::fs::write produce for a file: header hdr (format, columns,
   meta, skip, names), the BAI-style reference sequences of the built index with any metadata
   pseudo-bins, any unplaced count *)
Definition built_tbi (file : list rec) (hdr : header) (meta : nat -> option metadata) (n : nat)
    (unplaced : option N) : tbi_index :=
  mktbi (Some hdr) (bi_refs (built_bai 14 5 file meta n unplaced)) unplaced.

Theorem tbi_file_same_answers file hdr meta n unplaced :
  let i := built_tbi file hdr meta n unplaced in
  tbi_ok i ->
  exists i', w_tbi i = WOk (w_tbi_bytes i) /\ read_tbi (w_tbi_bytes i) = Some i' /\
    same_answers Linear 14 5 (map bref_refidx (ti_refs i')) (built_refs 14 5 n file).
Proof.
  intros i Hok. destruct (tabix_roundtrip i Hok) as [Hw Hr].
  exists (reread_tbi i). split; [exact Hw|]. split; [exact Hr|].
  unfold reread_tbi, i, built_tbi, built_bai, built_refs. cbn [ti_refs bi_refs]. split.
  - rewrite !map_length. reflexivity.
  - intros k ix' ix H1 H2 qs qe. rewrite map_map in H1.
    assert (Hk : (k < n)%nat).
    { assert (nth_error (map (fun k0 => build_ref 14 5 (N.of_nat k0) file) (seq 0 n)) k <> None) by congruence.
      apply nth_error_Some in H. rewrite map_length, seq_length in H. exact H. }
    rewrite nth_error_map_seq' in H1, H2 by exact Hk. injection H1 as H1. injection H2 as H2. subst ix' ix.
    unfold bref_refidx. cbn [br_bins br_intervals].
    destruct (build_ref 14 5 (N.of_nat k) file) as [b l lo]. reflexivity.
Qed.

(* any format indexed with a linear (14, 5) index through a .tbi file *)
Theorem fmt_query_via_tbi_file (A : Type) ctx oa ob hit nref (l : list A) ixs k iv :
  fmt_index A ctx oa ob 14 5 nref l = Some ixs ->
  forall hdr meta unplaced,
    let i := built_tbi (placed A ctx oa ob l) hdr meta (length ixs) unplaced in
    tbi_ok i ->
    exists i', w_tbi i = WOk (w_tbi_bytes i) /\ read_tbi (w_tbi_bytes i) = Some i' /\
      fmt_query A oa hit Linear 14 5 (map bref_refidx (ti_refs i')) l k iv
      = fmt_query A oa hit Linear 14 5 ixs l k iv.
Proof.
  intros Hix hdr meta unplaced i Hok.
  destruct (tbi_file_same_answers _ hdr meta (length ixs) unplaced Hok) as (i' & Hw & Hr & Hs).
  exists i'. split; [exact Hw|]. split; [exact Hr|].
  rewrite (fmt_query_same A oa hit Linear 14 5 _ _ l k iv Hs).
  rewrite <- (fmt_index_built A ctx oa ob 14 5 nref l ixs Hix). reflexivity.
Qed.

(* bgzipped VCF + tabix: vcf::io::Reader::query (names resolved against the index, ids by first
   appearance) with the index read back from its .tbi file = the query with the in-memory index *)
Theorem tabix_query_via_tbi_file v45 l ixs c iv :
  tabix_index v45 l = Some ixs ->
  forall hdr meta unplaced,
    let i := built_tbi (placed vcf_rec (vcf_ctx false v45) v_a v_b (snd (tabix_renumber l))) hdr meta
               (length ixs) unplaced in
    tbi_ok i ->
    exists i', w_tbi i = WOk (w_tbi_bytes i) /\ read_tbi (w_tbi_bytes i) = Some i' /\
      tabix_query v45 (map bref_refidx (ti_refs i')) l c iv = tabix_query v45 ixs l c iv.
Proof.
  intros Hix hdr meta unplaced i Hok. unfold tabix_index in Hix. unfold tabix_query.
  unfold i in *. clear i.
  destruct (tabix_renumber l) as [names l'] eqn:Er. cbn [snd] in *.
  destruct (tbi_file_same_answers _ hdr meta (length ixs) unplaced Hok) as (i' & Hw & Hr & Hs).
  exists i'. split; [exact Hw|]. split; [exact Hr|].
  destruct (index_of c names) as [k|]; [|reflexivity].
  unfold vcf_query_fast. rewrite !fmt_query_fast_eq.
  unfold vcf_index in Hix.
  rewrite (fmt_query_same vcf_rec v_a (vcf_hit v45) Linear 14 5 _ _ l' k iv Hs).
  rewrite <- (fmt_index_built vcf_rec (vcf_ctx false v45) v_a v_b 14 5 (length names) l' ixs Hix). reflexivity.
Qed.

(* ... hence query = scan (specification's span) through the .tbi file, for every file on which the
   two spans agree (all files before VCF 4.5; 4.5 files without a non-missing INFO SVLEN) *)
Theorem vcf_query_via_tbi_file_equals_scan v45 nref l ixs k iv :
  ordered_f vcf_rec v_a v_b 0 l ->
  spans_ok 14 5 (placed vcf_rec (vcf_ctx false v45) v_a v_b l) ->
  vcf_index false v45 14 5 nref l = Some ixs -> (N.to_nat k < length ixs)%nat ->
  region_ok 14 5 iv -> Forall (span_agrees v45) l ->
  forall hdr meta unplaced,
    let i := built_tbi (placed vcf_rec (vcf_ctx false v45) v_a v_b l) hdr meta (length ixs) unplaced in
    tbi_ok i ->
    exists i', w_tbi i = WOk (w_tbi_bytes i) /\ read_tbi (w_tbi_bytes i) = Some i' /\
      vcf_query v45 Linear 14 5 (map bref_refidx (ti_refs i')) l k iv = QOk (vcf_scan v45 l k iv).
Proof.
  intros Ho Hsp Hix Hk Hq Hag hdr meta unplaced i Hok.
  destruct (fmt_query_via_tbi_file vcf_rec (vcf_ctx false v45) v_a v_b (vcf_hit v45) nref l ixs k iv
              Hix hdr meta unplaced Hok) as (i' & Hw & Hr & E).
  exists i'. split; [exact Hw|]. split; [exact Hr|]. unfold vcf_query. rewrite E.
  apply (vcf_query_equals_scan false v45 Linear 14 5 nref l ixs k iv Ho Hsp Hix Hk Hq); [|exact Hag].
  vm_compute. discriminate.
Qed.
