(* C17 -- index round trips through the ASYNC readers of C16 (NV.Async.IndexRead: the GZI and BAI
   readers as read programs run over an awaited source under ANY poll script) and through the
   same programs over C16's scripted sync source (ANY delivery script): a structurally valid
   index, written by C17's layout writer, is read back equal by every one of them.
   Composition of C17's layout round trips with C16's links ([async_gzi_reader_link],
   [async_bai_reader_link], [async_*_reader_equals_sync]); nothing is re-proved here. *)
From Coq Require Import List PArith NArith Arith Bool Lia.
From NV Require Import Base.LE Io.Source Io.ReadExact Io.Run.
From NV Require Import Async.ReadExact.
From NV Require Import Trunc.Stream Trunc.Cram CramIdx.AsyncQuery.
From NV Require Import Async.IndexRead Async.IndexReadProofs.
From NV Require Index.Layout Index.LayoutProofs.
Import ListNotations.
Local Open Scope nat_scope.

Theorem gzi_roundtrip_async : forall idx polls req,
  (N.of_nat (length idx) < 18446744073709551616)%N -> Forall LayoutProofs.chunk_ok idx ->
  fst (run_rd aread req a_fuel (p_gzi true) (mkASource (Layout.w_gzi idx) polls)) = RVal (GIndex idx).
Proof.
  intros idx polls req Hn Hok. apply async_gzi_reader_link.
  apply LayoutProofs.gzi_roundtrip; assumption.
Qed.

Theorem gzi_roundtrip_sync_any_delivery : forall idx req script,
  (N.of_nat (length idx) < 18446744073709551616)%N -> Forall LayoutProofs.chunk_ok idx ->
  fst (run_rd src_read req src_fuel (p_gzi false) (mkSource (Layout.w_gzi idx) script)) = RVal (GIndex idx).
Proof.
  intros idx req script Hn Hok.
  rewrite <- (async_gzi_reader_equals_sync [] req req script (Layout.w_gzi idx)).
  apply gzi_roundtrip_async; assumption.
Qed.

Theorem bai_roundtrip_async : forall i polls req,
  LayoutProofs.bai_ok i ->
  fst (run_rd aread req a_fuel (p_bai false) (mkASource (Layout.w_bai i) polls)) = RVal i.
Proof.
  intros i polls req Hok. apply async_bai_reader_link. apply LayoutProofs.bai_roundtrip. exact Hok.
Qed.

Theorem bai_roundtrip_sync_any_delivery : forall i req script,
  LayoutProofs.bai_ok i ->
  fst (run_rd src_read req src_fuel (p_bai true) (mkSource (Layout.w_bai i) script)) = RVal i.
Proof.
  intros i req script Hok.
  rewrite <- (async_bai_reader_equals_sync [] req req script (Layout.w_bai i)).
  apply bai_roundtrip_async. exact Hok.
Qed.
