(* C17 -- index round trips through C12's READ PROGRAMS (NV.Io.Prog / IndexProg / CsiProg run over
   a scripted source: any delivery of the bytes -- short reads, Interrupted --, raw or through a
   BufReader of any capacity) and through C16's async CSI reader program (NV.Async.CsiRead, any
   poll script): a structurally valid index written by C17's layout writer is read back equal
   (CSI: with the stored ancestor-chain loffsets, [reread_csi]) whatever the delivery.
   Composition of C17's layout round trips with C12's run_*_spec + p_*_is_read_* and C16's
   a_csi_is_read_csi; the one new fact is that a written CSI payload has a tight aux block
   ([csi_written_aux_ok]). *)
From Coq Require Import List NArith Arith Bool Lia ZifyBool ZifyNat ZifyN.
From NV Require Import Base.LE Io.Source Io.ReadExact Io.Run Trunc.Stream.
From NV Require Import Io.Prog Io.ProgProofs Io.IndexProg Io.IndexProgProofs Io.CsiProg Io.CsiProgProofs
  Io.ProgRun Io.ProgRunProofs.
From NV Require Import Async.ReadExact Async.CsiRead Async.CsiReadProofs.
From NV Require Index.Layout Index.LayoutProofs Index.CsiLayout Index.CsiLayoutProofs
  Index.TextIndex Index.TextIndexProofs.
Import ListNotations.
Local Open Scope N_scope.
Set Default Timeout 15.

Lemma opt_of_some : forall (A : Type) (x : rr A * list N) v, opt_of x = Some v -> fst x = RVal v.
Proof.
  intros A [[a|e] r] v H; cbn [opt_of] in H; [|discriminate H].
  injection H as H. subst a. reflexivity.
Qed.

(* ---- gzi, BAI, fai: the sync reader programs under any delivery ---- *)
Theorem gzi_roundtrip_any_delivery : forall idx sc cap,
  N.of_nat (length idx) < 18446744073709551616 -> Forall LayoutProofs.chunk_ok idx ->
  fst (run_gzi cap (mkSource (Layout.w_gzi idx) sc)) = COk idx.
Proof.
  intros idx sc cap Hn Hok. rewrite run_gzi_spec. cbn [fst].
  rewrite (opt_of_some _ _ idx); [reflexivity|].
  rewrite p_gzi_is_read_gzi. apply LayoutProofs.gzi_roundtrip; assumption.
Qed.

Theorem bai_roundtrip_any_delivery : forall i sc cap,
  LayoutProofs.bai_ok i -> fst (run_bai cap (mkSource (Layout.w_bai i) sc)) = COk i.
Proof.
  intros i sc cap Hok. rewrite run_bai_spec. cbn [fst].
  rewrite (opt_of_some _ _ i); [reflexivity|].
  rewrite p_bai_is_read_bai. apply LayoutProofs.bai_roundtrip. exact Hok.
Qed.

(* the fai reader needs a BufRead: cap >= 1 *)
Theorem fai_roundtrip_any_delivery : forall l sc cap, (1 <= cap)%nat ->
  Forall TextIndexProofs.fai_ok l ->
  fst (run_fai cap (mkSource (TextIndex.w_fai l) sc)) = COk l.
Proof.
  intros l sc cap Hcap Hok. rewrite run_fai_spec by exact Hcap. cbn [fst].
  rewrite (opt_of_some _ _ l); [reflexivity|].
  rewrite p_fai_is_read_fai. apply TextIndexProofs.fai_roundtrip. exact Hok.
Qed.

(* the CSI aux / tabix header parser program *)
Theorem header_roundtrip_any_delivery : forall h rest sc cap chunk,
  CsiLayoutProofs.header_ok h ->
  run_csi_header cap chunk (mkSource (CsiLayout.w_header h ++ rest) sc)
  = (COk (CsiLayout.norm_header h), length rest).
Proof.
  intros h rest sc cap chunk Hok. rewrite run_csi_header_spec.
  pose proof (g_header_is_p_header (CsiLayout.w_header h ++ rest)) as H.
  rewrite (CsiLayoutProofs.p_header_w h rest Hok) in H.
  destruct (run_pure g_header (CsiLayout.w_header h ++ rest)) as [[v|e] r].
  - injection H as Hv Hr. subst v r. reflexivity.
  - destruct H as [H _]. discriminate H.
Qed.

(* ---- CSI: the async reader program under any poll script ---- *)
Lemma skipn_12_csi : forall a b c (rest : list N),
  length a = 4%nat -> length b = 4%nat -> length c = 4%nat -> skipn 12 (a ++ b ++ c ++ rest) = rest.
Proof.
  intros a b c rest Ha Hb Hc.
  destruct a as [|a1 [|a2 [|a3 [|a4 [|a5 a]]]]]; cbn [length] in Ha; try discriminate Ha.
  destruct b as [|b1 [|b2 [|b3 [|b4 [|b5 b]]]]]; cbn [length] in Hb; try discriminate Hb.
  destruct c as [|c1 [|c2 [|c3 [|c4 [|c5 c]]]]]; cbn [length] in Hc; try discriminate Hc.
  reflexivity.
Qed.

(* a payload written by the CSI writer has a complete aux block that its header fills exactly *)
Lemma csi_written_aux_ok : forall i, CsiLayoutProofs.csi_ok i -> csi_aux_ok (CsiLayout.w_csi_bytes i).
Proof.
  intros i Hok. unfold csi_aux_ok, CsiLayout.w_csi_bytes.
  rewrite skipn_12_csi; [|reflexivity|apply le32_length|apply le32_length].
  destruct Hok as [_ [_ [_ [Hh _]]]].
  unfold aux_ok, CsiLayout.w_aux. intros l r Hp Hpos.
  destruct (CsiLayout.ci_header i) as [hd|].
  - destruct Hh as [Hhd Hlen].
    pose proof (CsiLayoutProofs.p_header_w hd [] Hhd) as Hw. rewrite app_nil_r in Hw.
    set (wh := CsiLayout.w_header hd) in *. clearbody wh.
    set (tl := le32 (N.of_nat (length (CsiLayout.ci_refs i))) ++ _) in Hp. clearbody tl.
    rewrite <- app_assoc in Hp. rewrite CsiLayoutProofs.p_i32_nonneg_app in Hp by exact Hlen.
    assert (Hl : l = N.of_nat (length wh)) by congruence.
    assert (Hr : r = wh ++ tl) by congruence. subst l r.
    rewrite Nat2N.id. split.
    + rewrite app_length. lia.
    + intros h rr Hph. rewrite firstn_app, Nat.sub_diag, firstn_all in Hph.
      cbn [firstn] in Hph. rewrite app_nil_r in Hph.
      rewrite Hw in Hph. injection Hph as _ Hrr. symmetry. exact Hrr.
  - rewrite CsiLayoutProofs.p_i32_nonneg_app in Hp by lia.
    injection Hp as Hl _. subst l. lia.
Qed.

Theorem csi_roundtrip_async : forall i codes chunk, CsiLayoutProofs.csi_ok i ->
  async_csi_case codes chunk (CsiLayout.w_csi_bytes i) = Some (CsiLayout.reread_csi i).
Proof.
  intros i codes chunk Hok.
  rewrite async_csi_reader_equals_sync by (apply csi_written_aux_ok; exact Hok).
  unfold sync_csi_case. apply (CsiLayoutProofs.csi_layout_roundtrip i Hok).
Qed.
