(* C17 -- optimize_chunks (noodles-csi binning_index.rs) split at the sort: [retained] is the filter
   `c.end() > min_offset`, [merge_sorted] the merge loop run on the list as `sort_unstable_by_key`
   left it -- ANY permutation of the retained chunks that is sorted by start (the unstable sort
   fixes nothing about chunks with equal starts).  Chunks.optimize_chunks is
   merge_sorted (sort_by_start (retained m cs)) with a stable insertion sort.  Definitions only. *)
From Coq Require Import List NArith.
From NV Require Import Index.Chunks.
Import ListNotations.
Open Scope N_scope.

Definition retained (m : N) (cs : list chunk) : list chunk := filter (fun c => m <? cend c) cs.

Definition merge_sorted (s : list chunk) : list chunk :=
  match s with [] => [] | c :: rest => merge_loop c rest end.

Definition proper (c : chunk) : Prop := cstart c < cend c.

(* not inverted: start <= end (an empty chunk start = end is allowed) *)
Definition noninv (c : chunk) : Prop := cstart c <= cend c.
