(* C04, fifth deepening: the whole region query over the BYTES of a BAM file.

     bam::fs::index (noodles-bam/src/fs/index.rs index_inner): ONE loop -- position before,
       read_record, position after, alignment_context(record)? (reference_sequence_id()?,
       alignment_start()?, alignment_end()?), Indexer::add_record(..)? -- so that the first record
       at which reading, decoding or the indexer fails decides the outcome;
     bam::io::Reader::query: Index::query(reference id, interval)? -> chunks ->
       Query { Reader::from(csi::io::Query::new(reader, chunks)) } and its next_record loop:
       read_record, intersects(record)?  (the filter runs between the reads: an error of the
       filter on record i comes before a read error on record i+1).

   The fields the indexer and the filter look at are decoded from the record BYTES by
   [dec : body -> bam_dec] (a parameter of the generic part; the instance [lazy_dec] is C05's model
   of the lazy accessors of bam::Record, NV.Bam.Lazy / NV.Bam.Decode, imported read-only).
   Everything else is NV.Index.ByteQuery (record framing + csi::io::Query over C02's BGZF reader),
   NV.Index.Formats (the indexing loop's bookkeeping, Index::query) and NV.Index.AlignEnd.
   Definitions only; proofs in ByteIndexProofs.v. *)
From Coq Require Import List Arith NArith Bool.
From NV Require Import Base.LE Bgzf.Vpos Bgzf.Gzi Bgzf.ReaderOps Index.Bins Index.Chunks Index.Indexer
  Index.QueryFast Index.AlignEnd Index.Formats Index.ByteQuery.
Import ListNotations.
Open Scope N_scope.

(* what the lazy accessors of bam::Record yield on one record; None = io::Error *)
Record bam_dec := mkdec {
  d_rid : option (option N);      (* reference_sequence_id().transpose() *)
  d_pos : option (option N);      (* alignment_start().transpose() *)
  d_cigar : option cigar;         (* cigar().iter() collected; None = some operation is invalid *)
  d_unm : bool                    (* flags().is_unmapped() *)
}.

(* bam/fs/index.rs alignment_context + the match of index_inner.  Order of evaluation: reference
   id, start, end; sam::alignment::Record::alignment_end returns None for a record without a start
   WITHOUT looking at the CIGAR, and otherwise walks the CIGAR (an invalid operation or an
   overflowing span is an error) whatever the reference id is *)
Definition dec_ctx (x : bam_dec) : ctxr :=
  match d_rid x with
  | None => CErr
  | Some rid =>
      match d_pos x with
      | None => CErr
      | Some None => CNone
      | Some (Some s) =>
          match d_cigar x with
          | None => CErr
          | Some cg =>
              match alignment_end (Some s) cg with
              | EErr => CErr
              | ENone => CNone
              | EPos e => match rid with Some k => CSome k s e | None => CNone end
              end
          end
      end
  end.

(* bam/io/reader/query.rs intersects: the start and the CIGAR are only looked at for a record on
   the queried reference and a region with at least one bound *)
Definition dec_hit (k : N) (iv : region) (x : bam_dec) : option bool :=
  match d_rid x with
  | None => None
  | Some None => Some false
  | Some (Some id) =>
      if negb (id =? k) then Some false
      else if unbounded iv then Some true
      else match d_pos x with
           | None => None
           | Some None => Some false
           | Some (Some s) =>
               match d_cigar x with
               | None => None
               | Some cg =>
                   match alignment_end (Some s) cg with
                   | EErr => None
                   | ENone => Some false
                   | EPos e => Some (iv_intersects iv s e)
                   end
               end
           end
  end.

(* a record whose accessors all succeed, as the format-level model sees it *)
Definition dec_clean (x : bam_dec) : Prop :=
  exists rid pos cg, d_rid x = Some rid /\ d_pos x = Some pos /\ d_cigar x = Some cg.

Definition dec_bam (x : bam_dec) (a b : N) : bam_rec :=
  mkbam (match d_rid x with Some r => r | None => None end)
        (match d_pos x with Some p => p | None => None end)
        (match d_cigar x with Some c => c | None => [] end)
        (d_unm x) a b.

(* Index::query's signature, so that the executed form (query_fast) and the one the theorems
   speak of (query) go through the same definitions *)
Definition qfun := kind -> N -> nat -> refidx -> N -> N -> option (list chunk).

(* ---- the next_record loop of the format readers over any byte reader ---- *)
Section Keep.
  Variable R : Type.
  Variable rd : R -> N -> R * res (list N).
  Variable bsz : N -> N.
  Variable keep : list N -> option bool.       (* intersects(record); None = Err *)

  Fixpoint read_records_keep (fuel : nat) (r : R) (acc : list (list N)) : R * res (list (list N)) :=
    match fuel with
    | O => (r, OutOfFuel)
    | S k =>
        match bam_read_record R rd bsz r with
        | (r1, RRec b) =>
            match keep b with
            | None => (r1, Err InvalidData)
            | Some true => read_records_keep k r1 (acc ++ [b])
            | Some false => read_records_keep k r1 acc
            end
        | (r1, REnd) => (r1, Ok acc)
        | (r1, RStop e) => (r1, res_cast e)
        end
    end.
End Keep.

Inductive ixres := IxOk (L : list brec) | IxRefused (e : ixfail) | IxRead (e : res unit).
Inductive bqres := BInvalid | BRead (r : res (list (list N))).

Section ByteBam.
  Variable dec : list N -> bam_dec.
  Variable bsz : N -> N.
  Variable Q : qfun.

  Definition bctx (x : brec) : ctxr := dec_ctx (dec (br_body x)).
  Definition bhit (k : N) (iv : region) (x : brec) : option bool := dec_hit k iv (dec (br_body x)).
  Definition body_hit (k : N) (iv : region) (b : list N) : option bool := dec_hit k iv (dec b).

  (* index_inner's loop: cur = the indexer's current reference id (0 before the first placed
     record); Indexer::add_record refuses a smaller one *)
  Fixpoint index_loop (fuel : nat) (st : state) (start cur : N) (acc : list brec) : state * ixres :=
    match fuel with
    | O => (st, IxRead OutOfFuel)
    | S k =>
        match bam_read_record state (read true) bsz st with
        | (st1, RRec b) =>
            match virtual_position st1 with
            | Ok e =>
                match dec_ctx (dec b) with
                | CErr => (st1, IxRefused FErr)
                | CPanic => (st1, IxRefused FPanic)
                | CNone => index_loop k st1 e cur (acc ++ [mkbrec b start e])
                | CSome id _ _ =>
                    if cur <=? id then index_loop k st1 e id (acc ++ [mkbrec b start e])
                    else (st1, IxRefused FErr)
                end
            | x => (st1, IxRead (res_cast x))
            end
        | (st1, REnd) => (st1, IxOk acc)
        | (st1, RStop e) => (st1, IxRead e)
        end
    end.

  Definition index_from (f : file) (st : state) : state * ixres :=
    match virtual_position st with
    | Ok a => index_loop (scan_fuel f) st a 0 []
    | x => (st, IxRead (res_cast x))
    end.

  (* Indexer::build(nref) over what the loop fed to add_record *)
  Definition built (ms : N) (d : nat) (nref : nat) (L : list brec) : list refidx :=
    map (fun k => build_ref ms d (N.of_nat k) (placed brec bctx br_a br_b L))
        (seq 0 (ref_count nref (placed brec bctx br_a br_b L))).

  (* Reader::query(header, index, region) with the name resolved to id k, all records collected *)
  Definition byte_bam_query (f : file) (st : state) (kd : kind) (ms : N) (d : nat) (nref : nat)
      (ixs : list refidx) (q : N * region) : state * bqres :=
    let '(k, iv) := q in
    (* resolve_region: the region's name must be one of the header's nref reference sequences
       (the index may hold more when a record names a reference beyond the header) *)
    if negb (N.to_nat k <? nref)%nat then (st, BInvalid) else
    match nth_error ixs (N.to_nat k) with
    | None => (st, BInvalid)
    | Some ix =>
        match Q kd ms d ix (iv_start iv) (iv_end_query ms d iv) with
        | None => (st, BInvalid)
        | Some cs =>
            let '(q', r) := read_records_keep qstate (q_read f) bsz (body_hit k iv)
                              (S (length cs * scan_fuel f)) (q_new st cs) [] in
            (q_rd q', BRead r)
        end
    end.

  (* several queries on the same reader object *)
  Fixpoint byte_bam_queries (f : file) (st : state) (kd : kind) (ms : N) (d : nat) (nref : nat)
      (ixs : list refidx) (qs : list (N * region)) : list bqres :=
    match qs with
    | [] => []
    | q :: t => let '(st1, r) := byte_bam_query f st kd ms d nref ixs q in
                r :: byte_bam_queries f st1 kd ms d nref ixs t
    end.

  (* one reader: header, bam::fs::index's loop, then the region queries on the reader as the loop
     left it, with the index it built *)
  Definition byte_bam_session (f : file) (hl : N) (kd : kind) (ms : N) (d : nat) (nref : nat)
      (qs : list (N * region)) : ixres * list bqres :=
    match after_header f hl with
    | (st, Ok _) =>
        match index_from f st with
        | (st1, IxOk L) => (IxOk L, byte_bam_queries f st1 kd ms d nref (built ms d nref L) qs)
        | (_, e) => (e, [])
        end
    | (_, e) => (IxRead (res_cast e), [])
    end.
End ByteBam.

(* what a full scan keeps, on the record bytes: same reference and the span POS .. POS + (sum of
   the M D N = X lengths) - 1 meets the region *)
Definition body_scan_hit (dec : list N -> bam_dec) (k : N) (iv : region) (b : list N) : bool :=
  bam_scan_hit k iv (dec_bam (dec b) 0 0).
