(* Proofs about GTF lines (Text/GtfLine.v). *)
From Coq Require Import List NArith Bool Lia.
From NV Require Import Text.TextBase Text.TextBaseProofs Text.Gtf Text.GtfProofs
  Text.GffLine Text.GffLineProofs Text.GtfLine.
Import ListNotations.
Open Scope N_scope.

Lemma gtf_read_is_parse_line : forall prs text, gtf_read prs text = gtf_parse_line prs (first_line text).
Proof. reflexivity. Qed.

(* a line the reader returns whole: no LF inside, no CR at the end (blank or not) *)
Definition whole_line (l : list N) : Prop := ~ In 10 l /\ strip_cr l = l.

Lemma gtf_read_lines_cons : forall line rest f, whole_line line ->
  gtf_read_lines (S f) (line ++ 10 :: rest) = line :: gtf_read_lines f rest.
Proof.
  intros line rest f (H10 & Hcr). cbn [gtf_read_lines].
  destruct (line ++ 10 :: rest) as [|b t] eqn:E; [destruct line; discriminate|]. rewrite <- E.
  rewrite gff_raw_line_app by exact H10. now rewrite Hcr.
Qed.

Theorem gtf_read_lines_fuel : forall s f1 f2, (length s < f1)%nat -> (length s < f2)%nat ->
  gtf_read_lines f1 s = gtf_read_lines f2 s.
Proof.
  intros s f1. revert s. induction f1 as [|f1 IH]; intros s f2 H1 H2; [lia|].
  destruct f2 as [|f2]; [lia|]. cbn [gtf_read_lines].
  destruct s as [|b t]; [reflexivity|].
  unfold gff_raw_line. destruct (cut_line (b :: t)) as [[l lf] r] eqn:E.
  pose proof (cut_line_len _ _ _ _ E) as Hl.
  assert (Hr : (length r < length (b :: t))%nat).
  { destruct lf; [lia|]. cbn [cut_line] in E. destruct (b =? 10); [discriminate|].
    destruct (cut_line t) as [[l' lf'] r'] eqn:E'. injection E as E1 E2 E3. subst. cbn [length] in *. lia. }
  rewrite (IH r f2) by lia. reflexivity.
Qed.

Lemma gtf_read_lines_prefix : forall ls tail f, Forall whole_line ls ->
  (length (lines_text ls ++ tail) < f)%nat ->
  gtf_read_lines f (lines_text ls ++ tail) = ls ++ gtf_read_lines f tail.
Proof.
  induction ls as [|l t IH]; intros tail f Hg Hf; [reflexivity|].
  inversion Hg as [|l' t' Hl Ht]; subst.
  unfold lines_text in *. cbn [map concat] in *. rewrite <- !app_assoc in *. cbn [app] in *.
  destruct f as [|f]; [lia|].
  rewrite gtf_read_lines_cons by assumption. cbn [app]. f_equal.
  rewrite app_length in Hf. cbn [length] in Hf.
  rewrite IH by (assumption || lia). f_equal.
  apply gtf_read_lines_fuel; rewrite app_length in Hf; lia.
Qed.

(* ---- comments: EVERY comment text without LF and without a final CR, '#...' included ---- *)
Theorem gtf_comment_roundtrip : forall prs s,
  ~ In 10 s -> strip_cr s = s ->
  whole_line (gtf_write_comment s)
  /\ gtf_classify prs (gtf_write_comment s) = TComment s
  /\ gtf_line_buf prs (gtf_write_comment s) = TBComment s.
Proof.
  intros prs s H10 Hcr. unfold gtf_write_comment. repeat split.
  - intros [E|Hin]; [discriminate|now apply H10].
  - destruct s as [|c t]; [reflexivity|]. change (35 :: c :: t) with ([35] ++ c :: t).
    rewrite strip_cr_app by discriminate. now rewrite Hcr.
Qed.

(* ---- record lines ---- *)
Theorem gtf_record_line_classified : forall fmt prs r line,
  gtf_wf fmt prs r -> gtf_write fmt r = Ok line ->
  whole_line line
  /\ gtf_classify prs line = TRecord (GRec (gtf_expected r))
  /\ gtf_line_buf prs line = TBRecord (gtf_owned (gtf_expected r)).
Proof.
  intros fmt prs r line Hwf Hw.
  pose proof (gtf_record_roundtrip fmt prs r line Hwf Hw) as Hrb.
  destruct (gtf_record_roundtrip_owned fmt prs r line Hwf Hw) as (l0 & Hl0 & Hown).
  rewrite Hrb in Hl0. injection Hl0 as Hl0. subst l0.
  pose proof (gtf_columns_clean fmt prs r Hwf) as Hcols.
  destruct Hwf as ((Hs9 & Hs10 & Hs35) & Hso & Hty & Hst & Hen & Hsc & Hat & Hnd).
  pose proof Hw as Hw'. apply gtf_write_ok in Hw'. destruct Hw' as [Hstrand Hl].
  assert (H10 : ~ In 10 line).
  { subst line. intro Hin. apply in_app_or in Hin. destruct Hin as [Hin|Hin].
    - apply In_tabbed in Hin. destruct Hin as [E|(f & Hf & Hc)]; [discriminate|].
      rewrite Forall_forall in Hcols. destruct (Hcols f Hf) as [_ Hn]. now apply Hn.
    - revert Hin. apply attrs_text_avoid; [exact Hat|cbn; tauto]. }
  assert (Hcr : strip_cr line = line).
  { subst line. destruct (gtf_attrs_text (f_attrs r)) eqn:E.
    - rewrite app_nil_r. apply strip_cr_tabbed.
    - rewrite <- E. rewrite strip_cr_app by (rewrite E; discriminate).
      rewrite (strip_cr_no13 (gtf_attrs_text (f_attrs r))); [reflexivity|].
      apply attrs_text_avoid; [exact Hat|cbn; tauto]. }
  assert (Hparse : gtf_parse_line prs line = GRec (gtf_expected r)).
  { rewrite gtf_read_is_parse_line in Hrb. unfold first_line in Hrb.
    rewrite take_until_app in Hrb by exact H10. now rewrite Hcr in Hrb. }
  assert (Hh : gtf_starts_with_hash line = false).
  { unfold gtf_parse_line in Hparse. destruct (gtf_starts_with_hash line); [discriminate|reflexivity]. }
  repeat split; try assumption.
  - unfold gtf_classify. now rewrite Hh, Hparse.
  - unfold gtf_line_buf. rewrite Hh, Hparse. rewrite Hown. reflexivity.
Qed.

(* ---- whole files: records and comments in any order, then any text ---- *)
Inductive gtitem := TIRecord (r : feature) | TIComment (s : list N).
Definition gtitem_line (fmt : N -> list N) (it : gtitem) : res (list N) :=
  match it with TIRecord r => gtf_write fmt r | TIComment s => Ok (gtf_write_comment s) end.
Definition gtitem_ok (fmt : N -> list N) (prs : list N -> option N) (it : gtitem) : Prop :=
  match it with TIRecord r => gtf_wf fmt prs r | TIComment s => ~ In 10 s /\ strip_cr s = s end.
Definition gtitem_buf (it : gtitem) : gtline_buf :=
  match it with TIRecord r => TBRecord (gtf_owned (gtf_expected r)) | TIComment s => TBComment s end.

Theorem gtf_file_roundtrip : forall fmt prs items ls tail,
  Forall2 (fun it l => gtitem_ok fmt prs it /\ gtitem_line fmt it = Ok l) items ls ->
  gtf_file_line_bufs prs (lines_text ls ++ tail) = map gtitem_buf items ++ gtf_file_line_bufs prs tail.
Proof.
  intros fmt prs items ls tail H.
  assert (Hg : Forall whole_line ls /\ map (gtf_line_buf prs) ls = map gtitem_buf items).
  { induction H as [|it l its ls' [Hok Hl] Hrest [IH1 IH2]]; [split; [constructor|reflexivity]|].
    assert (Hone : whole_line l /\ gtf_line_buf prs l = gtitem_buf it).
    { destruct it as [r|s]; cbn [gtitem_ok gtitem_line gtitem_buf] in *.
      - destruct (gtf_record_line_classified fmt prs r l Hok Hl) as (Hwl & _ & Hb). now split.
      - injection Hl as Hl. subst l. destruct Hok as [H10 Hcr].
        destruct (gtf_comment_roundtrip prs s H10 Hcr) as (Hwl & _ & Hb). now split. }
    destruct Hone as [Hwl Hb]. split; [constructor; assumption|]. cbn [map]. now rewrite Hb, IH2. }
  destruct Hg as [Hg Hm]. unfold gtf_file_line_bufs.
  rewrite gtf_read_lines_prefix by (assumption || lia). rewrite map_app, Hm. f_equal.
  f_equal. apply gtf_read_lines_fuel; rewrite ?app_length; lia.
Qed.

(* unlike the GFF3 reader, the GTF reader does not skip blank lines: an empty line between two
   records is a record line that fails *)
Theorem gtf_blank_line_is_an_error : forall prs,
  gtf_file_lines prs [10] = [TRecord (GLineErr UnexpectedEof)]
  /\ gtf_file_line_bufs prs [10] = [TBRecord (Err InvalidData)].
Proof. intro prs. split; reflexivity. Qed.
