From Coq Require Import List NArith Bool Lia.
From NV Require Import Base.Percent Base.PercentProofs Text.TextBase Text.TextBaseProofs Text.Gff.
Import ListNotations.
Open Scope N_scope.

Lemma attr_set_pct : attr_set 37 = true. Proof. reflexivity. Qed.
Lemma seqid_set_pct : seqid_set 37 = true. Proof. reflexivity. Qed.

Lemma attr_avoid : forall s c, bytes_ok s -> In c [9; 10; 13; 44; 59; 61] -> ~ In c (pct_enc attr_set s).
Proof.
  intros s c Hb Hc. cbn [In] in Hc.
  destruct Hc as [E|[E|[E|[E|[E|[E|[]]]]]]]; subst c; apply pct_enc_avoids; auto; try reflexivity; discriminate.
Qed.

Lemma seqid_avoid : forall s c, bytes_ok s -> In c [9; 10; 13; 35] -> ~ In c (pct_enc seqid_set s).
Proof.
  intros s c Hb Hc. cbn [In] in Hc.
  destruct Hc as [E|[E|[E|[E|[]]]]]; subst c; apply pct_enc_avoids; auto; try reflexivity; discriminate.
Qed.

(* ---- attribute tags and values ---- *)
Theorem gff_attr_tag_roundtrip : forall t, bytes_ok t -> pct_dec (pct_enc attr_set t) = t.
Proof. intros t H. apply pct_dec_enc; [exact attr_set_pct|exact H]. Qed.

Lemma map_dec_enc : forall l, Forall bytes_ok l -> map pct_dec (map (pct_enc attr_set) l) = l.
Proof.
  intros l H. induction H as [|x l Hx Hl IH]; [reflexivity|]. cbn [map].
  now rewrite gff_attr_tag_roundtrip, IH.
Qed.

Lemma enc_items_avoid : forall l c, Forall bytes_ok l -> In c [9; 10; 13; 44; 59; 61] ->
  Forall (fun p => ~ In c p) (map (pct_enc attr_set) l).
Proof.
  intros l c H Hc. induction H as [|x l Hx Hl IH]; [constructor|].
  cbn [map]. constructor; [now apply attr_avoid|exact IH].
Qed.

Theorem gff_attr_value_roundtrip : forall v, Forall bytes_ok (value_items v) ->
  gff_parse_value (gff_value_text v) = canon_value v.
Proof.
  intros v H. unfold gff_parse_value, gff_value_text, canon_value.
  destruct (value_items v) as [|x [|y l]] eqn:E.
  - reflexivity.
  - cbn [map join]. inversion H as [|? ? Hx _]; subst.
    rewrite mem_not_In by (apply attr_avoid; [exact Hx|cbn; tauto]).
    now rewrite gff_attr_tag_roundtrip.
  - assert (Hm : mem 44 (join 44 (map (pct_enc attr_set) (x :: y :: l))) = true).
    { apply mem_In. cbn [map]. rewrite join_cons2. apply in_or_app. right. now left. }
    rewrite Hm. rewrite split_all_join.
    + now rewrite map_dec_enc.
    + discriminate.
    + apply enc_items_avoid; [exact H|cbn; tauto].
Qed.

Lemma value_text_avoid : forall v c, Forall bytes_ok (value_items v) -> In c [9; 10; 13; 59; 61] ->
  ~ In c (gff_value_text v).
Proof.
  intros v c H Hc Hin. unfold gff_value_text in Hin. apply In_join in Hin.
  destruct Hin as [E|(p & Hp & Hcp)].
  - subst c. cbn [In] in Hc. intuition discriminate.
  - assert (HF : Forall (fun p => ~ In c p) (map (pct_enc attr_set) (value_items v))).
    { apply enc_items_avoid; [exact H|]. cbn [In] in *. intuition. }
    rewrite Forall_forall in HF. exact (HF p Hp Hcp).
Qed.

Definition attr_ok (tv : list N * value) : Prop :=
  bytes_ok (fst tv) /\ Forall bytes_ok (value_items (snd tv)).

Lemma field_text_avoid : forall tv c, attr_ok tv -> In c [9; 10; 13; 59] -> ~ In c (gff_field_text tv).
Proof.
  intros tv c [Ht Hv] Hc Hin. unfold gff_field_text in Hin. apply in_app_or in Hin.
  destruct Hin as [Hin|[E|Hin]].
  - revert Hin. apply attr_avoid; [exact Ht|]. cbn [In] in *. intuition.
  - subst c. cbn [In] in Hc. intuition discriminate.
  - revert Hin. apply value_text_avoid; [exact Hv|]. cbn [In] in *. intuition.
Qed.

Lemma iter_step : forall f src t rest, src <> [] -> split_once 61 src = Some (t, rest) ->
  gff_attrs_iter (S f) src =
    (let vr := match split_once 59 rest with Some (v, r) => (v, r) | None => (rest, []) end in
     let ie := gff_attrs_iter f (snd vr) in
     ((pct_dec t, gff_parse_value (fst vr)) :: fst ie, snd ie)).
Proof.
  intros f src t rest Hne H. destruct src as [|b s]; [contradiction|].
  cbn [gff_attrs_iter]. now rewrite H.
Qed.

Lemma field_text_shape : forall tv, gff_field_text tv = pct_enc attr_set (fst tv) ++ 61 :: gff_value_text (snd tv).
Proof. reflexivity. Qed.

Theorem gff_attrs_iter_roundtrip : forall a fuel, Forall attr_ok a ->
  (length (join 59 (map gff_field_text a)) < fuel)%nat ->
  gff_attrs_iter fuel (join 59 (map gff_field_text a)) = (canon_attrs a, None).
Proof.
  intros a fuel H. revert fuel. induction H as [|tv rest Htv Hrest IH]; intros fuel Hf.
  - destruct fuel; [lia|]. reflexivity.
  - destruct fuel as [|f]; [lia|]. destruct Htv as [Ht Hv].
    assert (Hno61 : ~ In 61 (pct_enc attr_set (fst tv))) by (apply attr_avoid; [exact Ht|cbn; tauto]).
    assert (Hno59 : ~ In 59 (gff_value_text (snd tv))) by (apply value_text_avoid; [exact Hv|cbn; tauto]).
    cbn [map] in *. destruct rest as [|q rest'].
    + cbn [map join] in *. rewrite field_text_shape in *.
      rewrite (iter_step f _ (pct_enc attr_set (fst tv)) (gff_value_text (snd tv))).
      * rewrite split_once_none by exact Hno59. cbn [fst snd].
        destruct f as [|f']; [rewrite app_length in Hf; cbn [length] in Hf; lia|].
        cbn [gff_attrs_iter fst snd]. rewrite gff_attr_tag_roundtrip by exact Ht.
        rewrite gff_attr_value_roundtrip by exact Hv. destruct tv; reflexivity.
      * intro E. apply app_eq_nil in E. destruct E as [_ E]. discriminate.
      * now apply split_once_app.
    + cbn [map] in *. rewrite join_cons2 in *. rewrite field_text_shape in *.
      rewrite <- app_assoc in *. cbn [app] in *.
      rewrite (iter_step f _ (pct_enc attr_set (fst tv))
                 (gff_value_text (snd tv) ++ 59 :: join 59 (gff_field_text q :: map gff_field_text rest'))).
      * rewrite split_once_app by exact Hno59. cbn [fst snd].
        rewrite IH.
        -- cbn [fst snd]. rewrite gff_attr_tag_roundtrip by exact Ht.
           rewrite gff_attr_value_roundtrip by exact Hv. destruct tv; reflexivity.
        -- rewrite <- (field_text_shape q). rewrite !app_length in Hf. cbn [length] in Hf. rewrite app_length in Hf. cbn [length] in Hf. lia.
      * intro E. apply app_eq_nil in E. destruct E as [_ E]. discriminate.
      * now apply split_once_app.
Qed.

Lemma attrs_text_clean : forall a, Forall attr_ok a ->
  gff_attrs_text a <> [] /\ forall c, In c [9; 10; 13] -> ~ In c (gff_attrs_text a).
Proof.
  intros a H. destruct a as [|tv rest].
  - split; [discriminate|]. intros c Hc [E|[]]. subst c. cbn [In] in Hc. intuition discriminate.
  - unfold gff_attrs_text. split.
    + cbn [map join]. rewrite field_text_shape. destruct (map gff_field_text rest);
        intro E; [|rewrite <- app_assoc in E]; apply app_eq_nil in E; destruct E as [_ E]; discriminate.
    + intros c Hc Hin. apply In_join in Hin. destruct Hin as [E|(p & Hp & Hcp)].
      * subst c. cbn [In] in Hc. intuition discriminate.
      * apply in_map_iff in Hp. destruct Hp as (tv' & E & Htv'). subst p.
        rewrite Forall_forall in H. revert Hcp. apply field_text_avoid; [now apply H|].
        cbn [In] in *. intuition.
Qed.

Theorem gff_attrs_roundtrip : forall a, Forall attr_ok a ->
  gff_attrs_parse (gff_attrs_text a) = (canon_attrs a, None).
Proof.
  intros a H. unfold gff_attrs_parse. destruct a as [|tv rest]; [reflexivity|].
  rewrite bytes_eqb_neq.
  - unfold gff_attrs_text. apply gff_attrs_iter_roundtrip; [exact H|lia].
  - unfold gff_attrs_text. cbn [map join]. rewrite field_text_shape. intro E.
    assert (Hin : In 61 [46]).
    { rewrite <- E. destruct (map gff_field_text rest); [|rewrite <- app_assoc];
        apply in_or_app; right; now left. }
    destruct Hin as [E'|[]]. discriminate.
Qed.

(* ---- whole records ---- *)
Definition gff_wf (fmt : N -> list N) (prs : list N -> option N) (r : feature) : Prop :=
  bytes_ok (f_seqid r)
  /\ (~ In 9 (f_source r) /\ ~ In 10 (f_source r))
  /\ (~ In 9 (f_type r) /\ ~ In 10 (f_type r))
  /\ 1 <= f_start r <= u64_max /\ 1 <= f_end r <= u64_max
  /\ (forall x, f_score r = Some x ->
        prs (fmt x) = Some x /\ ~ In 9 (fmt x) /\ ~ In 10 (fmt x) /\ fmt x <> [46])
  /\ Forall attr_ok (f_attrs r).

Lemma single_avoid : forall (c d : N), c <> d -> ~ In c [d].
Proof. intros c d H [E|[]]. congruence. Qed.

Lemma gff_columns_clean : forall fmt prs r, gff_wf fmt prs r ->
  Forall (fun f => ~ In 9 f /\ ~ In 10 f) (gff_columns fmt r).
Proof.
  intros fmt prs r (Hs & Hso & Hty & _ & _ & Hsc & _). unfold gff_columns.
  repeat apply Forall_cons; try apply Forall_nil.
  - split; apply seqid_avoid; auto; cbn; tauto.
  - exact Hso.
  - exact Hty.
  - split; apply fmt_dec_avoids; lia.
  - split; apply fmt_dec_avoids; lia.
  - destruct (f_score r) as [x|] eqn:E; cbn [score_text].
    + destruct (Hsc x eq_refl) as (_ & H9 & H10 & _). now split.
    + split; apply single_avoid; lia.
  - destruct (f_strand r); cbn [strand_text]; split; apply single_avoid; lia.
  - destruct (f_phase r) as [[]|]; cbn [phase_text]; split; apply single_avoid; lia.
Qed.

Lemma parse_strand_text : forall s, gff_parse_strand (strand_text s) = Ok s.
Proof. destruct s; reflexivity. Qed.

Lemma parse_phase_text : forall p, parse_phase (phase_text p) = option_map Ok p.
Proof. destruct p as [[]|]; reflexivity. Qed.

Lemma parse_score_text : forall fmt prs sc,
  (forall x, sc = Some x -> prs (fmt x) = Some x /\ fmt x <> [46]) ->
  parse_score prs (score_text fmt sc) = option_map Ok sc.
Proof.
  intros fmt prs [x|] H; [|reflexivity]. destruct (H x eq_refl) as [H1 H2].
  unfold parse_score, score_text. rewrite bytes_eqb_neq by exact H2. now rewrite H1.
Qed.

Definition gff_expected (r : feature) : lazy_feature :=
  {| l_seqid := pct_enc seqid_set (f_seqid r); l_source := f_source r; l_type := f_type r;
     l_start := Ok (f_start r); l_end := Ok (f_end r); l_score := option_map Ok (f_score r);
     l_strand := Ok (f_strand r); l_phase := option_map Ok (f_phase r);
     l_attrs := (canon_attrs (f_attrs r), None) |}.

Lemma hash_head : forall a rest, ~ In 35 a -> starts_with_hash (a ++ 9 :: rest) = false.
Proof.
  intros [|b a] rest H; [reflexivity|]. cbn [app starts_with_hash]. apply N.eqb_neq.
  intro E. apply H. now left.
Qed.

Lemma gff_write_ok : forall fmt r line, gff_write fmt r = Ok line ->
  line = tabbed (gff_columns fmt r) ++ gff_attrs_text (f_attrs r).
Proof.
  intros fmt r line H. unfold gff_write in H.
  destruct (bytes_eqb (f_type r) cds && match f_phase r with None => true | Some _ => false end);
    [discriminate|]. symmetry. congruence.
Qed.

(* What a written record reads back as, for EVERY sequence id: the id comes back encoded. *)
Theorem gff_record_readback : forall fmt prs r line,
  gff_wf fmt prs r -> gff_write fmt r = Ok line ->
  gff_read prs (line ++ [10]) = Rec (gff_expected r).
Proof.
  intros fmt prs r line Hwf Hw. pose proof (gff_columns_clean fmt prs r Hwf) as Hcols.
  destruct Hwf as (Hs & Hso & Hty & Hst & Hen & Hsc & Hat).
  destruct (attrs_text_clean _ Hat) as [Hane Haav].
  apply gff_write_ok in Hw. subst line.
  assert (H10 : ~ In 10 (tabbed (gff_columns fmt r) ++ gff_attrs_text (f_attrs r))).
  { intro Hin. apply in_app_or in Hin. destruct Hin as [Hin|Hin].
    - apply In_tabbed in Hin. destruct Hin as [E|(f & Hf & Hc)]; [discriminate|].
      rewrite Forall_forall in Hcols. destruct (Hcols f Hf) as [_ Hn]. now apply Hn.
    - revert Hin. apply Haav. cbn; tauto. }
  unfold gff_read, first_line. rewrite take_until_app by exact H10.
  rewrite strip_cr_app by exact Hane.
  rewrite (strip_cr_no13 (gff_attrs_text (f_attrs r))) by (apply Haav; cbn; tauto).
  unfold gff_parse_line.
  assert (Hh : starts_with_hash (tabbed (gff_columns fmt r) ++ gff_attrs_text (f_attrs r)) = false).
  { unfold gff_columns, tabbed. cbn [flat_map]. rewrite <- !app_assoc. cbn [app].
    apply hash_head. apply seqid_avoid; [exact Hs|cbn; tauto]. }
  rewrite Hh.
  change 8%nat with (length (gff_columns fmt r)).
  rewrite take_fields_tabbed.
  2:{ eapply Forall_impl; [|exact Hcols]. intros f [H9 _]. exact H9. }
  unfold gff_columns, gff_lazy_of_columns, gff_expected.
  rewrite !parse_pos_fmt by assumption.
  rewrite parse_strand_text, parse_phase_text, gff_attrs_roundtrip by exact Hat.
  rewrite (parse_score_text fmt prs (f_score r)).
  - reflexivity.
  - intros x E. destruct (Hsc x E) as (H1 & _ & _ & H4). now split.
Qed.

Definition seqid_plain (r : feature) : Prop := Forall (fun b => seqid_set b = false) (f_seqid r).

Definition canon_feature (r : feature) : feature :=
  {| f_seqid := f_seqid r; f_source := f_source r; f_type := f_type r; f_start := f_start r;
     f_end := f_end r; f_score := f_score r; f_strand := f_strand r; f_phase := f_phase r;
     f_attrs := canon_attrs (f_attrs r) |}.

(* The positive theorem, under exactly the hypothesis the code forces: no byte of the seqid
   encode set in the sequence id, no TAB/LF in source and type. *)
Theorem gff_record_roundtrip : forall fmt prs r line,
  gff_wf fmt prs r -> seqid_plain r -> gff_write fmt r = Ok line ->
  exists l, gff_read prs (line ++ [10]) = Rec l /\ owned_of_lazy l = Ok (canon_feature r)
            /\ l_seqid l = f_seqid r.
Proof.
  intros fmt prs r line Hwf Hp Hw. exists (gff_expected r).
  split; [eapply gff_record_readback; eassumption|].
  unfold gff_expected, owned_of_lazy, canon_feature. cbn [l_start l_end l_score l_strand l_phase l_attrs l_seqid l_source l_type fst snd].
  rewrite (pct_enc_id seqid_set (f_seqid r) Hp).
  destruct (f_score r), (f_phase r); cbn [option_map]; split; reflexivity.
Qed.

(* multi-valued attributes keep their values and order; Array [x] reads back as String x *)
Lemma canon_value_items : forall v, value_items v <> [] -> value_items (canon_value v) = value_items v.
Proof.
  intros v H. unfold canon_value. destruct (value_items v) as [|x [|y l]] eqn:E; [contradiction|reflexivity|reflexivity].
Qed.

(* lazy view = owned record, field by field (the owned record is built from the lazy accessors) *)
Theorem gff_lazy_eq_owned : forall l f, owned_of_lazy l = Ok f ->
  l_seqid l = f_seqid f /\ l_source l = f_source f /\ l_type l = f_type f
  /\ l_start l = Ok (f_start f) /\ l_end l = Ok (f_end f)
  /\ l_score l = option_map Ok (f_score f) /\ l_strand l = Ok (f_strand f)
  /\ l_phase l = option_map Ok (f_phase f) /\ l_attrs l = (f_attrs f, None).
Proof.
  intros l f H. unfold owned_of_lazy in H.
  destruct (l_start l) as [st| |]; try discriminate.
  destruct (l_end l) as [en| |]; try discriminate.
  destruct (l_score l) as [[sc| |]|]; try discriminate;
  destruct (l_strand l) as [sd| |]; try discriminate;
  destruct (l_phase l) as [[ph| |]|]; try discriminate;
  destruct (l_attrs l) as [items [[u| |]|]]; cbn [fst snd] in H; try discriminate;
  inversion H; subst f; cbn; repeat split; reflexivity.
Qed.

(* F15: the faithful model refutes the round trip for a seqid with a reserved byte *)
Definition f15_witness : feature :=
  {| f_seqid := [99; 104; 114; 32; 49]; f_source := [46]; f_type := [103; 101; 110; 101];
     f_start := 1; f_end := 1; f_score := None; f_strand := SNone; f_phase := None; f_attrs := [] |}.

Theorem gff_seqid_refuted : exists r line,
  gff_wf (fun _ => []) (fun _ => None) r /\ gff_write (fun _ => []) r = Ok line /\
  exists l, gff_read (fun _ => None) (line ++ [10]) = Rec l /\ l_seqid l <> f_seqid r.
Proof.
  exists f15_witness. eexists. split; [|split; [vm_compute; reflexivity|]].
  - unfold gff_wf, f15_witness, bytes_ok, is_byte, u64_max. cbn.
    repeat split; try lia; try (intros [E|[]]; discriminate); try (intros [E|[E|[E|[E|[]]]]]; discriminate);
      try discriminate; try (repeat constructor; lia).
    all: intros x E; discriminate.
  - eexists. split; [vm_compute; reflexivity|]. vm_compute. discriminate.
Qed.

(* source/type written raw: a TAB shifts the columns *)
Definition f15b_witness : feature :=
  {| f_seqid := [99]; f_source := [97; 9; 98]; f_type := [103];
     f_start := 1; f_end := 1; f_score := None; f_strand := SNone; f_phase := None; f_attrs := [] |}.

Theorem gff_source_refuted : exists r line,
  gff_write (fun _ => []) r = Ok line /\
  exists l, gff_read (fun _ => None) (line ++ [10]) = Rec l /\
            (l_source l <> f_source r /\ l_start l = Err InvalidData).
Proof.
  exists f15b_witness. eexists. split; [vm_compute; reflexivity|].
  eexists. split; [vm_compute; reflexivity|]. split; [vm_compute; discriminate|vm_compute; reflexivity].
Qed.
