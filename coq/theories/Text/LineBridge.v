(* The GFF3 / GTF line loops over a DELIVERED source (model; definitions only): the caller's
   `while reader.read_line(&mut line)? != 0 { ... }` where the reader sits on std's BufReader of
   any capacity over any byte source that may deliver short reads and Interrupted (C12's
   NV.Io.Source / NV.Io.BufReader, imported read-only: read_until, noodles read_line, and
   gff::io::reader::line::read_line with its blank-line skipping are modelled there).
   LineBridgeProofs shows these loops compute GffLine.gff_read_lines / GtfLine.gtf_read_lines of
   the whole text, whatever the delivery schedule and the capacity. *)
From Coq Require Import List NArith Arith Bool.
From NV Require Import Io.Source Io.BufReader Text.TextBase Text.GffLine Text.GtfLine.
Import ListNotations.

Section Delivered.
  Context {S : Type}.
  Variable rd : reader S.
  Variable cap : nat.

  (* GFF3: gff::io::Reader::read_line until it returns 0.  [k] bounds the number of lines,
     [lines] the number of blank lines skipped inside one call, [fuel] the fill_buf calls of one
     read_until; None = a bound was too small *)
  Fixpoint gff_lines_delivered (k lines fuel : nat) (st : bstate S) : option (list (list N)) :=
    match k with
    | O => None
    | Datatypes.S k' =>
        match gff_read_line rd cap lines fuel st with
        | (n, l, UOk, st') =>
            if Nat.eqb n 0 then Some []
            else match gff_lines_delivered k' lines fuel st' with
                 | Some ls => Some (l :: ls)
                 | None => None
                 end
        | (_, _, UNoFuel, _) => None
        end
    end.

  (* GTF: gtf::io::Reader::read_line (no blank-line skipping) until it returns 0 *)
  Fixpoint gtf_lines_delivered (k fuel : nat) (st : bstate S) : option (list (list N)) :=
    match k with
    | O => None
    | Datatypes.S k' =>
        match read_line rd cap fuel st with
        | (n, l, UOk, st') =>
            if Nat.eqb n 0 then Some []
            else match gtf_lines_delivered k' fuel st' with
                 | Some ls => Some (l :: ls)
                 | None => None
                 end
        | (_, _, UNoFuel, _) => None
        end
    end.
End Delivered.
