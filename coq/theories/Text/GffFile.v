(* Whole GFF3 and GTF files as the writers produce them (model; definitions only):
   gff::io::Writer::write_record / write_directive / write_comment (io/writer.rs: each writes its
   line and a line feed), gtf::io::Writer::write_record / write_line(Comment), and raw bytes
   the caller pushes between lines (Writer::get_mut) -- blank lines of a GFF3 file.
   Reading back is GffLine.gff_file_lines / gff_file_line_bufs / gff_record_bufs and the GtfLine
   counterparts; the caller's loop `while reader.read_line(&mut line)? != 0` with ONE reused Line
   is gff_file_lines (Line is a plain String that read_line clears first). *)
From Coq Require Import List NArith Bool.
From NV Require Import Text.TextBase Text.Gff Text.Gtf Text.GffLine Text.GtfLine Text.GffDirValue.
Import ListNotations.
Open Scope N_scope.

Inductive fitem :=
  | FRecord (r : feature)
  | FDirective (d : directive)
  | FComment (s : list N)
  | FRaw (l : list N).          (* bytes pushed by the caller, followed by a line feed *)

Definition fitem_line (fmt : N -> list N) (it : fitem) : res (list N) :=
  match it with
  | FRecord r => gff_write fmt r
  | FDirective d => gff_write_directive_r d    (* = gff_write_directive d unless the repair switch is on *)
  | FComment s => Ok (gff_write_comment s)
  | FRaw l => Ok l
  end.

(* the writer calls one after the other; the first error stops (nothing more is written) *)
Fixpoint gff_write_file (fmt : N -> list N) (items : list fitem) : res (list N) :=
  match items with
  | [] => Ok []
  | it :: t =>
      match fitem_line fmt it with
      | Ok line =>
          match gff_write_file fmt t with
          | Ok rest => Ok (line ++ 10 :: rest)
          | Err e => Err e
          | Panic => Panic
          end
      | Err e => Err e
      | Panic => Panic
      end
  end.

(* GTF: records and comments *)
Inductive titem := TFRecord (r : feature) | TFComment (s : list N).

Definition titem_line (fmt : N -> list N) (it : titem) : res (list N) :=
  match it with
  | TFRecord r => gtf_write fmt r
  | TFComment s => Ok (gtf_write_comment s)
  end.

Fixpoint gtf_write_file (fmt : N -> list N) (items : list titem) : res (list N) :=
  match items with
  | [] => Ok []
  | it :: t =>
      match titem_line fmt it with
      | Ok line =>
          match gtf_write_file fmt t with
          | Ok rest => Ok (line ++ 10 :: rest)
          | Err e => Err e
          | Panic => Panic
          end
      | Err e => Err e
      | Panic => Panic
      end
  end.
