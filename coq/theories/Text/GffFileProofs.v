(* Proofs about whole written GFF3 / GTF files (Text/GffFile.v): a file made by any sequence
   of writer calls (and blank raw lines for GFF3) followed by any text reads back item by item. *)
From Coq Require Import List NArith Bool Lia.
From NV Require Import Base.Percent Base.PercentProofs Text.TextBase Text.TextBaseProofs
  Text.Gff Text.GffProofs Text.GffLine Text.GffLineProofs Text.Gtf Text.GtfProofs
  Text.GtfLine Text.GtfLineProofs Text.GffDirValue Text.GffFile.
Import ListNotations.
Open Scope N_scope.

(* ---- GFF3 ---- *)
Definition fitem_ok (fmt : N -> list N) (prs : list N -> option N) (it : fitem) : Prop :=
  match it with
  | FRecord r => gff_wf fmt prs r
  | FDirective d => directive_ok d
  | FComment s => ~ In 10 s /\ strip_cr s = s /\ hd 0 s <> 35
  | FRaw l => ~ In 10 l /\ forallb is_ws l = true       (* a blank line *)
  end.

(* what the lazy reader (read_line + Line::kind + accessors) and line_bufs() yield for an item:
   nothing for a blank line *)
Definition fitem_lazy (it : fitem) : list gline :=
  match it with
  | FRecord r => [GRecord (Rec (gff_expected r))]
  | FDirective d => [GDirective (d_key d) (directive_text_value d)]
  | FComment s => [GComment s]
  | FRaw _ => []
  end.
Definition fitem_bufs (it : fitem) : list gline_buf :=
  match it with
  | FRecord r => [BRecord (owned_of_lazy (gff_expected r))]
  | FDirective d => [BDirective (d_key d) (directive_text_value d)]
  | FComment s => [BComment s]
  | FRaw _ => []
  end.

(* whatever the repair switch says: a directive line that was written is the line of
   gff_write_directive *)
Lemma gff_write_directive_r_ok : forall d l, gff_write_directive_r d = Ok l -> gff_write_directive d = Ok l.
Proof.
  intros d l H. unfold gff_write_directive_r in H.
  destruct (directive_blank_repaired && dvalue_rejected (d_key d) (d_value d)); [discriminate|exact H].
Qed.

Lemma forallb_strip_cr : forall l, forallb is_ws l = true -> forallb is_ws (strip_cr l) = true.
Proof.
  induction l as [|b t IH]; intro H; [reflexivity|].
  cbn [forallb] in H. apply andb_true_iff in H. destruct H as [Hb Ht].
  cbn [strip_cr]. destruct t as [|c t'].
  - destruct (b =? 13); [reflexivity|]. cbn [forallb]. now rewrite Hb.
  - cbn [forallb]. rewrite Hb. cbn [andb]. apply IH. exact Ht.
Qed.

Lemma gff_read_lines_blank : forall l rest f, ~ In 10 l -> forallb is_ws l = true ->
  gff_read_lines (S f) (l ++ 10 :: rest) = gff_read_lines f rest.
Proof.
  intros l rest f H10 Hb. cbn [gff_read_lines].
  destruct (l ++ 10 :: rest) as [|b t] eqn:E; [destruct l; discriminate|]. rewrite <- E.
  rewrite gff_raw_line_app by exact H10. now rewrite forallb_strip_cr.
Qed.

(* one item: its line is either a good line with the expected views, or a skipped blank line *)
Lemma fitem_line_views : forall fmt prs it l, fitem_ok fmt prs it -> fitem_line fmt it = Ok l ->
  ~ In 10 l /\
  ((good_line l /\ fitem_lazy it = [gff_classify prs l] /\ fitem_bufs it = [gff_line_buf prs l])
   \/ (forallb is_ws l = true /\ fitem_lazy it = [] /\ fitem_bufs it = [])).
Proof.
  intros fmt prs it l Hok Hl. destruct it as [r|d|s|raw]; cbn [fitem_ok fitem_line] in *.
  - destruct (item_line_good fmt prs (IRecord r) l Hok Hl) as [Hg Hb].
    destruct (gff_record_line_classified fmt prs r l [] Hok Hl) as (_ & _ & Hc).
    split; [exact (proj1 Hg)|]. left. split; [exact Hg|]. cbn [fitem_lazy fitem_bufs item_buf] in *.
    now rewrite Hc, Hb.
  - apply gff_write_directive_r_ok in Hl.
    destruct (item_line_good fmt prs (IDirective d) l Hok Hl) as [Hg Hb].
    destruct (gff_directive_roundtrip prs d l [] Hok Hl) as (_ & _ & Hc & _).
    split; [exact (proj1 Hg)|]. left. split; [exact Hg|]. cbn [fitem_lazy fitem_bufs item_buf] in *.
    now rewrite Hc, Hb.
  - destruct (item_line_good fmt prs (IComment s) l Hok Hl) as [Hg Hb].
    injection Hl as Hl. subst l. destruct Hok as (H10 & Hcr & Hhd).
    destruct (gff_comment_roundtrip prs s [] H10 Hcr Hhd) as (_ & _ & Hc).
    split; [exact (proj1 Hg)|]. left. split; [exact Hg|]. cbn [fitem_lazy fitem_bufs item_buf] in *.
    now rewrite Hc, Hb.
  - injection Hl as Hl. subst l. destruct Hok as [H10 Hb]. split; [exact H10|]. right. auto.
Qed.

Lemma gff_write_file_cons : forall fmt it t text, gff_write_file fmt (it :: t) = Ok text ->
  exists l rest, fitem_line fmt it = Ok l /\ gff_write_file fmt t = Ok rest /\ text = l ++ 10 :: rest.
Proof.
  intros fmt it t text H. cbn [gff_write_file] in H.
  destruct (fitem_line fmt it) as [l|e|]; try discriminate.
  destruct (gff_write_file fmt t) as [rest|e|]; try discriminate.
  injection H as H. exists l, rest. auto.
Qed.

Lemma gff_written_lines : forall fmt prs items text tail,
  Forall (fitem_ok fmt prs) items -> gff_write_file fmt items = Ok text ->
  exists ls, gff_read_lines (S (length (text ++ tail))) (text ++ tail)
             = ls ++ gff_read_lines (S (length tail)) tail
    /\ map (gff_classify prs) ls = flat_map fitem_lazy items
    /\ map (gff_line_buf prs) ls = flat_map fitem_bufs items.
Proof.
  intros fmt prs items. induction items as [|it t IH]; intros text tail Hok Hw.
  - injection Hw as Hw. subst text. exists []. cbn [app map flat_map]. auto.
  - inversion Hok as [|it' t' Hit Ht]; subst.
    destruct (gff_write_file_cons fmt it t text Hw) as (l & rest & Hl & Hrest & Htext). subst text.
    destruct (IH rest tail Ht Hrest) as (ls & Hread & Hlazy & Hbufs).
    destruct (fitem_line_views fmt prs it l Hit Hl) as [H10 [(Hg & Hz & Hb)|(Hblank & Hz & Hb)]].
    + exists (l :: ls). rewrite <- app_assoc. cbn [app].
      rewrite gff_read_lines_cons by (exact Hg || lia).
      assert (Hfu : gff_read_lines (length (l ++ 10 :: rest ++ tail)) (rest ++ tail)
                    = gff_read_lines (S (length (rest ++ tail))) (rest ++ tail)).
      { apply gff_read_lines_fuel; rewrite !app_length; cbn [length]; rewrite ?app_length; lia. }
      rewrite Hfu, Hread. cbn [map flat_map]. rewrite Hz, Hb, Hlazy, Hbufs. cbn [app]. auto.
    + exists ls. rewrite <- app_assoc. cbn [app].
      rewrite gff_read_lines_blank by assumption.
      assert (Hfu : gff_read_lines (length (l ++ 10 :: rest ++ tail)) (rest ++ tail)
                    = gff_read_lines (S (length (rest ++ tail))) (rest ++ tail)).
      { apply gff_read_lines_fuel; rewrite !app_length; cbn [length]; rewrite ?app_length; lia. }
      rewrite Hfu, Hread. cbn [flat_map]. rewrite Hz, Hb. cbn [app]. auto.
Qed.

(* a whole GFF3 file written by any sequence of writer calls (records, directives -- ##FASTA
   included --, comments) with blank lines pushed in between, followed by ANY text: the lazy
   lines (one reused Line) and the owned LineBufs are the written items in order *)
Theorem gff_written_file_roundtrip : forall fmt prs items text tail,
  Forall (fitem_ok fmt prs) items -> gff_write_file fmt items = Ok text ->
  gff_file_lines prs (text ++ tail) = flat_map fitem_lazy items ++ gff_file_lines prs tail
  /\ gff_file_line_bufs prs (text ++ tail) = flat_map fitem_bufs items ++ gff_file_line_bufs prs tail.
Proof.
  intros fmt prs items text tail Hok Hw.
  destruct (gff_written_lines fmt prs items text tail Hok Hw) as (ls & Hread & Hlazy & Hbufs).
  unfold gff_file_lines, gff_file_line_bufs. rewrite Hread, !map_app, Hlazy, Hbufs. auto.
Qed.

(* record_bufs() of such a file without a ##FASTA directive: exactly the written records *)
Definition fitem_records (it : fitem) : list (res feature) :=
  match it with FRecord r => [owned_of_lazy (gff_expected r)] | _ => [] end.
Definition fitem_not_fasta (it : fitem) : Prop :=
  match it with FDirective d => bytes_eqb (d_key d) fasta_key = false | _ => True end.

Lemma gff_record_bufs_app_items : forall items rest, Forall fitem_not_fasta items ->
  gff_record_bufs (flat_map fitem_bufs items ++ rest)
  = flat_map fitem_records items ++ gff_record_bufs rest.
Proof.
  induction items as [|it t IH]; intros rest H; [reflexivity|].
  inversion H as [|it' t' Hit Ht]; subst. cbn [flat_map]. rewrite <- app_assoc.
  destruct it as [r|d|s|raw]; cbn [fitem_bufs fitem_records app gff_record_bufs fitem_not_fasta] in *.
  - now rewrite IH.
  - rewrite Hit. now apply IH.
  - now apply IH.
  - now apply IH.
Qed.

Theorem gff_written_file_record_bufs : forall fmt prs items text,
  Forall (fitem_ok fmt prs) items -> Forall fitem_not_fasta items ->
  gff_write_file fmt items = Ok text ->
  gff_record_bufs (gff_file_line_bufs prs text) = flat_map fitem_records items.
Proof.
  intros fmt prs items text Hok Hnf Hw.
  destruct (gff_written_file_roundtrip fmt prs items text [] Hok Hw) as [_ Hb].
  rewrite app_nil_r in Hb. rewrite Hb.
  rewrite gff_record_bufs_app_items by exact Hnf.
  change (gff_file_line_bufs prs []) with (@nil gline_buf). cbn [gff_record_bufs]. now rewrite app_nil_r.
Qed.

(* ---- GTF ---- *)
Definition titem_ok (fmt : N -> list N) (prs : list N -> option N) (it : titem) : Prop :=
  match it with TFRecord r => gtf_wf fmt prs r | TFComment s => ~ In 10 s /\ strip_cr s = s end.
Definition titem_lazy (it : titem) : gtline :=
  match it with TFRecord r => TRecord (GRec (gtf_expected r)) | TFComment s => TComment s end.
Definition titem_buf (it : titem) : gtline_buf :=
  match it with TFRecord r => TBRecord (gtf_owned (gtf_expected r)) | TFComment s => TBComment s end.

Lemma titem_line_views : forall fmt prs it l, titem_ok fmt prs it -> titem_line fmt it = Ok l ->
  whole_line l /\ gtf_classify prs l = titem_lazy it /\ gtf_line_buf prs l = titem_buf it.
Proof.
  intros fmt prs it l Hok Hl. destruct it as [r|s]; cbn [titem_ok titem_line titem_lazy titem_buf] in *.
  - exact (gtf_record_line_classified fmt prs r l Hok Hl).
  - injection Hl as Hl. subst l. destruct Hok as [H10 Hcr]. exact (gtf_comment_roundtrip prs s H10 Hcr).
Qed.

Lemma gtf_write_file_lines : forall fmt prs items text,
  Forall (titem_ok fmt prs) items -> gtf_write_file fmt items = Ok text ->
  exists ls, text = lines_text ls /\ Forall whole_line ls
    /\ map (gtf_classify prs) ls = map titem_lazy items
    /\ map (gtf_line_buf prs) ls = map titem_buf items.
Proof.
  intros fmt prs items. induction items as [|it t IH]; intros text Hok Hw.
  - injection Hw as Hw. subst text. exists []. repeat split; constructor.
  - inversion Hok as [|it' t' Hit Ht]; subst. cbn [gtf_write_file] in Hw.
    destruct (titem_line fmt it) as [l|e|] eqn:Hl; try discriminate.
    destruct (gtf_write_file fmt t) as [rest|e|] eqn:Hrest; try discriminate.
    injection Hw as Hw. subst text.
    destruct (IH rest Ht eq_refl) as (ls & Htext & Hwl & Hz & Hb). subst rest.
    destruct (titem_line_views fmt prs it l Hit Hl) as (Hw1 & Hz1 & Hb1).
    exists (l :: ls). unfold lines_text. cbn [map concat]. rewrite <- app_assoc. cbn [app].
    repeat split; try (constructor; assumption); try now (f_equal; assumption).
Qed.

(* a whole GTF file written by any sequence of writer calls (records, comments) followed by ANY
   text: lazy lines and owned LineBufs are the written items in order *)
Theorem gtf_written_file_roundtrip : forall fmt prs items text tail,
  Forall (titem_ok fmt prs) items -> gtf_write_file fmt items = Ok text ->
  gtf_file_lines prs (text ++ tail) = map titem_lazy items ++ gtf_file_lines prs tail
  /\ gtf_file_line_bufs prs (text ++ tail) = map titem_buf items ++ gtf_file_line_bufs prs tail.
Proof.
  intros fmt prs items text tail Hok Hw.
  destruct (gtf_write_file_lines fmt prs items text Hok Hw) as (ls & Htext & Hwl & Hz & Hb). subst text.
  unfold gtf_file_lines, gtf_file_line_bufs.
  rewrite gtf_read_lines_prefix by (assumption || lia). rewrite !map_app, Hz, Hb.
  assert (Hfu : gtf_read_lines (S (length (lines_text ls ++ tail))) tail
                = gtf_read_lines (S (length tail)) tail)
    by (apply gtf_read_lines_fuel; rewrite ?app_length; lia).
  rewrite Hfu. auto.
Qed.

Theorem gtf_written_file_record_bufs : forall fmt prs items text,
  Forall (titem_ok fmt prs) items -> gtf_write_file fmt items = Ok text ->
  gtf_record_bufs (gtf_file_line_bufs prs text)
  = flat_map (fun it => match it with TFRecord r => [gtf_owned (gtf_expected r)] | TFComment _ => [] end) items.
Proof.
  intros fmt prs items text Hok Hw.
  destruct (gtf_written_file_roundtrip fmt prs items text [] Hok Hw) as [_ Hb].
  rewrite app_nil_r in Hb. rewrite Hb. change (gtf_file_line_bufs prs []) with (@nil gtline_buf).
  rewrite app_nil_r. unfold gtf_record_bufs. clear.
  induction items as [|it t IH]; [reflexivity|]. cbn [map flat_map]. rewrite IH.
  destruct it; reflexivity.
Qed.
