(* The BED copy loop normalises in ONE step, for ANY input text: whatever line it writes for a
   record read from arbitrary text is a fixpoint of read -> own -> write. *)
From Coq Require Import List NArith ZArith Bool Lia.
From NV Require Import Text.TextBase Text.TextBaseProofs Text.Bed Text.BedProofs Text.BedRec
  Text.BedRecProofs Text.BedTyped Text.BedTypedProofs Text.BedRewrite Text.BedRewriteProofs.
Import ListNotations.
Open Scope N_scope.

Lemma res_bind_ok : forall {A B} (r : res A) (g : A -> res B) b,
  res_bind r g = Ok b -> exists a, r = Ok a /\ g a = Ok b.
Proof. intros A B r g b H. destruct r as [a| |]; cbn in H; try discriminate. exists a. auto. Qed.

Lemma parse_start_range : forall s st, bed_parse_start s = Ok st -> 1 <= st <= u64_max.
Proof.
  intros s st H. unfold bed_parse_start in H. destruct (parse_dec s) as [k|]; [|discriminate].
  destruct (u64_max <=? k) eqn:E; [discriminate|]. injection H as H. subst st.
  apply N.leb_gt in E. lia.
Qed.

Lemma view_end_range : forall s x, view_end s = Ok (Some x) -> 1 <= x <= u64_max.
Proof.
  intros s x H. unfold view_end, bed_parse_end in H. destruct (bytes_eqb s [48]); [discriminate|].
  destruct (parse_dec s) as [k|]; cbn in H; [|discriminate].
  destruct ((k =? 0) || (u64_max <? k)) eqn:E; cbn in H; [discriminate|]. injection H as H. subst x.
  apply orb_false_iff in E. destruct E as [E1 E2]. apply N.eqb_neq in E1. apply N.ltb_ge in E2. lia.
Qed.

Lemma parse_score_range : forall s sc, bed_parse_score s = Ok sc -> sc <= 65535.
Proof.
  intros s sc H. unfold bed_parse_score in H. destruct (parse_dec s) as [k|]; [|discriminate].
  destruct (65535 <? k) eqn:E; [discriminate|]. injection H as H. subst sc. now apply N.ltb_ge in E.
Qed.

(* every record the conversion returns, for ANY record state, is in the writer's domain of
   c18_bed_write_read_write *)
Theorem bed_owned_wf_dot : forall n f b, (3 <= n <= 6)%nat ->
  bed_owned n (bed_view_of n f) = Ok b -> bed_wf_dot b /\ b_n b = n.
Proof.
  intros n f b Hn H. unfold bed_owned in H.
  apply res_bind_ok in H as (name & _ & H).
  apply res_bind_ok in H as (st & E1 & H).
  apply res_bind_ok in H as (en & E2 & H).
  apply res_bind_ok in H as (nm & _ & H).
  apply res_bind_ok in H as (sc & E4 & H).
  apply res_bind_ok in H as (sd & _ & H).
  apply res_bind_ok in H as (os & _ & H).
  injection H as H. subst b. unfold bed_wf_dot. cbn [b_n b_start b_end b_score].
  cbn [bed_view_of bv_start bv_end bv_score] in E1, E2, E4.
  split; [|reflexivity]. split; [exact Hn|]. split.
  - apply res_bind_ok in E1 as (s & _ & E1). now apply parse_start_range in E1.
  - split.
    + intros x Hx. subst en. apply res_bind_ok in E2 as (s & _ & E2). now apply view_end_range in E2.
    + intros _. destruct (Nat.leb 5 n); cbn [opt_res] in E4.
      * apply res_bind_ok in E4 as (s & _ & E4). now apply parse_score_range in E4.
      * injection E4 as E4. subst sc. lia.
Qed.

Lemma strings_valid : forall os,
  forallb bed_value_valid (map BVString os) = forallb (forallb is_printable) os.
Proof. induction os as [|o t IH]; [reflexivity|]. cbn [map forallb bed_value_valid]. now rewrite IH. Qed.

Lemma strings_text : forall fmt64 os, map (bed_value_text fmt64) (map BVString os) = os.
Proof. induction os as [|o t IH]; [reflexivity|]. cbn [map bed_value_text]. now rewrite IH. Qed.

Lemma bed_write_typed_strings : forall fmt64 b,
  bed_write_typed fmt64 b (map BVString (b_others b)) = bed_write b.
Proof.
  intros. unfold bed_write_typed, bed_write, bed_accepts. now rewrite strings_valid, strings_text.
Qed.

Lemma strings_float_ok : forall fmt64 os, float_texts_ok fmt64 (map BVString os).
Proof. intros fmt64 os x Hin. apply in_map_iff in Hin as (y & Hy & _). discriminate Hy. Qed.

Theorem bed_rewrite_idempotent : forall n src old line rest old',
  (3 <= n <= 6)%nat -> bed_rewrite n src old = Ok line -> length (bf_std old') = n ->
  bed_rewrite n (line ++ 10 :: rest) old' = Ok line.
Proof.
  intros n src old line rest old' Hn H Hold. unfold bed_rewrite in H. cbv zeta in H.
  destruct (ro_res (bed_read_record n src old)); try discriminate.
  unfold bed_rewrite_view in H.
  apply res_bind_ok in H as (b & Eo & Hw).
  destruct (bed_owned_wf_dot n _ b Hn Eo) as (Hwf & Hbn).
  set (fmt64 := fun _ : N => @nil N).
  rewrite <- (bed_write_typed_strings fmt64 b) in Hw. rewrite <- Hbn in Hold. rewrite <- Hbn.
  exact (proj2 (proj2 (bed_write_read_write fmt64 b (map BVString (b_others b)) line rest old'
                         Hwf (strings_float_ok fmt64 _) Hw Hold))).
Qed.
