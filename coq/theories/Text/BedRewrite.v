(* noodles-bed: the read -> own -> write path of a caller that copies a BED file record by record
   (io/reader/record.rs read_record_N into a Record<N>, feature/record_buf/convert.rs
   RecordBuf<N>::try_from_feature_record, io/writer/record.rs write_record_N).  Definitions only.
   [bed_rewrite_view] is what the caller gets from the record state left by one read_record call:
   the error of the first failing accessor inside the conversion (or its slice-index panic), the
   writer's InvalidInput (e.g. a reference sequence name that is not a word, an extra column with a
   non-printable byte), or the line written again (without the line feed). *)
From Coq Require Import List NArith Bool.
From NV Require Import Text.TextBase Text.Bed Text.BedRec.
Import ListNotations.
Open Scope N_scope.

Definition bed_rewrite_view (n : nat) (v : bed_view) : res (list N) :=
  res_bind (bed_owned n v) bed_write.

(* one read_record call on [src] into the record [old], then conversion and write *)
Definition bed_rewrite (n : nat) (src : list N) (old : bed_fields) : res (list N) :=
  let o := bed_read_record n src old in
  match ro_res o with
  | Ok _ => bed_rewrite_view n (bed_view_of n (ro_rec o))
  | Err e => Err e
  | Panic => Panic
  end.

(* the BED spelling of a missing name: Some "." and None are the same text *)
Definition bed_undot (r : bed) : bed :=
  {| b_n := b_n r; b_name := b_name r; b_start := b_start r; b_end := b_end r;
     b_nm := match b_nm r with Some s => if bytes_eqb s [46] then None else Some s | None => None end;
     b_score := b_score r; b_strand := b_strand r; b_others := b_others r |}.
