(* GFF3 line kinds as noodles-gff reads and writes them (model; definitions only).
   Reader: io/reader.rs::read_line (read_until LF, pop LF then one CR), io/reader/line.rs
   (blank lines skipped: is_blank = all u8::is_ascii_whitespace), line.rs (Line::kind,
   as_directive, as_comment, as_record), directive.rs (Directive::new / key / value),
   io/reader/line_bufs.rs (owned LineBuf), io/reader/record_bufs.rs (stops at ##FASTA).
   Writer: io/writer/line.rs, line/directive.rs (+ value/*.rs), line/comment.rs. *)
From Coq Require Import List NArith Bool.
From NV Require Import Base.Percent Text.TextBase Text.Gff.
Import ListNotations.
Open Scope N_scope.

(* u8::is_ascii_whitespace: SPACE, TAB, LF, FF, CR *)
Definition is_ws (b : N) : bool := (b =? 32) || (b =? 9) || (b =? 10) || (b =? 12) || (b =? 13).

(* ---- reading lines ---- *)

(* read_until(LF): bytes before the LF, whether there was one, the rest *)
Fixpoint cut_line (s : list N) : list N * bool * list N :=
  match s with
  | [] => ([], false, [])
  | b :: t =>
      if b =? 10 then ([], true, t)
      else let '(l, lf, r) := cut_line t in (b :: l, lf, r)
  end.

(* io/reader.rs::read_line: the CR is popped only after a popped LF *)
Definition gff_raw_line (s : list N) : list N * list N :=
  let '(l, lf, r) := cut_line s in ((if lf then strip_cr l else l), r).

(* Reader::read_line called until it returns 0: the non-blank lines, in order.  Every call
   consumes at least one byte; fuel = input length + 1 (proved sufficient). *)
Fixpoint gff_read_lines (fuel : nat) (s : list N) : list (list N) :=
  match fuel with
  | O => []
  | S f =>
      match s with
      | [] => []
      | _ =>
          let '(l, r) := gff_raw_line s in
          if forallb is_ws l then gff_read_lines f r else l :: gff_read_lines f r
      end
  end.

(* Line::kind *)
Inductive line_kind := KDirective | KComment | KRecord.
Definition gff_line_kind (l : list N) : line_kind :=
  match l with
  | a :: t =>
      if a =? 35 then
        match t with
        | b :: _ => if b =? 35 then KDirective else KComment
        | [] => KComment
        end
      else KRecord
  | [] => KRecord
  end.

(* Directive::new(src): mid = first whitespace byte or the end; key = src[..mid];
   value = src.get(mid+1..) (None only when there is no whitespace byte) *)
Fixpoint dir_split (s : list N) : list N * option (list N) :=
  match s with
  | [] => ([], None)
  | b :: t =>
      if is_ws b then ([], Some t)
      else let '(k, v) := dir_split t in (b :: k, v)
  end.

(* the lazy view of a line *)
Inductive gline :=
  | GDirective (key : list N) (value : option (list N))
  | GComment (s : list N)
  | GRecord (l : line_result).

Definition gff_classify (prs : list N -> option N) (line : list N) : gline :=
  match gff_line_kind line with
  | KDirective => let '(k, v) := dir_split (skipn 2 line) in GDirective k v
  | KComment => GComment (skipn 1 line)
  | KRecord => GRecord (gff_parse_line prs line)
  end.

(* the owned LineBuf of line_bufs(): a directive keeps key and text value; a comment is built
   from Line::as_comment (the text after the '#'; repaired in /repo 0b526eb -- before, it was the
   whole line, '#' included); a record goes through RecordBuf::try_from_feature_record *)
Inductive gline_buf :=
  | BDirective (key : list N) (value : option (list N))
  | BComment (s : list N)
  | BRecord (r : res feature).

Definition gff_line_buf (prs : list N -> option N) (line : list N) : gline_buf :=
  match gff_line_kind line with
  | KDirective => let '(k, v) := dir_split (skipn 2 line) in BDirective k v
  | KComment => BComment (skipn 1 line)
  | KRecord =>
      BRecord (match gff_parse_line prs line with
               | Rec l => owned_of_lazy l
               | LineErr e => Err e
               | NotRecord => Panic
               end)
  end.

Definition gff_file_lines (prs : list N -> option N) (text : list N) : list gline :=
  map (gff_classify prs) (gff_read_lines (S (length text)) text).
Definition gff_file_line_bufs (prs : list N -> option N) (text : list N) : list gline_buf :=
  map (gff_line_buf prs) (gff_read_lines (S (length text)) text).

(* record_bufs(): the records up to a `##FASTA` directive (other lines skipped) *)
Definition fasta_key : list N := [70; 65; 83; 84; 65].
Fixpoint gff_record_bufs (ls : list gline_buf) : list (res feature) :=
  match ls with
  | [] => []
  | BDirective k _ :: t => if bytes_eqb k fasta_key then [] else gff_record_bufs t
  | BComment _ :: t => gff_record_bufs t
  | BRecord r :: t => r :: gff_record_bufs t
  end.

(* ---- writing ---- *)
Inductive dvalue :=
  | DVersion (major : N) (minor : option (N * option N))     (* GffVersion: u32 components *)
  | DRegion (name : list N) (s e : N)                        (* SequenceRegion *)
  | DBuild (source name : list N)                            (* GenomeBuild *)
  | DString (s : list N).
Record directive := { d_key : list N; d_value : option dvalue }.

Definition key_gff_version : list N := [103; 102; 102; 45; 118; 101; 114; 115; 105; 111; 110].
Definition key_sequence_region : list N :=
  [115; 101; 113; 117; 101; 110; 99; 101; 45; 114; 101; 103; 105; 111; 110].
Definition key_genome_build : list N := [103; 101; 110; 111; 109; 101; 45; 98; 117; 105; 108; 100].

Definition version_text (major : N) (minor : option (N * option N)) : list N :=
  fmt_dec major ++
  match minor with
  | None => []
  | Some (mi, p) => 46 :: fmt_dec mi ++ match p with None => [] | Some pa => 46 :: fmt_dec pa end
  end.

(* the text after "##key " -- None = the writer's "invalid directive" (typed value under a key
   that is not its own) *)
Definition dvalue_text (key : list N) (v : dvalue) : option (list N) :=
  match v with
  | DString s => Some s
  | DVersion ma mi => if bytes_eqb key key_gff_version then Some (version_text ma mi) else None
  | DRegion nm s e =>
      if bytes_eqb key key_sequence_region then Some (nm ++ 32 :: fmt_dec s ++ 32 :: fmt_dec e) else None
  | DBuild src nm => if bytes_eqb key key_genome_build then Some (src ++ 32 :: nm) else None
  end.

(* write_directive (without the line feed) *)
Definition gff_write_directive (d : directive) : res (list N) :=
  match d_value d with
  | None => Ok (35 :: 35 :: d_key d)
  | Some v =>
      match dvalue_text (d_key d) v with
      | Some t => Ok (35 :: 35 :: d_key d ++ 32 :: t)
      | None => Err InvalidInput
      end
  end.

(* write_comment (without the line feed) *)
Definition gff_write_comment (s : list N) : list N := 35 :: s.
