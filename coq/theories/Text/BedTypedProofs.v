From Coq Require Import List NArith ZArith Bool Lia.
From NV Require Import Text.TextBase Text.TextBaseProofs Text.Bed Text.BedProofs Text.BedRec
  Text.BedRecProofs Text.BedTyped.
Import ListNotations.
Open Scope N_scope.

Lemma fmt_dec_printable : forall n, forallb is_printable (fmt_dec n) = true.
Proof.
  intro n. apply forallb_forall. intros c Hc. pose proof (fmt_dec_digits n) as Hd.
  rewrite Forall_forall in Hd. specialize (Hd c Hc). unfold is_printable.
  apply andb_true_iff. split; apply N.leb_le; lia.
Qed.

Lemma fmt_z_printable : forall z, forallb is_printable (fmt_z z) = true.
Proof.
  intro z. unfold fmt_z. destruct (z <? 0)%Z; [cbn [forallb]|]; rewrite fmt_dec_printable; reflexivity.
Qed.

(* the only hypothesis on the float oracle: Display of an f64 is printable ASCII *)
Definition float_texts_ok (fmt64 : N -> list N) (vs : list bed_value) : Prop :=
  forall b, In (BVFloat b) vs -> forallb is_printable (fmt64 b) = true.

Lemma typed_texts_printable : forall fmt64 vs, float_texts_ok fmt64 vs ->
  forallb bed_value_valid vs = true ->
  forallb (forallb is_printable) (map (bed_value_text fmt64) vs) = true.
Proof.
  induction vs as [|v t IH]; intros Hf Hv; [reflexivity|].
  cbn [forallb map] in *. apply andb_true_iff in Hv. destruct Hv as [Hv Ht].
  apply andb_true_iff. split.
  - destruct v as [z|n|b|c|s]; cbn [bed_value_text bed_value_valid] in *.
    + apply fmt_z_printable.
    + apply fmt_dec_printable.
    + apply Hf. left. reflexivity.
    + cbn [forallb]. now rewrite Hv.
    + exact Hv.
  - apply IH; [|exact Ht]. intros b Hb. apply Hf. right. exact Hb.
Qed.

(* writing typed other fields = writing their texts as strings *)
Theorem bed_write_typed_as_strings : forall fmt64 r vs line, float_texts_ok fmt64 vs ->
  bed_write_typed fmt64 r vs = Ok line ->
  bed_write (bed_with_others r (map (bed_value_text fmt64) vs)) = Ok line.
Proof.
  intros fmt64 r vs line Hf Hw. unfold bed_write_typed in Hw.
  destruct (bed_refname_valid (b_name r) &&
            (if Nat.leb 4 (b_n r) then match b_nm r with Some s => bed_name_valid s | None => true end else true) &&
            forallb bed_value_valid vs) eqn:E; [|discriminate].
  apply andb_true_iff in E. destruct E as [E Ev]. injection Hw as Hw. subst line.
  unfold bed_write, bed_accepts, bed_with_others. cbn [b_name b_n b_nm b_others].
  rewrite E, (typed_texts_printable fmt64 vs Hf Ev). reflexivity.
Qed.

(* typed extra columns: the record reads back with every extra column as the String of its
   text, in order (the reader has no types) *)
Theorem bed_typed_roundtrip : forall fmt64 r vs line rest old,
  bed_wf r -> float_texts_ok fmt64 vs -> bed_write_typed fmt64 r vs = Ok line ->
  length (bf_std old) = b_n r ->
  let o := bed_read_record (b_n r) (line ++ 10 :: rest) old in
  ro_res o = Ok (length line + 1)%nat /\ ro_src o = rest
  /\ bed_view_of (b_n r) (ro_rec o) = bed_expected_view (bed_with_others r (map (bed_value_text fmt64) vs)).
Proof.
  intros fmt64 r vs line rest old Hwf Hf Hw Hold.
  pose proof (bed_write_typed_as_strings fmt64 r vs line Hf Hw) as Hw'.
  set (r' := bed_with_others r (map (bed_value_text fmt64) vs)) in *.
  assert (Hwf' : bed_wf r') by exact Hwf.
  destruct (bed_record_roundtrip r' line rest old Hwf' Hw' Hold) as (H1 & H2 & H3 & _).
  repeat split; assumption.
Qed.
