(* Shared definitions of the text-format models of C18 (GFF3, GTF, BED): outcomes, field
   splitting as the `bounds.rs` indexers do it, line reading, decimal text.  Definitions only. *)
From Coq Require Import List NArith Bool Decimal DecimalN.
Import ListNotations.
Open Scope N_scope.

(* canonical image of io::ErrorKind *)
Inductive err := InvalidInput | InvalidData | UnexpectedEof | OutOfFuel.
Inductive res (A : Type) := Ok (a : A) | Err (e : err) | Panic.
Arguments Ok {A} a.
Arguments Err {A} e.
Arguments Panic {A}.

Fixpoint bytes_eqb (a b : list N) : bool :=
  match a, b with
  | [], [] => true
  | x :: a', y :: b' => (x =? y) && bytes_eqb a' b'
  | _, _ => false
  end.

Fixpoint mem (c : N) (s : list N) : bool :=
  match s with [] => false | b :: t => (b =? c) || mem c t end.

(* split at the first [sep] (record/attributes/field.rs::split_once, find_byte + slicing) *)
Fixpoint split_once (sep : N) (s : list N) : option (list N * list N) :=
  match s with
  | [] => None
  | b :: t =>
      if b =? sep then Some ([], t)
      else match split_once sep t with
           | Some (a, r) => Some (b :: a, r)
           | None => None
           end
  end.

(* n TAB-terminated required fields (Bounds::index: read_required_field n times), then the rest *)
Fixpoint take_fields (n : nat) (s : list N) : option (list (list N) * list N) :=
  match n with
  | O => Some ([], s)
  | S k =>
      match split_once 9 s with
      | None => None
      | Some (f, r) =>
          match take_fields k r with
          | None => None
          | Some (fs, r') => Some (f :: fs, r')
          end
      end
  end.

Definition tabbed (fs : list (list N)) : list N := flat_map (fun f => f ++ [9]) fs.

Fixpoint join (sep : N) (ps : list (list N)) : list N :=
  match ps with
  | [] => []
  | p :: rest => match rest with [] => p | _ => p ++ sep :: join sep rest end
  end.

(* slice::split(|b| b == sep): always at least one piece *)
Fixpoint split_all (sep : N) (s : list N) : list (list N) :=
  match s with
  | [] => [[]]
  | b :: t =>
      if b =? sep then [] :: split_all sep t
      else match split_all sep t with
           | p :: ps => (b :: p) :: ps
           | [] => [[b]]
           end
  end.

(* read_line: read_until(LF), drop the LF, then one trailing CR *)
Fixpoint take_until (sep : N) (s : list N) : list N :=
  match s with
  | [] => []
  | b :: t => if b =? sep then [] else b :: take_until sep t
  end.

Fixpoint strip_cr (s : list N) : list N :=
  match s with
  | [] => []
  | b :: t => match t with
              | [] => if b =? 13 then [] else [b]
              | _ => b :: strip_cr t
              end
  end.

Definition first_line (text : list N) : list N := strip_cr (take_until 10 text).

(* decimal text of a natural number, via the standard library's N.to_uint / N.of_uint *)
Fixpoint uint_bytes (u : uint) : list N :=
  match u with
  | Nil => []
  | D0 u => 48 :: uint_bytes u | D1 u => 49 :: uint_bytes u | D2 u => 50 :: uint_bytes u
  | D3 u => 51 :: uint_bytes u | D4 u => 52 :: uint_bytes u | D5 u => 53 :: uint_bytes u
  | D6 u => 54 :: uint_bytes u | D7 u => 55 :: uint_bytes u | D8 u => 56 :: uint_bytes u
  | D9 u => 57 :: uint_bytes u
  end.

Definition fmt_dec (n : N) : list N := uint_bytes (N.to_uint n).

Fixpoint bytes_uint (s : list N) : option uint :=
  match s with
  | [] => Some Nil
  | c :: t =>
      match bytes_uint t with
      | None => None
      | Some u =>
          if c =? 48 then Some (D0 u) else if c =? 49 then Some (D1 u)
          else if c =? 50 then Some (D2 u) else if c =? 51 then Some (D3 u)
          else if c =? 52 then Some (D4 u) else if c =? 53 then Some (D5 u)
          else if c =? 54 then Some (D6 u) else if c =? 55 then Some (D7 u)
          else if c =? 56 then Some (D8 u) else if c =? 57 then Some (D9 u)
          else None
      end
  end.

(* digits only, at least one (what lexical_core accepts of the writers' output) *)
Definition parse_dec (s : list N) : option N :=
  match s with
  | [] => None
  | _ => match bytes_uint s with Some u => Some (N.of_uint u) | None => None end
  end.

Definition u64_max : N := 18446744073709551615.

(* parse_position of gff/gtf fields.rs: usize, then Position::try_from (rejects 0) *)
Definition parse_pos (s : list N) : res N :=
  match parse_dec s with
  | None => Err InvalidData
  | Some n => if (n =? 0) || (u64_max <? n) then Err InvalidData else Ok n
  end.

(* GFF/GTF columns 6-8 *)
Inductive strand := SNone | SForward | SReverse | SUnknown.
Inductive phase := PZero | POne | PTwo.

(* attribute values of gff::feature::record_buf *)
Inductive value := VString (s : list N) | VArray (l : list (list N)).
Definition value_items (v : value) : list (list N) :=
  match v with VString s => [s] | VArray l => l end.

Record feature := {
  f_seqid : list N; f_source : list N; f_type : list N;
  f_start : N; f_end : N;
  f_score : option N;           (* f32 bit pattern *)
  f_strand : strand; f_phase : option phase;
  f_attrs : list (list N * value)
}.

(* what the lazy line views return, accessor by accessor *)
Record lazy_feature := {
  l_seqid : list N; l_source : list N; l_type : list N;
  l_start : res N; l_end : res N;
  l_score : option (res N);
  l_strand : res strand; l_phase : option (res phase);
  l_attrs : list (list N * value) * option (res unit)   (* items yielded, then how iteration ended abnormally *)
}.

(* RecordBuf::try_from_feature_record (feature/record_buf/convert.rs): the owned record is built
   from the lazy accessors, first error wins, in this order *)
Definition owned_of_lazy (l : lazy_feature) : res feature :=
  match l_start l with Err e => Err e | Panic => Panic | Ok st =>
  match l_end l with Err e => Err e | Panic => Panic | Ok en =>
  match (match l_score l with None => Ok None | Some (Ok x) => Ok (Some x) | Some (Err e) => Err e | Some Panic => Panic end) with
  | Err e => Err e | Panic => Panic | Ok sc =>
  match l_strand l with Err e => Err e | Panic => Panic | Ok sd =>
  match (match l_phase l with None => Ok None | Some (Ok x) => Ok (Some x) | Some (Err e) => Err e | Some Panic => Panic end) with
  | Err e => Err e | Panic => Panic | Ok ph =>
  match snd (l_attrs l) with
  | Some (Err e) => Err e
  | Some _ => Panic
  | None =>
      Ok {| f_seqid := l_seqid l; f_source := l_source l; f_type := l_type l;
            f_start := st; f_end := en; f_score := sc; f_strand := sd; f_phase := ph;
            f_attrs := fst (l_attrs l) |}
  end end end end end end.

Definition strand_text (s : strand) : list N :=
  match s with SNone => [46] | SForward => [43] | SReverse => [45] | SUnknown => [63] end.
Definition phase_text (p : option phase) : list N :=
  match p with None => [46] | Some PZero => [48] | Some POne => [49] | Some PTwo => [50] end.

Definition parse_phase (s : list N) : option (res phase) :=
  if bytes_eqb s [46] then None
  else if bytes_eqb s [48] then Some (Ok PZero)
  else if bytes_eqb s [49] then Some (Ok POne)
  else if bytes_eqb s [50] then Some (Ok PTwo)
  else Some (Err InvalidData).

(* the f32 text oracle pair: [prs] stands for lexical_core::parse::<f32> *)
Definition parse_score (prs : list N -> option N) (s : list N) : option (res N) :=
  if bytes_eqb s [46] then None
  else match prs s with Some x => Some (Ok x) | None => Some (Err InvalidData) end.

Definition score_text (fmt : N -> list N) (s : option N) : list N :=
  match s with None => [46] | Some x => fmt x end.
