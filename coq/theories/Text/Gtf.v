(* GTF record lines as noodles-gtf writes and reads them (model; definitions only).
   Writer: io/writer/line/record.rs and below (attributes: `key 'value';` joined by spaces, a
   multi-valued attribute repeats the key; value.rs escapes '\' and ''' with a backslash).
   Reader: record/fields/bounds.rs, record.rs, record/attributes.rs (parse_attributes,
   escape_decode/unescape_string), record/attributes/field.rs (parse_field).
   parse_string (after the repair 7a3d67e) ends a quoted value at the first UNESCAPED quote. *)
From Coq Require Import List NArith Bool.
From NV Require Import Text.TextBase.
Import ListNotations.
Open Scope N_scope.

(* write_value: the escaped and the plain branch produce the same bytes when nothing needs escaping *)
Definition gtf_escape (s : list N) : list N :=
  flat_map (fun c => if (c =? 92) || (c =? 34) then [92; c] else [c]) s.

Definition gtf_item_text (k x : list N) : list N := k ++ 32 :: 34 :: gtf_escape x ++ [34; 59].

Definition gtf_field_text (kv : list N * value) : list N :=
  join 32 (map (gtf_item_text (fst kv)) (value_items (snd kv))).

Definition gtf_attrs_text (a : list (list N * value)) : list N := join 32 (map gtf_field_text a).

Definition gtf_columns (fmt : N -> list N) (r : feature) : list (list N) :=
  [f_seqid r; f_source r; f_type r; fmt_dec (f_start r); fmt_dec (f_end r);
   score_text fmt (f_score r); strand_text (f_strand r); phase_text (f_phase r)].

Definition gtf_write (fmt : N -> list N) (r : feature) : res (list N) :=
  match f_strand r with
  | SUnknown => Err InvalidInput
  | _ => Ok (tabbed (gtf_columns fmt r) ++ gtf_attrs_text (f_attrs r))
  end.

(* ---- reading ---- *)

(* unescape_string; [esc] = State::Escape.  A trailing lone backslash is dropped silently. *)
Fixpoint gtf_unescape (esc : bool) (s : list N) : option (list N) :=
  match s with
  | [] => Some []
  | c :: t =>
      if esc then
        if (c =? 92) || (c =? 34)
        then match gtf_unescape false t with Some r => Some (c :: r) | None => None end
        else None
      else if c =? 92 then gtf_unescape true t
      else match gtf_unescape false t with Some r => Some (c :: r) | None => None end
  end.

Definition is_ascii_ws (b : N) : bool := mem b [32; 9; 10; 12; 13].

Fixpoint trim_start (s : list N) : list N :=
  match s with
  | b :: t => if is_ascii_ws b then trim_start t else s
  | [] => []
  end.

Definition consume_terminator (s : list N) : list N :=
  match trim_start s with
  | b :: t => if b =? 59 then trim_start t else b :: t
  | [] => []
  end.

(* parse_string: the closing quote is the first one that is not escaped; a backslash skips the
   following byte; running off the end (also right after a backslash) is InvalidData.
   [esc] = the byte is the one following a backslash. *)
Fixpoint split_quote (esc : bool) (s : list N) : option (list N * list N) :=
  match s with
  | [] => None
  | c :: t =>
      if esc then
        match split_quote false t with Some (a, r) => Some (c :: a, r) | None => None end
      else if c =? 34 then Some ([], t)
      else match split_quote (c =? 92) t with Some (a, r) => Some (c :: a, r) | None => None end
  end.

(* parse_field: (key, raw value, rest) *)
Definition gtf_parse_field (src : list N) : res (list N * list N * list N) :=
  match split_once 32 src with
  | None => Err InvalidData
  | Some (key, rest) =>
      match rest with
      | 34 :: rest' =>
          match split_quote false rest' with
          | None => Err InvalidData
          | Some (v, r) => Ok (key, v, consume_terminator r)
          end
      | _ =>
          match split_once 59 rest with
          | Some (v, r) => Ok (key, v, consume_terminator (59 :: r))
          | None => Ok (key, rest, [])
          end
      end
  end.

Definition value_push (v : value) (x : list N) : value :=
  match v with VString t => VArray [t; x] | VArray l => VArray (l ++ [x]) end.

(* IndexMap entry: first occurrence fixes the position, later ones are pushed *)
Fixpoint map_push (m : list (list N * value)) (k x : list N) : list (list N * value) :=
  match m with
  | [] => [(k, VString x)]
  | (k', v) :: rest =>
      if bytes_eqb k' k then (k', value_push v x) :: rest else (k', v) :: map_push rest k x
  end.

Fixpoint gtf_attrs_loop (fuel : nat) (src : list N) (m : list (list N * value))
  : res (list (list N * value)) :=
  match fuel with
  | O => Err OutOfFuel
  | S f =>
      match src with
      | [] => Ok m
      | _ =>
          match gtf_parse_field src with
          | Err e => Err e
          | Panic => Panic
          | Ok (k, raw, rest) =>
              match gtf_unescape false raw with
              | None => Err InvalidData
              | Some x => gtf_attrs_loop f rest (map_push m k x)
              end
          end
      end
  end.

Definition gtf_attrs_parse (col : list N) : res (list (list N * value)) :=
  gtf_attrs_loop (S (length col)) col [].

Definition gtf_parse_strand (s : list N) : res strand :=
  if bytes_eqb s [46] then Ok SNone
  else if bytes_eqb s [43] then Ok SForward
  else if bytes_eqb s [45] then Ok SReverse
  else Err InvalidData.

Inductive gtf_line_result := GNotRecord | GLineErr (e : err) | GRec (l : lazy_feature).

Definition gtf_lazy_of_columns (prs : list N -> option N) (cs : list (list N)) (c9 : list N) : gtf_line_result :=
  match cs with
  | [c1; c2; c3; c4; c5; c6; c7; c8] =>
      GRec {| l_seqid := c1; l_source := c2; l_type := c3;
              l_start := parse_pos c4; l_end := parse_pos c5;
              l_score := parse_score prs c6; l_strand := gtf_parse_strand c7;
              l_phase := parse_phase c8;
              l_attrs := match gtf_attrs_parse c9 with
                         | Ok m => (m, None)
                         | Err e => ([], Some (Err e))
                         | Panic => ([], Some Panic)
                         end |}
  | _ => GLineErr UnexpectedEof
  end.

Definition gtf_starts_with_hash (line : list N) : bool :=
  match line with b :: _ => b =? 35 | [] => false end.

Definition gtf_read (prs : list N -> option N) (text : list N) : gtf_line_result :=
  let line := first_line text in
  if gtf_starts_with_hash line then GNotRecord
  else match take_fields 8 line with
       | Some (cs, c9) => gtf_lazy_of_columns prs cs c9
       | None => GLineErr UnexpectedEof
       end.

(* the owning readers go through `impl feature::Record for gtf::Record`, whose attributes()
   returns a view that yields the parse error when a field is accessed (repaired in /repo
   f2d5d2d; before, it was `self.attributes().unwrap()`, a panic): the owned conversion fails
   with that error, after the other columns *)
Definition gtf_owned (l : lazy_feature) : res feature := owned_of_lazy l.

(* the (key, item) pairs in writing order *)
Definition gtf_pairs (a : list (list N * value)) : list (list N * list N) :=
  flat_map (fun kv => map (fun x => (fst kv, x)) (value_items (snd kv))) a.
