(* C18: the known class gff3-source-type-not-encoded made exact.  Whatever the GFF3 reader
   returns as source / type (of ANY text) is free of TAB and LF, so a record whose source or
   type holds one of them can never come back equal; together with gff_record_readback
   (source and type free of TAB/LF => they come back verbatim) this is an equivalence. *)
From Coq Require Import List NArith Bool Lia.
From NV Require Import Base.Percent Base.PercentProofs Text.TextBase Text.TextBaseProofs
  Text.Gff Text.GffProofs.
Import ListNotations.
Open Scope N_scope.

Lemma split_once_some : forall sep s a r, split_once sep s = Some (a, r) ->
  s = a ++ sep :: r /\ ~ In sep a.
Proof.
  intros sep s. induction s as [|b t IH]; intros a r H; [discriminate|].
  cbn [split_once] in H. destruct (b =? sep) eqn:Eb.
  - injection H as Ha Hr. subst a r. apply N.eqb_eq in Eb. subst b. split; [reflexivity|intros []].
  - destruct (split_once sep t) as [[a' r']|] eqn:Et; [|discriminate].
    injection H as Ha Hr. subst a r. destruct (IH a' r' eq_refl) as [Hs Hn]. subst t.
    split; [reflexivity|]. intros [E|Hin]; [|exact (Hn Hin)].
    apply N.eqb_neq in Eb. congruence.
Qed.

Lemma take_fields_some : forall n s fs r, take_fields n s = Some (fs, r) ->
  s = tabbed fs ++ r /\ Forall (fun f => ~ In 9 f) fs.
Proof.
  induction n as [|n IH]; intros s fs r H.
  - injection H as Hf Hr. subst fs r. split; [reflexivity|constructor].
  - cbn [take_fields] in H. destruct (split_once 9 s) as [[f r1]|] eqn:E1; [|discriminate].
    destruct (take_fields n r1) as [[fs' r']|] eqn:E2; [|discriminate].
    injection H as Hf Hr. subst fs r. destruct (split_once_some 9 s f r1 E1) as [Hs Hn].
    destruct (IH r1 fs' r' E2) as [Hs' Hn']. subst s r1. split.
    + unfold tabbed. cbn [flat_map]. rewrite <- !app_assoc. reflexivity.
    + constructor; assumption.
Qed.

Lemma take_until_no_sep : forall sep s, ~ In sep (take_until sep s).
Proof.
  intros sep s. induction s as [|b t IH]; [intros []|].
  cbn [take_until]. destruct (b =? sep) eqn:Eb; [intros []|].
  intros [E|Hin]; [apply N.eqb_neq in Eb; congruence|exact (IH Hin)].
Qed.

Lemma strip_cr_incl : forall s c, In c (strip_cr s) -> In c s.
Proof.
  induction s as [|b t IH]; intros c H; [exact H|].
  cbn [strip_cr] in H. destruct t as [|d t'].
  - destruct (b =? 13); [destruct H|exact H].
  - destruct H as [E|Hin]; [left; exact E|right; exact (IH c Hin)].
Qed.

Lemma first_line_no_lf : forall text, ~ In 10 (first_line text).
Proof.
  intros text H. unfold first_line in H. apply strip_cr_incl in H. exact (take_until_no_sep 10 text H).
Qed.

Lemma In_tabbed_field : forall c f fs, In f fs -> In c f -> In c (tabbed fs).
Proof.
  intros c f fs Hf Hc. unfold tabbed. apply in_flat_map. exists f. split; [exact Hf|].
  apply in_or_app. left. exact Hc.
Qed.

(* every column 1..8 the reader hands out, for ANY input text, is free of TAB and LF *)
Theorem gff_read_columns_clean : forall prs text l, gff_read prs text = Rec l ->
  (~ In 9 (l_seqid l) /\ ~ In 10 (l_seqid l))
  /\ (~ In 9 (l_source l) /\ ~ In 10 (l_source l))
  /\ (~ In 9 (l_type l) /\ ~ In 10 (l_type l)).
Proof.
  intros prs text l H. unfold gff_read, gff_parse_line in H.
  destruct (starts_with_hash (first_line text)); [discriminate|].
  destruct (take_fields 8 (first_line text)) as [[cs c9]|] eqn:E; [|discriminate].
  destruct (take_fields_some 8 _ cs c9 E) as [Hs Hn].
  pose proof (first_line_no_lf text) as Hlf. rewrite Hs in Hlf.
  unfold gff_lazy_of_columns in H.
  destruct cs as [|c1 [|c2 [|c3 [|c4 [|c5 [|c6 [|c7 [|c8 [|c9' cs']]]]]]]]]; try discriminate.
  injection H as H. subst l. cbn [l_seqid l_source l_type].
  assert (Hno : forall f, In f [c1; c2; c3; c4; c5; c6; c7; c8] -> ~ In 9 f /\ ~ In 10 f).
  { intros f Hf. split; [exact (proj1 (Forall_forall _ _) Hn f Hf)|].
    intro H10. apply Hlf. apply in_or_app. left. exact (In_tabbed_field 10 f _ Hf H10). }
  repeat split; apply Hno; cbn [In]; tauto.
Qed.

Definition source_type_plain (r : feature) : Prop :=
  (~ In 9 (f_source r) /\ ~ In 10 (f_source r)) /\ (~ In 9 (f_type r) /\ ~ In 10 (f_type r)).

(* the known class gff3-source-type-not-encoded, exact: for a record that is otherwise fine
   (everything gff_wf asks except the two clauses on source and type), source and type come back
   IF AND ONLY IF they are free of TAB and LF *)
Theorem gff_source_type_roundtrip_iff : forall fmt prs r line,
  bytes_ok (f_seqid r) -> 1 <= f_start r <= u64_max -> 1 <= f_end r <= u64_max ->
  (forall x, f_score r = Some x ->
     prs (fmt x) = Some x /\ ~ In 9 (fmt x) /\ ~ In 10 (fmt x) /\ fmt x <> [46]) ->
  Forall attr_ok (f_attrs r) ->
  gff_write fmt r = Ok line ->
  ((exists l, gff_read prs (line ++ [10]) = Rec l /\ l_source l = f_source r /\ l_type l = f_type r)
   <-> source_type_plain r).
Proof.
  intros fmt prs r line Hs Hst Hen Hsc Hat Hw. split.
  - intros (l & Hl & Hsrc & Hty). destruct (gff_read_columns_clean prs _ l Hl) as (_ & H2 & H3).
    rewrite Hsrc in H2. rewrite Hty in H3. unfold source_type_plain. tauto.
  - intros [H2 H3].
    assert (Hwf : gff_wf fmt prs r) by (unfold gff_wf; tauto).
    exists (gff_expected r). split; [exact (gff_record_readback fmt prs r line Hwf Hw)|].
    split; reflexivity.
Qed.
