(* Typed GFF3 directive values re-parsed from their text (model; definitions only):
   noodles-gff/src/directive_buf/value/gff_version.rs, sequence_region.rs, genome_build.rs
   (impl FromStr), noodles-core/src/position.rs (Position::from_str = NonZero<usize>::from_str),
   core::num (u32 / usize / NonZero<usize> from_str, radix 10).

   The reader keeps directive values as text (DirectiveBuf::from(Directive) builds
   Value::String); the typed values come back only through these FromStr impls.  The text is a
   &str in the code; the model works on its bytes (str::splitn on '.', and
   str::split_ascii_whitespace cut at ASCII bytes only, so they commute with the UTF-8 encoding). *)
From Coq Require Import List NArith Bool.
From NV Require Import Text.TextBase Text.GffLine.
Import ListNotations.
Open Scope N_scope.

(* core::num::IntErrorKind (the variants an unsigned / NonZero parse can return) *)
Inductive int_err := IEmpty | IInvalidDigit | IPosOverflow | IZero.

Inductive ires := IOk (n : N) | IErr (e : int_err).

(* the digit loop of from_str_radix: left to right, at each byte first `to_digit` (InvalidDigit),
   then checked_mul / checked_add (PosOverflow) *)
Fixpoint std_digits (max acc : N) (s : list N) : ires :=
  match s with
  | [] => IOk acc
  | c :: t =>
      if (48 <=? c) && (c <=? 57) then
        let acc' := acc * 10 + (c - 48) in
        if max <? acc' then IErr IPosOverflow else std_digits max acc' t
      else IErr IInvalidDigit
  end.

(* <unsigned>::from_str: "" = Empty; a lone sign = InvalidDigit; one leading '+' is dropped
   (a '-' is not, for an unsigned type: it is an invalid digit) *)
Definition std_parse_uint (max : N) (s : list N) : ires :=
  match s with
  | [] => IErr IEmpty
  | [c] => if (c =? 43) || (c =? 45) then IErr IInvalidDigit else std_digits max 0 s
  | c :: t => if c =? 43 then std_digits max 0 t else std_digits max 0 s
  end.

Definition u32_max : N := 4294967295.

(* NonZero<usize>::from_str: the usize parse, then Zero *)
Definition std_parse_nonzero (s : list N) : ires :=
  match std_parse_uint u64_max s with
  | IOk n => if n =? 0 then IErr IZero else IOk n
  | e => e
  end.

(* str::splitn(n, sep): at most n pieces, the last one unsplit *)
Fixpoint splitn (n : nat) (sep : N) (s : list N) : list (list N) :=
  match n with
  | O => []
  | S k =>
      match k with
      | O => [s]
      | _ => match split_once sep s with
             | None => [s]
             | Some (a, r) => a :: splitn k sep r
             end
      end
  end.

(* str::split_ascii_whitespace: the maximal runs of non-whitespace bytes.  Second component:
   does the text start inside a token *)
Fixpoint ws_tokens_aux (s : list N) : list (list N) * bool :=
  match s with
  | [] => ([], false)
  | b :: t =>
      let '(toks, inside) := ws_tokens_aux t in
      if is_ws b then (toks, false)
      else if inside then
        match toks with
        | x :: r => ((b :: x) :: r, true)
        | [] => ([[b]], true)
        end
      else ([b] :: toks, true)
  end.
Definition ws_tokens (s : list N) : list (list N) := fst (ws_tokens_aux s).

(* ---- GffVersion::from_str ---- *)
Inductive version_err :=
  | VEmpty | VInvalidMajor (e : int_err) | VInvalidMinor (e : int_err) | VInvalidPatch (e : int_err).

Inductive pres (A E : Type) := POk (a : A) | PErr (e : E).
Arguments POk {A E} a.
Arguments PErr {A E} e.

(* (major, minor, patch): the struct allows patch only ... the parser fills them left to right *)
Definition parse_gff_version (s : list N) : pres (N * option N * option N) version_err :=
  match s with
  | [] => PErr VEmpty
  | _ =>
      match splitn 3 46 s with
      | [] => PErr VEmpty                      (* unreachable: splitn yields at least one piece *)
      | a :: rest =>
          match std_parse_uint u32_max a with
          | IErr e => PErr (VInvalidMajor e)
          | IOk ma =>
              match rest with
              | [] => POk (ma, None, None)
              | b :: rest2 =>
                  match std_parse_uint u32_max b with
                  | IErr e => PErr (VInvalidMinor e)
                  | IOk mi =>
                      match rest2 with
                      | [] => POk (ma, Some mi, None)
                      | c :: _ =>
                          match std_parse_uint u32_max c with
                          | IErr e => PErr (VInvalidPatch e)
                          | IOk pa => POk (ma, Some mi, Some pa)
                          end
                      end
                  end
              end
          end
      end
  end.

(* ---- SequenceRegion::from_str ---- *)
Inductive region_err :=
  | REmpty | RMissingName | RMissingStart | RInvalidStart (e : int_err)
  | RMissingEnd | RInvalidEnd (e : int_err).

Definition parse_sequence_region (s : list N) : pres (list N * N * N) region_err :=
  match s with
  | [] => PErr REmpty
  | _ =>
      match ws_tokens s with
      | [] => PErr RMissingName
      | nm :: r1 =>
          match r1 with
          | [] => PErr RMissingStart
          | st :: r2 =>
              match std_parse_nonzero st with
              | IErr e => PErr (RInvalidStart e)
              | IOk a =>
                  match r2 with
                  | [] => PErr RMissingEnd
                  | en :: _ =>
                      match std_parse_nonzero en with
                      | IErr e => PErr (RInvalidEnd e)
                      | IOk b => POk (nm, a, b)
                      end
                  end
              end
          end
      end
  end.

(* ---- GenomeBuild::from_str ---- *)
Inductive build_err := BEmpty | BMissingSource | BMissingName.

Definition parse_genome_build (s : list N) : pres (list N * list N) build_err :=
  match s with
  | [] => PErr BEmpty
  | _ =>
      match ws_tokens s with
      | [] => PErr BMissingSource
      | src :: r1 =>
          match r1 with
          | [] => PErr BMissingName
          | nm :: _ => POk (src, nm)
          end
      end
  end.

(* ---- the typed value of a directive read back: the text value of the line re-parsed with the
   FromStr of the type that belongs to the key (what a caller does who wants the typed value) ---- *)
Inductive typed_back :=
  | TBNone                                      (* directive without value *)
  | TBVersion (r : pres (N * option N * option N) version_err)
  | TBRegion (r : pres (list N * N * N) region_err)
  | TBBuild (r : pres (list N * list N) build_err)
  | TBString (s : list N).

Definition reparse_value (key : list N) (v : option (list N)) : typed_back :=
  match v with
  | None => TBNone
  | Some t =>
      if bytes_eqb key key_gff_version then TBVersion (parse_gff_version t)
      else if bytes_eqb key key_sequence_region then TBRegion (parse_sequence_region t)
      else if bytes_eqb key key_genome_build then TBBuild (parse_genome_build t)
      else TBString t
  end.

(* what a written typed value is expected to come back as *)
Definition typed_of_dvalue (v : option dvalue) : typed_back :=
  match v with
  | None => TBNone
  | Some (DVersion ma None) => TBVersion (POk (ma, None, None))
  | Some (DVersion ma (Some (mi, p))) => TBVersion (POk (ma, Some mi, p))
  | Some (DRegion nm s e) => TBRegion (POk (nm, s, e))
  | Some (DBuild src nm) => TBBuild (POk (src, nm))
  | Some (DString s) => TBString s
  end.

(* write a directive, read the line back (first line of the text), re-parse its value *)
Definition directive_typed_readback (d : directive) : res (option typed_back) :=
  match gff_write_directive d with
  | Err e => Err e
  | Panic => Panic
  | Ok line =>
      match gff_classify (fun _ => None) (fst (gff_raw_line (line ++ [10]))) with
      | GDirective k v => Ok (Some (reparse_value k v))
      | _ => Ok None
      end
  end.

(* ---- repair switch for the known class gff3-directive-typed-value-blank-not-reparsed ----
   /tmp/C18/fixes/02-*.diff makes write_sequence_region / write_genome_build return InvalidInput
   for a name that is empty or contains an ASCII whitespace byte.  false = the code as it is
   (the writer copies the names verbatim); set to true when the repair is in /repo.  Every
   theorem holds for both values (a line that was written is a line gff_write_directive wrote). *)
Definition directive_blank_repaired : bool := false.

Definition bad_token (s : list N) : bool :=
  match s with [] => true | _ => existsb is_ws s end.

Definition dvalue_rejected (key : list N) (v : option dvalue) : bool :=
  match v with
  | Some (DRegion nm _ _) => bytes_eqb key key_sequence_region && bad_token nm
  | Some (DBuild src nm) => bytes_eqb key key_genome_build && (bad_token src || bad_token nm)
  | _ => false
  end.

Definition gff_write_directive_r (d : directive) : res (list N) :=
  if directive_blank_repaired && dvalue_rejected (d_key d) (d_value d) then Err InvalidInput
  else gff_write_directive d.
