(* Proofs about the record-level BED model (Text/BedRec.v). *)
From Coq Require Import List NArith Bool Lia Arith.
From NV Require Import Text.TextBase Text.TextBaseProofs Text.Bed Text.BedProofs Text.BedRec.
Import ListNotations.
Open Scope N_scope.

(* ---- read_field ---- *)
Lemma scan_field_app : forall f d rest, ~ In 9 f -> ~ In 10 f -> (d = 9 \/ d = 10) ->
  scan_field (f ++ d :: rest) = (f, Some d, rest).
Proof.
  induction f as [|b f IH]; intros d rest H9 H10 Hd.
  - cbn [app scan_field]. destruct Hd as [E|E]; subst d; reflexivity.
  - cbn [app scan_field].
    assert (Hb9 : b <> 9) by (intro E; apply H9; left; exact E).
    assert (Hb10 : b <> 10) by (intro E; apply H10; left; exact E).
    apply N.eqb_neq in Hb9. apply N.eqb_neq in Hb10. rewrite Hb9, Hb10. cbn [orb].
    rewrite IH; [reflexivity| | |exact Hd]; intro Hin; [apply H9|apply H10]; right; exact Hin.
Qed.

Lemma read_field_tab : forall f rest dst, ~ In 9 f -> ~ In 10 f ->
  read_field (f ++ 9 :: rest) dst = (dst ++ f, S (length f), false, rest).
Proof.
  intros f rest dst H9 H10. unfold read_field. rewrite scan_field_app by (auto). reflexivity.
Qed.

Lemma read_field_lf : forall f rest dst, ~ In 9 f -> ~ In 10 f ->
  read_field (f ++ 10 :: rest) dst = (dst ++ strip_cr f, S (length f), true, rest).
Proof.
  intros f rest dst H9 H10. unfold read_field. rewrite scan_field_app by (auto). reflexivity.
Qed.

Lemma scan_field_len : forall src f d r, scan_field src = (f, d, r) ->
  match d with
  | None => r = [] /\ length f = length src
  | Some _ => length src = S (length f + length r)
  end.
Proof.
  induction src as [|b t IH]; intros f d r H.
  - cbn in H. injection H as Hf Hd Hr. subst. split; reflexivity.
  - cbn [scan_field] in H. destruct ((b =? 9) || (b =? 10)).
    + injection H as Hf Hd Hr. subst. reflexivity.
    + destruct (scan_field t) as [[f' d'] r'] eqn:E. injection H as Hf Hd Hr. subst f d r.
      specialize (IH f' d' r' eq_refl). destruct d'; cbn [length].
      * lia.
      * destruct IH as [Hr Hl]. split; [exact Hr|lia].
Qed.

(* ---- bounds ---- *)
Fixpoint cum_ends (base : nat) (fs : list (list N)) : list nat :=
  match fs with
  | [] => []
  | f :: t => (base + length f)%nat :: cum_ends (base + length f) t
  end.

Lemma cum_ends_length : forall fs base, length (cum_ends base fs) = length fs.
Proof. induction fs as [|f t IH]; intro base; cbn [cum_ends length]; [reflexivity|now rewrite IH]. Qed.

Lemma cum_ends_app : forall a b base,
  cum_ends base (a ++ b) = cum_ends base a ++ cum_ends (base + length (concat a)) b.
Proof.
  induction a as [|f t IH]; intros b base; cbn [app cum_ends concat length].
  - now rewrite Nat.add_0_r.
  - rewrite IH. rewrite app_length. now rewrite Nat.add_assoc.
Qed.

Lemma nth_error_cum_ends : forall fs base i, (i < length fs)%nat ->
  nth_error (cum_ends base fs) i = Some (base + length (concat (firstn (S i) fs)))%nat.
Proof.
  induction fs as [|f t IH]; intros base i Hi; cbn [length] in Hi; [lia|].
  destruct i as [|i].
  - cbn. now rewrite app_nil_r.
  - cbn [cum_ends nth_error]. rewrite IH by lia. cbn [firstn concat]. rewrite app_length.
    f_equal. cbn [firstn]. lia.
Qed.

Lemma nth_cum_ends : forall fs base i d, (i < length fs)%nat ->
  nth i (cum_ends base fs) d = (base + length (concat (firstn (S i) fs)))%nat.
Proof.
  intros fs base i d Hi. apply nth_error_nth. now apply nth_error_cum_ends.
Qed.

Lemma concat_split_nth : forall (fs : list (list N)) i, (i < length fs)%nat ->
  concat fs = concat (firstn i fs) ++ nth i fs [] ++ concat (skipn (S i) fs).
Proof.
  induction fs as [|f t IH]; intros i Hi; cbn [length] in Hi; [lia|].
  destruct i as [|i]; [reflexivity|].
  cbn [firstn nth skipn concat]. rewrite (IH i) at 1 by lia. now rewrite app_assoc.
Qed.

Lemma concat_firstn_S : forall (fs : list (list N)) i, (i < length fs)%nat ->
  concat (firstn (S i) fs) = concat (firstn i fs) ++ nth i fs [].
Proof.
  induction fs as [|f t IH]; intros i Hi; cbn [length] in Hi; [lia|].
  destruct i as [|i]; [cbn; now rewrite app_nil_r|].
  rewrite !firstn_cons. cbn [nth concat]. rewrite IH by lia. now rewrite app_assoc.
Qed.

Lemma slice_mid : forall pre m post, slice (pre ++ m ++ post) (length pre) (length pre + length m) = Ok m.
Proof.
  intros pre m post. unfold slice.
  assert (H1 : Nat.leb (length pre) (length pre + length m) = true) by (apply Nat.leb_le; lia).
  assert (H2 : Nat.leb (length pre + length m) (length (pre ++ m ++ post)) = true)
    by (apply Nat.leb_le; rewrite !app_length; lia).
  rewrite H1, H2. cbn [andb]. f_equal.
  rewrite skipn_app, skipn_all, Nat.sub_diag. cbn [skipn app].
  replace (length pre + length m - length pre)%nat with (length m) by lia.
  rewrite firstn_app, firstn_all, Nat.sub_diag. cbn [firstn]. now rewrite app_nil_r.
Qed.

(* the i-th of the fields laid out one after the other *)
Lemma field_slice : forall cols i, (i < length cols)%nat ->
  slice (concat cols) (length (concat (firstn i cols))) (length (concat (firstn (S i) cols)))
  = Ok (nth i cols []).
Proof.
  intros cols i Hi. rewrite (concat_split_nth cols i Hi) at 1.
  rewrite (concat_firstn_S cols i Hi), app_length. apply slice_mid.
Qed.

(* ---- read_required / read_others on written text ---- *)
Definition nodelim (f : list N) : Prop := ~ In 9 f /\ ~ In 10 f.

Lemma read_required_tabbed : forall fs rest dst ends len, Forall nodelim fs ->
  read_required (length fs) (tabbed fs ++ rest) dst ends len =
    (true, rest, dst ++ concat fs, ends ++ cum_ends (length dst) fs, (len + length (tabbed fs))%nat).
Proof.
  induction fs as [|f t IH]; intros rest dst ends len Hc.
  - cbn. now rewrite !app_nil_r, Nat.add_0_r.
  - inversion Hc as [|f' t' [H9 H10] Ht]; subst.
    change (tabbed (f :: t)) with ((f ++ [9]) ++ tabbed t).
    rewrite <- !app_assoc. cbn [app length read_required].
    rewrite read_field_tab by assumption. rewrite IH by assumption.
    rewrite app_length. cbn [cum_ends concat].
    rewrite <- !app_assoc. cbn [app]. rewrite !app_length. cbn [length].
    repeat (f_equal; try lia).
Qed.

Lemma read_others_joined : forall os rest dst oth len fuel,
  os <> [] -> Forall nodelim os -> ~ In 13 (dst ++ concat os) -> (length os <= fuel)%nat ->
  read_others fuel (join 9 os ++ 10 :: rest) dst oth len =
    Some (rest, dst ++ concat os, oth ++ cum_ends (length dst) os, (len + length (join 9 os) + 1)%nat).
Proof.
  induction os as [|o t IH]; intros rest dst oth len fuel Hne Hc H13 Hf; [congruence|].
  inversion Hc as [|o' t' [H9 H10] Ht]; subst.
  destruct fuel as [|fuel]; [cbn [length] in Hf; lia|].
  destruct t as [|o2 t2].
  - cbn [join read_others]. rewrite read_field_lf by assumption.
    cbn [concat] in H13. rewrite app_nil_r in H13.
    cbn [Nat.eqb concat cum_ends]. rewrite app_nil_r.
    rewrite strip_cr_no13 by (intro Hin; apply H13; apply in_or_app; right; exact Hin). rewrite app_length. repeat (f_equal; try lia).
  - rewrite join_cons2. rewrite <- app_assoc. cbn [app read_others].
    rewrite read_field_tab by assumption. cbn [Nat.eqb].
    rewrite IH.
    + cbn [cum_ends concat]. rewrite <- !app_assoc. cbn [app]. rewrite ?app_length. cbn [length].
      rewrite ?app_length. cbn [length]. repeat (f_equal; try lia).
    + discriminate.
    + exact Ht.
    + cbn [concat] in H13. now rewrite <- app_assoc.
    + cbn [length] in *. lia.
Qed.

Lemma join_tabbed : forall a b, b <> [] -> join 9 (a ++ b) = tabbed a ++ join 9 b.
Proof.
  induction a as [|f t IH]; intros b Hb; [reflexivity|].
  cbn [app]. destruct (t ++ b) as [|x y] eqn:E.
  - destruct t; [cbn in E; congruence|discriminate].
  - rewrite join_cons2, <- E, IH by exact Hb.
    change (tabbed (f :: t)) with ((f ++ [9]) ++ tabbed t). now rewrite <- !app_assoc.
Qed.

Lemma length_join_ge : forall os, (length os <= S (length (join 9 os)))%nat.
Proof.
  induction os as [|o t IH]; [cbn; lia|].
  destruct t as [|o2 t2]; [cbn; lia|].
  rewrite join_cons2, app_length. cbn [length] in *. lia.
Qed.

Lemma skip_comments_word : forall c t, c <> 35 -> skip_comments (c :: t) = c :: t.
Proof. intros c t H. unfold skip_comments. cbn. apply N.eqb_neq in H. now rewrite H. Qed.

Lemma no13_concat : forall fs, Forall clean fs -> ~ In 13 (concat fs).
Proof.
  induction fs as [|f t IH]; intros H Hin; [exact Hin|].
  inversion H as [|f' t' (_ & _ & H13) Ht]; subst. cbn [concat] in Hin.
  apply in_app_or in Hin. destruct Hin; [now apply H13|now apply IH].
Qed.

Lemma clean_nodelim : forall fs, Forall clean fs -> Forall nodelim fs.
Proof. intros fs H. eapply Forall_impl; [|exact H]. intros f (H9 & H10 & _). split; assumption. Qed.

(* the record a written line leaves in the caller's record, whatever it held before *)
Definition rec_of_cols (stdcols others : list (list N)) : bed_fields :=
  {| bf_buf := concat (stdcols ++ others);
     bf_std := cum_ends 0 stdcols;
     bf_oth := cum_ends (length (concat stdcols)) others |}.

Lemma read_record_cols : forall stdcols others rest old c name0,
  stdcols <> [] -> hd [] stdcols = c :: name0 -> c <> 35 ->
  Forall clean (stdcols ++ others) -> length (bf_std old) = length stdcols ->
  bed_read_record (length stdcols) (join 9 (stdcols ++ others) ++ 10 :: rest) old =
    {| ro_res := Ok (length (join 9 (stdcols ++ others)) + 1)%nat; ro_src := rest;
       ro_rec := rec_of_cols stdcols others |}.
Proof.
  intros stdcols others rest old c name0 Hne Hhd Hc Hclean Hold.
  destruct (exists_last Hne) as (req & lastf & Estd). subst stdcols.
  assert (Hlen : length (req ++ [lastf]) = S (length req)) by (rewrite app_length; cbn; lia).
  pose proof (clean_nodelim _ Hclean) as Hnd.
  pose proof (no13_concat _ Hclean) as H13.
  rewrite <- app_assoc in *. cbn [app] in *.
  apply Forall_app in Hnd. destruct Hnd as [Hreq Hrest].
  inversion Hrest as [|x y [L9 L10] Hoth]; subst x y.
  unfold bed_read_record. rewrite Hlen at 1. cbn [Nat.sub]. rewrite Nat.sub_0_r.
  assert (Hskip : skip_comments (join 9 (req ++ lastf :: others) ++ 10 :: rest)
                  = join 9 (req ++ lastf :: others) ++ 10 :: rest).
  { destruct req as [|r0 rq].
    - cbn [app hd] in Hhd. subst lastf. destruct others; cbn [app join]; now apply skip_comments_word.
    - cbn [app hd] in Hhd. subst r0. cbn [app].
      destruct (rq ++ lastf :: others) eqn:E; [destruct rq; discriminate|].
      rewrite join_cons2. cbn [app]. now apply skip_comments_word. }
  rewrite Hskip. rewrite join_tabbed by discriminate. rewrite <- app_assoc.
  rewrite read_required_tabbed by exact Hreq. cbn [negb app length].
  unfold rec_of_cols.
  assert (Hmerge : forall e, length e = S (length req) -> e ++ skipn (length e) (bf_std old) = e).
  { intros e He. rewrite skipn_all2; [now rewrite app_nil_r|]. rewrite Hold, Hlen, He. lia. }
  destruct others as [|o os].
  - cbn [join]. rewrite read_field_lf by assumption. cbn [concat app] in *.
    rewrite concat_app in *. cbn [concat] in *. rewrite app_nil_r in *.
    rewrite strip_cr_no13 by (intro Hin; apply H13; apply in_or_app; right; exact Hin).
    rewrite Hmerge by (rewrite app_length, cum_ends_length; cbn; lia).
    rewrite cum_ends_app. cbn [cum_ends length]. rewrite app_length, !Nat.add_0_l.
    f_equal; [f_equal; rewrite ?app_length; cbn [length]; lia
             |f_equal; rewrite ?concat_app; cbn [concat]; now rewrite ?app_nil_r].
  - rewrite join_cons2, <- app_assoc. cbn [app]. rewrite read_field_tab by assumption.
    rewrite read_others_joined.
    + rewrite Hmerge by (rewrite app_length, cum_ends_length; cbn; lia).
      rewrite !concat_app. cbn [concat]. rewrite app_nil_r, <- !app_assoc.
      rewrite cum_ends_app. cbn [cum_ends length app]. rewrite !app_length, !Nat.add_0_l.
      f_equal. f_equal. cbn [length]. lia.
    + discriminate.
    + exact Hoth.
    + rewrite concat_app in H13. cbn [concat] in H13. now rewrite <- app_assoc.
    + pose proof (length_join_ge (o :: os)) as Hj. rewrite app_length. cbn [length] in *. lia.
Qed.

(* ---- accessors on that record ---- *)
Lemma std_field_cols : forall stdcols others i, (i < length stdcols)%nat ->
  std_field (rec_of_cols stdcols others) i = Ok (nth i stdcols []).
Proof.
  intros stdcols others i Hi. unfold std_field, rec_of_cols. cbn [bf_buf bf_std].
  assert (Hall : (i < length (stdcols ++ others))%nat) by (rewrite app_length; lia).
  assert (Hfn : forall k, (k <= length stdcols)%nat -> firstn k (stdcols ++ others) = firstn k stdcols).
  { intros k Hk. rewrite firstn_app. replace (k - length stdcols)%nat with 0%nat by lia.
    cbn [firstn]. now rewrite app_nil_r. }
  rewrite (nth_cum_ends stdcols 0 i 0 Hi). cbn [Nat.add].
  replace (match i with 0%nat => 0%nat | S j => nth j (cum_ends 0 stdcols) 0%nat end)
    with (length (concat (firstn i stdcols))).
  - rewrite <- (Hfn i) by lia. rewrite <- (Hfn (S i)) by lia.
    rewrite field_slice by exact Hall. f_equal. now rewrite app_nth1.
  - destruct i as [|j]; [reflexivity|]. rewrite nth_cum_ends by lia. reflexivity.
Qed.

Lemma skipn_nth_cons : forall (l : list (list N)) i, (i < length l)%nat ->
  skipn i l = nth i l [] :: skipn (S i) l.
Proof.
  induction l as [|x t IH]; intros i Hi; cbn [length] in Hi; [lia|].
  destruct i as [|i]; [reflexivity|]. cbn [skipn nth]. apply IH. lia.
Qed.

Lemma oth_get_cols : forall stdcols others i, stdcols <> [] -> (i < length others)%nat ->
  oth_get (length stdcols) (rec_of_cols stdcols others) i = Some (Ok (nth i others [])).
Proof.
  intros stdcols others i Hne Hi. unfold oth_get, rec_of_cols. cbn [bf_buf bf_std bf_oth].
  rewrite nth_error_cum_ends by exact Hi. f_equal.
  set (base := length (concat stdcols)).
  assert (Hstart : (match i with
                    | 0%nat => nth (length stdcols - 1) (cum_ends 0 stdcols) 0%nat
                    | S j => match nth_error (cum_ends base others) j with
                             | Some s => s
                             | None => nth (length stdcols - 1) (cum_ends 0 stdcols) 0%nat
                             end
                    end) = (base + length (concat (firstn i others)))%nat).
  { destruct i as [|j].
    - assert (Hl : (length stdcols - 1 < length stdcols)%nat) by (destruct stdcols; [congruence|cbn; lia]).
      rewrite nth_cum_ends by exact Hl.
      replace (S (length stdcols - 1)) with (length stdcols) by lia.
      rewrite firstn_all. cbn. unfold base. lia.
    - rewrite nth_error_cum_ends by lia. reflexivity. }
  rewrite Hstart. rewrite concat_app.
  rewrite (concat_split_nth others i Hi) at 1.
  rewrite (concat_firstn_S others i Hi), app_length.
  rewrite app_assoc. unfold base.
  replace (length (concat stdcols) + length (concat (firstn i others)))%nat
    with (length (concat stdcols ++ concat (firstn i others))) by (now rewrite app_length).
  replace (length (concat stdcols) + (length (concat (firstn i others)) + length (nth i others [])))%nat
    with (length (concat stdcols ++ concat (firstn i others)) + length (nth i others []))%nat
    by (rewrite app_length; lia).
  apply slice_mid.
Qed.

Lemma oth_get_cols_none : forall stdcols others i, (length others <= i)%nat ->
  oth_get (length stdcols) (rec_of_cols stdcols others) i = None.
Proof.
  intros stdcols others i Hi. unfold oth_get, rec_of_cols. cbn [bf_oth].
  assert (H : nth_error (cum_ends (length (concat stdcols)) others) i = None)
    by (apply nth_error_None; now rewrite cum_ends_length).
  now rewrite H.
Qed.

Lemma oth_iter_cols : forall stdcols others k i, stdcols <> [] -> (i + k = length others)%nat ->
  oth_iter k (length stdcols) (rec_of_cols stdcols others) i = Ok (skipn i others).
Proof.
  intros stdcols others k. induction k as [|k IH]; intros i Hne Hik.
  - cbn [oth_iter]. rewrite skipn_all2 by lia. reflexivity.
  - cbn [oth_iter]. rewrite oth_get_cols by (auto; lia). rewrite IH by (auto; lia).
    now rewrite <- skipn_nth_cons by lia.
Qed.

(* ---- the record-level round trip ---- *)
Definition bed_wf (r : bed) : Prop :=
  (3 <= b_n r <= 6)%nat /\ 1 <= b_start r <= u64_max
  /\ (forall x, b_end r = Some x -> 1 <= x <= u64_max)
  /\ ((4 <= b_n r)%nat -> b_nm r <> Some [46])
  /\ ((5 <= b_n r)%nat -> b_score r <= 65535).

Lemma bed_std_columns_length : forall r, (3 <= b_n r <= 6)%nat -> length (bed_std_columns r) = b_n r.
Proof.
  intros r H. unfold bed_std_columns. rewrite !app_length. cbn [length].
  destruct (Nat.leb 4 (b_n r)) eqn:E4; destruct (Nat.leb 5 (b_n r)) eqn:E5;
    destruct (Nat.leb 6 (b_n r)) eqn:E6; cbn [length];
    try apply Nat.leb_le in E4; try apply Nat.leb_le in E5; try apply Nat.leb_le in E6;
    try apply Nat.leb_gt in E4; try apply Nat.leb_gt in E5; try apply Nat.leb_gt in E6; lia.
Qed.

Lemma bed_refname_head : forall r, bed_accepts r = true ->
  exists c t, b_name r = c :: t /\ c <> 35.
Proof.
  intros r H. unfold bed_accepts in H. apply andb_true_iff in H. destruct H as [H _].
  apply andb_true_iff in H. destruct H as [H _]. unfold bed_refname_valid in H.
  apply andb_true_iff in H. destruct H as [Hl Hw].
  destruct (b_name r) as [|c t]; [discriminate|]. exists c, t. split; [reflexivity|].
  cbn [forallb] in Hw. apply andb_true_iff in Hw. destruct Hw as [Hc _].
  intro E. subst c. discriminate.
Qed.

Theorem bed_record_read : forall r line rest old,
  (3 <= b_n r <= 6)%nat -> bed_write r = Ok line -> length (bf_std old) = b_n r ->
  bed_read_record (b_n r) (line ++ 10 :: rest) old =
    {| ro_res := Ok (length line + 1)%nat; ro_src := rest;
       ro_rec := rec_of_cols (bed_std_columns r) (b_others r) |}.
Proof.
  intros r line rest old Hn Hw Hold. unfold bed_write in Hw.
  destruct (bed_accepts r) eqn:Ha; [|discriminate]. injection Hw as Hw. subst line.
  destruct (bed_refname_head r Ha) as (c & t & Ename & Hc).
  pose proof (read_record_cols (bed_std_columns r) (b_others r) rest old c t) as H.
  rewrite (bed_std_columns_length r Hn) in H. apply H.
  - unfold bed_std_columns. discriminate.
  - unfold bed_std_columns. cbn [app hd]. exact Ename.
  - exact Hc.
  - now apply bed_columns_clean.
  - exact Hold.
Qed.

Lemma view_end_roundtrip : forall e, (forall x, e = Some x -> 1 <= x <= u64_max) ->
  view_end (match e with Some x => fmt_dec x | None => [48] end) = Ok e.
Proof.
  intros e H. unfold view_end. rewrite bed_end_roundtrip by exact H. destruct e; reflexivity.
Qed.

Theorem bed_view_roundtrip : forall r, bed_wf r ->
  bed_view_of (b_n r) (rec_of_cols (bed_std_columns r) (b_others r)) = bed_expected_view r.
Proof.
  intros r (Hn & Hs & He & Hnm & Hsc).
  pose proof (bed_std_columns_length r Hn) as Hlen.
  assert (Hne : bed_std_columns r <> []) by (unfold bed_std_columns; discriminate).
  unfold bed_view_of, bed_expected_view.
  assert (Hoth : oth_iter (length (bf_oth (rec_of_cols (bed_std_columns r) (b_others r))))
                   (length (bed_std_columns r))
                   (rec_of_cols (bed_std_columns r) (b_others r)) 0 = Ok (b_others r)).
  { rewrite oth_iter_cols; [reflexivity|exact Hne|].
    unfold rec_of_cols. cbn [bf_oth]. now rewrite cum_ends_length. }
  rewrite Hlen in Hoth.
  rewrite Hoth.
  rewrite !std_field_cols by lia.
  assert (H0 : nth 0 (bed_std_columns r) [] = b_name r) by reflexivity.
  assert (H1 : nth 1 (bed_std_columns r) [] = fmt_dec (b_start r - 1)) by reflexivity.
  assert (H2 : nth 2 (bed_std_columns r) [] = match b_end r with Some e => fmt_dec e | None => [48] end)
    by reflexivity.
  rewrite H0, H1, H2. cbn [res_bind res_map].
  rewrite bed_start_roundtrip by exact Hs. rewrite view_end_roundtrip by exact He.
  destruct (Nat.leb 4 (b_n r)) eqn:E4.
  - apply Nat.leb_le in E4.
    assert (H3 : nth 3 (bed_std_columns r) [] = match b_nm r with Some s => s | None => [46] end).
    { unfold bed_std_columns. apply Nat.leb_le in E4. rewrite E4. reflexivity. }
    rewrite std_field_cols by lia. rewrite H3. cbn [res_map].
    rewrite bed_name_roundtrip by (apply Hnm; exact E4).
    destruct (Nat.leb 5 (b_n r)) eqn:E5.
    + apply Nat.leb_le in E5.
      assert (H4 : nth 4 (bed_std_columns r) [] = fmt_dec (b_score r)).
      { unfold bed_std_columns. apply Nat.leb_le in E4. apply Nat.leb_le in E5. rewrite E4, E5. reflexivity. }
      rewrite std_field_cols by lia. rewrite H4. cbn [res_bind].
      rewrite bed_score_roundtrip by (apply Hsc; exact E5).
      destruct (Nat.leb 6 (b_n r)) eqn:E6; [|reflexivity].
      apply Nat.leb_le in E6.
      assert (H5 : nth 5 (bed_std_columns r) [] = bed_strand_text (b_strand r)).
      { unfold bed_std_columns. apply Nat.leb_le in E4. apply Nat.leb_le in E5. apply Nat.leb_le in E6.
        rewrite E4, E5, E6. reflexivity. }
      rewrite std_field_cols by lia. rewrite H5. cbn [res_bind].
      now rewrite bed_strand_roundtrip.
    + apply Nat.leb_gt in E5.
      destruct (Nat.leb 6 (b_n r)) eqn:E6; [apply Nat.leb_le in E6; lia|reflexivity].
  - apply Nat.leb_gt in E4.
    destruct (Nat.leb 5 (b_n r)) eqn:E5; [apply Nat.leb_le in E5; lia|].
    destruct (Nat.leb 6 (b_n r)) eqn:E6; [apply Nat.leb_le in E6; lia|reflexivity].
Qed.

Theorem bed_owned_expected : forall r, bed_owned (b_n r) (bed_expected_view r) = Ok (bed_canon r).
Proof.
  intro r. unfold bed_owned, bed_expected_view, bed_canon. cbn [bv_name bv_start bv_end bv_nm bv_score bv_strand bv_others res_bind].
  destruct (Nat.leb 4 (b_n r)), (Nat.leb 5 (b_n r)), (Nat.leb 6 (b_n r)); reflexivity.
Qed.

(* the full record-level statement: one written line, read into ANY record of the right N *)
Theorem bed_record_roundtrip : forall r line rest old,
  bed_wf r -> bed_write r = Ok line -> length (bf_std old) = b_n r ->
  let o := bed_read_record (b_n r) (line ++ 10 :: rest) old in
  ro_res o = Ok (length line + 1)%nat /\ ro_src o = rest
  /\ bed_view_of (b_n r) (ro_rec o) = bed_expected_view r
  /\ bed_owned (b_n r) (bed_view_of (b_n r) (ro_rec o)) = Ok (bed_canon r).
Proof.
  intros r line rest old Hwf Hw Hold.
  pose proof Hwf as (Hn & _).
  rewrite (bed_record_read r line rest old Hn Hw Hold). cbn [ro_res ro_src ro_rec].
  rewrite (bed_view_roundtrip r Hwf). repeat split. apply bed_owned_expected.
Qed.

(* ---- reading into a reused record depends only on the text ---- *)
Lemma read_required_len : forall k src dst ends len s d e l,
  read_required k src dst ends len = (true, s, d, e, l) -> length e = (length ends + k)%nat.
Proof.
  induction k as [|k IH]; intros src dst ends len s d e l H.
  - cbn in H. injection H as _ _ He _. subst. lia.
  - cbn [read_required] in H. destruct (read_field src dst) as [[[dst1 n1] eol] src1].
    destruct eol; [discriminate|]. apply IH in H. rewrite app_length in H. cbn [length] in H. lia.
Qed.

Theorem bed_reused_record_independent : forall n src r1 r2,
  (1 <= n)%nat -> length (bf_std r1) = n -> length (bf_std r2) = n ->
  let o1 := bed_read_record n src r1 in
  let o2 := bed_read_record n src r2 in
  ro_res o1 = ro_res o2 /\ ro_src o1 = ro_src o2
  /\ (forall k, ro_res o1 = Ok k -> ro_rec o1 = ro_rec o2).
Proof.
  intros n src r1 r2 Hn H1 H2. unfold bed_read_record.
  destruct (read_required (n - 1) (skip_comments src) [] [] 0) as [[[[ok src1] dst1] ends] len] eqn:Er.
  destruct ok; cbn [negb].
  - apply read_required_len in Er. cbn [length] in Er.
    destruct (read_field src1 dst1) as [[[dst2 n2] eol] src2].
    assert (Hm : forall old, length (bf_std old) = n ->
              (ends ++ [length dst2]) ++ skipn (length (ends ++ [length dst2])) (bf_std old) = ends ++ [length dst2]).
    { intros old Ho. rewrite skipn_all2; [now rewrite app_nil_r|].
      rewrite app_length. cbn [length]. lia. }
    rewrite (Hm r1 H1), (Hm r2 H2).
    destruct eol.
    + cbn [ro_res ro_src ro_rec]. repeat split.
    + destruct (read_others (S (length src2)) src2 dst2 [] (len + n2)) as [[[[src3 dst3] oth] len3]|];
        cbn [ro_res ro_src ro_rec]; repeat split.
  - cbn [ro_res ro_src ro_rec]. repeat split. intros k Hk. discriminate.
Qed.

(* after a FAILED read the record does depend on what it held before (the ends not reached keep
   their old values): not a round-trip matter, recorded for exactness *)
Theorem bed_reused_record_stale_after_error : exists src r1 r2,
  length (bf_std r1) = 3%nat /\ length (bf_std r2) = 3%nat /\
  ro_res (bed_read_record 3 src r1) = Err InvalidData /\
  ro_rec (bed_read_record 3 src r1) <> ro_rec (bed_read_record 3 src r2).
Proof.
  exists [10], (bed_default 3), {| bf_buf := []; bf_std := [0; 0; 0]%nat; bf_oth := [] |}.
  vm_compute. repeat split. discriminate.
Qed.

(* the fuel of read_other_fields is always enough *)
Lemma read_others_fuel : forall fuel src dst oth len, (length src < fuel)%nat ->
  read_others fuel src dst oth len <> None.
Proof.
  induction fuel as [|fuel IH]; intros src dst oth len Hf; [lia|].
  cbn [read_others]. unfold read_field.
  destruct (scan_field src) as [[f d] r] eqn:Es. pose proof (scan_field_len _ _ _ _ Es) as Hl.
  destruct d as [c|].
  - cbn [Nat.eqb]. destruct (c =? 10); [discriminate|]. apply IH. lia.
  - destruct Hl as [Hr Hl]. subst r. destruct (Nat.eqb (length f) 0) eqn:E0; [discriminate|].
    destruct fuel as [|fuel']; [cbn [length] in *; apply Nat.eqb_neq in E0; lia|].
    cbn [read_others read_field scan_field length Nat.eqb]. discriminate.
Qed.

Theorem bed_read_never_out_of_fuel : forall n src old,
  ro_res (bed_read_record n src old) <> Err OutOfFuel.
Proof.
  intros n src old. unfold bed_read_record.
  destruct (read_required (n - 1) (skip_comments src) [] [] 0) as [[[[ok src1] dst1] ends] len].
  destruct ok; cbn [negb ro_res]; [|discriminate].
  destruct (read_field src1 dst1) as [[[dst2 n2] eol] src2].
  destruct eol; cbn [ro_res]; [discriminate|].
  destruct (read_others (S (length src2)) src2 dst2 [] (len + n2)) as [[[[src3 dst3] oth] len3]|] eqn:E;
    cbn [ro_res]; [discriminate|].
  exfalso. eapply read_others_fuel; [|exact E]. lia.
Qed.

(* ---- whole files, one reused record ---- *)
Lemma read_required_eof : forall k dst ends len,
  exists e, read_required k [] dst ends len = (true, [], dst, e, len).
Proof.
  induction k as [|k IH]; intros dst ends len.
  - exists ends. reflexivity.
  - cbn [read_required read_field scan_field length]. rewrite app_nil_r, Nat.add_0_r. apply IH.
Qed.

Lemma bed_read_eof : forall n old, ro_res (bed_read_record n [] old) = Ok 0%nat.
Proof.
  intros n old. unfold bed_read_record. cbn [skip_comments skip_comments_aux].
  destruct (read_required_eof (n - 1) [] [] 0) as (e & He). unfold skip_comments. cbn [skip_comments_aux].
  rewrite He. cbn. reflexivity.
Qed.

Lemma bed_write_file_cons : forall r t text, bed_write_file (r :: t) = Ok text ->
  exists line text', bed_write r = Ok line /\ bed_write_file t = Ok text' /\ text = line ++ 10 :: text'.
Proof.
  intros r t text H. cbn [bed_write_file] in H. destruct (bed_write r) as [line| |]; try discriminate.
  destruct (bed_write_file t) as [text'| |]; try discriminate. cbn [res_map] in H. injection H as H.
  exists line, text'. repeat split. now subst.
Qed.

Theorem bed_file_roundtrip : forall n rs text old fuel,
  Forall (fun r => bed_wf r /\ b_n r = n) rs -> bed_write_file rs = Ok text ->
  length (bf_std old) = n -> (length rs < fuel)%nat ->
  bed_read_file fuel n text old = map (fun r => Ok (bed_expected_view r)) rs.
Proof.
  intros n rs. induction rs as [|r t IH]; intros text old fuel Hall Hw Hold Hf.
  - cbn in Hw. injection Hw as Hw. subst text. destruct fuel as [|fuel]; [lia|].
    cbn [bed_read_file map]. now rewrite bed_read_eof.
  - inversion Hall as [|r' t' [Hwf Hn] Ht]; subst r' t'.
    destruct (bed_write_file_cons _ _ _ Hw) as (line & text' & Hl & Ht' & Etext). subst text.
    destruct fuel as [|fuel]; [lia|]. cbn [bed_read_file map].
    pose proof Hwf as (Hn3 & _).
    assert (Hold' : length (bf_std old) = b_n r) by congruence.
    pose proof (bed_record_read r line text' old Hn3 Hl Hold') as Hrd. rewrite Hn in Hrd.
    pose proof (bed_view_roundtrip r Hwf) as Hv. rewrite Hn in Hv.
    rewrite Hrd. cbn [ro_res ro_src ro_rec].
    rewrite Nat.add_1_r. rewrite Hv. f_equal.
    apply IH; try assumption.
    + unfold rec_of_cols. cbn [bf_std]. rewrite cum_ends_length. rewrite <- Hn. now apply bed_std_columns_length.
    + cbn [length] in Hf. lia.
Qed.

(* ---- after a successful read no accessor can panic (for EVERY input text) ---- *)
(* the bounds are nondecreasing from [lo] and end at or below [hi] *)
Fixpoint chain (lo : nat) (ends : list nat) (hi : nat) : Prop :=
  match ends with
  | [] => (lo <= hi)%nat
  | e :: t => (lo <= e)%nat /\ chain e t hi
  end.

Lemma chain_weaken : forall ends lo hi hi', chain lo ends hi -> (hi <= hi')%nat -> chain lo ends hi'.
Proof.
  induction ends as [|e t IH]; intros lo hi hi' H Hh; cbn [chain] in *; [lia|].
  destruct H as [H1 H2]. split; [exact H1|]. eapply IH; eassumption.
Qed.

Lemma chain_snoc : forall ends lo hi e, chain lo ends hi -> (hi <= e)%nat -> chain lo (ends ++ [e]) e.
Proof.
  induction ends as [|x t IH]; intros lo hi e H He; cbn [chain app] in *; [lia|].
  destruct H as [H1 H2]. split; [exact H1|]. eapply IH; eassumption.
Qed.

Lemma chain_field : forall ends lo hi k, chain lo ends hi -> (k < length ends)%nat ->
  (match k with O => lo | S j => nth j ends O end <= nth k ends O)%nat /\ (nth k ends O <= hi)%nat.
Proof.
  induction ends as [|e t IH]; intros lo hi k H Hk; cbn [length] in Hk; [lia|].
  cbn [chain] in H. destruct H as [H1 H2].
  assert (Hle : forall l a b, chain a l b -> (a <= b)%nat).
  { induction l as [|y l' IHl]; intros a b Hc; cbn [chain] in Hc; [exact Hc|].
    destruct Hc as [Ha Hb]. apply IHl in Hb. lia. }
  destruct k as [|k].
  - cbn [nth]. split; [exact H1|]. now apply (Hle t).
  - cbn [nth]. destruct (IH e hi k H2 ltac:(lia)) as [Ha Hb]. split; [|exact Hb].
    destruct k as [|j]; exact Ha.
Qed.

Lemma read_field_grows : forall src dst dst1 n1 eol src1,
  read_field src dst = (dst1, n1, eol, src1) -> (length dst <= length dst1)%nat.
Proof.
  intros src dst dst1 n1 eol src1 H. unfold read_field in H.
  destruct (scan_field src) as [[f d] r]. destruct d as [c|]; injection H as H1 _ _ _; subst dst1;
    rewrite app_length; lia.
Qed.

Lemma read_required_chain : forall k src dst ends len s d e l,
  chain 0 ends (length dst) ->
  read_required k src dst ends len = (true, s, d, e, l) -> chain 0 e (length d).
Proof.
  induction k as [|k IH]; intros src dst ends len s d e l Hc H.
  - cbn in H. injection H as _ Hd He _. now subst.
  - cbn [read_required] in H. destruct (read_field src dst) as [[[dst1 n1] eol] src1] eqn:Ef.
    destruct eol; [discriminate|]. apply read_field_grows in Ef.
    eapply IH; [|exact H]. eapply chain_snoc; eassumption.
Qed.

Lemma read_others_chain : forall fuel src dst oth len pre s d o l,
  chain 0 (pre ++ oth) (length dst) ->
  read_others fuel src dst oth len = Some (s, d, o, l) -> chain 0 (pre ++ o) (length d).
Proof.
  induction fuel as [|fuel IH]; intros src dst oth len pre s d o l Hc H; [discriminate|].
  cbn [read_others] in H. destruct (read_field src dst) as [[[dst1 n1] eol] src1] eqn:Ef.
  apply read_field_grows in Ef.
  destruct (Nat.eqb n1 0).
  - injection H as _ Hd Ho _. subst. eapply chain_weaken; eassumption.
  - assert (Hc1 : chain 0 (pre ++ oth ++ [length dst1]) (length dst1))
      by (rewrite app_assoc; eapply chain_snoc; eassumption).
    destruct eol.
    + injection H as _ Hd Ho _. now subst.
    + eapply IH; [|exact H]. exact Hc1.
Qed.

(* the invariant a successful read establishes, whatever the record held before *)
Theorem bed_read_ok_bounds : forall n src old k,
  (1 <= n)%nat -> length (bf_std old) = n -> ro_res (bed_read_record n src old) = Ok k ->
  let f := ro_rec (bed_read_record n src old) in
  length (bf_std f) = n /\ chain 0 (bf_std f ++ bf_oth f) (length (bf_buf f)).
Proof.
  intros n src old k Hn Hold Hres. unfold bed_read_record in *.
  destruct (read_required (n - 1) (skip_comments src) [] [] 0) as [[[[ok src1] dst1] ends] len] eqn:Er.
  destruct ok; cbn [negb] in *; [|discriminate].
  pose proof (read_required_len _ _ _ _ _ _ _ _ _ Er) as Hlen. cbn [length] in Hlen.
  assert (Hch : chain 0 ends (length dst1)).
  { eapply read_required_chain; [|exact Er]. cbn [chain length]. lia. }
  destruct (read_field src1 dst1) as [[[dst2 n2] eol] src2] eqn:Ef.
  pose proof (read_field_grows _ _ _ _ _ _ Ef) as Hg.
  assert (Hm : (ends ++ [length dst2]) ++ skipn (length (ends ++ [length dst2])) (bf_std old) = ends ++ [length dst2]).
  { rewrite skipn_all2; [now rewrite app_nil_r|]. rewrite app_length. cbn [length]. lia. }
  assert (Hc2 : chain 0 (ends ++ [length dst2]) (length dst2)) by (eapply chain_snoc; eassumption).
  destruct eol.
  - cbn [ro_rec bf_std bf_oth bf_buf]. rewrite Hm, app_nil_r. split; [|exact Hc2].
    rewrite app_length. cbn [length]. lia.
  - destruct (read_others (S (length src2)) src2 dst2 [] (len + n2)) as [[[[src3 dst3] oth] len3]|] eqn:Eo;
      cbn [ro_res] in Hres; [|discriminate].
    cbn [ro_rec bf_std bf_oth bf_buf]. rewrite Hm. split; [rewrite app_length; cbn [length]; lia|].
    eapply read_others_chain; [|exact Eo]. now rewrite app_nil_r.
Qed.

Lemma slice_ok : forall buf a b, (a <= b)%nat -> (b <= length buf)%nat -> exists s, slice buf a b = Ok s.
Proof.
  intros buf a b H1 H2. unfold slice.
  apply Nat.leb_le in H1. apply Nat.leb_le in H2. rewrite H1, H2. eexists. reflexivity.
Qed.

Definition bounds_ok (n : nat) (f : bed_fields) : Prop :=
  length (bf_std f) = n /\ chain 0 (bf_std f ++ bf_oth f) (length (bf_buf f)).

Lemma std_field_ok : forall n f i, bounds_ok n f -> (i < n)%nat -> exists s, std_field f i = Ok s.
Proof.
  intros n f i [Hl Hc] Hi. unfold std_field.
  assert (Hk : (i < length (bf_std f ++ bf_oth f))%nat) by (rewrite app_length; lia).
  destruct (chain_field _ _ _ i Hc Hk) as [Ha Hb].
  rewrite app_nth1 in Ha, Hb by lia.
  apply slice_ok; [|exact Hb].
  destruct i as [|j]; [lia|]. rewrite app_nth1 in Ha by lia. exact Ha.
Qed.

Lemma oth_get_ok : forall n f i, (1 <= n)%nat -> bounds_ok n f -> (i < length (bf_oth f))%nat ->
  exists s, oth_get n f i = Some (Ok s).
Proof.
  intros n f i Hn [Hl Hc] Hi. unfold oth_get.
  destruct (nth_error (bf_oth f) i) as [e|] eqn:Ee; [|apply nth_error_None in Ee; lia].
  assert (Hk : (n + i < length (bf_std f ++ bf_oth f))%nat) by (rewrite app_length; lia).
  destruct (chain_field _ _ _ (n + i)%nat Hc Hk) as [Ha Hb].
  assert (He : nth (n + i) (bf_std f ++ bf_oth f) O = e).
  { rewrite app_nth2 by lia. replace (n + i - length (bf_std f))%nat with i by lia.
    now apply nth_error_nth. }
  rewrite He in Ha, Hb.
  assert (Hs : exists s, slice (bf_buf f)
            (match i with
             | O => nth (n - 1) (bf_std f) O
             | S j => match nth_error (bf_oth f) j with Some s => s | None => nth (n - 1) (bf_std f) O end
             end) e = Ok s).
  { apply slice_ok; [|exact Hb].
    destruct i as [|j].
    - replace (n + 0)%nat with (S (n - 1)) in Ha by lia. rewrite app_nth1 in Ha by lia. exact Ha.
    - replace (n + S j)%nat with (S (n + j)) in Ha by lia.
      rewrite app_nth2 in Ha by lia. replace (n + j - length (bf_std f))%nat with j in Ha by lia.
      destruct (nth_error (bf_oth f) j) as [x|] eqn:Ex; [|apply nth_error_None in Ex; lia].
      now rewrite (nth_error_nth _ _ O Ex) in Ha. }
  destruct Hs as [s Hs]. exists s. now rewrite Hs.
Qed.

Lemma oth_iter_ok : forall n f k i, (1 <= n)%nat -> bounds_ok n f -> (i + k = length (bf_oth f))%nat ->
  exists l, oth_iter k n f i = Ok l.
Proof.
  intros n f k. induction k as [|k IH]; intros i Hn Hb Hik; [exists []; reflexivity|].
  cbn [oth_iter]. destruct (oth_get_ok n f i Hn Hb ltac:(lia)) as [s Hs]. rewrite Hs.
  destruct (IH (S i) Hn Hb ltac:(lia)) as [l Hl]. rewrite Hl. eexists. reflexivity.
Qed.

Definition view_no_panic (v : bed_view) : Prop :=
  bv_name v <> Panic /\ bv_start v <> Panic /\ bv_end v <> Panic
  /\ bv_nm v <> Some Panic /\ bv_score v <> Some Panic /\ bv_strand v <> Some Panic
  /\ bv_others v <> Panic.

Lemma parse_start_no_panic : forall s, bed_parse_start s <> Panic.
Proof. intro s. unfold bed_parse_start. destruct (parse_dec s) as [x|]; [destruct (u64_max <=? x)|]; discriminate. Qed.
Lemma view_end_no_panic : forall s, view_end s <> Panic.
Proof.
  intro s. unfold view_end, bed_parse_end. destruct (bytes_eqb s [48]); [discriminate|].
  destruct (parse_dec s) as [x|]; [destruct ((x =? 0) || (u64_max <? x))|]; discriminate.
Qed.
Lemma parse_score_no_panic : forall s, bed_parse_score s <> Panic.
Proof. intro s. unfold bed_parse_score. destruct (parse_dec s) as [x|]; [destruct (65535 <? x)|]; discriminate. Qed.
Lemma parse_strand_no_panic : forall s, bed_parse_strand s <> Panic.
Proof.
  intro s. unfold bed_parse_strand.
  destruct (bytes_eqb s [46]); [discriminate|]. destruct (bytes_eqb s [43]); [discriminate|].
  destruct (bytes_eqb s [45]); discriminate.
Qed.

Theorem bounds_ok_no_panic : forall n f, (3 <= n)%nat -> bounds_ok n f -> view_no_panic (bed_view_of n f).
Proof.
  intros n f Hn Hb. unfold view_no_panic, bed_view_of.
  cbn [bv_name bv_start bv_end bv_nm bv_score bv_strand bv_others].
  destruct (std_field_ok n f 0 Hb ltac:(lia)) as [s0 H0].
  destruct (std_field_ok n f 1 Hb ltac:(lia)) as [s1 H1].
  destruct (std_field_ok n f 2 Hb ltac:(lia)) as [s2 H2].
  rewrite H0, H1, H2. cbn [res_bind].
  repeat split; try discriminate.
  - apply parse_start_no_panic.
  - apply view_end_no_panic.
  - destruct (Nat.leb 4 n) eqn:E; [|discriminate]. apply Nat.leb_le in E.
    destruct (std_field_ok n f 3 Hb ltac:(lia)) as [s3 H3]. rewrite H3. discriminate.
  - destruct (Nat.leb 5 n) eqn:E; [|discriminate]. apply Nat.leb_le in E.
    destruct (std_field_ok n f 4 Hb ltac:(lia)) as [s4 H4]. rewrite H4. cbn [res_bind].
    intro Hp. injection Hp as Hp. revert Hp. apply parse_score_no_panic.
  - destruct (Nat.leb 6 n) eqn:E; [|discriminate]. apply Nat.leb_le in E.
    destruct (std_field_ok n f 5 Hb ltac:(lia)) as [s5 H5]. rewrite H5. cbn [res_bind].
    intro Hp. injection Hp as Hp. revert Hp. apply parse_strand_no_panic.
  - destruct (oth_iter_ok n f (length (bf_oth f)) 0 ltac:(lia) Hb ltac:(lia)) as [l Hl]. rewrite Hl. discriminate.
Qed.

(* for EVERY input text and EVERY previous record state: a read that returns Ok leaves a record
   on which no accessor panics, and neither does the owned conversion *)
Theorem bed_read_ok_no_panic : forall n src old k,
  (3 <= n)%nat -> length (bf_std old) = n -> ro_res (bed_read_record n src old) = Ok k ->
  view_no_panic (bed_view_of n (ro_rec (bed_read_record n src old)))
  /\ bed_owned n (bed_view_of n (ro_rec (bed_read_record n src old))) <> Panic.
Proof.
  intros n src old k Hn Hold Hres.
  pose proof (bed_read_ok_bounds n src old k ltac:(lia) Hold Hres) as Hb.
  pose proof (bounds_ok_no_panic n _ Hn Hb) as Hv. split; [exact Hv|].
  destruct Hv as (V1 & V2 & V3 & V4 & V5 & V6 & V7). unfold bed_owned.
  set (v := bed_view_of n (ro_rec (bed_read_record n src old))) in *.
  destruct (bv_name v) as [a| |]; cbn [res_bind]; try discriminate; try congruence.
  destruct (bv_start v) as [b| |]; cbn [res_bind]; try discriminate; try congruence.
  destruct (bv_end v) as [c| |]; cbn [res_bind]; try discriminate; try congruence.
  destruct (bv_nm v) as [[d| |]|]; cbn [opt_res res_bind]; try discriminate; try congruence;
  destruct (bv_score v) as [[e| |]|]; cbn [opt_res res_bind]; try discriminate; try congruence;
  destruct (bv_strand v) as [[g| |]|]; cbn [opt_res res_bind]; try discriminate; try congruence;
  destruct (bv_others v) as [h| |]; cbn [res_bind]; try discriminate; try congruence.
Qed.

(* after a FAILED read the accessors can still panic (buffer cleared, old bounds kept) *)
Theorem bed_failed_read_accessor_panics :
  ro_res (bed_read_record 3 [10] (bed_default 3)) = Err InvalidData /\
  bv_name (bed_view_of 3 (ro_rec (bed_read_record 3 [10] (bed_default 3)))) = Panic.
Proof. split; vm_compute; reflexivity. Qed.
