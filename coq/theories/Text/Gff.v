(* GFF3 record lines as noodles-gff writes and reads them (model; definitions only).
   Writer: io/writer/line/record.rs and below.  Reader: io/reader.rs::read_line, line.rs::kind,
   record/fields/bounds.rs, record.rs, record/attributes*.rs, feature/record_buf/convert.rs.
   What the code does, not what GFF3 asks for: the sequence id is percent-encoded on output and
   returned RAW by the reader; source and type are written raw and read raw; attribute tags and
   values are encoded on output and decoded on input. *)
From Coq Require Import List NArith Bool.
From NV Require Import Base.Percent Text.TextBase.
Import ListNotations.
Open Scope N_scope.

Definition is_alnum (b : N) : bool :=
  ((48 <=? b) && (b <=? 57)) || ((65 <=? b) && (b <=? 90)) || ((97 <=? b) && (b <=? 122)).

(* reference_sequence_name.rs: NON_ALPHANUMERIC.remove('.' ':' '^' '*' '$' '@' '!' '+' '_' '?' '-' '|');
   percent_encode additionally encodes every non-ASCII byte *)
Definition seqid_set (b : N) : bool :=
  (128 <=? b) || negb (is_alnum b || mem b [46; 58; 94; 42; 36; 64; 33; 43; 95; 63; 45; 124]).

(* attributes/field.rs: CONTROLS.add('\t' '\n' '\r' '%' ';' '=' '&' ','); CONTROLS = 0x00-0x1F, 0x7F *)
Definition attr_set (b : N) : bool :=
  (128 <=? b) || (b <? 32) || (b =? 127) || mem b [9; 10; 13; 37; 59; 61; 38; 44].

Definition gff_value_text (v : value) : list N :=
  join 44 (map (pct_enc attr_set) (value_items v)).

Definition gff_field_text (tv : list N * value) : list N :=
  pct_enc attr_set (fst tv) ++ 61 :: gff_value_text (snd tv).

Definition gff_attrs_text (a : list (list N * value)) : list N :=
  match a with [] => [46] | _ => join 59 (map gff_field_text a) end.

Definition cds : list N := [67; 68; 83].

Definition gff_columns (fmt : N -> list N) (r : feature) : list (list N) :=
  [pct_enc seqid_set (f_seqid r); f_source r; f_type r; fmt_dec (f_start r); fmt_dec (f_end r);
   score_text fmt (f_score r); strand_text (f_strand r); phase_text (f_phase r)].

(* write_record (without the line feed); the only rejection is a CDS without phase *)
Definition gff_write (fmt : N -> list N) (r : feature) : res (list N) :=
  if bytes_eqb (f_type r) cds && (match f_phase r with None => true | Some _ => false end)
  then Err InvalidInput
  else Ok (tabbed (gff_columns fmt r) ++ gff_attrs_text (f_attrs r)).

(* ---- reading ---- *)

Definition gff_parse_value (v : list N) : value :=
  if mem 44 v then VArray (map pct_dec (split_all 44 v)) else VString (pct_dec v).

(* Attributes::iter: field::next until the source is empty *)
Fixpoint gff_attrs_iter (fuel : nat) (src : list N) : list (list N * value) * option (res unit) :=
  match fuel with
  | O => ([], Some (Err OutOfFuel))
  | S f =>
      match src with
      | [] => ([], None)
      | _ =>
          match split_once 61 src with
          | None => ([], Some (Err InvalidData))
          | Some (t, rest) =>
              let vr := match split_once 59 rest with Some (v, r) => (v, r) | None => (rest, []) end in
              let ie := gff_attrs_iter f (snd vr) in
              ((pct_dec t, gff_parse_value (fst vr)) :: fst ie, snd ie)
          end
      end
  end.

Definition gff_attrs_parse (col : list N) : list (list N * value) * option (res unit) :=
  if bytes_eqb col [46] then ([], None) else gff_attrs_iter (S (length col)) col.

Definition gff_parse_strand (s : list N) : res strand :=
  if bytes_eqb s [46] then Ok SNone
  else if bytes_eqb s [43] then Ok SForward
  else if bytes_eqb s [45] then Ok SReverse
  else if bytes_eqb s [63] then Ok SUnknown
  else Err InvalidData.

Inductive line_result := NotRecord | LineErr (e : err) | Rec (l : lazy_feature).

Definition starts_with_hash (line : list N) : bool :=
  match line with b :: _ => b =? 35 | [] => false end.

Definition gff_lazy_of_columns (prs : list N -> option N) (cs : list (list N)) (c9 : list N) : line_result :=
  match cs with
  | [c1; c2; c3; c4; c5; c6; c7; c8] =>
      Rec {| l_seqid := c1; l_source := c2; l_type := c3;
             l_start := parse_pos c4; l_end := parse_pos c5;
             l_score := parse_score prs c6; l_strand := gff_parse_strand c7;
             l_phase := parse_phase c8; l_attrs := gff_attrs_parse c9 |}
  | _ => LineErr UnexpectedEof
  end.

Definition gff_parse_line (prs : list N -> option N) (line : list N) : line_result :=
  if starts_with_hash line then NotRecord
  else match take_fields 8 line with
       | Some (cs, c9) => gff_lazy_of_columns prs cs c9
       | None => LineErr UnexpectedEof
       end.

(* first line of the text, as Reader::lines yields it *)
Definition gff_read (prs : list N -> option N) (text : list N) : line_result :=
  gff_parse_line prs (first_line text).

(* what a value reads back as: a one-element array is the same text as a string *)
Definition canon_value (v : value) : value :=
  match value_items v with
  | [] => VString []
  | [x] => VString x
  | l => VArray l
  end.
Definition canon_attrs (a : list (list N * value)) : list (list N * value) :=
  map (fun tv => (fst tv, canon_value (snd tv))) a.

(* the single-byte sweep of the correspondence check *)
Definition gff_set_sweep (which : bool) : list (list N) :=
  map (fun b => if which then pct_enc seqid_set [b]
                else gff_attrs_text [([b], VArray [[b]; [b]])])
      (map N.of_nat (seq 0 256)).
