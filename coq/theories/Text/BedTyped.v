(* noodles-bed typed other fields (feature/record_buf/other_fields/value.rs, writer
   io/writer/record/other_fields/value.rs): Int64 / UInt64 / Float64 are written with Display and
   no check, Character and String must be printable ASCII.  The reader has no types: every other
   field reads back as Value::String of its text.  [fmt64] stands for f64 Display (bit pattern ->
   text), an oracle as for the GFF3 score. *)
From Coq Require Import List NArith ZArith Bool.
From NV Require Import Text.TextBase Text.Bed.
Import ListNotations.
Open Scope N_scope.

Inductive bed_value :=
  | BVInt (z : Z) | BVUInt (n : N) | BVFloat (bits : N) | BVChar (c : N) | BVString (s : list N).

(* i64 Display *)
Definition fmt_z (z : Z) : list N :=
  if (z <? 0)%Z then 45 :: fmt_dec (Z.to_N (- z)) else fmt_dec (Z.to_N z).

Definition bed_value_text (fmt64 : N -> list N) (v : bed_value) : list N :=
  match v with
  | BVInt z => fmt_z z
  | BVUInt n => fmt_dec n
  | BVFloat b => fmt64 b
  | BVChar c => [c]
  | BVString s => s
  end.

(* write_value's only rejections *)
Definition bed_value_valid (v : bed_value) : bool :=
  match v with
  | BVChar c => is_printable c
  | BVString s => forallb is_printable s
  | _ => true
  end.

(* write_record_N for a RecordBuf with typed other fields ([b_others r] is not used) *)
Definition bed_write_typed (fmt64 : N -> list N) (r : bed) (vs : list bed_value) : res (list N) :=
  if bed_refname_valid (b_name r)
     && (if Nat.leb 4 (b_n r) then match b_nm r with Some s => bed_name_valid s | None => true end else true)
     && forallb bed_value_valid vs
  then Ok (join 9 (bed_std_columns r ++ map (bed_value_text fmt64) vs))
  else Err InvalidInput.

Definition bed_with_others (r : bed) (os : list (list N)) : bed :=
  {| b_n := b_n r; b_name := b_name r; b_start := b_start r; b_end := b_end r; b_nm := b_nm r;
     b_score := b_score r; b_strand := b_strand r; b_others := os |}.
