(* noodles-bed at record level (model; definitions only): the reader's reusable record
   (record/fields.rs: one byte buffer + record/fields/bounds.rs: the ends of the N standard
   fields and of the other fields), io/reader/record.rs (read_record_N, skip_comment_lines,
   read_required_field, read_field with its CR pop, read_other_fields), the accessors of
   record.rs / record/fields.rs / record/other_fields.rs (slicing the buffer by the bounds: an
   inverted or out-of-range bound is a slice-index panic), RecordBuf::try_from_feature_record
   (feature/record_buf/convert.rs) and the writer of a whole file.
   The input is the remaining bytes of the BufRead (what fill_buf of a slice returns; the loops
   of read_field / discard_line over several fill_buf chunks compute the same thing).
   Column writers and parsers come from Text/Bed.v. *)
From Coq Require Import List NArith Bool.
From NV Require Import Text.TextBase Text.Bed.
Import ListNotations.
Open Scope N_scope.

(* Fields<N>: buf + Bounds<N> { standard_fields_ends: [usize; N], other_fields_ends: Vec<usize> } *)
Record bed_fields := { bf_buf : list N; bf_std : list nat; bf_oth : list nat }.

(* Default for Fields<3..6>: "sq001", "sq001.", "sq001.0", "sq001.0." with ends [3,4,5,6,7,8] *)
Definition bed_default (n : nat) : bed_fields :=
  {| bf_buf := firstn (n + 2) [115; 113; 48; 48; 49; 46; 48; 46];
     bf_std := firstn n [3; 4; 5; 6; 7; 8]%nat;
     bf_oth := [] |}.

(* ---- io/reader/record.rs ---- *)

(* skip_comment_lines + discard_line: while the input starts with '#', drop through the next LF *)
Fixpoint skip_comments_aux (in_comment : bool) (s : list N) : list N :=
  match s with
  | [] => []
  | b :: t =>
      if in_comment then (if b =? 10 then skip_comments_aux false t else skip_comments_aux true t)
      else if b =? 35 then skip_comments_aux true t else s
  end.
Definition skip_comments (s : list N) : list N := skip_comments_aux false s.

(* memchr2(TAB, LF): bytes before the first delimiter, the delimiter, the rest *)
Fixpoint scan_field (src : list N) : list N * option N * list N :=
  match src with
  | [] => ([], None, [])
  | b :: t =>
      if (b =? 9) || (b =? 10) then ([], Some b, t)
      else let '(f, d, r) := scan_field t in (b :: f, d, r)
  end.

(* read_field: (dst', bytes consumed, is_eol, src').  At LF one trailing CR is popped, but only
   when it was read as part of THIS field (`dst.len() > start && dst.ends_with(CR)`; repaired in
   /repo 6993cf2 -- before, the CR of the previous field was popped when this field was empty,
   leaving bounds beyond the buffer). *)
Definition read_field (src dst : list N) : list N * nat * bool * list N :=
  let '(f, d, r) := scan_field src in
  match d with
  | Some c =>
      let eol := c =? 10 in
      (dst ++ (if eol then strip_cr f else f), S (length f), eol, r)
  | None => (dst ++ f, length f, false, r)
  end.

(* k times read_required_field, recording dst.len() after each; false = "unexpected EOL"
   (the state reached so far is returned: the caller's record keeps it) *)
Fixpoint read_required (k : nat) (src dst : list N) (ends : list nat) (len : nat)
  : bool * list N * list N * list nat * nat :=
  match k with
  | O => (true, src, dst, ends, len)
  | S k' =>
      let '(dst1, n1, eol, src1) := read_field src dst in
      if eol then (false, src1, dst1, ends, len)
      else read_required k' src1 dst1 (ends ++ [length dst1]) (len + n1)%nat
  end.

(* read_other_fields: until a read of 0 bytes (end of input) or the end of the line.  The loop
   consumes at least one byte per turn; [fuel] = remaining input + 1 is proved sufficient. *)
Fixpoint read_others (fuel : nat) (src dst : list N) (oth : list nat) (len : nat)
  : option (list N * list N * list nat * nat) :=
  match fuel with
  | O => None
  | S fuel' =>
      let '(dst1, n1, eol, src1) := read_field src dst in
      if Nat.eqb n1 0 then Some (src1, dst1, oth, len)
      else
        let oth1 := oth ++ [length dst1] in
        if eol then Some (src1, dst1, oth1, (len + n1)%nat)
        else read_others fuel' src1 dst1 oth1 (len + n1)%nat
  end.

Record bed_read_out := { ro_res : res nat; ro_src : list N; ro_rec : bed_fields }.

(* read_record_N into the caller's record [old]: buf.clear(), other_fields_ends.clear(), then
   standard_fields_ends[i] is overwritten one by one -- the ends not reached keep the OLD value *)
Definition bed_read_record (n : nat) (src : list N) (old : bed_fields) : bed_read_out :=
  let merge (e : list nat) := e ++ skipn (length e) (bf_std old) in
  let src0 := skip_comments src in
  let '(ok, src1, dst1, ends, len) := read_required (n - 1) src0 [] [] 0 in
  if negb ok then
    {| ro_res := Err InvalidData; ro_src := src1;
       ro_rec := {| bf_buf := dst1; bf_std := merge ends; bf_oth := [] |} |}
  else
    let '(dst2, n2, eol, src2) := read_field src1 dst1 in
    let ends2 := ends ++ [length dst2] in
    if eol then
      {| ro_res := Ok (len + n2)%nat; ro_src := src2;
         ro_rec := {| bf_buf := dst2; bf_std := merge ends2; bf_oth := [] |} |}
    else
      match read_others (S (length src2)) src2 dst2 [] (len + n2)%nat with
      | None =>
          {| ro_res := Err OutOfFuel; ro_src := src2;
             ro_rec := {| bf_buf := dst2; bf_std := merge ends2; bf_oth := [] |} |}
      | Some (src3, dst3, oth, len3) =>
          {| ro_res := Ok len3; ro_src := src3;
             ro_rec := {| bf_buf := dst3; bf_std := merge ends2; bf_oth := oth |} |}
      end.

(* ---- record/fields.rs, record/fields/bounds.rs: accessors ---- *)

(* &buf[a..b] *)
Definition slice (buf : list N) (a b : nat) : res (list N) :=
  if Nat.leb a b && Nat.leb b (length buf) then Ok (firstn (b - a) (skipn a buf)) else Panic.

(* the i-th standard field: standard_fields_ends[i-1] (0 for i = 0) .. standard_fields_ends[i] *)
Definition std_field (f : bed_fields) (i : nat) : res (list N) :=
  slice (bf_buf f) (match i with O => O | S j => nth j (bf_std f) O end) (nth i (bf_std f) O).

(* Bounds::get(i) + Fields::get(i) *)
Definition oth_get (n : nat) (f : bed_fields) (i : nat) : option (res (list N)) :=
  match nth_error (bf_oth f) i with
  | None => None
  | Some e =>
      let start := match i with
                   | O => nth (n - 1) (bf_std f) O
                   | S j => match nth_error (bf_oth f) j with Some s => s | None => nth (n - 1) (bf_std f) O end
                   end in
      Some (slice (bf_buf f) start e)
  end.

(* OtherFields::iter: get(0), get(1), ... until None *)
Fixpoint oth_iter (fuel : nat) (n : nat) (f : bed_fields) (i : nat) : res (list (list N)) :=
  match fuel with
  | O => Ok []
  | S fuel' =>
      match oth_get n f i with
      | None => Ok []
      | Some (Ok s) =>
          match oth_iter fuel' n f (S i) with
          | Ok l => Ok (s :: l)
          | Err e => Err e
          | Panic => Panic
          end
      | Some (Err e) => Err e
      | Some Panic => Panic
      end
  end.

Definition res_map {A B} (g : A -> B) (r : res A) : res B :=
  match r with Ok a => Ok (g a) | Err e => Err e | Panic => Panic end.
Definition res_bind {A B} (r : res A) (g : A -> res B) : res B :=
  match r with Ok a => g a | Err e => Err e | Panic => Panic end.

(* what Record<N>'s accessors return (the feature::Record<N> trait view: name/score/strand are
   absent below their N) *)
Record bed_view := {
  bv_name : res (list N);
  bv_start : res N;
  bv_end : res (option N);              (* Option<io::Result<Position>>: Ok None = missing *)
  bv_nm : option (res (option (list N)));
  bv_score : option (res N);
  bv_strand : option (res (option bool));
  bv_others : res (list (list N))
}.

Definition view_end (s : list N) : res (option N) :=
  match bed_parse_end s with None => Ok None | Some r => res_map Some r end.

Definition bed_view_of (n : nat) (f : bed_fields) : bed_view :=
  {| bv_name := std_field f 0;
     bv_start := res_bind (std_field f 1) bed_parse_start;
     bv_end := res_bind (std_field f 2) view_end;
     bv_nm := if Nat.leb 4 n then Some (res_map bed_parse_name (std_field f 3)) else None;
     bv_score := if Nat.leb 5 n then Some (res_bind (std_field f 4) bed_parse_score) else None;
     bv_strand := if Nat.leb 6 n then Some (res_bind (std_field f 5) bed_parse_strand) else None;
     bv_others := oth_iter (length (bf_oth f)) n f 0 |}.

(* RecordBuf<N>::try_from_feature_record: name (panic only), start, end, name, score, strand,
   other fields -- first failure wins; builder defaults: no name, score 0, no strand *)
Definition opt_res {A} (d : A) (o : option (res A)) : res A :=
  match o with None => Ok d | Some r => r end.

Definition bed_owned (n : nat) (v : bed_view) : res bed :=
  res_bind (bv_name v) (fun name =>
  res_bind (bv_start v) (fun st =>
  res_bind (bv_end v) (fun en =>
  res_bind (opt_res None (bv_nm v)) (fun nm =>
  res_bind (opt_res 0 (bv_score v)) (fun sc =>
  res_bind (opt_res None (bv_strand v)) (fun sd =>
  res_bind (bv_others v) (fun os =>
  Ok {| b_n := n; b_name := name; b_start := st; b_end := en; b_nm := nm; b_score := sc;
        b_strand := sd; b_others := os |}))))))).

(* ---- files ---- *)

(* Writer::write_feature_record for each record (first error stops) *)
Fixpoint bed_write_file (rs : list bed) : res (list N) :=
  match rs with
  | [] => Ok []
  | r :: t =>
      match bed_write r with
      | Ok line => res_map (fun rest => line ++ 10 :: rest) (bed_write_file t)
      | Err e => Err e
      | Panic => Panic
      end
  end.

(* the caller's loop `while reader.read_record(&mut record)? != 0` over ONE record value:
   the views seen per line; an error ends the loop.  [fuel] bounds the number of lines. *)
Fixpoint bed_read_file (fuel : nat) (n : nat) (src : list N) (rec : bed_fields) : list (res bed_view) :=
  match fuel with
  | O => []
  | S fuel' =>
      let o := bed_read_record n src rec in
      match ro_res o with
      | Ok O => []
      | Ok _ => Ok (bed_view_of n (ro_rec o)) :: bed_read_file fuel' n (ro_src o) (ro_rec o)
      | Err e => [Err e]
      | Panic => [Panic]
      end
  end.

(* the same loop that goes on after an error (the rest of the input is still there and the record
   is in the state the failed call left): result and view of every call, the final Ok 0 included *)
Fixpoint bed_read_raw (fuel : nat) (n : nat) (src : list N) (rec : bed_fields)
  : list (res nat * bed_view) :=
  match fuel with
  | O => []
  | S fuel' =>
      let o := bed_read_record n src rec in
      (ro_res o, bed_view_of n (ro_rec o)) ::
      match ro_res o with
      | Ok O => []
      | _ => bed_read_raw fuel' n (ro_src o) (ro_rec o)
      end
  end.

(* what a written record must read back as *)
Definition bed_expected_view (r : bed) : bed_view :=
  {| bv_name := Ok (b_name r);
     bv_start := Ok (b_start r);
     bv_end := Ok (b_end r);
     bv_nm := if Nat.leb 4 (b_n r) then Some (Ok (b_nm r)) else None;
     bv_score := if Nat.leb 5 (b_n r) then Some (Ok (b_score r)) else None;
     bv_strand := if Nat.leb 6 (b_n r) then Some (Ok (b_strand r)) else None;
     bv_others := Ok (b_others r) |}.

(* the record with the fields above its N at the builder's defaults *)
Definition bed_canon (r : bed) : bed :=
  {| b_n := b_n r; b_name := b_name r; b_start := b_start r; b_end := b_end r;
     b_nm := if Nat.leb 4 (b_n r) then b_nm r else None;
     b_score := if Nat.leb 5 (b_n r) then b_score r else 0;
     b_strand := if Nat.leb 6 (b_n r) then b_strand r else None;
     b_others := b_others r |}.
