(* write -> read -> own -> write is the identity on the TEXT of every BED line the writer makes,
   typed extra columns and the '.' name included: what the value-level round trip loses (types of
   the extra columns, Some "." vs None) is textual aliasing only. *)
From Coq Require Import List NArith ZArith Bool Lia.
From NV Require Import Text.TextBase Text.TextBaseProofs Text.Bed Text.BedProofs Text.BedRec
  Text.BedRecProofs Text.BedTyped Text.BedTypedProofs Text.BedRewrite.
Import ListNotations.
Open Scope N_scope.

(* bed_wf without the clause about the '.' name *)
Definition bed_wf_dot (r : bed) : Prop :=
  (3 <= b_n r <= 6)%nat /\ 1 <= b_start r <= u64_max
  /\ (forall x, b_end r = Some x -> 1 <= x <= u64_max)
  /\ ((5 <= b_n r)%nat -> b_score r <= 65535).

Lemma bed_wf_is_wf_dot : forall r, bed_wf r -> bed_wf_dot r.
Proof. intros r (H1 & H2 & H3 & _ & H5). unfold bed_wf_dot. tauto. Qed.

Lemma bytes_eqb_true : forall a b, bytes_eqb a b = true -> a = b.
Proof.
  induction a as [|x a IH]; destruct b as [|y b]; cbn; intro H; try discriminate; [reflexivity|].
  apply andb_true_iff in H. destruct H as [H1 H2]. apply N.eqb_eq in H1. subst. f_equal. now apply IH.
Qed.

Lemma bytes_eqb_refl_dot : bytes_eqb [46] [46] = true.
Proof. reflexivity. Qed.

Lemma bed_undot_wf : forall r, bed_wf_dot r -> bed_wf (bed_undot r).
Proof.
  intros r (H1 & H2 & H3 & H5). unfold bed_wf, bed_undot. cbn [b_n b_start b_end b_nm b_score].
  split; [exact H1|]. split; [exact H2|]. split; [exact H3|]. split; [|exact H5].
  intros _ X. destruct (b_nm r) as [s|]; [|discriminate X].
  destruct (bytes_eqb s [46]) eqn:E; [discriminate X|]. injection X as X. subst s.
  rewrite bytes_eqb_refl_dot in E. discriminate E.
Qed.

Lemma bed_undot_columns : forall r, bed_std_columns (bed_undot r) = bed_std_columns r.
Proof.
  intro r. unfold bed_std_columns, bed_undot. cbn [b_n b_name b_start b_end b_nm b_score b_strand].
  destruct (b_nm r) as [s|]; [|reflexivity].
  destruct (bytes_eqb s [46]) eqn:E; [|reflexivity]. apply bytes_eqb_true in E. subst s. reflexivity.
Qed.

Lemma bed_undot_name_ok : forall r,
  (if Nat.leb 4 (b_n r) then match b_nm (bed_undot r) with Some s => bed_name_valid s | None => true end else true)
  = (if Nat.leb 4 (b_n r) then match b_nm r with Some s => bed_name_valid s | None => true end else true).
Proof.
  intro r. unfold bed_undot. cbn [b_nm]. destruct (Nat.leb 4 (b_n r)); [|reflexivity].
  destruct (b_nm r) as [s|]; [|reflexivity].
  destruct (bytes_eqb s [46]) eqn:E; [|reflexivity]. apply bytes_eqb_true in E. subst s. reflexivity.
Qed.

Lemma bed_write_typed_undot : forall fmt64 r vs,
  bed_write_typed fmt64 (bed_undot r) vs = bed_write_typed fmt64 r vs.
Proof.
  intros. unfold bed_write_typed. rewrite bed_undot_columns.
  change (b_n (bed_undot r)) with (b_n r). rewrite bed_undot_name_ok. reflexivity.
Qed.

Lemma bed_write_canon : forall r, bed_write (bed_canon r) = bed_write r.
Proof.
  intro r. unfold bed_write, bed_accepts, bed_std_columns, bed_canon.
  cbn [b_n b_name b_start b_end b_nm b_score b_strand b_others].
  destruct (Nat.leb 4 (b_n r)), (Nat.leb 5 (b_n r)), (Nat.leb 6 (b_n r)); reflexivity.
Qed.

(* the record the copy loop writes: '.' name gone, typed columns as the strings of their text *)
Definition bed_copy_of (fmt64 : N -> list N) (r : bed) (vs : list bed_value) : bed :=
  bed_canon (bed_with_others (bed_undot r) (map (bed_value_text fmt64) vs)).

Theorem bed_write_read_write : forall fmt64 r vs line rest old,
  bed_wf_dot r -> float_texts_ok fmt64 vs -> bed_write_typed fmt64 r vs = Ok line ->
  length (bf_std old) = b_n r ->
  let o := bed_read_record (b_n r) (line ++ 10 :: rest) old in
  bed_owned (b_n r) (bed_view_of (b_n r) (ro_rec o)) = Ok (bed_copy_of fmt64 r vs)
  /\ bed_write (bed_copy_of fmt64 r vs) = Ok line
  /\ bed_rewrite (b_n r) (line ++ 10 :: rest) old = Ok line.
Proof.
  intros fmt64 r vs line rest old Hwf Hf Hw Hold.
  rewrite <- bed_write_typed_undot in Hw.
  pose proof (bed_write_typed_as_strings fmt64 (bed_undot r) vs line Hf Hw) as Hw'.
  set (r' := bed_with_others (bed_undot r) (map (bed_value_text fmt64) vs)) in *.
  assert (Hwf' : bed_wf r') by exact (bed_undot_wf r Hwf).
  assert (Hold' : length (bf_std old) = b_n r') by exact Hold.
  destruct (bed_record_roundtrip r' line rest old Hwf' Hw' Hold') as (H1 & H2 & H3 & H4).
  change (b_n r') with (b_n r) in H1, H2, H3, H4.
  assert (Hc : bed_write (bed_copy_of fmt64 r vs) = Ok line).
  { unfold bed_copy_of. fold r'. rewrite bed_write_canon. exact Hw'. }
  cbv zeta. split; [exact H4|]. split; [exact Hc|].
  unfold bed_rewrite. cbv zeta. rewrite H1. unfold bed_rewrite_view. rewrite H4. cbn [res_bind]. exact Hc.
Qed.

(* the name '.' alone: the value changes (Some "." -> None), the text does not *)
Definition bed_dot_rec : bed :=
  {| b_n := 4; b_name := [99]; b_start := 1; b_end := None; b_nm := Some [46]; b_score := 0;
     b_strand := None; b_others := [] |}.

Theorem bed_dot_rewrite_same_text :
  bed_write bed_dot_rec = Ok [99; 9; 48; 9; 48; 9; 46]
  /\ bed_rewrite 4 [99; 9; 48; 9; 48; 9; 46; 10] (bed_default 4) = Ok [99; 9; 48; 9; 48; 9; 46]
  /\ bed_owned 4 (bed_view_of 4 (ro_rec (bed_read_record 4 [99; 9; 48; 9; 48; 9; 46; 10] (bed_default 4))))
     = Ok (bed_undot bed_dot_rec)
  /\ bed_undot bed_dot_rec <> bed_dot_rec.
Proof. repeat split; try (vm_compute; reflexivity). vm_compute. discriminate. Qed.
