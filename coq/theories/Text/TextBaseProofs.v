From Coq Require Import List NArith ZArith Bool Lia ZifyBool ZifyN Decimal DecimalN.
From NV Require Import Text.TextBase.
Import ListNotations.
Open Scope N_scope.

Lemma bytes_eqb_eq : forall a b, bytes_eqb a b = true <-> a = b.
Proof.
  induction a as [|x a IH]; destruct b as [|y b]; cbn [bytes_eqb]; split; intro H;
    try reflexivity; try discriminate.
  - apply andb_true_iff in H. destruct H as [H1 H2]. apply N.eqb_eq in H1. apply IH in H2. now subst.
  - inversion H; subst. rewrite N.eqb_refl. cbn. now apply IH.
Qed.

Lemma bytes_eqb_refl : forall a, bytes_eqb a a = true.
Proof. intro a. now apply bytes_eqb_eq. Qed.

Lemma bytes_eqb_neq : forall a b, a <> b -> bytes_eqb a b = false.
Proof.
  intros a b H. destruct (bytes_eqb a b) eqn:E; [|reflexivity]. apply bytes_eqb_eq in E. contradiction.
Qed.

Lemma mem_In : forall c s, mem c s = true <-> In c s.
Proof.
  intros c s. induction s as [|b t IH]; cbn [mem In]; [split; [discriminate|tauto]|].
  rewrite orb_true_iff, N.eqb_eq, IH. tauto.
Qed.

Lemma mem_not_In : forall c s, ~ In c s -> mem c s = false.
Proof. intros c s H. destruct (mem c s) eqn:E; [|reflexivity]. apply mem_In in E. contradiction. Qed.

Lemma split_once_app : forall sep a r, ~ In sep a -> split_once sep (a ++ sep :: r) = Some (a, r).
Proof.
  intros sep a r. induction a as [|b a IH]; intro H; cbn [Datatypes.app split_once].
  - now rewrite N.eqb_refl.
  - assert (Hb : b <> sep) by (intro E; apply H; now left).
    apply N.eqb_neq in Hb. rewrite Hb. rewrite IH; [reflexivity|]. intro Hin. apply H. now right.
Qed.

Lemma split_once_none : forall sep s, ~ In sep s -> split_once sep s = None.
Proof.
  intros sep s. induction s as [|b s IH]; intro H; cbn [split_once]; [reflexivity|].
  assert (Hb : b <> sep) by (intro E; apply H; now left).
  apply N.eqb_neq in Hb. rewrite Hb. rewrite IH; [reflexivity|]. intro Hin. apply H. now right.
Qed.

Lemma take_fields_tabbed : forall fs rest, Forall (fun f => ~ In 9 f) fs ->
  take_fields (length fs) (tabbed fs ++ rest) = Some (fs, rest).
Proof.
  intros fs rest H. induction H as [|f fs Hf Hfs IH]; [reflexivity|].
  cbn [length take_fields tabbed flat_map]. rewrite <- !app_assoc. cbn [Datatypes.app].
  rewrite split_once_app by exact Hf. fold (tabbed fs). now rewrite IH.
Qed.

Lemma In_tabbed : forall c fs, In c (tabbed fs) -> c = 9 \/ exists f, In f fs /\ In c f.
Proof.
  intros c fs H. unfold tabbed in H. apply in_flat_map in H. destruct H as (f & Hf & Hc).
  apply in_app_or in Hc. destruct Hc as [Hc|[Hc|[]]]; [right; eauto|now left].
Qed.

Lemma In_join : forall c sep ps, In c (join sep ps) -> c = sep \/ exists p, In p ps /\ In c p.
Proof.
  intros c sep ps. induction ps as [|p rest IH]; cbn [join]; [intros []|].
  destruct rest as [|q rest'].
  - intro H. right. exists p. split; [now left|exact H].
  - intro H. apply in_app_or in H. destruct H as [H|[H|H]].
    + right. exists p. split; [now left|exact H].
    + now left.
    + destruct (IH H) as [E|(p' & Hp & Hc)]; [now left|]. right. exists p'. split; [now right|exact Hc].
Qed.

Lemma join_cons2 : forall sep p q rest, join sep (p :: q :: rest) = p ++ sep :: join sep (q :: rest).
Proof. reflexivity. Qed.

Lemma split_all_app : forall sep a r, ~ In sep a ->
  split_all sep (a ++ sep :: r) = a :: split_all sep r.
Proof.
  intros sep a r. induction a as [|b a IH]; intro H; cbn [Datatypes.app split_all].
  - now rewrite N.eqb_refl.
  - assert (Hb : b <> sep) by (intro E; apply H; now left).
    apply N.eqb_neq in Hb. rewrite Hb. rewrite IH; [reflexivity|]. intro Hin. apply H. now right.
Qed.

Lemma split_all_none : forall sep a, ~ In sep a -> split_all sep a = [a].
Proof.
  intros sep a. induction a as [|b a IH]; intro H; cbn [split_all]; [reflexivity|].
  assert (Hb : b <> sep) by (intro E; apply H; now left).
  apply N.eqb_neq in Hb. rewrite Hb. rewrite IH; [reflexivity|]. intro Hin. apply H. now right.
Qed.

Lemma split_all_join : forall sep ps, ps <> [] -> Forall (fun p => ~ In sep p) ps ->
  split_all sep (join sep ps) = ps.
Proof.
  intros sep ps Hne H. induction H as [|p rest Hp Hrest IH]; [contradiction|].
  destruct rest as [|q rest'].
  - cbn [join]. now apply split_all_none.
  - rewrite join_cons2. rewrite split_all_app by exact Hp. f_equal. apply IH. discriminate.
Qed.

Lemma take_until_app : forall sep a r, ~ In sep a -> take_until sep (a ++ sep :: r) = a.
Proof.
  intros sep a r. induction a as [|b a IH]; intro H; cbn [Datatypes.app take_until].
  - now rewrite N.eqb_refl.
  - assert (Hb : b <> sep) by (intro E; apply H; now left).
    apply N.eqb_neq in Hb. rewrite Hb. rewrite IH; [reflexivity|]. intro Hin. apply H. now right.
Qed.

Lemma strip_cr_no13 : forall s, ~ In 13 s -> strip_cr s = s.
Proof.
  induction s as [|b t IH]; intro H; [reflexivity|]. cbn [strip_cr]. destruct t as [|c t'].
  - assert (Hb : b <> 13) by (intro E; apply H; now left). apply N.eqb_neq in Hb. now rewrite Hb.
  - rewrite IH; [reflexivity|]. intro Hin. apply H. now right.
Qed.

Lemma strip_cr_app : forall a b, b <> [] -> strip_cr (a ++ b) = a ++ strip_cr b.
Proof.
  induction a as [|x a IH]; intros b Hb; [reflexivity|]. cbn [Datatypes.app strip_cr].
  destruct (a ++ b) eqn:E.
  - apply app_eq_nil in E. destruct E as [_ E]. contradiction.
  - rewrite <- E. now rewrite IH.
Qed.

(* ---- decimal ---- *)
Lemma bytes_uint_bytes : forall u, bytes_uint (uint_bytes u) = Some u.
Proof. induction u as [|u IH|u IH|u IH|u IH|u IH|u IH|u IH|u IH|u IH|u IH]; cbn [uint_bytes bytes_uint]; [reflexivity|..]; now rewrite IH. Qed.

Lemma uint_bytes_digits : forall u, Forall (fun c => 48 <= c <= 57) (uint_bytes u).
Proof. induction u; cbn [uint_bytes]; constructor; try lia; assumption. Qed.

Lemma fmt_dec_digits : forall n, Forall (fun c => 48 <= c <= 57) (fmt_dec n).
Proof. intro n. apply uint_bytes_digits. Qed.

Lemma fmt_dec_nonempty : forall n, fmt_dec n <> [].
Proof.
  intro n. unfold fmt_dec. destruct n as [|p]; cbn [N.to_uint uint_bytes]; [discriminate|].
  pose proof (DecimalPos.Unsigned.to_uint_nonnil p) as H. destruct (Pos.to_uint p); [contradiction|..]; discriminate.
Qed.

Lemma parse_dec_fmt : forall n, parse_dec (fmt_dec n) = Some n.
Proof.
  intro n. unfold parse_dec. pose proof (fmt_dec_nonempty n) as Hne.
  destruct (fmt_dec n) eqn:E; [contradiction|]. rewrite <- E. unfold fmt_dec.
  rewrite bytes_uint_bytes. now rewrite DecimalN.Unsigned.of_to.
Qed.

Lemma fmt_dec_avoids : forall n c, (c < 48 \/ 57 < c) -> ~ In c (fmt_dec n).
Proof.
  intros n c Hc Hin. pose proof (fmt_dec_digits n) as H. rewrite Forall_forall in H.
  specialize (H c Hin). lia.
Qed.

Lemma parse_pos_fmt : forall n, 1 <= n <= u64_max -> parse_pos (fmt_dec n) = Ok n.
Proof.
  intros n H. unfold parse_pos. rewrite parse_dec_fmt.
  destruct (n =? 0) eqn:E1; [lia|]. destruct (u64_max <? n) eqn:E2; [lia|]. reflexivity.
Qed.

Lemma fmt_dec_not_dot : forall n, fmt_dec n <> [46].
Proof.
  intros n E. assert (H : In 46 (fmt_dec n)) by (rewrite E; now left).
  revert H. apply fmt_dec_avoids. lia.
Qed.
