From Coq Require Import List NArith Bool Lia.
From NV Require Import Text.TextBase Text.TextBaseProofs Text.Gtf.
Import ListNotations.
Open Scope N_scope.

(* escaping then unescaping a value is the identity, for every byte string *)
Theorem gtf_value_escape_roundtrip : forall v, gtf_unescape false (gtf_escape v) = Some v.
Proof.
  induction v as [|c v IH]; [reflexivity|].
  unfold gtf_escape in *. cbn [flat_map].
  destruct ((c =? 92) || (c =? 34)) eqn:E.
  - cbn [app gtf_unescape]. rewrite N.eqb_refl. rewrite E. now rewrite IH.
  - cbn [app gtf_unescape]. apply orb_false_iff in E. destruct E as [E1 E2]. rewrite E1. now rewrite IH.
Qed.

(* the escaped text of a value without '"' contains no '"' *)
Lemma gtf_escape_no_quote : forall v, ~ In 34 v -> ~ In 34 (gtf_escape v).
Proof.
  induction v as [|c v IH]; intros H Hin; [exact Hin|].
  unfold gtf_escape in *. cbn [flat_map] in Hin. apply in_app_or in Hin.
  assert (Hc : c <> 34) by (intro E; apply H; now left).
  destruct Hin as [Hin|Hin].
  - destruct ((c =? 92) || (c =? 34)) eqn:E.
    + destruct Hin as [E'|[E'|[]]]; [discriminate|congruence].
    + destruct Hin as [E'|[]]. congruence.
  - apply IH; [|exact Hin]. intro Hv. apply H. now right.
Qed.

Definition key_ok (k : list N) : Prop := k <> [] /\ Forall (fun b => is_ascii_ws b = false) k.

Lemma key_no_space : forall k, key_ok k -> ~ In 32 k.
Proof.
  intros k [_ H] Hin. rewrite Forall_forall in H. specialize (H 32 Hin). discriminate.
Qed.

(* one `key "value";` item is parsed back to (key, escaped value) and the terminator and the
   following blanks are consumed -- for values without a double quote *)
Theorem gtf_item_roundtrip : forall k x rest, key_ok k -> ~ In 34 x ->
  gtf_parse_field (gtf_item_text k x ++ rest) = Ok (k, gtf_escape x, consume_terminator (59 :: rest)).
Proof.
  intros k x rest Hk Hx. unfold gtf_parse_field, gtf_item_text.
  rewrite <- app_assoc. cbn [app]. rewrite split_once_app by (now apply key_no_space).
  rewrite <- app_assoc. cbn [app].
  rewrite split_once_app by (now apply gtf_escape_no_quote). reflexivity.
Qed.

(* the defect: a value with a double quote is cut at the escaped quote *)
Theorem gtf_quote_refuted : exists k x,
  key_ok k /\ gtf_attrs_parse (gtf_attrs_text [(k, VString x)]) = Err InvalidData.
Proof.
  exists [107], [97; 34; 98]. split; [|vm_compute; reflexivity].
  split; [discriminate|]. repeat constructor.
Qed.

Definition gtf_demo : feature :=
  {| f_seqid := [99]; f_source := [46]; f_type := [103]; f_start := 7; f_end := 9; f_score := None;
     f_strand := SForward; f_phase := Some POne;
     f_attrs := [([107], VArray [[97; 92; 98]; [59; 32]; [97; 92; 98]]); ([106], VString [])] |}.

(* non-vacuity / regression example: multi-valued attribute with backslashes, order kept *)
Example gtf_demo_roundtrip :
  match gtf_write (fun _ => []) gtf_demo with
  | Ok line => match gtf_read (fun _ => None) (line ++ [10]) with
               | GRec l => gtf_owned l = Ok gtf_demo
               | _ => False
               end
  | _ => False
  end.
Proof. vm_compute. reflexivity. Qed.

Example gtf_quote_owned_panics :
  match gtf_write (fun _ => []) {| f_seqid := [99]; f_source := [46]; f_type := [103]; f_start := 1; f_end := 1;
                                    f_score := None; f_strand := SNone; f_phase := None;
                                    f_attrs := [([107], VString [97; 34; 98])] |} with
  | Ok line => match gtf_read (fun _ => None) (line ++ [10]) with
               | GRec l => gtf_owned l = Panic
               | _ => False
               end
  | _ => False
  end.
Proof. vm_compute. reflexivity. Qed.
