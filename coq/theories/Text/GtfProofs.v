From Coq Require Import List NArith Bool Lia.
From NV Require Import Text.TextBase Text.TextBaseProofs Text.Gtf.
Import ListNotations.
Open Scope N_scope.

(* escaping then unescaping a value is the identity, for every byte string *)
Theorem gtf_value_escape_roundtrip : forall v, gtf_unescape false (gtf_escape v) = Some v.
Proof.
  induction v as [|c v IH]; [reflexivity|].
  unfold gtf_escape in *. cbn [flat_map].
  destruct ((c =? 92) || (c =? 34)) eqn:E.
  - cbn [app gtf_unescape]. rewrite N.eqb_refl. rewrite E. now rewrite IH.
  - cbn [app gtf_unescape]. apply orb_false_iff in E. destruct E as [E1 E2]. rewrite E1. now rewrite IH.
Qed.

Lemma gtf_escape_cons : forall c v,
  gtf_escape (c :: v) = (if (c =? 92) || (c =? 34) then [92; c] else [c]) ++ gtf_escape v.
Proof. reflexivity. Qed.

(* the repaired parse_string finds the closing quote after ANY escaped value *)
Theorem split_quote_escape : forall x rest,
  split_quote false (gtf_escape x ++ 34 :: rest) = Some (gtf_escape x, rest).
Proof.
  induction x as [|c x IH]; intro rest.
  - cbn [gtf_escape flat_map app split_quote]. now rewrite N.eqb_refl.
  - rewrite gtf_escape_cons. destruct ((c =? 92) || (c =? 34)) eqn:E.
    + cbn [app split_quote]. change (92 =? 34) with false. change (92 =? 92) with true.
      cbn iota. now rewrite IH.
    + apply orb_false_iff in E. destruct E as [E1 E2].
      cbn [app split_quote]. rewrite E2, E1. now rewrite IH.
Qed.

Definition key_ok (k : list N) : Prop := k <> [] /\ Forall (fun b => is_ascii_ws b = false) k.

Lemma key_no_space : forall k, key_ok k -> ~ In 32 k.
Proof.
  intros k [_ H] Hin. rewrite Forall_forall in H. specialize (H 32 Hin). discriminate.
Qed.

(* one `key 'value';` item is parsed back to (key, escaped value) and the terminator and the
   following blanks are consumed -- for EVERY value (double quotes included) *)
Theorem gtf_item_roundtrip : forall k x rest, key_ok k ->
  gtf_parse_field (gtf_item_text k x ++ rest) = Ok (k, gtf_escape x, consume_terminator (59 :: rest)).
Proof.
  intros k x rest Hk. unfold gtf_parse_field, gtf_item_text.
  rewrite <- app_assoc. cbn [app]. rewrite split_once_app by (now apply key_no_space).
  rewrite <- app_assoc. cbn [app].
  now rewrite split_quote_escape.
Qed.

(* ---- the attribute column as a sequence of (key, item) pairs ---- *)
Definition pair_text (p : list N * list N) : list N := gtf_item_text (fst p) (snd p).
Definition pairs_text (ps : list (list N * list N)) : list N := join 32 (map pair_text ps).
Definition push_pair (m : list (list N * value)) (p : list N * list N) := map_push m (fst p) (snd p).

Lemma trim_start_key : forall k rest, key_ok k -> trim_start (k ++ rest) = k ++ rest.
Proof.
  intros [|b k] rest [Hne HF]; [contradiction|]. inversion HF as [|? ? Hb _]; subst.
  cbn [app trim_start]. now rewrite Hb.
Qed.

Lemma item_text_shape : forall k x, gtf_item_text k x = k ++ (32 :: 34 :: gtf_escape x ++ [34; 59]).
Proof. reflexivity. Qed.

Lemma pairs_text_head : forall p ps, key_ok (fst p) ->
  trim_start (pairs_text (p :: ps)) = pairs_text (p :: ps).
Proof.
  intros p ps Hk. destruct ps as [|q ps'].
  - change (pairs_text [p]) with (fst p ++ (32 :: 34 :: gtf_escape (snd p) ++ [34; 59])).
    now apply trim_start_key.
  - change (pairs_text (p :: q :: ps'))
      with ((fst p ++ (32 :: 34 :: gtf_escape (snd p) ++ [34; 59])) ++ 32 :: pairs_text (q :: ps')).
    rewrite <- app_assoc. now apply trim_start_key.
Qed.

Lemma loop_step : forall f src k raw rest x m, src <> [] ->
  gtf_parse_field src = Ok (k, raw, rest) -> gtf_unescape false raw = Some x ->
  gtf_attrs_loop (S f) src m = gtf_attrs_loop f rest (map_push m k x).
Proof.
  intros f src k raw rest x m Hne Hp Hu. destruct src as [|b s]; [contradiction|].
  cbn [gtf_attrs_loop]. now rewrite Hp, Hu.
Qed.

Lemma item_nonempty : forall k x rest, gtf_item_text k x ++ rest <> [].
Proof.
  intros k x rest E. rewrite item_text_shape in E. rewrite <- app_assoc in E.
  apply app_eq_nil in E. destruct E as [_ E]. discriminate.
Qed.

(* the reader's loop over a written attribute column performs exactly the pushes of the written
   (key, item) pairs, in order; the fuel of the wrapper is sufficient *)
Theorem gtf_loop_pairs : forall ps fuel m, Forall (fun p => key_ok (fst p)) ps ->
  (length (pairs_text ps) < fuel)%nat ->
  gtf_attrs_loop fuel (pairs_text ps) m = Ok (fold_left push_pair ps m).
Proof.
  intros ps fuel m H. revert fuel m. induction H as [|p ps Hp Hps IH]; intros fuel m Hf.
  - destruct fuel; [lia|]. reflexivity.
  - destruct fuel as [|f]; [lia|]. destruct ps as [|q ps'].
    + unfold pairs_text in *. cbn [map join] in *. unfold pair_text in *.
      rewrite <- (app_nil_r (gtf_item_text (fst p) (snd p))).
      rewrite (loop_step f _ (fst p) (gtf_escape (snd p)) (consume_terminator [59]) (snd p)).
      * change (consume_terminator [59]) with (@nil N).
        destruct f as [|f']; [|reflexivity].
        rewrite item_text_shape, app_length in Hf. cbn [length] in Hf. lia.
      * apply item_nonempty.
      * now apply gtf_item_roundtrip.
      * apply gtf_value_escape_roundtrip.
    + assert (E : pairs_text (p :: q :: ps') = gtf_item_text (fst p) (snd p) ++ 32 :: pairs_text (q :: ps')) by reflexivity.
      rewrite E in *.
      rewrite (loop_step f _ (fst p) (gtf_escape (snd p))
                 (consume_terminator (59 :: 32 :: pairs_text (q :: ps'))) (snd p)).
      * assert (Ec : consume_terminator (59 :: 32 :: pairs_text (q :: ps')) = pairs_text (q :: ps')).
        { unfold consume_terminator. cbn [trim_start]. change (is_ascii_ws 59) with false. cbn iota.
          rewrite N.eqb_refl. cbn [trim_start]. change (is_ascii_ws 32) with true. cbn iota.
          apply pairs_text_head. inversion Hps; assumption. }
        rewrite Ec. cbn [fold_left]. apply IH.
        rewrite app_length in Hf. cbn [length] in Hf. lia.
      * apply item_nonempty.
      * now apply gtf_item_roundtrip.
      * apply gtf_value_escape_roundtrip.
Qed.

(* nested joins of the writer = one join over the pairs, when every attribute has >= 1 item *)
Lemma join_nonempty : forall sep p ps, p <> [] -> join sep (p :: ps) <> [].
Proof.
  intros sep p ps H E. cbn [join] in E. destruct ps; [contradiction|].
  apply app_eq_nil in E. destruct E as [E _]. contradiction.
Qed.

Lemma join_app : forall sep a b, a <> [] -> b <> [] ->
  join sep (a ++ b) = join sep a ++ sep :: join sep b.
Proof.
  intros sep a b Ha Hb. induction a as [|p a IH]; [contradiction|].
  destruct a as [|q a'].
  - cbn [app join]. destruct b; [contradiction|reflexivity].
  - assert (IH' : join sep (q :: a' ++ b) = join sep (q :: a') ++ sep :: join sep b)
      by (apply IH; discriminate).
    change ((p :: q :: a') ++ b) with (p :: q :: a' ++ b).
    rewrite (join_cons2 sep p q (a' ++ b)), (join_cons2 sep p q a'), IH'.
    now rewrite <- app_assoc.
Qed.

Definition attr_items_ok (kv : list N * value) : Prop := value_items (snd kv) <> [].

Lemma field_text_pairs : forall kv,
  gtf_field_text kv = pairs_text (map (fun x => (fst kv, x)) (value_items (snd kv))).
Proof.
  intro kv. unfold gtf_field_text, pairs_text. now rewrite map_map.
Qed.

Lemma attrs_text_pairs : forall a, Forall attr_items_ok a -> gtf_attrs_text a = pairs_text (gtf_pairs a).
Proof.
  intros a H. induction H as [|kv a Hkv Ha IH]; [reflexivity|].
  unfold gtf_attrs_text in *. cbn [map]. unfold gtf_pairs in *. cbn [flat_map].
  destruct a as [|kv' a'].
  - cbn [map join flat_map]. rewrite app_nil_r. apply field_text_pairs.
  - cbn [map] in *. rewrite join_cons2. rewrite IH. rewrite field_text_pairs.
    unfold pairs_text. rewrite map_app. rewrite join_app; [reflexivity| |].
    + unfold attr_items_ok in Hkv. destruct (value_items (snd kv)); [contradiction|discriminate].
    + inversion Ha as [|? ? Hkv' _]; subst. unfold attr_items_ok in Hkv'. cbn [flat_map].
      destruct (value_items (snd kv')); [contradiction|discriminate].
Qed.

(* whole attribute column: what the reader builds is the fold of the pushes of the written pairs *)
Theorem gtf_attrs_parse_pairs : forall a,
  Forall (fun kv => key_ok (fst kv)) a -> Forall attr_items_ok a ->
  gtf_attrs_parse (gtf_attrs_text a) = Ok (fold_left push_pair (gtf_pairs a) []).
Proof.
  intros a Hk Hi. unfold gtf_attrs_parse. rewrite attrs_text_pairs by exact Hi.
  apply gtf_loop_pairs; [|lia].
  unfold gtf_pairs. apply Forall_forall. intros p Hp. apply in_flat_map in Hp.
  destruct Hp as (kv & Hkv & Hp). apply in_map_iff in Hp. destruct Hp as (x & E & _). subst p.
  rewrite Forall_forall in Hk. now apply Hk.
Qed.

(* ---- regrouping: pushes of the pairs of distinct keys rebuild the attribute list ---- *)
Definition gtf_canon_value (v : value) : value :=
  match value_items v with
  | [] => VString []
  | [x] => VString x
  | l => VArray l
  end.
Definition gtf_canon_attrs (a : list (list N * value)) : list (list N * value) :=
  map (fun kv => (fst kv, gtf_canon_value (snd kv))) a.

Lemma map_push_fresh : forall m k x, ~ In k (map fst m) -> map_push m k x = m ++ [(k, VString x)].
Proof.
  induction m as [|[k' v] m IH]; intros k x H; [reflexivity|]. cbn [map_push app].
  rewrite bytes_eqb_neq by (intro E; apply H; left; exact E).
  rewrite IH; [reflexivity|]. intro Hin. apply H. now right.
Qed.

Lemma map_push_last : forall m k v x, ~ In k (map fst m) ->
  map_push (m ++ [(k, v)]) k x = m ++ [(k, value_push v x)].
Proof.
  induction m as [|[k' v'] m IH]; intros k v x H.
  - cbn [app map_push]. now rewrite bytes_eqb_refl.
  - cbn [app map_push]. rewrite bytes_eqb_neq by (intro E; apply H; left; exact E).
    rewrite IH; [reflexivity|]. intro Hin. apply H. now right.
Qed.

Lemma push_items_array : forall k m l0 xs, ~ In k (map fst m) -> (2 <= length l0)%nat ->
  fold_left push_pair (map (fun x => (k, x)) xs) (m ++ [(k, VArray l0)]) = m ++ [(k, VArray (l0 ++ xs))].
Proof.
  intros k m l0 xs Hk. revert l0. induction xs as [|x xs IH]; intros l0 Hl.
  - cbn. now rewrite app_nil_r.
  - cbn [map fold_left]. change (push_pair (m ++ [(k, VArray l0)]) (k, x)) with (map_push (m ++ [(k, VArray l0)]) k x).
    rewrite map_push_last by exact Hk. cbn [value_push]. rewrite IH by (rewrite app_length; cbn; lia). now rewrite <- app_assoc.
Qed.

Lemma push_items : forall k m xs, ~ In k (map fst m) -> xs <> [] ->
  fold_left push_pair (map (fun x => (k, x)) xs) m = m ++ [(k, gtf_canon_value (VArray xs))].
Proof.
  intros k m xs Hk Hne. destruct xs as [|x [|y xs]]; [contradiction| |].
  - cbn [map fold_left]. unfold push_pair. cbn [fst snd]. now rewrite map_push_fresh.
  - cbn [map fold_left]. change (push_pair m (k, x)) with (map_push m k x).
    rewrite map_push_fresh by exact Hk.
    change (push_pair (m ++ [(k, VString x)]) (k, y)) with (map_push (m ++ [(k, VString x)]) k y).
    rewrite map_push_last by exact Hk. cbn [value_push].
    rewrite push_items_array by (exact Hk || (cbn; lia)). reflexivity.
Qed.

Lemma canon_value_array : forall v, gtf_canon_value (VArray (value_items v)) = gtf_canon_value v.
Proof. intros [s|l]; reflexivity. Qed.

Theorem gtf_regroup : forall a m, NoDup (map fst m ++ map fst a) -> Forall attr_items_ok a ->
  fold_left push_pair (gtf_pairs a) m = m ++ gtf_canon_attrs a.
Proof.
  induction a as [|kv a IH]; intros m Hnd Hi.
  - cbn. now rewrite app_nil_r.
  - inversion Hi as [|? ? Hkv Ha]; subst. unfold gtf_pairs in *. cbn [flat_map].
    rewrite fold_left_app. cbn [map] in Hnd.
    assert (Hfresh : ~ In (fst kv) (map fst m)).
    { apply NoDup_remove_2 in Hnd. intro Hin. apply Hnd. apply in_or_app. now left. }
    rewrite push_items by (exact Hfresh || exact Hkv). rewrite canon_value_array.
    rewrite IH.
    + rewrite <- app_assoc. reflexivity.
    + rewrite map_app. cbn [map]. rewrite <- app_assoc. cbn [app].
      apply NoDup_remove_1 in Hnd as Hnd1.
      (* move the key from the middle to its place *)
      assert (Hperm : NoDup (map fst m ++ fst kv :: map fst a)) by exact Hnd. exact Hperm.
    + exact Ha.
Qed.

(* the whole attribute column, for ALL byte-string values (double quotes and backslashes
   included), distinct non-blank keys, 1..k items each: multi-values keep their order *)
Theorem gtf_attrs_roundtrip : forall a,
  Forall (fun kv => key_ok (fst kv)) a -> Forall attr_items_ok a -> NoDup (map fst a) ->
  gtf_attrs_parse (gtf_attrs_text a) = Ok (gtf_canon_attrs a).
Proof.
  intros a Hk Hi Hnd. rewrite gtf_attrs_parse_pairs by assumption.
  now rewrite (gtf_regroup a []) by assumption.
Qed.

Definition gtf_demo : feature :=
  {| f_seqid := [99]; f_source := [46]; f_type := [103]; f_start := 7; f_end := 9; f_score := None;
     f_strand := SForward; f_phase := Some POne;
     f_attrs := [([107], VArray [[97; 92; 98]; [59; 32; 34]; [97; 34; 98]]); ([106], VString [34])] |}.

(* non-vacuity / regression example: multi-valued attribute with backslashes and double quotes *)
Example gtf_demo_roundtrip :
  match gtf_write (fun _ => []) gtf_demo with
  | Ok line => match gtf_read (fun _ => None) (line ++ [10]) with
               | GRec l => gtf_owned l = Ok gtf_demo
               | _ => False
               end
  | _ => False
  end.
Proof. vm_compute. reflexivity. Qed.

(* a malformed attribute column makes the owning conversion fail with the parse error (it was a
   panic, attributes().unwrap(), before the repair /repo f2d5d2d) *)
Example gtf_malformed_owned_errors :
  match gtf_read (fun _ => None) [99; 9; 46; 9; 103; 9; 49; 9; 49; 9; 46; 9; 46; 9; 46; 9; 107; 10] with
  | GRec l => gtf_owned l = Err InvalidData /\ snd (l_attrs l) = Some (Err InvalidData)
  | _ => False
  end.
Proof. vm_compute. split; reflexivity. Qed.

(* ---- whole records ---- *)
Lemma escape_chars : forall x c, In c (gtf_escape x) -> c = 92 \/ In c x.
Proof.
  induction x as [|b x IH]; intros c H; [destruct H|]. rewrite gtf_escape_cons in H.
  apply in_app_or in H. destruct H as [H|H].
  - destruct ((b =? 92) || (b =? 34)).
    + destruct H as [E|[E|[]]]; [now left|right; now left].
    + destruct H as [E|[]]. right. now left.
  - destruct (IH c H) as [E|E]; [now left|right; now right].
Qed.

Definition gtf_attr_ok (kv : list N * value) : Prop :=
  key_ok (fst kv) /\ value_items (snd kv) <> [] /\
  Forall (fun x => ~ In 10 x /\ ~ In 13 x) (value_items (snd kv)).

Lemma key_no_ws : forall k c, key_ok k -> is_ascii_ws c = true -> ~ In c k.
Proof. intros k c [_ H] Hc Hin. rewrite Forall_forall in H. specialize (H c Hin). congruence. Qed.

Lemma attrs_text_avoid : forall a c, Forall gtf_attr_ok a -> In c [10; 13] -> ~ In c (gtf_attrs_text a).
Proof.
  intros a c H Hc Hin.
  assert (Hc' : c = 10 \/ c = 13) by (cbn [In] in Hc; intuition).
  unfold gtf_attrs_text in Hin. apply In_join in Hin.
  destruct Hin as [E|(p & Hp & Hcp)]; [destruct Hc'; subst; discriminate|].
  apply in_map_iff in Hp. destruct Hp as (kv & E & Hkv). subst p.
  rewrite Forall_forall in H. destruct (H kv Hkv) as (Hk & _ & Hv).
  unfold gtf_field_text in Hcp. apply In_join in Hcp.
  destruct Hcp as [E|(p & Hp & Hcp)]; [destruct Hc'; subst; discriminate|].
  apply in_map_iff in Hp. destruct Hp as (x & E & Hx). subst p.
  rewrite Forall_forall in Hv. destruct (Hv x Hx) as [H10 H13].
  rewrite item_text_shape in Hcp. apply in_app_or in Hcp. destruct Hcp as [Hcp|Hcp].
  - revert Hcp. apply key_no_ws; [exact Hk|]. destruct Hc'; subst; reflexivity.
  - destruct Hcp as [E|[E|Hcp]]; try (destruct Hc'; subst; discriminate).
    apply in_app_or in Hcp. destruct Hcp as [Hcp|Hcp].
    + apply escape_chars in Hcp. destruct Hcp as [E|Hcp]; [destruct Hc'; subst; discriminate|].
      destruct Hc'; subst; tauto.
    + destruct Hcp as [E|[E|[]]]; destruct Hc'; subst; discriminate.
Qed.

Lemma strip_cr_tabbed : forall fs, strip_cr (tabbed fs) = tabbed fs.
Proof.
  intro fs. destruct fs as [|f0 fs0]; [reflexivity|].
  destruct (@exists_last _ (f0 :: fs0)) as (l & a & E); [discriminate|]. rewrite E.
  unfold tabbed. rewrite flat_map_app. cbn [flat_map]. rewrite app_nil_r, app_assoc.
  rewrite strip_cr_app by discriminate. reflexivity.
Qed.

Definition gtf_wf (fmt : N -> list N) (prs : list N -> option N) (r : feature) : Prop :=
  (~ In 9 (f_seqid r) /\ ~ In 10 (f_seqid r) /\ ~ In 35 (firstn 1 (f_seqid r)))
  /\ (~ In 9 (f_source r) /\ ~ In 10 (f_source r))
  /\ (~ In 9 (f_type r) /\ ~ In 10 (f_type r))
  /\ 1 <= f_start r <= u64_max /\ 1 <= f_end r <= u64_max
  /\ (forall x, f_score r = Some x ->
        prs (fmt x) = Some x /\ ~ In 9 (fmt x) /\ ~ In 10 (fmt x) /\ fmt x <> [46])
  /\ Forall gtf_attr_ok (f_attrs r) /\ NoDup (map fst (f_attrs r)).

Lemma single_avoid' : forall (c d : N), c <> d -> ~ In c [d].
Proof. intros c d H [E|[]]. congruence. Qed.

Lemma gtf_columns_clean : forall fmt prs r, gtf_wf fmt prs r ->
  Forall (fun f => ~ In 9 f /\ ~ In 10 f) (gtf_columns fmt r).
Proof.
  intros fmt prs r ((Hs9 & Hs10 & _) & Hso & Hty & _ & _ & Hsc & _). unfold gtf_columns.
  repeat apply Forall_cons; try apply Forall_nil.
  - now split.
  - exact Hso.
  - exact Hty.
  - split; apply fmt_dec_avoids; lia.
  - split; apply fmt_dec_avoids; lia.
  - destruct (f_score r) as [x|] eqn:E; cbn [score_text].
    + destruct (Hsc x eq_refl) as (_ & H9 & H10 & _). now split.
    + split; apply single_avoid'; lia.
  - destruct (f_strand r); cbn [strand_text]; split; apply single_avoid'; lia.
  - destruct (f_phase r) as [[]|]; cbn [phase_text]; split; apply single_avoid'; lia.
Qed.

Lemma gtf_write_ok : forall fmt r line, gtf_write fmt r = Ok line ->
  f_strand r <> SUnknown /\ line = tabbed (gtf_columns fmt r) ++ gtf_attrs_text (f_attrs r).
Proof.
  intros fmt r line H. unfold gtf_write in H.
  destruct (f_strand r); try discriminate; (split; [discriminate|symmetry; congruence]).
Qed.

Lemma gtf_strand_text : forall s, s <> SUnknown -> gtf_parse_strand (strand_text s) = Ok s.
Proof. destruct s; intro H; try reflexivity. contradiction. Qed.

Lemma gtf_phase_text : forall p, parse_phase (phase_text p) = option_map Ok p.
Proof. destruct p as [[]|]; reflexivity. Qed.

Lemma gtf_score_text : forall fmt prs sc,
  (forall x, sc = Some x -> prs (fmt x) = Some x /\ fmt x <> [46]) ->
  parse_score prs (score_text fmt sc) = option_map Ok sc.
Proof.
  intros fmt prs [x|] H; [|reflexivity]. destruct (H x eq_refl) as [H1 H2].
  unfold parse_score, score_text. rewrite bytes_eqb_neq by exact H2. now rewrite H1.
Qed.

Definition gtf_expected (r : feature) : lazy_feature :=
  {| l_seqid := f_seqid r; l_source := f_source r; l_type := f_type r;
     l_start := Ok (f_start r); l_end := Ok (f_end r); l_score := option_map Ok (f_score r);
     l_strand := Ok (f_strand r); l_phase := option_map Ok (f_phase r);
     l_attrs := (gtf_canon_attrs (f_attrs r), None) |}.

Lemma gtf_hash_head : forall a rest, ~ In 35 (firstn 1 a) -> gtf_starts_with_hash (a ++ 9 :: rest) = false.
Proof.
  intros [|b a] rest H; [reflexivity|]. cbn [app gtf_starts_with_hash]. apply N.eqb_neq.
  intro E. apply H. cbn. now left.
Qed.

(* A written GTF record line reads back field for field: every byte string as attribute value
   (double quotes and backslashes included, no LF/CR), multi-values in order. *)
Theorem gtf_record_roundtrip : forall fmt prs r line,
  gtf_wf fmt prs r -> gtf_write fmt r = Ok line ->
  gtf_read prs (line ++ [10]) = GRec (gtf_expected r).
Proof.
  intros fmt prs r line Hwf Hw. pose proof (gtf_columns_clean fmt prs r Hwf) as Hcols.
  destruct Hwf as ((Hs9 & Hs10 & Hs35) & Hso & Hty & Hst & Hen & Hsc & Hat & Hnd).
  apply gtf_write_ok in Hw. destruct Hw as [Hstrand Hl]. subst line.
  assert (H10 : ~ In 10 (tabbed (gtf_columns fmt r) ++ gtf_attrs_text (f_attrs r))).
  { intro Hin. apply in_app_or in Hin. destruct Hin as [Hin|Hin].
    - apply In_tabbed in Hin. destruct Hin as [E|(f & Hf & Hc)]; [discriminate|].
      rewrite Forall_forall in Hcols. destruct (Hcols f Hf) as [_ Hn]. now apply Hn.
    - revert Hin. apply attrs_text_avoid; [exact Hat|cbn; tauto]. }
  unfold gtf_read, first_line. rewrite take_until_app by exact H10.
  assert (Hcr : strip_cr (tabbed (gtf_columns fmt r) ++ gtf_attrs_text (f_attrs r))
                = tabbed (gtf_columns fmt r) ++ gtf_attrs_text (f_attrs r)).
  { destruct (gtf_attrs_text (f_attrs r)) eqn:E.
    - rewrite app_nil_r. apply strip_cr_tabbed.
    - rewrite <- E. rewrite strip_cr_app by (rewrite E; discriminate).
      rewrite (strip_cr_no13 (gtf_attrs_text (f_attrs r))); [reflexivity|].
      apply attrs_text_avoid; [exact Hat|cbn; tauto]. }
  rewrite Hcr. cbv zeta.
  assert (Hh : gtf_starts_with_hash (tabbed (gtf_columns fmt r) ++ gtf_attrs_text (f_attrs r)) = false).
  { unfold gtf_columns, tabbed. cbn [flat_map]. rewrite <- !app_assoc. cbn [app].
    now apply gtf_hash_head. }
  rewrite Hh.
  change 8%nat with (length (gtf_columns fmt r)).
  rewrite take_fields_tabbed.
  2:{ eapply Forall_impl; [|exact Hcols]. intros f [H9 _]. exact H9. }
  unfold gtf_columns, gtf_lazy_of_columns, gtf_expected.
  rewrite !parse_pos_fmt by assumption.
  rewrite gtf_strand_text by exact Hstrand. rewrite gtf_phase_text.
  rewrite gtf_attrs_roundtrip.
  - rewrite (gtf_score_text fmt prs (f_score r)); [reflexivity|].
    intros x E. destruct (Hsc x E) as (H1 & _ & _ & H4). now split.
  - eapply Forall_impl; [|exact Hat]. intros kv (Hk & _). exact Hk.
  - eapply Forall_impl; [|exact Hat]. intros kv (_ & Hi & _). exact Hi.
  - exact Hnd.
Qed.

(* owned record (through the unwrap) of a written line *)
Theorem gtf_record_roundtrip_owned : forall fmt prs r line,
  gtf_wf fmt prs r -> gtf_write fmt r = Ok line ->
  exists l, gtf_read prs (line ++ [10]) = GRec l /\
    gtf_owned l = Ok {| f_seqid := f_seqid r; f_source := f_source r; f_type := f_type r;
                        f_start := f_start r; f_end := f_end r; f_score := f_score r;
                        f_strand := f_strand r; f_phase := f_phase r;
                        f_attrs := gtf_canon_attrs (f_attrs r) |}.
Proof.
  intros fmt prs r line Hwf Hw. exists (gtf_expected r).
  split; [eapply gtf_record_roundtrip; eassumption|].
  unfold gtf_owned, gtf_expected, owned_of_lazy. cbn [l_start l_end l_score l_strand l_phase l_attrs l_seqid l_source l_type fst snd].
  destruct (f_score r), (f_phase r); reflexivity.
Qed.
