(* Proofs about the typed GFF3 directive values re-parsed from their text (Text/GffDirValue.v). *)
From Coq Require Import List NArith PArith Bool Lia ZifyBool ZifyNat ZifyN Decimal DecimalN DecimalPos.
From NV Require Import Text.TextBase Text.TextBaseProofs Text.GffLine Text.GffLineProofs
  Text.GffDirValue.
Import ListNotations.
Open Scope N_scope.

(* ---- decimal text of the writers re-parsed by core::num ---- *)

Lemma of_uint_acc_ge : forall u p, (p <= Pos.of_uint_acc u p)%positive.
Proof.
  induction u as [|u IH|u IH|u IH|u IH|u IH|u IH|u IH|u IH|u IH|u IH]; intro p;
    cbn [Pos.of_uint_acc]; [lia|..];
    (eapply Pos.le_trans; [|apply IH]; lia).
Qed.

Ltac digit_true :=
  match goal with
  | |- context [(?a <=? ?b) && (?c <=? ?d)] =>
      change ((a <=? b) && (c <=? d)) with true
  end; cbv iota zeta.

Lemma std_digits_acc : forall max u p, N.pos (Pos.of_uint_acc u p) <= max ->
  std_digits max (N.pos p) (uint_bytes u) = IOk (N.pos (Pos.of_uint_acc u p)).
Proof.
  intros max u.
  induction u as [|u IH|u IH|u IH|u IH|u IH|u IH|u IH|u IH|u IH|u IH]; intros p H;
    cbn [uint_bytes std_digits Pos.of_uint_acc] in *; [reflexivity|..];
    digit_true;
    match goal with
    | H0 : N.pos (Pos.of_uint_acc u ?q) <= max |- context [max <? ?a] =>
        replace a with (N.pos q) by lia;
        pose proof (of_uint_acc_ge u q) as Hge;
        destruct (max <? N.pos q) eqn:E; [lia|]; apply IH; exact H0
    end.
Qed.

Lemma std_digits_of_uint : forall max u, Pos.of_uint u <= max ->
  std_digits max 0 (uint_bytes u) = IOk (Pos.of_uint u).
Proof.
  intros max u.
  induction u as [|u IH|u IH|u IH|u IH|u IH|u IH|u IH|u IH|u IH|u IH]; intro H;
    cbn [uint_bytes std_digits Pos.of_uint] in *; [reflexivity|..]; digit_true;
    [ change (0 * 10 + (48 - 48)) with 0;
      destruct (max <? 0) eqn:E; [lia|]; apply IH; exact H
    | match goal with
      | H0 : N.pos (Pos.of_uint_acc ?uu ?q) <= max |- context [max <? ?a] =>
          replace a with (N.pos q) by reflexivity;
          pose proof (of_uint_acc_ge uu q) as Hge;
          destruct (max <? N.pos q) eqn:E; [lia|]; apply std_digits_acc; exact H0
      end .. ].
Qed.

Lemma std_digits_fmt : forall max n, n <= max -> std_digits max 0 (fmt_dec n) = IOk n.
Proof.
  intros max n H. unfold fmt_dec.
  assert (E : Pos.of_uint (N.to_uint n) = n) by apply DecimalN.Unsigned.of_to.
  rewrite std_digits_of_uint; rewrite E; [reflexivity|exact H].
Qed.

Lemma std_parse_uint_fmt : forall max n, n <= max -> std_parse_uint max (fmt_dec n) = IOk n.
Proof.
  intros max n H.
  pose proof (std_digits_fmt max n H) as Hd.
  pose proof (fmt_dec_nonempty n) as Hne. pose proof (fmt_dec_digits n) as Hdig.
  destruct (fmt_dec n) as [|c t]; [contradiction|].
  pose proof (Forall_inv Hdig) as Hc. cbv beta in Hc.
  unfold std_parse_uint. destruct t as [|c2 t2].
  - destruct ((c =? 43) || (c =? 45)) eqn:E; [lia|]. exact Hd.
  - destruct (c =? 43) eqn:E; [lia|]. exact Hd.
Qed.

Lemma std_parse_nonzero_fmt : forall n, 1 <= n <= u64_max -> std_parse_nonzero (fmt_dec n) = IOk n.
Proof.
  intros n [H1 H2]. unfold std_parse_nonzero. rewrite std_parse_uint_fmt by exact H2.
  destruct (n =? 0) eqn:E; [lia|]. reflexivity.
Qed.

(* ---- GffVersion ---- *)

Definition version_ok (ma : N) (mi : option (N * option N)) : Prop :=
  ma <= u32_max /\ match mi with None => True | Some (m, p) => m <= u32_max /\ match p with None => True | Some q => q <= u32_max end end.

Lemma fmt_dec_no_dot : forall n, ~ In 46 (fmt_dec n).
Proof. intro n. apply fmt_dec_avoids. lia. Qed.

Lemma splitn3_version_text : forall ma mi,
  splitn 3 46 (version_text ma mi)
  = fmt_dec ma :: match mi with
                  | None => []
                  | Some (m, p) => fmt_dec m :: match p with None => [] | Some q => [fmt_dec q] end
                  end.
Proof.
  intros ma mi. unfold version_text. destruct mi as [[m [q|]]|]; cbn [splitn].
  - rewrite split_once_app by apply fmt_dec_no_dot.
    rewrite split_once_app by apply fmt_dec_no_dot. reflexivity.
  - rewrite split_once_app by apply fmt_dec_no_dot. rewrite app_nil_r.
    rewrite split_once_none by apply fmt_dec_no_dot. reflexivity.
  - rewrite app_nil_r. rewrite split_once_none by apply fmt_dec_no_dot. reflexivity.
Qed.

Lemma version_text_nonempty : forall ma mi, version_text ma mi <> [].
Proof.
  intros ma mi. unfold version_text. pose proof (fmt_dec_nonempty ma) as H.
  destruct (fmt_dec ma); [contradiction|discriminate].
Qed.

Theorem parse_gff_version_roundtrip : forall ma mi, version_ok ma mi ->
  parse_gff_version (version_text ma mi)
  = POk (ma, match mi with None => None | Some (m, _) => Some m end,
             match mi with Some (_, p) => p | None => None end).
Proof.
  intros ma mi [Hma Hmi].
  pose proof (version_text_nonempty ma mi) as Hne.
  pose proof (splitn3_version_text ma mi) as Hs.
  unfold parse_gff_version.
  destruct (version_text ma mi) as [|c0 t0]; [contradiction|].
  rewrite Hs. rewrite std_parse_uint_fmt by exact Hma.
  destruct mi as [[m [q|]]|].
  - destruct Hmi as [Hm Hq].
    rewrite std_parse_uint_fmt by exact Hm. rewrite std_parse_uint_fmt by exact Hq. reflexivity.
  - destruct Hmi as [Hm _]. rewrite std_parse_uint_fmt by exact Hm. reflexivity.
  - reflexivity.
Qed.

(* ---- split_ascii_whitespace ---- *)

Definition starts_ws (rest : list N) : Prop :=
  match rest with [] => True | w :: _ => is_ws w = true end.

Lemma ws_tokens_aux_ws : forall w rest, is_ws w = true ->
  ws_tokens_aux (w :: rest) = (fst (ws_tokens_aux rest), false).
Proof.
  intros w rest H. cbn [ws_tokens_aux]. destruct (ws_tokens_aux rest) as [toks ins].
  rewrite H. reflexivity.
Qed.

Lemma ws_tokens_aux_starts_ws : forall rest, starts_ws rest -> snd (ws_tokens_aux rest) = false.
Proof.
  intros rest H. destruct rest as [|w r]; [reflexivity|]. cbn [starts_ws] in H.
  rewrite ws_tokens_aux_ws by exact H. reflexivity.
Qed.

Lemma ws_tokens_aux_tok : forall tok rest, tok <> [] -> no_ws tok -> starts_ws rest ->
  ws_tokens_aux (tok ++ rest) = (tok :: fst (ws_tokens_aux rest), true).
Proof.
  induction tok as [|b t IH]; intros rest Hne Hnw Hr; [contradiction|].
  pose proof (Forall_inv Hnw) as Hb. cbv beta in Hb.
  pose proof (Forall_inv_tail Hnw) as Ht.
  change ((b :: t) ++ rest) with (b :: (t ++ rest)).
  destruct t as [|b2 t2].
  - change ([] ++ rest) with rest. cbn [ws_tokens_aux].
    pose proof (ws_tokens_aux_starts_ws rest Hr) as Hs.
    destruct (ws_tokens_aux rest) as [toks ins]. cbn [fst snd] in *. subst ins.
    rewrite Hb. reflexivity.
  - cbn [ws_tokens_aux]. rewrite IH by (discriminate || assumption).
    rewrite Hb. reflexivity.
Qed.

Lemma ws_tokens_aux_tok_end : forall tok, tok <> [] -> no_ws tok ->
  ws_tokens_aux tok = ([tok], true).
Proof.
  intros tok Hne Hnw. pose proof (ws_tokens_aux_tok tok [] Hne Hnw I) as H.
  rewrite app_nil_r in H. exact H.
Qed.

(* every token is a non-empty run of non-blank bytes *)
Lemma ws_tokens_wf : forall s, Forall (fun t => t <> [] /\ no_ws t) (ws_tokens s).
Proof.
  unfold ws_tokens. induction s as [|b t IH]; [constructor|].
  cbn [ws_tokens_aux]. destruct (ws_tokens_aux t) as [toks ins]. cbn [fst] in *.
  destruct (is_ws b) eqn:Eb; [exact IH|].
  assert (Hb1 : [b] <> [] /\ no_ws [b]).
  { split; [discriminate|]. constructor; [exact Eb|constructor]. }
  destruct ins.
  - destruct toks as [|x r]; cbn [fst].
    + constructor; [exact Hb1|constructor].
    + pose proof (Forall_inv IH) as [Hx1 Hx2]. pose proof (Forall_inv_tail IH) as Hr.
      constructor; [|exact Hr]. split; [discriminate|]. constructor; [exact Eb|exact Hx2].
  - cbn [fst]. constructor; [exact Hb1|exact IH].
Qed.

Lemma is_ws_digit : forall c, 48 <= c <= 57 -> is_ws c = false.
Proof. intros c H. unfold is_ws. lia. Qed.

Lemma no_ws_fmt_dec : forall n, no_ws (fmt_dec n).
Proof.
  intro n. unfold no_ws. eapply Forall_impl; [|apply fmt_dec_digits].
  intros c Hc. cbv beta in Hc. apply is_ws_digit. exact Hc.
Qed.

(* ---- SequenceRegion ---- *)

Lemma ws_tokens_region : forall nm a b, nm <> [] -> no_ws nm ->
  ws_tokens (nm ++ 32 :: fmt_dec a ++ 32 :: fmt_dec b) = [nm; fmt_dec a; fmt_dec b].
Proof.
  intros nm a b Hne Hnw. unfold ws_tokens.
  rewrite ws_tokens_aux_tok by (assumption || reflexivity). cbn [fst].
  rewrite ws_tokens_aux_ws by reflexivity. cbn [fst].
  rewrite ws_tokens_aux_tok by (apply fmt_dec_nonempty || apply no_ws_fmt_dec || reflexivity).
  cbn [fst].
  rewrite ws_tokens_aux_ws by reflexivity. cbn [fst].
  rewrite ws_tokens_aux_tok_end by (apply fmt_dec_nonempty || apply no_ws_fmt_dec).
  reflexivity.
Qed.

Theorem parse_sequence_region_roundtrip : forall nm s e,
  nm <> [] -> no_ws nm -> 1 <= s <= u64_max -> 1 <= e <= u64_max ->
  parse_sequence_region (nm ++ 32 :: fmt_dec s ++ 32 :: fmt_dec e) = POk (nm, s, e).
Proof.
  intros nm s e Hne Hnw Hs He.
  pose proof (ws_tokens_region nm s e Hne Hnw) as Hw.
  unfold parse_sequence_region.
  destruct (nm ++ 32 :: fmt_dec s ++ 32 :: fmt_dec e) as [|c0 t0] eqn:E.
  - destruct nm; discriminate.
  - rewrite Hw. rewrite std_parse_nonzero_fmt by exact Hs.
    rewrite std_parse_nonzero_fmt by exact He. reflexivity.
Qed.

(* whatever the text: a name that comes back is a token *)
Lemma parse_sequence_region_name : forall t nm a b,
  parse_sequence_region t = POk (nm, a, b) -> nm <> [] /\ no_ws nm.
Proof.
  intros t nm a b H. unfold parse_sequence_region in H.
  destruct t as [|c0 t0]; [discriminate|].
  pose proof (ws_tokens_wf (c0 :: t0)) as Hwf.
  destruct (ws_tokens (c0 :: t0)) as [|t1 r1]; [discriminate|].
  destruct r1 as [|t2 r2]; [discriminate|].
  destruct (std_parse_nonzero t2) as [x|ex]; [|discriminate].
  destruct r2 as [|t3 r3]; [discriminate|].
  destruct (std_parse_nonzero t3) as [y|ey]; [|discriminate].
  injection H as H1 H2 H3. subst t1. exact (Forall_inv Hwf).
Qed.

(* exactness: with positions in range, the name comes back iff it is a non-empty run of
   non-blank bytes *)
Theorem parse_sequence_region_roundtrip_iff : forall nm s e,
  1 <= s <= u64_max -> 1 <= e <= u64_max ->
  (parse_sequence_region (nm ++ 32 :: fmt_dec s ++ 32 :: fmt_dec e) = POk (nm, s, e)
   <-> (nm <> [] /\ no_ws nm)).
Proof.
  intros nm s e Hs He. split.
  - intro H. exact (parse_sequence_region_name _ _ _ _ H).
  - intros [Hne Hnw]. now apply parse_sequence_region_roundtrip.
Qed.

(* ---- GenomeBuild ---- *)

Lemma ws_tokens_build : forall src nm, src <> [] -> nm <> [] -> no_ws src -> no_ws nm ->
  ws_tokens (src ++ 32 :: nm) = [src; nm].
Proof.
  intros src nm Hs Hn Hws Hwn. unfold ws_tokens.
  rewrite ws_tokens_aux_tok by (assumption || reflexivity). cbn [fst].
  rewrite ws_tokens_aux_ws by reflexivity. cbn [fst].
  rewrite ws_tokens_aux_tok_end by assumption. reflexivity.
Qed.

Theorem parse_genome_build_roundtrip : forall src nm,
  src <> [] -> nm <> [] -> no_ws src -> no_ws nm ->
  parse_genome_build (src ++ 32 :: nm) = POk (src, nm).
Proof.
  intros src nm Hs Hn Hws Hwn.
  pose proof (ws_tokens_build src nm Hs Hn Hws Hwn) as Hw.
  unfold parse_genome_build.
  destruct (src ++ 32 :: nm) as [|c0 t0] eqn:E.
  - destruct src; discriminate.
  - rewrite Hw. reflexivity.
Qed.

Lemma parse_genome_build_tokens : forall t src nm,
  parse_genome_build t = POk (src, nm) -> (src <> [] /\ no_ws src) /\ (nm <> [] /\ no_ws nm).
Proof.
  intros t src nm H. unfold parse_genome_build in H.
  destruct t as [|c0 t0]; [discriminate|].
  pose proof (ws_tokens_wf (c0 :: t0)) as Hwf.
  destruct (ws_tokens (c0 :: t0)) as [|t1 r1]; [discriminate|].
  destruct r1 as [|t2 r2]; [discriminate|].
  injection H as H1 H2. subst t1 t2.
  split; [exact (Forall_inv Hwf)|exact (Forall_inv (Forall_inv_tail Hwf))].
Qed.

Theorem parse_genome_build_roundtrip_iff : forall src nm,
  (parse_genome_build (src ++ 32 :: nm) = POk (src, nm)
   <-> (src <> [] /\ nm <> [] /\ no_ws src /\ no_ws nm)).
Proof.
  intros src nm. split.
  - intro H. destruct (parse_genome_build_tokens _ _ _ H) as [[H1 H2] [H3 H4]]. tauto.
  - intros (H1 & H2 & H3 & H4). now apply parse_genome_build_roundtrip.
Qed.

(* refutation witnesses: a name with a blank / an empty name is accepted by the writer and does
   not come back *)
Theorem sequence_region_blank_name_refuted :
  parse_sequence_region ([99; 104; 114; 32; 49] ++ 32 :: fmt_dec 1 ++ 32 :: fmt_dec 2) = POk ([99; 104; 114], 1, 1)
  /\ parse_sequence_region ([] ++ 32 :: fmt_dec 1 ++ 32 :: fmt_dec 2) = PErr RMissingEnd.
Proof. split; vm_compute; reflexivity. Qed.

(* ---- the whole thing: a written directive read back and its value re-parsed ---- *)

Definition typed_ok (d : directive) : Prop :=
  match d_value d with
  | Some (DVersion ma mi) => version_ok ma mi
  | Some (DRegion nm s e) => nm <> [] /\ no_ws nm /\ 1 <= s <= u64_max /\ 1 <= e <= u64_max
  | Some (DBuild src nm) => src <> [] /\ nm <> [] /\ no_ws src /\ no_ws nm
  | _ => True
  end.

Definition typed_expected (d : directive) : typed_back :=
  match d_value d with
  | Some (DString s) => reparse_value (d_key d) (Some s)
  | v => typed_of_dvalue v
  end.

Theorem reparse_written_value : forall d line, typed_ok d -> gff_write_directive d = Ok line ->
  reparse_value (d_key d) (directive_text_value d) = typed_expected d.
Proof.
  intros [k v] line Hok Hw.
  unfold typed_ok, typed_expected, directive_text_value, gff_write_directive in *.
  cbn [d_key d_value] in *.
  destruct v as [[ma mi|nm s e|src nm|s]|]; cbn [dvalue_text] in *.
  - destruct (bytes_eqb k key_gff_version) eqn:Ek; [|discriminate].
    unfold reparse_value. rewrite Ek. rewrite parse_gff_version_roundtrip by exact Hok.
    destruct mi as [[m p]|]; reflexivity.
  - destruct (bytes_eqb k key_sequence_region) eqn:Ek; [|discriminate].
    apply bytes_eqb_eq in Ek. subst k. destruct Hok as (H1 & H2 & H3 & H4).
    unfold reparse_value.
    change (bytes_eqb key_sequence_region key_gff_version) with false.
    change (bytes_eqb key_sequence_region key_sequence_region) with true. cbv iota.
    rewrite parse_sequence_region_roundtrip by assumption. reflexivity.
  - destruct (bytes_eqb k key_genome_build) eqn:Ek; [|discriminate].
    apply bytes_eqb_eq in Ek. subst k. destruct Hok as (H1 & H2 & H3 & H4).
    unfold reparse_value.
    change (bytes_eqb key_genome_build key_gff_version) with false.
    change (bytes_eqb key_genome_build key_sequence_region) with false.
    change (bytes_eqb key_genome_build key_genome_build) with true. cbv iota.
    rewrite parse_genome_build_roundtrip by assumption. reflexivity.
  - reflexivity.
  - reflexivity.
Qed.

Theorem directive_typed_roundtrip : forall d line, directive_ok d -> typed_ok d ->
  gff_write_directive d = Ok line ->
  directive_typed_readback d = Ok (Some (typed_expected d)).
Proof.
  intros d line Hd Ht Hw. unfold directive_typed_readback. rewrite Hw.
  destruct (gff_directive_roundtrip (fun _ => None) d line [] Hd Hw) as (Hraw & _ & Hc & _).
  rewrite Hraw. cbn [fst]. rewrite Hc.
  rewrite (reparse_written_value d line Ht Hw). reflexivity.
Qed.

Print Assumptions directive_typed_roundtrip.
