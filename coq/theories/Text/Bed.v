(* BED3..BED6 (+ any number of extra columns, i.e. BED7..BED12 and beyond) as noodles-bed writes
   and reads them (model; definitions only).  Writer: io/writer/record.rs and below.  Reader:
   io/reader/record.rs (read_record_N), record/fields.rs, record/fields/bounds.rs. *)
From Coq Require Import List NArith Bool.
From NV Require Import Text.TextBase.
Import ListNotations.
Open Scope N_scope.

Record bed := {
  b_n : nat;                       (* standard field count 3..6 *)
  b_name : list N;
  b_start : N;                     (* 1-based Position *)
  b_end : option N;
  b_nm : option (list N);          (* used when n >= 4 *)
  b_score : N;                     (* n >= 5 *)
  b_strand : option bool;          (* n >= 6; true = forward *)
  b_others : list (list N)         (* Value::String other fields *)
}.

Definition is_printable (b : N) : bool := (32 <=? b) && (b <=? 126).
Definition is_word (b : N) : bool :=
  ((48 <=? b) && (b <=? 57)) || ((65 <=? b) && (b <=? 90)) || ((97 <=? b) && (b <=? 122)) || (b =? 95).

Definition len_1_255 (s : list N) : bool := Nat.leb 1 (length s) && Nat.leb (length s) 255.

Definition bed_refname_valid (s : list N) : bool := len_1_255 s && forallb is_word s.
Definition bed_name_valid (s : list N) : bool := len_1_255 s && forallb is_printable s.

Definition bed_strand_text (s : option bool) : list N :=
  match s with None => [46] | Some true => [43] | Some false => [45] end.

Definition bed_std_columns (r : bed) : list (list N) :=
  [b_name r; fmt_dec (b_start r - 1); match b_end r with Some e => fmt_dec e | None => [48] end]
  ++ (if Nat.leb 4 (b_n r) then [match b_nm r with Some s => s | None => [46] end] else [])
  ++ (if Nat.leb 5 (b_n r) then [fmt_dec (b_score r)] else [])
  ++ (if Nat.leb 6 (b_n r) then [bed_strand_text (b_strand r)] else []).

Definition bed_accepts (r : bed) : bool :=
  bed_refname_valid (b_name r)
  && (if Nat.leb 4 (b_n r) then match b_nm r with Some s => bed_name_valid s | None => true end else true)
  && forallb (forallb is_printable) (b_others r).

(* write_record_N without the line feed *)
Definition bed_write (r : bed) : res (list N) :=
  if bed_accepts r then Ok (join 9 (bed_std_columns r ++ b_others r)) else Err InvalidInput.

(* ---- reading ---- *)
Record lazy_bed := {
  lb_name : list N;
  lb_start : res N;
  lb_end : option (res N);
  lb_nm : option (list N);
  lb_score : res N;
  lb_strand : res (option bool);
  lb_others : list (list N)
}.

Inductive bed_result := BNoRecord | BErr (e : err) | BRec (l : lazy_bed).

Definition bed_parse_start (s : list N) : res N :=
  match parse_dec s with
  | None => Err InvalidData
  | Some n => if u64_max <=? n then Err InvalidData else Ok (n + 1)
  end.

Definition bed_parse_end (s : list N) : option (res N) :=
  if bytes_eqb s [48] then None
  else Some (match parse_dec s with
             | None => Err InvalidData
             | Some n => if (n =? 0) || (u64_max <? n) then Err InvalidData else Ok n
             end).

Definition bed_parse_score (s : list N) : res N :=
  match parse_dec s with
  | None => Err InvalidData
  | Some n => if 65535 <? n then Err InvalidData else Ok n
  end.

Definition bed_parse_strand (s : list N) : res (option bool) :=
  if bytes_eqb s [46] then Ok None
  else if bytes_eqb s [43] then Ok (Some true)
  else if bytes_eqb s [45] then Ok (Some false)
  else Err InvalidData.

Definition bed_parse_name (s : list N) : option (list N) :=
  if bytes_eqb s [46] then None else Some s.

(* read_record_N on the first line: n-1 required TAB-terminated fields, the n-th, then the rest *)
Definition bed_read (n : nat) (text : list N) : bed_result :=
  match text with
  | [] => BNoRecord
  | _ =>
    let line := first_line text in
    let fs := split_all 9 line in
    if Nat.ltb (length fs) n then BErr InvalidData
    else
      BRec {| lb_name := nth 0 fs [];
              lb_start := bed_parse_start (nth 1 fs []);
              lb_end := bed_parse_end (nth 2 fs []);
              lb_nm := if Nat.leb 4 n then bed_parse_name (nth 3 fs []) else None;
              lb_score := if Nat.leb 5 n then bed_parse_score (nth 4 fs []) else Ok 0;
              lb_strand := if Nat.leb 6 n then bed_parse_strand (nth 5 fs []) else Ok None;
              lb_others := skipn n fs |}
  end.
