From Coq Require Import List NArith Bool Lia.
From NV Require Import Text.TextBase Text.TextBaseProofs Text.Bed.
Import ListNotations.
Open Scope N_scope.

Lemma forallb_avoid : forall (P : N -> bool) s c, forallb P s = true -> P c = false -> ~ In c s.
Proof.
  intros P s c H Hc Hin. rewrite forallb_forall in H. specialize (H c Hin). congruence.
Qed.

Definition clean (f : list N) : Prop := ~ In 9 f /\ ~ In 10 f /\ ~ In 13 f.

Lemma clean_dec : forall n, clean (fmt_dec n).
Proof. intro n. repeat split; apply fmt_dec_avoids; lia. Qed.

Lemma clean_single : forall d, d <> 9 -> d <> 10 -> d <> 13 -> clean [d].
Proof. intros d H1 H2 H3. repeat split; intros [E|[]]; congruence. Qed.

Lemma clean_printable : forall s, forallb is_printable s = true -> clean s.
Proof. intros s H. repeat split; eapply forallb_avoid; eauto. Qed.

Lemma clean_word : forall s, forallb is_word s = true -> clean s.
Proof. intros s H. repeat split; eapply forallb_avoid; eauto. Qed.

Lemma bed_columns_clean : forall r, bed_accepts r = true -> Forall clean (bed_std_columns r ++ b_others r).
Proof.
  intros r H. unfold bed_accepts in H. apply andb_true_iff in H. destruct H as [H Hoth].
  apply andb_true_iff in H. destruct H as [Hname Hnm].
  unfold bed_refname_valid in Hname. apply andb_true_iff in Hname. destruct Hname as [_ Hname].
  apply Forall_app. split.
  - unfold bed_std_columns. repeat (apply Forall_app; split).
    + repeat apply Forall_cons; try apply Forall_nil.
      * now apply clean_word.
      * apply clean_dec.
      * destruct (b_end r); [apply clean_dec|apply clean_single; lia].
    + destruct (Nat.leb 4 (b_n r)); [|constructor]. apply Forall_cons; [|constructor].
      destruct (b_nm r) as [s|]; [|apply clean_single; lia].
      unfold bed_name_valid in Hnm. apply andb_true_iff in Hnm. destruct Hnm as [_ Hnm]. now apply clean_printable.
    + destruct (Nat.leb 5 (b_n r)); [|constructor]. apply Forall_cons; [apply clean_dec|constructor].
    + destruct (Nat.leb 6 (b_n r)); [|constructor]. apply Forall_cons; [|constructor].
      destruct (b_strand r) as [[]|]; apply clean_single; lia.
  - rewrite forallb_forall in Hoth. apply Forall_forall. intros f Hf. apply clean_printable. now apply Hoth.
Qed.

(* The structural core of the BED round trip: every written line splits back into exactly the
   standard columns followed by the extra columns, in order, whatever their number. *)
Theorem bed_fields_roundtrip : forall r line, bed_write r = Ok line ->
  split_all 9 (first_line (line ++ [10])) = bed_std_columns r ++ b_others r.
Proof.
  intros r line H. unfold bed_write in H. destruct (bed_accepts r) eqn:Ha; [|discriminate].
  pose proof (bed_columns_clean r Ha) as Hc.
  assert (Hne : bed_std_columns r ++ b_others r <> []) by (unfold bed_std_columns; discriminate).
  set (fs := bed_std_columns r ++ b_others r) in *.
  assert (Hl : line = join 9 fs) by congruence. subst line.
  assert (Hno : forall c, In c [10; 13] -> ~ In c (join 9 fs)).
  { intros c Hc' Hin. apply In_join in Hin. destruct Hin as [E|(p & Hp & Hcp)].
    - subst c. cbn [In] in Hc'. intuition discriminate.
    - rewrite Forall_forall in Hc. destruct (Hc p Hp) as (_ & H10 & H13).
      cbn [In] in Hc'. destruct Hc' as [E|[E|[]]]; subst c; tauto. }
  unfold first_line. rewrite take_until_app by (apply Hno; cbn; tauto).
  rewrite strip_cr_no13 by (apply Hno; cbn; tauto).
  apply split_all_join.
  - exact Hne.
  - eapply Forall_impl; [|exact Hc]. intros f (H9 & _). exact H9.
Qed.

(* the field parsers invert the field writers *)
Lemma bed_start_roundtrip : forall s, 1 <= s <= u64_max -> bed_parse_start (fmt_dec (s - 1)) = Ok s.
Proof.
  intros s H. unfold bed_parse_start. rewrite parse_dec_fmt.
  destruct (u64_max <=? s - 1) eqn:E; [apply N.leb_le in E; lia|]. f_equal. lia.
Qed.

Lemma bed_end_roundtrip : forall e, (forall x, e = Some x -> 1 <= x <= u64_max) ->
  bed_parse_end (match e with Some x => fmt_dec x | None => [48] end) = option_map Ok e.
Proof.
  intros [x|] H; [|reflexivity]. specialize (H x eq_refl). unfold bed_parse_end.
  rewrite bytes_eqb_neq.
  - rewrite parse_dec_fmt. destruct (x =? 0) eqn:E1; [apply N.eqb_eq in E1; lia|].
    destruct (u64_max <? x) eqn:E2; [apply N.ltb_lt in E2; lia|]. reflexivity.
  - intro E. assert (Hp : parse_dec (fmt_dec x) = Some 0) by (rewrite E; reflexivity).
    rewrite parse_dec_fmt in Hp. injection Hp as Hp. lia.
Qed.

Lemma bed_score_roundtrip : forall s, s <= 65535 -> bed_parse_score (fmt_dec s) = Ok s.
Proof.
  intros s H. unfold bed_parse_score. rewrite parse_dec_fmt.
  destruct (65535 <? s) eqn:E; [apply N.ltb_lt in E; lia|]. reflexivity.
Qed.

Lemma bed_strand_roundtrip : forall s, bed_parse_strand (bed_strand_text s) = Ok s.
Proof. destruct s as [[]|]; reflexivity. Qed.

(* '.' is the BED spelling of a missing name: Some '.' reads back as None (documented aliasing) *)
Lemma bed_name_roundtrip : forall nm, nm <> Some [46] ->
  bed_parse_name (match nm with Some s => s | None => [46] end) = nm.
Proof.
  intros [s|] H; [|reflexivity]. unfold bed_parse_name. rewrite bytes_eqb_neq; [reflexivity|].
  intro E. apply H. now subst.
Qed.

Definition bed_demo : bed :=
  {| b_n := 6; b_name := [99; 49]; b_start := 8; b_end := Some 13; b_nm := Some [110; 32; 49];
     b_score := 960; b_strand := Some false; b_others := [[55]; []; [46]; [49; 44; 50]; [120]; [121]] |}.

(* BED12-shaped record: six standard and six extra columns (one empty) all come back *)
Example bed_demo_roundtrip :
  match bed_write bed_demo with
  | Ok line =>
      bed_read 6 (line ++ [10]) =
        BRec {| lb_name := [99; 49]; lb_start := Ok 8; lb_end := Some (Ok 13); lb_nm := Some [110; 32; 49];
                lb_score := Ok 960; lb_strand := Ok (Some false);
                lb_others := [[55]; []; [46]; [49; 44; 50]; [120]; [121]] |}
  | _ => False
  end.
Proof. vm_compute. reflexivity. Qed.
