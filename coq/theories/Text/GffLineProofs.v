(* Proofs about GFF3 line kinds (Text/GffLine.v). *)
From Coq Require Import List NArith Bool Lia.
From NV Require Import Base.Percent Base.PercentProofs Text.TextBase Text.TextBaseProofs
  Text.Gff Text.GffProofs Text.GffLine.
Import ListNotations.
Open Scope N_scope.

Lemma cut_line_app : forall l rest, ~ In 10 l -> cut_line (l ++ 10 :: rest) = (l, true, rest).
Proof.
  induction l as [|b t IH]; intros rest H; [reflexivity|].
  cbn [app cut_line].
  assert (Hb : b <> 10) by (intro E; apply H; left; exact E).
  apply N.eqb_neq in Hb. rewrite Hb. rewrite IH; [reflexivity|].
  intro Hin. apply H. right. exact Hin.
Qed.

Lemma gff_raw_line_app : forall l rest, ~ In 10 l ->
  gff_raw_line (l ++ 10 :: rest) = (strip_cr l, rest).
Proof. intros l rest H. unfold gff_raw_line. now rewrite cut_line_app. Qed.

Definition no_ws (s : list N) : Prop := Forall (fun b => is_ws b = false) s.

Lemma dir_split_key_value : forall k v, no_ws k -> dir_split (k ++ 32 :: v) = (k, Some v).
Proof.
  induction k as [|b t IH]; intros v H; [reflexivity|].
  inversion H as [|b' t' Hb Ht]; subst. cbn [app dir_split]. rewrite Hb. now rewrite IH.
Qed.

Lemma dir_split_key : forall k, no_ws k -> dir_split k = (k, None).
Proof.
  induction k as [|b t IH]; intro H; [reflexivity|].
  inversion H as [|b' t' Hb Ht]; subst. cbn [dir_split]. rewrite Hb. now rewrite IH.
Qed.

Lemma no_ws_avoid : forall k c, no_ws k -> is_ws c = true -> ~ In c k.
Proof.
  intros k c H Hc Hin. unfold no_ws in H. rewrite Forall_forall in H. specialize (H c Hin). congruence.
Qed.

(* the text value a directive reads back with *)
Definition directive_text_value (d : directive) : option (list N) :=
  match d_value d with None => None | Some v => dvalue_text (d_key d) v end.

(* exactly what the reader needs: no whitespace byte in the key, no LF in the value text and no
   CR at its end *)
Definition directive_ok (d : directive) : Prop :=
  no_ws (d_key d) /\
  forall t, directive_text_value d = Some t -> ~ In 10 t /\ strip_cr t = t.

Theorem gff_directive_roundtrip : forall prs d line rest,
  directive_ok d -> gff_write_directive d = Ok line ->
  gff_raw_line (line ++ 10 :: rest) = (line, rest)
  /\ forallb is_ws line = false
  /\ gff_classify prs line = GDirective (d_key d) (directive_text_value d)
  /\ gff_line_buf prs line = BDirective (d_key d) (directive_text_value d).
Proof.
  intros prs d line rest [Hk Hv] Hw. unfold gff_write_directive in Hw.
  unfold directive_text_value in *.
  assert (K10 : ~ In 10 (d_key d)) by (apply no_ws_avoid; [exact Hk|reflexivity]).
  assert (K13 : ~ In 13 (d_key d)) by (apply no_ws_avoid; [exact Hk|reflexivity]).
  destruct (d_value d) as [v|].
  - destruct (dvalue_text (d_key d) v) as [t|] eqn:Et; [|discriminate].
    injection Hw as Hw. subst line. destruct (Hv t eq_refl) as [T10 Tcr].
    assert (Hline : 35 :: 35 :: d_key d ++ 32 :: t = (35 :: 35 :: d_key d ++ [32]) ++ t)
      by (cbn [app]; now rewrite <- app_assoc).
    repeat split.
    + rewrite gff_raw_line_app.
      * f_equal. rewrite Hline. destruct t as [|t0 tt].
        -- rewrite app_nil_r.
           change (35 :: 35 :: d_key d ++ [32]) with ((35 :: 35 :: d_key d) ++ [32]).
           rewrite strip_cr_app by discriminate. reflexivity.
        -- rewrite strip_cr_app by discriminate. now rewrite Tcr.
      * intros [E|[E|Hin]]; try discriminate. apply in_app_or in Hin.
        destruct Hin as [Hin|[E|Hin]]; [now apply K10|discriminate|now apply T10].
    + unfold gff_classify. cbn [gff_line_kind skipn]. now rewrite dir_split_key_value.
    + unfold gff_line_buf. cbn [gff_line_kind skipn]. now rewrite dir_split_key_value.
  - injection Hw as Hw. subst line. repeat split.
    + rewrite gff_raw_line_app.
      * f_equal. apply strip_cr_no13. intros [E|[E|Hin]]; try discriminate. now apply K13.
      * intros [E|[E|Hin]]; try discriminate. now apply K10.
    + unfold gff_classify. cbn [gff_line_kind skipn]. now rewrite dir_split_key.
    + unfold gff_line_buf. cbn [gff_line_kind skipn]. now rewrite dir_split_key.
Qed.

(* just outside: a key with a blank splits early; a value ending in CR loses it *)
Theorem gff_directive_refuted :
  (exists d line, gff_write_directive d = Ok line /\
     gff_classify (fun _ => None) line <> GDirective (d_key d) (directive_text_value d))
  /\ (exists d line, no_ws (d_key d) /\ gff_write_directive d = Ok line /\
        fst (gff_raw_line (line ++ [10])) <> line).
Proof.
  split.
  - exists {| d_key := [97; 32; 98]; d_value := None |}. eexists. split; [reflexivity|].
    vm_compute. discriminate.
  - exists {| d_key := [97]; d_value := Some (DString [120; 13]) |}. eexists.
    split; [repeat constructor|]. split; [reflexivity|]. vm_compute. discriminate.
Qed.

(* ---- comments ---- *)
Theorem gff_comment_roundtrip : forall prs s rest,
  ~ In 10 s -> strip_cr s = s -> hd 0 s <> 35 ->
  gff_raw_line (gff_write_comment s ++ 10 :: rest) = (gff_write_comment s, rest)
  /\ forallb is_ws (gff_write_comment s) = false
  /\ gff_classify prs (gff_write_comment s) = GComment s.
Proof.
  intros prs s rest H10 Hcr Hhd. unfold gff_write_comment. repeat split.
  - rewrite gff_raw_line_app.
    + f_equal. destruct s as [|c t]; [reflexivity|]. change (35 :: c :: t) with ([35] ++ c :: t).
      rewrite strip_cr_app by discriminate. now rewrite Hcr.
    + intros [E|Hin]; [discriminate|now apply H10].
  - unfold gff_classify. destruct s as [|c t]; [reflexivity|]. cbn [hd] in Hhd.
    cbn [gff_line_kind N.eqb Pos.eqb skipn]. apply N.eqb_neq in Hhd.
    change (35 =? 35) with true. cbn iota. rewrite Hhd. reflexivity.
Qed.

(* a comment that starts with '#' is written as a directive *)
Theorem gff_comment_refuted :
  gff_classify (fun _ => None) (gff_write_comment [35; 120]) = GDirective [120] None.
Proof. reflexivity. Qed.

(* the owned comment of line_bufs() is the comment that was written (repaired in /repo 0b526eb;
   before, it kept the '#', so that writing it back gave a directive line) *)
Theorem gff_comment_linebuf_roundtrip : forall prs s, hd 0 s <> 35 ->
  gff_line_buf prs (gff_write_comment s) = BComment s.
Proof.
  intros prs s Hhd. unfold gff_line_buf, gff_write_comment.
  assert (Hk : gff_line_kind (35 :: s) = KComment).
  { destruct s as [|c t]; [reflexivity|]. cbn [hd] in Hhd. unfold gff_line_kind.
    apply N.eqb_neq in Hhd. change (35 =? 35) with true. cbn iota. now rewrite Hhd. }
  now rewrite Hk.
Qed.

(* ---- record lines are never taken for anything else ---- *)
Lemma pct_enc_no_hash : forall s, bytes_ok s -> ~ In 35 (pct_enc seqid_set s).
Proof. intros s H. apply seqid_avoid; [exact H|cbn; tauto]. Qed.

Lemma kind_record_head : forall a rest, ~ In 35 a -> gff_line_kind (a ++ 9 :: rest) = KRecord.
Proof.
  intros a rest H. destruct a as [|c t]; [reflexivity|].
  assert (Hc : c <> 35) by (intro E; apply H; left; exact E).
  cbn [app]. unfold gff_line_kind. apply N.eqb_neq in Hc. now rewrite Hc.
Qed.

Theorem gff_record_line_kind : forall fmt r line,
  bytes_ok (f_seqid r) -> gff_write fmt r = Ok line ->
  gff_line_kind line = KRecord /\ forallb is_ws line = false.
Proof.
  intros fmt r line Hs Hw. apply gff_write_ok in Hw. subst line. split.
  - unfold gff_columns, tabbed. cbn [flat_map]. rewrite <- !app_assoc. cbn [app].
    apply kind_record_head. now apply pct_enc_no_hash.
  - (* the start column is a nonempty digit string *)
    destruct (forallb is_ws (tabbed (gff_columns fmt r) ++ gff_attrs_text (f_attrs r))) eqn:E; [|reflexivity].
    exfalso. rewrite forallb_forall in E.
    pose proof (fmt_dec_nonempty (f_start r)) as Hne. pose proof (fmt_dec_digits (f_start r)) as Hd.
    destruct (fmt_dec (f_start r)) as [|d ds] eqn:Ef; [congruence|].
    inversion Hd as [|d' ds' Hdr _]; subst.
    assert (Hin : In d (tabbed (gff_columns fmt r) ++ gff_attrs_text (f_attrs r))).
    { apply in_or_app. left. unfold tabbed. apply in_flat_map.
      exists (fmt_dec (f_start r)). split.
      - unfold gff_columns. cbn [In]. tauto.
      - apply in_or_app. left. rewrite Ef. left. reflexivity. }
    specialize (E d Hin). unfold is_ws in E.
    repeat (apply orb_true_iff in E; destruct E as [E|E]); apply N.eqb_eq in E; lia.
Qed.

(* a written record line, inside a file, is read as that record *)
Theorem gff_record_line_classified : forall fmt prs r line rest,
  gff_wf fmt prs r -> gff_write fmt r = Ok line ->
  gff_raw_line (line ++ 10 :: rest) = (line, rest)
  /\ forallb is_ws line = false
  /\ gff_classify prs line = GRecord (Rec (gff_expected r)).
Proof.
  intros fmt prs r line rest Hwf Hw.
  pose proof (gff_record_readback fmt prs r line Hwf Hw) as Hrb.
  pose proof Hwf as (Hs & _).
  destruct (gff_record_line_kind fmt r line Hs Hw) as [Hk Hb].
  pose proof (gff_columns_clean fmt prs r Hwf) as Hcols.
  destruct Hwf as (_ & _ & _ & _ & _ & _ & Hat).
  destruct (attrs_text_clean _ Hat) as [Hane Haav].
  pose proof Hw as Hw'. apply gff_write_ok in Hw'.
  assert (H10 : ~ In 10 line).
  { subst line. intro Hin. apply in_app_or in Hin. destruct Hin as [Hin|Hin].
    - apply In_tabbed in Hin. destruct Hin as [E|(f & Hf & Hc)]; [discriminate|].
      rewrite Forall_forall in Hcols. destruct (Hcols f Hf) as [_ Hn]. now apply Hn.
    - revert Hin. apply Haav. cbn; tauto. }
  assert (Hcr : strip_cr line = line).
  { subst line. rewrite strip_cr_app by exact Hane.
    now rewrite (strip_cr_no13 (gff_attrs_text (f_attrs r))) by (apply Haav; cbn; tauto). }
  repeat split.
  - rewrite gff_raw_line_app by exact H10. now rewrite Hcr.
  - exact Hb.
  - unfold gff_classify. rewrite Hk. f_equal.
    unfold gff_read, first_line in Hrb. rewrite take_until_app in Hrb by exact H10.
    now rewrite Hcr in Hrb.
Qed.

(* ---- the fuel of the line loop ---- *)
Lemma cut_line_len : forall s l lf r, cut_line s = (l, lf, r) ->
  (length s = length l + (if lf then 1 else 0) + length r)%nat.
Proof.
  induction s as [|b t IH]; intros l lf r H.
  - cbn in H. injection H as H1 H2 H3. subst. reflexivity.
  - cbn [cut_line] in H. destruct (b =? 10).
    + injection H as H1 H2 H3. subst. cbn [length]. lia.
    + destruct (cut_line t) as [[l' lf'] r'] eqn:E. injection H as H1 H2 H3. subst l lf r.
      specialize (IH l' lf' r' eq_refl). cbn [length]. lia.
Qed.

Theorem gff_read_lines_fuel : forall s f1 f2, (length s < f1)%nat -> (length s < f2)%nat ->
  gff_read_lines f1 s = gff_read_lines f2 s.
Proof.
  intros s f1. revert s. induction f1 as [|f1 IH]; intros s f2 H1 H2; [lia|].
  destruct f2 as [|f2]; [lia|]. cbn [gff_read_lines].
  destruct s as [|b t]; [reflexivity|].
  unfold gff_raw_line. destruct (cut_line (b :: t)) as [[l lf] r] eqn:E.
  pose proof (cut_line_len _ _ _ _ E) as Hl.
  assert (Hr : (length r < length (b :: t))%nat).
  { destruct lf; [lia|]. cbn [cut_line] in E. destruct (b =? 10); [discriminate|].
    destruct (cut_line t) as [[l' lf'] r'] eqn:E'. injection E as E1 E2 E3. subst. cbn [length] in *. lia. }
  rewrite (IH r f2) by lia. reflexivity.
Qed.

(* ---- whole files: written lines one after the other, then any text ---- *)
Definition good_line (l : list N) : Prop :=
  ~ In 10 l /\ strip_cr l = l /\ forallb is_ws l = false.

Definition lines_text (ls : list (list N)) : list N := concat (map (fun l => l ++ [10]) ls).

Lemma gff_read_lines_cons : forall line rest f, good_line line ->
  (length (line ++ 10%N :: rest) < S f)%nat ->
  gff_read_lines (S f) (line ++ 10 :: rest) = line :: gff_read_lines f rest.
Proof.
  intros line rest f (H10 & Hcr & Hb) Hf. cbn [gff_read_lines].
  destruct (line ++ 10 :: rest) as [|b t] eqn:E; [destruct line; discriminate|]. rewrite <- E.
  rewrite gff_raw_line_app by exact H10. rewrite Hcr, Hb. reflexivity.
Qed.

Lemma gff_read_lines_prefix : forall ls tail f, Forall good_line ls ->
  (length (lines_text ls ++ tail) < f)%nat ->
  gff_read_lines f (lines_text ls ++ tail) = ls ++ gff_read_lines f tail.
Proof.
  induction ls as [|l t IH]; intros tail f Hg Hf; [reflexivity|].
  inversion Hg as [|l' t' Hl Ht]; subst.
  unfold lines_text in *. cbn [map concat] in *. rewrite <- !app_assoc in *. cbn [app] in *.
  destruct f as [|f]; [lia|].
  rewrite gff_read_lines_cons by assumption. cbn [app]. f_equal.
  rewrite app_length in Hf. cbn [length] in Hf.
  rewrite IH by (assumption || lia). f_equal.
  apply gff_read_lines_fuel; rewrite app_length in Hf; lia.
Qed.

Theorem gff_file_lines_prefix : forall prs ls tail, Forall good_line ls ->
  gff_file_line_bufs prs (lines_text ls ++ tail)
  = map (gff_line_buf prs) ls ++ gff_file_line_bufs prs tail
  /\ gff_file_lines prs (lines_text ls ++ tail)
  = map (gff_classify prs) ls ++ gff_file_lines prs tail.
Proof.
  intros prs ls tail Hg. unfold gff_file_line_bufs, gff_file_lines.
  rewrite gff_read_lines_prefix by (assumption || lia). rewrite !map_app.
  assert (Hfu : gff_read_lines (S (length (lines_text ls ++ tail))) tail
                = gff_read_lines (S (length tail)) tail)
    by (apply gff_read_lines_fuel; rewrite ?app_length; lia).
  rewrite Hfu. split; reflexivity.
Qed.

(* the items of a GFF3 file as the writer takes them *)
Inductive gitem := IRecord (r : feature) | IDirective (d : directive) | IComment (s : list N).

Definition item_line (fmt : N -> list N) (it : gitem) : res (list N) :=
  match it with
  | IRecord r => gff_write fmt r
  | IDirective d => gff_write_directive d
  | IComment s => Ok (gff_write_comment s)
  end.

Definition item_ok (fmt : N -> list N) (prs : list N -> option N) (it : gitem) : Prop :=
  match it with
  | IRecord r => gff_wf fmt prs r
  | IDirective d => directive_ok d
  | IComment s => ~ In 10 s /\ strip_cr s = s /\ hd 0 s <> 35
  end.

(* what line_bufs() yields for it: the record as the lazy reader sees it (sequence id still
   encoded, see c18_gff_record_readback), the directive with its value as text, the comment *)
Definition item_buf (it : gitem) : gline_buf :=
  match it with
  | IRecord r => BRecord (owned_of_lazy (gff_expected r))
  | IDirective d => BDirective (d_key d) (directive_text_value d)
  | IComment s => BComment s
  end.

Lemma item_line_good : forall fmt prs it l, item_ok fmt prs it -> item_line fmt it = Ok l ->
  good_line l /\ gff_line_buf prs l = item_buf it.
Proof.
  intros fmt prs it l Hok Hl. destruct it as [r|d|s]; cbn [item_ok item_line item_buf] in *.
  - destruct (gff_record_line_classified fmt prs r l [] Hok Hl) as (Hraw & Hb & Hc).
    pose proof Hok as (Hs & _).
    destruct (gff_record_line_kind fmt r l Hs Hl) as [Hk _].
    assert (H10 : ~ In 10 l).
    { intro Hin. unfold gff_raw_line in Hraw.
      destruct (cut_line (l ++ [10])) as [[a lf] b] eqn:E.
      apply in_split in Hin. destruct Hin as (l1 & l2 & El).
      (* the first LF of l would end the line earlier *)
      assert (Hex : exists p q, l = p ++ 10 :: q /\ ~ In 10 p).
      { clear - El. subst l. induction l1 as [|x xs IHx].
        - exists [], l2. split; [reflexivity|tauto].
        - destruct (N.eq_dec x 10) as [Ex|Ex].
          + subst x. exists [], (xs ++ 10 :: l2). split; [reflexivity|tauto].
          + destruct IHx as (p & q & Epq & Hp). exists (x :: p), q. split.
            * cbn [app]. now rewrite Epq.
            * intros [E'|E']; [congruence|tauto]. }
      destruct Hex as (p & q & Epq & Hp). rewrite Epq in E. rewrite <- app_assoc in E. cbn [app] in E.
      rewrite cut_line_app in E by exact Hp. injection E as E1 E2 E3. subst a lf b.
      injection Hraw as Hr1 Hr2. destruct q; discriminate. }
    split.
    + repeat split; [exact H10| |exact Hb].
      rewrite gff_raw_line_app in Hraw by exact H10. now injection Hraw as Hr.
    + unfold gff_line_buf. rewrite Hk. unfold gff_classify in Hc. rewrite Hk in Hc.
      injection Hc as Hc. now rewrite Hc.
  - destruct (gff_directive_roundtrip prs d l [] Hok Hl) as (Hraw & Hb & _ & Hbuf).
    assert (H10 : ~ In 10 l).
    { destruct Hok as [Hk Hv]. unfold gff_write_directive in Hl. unfold directive_text_value in Hv.
      assert (K10 : ~ In 10 (d_key d)) by (apply no_ws_avoid; [exact Hk|reflexivity]).
      destruct (d_value d) as [v|].
      - destruct (dvalue_text (d_key d) v) as [t|] eqn:Et; [|discriminate]. injection Hl as Hl. subst l.
        destruct (Hv t eq_refl) as [T10 _].
        intros [E|[E|Hin]]; try discriminate. apply in_app_or in Hin.
        destruct Hin as [Hin|[E|Hin]]; [now apply K10|discriminate|now apply T10].
      - injection Hl as Hl. subst l. intros [E|[E|Hin]]; try discriminate. now apply K10. }
    split; [|exact Hbuf]. repeat split; [exact H10| |exact Hb].
    rewrite gff_raw_line_app in Hraw by exact H10. now injection Hraw as Hr.
  - injection Hl as Hl. subst l. destruct Hok as (H10 & Hcr & Hhd).
    destruct (gff_comment_roundtrip prs s [] H10 Hcr Hhd) as (Hraw & Hb & _).
    assert (H10' : ~ In 10 (gff_write_comment s)) by (intros [E|Hin]; [discriminate|now apply H10]).
    split; [|now apply gff_comment_linebuf_roundtrip].
    unfold good_line. split; [exact H10'|split; [|exact Hb]].
    rewrite gff_raw_line_app in Hraw by exact H10'. now injection Hraw as Hr.
Qed.

(* a whole written GFF3 file (records, directives, comments in any order) followed by ANY text:
   line_bufs() yields the items in order, then whatever the rest yields *)
Theorem gff_file_roundtrip : forall fmt prs items ls tail,
  Forall2 (fun it l => item_ok fmt prs it /\ item_line fmt it = Ok l) items ls ->
  gff_file_line_bufs prs (lines_text ls ++ tail) = map item_buf items ++ gff_file_line_bufs prs tail.
Proof.
  intros fmt prs items ls tail H.
  assert (Hg : Forall good_line ls /\ map (gff_line_buf prs) ls = map item_buf items).
  { induction H as [|it l its ls' [Hok Hl] Hrest [IH1 IH2]]; [split; [constructor|reflexivity]|].
    destruct (item_line_good fmt prs it l Hok Hl) as [Hgl Hbuf].
    split; [constructor; assumption|]. cbn [map]. now rewrite Hbuf, IH2. }
  destruct Hg as [Hg Hm]. destruct (gff_file_lines_prefix prs ls tail Hg) as [Hb _].
  now rewrite Hb, Hm.
Qed.

(* record_bufs(): the records of the file up to the ##FASTA directive, whatever follows it *)
Definition not_fasta (b : gline_buf) : Prop :=
  match b with BDirective k _ => bytes_eqb k fasta_key = false | _ => True end.
Definition buf_records (ls : list gline_buf) : list (res feature) :=
  flat_map (fun b => match b with BRecord r => [r] | _ => [] end) ls.

Lemma gff_record_bufs_fasta : forall pre v post, Forall not_fasta pre ->
  gff_record_bufs (pre ++ BDirective fasta_key v :: post) = buf_records pre.
Proof.
  induction pre as [|b t IH]; intros v post H.
  - reflexivity.
  - inversion H as [|b' t' Hb Ht]; subst. cbn [app gff_record_bufs buf_records flat_map].
    destruct b as [k v'|s|r]; cbn [not_fasta] in Hb.
    + rewrite Hb. cbn [app]. now apply IH.
    + cbn [app]. now apply IH.
    + cbn [app]. f_equal. now apply IH.
Qed.

Definition fasta_line : list N := 35 :: 35 :: fasta_key.

Theorem gff_record_bufs_stop_at_fasta : forall fmt prs items ls tail,
  Forall2 (fun it l => item_ok fmt prs it /\ item_line fmt it = Ok l) items ls ->
  Forall (fun it => not_fasta (item_buf it)) items ->
  gff_record_bufs (gff_file_line_bufs prs (lines_text ls ++ fasta_line ++ 10 :: tail))
  = buf_records (map item_buf items).
Proof.
  intros fmt prs items ls tail H Hnf.
  rewrite (gff_file_roundtrip fmt prs items ls _ H).
  assert (Hf : good_line fasta_line) by (repeat split; intro Hin; vm_compute in Hin; intuition discriminate).
  pose proof (gff_file_lines_prefix prs [fasta_line] tail (Forall_cons _ Hf (Forall_nil _))) as [Hb _].
  unfold lines_text in Hb. cbn [map concat] in Hb. rewrite app_nil_r, <- app_assoc in Hb. cbn [app] in Hb.
  rewrite Hb. cbn [map app].
  change (gff_line_buf prs fasta_line) with (BDirective fasta_key None).
  apply gff_record_bufs_fasta. now apply Forall_map.
Qed.
