(* GFF3 attributes as a map (model; definitions only): the lazy Attributes::get
   (noodles-gff/src/record/attributes.rs: field::next until the decoded tag matches -- the FIRST
   field with that tag, or the error of a malformed field met before it), and the owned
   Attributes of RecordBuf (feature/record_buf/attributes.rs: an IndexMap filled by
   `extend(iter)` in feature/record_buf/convert.rs: a repeated tag keeps the position of its
   first field and the value of its LAST one) with its get. *)
From Coq Require Import List NArith Bool.
From NV Require Import Base.Percent Text.TextBase Text.Gff.
Import ListNotations.
Open Scope N_scope.

(* Attributes::get(tag) on the raw column text *)
Fixpoint gff_attrs_get_loop (fuel : nat) (src tag : list N) : option (res value) :=
  match fuel with
  | O => Some (Err OutOfFuel)
  | S f =>
      match src with
      | [] => None
      | _ =>
          match split_once 61 src with
          | None => Some (Err InvalidData)
          | Some (t, rest) =>
              let vr := match split_once 59 rest with Some (v, r) => (v, r) | None => (rest, []) end in
              if bytes_eqb (pct_dec t) tag then Some (Ok (gff_parse_value (fst vr)))
              else gff_attrs_get_loop f (snd vr) tag
          end
      end
  end.

(* record.attributes().get(tag): column "." is the empty attribute list *)
Definition gff_attrs_get (col tag : list N) : option (res value) :=
  if bytes_eqb col [46] then None else gff_attrs_get_loop (S (length col)) col tag.

(* IndexMap::insert: a present key keeps its position and takes the new value *)
Fixpoint imap_insert (m : list (list N * value)) (k : list N) (v : value) : list (list N * value) :=
  match m with
  | [] => [(k, v)]
  | (k', v') :: rest =>
      if bytes_eqb k' k then (k', v) :: rest else (k', v') :: imap_insert rest k v
  end.

(* Attributes::from_iter / extend *)
Definition imap_collect (items : list (list N * value)) : list (list N * value) :=
  fold_left (fun m kv => imap_insert m (fst kv) (snd kv)) items [].

Fixpoint imap_get (m : list (list N * value)) (k : list N) : option value :=
  match m with
  | [] => None
  | (k', v) :: rest => if bytes_eqb k' k then Some v else imap_get rest k
  end.

(* the owned attributes of RecordBuf::try_from_feature_record: the lazy items collected, or the
   first error of the iteration *)
Definition gff_owned_attrs (col : list N) : res (list (list N * value)) :=
  match gff_attrs_parse col with
  | (items, None) => Ok (imap_collect items)
  | (_, Some (Err e)) => Err e
  | (_, Some _) => Panic
  end.

(* the tags the lazy iteration yields, first occurrences in order *)
Fixpoint dedup_tags (seen : list (list N)) (ts : list (list N)) : list (list N) :=
  match ts with
  | [] => []
  | t :: rest =>
      if existsb (bytes_eqb t) seen then dedup_tags seen rest else t :: dedup_tags (t :: seen) rest
  end.

(* observation of the correspondence check (kind gffattr): lazy items + end, per tag the lazy
   get and the owned get, the owned map *)
Definition gff_attr_views (col : list N) (absent : list N)
  : (list (list N * value) * option (res unit))
    * list (list N * option (res value) * res (option value))
    * res (list (list N * value)) :=
  let it := gff_attrs_parse col in
  let tags := dedup_tags [] (map fst (fst it)) ++ [absent] in
  let owned := gff_owned_attrs col in
  (it,
   map (fun t => (t, gff_attrs_get col t,
                  match owned with Ok m => Ok (imap_get m t) | Err e => Err e | Panic => Panic end)) tags,
   owned).
