(* The GFF3 / GTF line loops over a delivered source (Text/LineBridge.v) compute
   GffLine.gff_read_lines / GtfLine.gtf_read_lines of the whole text, whatever the delivery
   schedule (short reads, Interrupted) and whatever the BufReader capacity (>= 1).
   Bridge between the structural line cutter of Text/GffLine.v (cut_line / strip_cr) and C12's
   closed forms (take_line / strip_eol, Io/BufReader.v and Io/BufReaderProofs.v). *)
From Coq Require Import List NArith Arith Bool Lia.
From Coq Require Import ZifyBool ZifyNat ZifyN.
From NV Require Import Io.Source Io.ReadExact Io.ReadExactProofs Io.BufReader Io.BufReaderProofs.
From NV Require Import Text.TextBase Text.GffLine Text.GffLineProofs Text.GtfLine Text.GtfLineProofs
  Text.LineBridge.
Import ListNotations.
Local Open Scope nat_scope.

(* ---- pure part: cut_line / strip_cr versus take_line / strip_eol ---- *)

Lemma is_ws_ascii : forall b, is_ws b = is_ascii_ws b.
Proof. intros b. reflexivity. Qed.

Lemma forallb_is_ws_ascii : forall l, forallb is_ascii_ws l = forallb is_ws l.
Proof. intros l. reflexivity. Qed.

Lemma cut_line_take_line : forall d l lf r, cut_line d = (l, lf, r) ->
  take_line LF d = l ++ (if lf then [10%N] else [])
  /\ r = skipn (length (take_line LF d)) d
  /\ ~ In 10%N l.
Proof.
  induction d as [|b t IH]; intros l lf r H.
  - cbn [cut_line] in H. injection H as H1 H2 H3. subst l lf r.
    cbn [take_line app length skipn]. split; [reflexivity|]. split; [reflexivity|].
    intros Hin. destruct Hin.
  - cbn [cut_line] in H. cbn [take_line]. unfold LF in *.
    destruct (N.eqb b 10) eqn:Hb.
    + injection H as H1 H2 H3. subst l lf r. apply N.eqb_eq in Hb. subst b.
      cbn [app length skipn]. split; [reflexivity|]. split; [reflexivity|].
      intros Hin. destruct Hin.
    + destruct (cut_line t) as [[l' lf'] r'] eqn:E. injection H as H1 H2 H3. subst l lf r.
      destruct (IH l' lf' r' eq_refl) as [Ht [Hr Hn]].
      rewrite Ht. cbn [app length skipn]. split; [reflexivity|].
      split.
      * rewrite Ht in Hr. cbn [app length] in Hr. exact Hr.
      * intros Hin. destruct Hin as [Hin|Hin].
        -- subst b. rewrite N.eqb_refl in Hb. discriminate Hb.
        -- apply Hn. exact Hin.
Qed.

Lemma strip_cr_snoc : forall l x,
  strip_cr (l ++ [x]) = if N.eqb x 13 then l else l ++ [x].
Proof.
  induction l as [|a l IH]; intros x.
  - cbn [app strip_cr]. reflexivity.
  - cbn [app strip_cr]. destruct (l ++ [x]) as [|c u] eqn:E.
    + destruct l; discriminate E.
    + rewrite <- E. rewrite IH. destruct (N.eqb x 13); reflexivity.
Qed.

Lemma strip_eol_lf : forall l, strip_eol (l ++ [10%N]) = strip_cr l.
Proof.
  intros l. unfold strip_eol, ends_with. rewrite rev_app_distr. cbn [rev app].
  unfold LF. rewrite N.eqb_refl. rewrite removelast_last.
  destruct l as [|a l0] using rev_ind.
  - cbn [rev strip_cr]. reflexivity.
  - rewrite rev_app_distr. cbn [rev app]. unfold CR. rewrite removelast_last.
    rewrite strip_cr_snoc. reflexivity.
Qed.

Lemma strip_eol_nolf : forall l, ~ In 10%N l -> strip_eol l = l.
Proof.
  intros l Hn. unfold strip_eol, ends_with.
  destruct l as [|a l0] using rev_ind.
  - cbn [rev]. reflexivity.
  - rewrite rev_app_distr. cbn [rev app]. unfold LF.
    destruct (N.eqb a 10) eqn:Ha.
    + exfalso. apply N.eqb_eq in Ha. subst a. apply Hn. apply in_or_app. right. left. reflexivity.
    + reflexivity.
Qed.

Lemma gff_raw_line_closed : forall d,
  gff_raw_line d = (strip_eol (take_line LF d), skipn (length (take_line LF d)) d).
Proof.
  intros d. unfold gff_raw_line. destruct (cut_line d) as [[l lf] r] eqn:E.
  destruct (cut_line_take_line d l lf r E) as [Ht [Hr Hn]].
  rewrite <- Hr. rewrite Ht. destruct lf.
  - rewrite strip_eol_lf. reflexivity.
  - rewrite app_nil_r. rewrite strip_eol_nolf by exact Hn. reflexivity.
Qed.

Lemma take_line_len_le : forall delim w, length (take_line delim w) <= length w.
Proof.
  intros delim w. induction w as [|x w IH]; cbn [take_line length]; [lia|].
  destruct (N.eqb x delim); cbn [length]; lia.
Qed.

Lemma take_line_len_pos : forall delim x w, 1 <= length (take_line delim (x :: w)).
Proof.
  intros delim x w. cbn [take_line]. destruct (N.eqb x delim); cbn [length]; lia.
Qed.

(* one step of the line loops on a non-empty text, in closed form *)
Lemma gff_read_lines_step : forall x t,
  let d := x :: t in
  let tl := take_line LF d in
  let r := skipn (length tl) d in
  length r < length d
  /\ gff_read_lines (Datatypes.S (length d)) d
     = if forallb is_ascii_ws (strip_eol tl) then gff_read_lines (Datatypes.S (length r)) r
       else strip_eol tl :: gff_read_lines (Datatypes.S (length r)) r.
Proof.
  intros x t d tl r.
  assert (Hr : length r < length d).
  { unfold r. rewrite skipn_length. pose proof (take_line_len_pos LF x t) as Hp.
    fold d in Hp. fold tl in Hp. unfold d. cbn [length]. lia. }
  split; [exact Hr|].
  unfold d at 2. cbn [gff_read_lines]. fold d. rewrite gff_raw_line_closed. fold tl. fold r. cbn beta iota.
  change (forallb is_ws (strip_eol tl)) with (forallb is_ascii_ws (strip_eol tl)).
  rewrite (gff_read_lines_fuel r (length d) (Datatypes.S (length r))) by lia.
  reflexivity.
Qed.

Lemma gtf_read_lines_step : forall x t,
  let d := x :: t in
  let tl := take_line LF d in
  let r := skipn (length tl) d in
  length r < length d
  /\ gtf_read_lines (Datatypes.S (length d)) d
     = strip_eol tl :: gtf_read_lines (Datatypes.S (length r)) r.
Proof.
  intros x t d tl r.
  assert (Hr : length r < length d).
  { unfold r. rewrite skipn_length. pose proof (take_line_len_pos LF x t) as Hp.
    fold d in Hp. fold tl in Hp. unfold d. cbn [length]. lia. }
  split; [exact Hr|].
  unfold d at 2. cbn [gtf_read_lines]. fold d. rewrite gff_raw_line_closed. fold tl. fold r. cbn beta iota.
  rewrite (gtf_read_lines_fuel r (length d) (Datatypes.S (length r))) by lia.
  reflexivity.
Qed.

(* C12's closed form of ONE gff read_line call (blank lines skipped) against gff_read_lines *)
Lemma gff_closed_read_lines : forall lines d, length d < lines ->
  exists n l rest,
    gff_closed lines d = Some (n, l, rest)
    /\ ((n = 0 /\ gff_read_lines (Datatypes.S (length d)) d = [])
        \/ (n <> 0 /\ length rest < length d
            /\ gff_read_lines (Datatypes.S (length d)) d
               = l :: gff_read_lines (Datatypes.S (length rest)) rest)).
Proof.
  induction lines as [|lines IH]; intros d Hl; [lia|].
  cbn [gff_closed]. destruct d as [|x t].
  - cbn [take_line length Nat.eqb orb skipn].
    exists 0, (strip_eol []), []. split; [reflexivity|]. left. split; reflexivity.
  - destruct (gff_read_lines_step x t) as [Hr Hstep].
    pose proof (take_line_len_pos LF x t) as Hp.
    set (d := x :: t) in *. set (tl := take_line LF d) in *.
    set (r := skipn (length tl) d) in *.
    assert (Hz : (length tl =? 0) = false) by (apply Nat.eqb_neq; lia).
    rewrite Hz. cbn [orb].
    destruct (forallb is_ascii_ws (strip_eol tl)) eqn:Hb; cbn [negb].
    + destruct (IH r) as [n [l [rest [Hc Hcase]]]]; [lia|].
      exists n, l, rest. split; [exact Hc|]. rewrite Hstep.
      destruct Hcase as [[Hn Hg]|[Hn [Hlen Hg]]].
      * left. split; [exact Hn|exact Hg].
      * right. split; [exact Hn|]. split; [lia|exact Hg].
    + exists (length tl), (strip_eol tl), r. split; [reflexivity|].
      right. split; [lia|]. split; [exact Hr|exact Hstep].
Qed.

(* ---- the delivered loops, over any reader that simulates a byte source ---- *)
Section Bridge.
  Context {S : Type}.
  Variable rd : reader S.
  Variable Rep : S -> list N -> nat -> Prop.
  Hypothesis Hsim : simulates rd Rep.
  Variable cap : nat.
  Hypothesis Hcap : 1 <= cap.

  (* GFF3: the caller's read_line loop over ANY delivery = gff_read_lines of the text *)
  Theorem gff_lines_delivered_spec : forall k lines fuel st d m,
    rep_buf Rep st d m
    -> m + length d + 1 < fuel -> length d < lines -> length d < k ->
    gff_lines_delivered rd cap k lines fuel st
    = Some (gff_read_lines (Datatypes.S (length d)) d).
  Proof.
    induction k as [|k IH]; intros lines fuel st d m HR Hf Hl Hk; [lia|].
    cbn [gff_lines_delivered].
    destruct (gff_closed_read_lines lines d Hl) as [n [l [rest [Hc Hcase]]]].
    destruct (gff_read_line_spec rd Rep Hsim cap Hcap lines fuel st d m n l rest HR Hf Hc)
      as [st1 [m1 [E [HR1 Hm1]]]].
    rewrite E.
    destruct Hcase as [[Hn Hg]|[Hn [Hlen Hg]]].
    - rewrite Hn. cbn [Nat.eqb]. rewrite Hg. reflexivity.
    - assert (Hz : Nat.eqb n 0 = false) by (apply Nat.eqb_neq; exact Hn).
      rewrite Hz.
      rewrite (IH lines fuel st1 rest m1 HR1) by lia.
      rewrite Hg. reflexivity.
  Qed.

  (* GTF: same, no blank-line skipping *)
  Theorem gtf_lines_delivered_spec : forall k fuel st d m,
    rep_buf Rep st d m
    -> m + length d + 1 < fuel -> length d < k ->
    gtf_lines_delivered rd cap k fuel st
    = Some (gtf_read_lines (Datatypes.S (length d)) d).
  Proof.
    induction k as [|k IH]; intros fuel st d m HR Hf Hk; [lia|].
    cbn [gtf_lines_delivered].
    destruct (read_line_spec rd Rep Hsim cap Hcap fuel st d m HR Hf)
      as [st1 [m1 [E [HR1 Hm1]]]].
    rewrite E. destruct d as [|x t].
    - cbn [take_line length Nat.eqb gtf_read_lines]. reflexivity.
    - destruct (gtf_read_lines_step x t) as [Hr Hstep].
      pose proof (take_line_len_pos LF x t) as Hp.
      set (d := x :: t) in *. set (tl := take_line LF d) in *.
      set (r := skipn (length tl) d) in *.
      assert (Hz : Nat.eqb (length tl) 0 = false) by (apply Nat.eqb_neq; lia).
      rewrite Hz.
      rewrite (IH fuel st1 r m1 HR1) by lia.
      rewrite Hstep. reflexivity.
  Qed.
End Bridge.

(* ---- instantiated at the scripted source of C12: every script of short reads / Interrupted,
   every capacity >= 1 *)
Lemma rep_buf_scripted_init : forall data sc,
  rep_buf rep_src ([], mkSource data sc) data (n_interrupted sc).
Proof.
  intros data sc. exists data. cbn [fst snd app]. split; [reflexivity|]. split; reflexivity.
Qed.

Theorem gff_lines_scripted : forall data sc cap, 1 <= cap ->
  gff_lines_delivered src_read cap (Datatypes.S (length data)) (Datatypes.S (length data))
      (n_interrupted sc + length data + 2) ([], mkSource data sc)
  = Some (gff_read_lines (Datatypes.S (length data)) data).
Proof.
  intros data sc cap Hcap.
  apply (gff_lines_delivered_spec src_read rep_src src_simulates cap Hcap
           (Datatypes.S (length data)) (Datatypes.S (length data))
           (n_interrupted sc + length data + 2) ([], mkSource data sc) data (n_interrupted sc)).
  - apply rep_buf_scripted_init.
  - lia.
  - lia.
  - lia.
Qed.

Theorem gtf_lines_scripted : forall data sc cap, 1 <= cap ->
  gtf_lines_delivered src_read cap (Datatypes.S (length data))
      (n_interrupted sc + length data + 2) ([], mkSource data sc)
  = Some (gtf_read_lines (Datatypes.S (length data)) data).
Proof.
  intros data sc cap Hcap.
  apply (gtf_lines_delivered_spec src_read rep_src src_simulates cap Hcap
           (Datatypes.S (length data))
           (n_interrupted sc + length data + 2) ([], mkSource data sc) data (n_interrupted sc)).
  - apply rep_buf_scripted_init.
  - lia.
  - lia.
Qed.

Print Assumptions gff_lines_scripted.
Print Assumptions gtf_lines_scripted.
