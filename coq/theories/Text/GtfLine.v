(* GTF lines as noodles-gtf reads and writes them (model; definitions only): io/reader.rs
   read_line (read_until LF, pop LF then one CR; NO blank-line skipping), line.rs (Line::kind:
   '#' first = comment, otherwise record; as_comment = text after the '#'), line_buf.rs
   (LineBuf::try_from), Reader::line_bufs (every error re-wrapped as InvalidData) and
   record_bufs (records only), io/writer/line.rs + line/comment.rs. *)
From Coq Require Import List NArith Bool.
From NV Require Import Text.TextBase Text.Gtf Text.GffLine.
Import ListNotations.
Open Scope N_scope.

(* Record::try_new + accessors on one line (gtf_read of Text/Gtf.v is this on the first line) *)
Definition gtf_parse_line (prs : list N -> option N) (line : list N) : gtf_line_result :=
  if gtf_starts_with_hash line then GNotRecord
  else match take_fields 8 line with
       | Some (cs, c9) => gtf_lazy_of_columns prs cs c9
       | None => GLineErr UnexpectedEof
       end.

(* read_line until it returns 0: every line, blank ones included (same line cutting as GFF3) *)
Fixpoint gtf_read_lines (fuel : nat) (s : list N) : list (list N) :=
  match fuel with
  | O => []
  | S f =>
      match s with
      | [] => []
      | _ => let '(l, r) := gff_raw_line s in l :: gtf_read_lines f r
      end
  end.

Inductive gtline := TComment (s : list N) | TRecord (l : gtf_line_result).
Definition gtf_classify (prs : list N -> option N) (line : list N) : gtline :=
  if gtf_starts_with_hash line then TComment (skipn 1 line) else TRecord (gtf_parse_line prs line).

(* LineBuf::try_from(line) inside line_bufs(): `.map_err(|e| io::Error::new(InvalidData, e))` *)
Inductive gtline_buf := TBComment (s : list N) | TBRecord (r : res feature).
Definition as_invalid_data {A} (r : res A) : res A :=
  match r with Err _ => Err InvalidData | x => x end.
Definition gtf_line_buf (prs : list N -> option N) (line : list N) : gtline_buf :=
  if gtf_starts_with_hash line then TBComment (skipn 1 line)
  else TBRecord (as_invalid_data
                   (match gtf_parse_line prs line with
                    | GRec l => gtf_owned l
                    | GLineErr e => Err e
                    | GNotRecord => Panic
                    end)).

Definition gtf_file_lines (prs : list N -> option N) (text : list N) : list gtline :=
  map (gtf_classify prs) (gtf_read_lines (S (length text)) text).
Definition gtf_file_line_bufs (prs : list N -> option N) (text : list N) : list gtline_buf :=
  map (gtf_line_buf prs) (gtf_read_lines (S (length text)) text).

(* record_bufs(): the records (and record errors), comments dropped *)
Definition gtf_record_bufs (ls : list gtline_buf) : list (res feature) :=
  flat_map (fun b => match b with TBRecord r => [r] | TBComment _ => [] end) ls.

Definition gtf_write_comment (s : list N) : list N := 35 :: s.
