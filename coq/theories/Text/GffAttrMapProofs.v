(* GFF3 attributes as a map: proofs about Text/GffAttrMap.v.
   1. IndexMap facts: insert/get, collect = last value per tag at the position of the first field,
      identity on lists with distinct tags.
   2. The lazy Attributes::get(tag) is the FIRST field with that tag among the fields the iterator
      yields; on a malformed column it is the first match met before the malformed field, else
      the error.
   3. Lazy view = owned map when the tags are distinct; refuted with a repeated tag (first vs last).
   4. Round trip of every attribute map the writer accepts (tags distinct, arbitrary bytes). *)
From Coq Require Import List NArith Bool Lia.
From Coq Require Import ZifyBool ZifyNat ZifyN.
From NV Require Import Base.Percent Base.PercentProofs Text.TextBase Text.TextBaseProofs
  Text.Gff Text.GffProofs Text.GffAttrMap Hostile.TotalText.
Import ListNotations.
Open Scope N_scope.

(* first / last value of a tag in an item list *)
Fixpoint assoc_first (items : list (list N * value)) (k : list N) : option value :=
  match items with
  | [] => None
  | (k', v) :: rest => if bytes_eqb k' k then Some v else assoc_first rest k
  end.
Definition assoc_last (items : list (list N * value)) (k : list N) : option value :=
  assoc_first (rev items) k.

(* ---- helpers ---- *)

Lemma imap_get_assoc_first : forall m k, imap_get m k = assoc_first m k.
Proof.
  induction m as [|[k' v'] rest IH]; intro k; [reflexivity|].
  cbn [imap_get assoc_first]. rewrite IH. reflexivity.
Qed.

Lemma assoc_first_app : forall a b k,
  assoc_first (a ++ b) k = match assoc_first a k with Some v => Some v | None => assoc_first b k end.
Proof.
  induction a as [|[k' v'] rest IH]; intros b k; [reflexivity|].
  cbn [app assoc_first]. destruct (bytes_eqb k' k); [reflexivity|apply IH].
Qed.

Lemma assoc_last_cons : forall k0 v0 items k,
  assoc_last ((k0, v0) :: items) k =
    match assoc_last items k with
    | Some v => Some v
    | None => if bytes_eqb k0 k then Some v0 else None
    end.
Proof.
  intros k0 v0 items k. unfold assoc_last. cbn [rev]. rewrite assoc_first_app.
  reflexivity.
Qed.

Lemma assoc_first_notin : forall items k, ~ In k (map fst items) -> assoc_first items k = None.
Proof.
  induction items as [|[k' v'] rest IH]; intros k Hn; [reflexivity|].
  cbn [assoc_first]. cbn [map fst In] in Hn.
  rewrite bytes_eqb_neq by (intro E; apply Hn; left; exact E).
  apply IH. intro Hin. apply Hn. right. exact Hin.
Qed.

(* ---- 1. IndexMap facts ---- *)

Lemma imap_get_insert : forall m k v k',
  imap_get (imap_insert m k v) k' = if bytes_eqb k k' then Some v else imap_get m k'.
Proof.
  induction m as [|[a va] rest IH]; intros k v k'.
  - cbn [imap_insert imap_get]. reflexivity.
  - cbn [imap_insert]. destruct (bytes_eqb a k) eqn:Eak.
    + apply bytes_eqb_eq in Eak. subst a. cbn [imap_get].
      destruct (bytes_eqb k k'); reflexivity.
    + cbn [imap_get]. rewrite IH. destruct (bytes_eqb a k') eqn:Eak'; [|reflexivity].
      apply bytes_eqb_eq in Eak'. subst a.
      rewrite (bytes_eqb_neq k k'); [reflexivity|].
      intro E. subst k'. rewrite bytes_eqb_refl in Eak. discriminate.
Qed.

Lemma imap_get_insert_same : forall m k v, imap_get (imap_insert m k v) k = Some v.
Proof. intros m k v. rewrite imap_get_insert, bytes_eqb_refl. reflexivity. Qed.

Lemma imap_get_insert_other : forall m k k' v, k' <> k -> imap_get (imap_insert m k v) k' = imap_get m k'.
Proof.
  intros m k k' v Hne. rewrite imap_get_insert.
  rewrite bytes_eqb_neq by (intro E; apply Hne; symmetry; exact E). reflexivity.
Qed.

Definition imap_step (m : list (list N * value)) (kv : list N * value) : list (list N * value) :=
  imap_insert m (fst kv) (snd kv).

Lemma imap_collect_fold : forall items, imap_collect items = fold_left imap_step items [].
Proof. reflexivity. Qed.

Lemma imap_fold_get_last : forall items m k,
  imap_get (fold_left imap_step items m) k =
    match assoc_last items k with Some v => Some v | None => imap_get m k end.
Proof.
  induction items as [|[k0 v0] rest IH]; intros m k; [reflexivity|].
  cbn [fold_left]. rewrite IH, assoc_last_cons. unfold imap_step. cbn [fst snd].
  rewrite imap_get_insert.
  destruct (assoc_last rest k); [reflexivity|]. destruct (bytes_eqb k0 k); reflexivity.
Qed.

Theorem imap_collect_get_last : forall items k, imap_get (imap_collect items) k = assoc_last items k.
Proof.
  intros items k. rewrite imap_collect_fold, imap_fold_get_last. cbn [imap_get].
  destruct (assoc_last items k); reflexivity.
Qed.

Lemma imap_insert_fresh : forall m k v, ~ In k (map fst m) -> imap_insert m k v = m ++ [(k, v)].
Proof.
  induction m as [|[a va] rest IH]; intros k v Hn; [reflexivity|].
  cbn [imap_insert app]. cbn [map fst In] in Hn.
  rewrite bytes_eqb_neq by (intro E; apply Hn; left; exact E).
  rewrite IH by (intro Hin; apply Hn; right; exact Hin). reflexivity.
Qed.

Lemma imap_fold_nodup : forall items m, NoDup (map fst (m ++ items)) ->
  fold_left imap_step items m = m ++ items.
Proof.
  induction items as [|[k0 v0] rest IH]; intros m Hnd.
  - cbn [fold_left]. rewrite app_nil_r. reflexivity.
  - cbn [fold_left]. unfold imap_step at 2. cbn [fst snd].
    assert (Hfresh : ~ In k0 (map fst m)).
    { rewrite map_app in Hnd. cbn [map fst] in Hnd. apply NoDup_remove_2 in Hnd.
      intro Hin. apply Hnd. apply in_or_app. left. exact Hin. }
    rewrite imap_insert_fresh by exact Hfresh.
    rewrite IH.
    + rewrite <- app_assoc. reflexivity.
    + rewrite <- app_assoc. exact Hnd.
Qed.

Theorem imap_collect_nodup : forall items, NoDup (map fst items) -> imap_collect items = items.
Proof.
  intros items Hnd. rewrite imap_collect_fold. rewrite imap_fold_nodup; [reflexivity|exact Hnd].
Qed.

Lemma assoc_first_last_nodup : forall items k, NoDup (map fst items) -> assoc_first items k = assoc_last items k.
Proof.
  intros items k Hnd. rewrite <- imap_collect_get_last, imap_collect_nodup by exact Hnd.
  symmetry. apply imap_get_assoc_first.
Qed.

(* ---- 2. the lazy get ---- *)

(* how the end of the iteration shows in get when no field matched *)
Definition get_of_end (e : option (res unit)) : option (res value) :=
  match e with
  | None => None
  | Some (Err x) => Some (Err x)
  | Some _ => Some Panic
  end.

(* loop version, for every fuel (also insufficient: both run out at the same field) *)
Lemma gff_attrs_get_loop_iter : forall fuel src tag,
  gff_attrs_get_loop fuel src tag =
    match assoc_first (fst (gff_attrs_iter fuel src)) tag with
    | Some v => Some (Ok v)
    | None => get_of_end (snd (gff_attrs_iter fuel src))
    end.
Proof.
  induction fuel as [|f IH]; intros src tag; [reflexivity|].
  cbn [gff_attrs_get_loop gff_attrs_iter]. destruct src as [|b s]; [reflexivity|].
  destruct (split_once 61 (b :: s)) as [[t rest]|] eqn:E61; [|reflexivity].
  cbn [fst snd assoc_first].
  destruct (bytes_eqb (pct_dec t) tag); [reflexivity|]. apply IH.
Qed.

Theorem gff_attrs_get_first : forall col tag items,
  gff_attrs_parse col = (items, None) ->
  gff_attrs_get col tag = option_map Ok (assoc_first items tag).
Proof.
  intros col tag items Hp. unfold gff_attrs_parse in Hp. unfold gff_attrs_get.
  destruct (bytes_eqb col [46]).
  - injection Hp as Hi. subst items. reflexivity.
  - rewrite gff_attrs_get_loop_iter, Hp. cbn [fst snd get_of_end].
    destruct (assoc_first items tag); reflexivity.
Qed.

Theorem gff_attrs_get_malformed : forall col tag items e,
  gff_attrs_parse col = (items, Some e) ->
  gff_attrs_get col tag =
    match assoc_first items tag with Some v => Some (Ok v) | None => Some (Err InvalidData) end.
Proof.
  intros col tag items e Hp.
  assert (He : e = Err InvalidData).
  { destruct (gff_attrs_parse_end col) as [En|En]; rewrite Hp in En; cbn [snd] in En;
      [discriminate|]. injection En as En. exact En. }
  subst e. unfold gff_attrs_parse in Hp. unfold gff_attrs_get.
  destruct (bytes_eqb col [46]); [discriminate|].
  rewrite gff_attrs_get_loop_iter, Hp. cbn [fst snd get_of_end]. reflexivity.
Qed.

(* the end of the iteration is the only other outcome: every column text falls under
   gff_attrs_get_first or gff_attrs_get_malformed *)
Corollary gff_attrs_get_total : forall col tag,
  gff_attrs_get col tag =
    match assoc_first (fst (gff_attrs_parse col)) tag with
    | Some v => Some (Ok v)
    | None => match snd (gff_attrs_parse col) with None => None | Some _ => Some (Err InvalidData) end
    end.
Proof.
  intros col tag. destruct (gff_attrs_parse col) as [items [e|]] eqn:Hp; cbn [fst snd].
  - apply (gff_attrs_get_malformed col tag items e Hp).
  - rewrite (gff_attrs_get_first col tag items Hp). destruct (assoc_first items tag); reflexivity.
Qed.

(* ---- 3. lazy view = owned map ---- *)

Theorem gff_attrs_get_lazy_eq_owned : forall col items,
  gff_attrs_parse col = (items, None) -> NoDup (map fst items) ->
  gff_owned_attrs col = Ok items /\
  forall tag, gff_attrs_get col tag = option_map Ok (imap_get items tag).
Proof.
  intros col items Hp Hnd. split.
  - unfold gff_owned_attrs. rewrite Hp. rewrite imap_collect_nodup by exact Hnd. reflexivity.
  - intro tag. rewrite (gff_attrs_get_first col tag items Hp).
    exact (f_equal (option_map Ok) (eq_sym (imap_get_assoc_first items tag))).
Qed.

(* without distinctness: the owned get is the LAST field with the tag, the lazy get the FIRST *)
Theorem gff_attrs_get_owned_last : forall col items,
  gff_attrs_parse col = (items, None) ->
  exists m, gff_owned_attrs col = Ok m /\
  forall tag, imap_get m tag = assoc_last items tag
              /\ gff_attrs_get col tag = option_map Ok (assoc_first items tag).
Proof.
  intros col items Hp. exists (imap_collect items). split.
  - unfold gff_owned_attrs. rewrite Hp. reflexivity.
  - intro tag. split; [apply imap_collect_get_last|apply (gff_attrs_get_first col tag items Hp)].
Qed.

(* exactness: column "a=1;a=2" *)
Theorem gff_attrs_get_dup_refuted :
  gff_attrs_get [97; 61; 49; 59; 97; 61; 50] [97] = Some (Ok (VString [49]))
  /\ gff_owned_attrs [97; 61; 49; 59; 97; 61; 50] = Ok [([97], VString [50])].
Proof. split; vm_compute; reflexivity. Qed.

(* ---- 4. round trip of every attribute map the writer accepts ---- *)

Lemma canon_attrs_tags : forall a, map fst (canon_attrs a) = map fst a.
Proof.
  intro a. unfold canon_attrs. rewrite map_map. apply map_ext. intro tv. reflexivity.
Qed.

Theorem gff_attributes_roundtrip : forall a,
  Forall attr_ok a -> NoDup (map fst a) ->
  gff_attrs_parse (gff_attrs_text a) = (canon_attrs a, None)
  /\ gff_owned_attrs (gff_attrs_text a) = Ok (canon_attrs a)
  /\ forall tag, gff_attrs_get (gff_attrs_text a) tag = option_map Ok (imap_get (canon_attrs a) tag).
Proof.
  intros a Hok Hnd. pose proof (gff_attrs_roundtrip a Hok) as Hp.
  split; [exact Hp|].
  apply gff_attrs_get_lazy_eq_owned; [exact Hp|]. rewrite canon_attrs_tags. exact Hnd.
Qed.

Print Assumptions gff_attributes_roundtrip.
Print Assumptions gff_attrs_get_first.
