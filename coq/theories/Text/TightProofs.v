(* C18: the exact hypotheses under which the GFF3 record line round-trips through the real code
   (known classes gff3-seqid-not-decoded, gff3-source-type-not-encoded made tight), and
   lazy view = owned record for BED. *)
From Coq Require Import List NArith Bool Lia.
From NV Require Import Base.Percent Base.PercentProofs Text.TextBase Text.TextBaseProofs
  Text.Gff Text.GffProofs Text.Gtf Text.Bed Text.BedRec.
Import ListNotations.
Open Scope N_scope.

Lemma pct_enc_length : forall S s, (length s <= length (pct_enc S s))%nat.
Proof.
  induction s as [|b t IH]; [cbn; lia|].
  rewrite pct_enc_cons, app_length. destruct (S b); cbn [length pct_byte]; lia.
Qed.

(* the encoding of a string is the string itself exactly when no byte is in the set *)
Lemma pct_enc_id_iff : forall S s, pct_enc S s = s <-> Forall (fun b => S b = false) s.
Proof.
  intros S s. split; [|apply pct_enc_id].
  induction s as [|b t IH]; intro H; [constructor|].
  rewrite pct_enc_cons in H. destruct (S b) eqn:Eb.
  - exfalso. apply (f_equal (@length N)) in H. rewrite app_length in H. cbn [pct_byte length] in H.
    pose proof (pct_enc_length S t). lia.
  - cbn [app] in H. injection H as H. constructor; [exact Eb|now apply IH].
Qed.

(* seqid: for EVERY well-formed record the sequence id comes back equal if and only if its
   encoding is the identity, i.e. no byte of it is in the seqid encode set *)
Theorem gff_seqid_roundtrip_iff : forall fmt prs r line,
  gff_wf fmt prs r -> gff_write fmt r = Ok line ->
  ((exists l, gff_read prs (line ++ [10]) = Rec l /\ l_seqid l = f_seqid r) <-> seqid_plain r).
Proof.
  intros fmt prs r line Hwf Hw. pose proof (gff_record_readback fmt prs r line Hwf Hw) as Hrb.
  unfold seqid_plain. rewrite <- pct_enc_id_iff. split.
  - intros (l & Hl & Hs). rewrite Hrb in Hl. injection Hl as Hl. subst l. exact Hs.
  - intro H. exists (gff_expected r). split; [exact Hrb|exact H].
Qed.

(* source / type: what gff_wf asks (no TAB, no LF) is all that is needed -- CR, '%', control
   characters and non-ASCII bytes in source and type DO round-trip through the code (they are
   merely not escaped as GFF3 asks); witnesses just outside: TAB (columns shift) and LF (the
   record splits) in source, and the same in type *)
Definition wild_source : feature :=
  {| f_seqid := [99]; f_source := [37; 52; 49; 13; 1; 200; 37]; f_type := [13; 37; 50; 53];
     f_start := 1; f_end := 2; f_score := None; f_strand := SNone; f_phase := None; f_attrs := [] |}.
Example wild_source_wf : gff_wf (fun _ => []) (fun _ => None) wild_source /\ seqid_plain wild_source.
Proof.
  unfold gff_wf, seqid_plain, wild_source, bytes_ok, is_byte, u64_max. cbn.
  repeat split; try lia; try discriminate; try (intros x E; discriminate);
    try (intros H; repeat (destruct H as [H|H]; [discriminate|]); exact H);
    repeat (constructor; try reflexivity; try lia).
Qed.

Definition lf_type_witness : feature :=
  {| f_seqid := [99]; f_source := [46]; f_type := [103; 10; 104];
     f_start := 1; f_end := 1; f_score := None; f_strand := SNone; f_phase := None; f_attrs := [] |}.

Theorem gff_type_lf_refuted : exists r line,
  gff_write (fun _ => []) r = Ok line /\
  gff_read (fun _ => None) (line ++ [10]) = LineErr UnexpectedEof.
Proof.
  exists lf_type_witness. eexists. split; [vm_compute; reflexivity|]. vm_compute. reflexivity.
Qed.

(* ---- BED: every accessor of the lazy view = the field of the owned record ---- *)
Theorem bed_lazy_eq_owned : forall n v b, bed_owned n v = Ok b ->
  bv_name v = Ok (b_name b) /\ bv_start v = Ok (b_start b) /\ bv_end v = Ok (b_end b)
  /\ (forall x, bv_nm v = Some x -> x = Ok (b_nm b))
  /\ (forall x, bv_score v = Some x -> x = Ok (b_score b))
  /\ (forall x, bv_strand v = Some x -> x = Ok (b_strand b))
  /\ bv_others v = Ok (b_others b) /\ b_n b = n.
Proof.
  intros n v b H. unfold bed_owned in H.
  destruct (bv_name v) as [nm| |]; cbn [res_bind] in H; try discriminate.
  destruct (bv_start v) as [st| |]; cbn [res_bind] in H; try discriminate.
  destruct (bv_end v) as [en| |]; cbn [res_bind] in H; try discriminate.
  destruct (bv_nm v) as [[x| |]|]; cbn [opt_res res_bind] in H; try discriminate;
  destruct (bv_score v) as [[y| |]|]; cbn [opt_res res_bind] in H; try discriminate;
  destruct (bv_strand v) as [[z| |]|]; cbn [opt_res res_bind] in H; try discriminate;
  destruct (bv_others v) as [os| |]; cbn [res_bind] in H; try discriminate;
  injection H as H; subst b; cbn [b_name b_start b_end b_nm b_score b_strand b_others b_n];
  repeat split; try (intros w E; now injection E as E; subst w); try (intros w E; discriminate).
Qed.

(* ---- GTF: the same statement for gtf::Record and the RecordBuf built from it ---- *)
Theorem gtf_lazy_eq_owned : forall l f, gtf_owned l = Ok f ->
  l_seqid l = f_seqid f /\ l_source l = f_source f /\ l_type l = f_type f
  /\ l_start l = Ok (f_start f) /\ l_end l = Ok (f_end f)
  /\ l_score l = option_map Ok (f_score f) /\ l_strand l = Ok (f_strand f)
  /\ l_phase l = option_map Ok (f_phase f) /\ l_attrs l = (f_attrs f, None).
Proof.
  intros l f H. unfold gtf_owned in H. now apply gff_lazy_eq_owned.
Qed.
