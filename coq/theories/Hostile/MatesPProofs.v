(* C15 — resolve_mates never panics, for EVERY list of records and EVERY mate distance.

   [resolve_mates_p] (MatesP.v: explicit panic at each slice index, explicit out-of-fuel for the two
   `while let` walks) equals C07's silent model [resolve_mates] lifted into the four-way result:
   no index site and no fuel exhaustion is reachable, because the validated mate index table is a
   strictly increasing partial successor function inside the slice ([mi_ok]) and both walks keep it
   so.  The code before /repo 21bfe86 (unchecked `i + len + 1`) reaches S_RIGHT_MATE. *)
From Coq Require Import List NArith ZArith Bool Lia Arith.
From Coq Require Import ZifyBool ZifyNat ZifyN.
From NV Require Import CramRec.Features CramRec.Mates CramRec.MatesProofs Hostile.MatesP.
Import ListNotations.

(* the mate index table: inside the slice and strictly increasing *)
Definition mi_ok (n : nat) (mi : list (option nat)) : Prop :=
  length mi = n /\ forall j m, mi_get mi j = Some m -> (j < m < n)%nat.

Lemma nth_error_mi : forall (mi : list (option nat)) j, (j < length mi)%nat ->
  nth_error mi j = Some (mi_get mi j).
Proof. intros mi j H. unfold mi_get. now apply nth_error_nth'. Qed.

Lemma nth_error_rget : forall (rs : list mrec) j, (j < length rs)%nat ->
  nth_error rs j = Some (rget rs j).
Proof. intros rs j H. unfold rget. now apply nth_error_nth'. Qed.

Lemma mate_indices_from_ok : forall n rs i mi,
  mate_indices_from n i rs = Some mi ->
  length mi = length rs /\ forall x m, mi_get mi x = Some m -> (i + x < m < n)%nat.
Proof.
  intros n. induction rs as [|r tl IH]; intros i mi H; cbn [mate_indices_from] in H.
  - inversion H; subst. split; [reflexivity|]. intros x m Hx. unfold mi_get in Hx.
    destruct x; cbn in Hx; discriminate.
  - destruct (mate_indices_from n (S i) tl) as [rest|] eqn:E; [|discriminate].
    destruct (IH (S i) rest E) as [Hl Hr].
    assert (Hcons : forall o, mi = o :: rest ->
              (o = None \/ exists m, o = Some m /\ (i < m < n)%nat) ->
              length mi = length (r :: tl) /\
              forall x m, mi_get mi x = Some m -> (i + x < m < n)%nat).
    { intros o Hm Ho. subst mi. split; [cbn [length]; now rewrite Hl|].
      intros x m Hx. destruct x as [|x].
      - unfold mi_get in Hx; cbn [nth] in Hx. destruct Ho as [Ho|[m' [Ho Hb]]]; subst o; [discriminate|].
        inversion Hx; subst. lia.
      - unfold mi_get in Hx; cbn [nth] in Hx. specialize (Hr x m Hx). lia. }
    destruct (m_dist r) as [d|].
    + destruct (Nat.ltb_spec (i + N.to_nat d + 1) n) as [Hlt|Hge]; [|discriminate].
      inversion H; subst. eapply Hcons; [reflexivity|]. right. eexists. split; [reflexivity|lia].
    + inversion H; subst. eapply Hcons; [reflexivity|]. now left.
Qed.

Lemma mate_indices_n_eq : forall n rs i, mate_indices_n n i rs = mate_indices_from n i rs.
Proof.
  intros n. induction rs as [|r tl IH]; intro i; cbn [mate_indices_n mate_indices_from]; [reflexivity|].
  rewrite IH. destruct (mate_indices_from n (S i) tl) as [rest|]; [|reflexivity].
  destruct (m_dist r) as [d|]; [|reflexivity].
  destruct (N.ltb_spec (N.of_nat i + d + 1) (N.of_nat n)) as [H|H];
    destruct (Nat.ltb_spec (i + N.to_nat d + 1) n) as [H'|H']; try reflexivity; lia.
Qed.

Lemma mi_ok_clear : forall n mi j, mi_ok n mi -> mi_ok n (upd mi j (fun _ => None)).
Proof.
  intros n mi j [Hl Hr]. split; [now rewrite length_upd|].
  intros x m Hx. destruct (Nat.eq_dec x j) as [E|E].
  - subst x. destruct (Nat.lt_ge_cases j (length mi)) as [Hlt|Hge].
    + unfold mi_get in Hx. rewrite nth_upd_same in Hx by assumption. discriminate.
    + unfold mi_get in Hx. rewrite nth_overflow in Hx by (rewrite length_upd; assumption). discriminate.
  - rewrite mi_upd_other in Hx by assumption. now apply Hr.
Qed.

(* ---------------------------------------------------------------- first walk *)
Lemma walk_set_p_ok : forall fuel mi rs j,
  mi_ok (length rs) mi -> (j < length rs)%nat -> (length rs - j <= fuel)%nat ->
  walk_set_p fuel mi rs j = MPOk (walk_set fuel mi rs j) /\
  length (fst (walk_set fuel mi rs j)) = length rs /\
  (j <= snd (walk_set fuel mi rs j) < length rs)%nat /\
  (mi_get mi j <> None -> (j < snd (walk_set fuel mi rs j))%nat).
Proof.
  induction fuel as [|f IH]; intros mi rs j Hok Hj Hf; [lia|].
  assert (Hl : length mi = length rs) by exact (proj1 Hok).
  cbn [walk_set_p walk_set].
  rewrite nth_error_mi by lia.
  destruct (mi_get mi j) as [m|] eqn:Em.
  - pose proof (proj2 Hok j m Em) as Hr.
    destruct (Nat.ltb_spec (length rs) (S j)) as [H1|H1]; [lia|].
    destruct (Nat.ltb_spec m (S j)) as [H2|H2]; [lia|].
    rewrite nth_error_rget by lia.
    specialize (IH mi (upd rs j (fun r => set_mate r (rget rs m))) m).
    rewrite length_upd in IH.
    destruct (IH Hok ltac:(lia) ltac:(lia)) as (E & L & B & _).
    split; [exact E|]. split; [exact L|]. split; [lia|]. intros _. lia.
  - split; [reflexivity|]. cbn [fst snd]. split; [reflexivity|]. split; [lia|].
    intros H. now elim H.
Qed.

(* ---------------------------------------------------------------- second walk *)
Lemma walk_tlen_p_ok : forall fuel t mi rs j,
  mi_ok (length rs) mi -> (j < length rs)%nat -> (length rs - j <= fuel)%nat ->
  walk_tlen_p fuel t mi rs j = MPOk (walk_tlen fuel t mi rs j) /\
  length (fst (walk_tlen fuel t mi rs j)) = length rs /\
  mi_ok (length rs) (snd (walk_tlen fuel t mi rs j)).
Proof.
  induction fuel as [|f IH]; intros t mi rs j Hok Hj Hf; [lia|].
  assert (Hl : length mi = length rs) by exact (proj1 Hok).
  cbn [walk_tlen_p walk_tlen].
  rewrite nth_error_mi by lia.
  destruct (mi_get mi j) as [m|] eqn:Em.
  - pose proof (proj2 Hok j m Em) as Hr.
    rewrite nth_error_rget by lia.
    specialize (IH t (upd mi j (fun _ => None)) (upd rs m (set_tlen (- t))) m).
    rewrite length_upd in IH.
    destruct (IH (mi_ok_clear _ _ _ Hok) ltac:(lia) ltac:(lia)) as (E & L & K).
    split; [exact E|]. split; [exact L | exact K].
  - split; [reflexivity|]. cbn [fst snd]. split; [reflexivity | exact Hok].
Qed.

(* ---------------------------------------------------------------- one iteration of the for loop *)
Lemma resolve_step_p_ok : forall rs mi i,
  mi_ok (length rs) mi -> (i < length rs)%nat ->
  resolve_step_p (rs, mi) i = MPOk (resolve_step (rs, mi) i) /\
  length (fst (resolve_step (rs, mi) i)) = length rs /\
  mi_ok (length rs) (snd (resolve_step (rs, mi) i)).
Proof.
  intros rs mi i Hok Hi.
  assert (Hl : length mi = length rs) by exact (proj1 Hok).
  cbn [resolve_step_p resolve_step].
  rewrite nth_error_mi by lia.
  destruct (mi_get mi i) as [m|] eqn:Em.
  - destruct (walk_set_p_ok (length rs) mi rs i Hok Hi ltac:(lia)) as (E & L & B & P).
    rewrite E. cbn [mp_bind].
    destruct (walk_set (length rs) mi rs i) as [rs1 j] eqn:Ew. cbn [fst snd] in L, B, P.
    assert (Hij : (i < j)%nat) by (apply P; congruence).
    destruct (Nat.ltb_spec (length rs1) j) as [H1|H1]; [lia|].
    rewrite (nth_error_rget rs1 j) by lia.
    destruct (Nat.ltb_spec i j) as [H2|H2]; [|lia].
    rewrite (nth_error_rget rs1 i) by lia.
    set (rs2 := upd rs1 j (fun r => set_mate r (rget rs1 i))).
    set (t := tlen_calc (rget rs2 j) (rget rs2 i)).
    set (rs3 := upd rs2 i (set_tlen t)).
    assert (L3 : length rs3 = length rs) by (unfold rs3, rs2; now rewrite !length_upd).
    pose proof (walk_tlen_p_ok (length rs) t mi rs3 i) as W. rewrite L3 in W.
    destruct (W Hok Hi ltac:(lia)) as (E2 & L2 & K2).
    split; [exact E2|]. split; [exact L2 | exact K2].
  - split; [reflexivity|]. cbn [fst snd]. split; [reflexivity | exact Hok].
Qed.

Lemma resolve_fold_p_ok : forall is rs mi,
  mi_ok (length rs) mi -> Forall (fun i => (i < length rs)%nat) is ->
  resolve_fold_p is (rs, mi) = MPOk (fold_left resolve_step is (rs, mi)) /\
  length (fst (fold_left resolve_step is (rs, mi))) = length rs.
Proof.
  induction is as [|i tl IH]; intros rs mi Hok Hall; cbn [resolve_fold_p fold_left].
  - split; reflexivity.
  - inversion Hall as [|? ? Hi Htl]; subst.
    destruct (resolve_step_p_ok rs mi i Hok Hi) as (E & L & K).
    rewrite E. cbn [mp_bind].
    destruct (resolve_step (rs, mi) i) as [rs' mi'] eqn:Es. cbn [fst snd] in L, K.
    rewrite <- L in K. destruct (IH rs' mi' K) as (E2 & L2); [now rewrite L|].
    split; [exact E2 | now rewrite L2].
Qed.

(* ---------------------------------------------------------------- the whole function *)
Definition lift_mates (o : option (list mrec)) : mp (list mrec) :=
  match o with Some out => MPOk out | None => MPErr end.

Theorem resolve_mates_p_eq : forall rs, resolve_mates_p rs = lift_mates (resolve_mates rs).
Proof.
  intro rs. unfold resolve_mates_p, resolve_mates. rewrite mate_indices_n_eq.
  destruct (mate_indices_from (length rs) 0 rs) as [mi|] eqn:Emi; [|reflexivity].
  destruct (mate_indices_from_ok _ _ _ _ Emi) as [Hl Hr].
  assert (Hok : mi_ok (length rs) mi).
  { split; [exact Hl|]. intros j m H. specialize (Hr j m H). lia. }
  destruct (resolve_fold_p_ok (seq 0 (length rs)) rs mi Hok) as (E & _).
  { apply Forall_forall. intros x Hx. apply in_seq in Hx. lia. }
  rewrite E. reflexivity.
Qed.

Theorem resolve_mates_p_total : forall rs,
  (exists out, resolve_mates_p rs = MPOk out /\ length out = length rs) \/ resolve_mates_p rs = MPErr.
Proof.
  intro rs. unfold resolve_mates_p. rewrite mate_indices_n_eq.
  destruct (mate_indices_from (length rs) 0 rs) as [mi|] eqn:Emi; [|now right].
  destruct (mate_indices_from_ok _ _ _ _ Emi) as [Hl Hr].
  assert (Hok : mi_ok (length rs) mi).
  { split; [exact Hl|]. intros j m H. specialize (Hr j m H). lia. }
  destruct (resolve_fold_p_ok (seq 0 (length rs)) rs mi Hok) as (E & L).
  { apply Forall_forall. intros x Hx. apply in_seq in Hx. lia. }
  rewrite E. left. eexists. split; [reflexivity | exact L].
Qed.

Corollary resolve_mates_p_never_panics : forall rs s,
  resolve_mates_p rs <> MPPanic s /\ resolve_mates_p rs <> MPFuel.
Proof.
  intros rs s. destruct (resolve_mates_p_total rs) as [[out [E _]]|E]; rewrite E; split; discriminate.
Qed.

(* Err exactly when some mate distance points at or past the end of the slice *)
Lemma mate_indices_none : forall n rs i,
  mate_indices_from n i rs = None ->
  exists x d, (x < length rs)%nat /\ m_dist (rget rs x) = Some d /\ (n <= i + x + N.to_nat d + 1)%nat.
Proof.
  intros n. induction rs as [|r tl IH]; intros i H; cbn [mate_indices_from] in H; [discriminate|].
  destruct (mate_indices_from n (S i) tl) as [rest|] eqn:E.
  - destruct (m_dist r) as [d|] eqn:Ed; [|discriminate].
    destruct (Nat.ltb_spec (i + N.to_nat d + 1) n) as [Hlt|Hge]; [discriminate|].
    exists 0%nat, d. cbn [length]. unfold rget; cbn [nth]. split; [lia|]. split; [exact Ed | lia].
  - destruct (IH (S i) E) as (x & d & Hx & Hd & Hb).
    exists (S x), d. cbn [length]. unfold rget in *; cbn [nth]. split; [lia|]. split; [exact Hd | lia].
Qed.

Theorem resolve_mates_p_err_iff : forall rs,
  resolve_mates_p rs = MPErr <->
  exists x d, (x < length rs)%nat /\ m_dist (rget rs x) = Some d /\ (length rs <= x + N.to_nat d + 1)%nat.
Proof.
  intro rs. rewrite resolve_mates_p_eq. unfold resolve_mates.
  split.
  - intro H. destruct (mate_indices_from (length rs) 0 rs) as [mi|] eqn:Emi; [discriminate|].
    destruct (mate_indices_none _ _ _ Emi) as (x & d & Hx & Hd & Hb).
    exists x, d. split; [exact Hx|]. split; [exact Hd | lia].
  - intros (x & d & Hx & Hd & Hb).
    destruct (mate_indices_from (length rs) 0 rs) as [mi|] eqn:Emi; [|reflexivity].
    exfalso. pose proof (mate_indices_get _ _ _ _ x Emi) as G. rewrite Hd in G.
    destruct (Nat.ltb_spec x (length rs)) as [_|]; [|lia].
    destruct (mate_indices_from_ok _ _ _ _ Emi) as [_ Hr]. specialize (Hr x _ G). lia.
Qed.

(* ---------------------------------------------------------------- the code before 21bfe86 *)
Definition rec_dist (d : option N) : mrec :=
  mk_mrec 1 None None None 0 [] None None 0%Z false true d.

(* the unit test of the fix: [Some 1; None] -- the distance points one past the slice *)
Theorem resolve_mates_p_v0_witness :
  resolve_mates_p_v0 [rec_dist (Some 1%N); rec_dist None] = MPPanic S_RIGHT_MATE /\
  resolve_mates_p [rec_dist (Some 1%N); rec_dist None] = MPErr.
Proof. split; vm_compute; reflexivity. Qed.

(* where the table is valid the old code and the new code agree *)
Lemma mate_indices_v0_eq : forall n rs i mi,
  mate_indices_from n i rs = Some mi -> mate_indices_v0 i rs = mi.
Proof.
  intros n. induction rs as [|r tl IH]; intros i mi H; cbn [mate_indices_from mate_indices_v0] in *.
  - now inversion H.
  - destruct (mate_indices_from n (S i) tl) as [rest|] eqn:E; [|discriminate].
    rewrite (IH (S i) rest E).
    destruct (m_dist r) as [d|]; [|now inversion H].
    destruct (_ <? n)%nat; [now inversion H | discriminate].
Qed.

Theorem resolve_mates_p_v0_agrees : forall rs out,
  resolve_mates_p rs = MPOk out -> resolve_mates_p_v0 rs = MPOk out.
Proof.
  intros rs out H. unfold resolve_mates_p in H. rewrite mate_indices_n_eq in H. unfold resolve_mates_p_v0.
  destruct (mate_indices_from (length rs) 0 rs) as [mi|] eqn:Emi; [|discriminate].
  now rewrite (mate_indices_v0_eq _ _ _ _ Emi).
Qed.
