(* C15, tenth wave: validate is EXACTLY the precondition of the raw lazy accessors of a BAM record,
   for every byte string.  Proofs only. *)
From Coq Require Import List NArith Bool Lia.
From NV Require Import Bam.Record Bam.Decode Bam.Lazy Bam.LazyProofs Bam.LazyErrIffProofs Hostile.BamAcc.
Import ListNotations.
Open Scope N_scope.

(* converse of C05's validate_ok *)
Lemma validate_complete : forall bs,
  32 + lz_lname bs + 4 * lz_nops bs + (lz_lseq bs + 1) / 2 + lz_lseq bs <= lenN bs -> validate bs = Ok tt.
Proof.
  intros bs H. unfold validate. destruct (lenN bs <? 32) eqn:E32; [lia|].
  pose proof (skipn_skipN bs 8) as H8. change (N.to_nat 8) with 8%nat in H8.
  pose proof (skipn_skipN bs 12) as H12. change (N.to_nat 12) with 12%nat in H12.
  pose proof (skipn_skipN bs 16) as H16. change (N.to_nat 16) with 16%nat in H16.
  rewrite H16, H12, H8. clear H8 H12 H16.
  unfold lz_lname, lz_nops, lz_lseq, field in H.
  destruct (rdW_some 1 (skipN 8 bs)) as (a & ra & Ea); [rewrite lenN_skipN; lia|].
  destruct (rdW_some 2 (skipN 12 bs)) as (b & rb & Eb); [rewrite lenN_skipN; lia|].
  destruct (rdW_some 4 (skipN 16 bs)) as (c & rc & Ec); [rewrite lenN_skipN; lia|].
  rewrite Ea, Eb, Ec in *.
  destruct (lenN bs <? 32 + a + 4 * b + (c + 1) / 2 + c) eqn:E; [lia|reflexivity].
Qed.

Lemma validate_only_eof : forall bs, validate bs = Ok tt \/ validate bs = Err UnexpectedEof.
Proof.
  intros bs. unfold validate. destruct (lenN bs <? 32); [right; reflexivity|].
  destruct (rdW 1 (skipn 8 bs)) as [[x1 ?]|]; [|right; reflexivity].
  destruct (rdW 2 (skipn 12 bs)) as [[x2 ?]|]; [|right; reflexivity].
  destruct (rdW 4 (skipn 16 bs)) as [[x3 ?]|]; [|right; reflexivity].
  destruct (_ <? _); [right|left]; reflexivity.
Qed.

Lemma cigar_buf_ok : forall bs, lzp_cigar_raw bs <> None -> lzp_data_raw bs <> None -> lzp_cigar_buf bs <> None.
Proof.
  intros bs Hc Hd. unfold lzp_cigar_buf.
  destruct (lzp_cigar_raw bs) as [src|]; [|congruence].
  destruct (is_placeholder bs src); [|discriminate].
  destruct (lzp_data_raw bs) as [d|]; [|congruence].
  destruct (raw_cigar (length d) d); discriminate.
Qed.

(* validate accepts => every slice in range (any byte string) *)
Theorem validate_accessors_in_bounds : forall body, validate body = Ok tt -> accessors_in_bounds body.
Proof.
  intros body Hv. destruct (lazy_slices_ok body Hv) as (H1 & H2 & H3 & H4 & H5 & H6 & _).
  unfold accessors_in_bounds. rewrite H2, H3, H4, H5, H6.
  assert (Hb : lzp_cigar_buf body <> None) by (apply cigar_buf_ok; [rewrite H3|rewrite H6]; discriminate).
  repeat split; try discriminate; assumption.
Qed.

(* validate rejects a body that holds the head => quality_scores() AND data() would panic: the
   check cannot be weakened by a single byte *)
Theorem validate_exact : forall body,
  validate body = Ok tt <-> (has_head body = true /\ lzp_qual body <> None).
Proof.
  intros body. split.
  - intros Hv. destruct (validate_accessors_in_bounds body Hv) as (H1 & _ & _ & _ & _ & H5 & _). split; assumption.
  - intros [Hh Hq]. apply validate_complete. unfold lzp_qual, lzp_slice in Hq.
    destruct (_ <=? lenN body) eqn:E in Hq; [lia|]. cbn [option_map] in Hq. congruence.
Qed.

Theorem validate_exact_data : forall body,
  validate body = Ok tt <-> (has_head body = true /\ lzp_data_raw body <> None).
Proof.
  intros body. split.
  - intros Hv. destruct (validate_accessors_in_bounds body Hv) as (H1 & _ & _ & _ & _ & _ & H6). split; assumption.
  - intros [Hh Hq]. apply validate_complete. unfold lzp_data_raw, lzp_from in Hq.
    destruct (_ <=? lenN body) eqn:E in Hq; [lia|]. congruence.
Qed.

(* the call as a whole, EVERY body: Eof, UnexpectedEof, or a record whose five raw accessors are
   all defined *)
Theorem read_record_view_total : forall body,
  read_record_view body = RREof \/ read_record_view body = RRErr UnexpectedEof \/
  exists n c s q d, read_record_view body = RRRec (Some n) (Some c) (Some s) (Some q) (Some d).
Proof.
  intros body. unfold read_record_view. destruct (lenN body =? 0); [left; reflexivity|right].
  destruct (validate_only_eof body) as [Hv|Hv]; rewrite Hv; [right|left; reflexivity].
  destruct (validate_accessors_in_bounds body Hv) as (_ & H2 & _ & H4 & H5 & H6 & H7).
  destruct (lzp_name body) as [n|]; [|congruence]. destruct (lzp_cigar_buf body) as [c|]; [|congruence].
  destruct (lzp_seq body) as [s|]; [|congruence]. destruct (lzp_qual body) as [q|]; [|congruence].
  destruct (lzp_data_raw body) as [d|]; [|congruence]. eauto 6.
Qed.

(* the seeded change is refuted inside Coq: the weakened check accepts a body on which
   quality_scores() and data() slice out of range, and the real check rejects it *)
Theorem validate_weak_witness :
  validate_weak weak_witness = Ok tt /\ lzp_qual weak_witness = None /\ lzp_data_raw weak_witness = None /\
  lzp_seq weak_witness <> None /\ validate weak_witness = Err UnexpectedEof.
Proof. vm_compute. repeat split; discriminate. Qed.
