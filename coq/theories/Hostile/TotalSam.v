(* C15 totality, text side (1): the lazy SAM record (NV.Sam.Lazy, model owned by C06 and tied to
   sam::io::Reader::read_record + every accessor of sam::Record by C06's correspondence check).

   For EVERY byte string: read_record either reports end of input / InvalidData or produces a
   buffer and eleven bounds that are nondecreasing and within the buffer, so that no accessor of
   the record can reach a slice-index panic ([lazy_view] is never [LPanic]).  This is the property
   of the reader repaired in /repo 3506cd5 (CR popped only from the bytes the same call read).
   Proofs only; no new model function. *)
From Coq Require Import List NArith ZArith Bool Lia.
From Coq Require Import ZifyBool ZifyNat ZifyN.
From NV Require Import Base.Decimal Sam.Fields Sam.Record Sam.Lazy.
Import ListNotations.
Open Scope N_scope.

(* lo <= e0 <= e1 <= ... <= hi *)
Fixpoint chainN (lo : N) (l : list N) (hi : N) : Prop :=
  match l with
  | [] => lo <= hi
  | e :: t => lo <= e /\ chainN e t hi
  end.

Lemma chainN_weaken : forall l lo hi hi', chainN lo l hi -> hi <= hi' -> chainN lo l hi'.
Proof.
  induction l as [|e t IH]; intros lo hi hi' H Hh; cbn [chainN] in *; [lia|].
  destruct H as [H1 H2]. split; [exact H1|]. eapply IH; eauto.
Qed.

Lemma chainN_snoc : forall l lo hi x, chainN lo l hi -> hi <= x -> chainN lo (l ++ [x]) x.
Proof.
  induction l as [|e t IH]; intros lo hi x H Hx; cbn [chainN app] in *.
  - split; lia.
  - destruct H as [H1 H2]. split; [exact H1|]. eapply IH; eauto.
Qed.

Lemma len_app : forall a b : bytes, len (a ++ b) = len a + len b.
Proof. intros a b. unfold len. rewrite app_length. lia. Qed.

(* read_field only appends *)
Lemma read_field_grows : forall s buf b eol r,
  read_field s buf = (b, eol, r) -> len buf <= len b.
Proof.
  intros s buf b eol r H. unfold read_field in H.
  destruct (scan s) as [[f m] r0]. injection H as Hb _ _. subst b. rewrite len_app. lia.
Qed.

Lemma read_required_inv : forall n s buf ends s' buf' ends',
  chainN 0 ends (len buf) ->
  read_required n s buf ends = Some (s', buf', ends') ->
  chainN 0 ends' (len buf') /\ length ends' = (length ends + n)%nat.
Proof.
  induction n as [|n IH]; intros s buf ends s' buf' ends' Hc H; cbn [read_required] in H.
  - injection H as _ Hb He. subst buf' ends'. split; [exact Hc | lia].
  - destruct (read_field s buf) as [[b eol] r] eqn:E. destruct eol; [discriminate|].
    apply read_field_grows in E.
    apply IH in H.
    + destruct H as [H1 H2]. split; [exact H1|]. rewrite H2, app_length. cbn [length]. lia.
    + eapply chainN_snoc; eauto.
Qed.

Lemma lazy_read_inv : forall text buf ends,
  lazy_read text = LRec buf ends -> chainN 0 ends (len buf) /\ length ends = 11%nat.
Proof.
  intros text buf ends H. unfold lazy_read in H. destruct text as [|c t]; [discriminate|].
  destruct (read_required 10 (c :: t) [] []) as [[[s b0] e0]|] eqn:R; [|discriminate].
  apply read_required_inv in R; [|cbn; unfold len; cbn; lia]. destruct R as [Rc Rl].
  destruct (read_field s b0) as [[b eol] r] eqn:E. pose proof (read_field_grows _ _ _ _ _ E) as G.
  assert (Hc : chainN 0 (e0 ++ [len b]) (len b)) by (eapply chainN_snoc; eauto).
  assert (Hl : length (e0 ++ [len b]) = 11%nat) by (rewrite app_length, Rl; reflexivity).
  destruct eol.
  - injection H as Hb He. subst buf ends. split; assumption.
  - destruct r as [|x r'].
    + injection H as Hb He. subst buf ends. split; assumption.
    + destruct (take_line (x :: r')) as [l lf]. injection H as Hb He. subst buf ends.
      split; [|exact Hl]. eapply chainN_weaken; [exact Hc|]. rewrite len_app. lia.
Qed.

(* ---- accessors ---- *)
Definition anp {A} (x : acc A) : Prop := x <> APanic.
Definition lnp (x : lres) : Prop := forall c, x <> LPanic c.

Lemma anp_of_opt : forall A (o : option A), anp (of_opt o).
Proof. intros A [a|]; cbn; discriminate. Qed.

Lemma anp_abind : forall A B (x : acc A) (f : A -> acc B),
  anp x -> (forall a, anp (f a)) -> anp (abind x f).
Proof. intros A B [a| |] f Hx Hf; cbn [abind]; [apply Hf | discriminate | contradiction]. Qed.

Lemma lnp_step : forall A c (x : acc A) (k : A -> lres),
  anp x -> (forall a, lnp (k a)) -> lnp (step c x k).
Proof.
  intros A c [a| |] k Hx Hk; cbn [step]; [apply Hk | intros c'; discriminate | contradiction].
Qed.

Lemma slice_ok : forall buf a b, a <= b -> b <= len buf -> anp (slice buf a b).
Proof.
  intros buf a b H1 H2. unfold slice.
  assert (E : (a <=? b) && (b <=? len buf) = true) by lia. rewrite E. discriminate.
Qed.

Lemma slice_from_ok : forall buf a, a <= len buf -> anp (slice_from buf a).
Proof.
  intros buf a H. unfold slice_from. assert (E : (a <=? len buf) = true) by lia. rewrite E. discriminate.
Qed.

(* with nondecreasing in-range bounds no accessor panics *)
Theorem lazy_cols_no_panic : forall refs buf ends,
  chainN 0 ends (len buf) -> length ends = 11%nat -> lnp (lazy_cols refs buf ends).
Proof.
  intros refs buf ends Hc Hl.
  destruct ends as [|e0 [|e1 [|e2 [|e3 [|e4 [|e5 [|e6 [|e7 [|e8 [|e9 [|e10 [|x t]]]]]]]]]]]];
    cbn [length] in Hl; try discriminate.
  cbn [chainN] in Hc.
  destruct Hc as (H0 & H1 & H2 & H3 & H4 & H5 & H6 & H7 & H8 & H9 & H10 & H11).
  assert (C : forall i, (i <= 10)%nat -> anp (col buf [e0;e1;e2;e3;e4;e5;e6;e7;e8;e9;e10] i)).
  { intros i Hi. unfold col, bound.
    do 11 (destruct i as [|i]; [cbn [nth]; apply slice_ok; lia|]). lia. }
  unfold lazy_cols.
  repeat (apply lnp_step;
          [ first [ apply C; lia
                  | apply anp_abind; [apply C; lia | intros f; try apply anp_of_opt]
                  | apply slice_from_ok; unfold bound; cbn [nth]; lia ]
          | intros ? ]).
  - destruct (is_star f); [discriminate|]. destruct (is_eq f); [|apply anp_of_opt].
    apply anp_abind; [apply C; lia | intros f'; apply anp_of_opt].
  - intros c; discriminate.
Qed.

(* every byte string: the lazy reader + all accessors never panic *)
Theorem sam_lazy_view_total : forall refs text, lnp (lazy_view refs text).
Proof.
  intros refs text. unfold lazy_view. destruct (lazy_read text) as [| |buf ends] eqn:E.
  - intros c; discriminate.
  - intros c; discriminate.
  - apply lazy_read_inv in E. destruct E as [Hc Hl]. apply lazy_cols_no_panic; assumption.
Qed.

(* the bounds handed to the accessors, for every input *)
Theorem sam_lazy_read_bounds : forall text buf ends,
  lazy_read text = LRec buf ends -> chainN 0 ends (len buf) /\ length ends = 11%nat.
Proof. exact lazy_read_inv. Qed.
