(* C15 — totality-oriented models: small pieces of noodles whose only interesting behaviour on
   hostile input is WHERE they panic.  Result type [res]: [Panic site] sits exactly where the Rust
   panics (slice index out of range, assert!, shift >= width / arithmetic overflow in an
   overflow-checked build, BitVec index).

   (1) noodles-bgzf  io/block/data.rs  Data::as_ref  +  io/reader.rs seek / fill_buf / read_exact
   (2) noodles-csi   binning_index/index.rs max_position / resolve_interval,
                     binning_index/index/reference_sequence/bin.rs bin_limit,
                     binning_index/index/reference_sequence.rs query / reg2bins
   (3) noodles-cram  codecs/rans_4x8/decode/order_0.rs read_frequencies /
                     build_cumulative_frequencies (as driven by rans_4x8::decode with an
                     uncompressed size of 0)                                                    *)

From Coq Require Import NArith List Bool.
Import ListNotations.
Open Scope N_scope.

Inductive res (A : Type) : Type :=
| Ok (a : A)
| Err
| Panic (site : N).
Arguments Ok {A} a.
Arguments Err {A}.
Arguments Panic {A} site.

Definition is_panic {A} (r : res A) : bool := match r with Panic _ => true | _ => false end.

(* panic sites *)
Definition S_DATA_SLICE : N := 1.      (* data.rs  &self.buf[self.pos..self.len]            *)
Definition S_ASSERT_MIN_SHIFT : N := 2. (* index.rs assert!(min_shift > 0)                    *)
Definition S_SHL_USIZE : N := 3.       (* index.rs 1 << (min_shift + 3*depth), shift >= 64   *)
Definition S_ASSERT_DEPTH : N := 4.    (* bin.rs   assert!(depth <= 10)                      *)
Definition S_SHL_I32 : N := 5.         (* bin.rs   1 << ((depth+1)*3) on i32, shift >= 32    *)
Definition S_BITVEC_SET : N := 6.      (* reference_sequence.rs bins.set(i, true), i >= nbits*)
Definition S_BITVEC_INDEX : N := 7.    (* reference_sequence.rs region_bins[id], id >= nbits *)
Definition S_SYM_ADD : N := 8.         (* order_0.rs sym += 1 on u8 = 255                    *)
Definition S_CUM_ADD : N := 9.         (* order_0.rs f + g on u16                            *)

(* ------------------------------------------------------------------------------------------ *)
(* (1) BGZF block data cursor                                                                  *)

(* impl AsRef<[u8]> for Data: &self.buf[self.pos..self.len]; len <= 65280 = buf.len() always *)
Definition data_as_ref (len pos : N) : res N :=
  if pos <=? len then Ok (len - pos) else Panic S_DATA_SLICE.

(* the current block's (pos, len) *)
Definition cur := (N * N)%type.

(* Reader::read_nonempty_block_with over the data lengths of the frames that follow: every frame
   parsed re-initialises the block (pos 0, len = ISIZE); stops after the first non-empty one; with
   no frame left the block is left untouched. *)
Fixpoint read_block (frames : list N) (c : cur) : cur * list N :=
  match frames with
  | [] => (c, [])
  | l :: r => if 0 <? l then ((0, l), r) else read_block r (0, 0)
  end.

(* Data::set_position (after the repair of finding F12, commit "BGZF reader panicked after a seek
   with an in-block offset beyond the block's data"): the cursor is clamped to the data length.
   [set_position_unclamped] is the code before the repair. *)
Definition set_position (c : cur) (p : N) : cur := (N.min p (snd c), snd c).
Definition set_position_unclamped (c : cur) (p : N) : cur := (p, snd c).

(* Reader::seek on a fresh reader positioned at a frame boundary: read_block; when it found no
   data the block is reset to an empty one; then set_position(upos) with the 16-bit in-block
   offset of the virtual position *)
Definition seek_with (setp : cur -> N -> cur) (frames : list N) (upos : N) : cur * list N :=
  let '(c, rest) := read_block frames (0, 0) in
  let c' := if snd c =? 0 then (0, 0) else c in
  (setp c' upos, rest).

Definition seek := seek_with set_position.

(* BufRead::fill_buf, returning the length of the slice *)
Definition fill_buf (c : cur) (rest : list N) : res N :=
  let '(pos, len) := c in
  if pos <? len then data_as_ref len pos
  else let '((pos', len'), _) := read_block rest c in data_as_ref len' pos'.

(* Read::read_exact of one byte: looks at as_ref() first; falls back to default_read_exact ->
   read -> fill_buf; UnexpectedEof when nothing is left *)
Definition read_exact1 (c : cur) (rest : list N) : res N :=
  let '(pos, len) := c in
  match data_as_ref len pos with
  | Panic s => Panic s
  | Err => Err
  | Ok n =>
      if 1 <=? n then Ok 1
      else match fill_buf c rest with
           | Ok 0 => Err
           | Ok _ => Ok 1
           | Err => Err
           | Panic s => Panic s
           end
  end.

(* how = 0: fill_buf; otherwise read_exact of one byte; after seeking to frame k, offset upos *)
Definition seek_then_with (setp : cur -> N -> cur) (frames : list N) (k : nat) (upos : N) (how : N) : res N :=
  let '(c, rest) := seek_with setp (skipn k frames) upos in
  if how =? 0 then fill_buf c rest else read_exact1 c rest.

Definition seek_then := seek_then_with set_position.
(* the reader before the repair *)
Definition seek_then_unclamped := seek_then_with set_position_unclamped.

(* length of the block that seek leaves loaded *)
Definition loaded_len (frames : list N) : N := snd (fst (read_block frames (0, 0))).

(* ------------------------------------------------------------------------------------------ *)
(* (2) CSI geometry and binning query on an arbitrary (min_shift, depth, bin id)               *)

(* The code AFTER the repairs "CSI index readers and queries panicked on an invalid min shift or
   depth" and "CSI reference sequence query panicked on a bin ID outside of the binning scheme".
   The code before them is kept below as [*_v0].

   const MAX_DEPTH: u8 = 10;
   const fn bin_limit(depth: u8) -> i32 { assert!(depth <= MAX_DEPTH); ((1i64 << ((depth+1)*3)) / 7) as i32 } *)
Definition bin_limit (depth : N) : res N :=
  if 10 <? depth then Panic S_ASSERT_DEPTH else Ok (2 ^ ((depth + 1) * 3) / 7).

(* fn max_position(min_shift, depth): Err when min_shift == 0, depth > MAX_DEPTH, or
   1usize.checked_shl(min_shift + 3*depth) is None *)
Definition max_position (ms depth : N) : res N :=
  if ms =? 0 then Err
  else if 10 <? depth then Err
  else let sh := ms + 3 * depth in
       if 64 <=? sh then Err else Ok (2 ^ sh - 1).

(* resolve_interval with both bounds given (1-based, start <= end not required by the code) *)
Definition resolve_interval_with (maxpos : N -> N -> res N) (ms depth s e : N) : res (N * N) :=
  match maxpos ms depth with
  | Panic x => Panic x
  | Err => Err
  | Ok maxp => if maxp <? s then Err else if maxp <? e then Err else Ok (s, e)
  end.
Definition resolve_interval := resolve_interval_with max_position.

(* reg2bins: levels l = 0..depth; at each level the ids t + (beg >> s) ..= t + (end >> s) are set
   in a BitVec of [nbits] bits; [sel] records whether [id] was set.  [n] = levels left. *)
Fixpoint reg2bins (n : nat) (l t s beg en nbits id : N) (sel : bool) : res bool :=
  let b := t + N.shiftr beg s in
  let e := t + N.shiftr en s in
  if (b <=? e) && (nbits <=? e) then Panic S_BITVEC_SET
  else
    let sel' := sel || ((b <=? id) && (id <=? e)) in
    match n with
    | O => Ok sel'
    | S n' => reg2bins n' (l + 1) (t + 2 ^ (l * 3)) (s - 3) beg en nbits id sel'
    end.

(* ReferenceSequence::query on a reference sequence holding the single bin [id]:
   Ok true = the bin is returned, Ok false = it is not.
   filter: region_bins.get(id).unwrap_or(false) *)
Definition query (ms depth id s e : N) : res bool :=
  match resolve_interval ms depth s e with
  | Panic x => Panic x
  | Err => Err
  | Ok (s, e) =>
      match bin_limit depth with
      | Panic x => Panic x
      | Err => Err
      | Ok nbits =>
          match reg2bins (N.to_nat depth) 0 0 (ms + depth * 3) (s - 1) (e - 1) nbits id false with
          | Panic x => Panic x
          | Err => Err
          | Ok sel => Ok (sel && (id <? nbits))
          end
      end
  end.

(* ---- the code before the repairs (recorded, fixed findings) ---- *)

(* const fn bin_limit(depth: u8) -> i32 { assert!(depth <= 10); (1 << ((depth + 1) * 3)) / 7 } *)
Definition bin_limit_v0 (depth : N) : res N :=
  if 10 <? depth then Panic S_ASSERT_DEPTH
  else let sh := (depth + 1) * 3 in
       if 32 <=? sh then Panic S_SHL_I32 else Ok (2 ^ sh / 7).

(* assert!(min_shift > 0); (1 << (usize::from(min_shift) + 3 * usize::from(depth))) - 1 *)
Definition max_position_v0 (ms depth : N) : res N :=
  if ms =? 0 then Panic S_ASSERT_MIN_SHIFT
  else let sh := ms + 3 * depth in
       if 64 <=? sh then Panic S_SHL_USIZE else Ok (2 ^ sh - 1).

(* filter: region_bins[id] *)
Definition query_v0 (ms depth id s e : N) : res bool :=
  match resolve_interval_with max_position_v0 ms depth s e with
  | Panic x => Panic x
  | Err => Err
  | Ok (s, e) =>
      match bin_limit_v0 depth with
      | Panic x => Panic x
      | Err => Err
      | Ok nbits =>
          match reg2bins (N.to_nat depth) 0 0 (ms + depth * 3) (s - 1) (e - 1) nbits id false with
          | Panic x => Panic x
          | Err => Err
          | Ok sel => if id <? nbits then Ok sel else Panic S_BITVEC_INDEX
          end
      end
  end.

(* ------------------------------------------------------------------------------------------ *)
(* (3) rANS 4x8 order-0 frequency table                                                        *)

(* read_itf8 followed by u16::try_from *)
Definition read_itf8_u16 (bs : list N) : res (N * list N) :=
  match bs with
  | [] => Err
  | b0 :: r =>
      let fit v rest := if v <=? 65535 then Ok (v, rest) else Err in
      if b0 <? 128 then fit b0 r
      else if b0 <? 192 then
        match r with b1 :: r1 => fit ((b0 mod 128) * 256 + b1) r1 | _ => Err end
      else if b0 <? 224 then
        match r with b1 :: b2 :: r2 => fit ((b0 mod 64) * 65536 + b1 * 256 + b2) r2 | _ => Err end
      else if b0 <? 240 then
        match r with
        | b1 :: b2 :: b3 :: r3 => fit ((b0 mod 32) * 16777216 + b1 * 65536 + b2 * 256 + b3) r3
        | _ => Err
        end
      else
        match r with
        | b1 :: b2 :: b3 :: b4 :: r4 =>
            fit ((b0 mod 16) * 268435456 + b1 * 1048576 + b2 * 4096 + b3 * 16 + b4 mod 16) r4
        | _ => Err
        end
  end.

Fixpoint upd (l : list N) (i : nat) (v : N) : list N :=
  match l, i with
  | [], _ => []
  | _ :: r, O => v :: r
  | x :: r, S i' => x :: upd r i' v
  end.

(* the inner run: for _ in 0..len { f = read; F[sym] = f; sym += 1 } *)
Fixpoint read_run (checked : bool) (n : nat) (bs : list N) (sym : N) (F : list N) : res (N * list N * list N) :=
  match n with
  | O => Ok (sym, F, bs)
  | S n' =>
      match read_itf8_u16 bs with
      | Panic x => Panic x
      | Err => Err
      | Ok (f, bs1) =>
          (* after the repair: sym = sym.checked_add(1).ok_or(InvalidData)?  (before: sym += 1) *)
          if sym =? 255 then (if checked then Err else Panic S_SYM_ADD)
          else read_run checked n' bs1 (sym + 1) (upd F (N.to_nat sym) f)
      end
  end.

(* the outer loop; fuel = number of input bytes (each turn consumes at least two) *)
Fixpoint read_freqs (checked : bool) (fuel : nat) (bs : list N) (sym prev : N) (F : list N) : res (list N * list N) :=
  match fuel with
  | O => Err
  | S fu =>
      match read_itf8_u16 bs with
      | Panic x => Panic x
      | Err => Err
      | Ok (f, bs1) =>
          let F1 := upd F (N.to_nat sym) f in
          match bs1 with
          | [] => Err
          | sym' :: bs2 =>
              if sym' =? 0 then Ok (F1, bs2)
              else if sym' - 1 =? prev then
                match bs2 with
                | [] => Err
                | len :: bs3 =>
                    match read_run checked (N.to_nat len) bs3 sym' F1 with
                    | Panic x => Panic x
                    | Err => Err
                    | Ok (sym'', F2, bs4) => read_freqs checked fu bs4 sym'' sym'' F2
                    end
                end
              else read_freqs checked fu bs2 sym' sym' F1
          end
      end
  end.

Fixpoint sumN (l : list N) : N := match l with [] => 0 | x :: r => x + sumN r end.

(* [checked = true]: the code after the repairs (checked symbol increment, validate_frequencies:
   the table must add up to at most 4096); [checked = false]: the code before them *)
Definition read_frequencies_with (checked : bool) (bs : list N) : res (list N * list N) :=
  match bs with
  | [] => Err
  | sym :: r =>
      match read_freqs checked (S (length bs)) r sym sym (repeat 0 256) with
      | Ok (F, rest) => if checked && (4096 <? sumN F) then Err else Ok (F, rest)
      | other => other
      end
  end.
Definition read_frequencies := read_frequencies_with true.

(* build_cumulative_frequencies: C[i+1] = C[i] + F[i] for i = 0..254, on u16 *)
Fixpoint cumulative_ok (n : nat) (F : list N) (acc : N) : bool :=
  match n, F with
  | O, _ => true
  | S n', g :: r => if acc + g <=? 65535 then cumulative_ok n' r (acc + g) else false
  | S _, [] => true
  end.

Definition S_STATE_STEP : N := 10.     (* rans_4x8/decode.rs state_step: u32 mul / add / sub *)

(* build_cumulative_frequencies as a function: C[sym] = F[0] + ... + F[sym-1] *)
Fixpoint cum_at (F : list N) (sym : nat) : N :=
  match sym, F with
  | O, _ => 0
  | S k, g :: r => g + cum_at r k
  | S _, [] => 0
  end.

(* build_cumulative_frequencies_symbols_table[f]: advance sym while sym < 255 && f >= C[sym+1] *)
Fixpoint table_sym (fuel : nat) (F : list N) (f : N) (sym : nat) : nat :=
  match fuel with
  | O => sym
  | S fu => if (Nat.ltb sym 255) && (cum_at F (S sym) <=? f) then table_sym fu F f (S sym) else sym
  end.

(* bytes are bytes: taken mod 256 *)
Definition le32 (b0 b1 b2 b3 : N) : N :=
  b0 mod 256 + 256 * (b1 mod 256) + 65536 * (b2 mod 256) + 16777216 * (b3 mod 256).

(* state_renormalize: while s < 2^23 { s = (s << 8) | next byte } *)
Fixpoint renorm (fuel : nat) (s : N) (bs : list N) : res N :=
  match fuel with
  | O => Err
  | S fu =>
      if s <? 8388608 then
        match bs with
        | [] => Err
        | b :: r => renorm fu (s * 256 + b) r
        end
      else Ok s
  end.

(* rans_4x8::decode on  [0; csize; 1u32] ++ bs : order 0, uncompressed size 1 — the table is read,
   the cumulative and lookup tables built, four u32 states read, ONE symbol decoded with state 0 *)
Definition rfreq_with (checked : bool) (bs : list N) : res unit :=
  match read_frequencies_with checked bs with
  | Panic x => Panic x
  | Err => Err
  | Ok (F, rest) =>
      if cumulative_ok 255 F 0 then
        match rest with
        | b0 :: b1 :: b2 :: b3 :: _ :: _ :: _ :: _ :: _ :: _ :: _ :: _ :: _ :: _ :: _ :: _ :: tail =>
            let s := le32 b0 b1 b2 b3 in
            let f := s mod 4096 in
            let sym := table_sym 255 F f 0 in
            let fr := nth sym F 0 in
            let g := cum_at F sym in
            let a := fr * (s / 4096) in
            if 4294967295 <? a then Panic S_STATE_STEP
            else if 4294967295 <? a + f then Panic S_STATE_STEP
            else if a + f <? g then Panic S_STATE_STEP
            else match renorm (S (length tail)) (a + f - g) tail with
                 | Ok _ => Ok tt
                 | Err => Err
                 | Panic x => Panic x
                 end
        | _ => Err
        end
      else Panic S_CUM_ADD
  end.

Definition rfreq := rfreq_with true.
(* the decoder before the repairs *)
Definition rfreq_v0 := rfreq_with false.
