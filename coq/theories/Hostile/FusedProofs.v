(* The fused iterators yield at most one error, it is the last item, and they end: for EVERY
   source and EVERY item parser that consumes at least one byte when it succeeds. *)
From Coq Require Import List NArith Bool Lia.
From Coq Require Import ZifyBool ZifyNat ZifyN.
From NV Require Import Base.Percent Text.TextBase Text.Gff Hostile.Fused Hostile.TotalText.
Import ListNotations.
Open Scope N_scope.

Definition is_ok {A} (x : item A) : bool := match x with IOk _ => true | IErr => false end.

(* all items Ok, then nothing or exactly one error *)
Inductive fused_shape {A} : list (item A) -> Prop :=
| FS_end : fused_shape []
| FS_err : fused_shape [IErr]
| FS_ok : forall a l, fused_shape l -> fused_shape (IOk a :: l).

Section Fused.
  Variable A : Type.
  Variable parse : list N -> option (A * list N).

  Lemma fused_run_nil : forall fuel, fused_run parse fuel [] = [].
  Proof. intros [|f]; reflexivity. Qed.

  (* at most one error and it is the last item: no hypothesis on the parser at all *)
  Theorem fused_run_shape : forall fuel src, fused_shape (fused_run parse fuel src).
  Proof.
    induction fuel as [|f IH]; intro src; cbn [fused_run]; [constructor|].
    unfold fused_next. destruct src as [|b t]; [constructor|].
    destruct (parse (b :: t)) as [[a rest]|].
    - constructor. apply IH.
    - rewrite fused_run_nil. constructor.
  Qed.

  Hypothesis progress : forall src a rest, parse src = Some (a, rest) -> (length rest < length src)%nat.

  (* it ends: the consumer sees at most |src| items, and any fuel above |src| gives the same run
     (so S (length src) calls of next reach the None) *)
  Theorem fused_run_ends : forall f1 f2 src, (length src < f1)%nat -> (length src < f2)%nat ->
    fused_run parse f1 src = fused_run parse f2 src.
  Proof.
    induction f1 as [|f1 IH]; intros f2 src H1 H2; [lia|]. destruct f2 as [|f2]; [lia|].
    cbn [fused_run]. unfold fused_next. destruct src as [|b t]; [reflexivity|].
    destruct (parse (b :: t)) as [[a rest]|] eqn:E.
    - apply progress in E. f_equal. apply IH; lia.
    - rewrite !fused_run_nil. reflexivity.
  Qed.

  Theorem fused_run_length : forall fuel src, (length (fused_run parse fuel src) <= length src)%nat.
  Proof.
    induction fuel as [|f IH]; intro src; cbn [fused_run]; [cbn; lia|].
    unfold fused_next. destruct src as [|b t]; [cbn; lia|].
    destruct (parse (b :: t)) as [[a rest]|] eqn:E.
    - apply progress in E. specialize (IH rest). cbn [length] in *. lia.
    - rewrite fused_run_nil. cbn [length]. lia.
  Qed.
End Fused.

(* ---- GFF3 attributes ---- *)
Lemma gff_field_parse_progress : forall src a rest,
  gff_field_parse src = Some (a, rest) -> (length rest < length src)%nat.
Proof.
  intros src a rest H. unfold gff_field_parse in H.
  destruct (split_once 61 src) as [[t r0]|] eqn:E; [|discriminate]. apply split_once_shorter in E.
  destruct (split_once 59 r0) as [[v r]|] eqn:E2; cbn [fst snd] in H; injection H as _ Hr; subst rest.
  - apply split_once_shorter in E2. lia.
  - cbn [length]. lia.
Qed.

(* the run is C18's collected view: its items, then one error iff that view ended abnormally *)
Lemma gff_run_is_attrs_iter : forall fuel src,
  fused_run gff_field_parse fuel src =
  map IOk (fst (gff_attrs_iter fuel src)) ++
  match snd (gff_attrs_iter fuel src) with
  | Some (Err InvalidData) => [IErr]
  | _ => []
  end.
Proof.
  induction fuel as [|f IH]; intro src; [reflexivity|].
  cbn [fused_run gff_attrs_iter]. unfold fused_next, gff_field_parse.
  destruct src as [|b t]; [reflexivity|].
  destruct (split_once 61 (b :: t)) as [[tg rest]|]; [|rewrite fused_run_nil; reflexivity].
  cbn [fst snd map app]. rewrite IH. reflexivity.
Qed.

Theorem gff_attr_run_spec : forall col,
  gff_attr_run col =
  map IOk (fst (gff_attrs_parse col)) ++
  match snd (gff_attrs_parse col) with Some _ => [IErr] | None => [] end.
Proof.
  intro col. unfold gff_attr_run, gff_attrs_parse. destruct (bytes_eqb col [46]); [reflexivity|].
  rewrite gff_run_is_attrs_iter.
  destruct (gff_attrs_iter_end (S (length col)) col ltac:(lia)) as [E|E]; rewrite E; reflexivity.
Qed.

Theorem gff_attr_run_fused : forall col,
  fused_shape (gff_attr_run col) /\ (length (gff_attr_run col) <= length col)%nat.
Proof.
  intro col. unfold gff_attr_run. destruct (bytes_eqb col [46]); [split; [constructor | cbn; lia]|].
  split; [apply fused_run_shape | apply fused_run_length; exact gff_field_parse_progress].
Qed.
