(* C15 totality, VCF lazy record: vcf::io::reader::record::read_record fills one String with the
   eight fixed columns (delimiters dropped) + the rest of the line and records eight `*_end`
   bounds; every accessor of the lazy vcf::Record (record/fields.rs) is `&self.buf[a..b]` with a, b
   two consecutive bounds (samples: the last bound .. the end of the buffer) -- a slice expression
   that panics when a > b or b > buf.len().

   The reader is modelled by C12 (NV.Io.TabRead.wx_vcf_read_record: whole-buffer closed form with
   the per-field UTF-8 validation of the repaired reader, proved equal to the fill_buf-driven reader
   for every BufReader capacity and delivery script, and compared with the crate by C12's kinds,
   including the six accessor slices [NV.Io.Run.vcf_view]).  For EVERY byte string this file proves:
   when read_record answers Ok there are exactly eight bounds, they are nondecreasing and the last
   one is inside the buffer; hence every range an accessor builds is a valid range of the buffer and
   the slices of [vcf_view] are exactly the bytes between the bounds (no clamping by firstn/skipn).
   Proofs only; no new model function.  (Not proved: that the bounds are UTF-8 character boundaries
   -- each field is validated on its own before it is appended, which the model expresses by
   [field_valid], but the String-slicing rule itself is not modelled.) *)
From Coq Require Import List Arith NArith Bool Lia.
From Coq Require Import ZifyBool ZifyNat ZifyN.
From NV Require Import Io.Source Io.BufReader Io.FastaScan Io.BedRead Io.TabRead.
From NV Require Text.TextBase Text.BedRec Fasta.Fastq Io.Run.
Import ListNotations.

(* lo <= e0 <= e1 <= ... <= hi *)
Fixpoint chain (lo : nat) (ends : list nat) (hi : nat) : Prop :=
  match ends with
  | [] => lo <= hi
  | e :: t => lo <= e /\ chain e t hi
  end.

Lemma chain_snoc : forall ends lo hi hi', chain lo ends hi -> hi <= hi' -> chain lo (ends ++ [hi']) hi'.
Proof.
  induction ends as [|e t IH]; intros lo hi hi' H Hh; cbn [chain app] in *.
  - split; lia.
  - destruct H as [H1 H2]. split; [exact H1|]. exact (IH e hi hi' H2 Hh).
Qed.

Lemma chain_widen : forall ends lo hi hi', chain lo ends hi -> hi <= hi' -> chain lo ends hi'.
Proof.
  induction ends as [|e t IH]; intros lo hi hi' H Hh; cbn [chain] in *; [lia|].
  destruct H as [H1 H2]. split; [exact H1|]. exact (IH e hi hi' H2 Hh).
Qed.

Lemma chain_nth : forall ends lo hi i j, chain lo ends hi -> i <= j -> j < length ends ->
  lo <= nth i ends 0 /\ nth i ends 0 <= nth j ends 0 /\ nth j ends 0 <= hi.
Proof.
  induction ends as [|e t IH]; intros lo hi i j H Hij Hj; cbn [length] in Hj; [lia|].
  cbn [chain] in H. destruct H as [H1 H2].
  assert (Hhi : forall k, k < length t -> e <= nth k t 0 /\ nth k t 0 <= hi).
  { intros k Hk. destruct (IH e hi k k H2 (le_n k) Hk) as (A & _ & B). split; assumption. }
  assert (He : e <= hi).
  { clear - H2. revert e H2. induction t as [|x t IHt]; intros e H2; cbn [chain] in H2; [exact H2|].
    destruct H2 as [A B]. specialize (IHt x B). lia. }
  destruct i as [|i]; destruct j as [|j]; cbn [nth].
  - lia.
  - destruct (Hhi j ltac:(lia)) as [A B]. lia.
  - lia.
  - destruct (IH e hi i j H2 ltac:(lia) ltac:(lia)) as (A & B & C). lia.
Qed.

Lemma strip_cr_length : forall s, length s <= S (length (NV.Text.TextBase.strip_cr s)) /\
  length (NV.Text.TextBase.strip_cr s) <= length s.
Proof.
  induction s as [|b t IH]; [cbn; lia|]. cbn [NV.Text.TextBase.strip_cr].
  destruct t as [|c t']; [destruct (N.eqb b 13); cbn; lia|].
  cbn [length] in *. lia.
Qed.

(* read_field never shortens what the previous fields left in the buffer *)
Lemma vcf_read_field_grows : forall src dst dst1 n1 eol src1,
  w_vcf_read_field src dst = (dst1, n1, eol, src1) -> length dst <= length dst1.
Proof.
  intros src dst dst1 n1 eol src1 E. unfold w_vcf_read_field in E.
  destruct (NV.Text.BedRec.scan_field src) as [[f d] r].
  destruct d as [c|].
  - injection E as H1 _ _ _. subst dst1.
    destruct (N.eqb c 10 && (length dst <? length (dst ++ f))) eqn:Ec.
    + pose proof (strip_cr_length (dst ++ f)) as [A B]. lia.
    + rewrite app_length. lia.
  - injection E as H1 _ _ _. subst dst1. rewrite app_length. lia.
Qed.

Lemma vcf_read_required_bounds : forall k src dst ends len src1 dst1 ends1 len1,
  wx_vcf_read_required k src dst ends len = (true, true, src1, dst1, ends1, len1) ->
  chain 0 ends (length dst) ->
  chain 0 ends1 (length dst1) /\ length ends1 = length ends + k.
Proof.
  induction k as [|k IH]; intros src dst ends len src1 dst1 ends1 len1 E H.
  - cbn [wx_vcf_read_required] in E. injection E as _ H2 H3 _. subst dst1 ends1. split; [exact H|lia].
  - cbn [wx_vcf_read_required] in E.
    destruct (w_vcf_read_field src dst) as [[[d1 n1] eol] s1] eqn:Ef.
    destruct (negb (field_valid src)); [discriminate E|].
    destruct eol; [discriminate E|].
    pose proof (vcf_read_field_grows _ _ _ _ _ _ Ef) as Hg.
    destruct (IH _ _ _ _ _ _ _ _ E (chain_snoc _ _ _ _ H Hg)) as [A B].
    split; [exact A|]. rewrite B, app_length. cbn [length]. lia.
Qed.

(* read_record Ok: eight bounds, nondecreasing, inside the buffer *)
Theorem vcf_read_record_bounds : forall d n buf ends rest,
  wx_vcf_read_record d = (NV.Text.TextBase.Ok n, buf, ends, rest) ->
  length ends = 8 /\ chain 0 ends (length buf).
Proof.
  intros d n buf ends rest E. unfold wx_vcf_read_record in E.
  destruct (wx_vcf_read_required 7 d [] [] 0) as [[[[[valid ok] src1] dst1] ends1] len1] eqn:Er.
  destruct valid; cbn [negb] in E; [|discriminate E].
  destruct ok; cbn [negb] in E; [|discriminate E].
  destruct (vcf_read_required_bounds _ _ _ _ _ _ _ _ _ Er ltac:(cbn; lia)) as [A B].
  destruct (w_vcf_read_field src1 dst1) as [[[dst2 n2] eol] src2] eqn:Ef.
  destruct (negb (field_valid src1)); [discriminate E|].
  pose proof (vcf_read_field_grows _ _ _ _ _ _ Ef) as Hg.
  destruct eol.
  - injection E as _ H2 H3 _. subst buf ends. split; [rewrite app_length, B; reflexivity|].
    exact (chain_snoc _ _ _ _ A Hg).
  - destruct (NV.Fasta.Fastq.utf8_valid (take_line LF src2)); [|discriminate E].
    injection E as _ H2 H3 _. subst buf ends. split; [rewrite app_length, B; reflexivity|].
    apply (chain_widen _ _ (length dst2)); [exact (chain_snoc _ _ _ _ A Hg)|].
    unfold w_tab_tail. rewrite app_length. lia.
Qed.

(* hence every accessor range [bound i .. bound j) (i <= j) is a valid range of the buffer, and the
   slice the model takes is exactly that long: `&buf[a..b]` does not panic *)
Theorem vcf_accessor_ranges_valid : forall d n buf ends rest i j,
  wx_vcf_read_record d = (NV.Text.TextBase.Ok n, buf, ends, rest) -> i <= j -> j < 8 ->
  nth i ends 0 <= nth j ends 0 /\ nth j ends 0 <= length buf /\
  length (NV.Io.Run.vslice buf (nth i ends 0) (nth j ends 0)) = nth j ends 0 - nth i ends 0.
Proof.
  intros d n buf ends rest i j E Hij Hj.
  destruct (vcf_read_record_bounds _ _ _ _ _ E) as [A B].
  destruct (chain_nth _ _ _ i j B Hij ltac:(lia)) as (H1 & H2 & H3).
  split; [exact H2|]. split; [exact H3|].
  unfold NV.Io.Run.vslice. rewrite firstn_length, skipn_length. lia.
Qed.

(* an error result hands no record to the caller; the reader never reports the model's fuel *)
Theorem vcf_read_record_three_way : forall d,
  (exists n, fst (fst (fst (wx_vcf_read_record d))) = NV.Text.TextBase.Ok n) \/
  fst (fst (fst (wx_vcf_read_record d))) = NV.Text.TextBase.Err NV.Text.TextBase.InvalidData.
Proof.
  intro d. unfold wx_vcf_read_record.
  destruct (wx_vcf_read_required 7 d [] [] 0) as [[[[[valid ok] src1] dst1] ends1] len1].
  destruct valid; cbn [negb]; [|right; reflexivity].
  destruct ok; cbn [negb]; [|right; reflexivity].
  destruct (w_vcf_read_field src1 dst1) as [[[dst2 n2] eol] src2].
  destruct (negb (field_valid src1)); [right; reflexivity|].
  destruct eol; [left; eexists; reflexivity|].
  destruct (NV.Fasta.Fastq.utf8_valid (take_line LF src2)); [left; eexists; reflexivity | right; reflexivity].
Qed.
