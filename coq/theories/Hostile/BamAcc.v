(* C15 model (tenth wave) of ONE call of bam::io::Reader::read_record on a stream that holds
   block_size = |body| followed by [body], and then of the raw lazy accessors of the bam::Record it
   filled (io/reader/record.rs::read_record + validate, record.rs -> record_ref.rs): name(),
   cigar().as_bytes(), sequence().iter(), quality_scores().as_bytes(), data().as_bytes().
   The pieces are C05's (NV.Bam.Decode.validate, NV.Bam.Lazy.lzp_*: None = the Rust slice panic);
   the composition "validate first, accessors after" and the weakened validate are C15's.
   Definitions only. *)
From Coq Require Import List NArith Bool.
From NV Require Import Bam.Record Bam.Decode Bam.Lazy.
Import ListNotations.
Open Scope N_scope.

Inductive rr_view :=
| RREof                       (* block_size = 0: Ok(0), the record is not touched *)
| RRErr (e : err)             (* validate's error *)
| RRRec (name : option (option bytes)) (cigar seq qual data : option bytes).

Definition read_record_view (body : bytes) : rr_view :=
  if lenN body =? 0 then RREof else
  match validate body with
  | Err e => RRErr e
  | Ok _ => RRRec (lzp_name body) (lzp_cigar_buf body) (lzp_seq body) (lzp_qual body) (lzp_data_raw body)
  end.

(* every raw slice of record_ref.rs is in range *)
Definition accessors_in_bounds (body : bytes) : Prop :=
  has_head body = true /\ lzp_name body <> None /\ lzp_cigar_raw body <> None /\
  lzp_cigar_buf body <> None /\ lzp_seq body <> None /\ lzp_qual body <> None /\ lzp_data_raw body <> None.

(* the seeded change: l_seq / 2 packed bytes instead of div_ceil(2) in validate's bound *)
Definition validate_weak (bs : bytes) : res unit :=
  if lenN bs <? 32 then Err UnexpectedEof else
  if lenN bs <? 32 + lz_lname bs + 4 * lz_nops bs + lz_lseq bs / 2 + lz_lseq bs then Err UnexpectedEof else Ok tt.

(* 32-byte head with l_read_name = 1, n_cigar_op = 0, l_seq = 1, then NUL name and ONE more byte:
   the packed base is there, the quality score is not *)
Definition weak_witness : bytes :=
  [255;255;255;255; 255;255;255;255; 1; 255; 72;18; 0;0; 4;0; 1;0;0;0;
   255;255;255;255; 255;255;255;255; 0;0;0;0; 0; 16].
