(* C15 — resolve_mates of the CRAM slice reader with EXPLICIT panic sites.

   Source: noodles-cram/src/io/reader/container/slice.rs resolve_mates (the `for i in 0..len` loop
   with its two `while let Some(mate_index) = mate_indices[j]` walks).  C07's model
   NV.CramRec.Mates.resolve_mates reads a record with a default ([rget] = nth with a default) and
   writes with a silent out-of-range [upd]: it cannot express the index panics this function had
   before /repo 21bfe86 (`right[mate_index - mid]` with a mate distance that points past the slice).
   Here every slice index of the Rust is a checked access whose failure is [MPPanic site]:

     S_MI_I        mate_indices[i]                    (line `if mate_indices[i].is_none()`)
     S_MI_J        mate_indices[j]                    (first  while let)
     S_SPLIT_MID   records.split_at_mut(j + 1)        (mid > len)
     S_RIGHT_SUB   mate_index - mid                   (usize underflow, overflow-checks = on)
     S_RIGHT_MATE  right[mate_index - mid]
     S_SPLIT_J     records.split_at_mut(j)            (after the first walk)
     S_RIGHT0      right[0]
     S_LEFT_I      left[i]                            (needs i < j)
     S_MI_J2       mate_indices[j]                    (second while let)
     S_REC_MATE    records[mate_index]                (second while let)

   and the two `while let` loops, which have no counter in the Rust, run on fuel = number of
   records with the explicit outcome [MPFuel] when it runs out.  The record arithmetic (set_mate,
   calculate_template_length) is C07's.  [resolve_mates_p_v0] is the code before 21bfe86 (mate index
   = i + distance + 1, unchecked).  Not modelled: the generated names (`record.id.to_string()`,
   `mate.name = record.name.clone()`: no index, no arithmetic) and the usize subtraction inside
   calculate_alignment_span (Record::validate, called on every record before resolve_mates, bounds
   the read-consuming feature lengths by the read length).  Definitions only; proofs in
   MatesPProofs.v. *)
From Coq Require Import List NArith ZArith Bool Arith.
From NV Require Import CramRec.Features CramRec.Mates.
Import ListNotations.

Inductive msite :=
| S_MI_I | S_MI_J | S_SPLIT_MID | S_RIGHT_SUB | S_RIGHT_MATE | S_SPLIT_J | S_RIGHT0 | S_LEFT_I
| S_MI_J2 | S_REC_MATE.

Inductive mp (A : Type) :=
| MPOk (a : A)
| MPErr                    (* io::ErrorKind::InvalidData "invalid mate distance" *)
| MPPanic (s : msite)
| MPFuel.                  (* the model's fuel ran out: excluded by the theorems *)
Arguments MPOk {A} a.
Arguments MPErr {A}.
Arguments MPPanic {A} s.
Arguments MPFuel {A}.

Definition mp_bind {A B} (x : mp A) (f : A -> mp B) : mp B :=
  match x with MPOk a => f a | MPErr => MPErr | MPPanic s => MPPanic s | MPFuel => MPFuel end.

(* first `while let Some(mate_index) = mate_indices[j]` *)
Fixpoint walk_set_p (fuel : nat) (mi : list (option nat)) (rs : list mrec) (j : nat)
  : mp (list mrec * nat) :=
  match fuel with
  | O => MPFuel
  | S f =>
      match nth_error mi j with
      | None => MPPanic S_MI_J
      | Some None => MPOk (rs, j)
      | Some (Some m) =>
          let mid := S j in
          if (length rs <? mid)%nat then MPPanic S_SPLIT_MID       (* split_at_mut(mid); left[j] *)
          else if (m <? mid)%nat then MPPanic S_RIGHT_SUB          (* mate_index - mid *)
          else match nth_error rs m with                           (* right[mate_index - mid] *)
               | None => MPPanic S_RIGHT_MATE
               | Some mate => walk_set_p f mi (upd rs j (fun r => set_mate r mate)) m
               end
      end
  end.

(* second while loop: TLEN of the downstream members, clearing mate_indices *)
Fixpoint walk_tlen_p (fuel : nat) (t : Z) (mi : list (option nat)) (rs : list mrec) (j : nat)
  : mp (list mrec * list (option nat)) :=
  match fuel with
  | O => MPFuel
  | S f =>
      match nth_error mi j with
      | None => MPPanic S_MI_J2
      | Some None => MPOk (rs, mi)
      | Some (Some m) =>
          match nth_error rs m with                                (* records[mate_index] *)
          | None => MPPanic S_REC_MATE
          | Some _ => walk_tlen_p f t (upd mi j (fun _ => None)) (upd rs m (set_tlen (- t))) m
          end
      end
  end.

(* body of `for i in 0..records.len()` *)
Definition resolve_step_p (st : list mrec * list (option nat)) (i : nat)
  : mp (list mrec * list (option nat)) :=
  let '(rs, mi) := st in
  match nth_error mi i with
  | None => MPPanic S_MI_I
  | Some None => MPOk st
  | Some (Some _) =>
      mp_bind (walk_set_p (length rs) mi rs i) (fun '(rs1, j) =>
        if (length rs1 <? j)%nat then MPPanic S_SPLIT_J            (* split_at_mut(j) *)
        else match nth_error rs1 j with                            (* right[0] *)
             | None => MPPanic S_RIGHT0
             | Some _ =>
                 match (if (i <? j)%nat then nth_error rs1 i else None) with   (* left[i] *)
                 | None => MPPanic S_LEFT_I
                 | Some mate =>
                     let rs2 := upd rs1 j (fun r => set_mate r mate) in
                     let t := tlen_calc (rget rs2 j) (rget rs2 i) in
                     let rs3 := upd rs2 i (set_tlen t) in
                     walk_tlen_p (length rs) t mi rs3 i
                 end
             end)
  end.

Fixpoint resolve_fold_p (is : list nat) (st : list mrec * list (option nat))
  : mp (list mrec * list (option nat)) :=
  match is with
  | [] => MPOk st
  | i :: tl => mp_bind (resolve_step_p st i) (resolve_fold_p tl)
  end.

(* resolve_mates of the repaired reader: mate_indices, else InvalidData, and the loop *)
(* mate_indices as the Rust computes it: checked_add, checked_add, `mate_index < records.len()`;
   the comparison is made on binary numbers so that a distance of 2^31 - 1 is never turned into a
   unary nat (equal to C07's [mate_indices_from]: MatesPProofs.mate_indices_n_eq) *)
Fixpoint mate_indices_n (n i : nat) (rs : list mrec) : option (list (option nat)) :=
  match rs with
  | [] => Some []
  | r :: tl =>
      match mate_indices_n n (S i) tl with
      | None => None
      | Some rest =>
          match m_dist r with
          | None => Some (None :: rest)
          | Some d =>
              if (N.of_nat i + d + 1 <? N.of_nat n)%N
              then Some (Some (i + N.to_nat d + 1)%nat :: rest) else None
          end
      end
  end.

Definition resolve_mates_p (rs : list mrec) : mp (list mrec) :=
  match mate_indices_n (length rs) 0 rs with
  | None => MPErr
  | Some mi => mp_bind (resolve_fold_p (seq 0 (length rs)) (rs, mi)) (fun st => MPOk (fst st))
  end.

(* the reader before /repo 21bfe86: `record.mate_distance.map(|len| i + len + 1)`, unchecked *)
Fixpoint mate_indices_v0 (i : nat) (rs : list mrec) : list (option nat) :=
  match rs with
  | [] => []
  | r :: tl =>
      match m_dist r with
      | None => None
      | Some d => Some (i + N.to_nat d + 1)%nat
      end :: mate_indices_v0 (S i) tl
  end.

Definition resolve_mates_p_v0 (rs : list mrec) : mp (list mrec) :=
  mp_bind (resolve_fold_p (seq 0 (length rs)) (rs, mate_indices_v0 0 rs)) (fun st => MPOk (fst st)).

(* the observation compared with the crate (kind cmate): the SAM mate columns of every record *)
Definition resolve_view (rs : list mrec) : mp (list (N * option N * option N * Z)) :=
  mp_bind (resolve_mates_p rs) (fun out => MPOk (map mate_view out)).

(* one record as the slice decoder hands it to resolve_mates in the files of kind cmate (read_mate
   with the series MF = 0, NS = -1, NP = 0, TS = 0 for every detached record; NF = [nf] for a record
   whose cram flags have MATE_IS_DOWNSTREAM (4) and not DETACHED (2)) *)
Definition series_rec (flags : N) (rid pos : option N) (rl : N) (feats : list feature) (cf nf : N) : mrec :=
  if N.testbit cf 1 then mk_mrec flags None rid pos rl feats None None 0%Z true (N.testbit cf 2) None
  else if N.testbit cf 2 then mk_mrec flags None rid pos rl feats None None 0%Z false true (Some nf)
  else mk_mrec flags None rid pos rl feats None None 0%Z false false None.
