(* C15 totality, text side (2): GFF3, GTF, BED and the VCF record span (models owned by C18 / C09
   and tied to the crates by their correspondence checks).

   For EVERY byte string:
   - GFF3: no line of line_bufs()/record_bufs() is a panic; Line::as_record is only reached on a
     line that is a record; the attribute iterator's fuel is never the reason of its result;
   - GTF: the same (attributes parser never panics, never runs out of fuel);
   - BED: the reader loop over one reused record never yields a Panic result and every view it
     yields has panic-free accessors (whole-file closure of C18's per-call theorem);
   - VCF: variant_end / variant_span of whatever the lazy or the eager reader accepted never panic.
   Proofs only; no new model function. *)
From Coq Require Import List NArith Bool Lia.
From Coq Require Import ZifyBool ZifyNat ZifyN.
From NV Require Import Base.Percent Text.TextBase Text.Gff Text.GffLine Text.Gtf Text.GtfLine
  Text.Bed Text.BedRec Text.BedRecProofs.
Import ListNotations.
Open Scope N_scope.

(* ---- shared ---- *)
Lemma split_once_shorter : forall sep s a r,
  split_once sep s = Some (a, r) -> (length r < length s)%nat.
Proof.
  induction s as [|b t IH]; intros a r H; cbn [split_once] in H; [discriminate|].
  destruct (b =? sep).
  - injection H as _ Hr. subst r. cbn [length]. lia.
  - destruct (split_once sep t) as [[a' r']|] eqn:E; [|discriminate].
    injection H as _ Hr. subst r'. specialize (IH _ _ eq_refl). cbn [length]. lia.
Qed.

Lemma parse_pos_np : forall s, parse_pos s <> Panic.
Proof.
  intro s. unfold parse_pos. destruct (parse_dec s) as [n|]; [|discriminate].
  destruct ((n =? 0) || (u64_max <? n)); discriminate.
Qed.

Lemma parse_score_np : forall prs s, parse_score prs s <> Some Panic.
Proof.
  intros prs s. unfold parse_score. destruct (bytes_eqb s [46]); [discriminate|].
  destruct (prs s); discriminate.
Qed.

Lemma parse_phase_np : forall s, parse_phase s <> Some Panic.
Proof.
  intro s. unfold parse_phase.
  repeat match goal with |- context [if ?b then _ else _] => destruct b end; discriminate.
Qed.

Lemma gff_parse_strand_np : forall s, gff_parse_strand s <> Panic.
Proof.
  intro s. unfold gff_parse_strand.
  repeat match goal with |- context [if ?b then _ else _] => destruct b end; discriminate.
Qed.

Lemma gtf_parse_strand_np : forall s, gtf_parse_strand s <> Panic.
Proof.
  intro s. unfold gtf_parse_strand.
  repeat match goal with |- context [if ?b then _ else _] => destruct b end; discriminate.
Qed.

(* what a lazy feature must satisfy for the owned conversion not to panic *)
Definition lazy_np (l : lazy_feature) : Prop :=
  l_start l <> Panic /\ l_end l <> Panic /\ l_score l <> Some Panic /\ l_strand l <> Panic /\
  l_phase l <> Some Panic /\ (forall r, snd (l_attrs l) = Some r -> exists e, r = Err e).

Lemma owned_of_lazy_np : forall l, lazy_np l -> owned_of_lazy l <> Panic.
Proof.
  intros l (H1 & H2 & H3 & H4 & H5 & H6). unfold owned_of_lazy.
  destruct (l_start l) as [st|e|]; [|discriminate|congruence].
  destruct (l_end l) as [en|e|]; [|discriminate|congruence].
  destruct (l_score l) as [[x|e|]|]; try discriminate; try congruence;
  (destruct (l_strand l) as [sd|e|]; [|discriminate|congruence]);
  (destruct (l_phase l) as [[p|e|]|]; try discriminate; try congruence);
  (destruct (snd (l_attrs l)) as [r|] eqn:E; [|discriminate];
   destruct (H6 r eq_refl) as [e He]; subst r; discriminate).
Qed.

(* ---- GFF3 ---- *)

(* the attribute iterator ends with None or a real error, never a panic, never out of fuel *)
Lemma gff_attrs_iter_end : forall fuel src, (length src < fuel)%nat ->
  snd (gff_attrs_iter fuel src) = None \/ snd (gff_attrs_iter fuel src) = Some (Err InvalidData).
Proof.
  induction fuel as [|f IH]; intros src Hf; [lia|].
  cbn [gff_attrs_iter]. destruct src as [|b t]; [left; reflexivity|].
  destruct (split_once 61 (b :: t)) as [[tg rest]|] eqn:E; [|right; reflexivity].
  apply split_once_shorter in E. cbn [snd].
  destruct (split_once 59 rest) as [[v r]|] eqn:E2; cbn [snd].
  - apply split_once_shorter in E2. apply IH. lia.
  - apply IH. cbn [length]. lia.
Qed.

Theorem gff_attrs_parse_end : forall col,
  snd (gff_attrs_parse col) = None \/ snd (gff_attrs_parse col) = Some (Err InvalidData).
Proof.
  intro col. unfold gff_attrs_parse. destruct (bytes_eqb col [46]); [left; reflexivity|].
  apply gff_attrs_iter_end. lia.
Qed.

Lemma gff_lazy_np : forall prs cs c9 l, gff_lazy_of_columns prs cs c9 = Rec l -> lazy_np l.
Proof.
  intros prs cs c9 l H. unfold gff_lazy_of_columns in H.
  destruct cs as [|c1 [|c2 [|c3 [|c4 [|c5 [|c6 [|c7 [|c8 [|x t]]]]]]]]]; try discriminate.
  injection H as Hl. subst l. unfold lazy_np. cbn [l_start l_end l_score l_strand l_phase l_attrs].
  repeat split; try apply parse_pos_np; try apply parse_score_np; try apply gff_parse_strand_np;
    try apply parse_phase_np.
  intros r Hr. destruct (gff_attrs_parse_end c9) as [E|E]; rewrite E in Hr; [discriminate|].
  injection Hr as Hr. subst r. eexists; reflexivity.
Qed.

(* Line::as_record is only called on a record line *)
Lemma kind_record_not_hash : forall line, gff_line_kind line = KRecord -> starts_with_hash line = false.
Proof.
  intros [|a t] H; [reflexivity|]. cbn [gff_line_kind] in H. cbn [starts_with_hash].
  destruct (a =? 35); [|reflexivity]. destruct t as [|b t']; [discriminate|].
  destruct (b =? 35); discriminate.
Qed.

Theorem gff_line_buf_total : forall prs line, gff_line_buf prs line <> BRecord Panic.
Proof.
  intros prs line. unfold gff_line_buf. destruct (gff_line_kind line) eqn:K.
  - destruct (dir_split (skipn 2 line)); discriminate.
  - discriminate.
  - intro H. injection H as H. unfold gff_parse_line in H.
    rewrite (kind_record_not_hash _ K) in H.
    destruct (take_fields 8 line) as [[cs c9]|]; [|discriminate].
    destruct (gff_lazy_of_columns prs cs c9) as [|e|l] eqn:E.
    + unfold gff_lazy_of_columns in E.
      destruct cs as [|c1 [|c2 [|c3 [|c4 [|c5 [|c6 [|c7 [|c8 [|x t]]]]]]]]]; discriminate.
    + discriminate.
    + apply gff_lazy_np in E. exact (owned_of_lazy_np l E H).
Qed.

(* every byte string: no line of line_bufs() and no item of record_bufs() is a panic *)
Theorem gff_file_line_bufs_total : forall prs text,
  Forall (fun b => b <> BRecord Panic) (gff_file_line_bufs prs text).
Proof.
  intros prs text. unfold gff_file_line_bufs. apply Forall_forall. intros b Hb.
  apply in_map_iff in Hb. destruct Hb as (line & E & _). subst b. apply gff_line_buf_total.
Qed.

Lemma gff_record_bufs_np : forall ls, Forall (fun b => b <> BRecord Panic) ls ->
  Forall (fun r => r <> Panic) (gff_record_bufs ls).
Proof.
  induction ls as [|b t IH]; intro H; cbn [gff_record_bufs]; [constructor|].
  inversion H as [|b' t' Hb Ht]; subst. destruct b as [k v|s|r].
  - destruct (bytes_eqb k fasta_key); [constructor | apply IH; exact Ht].
  - apply IH; exact Ht.
  - constructor; [congruence | apply IH; exact Ht].
Qed.

Theorem gff_file_record_bufs_total : forall prs text,
  Forall (fun r => r <> Panic) (gff_record_bufs (gff_file_line_bufs prs text)).
Proof. intros. apply gff_record_bufs_np, gff_file_line_bufs_total. Qed.

(* the lazy line view: a record line is never NotRecord *)
Theorem gff_classify_total : forall prs line, gff_classify prs line <> GRecord NotRecord.
Proof.
  intros prs line. unfold gff_classify. destruct (gff_line_kind line) eqn:K.
  - destruct (dir_split (skipn 2 line)); discriminate.
  - discriminate.
  - intro H. injection H as H. unfold gff_parse_line in H. rewrite (kind_record_not_hash _ K) in H.
    destruct (take_fields 8 line) as [[cs c9]|]; [|discriminate].
    unfold gff_lazy_of_columns in H.
    destruct cs as [|c1 [|c2 [|c3 [|c4 [|c5 [|c6 [|c7 [|c8 [|x t]]]]]]]]]; discriminate.
Qed.

(* ---- GTF ---- *)

Lemma trim_start_le : forall s, (length (trim_start s) <= length s)%nat.
Proof.
  induction s as [|b t IH]; cbn [trim_start length]; [lia|].
  destruct (is_ascii_ws b); cbn [length]; lia.
Qed.

Lemma consume_terminator_le : forall s, (length (consume_terminator s) <= length s)%nat.
Proof.
  intro s. unfold consume_terminator. pose proof (trim_start_le s) as H.
  destruct (trim_start s) as [|b t]; [cbn [length]; lia|].
  destruct (b =? 59); [|exact H]. pose proof (trim_start_le t). cbn [length] in H. lia.
Qed.

Lemma split_quote_shorter : forall s esc a r, split_quote esc s = Some (a, r) -> (length r < length s)%nat.
Proof.
  induction s as [|c t IH]; intros esc a r H; cbn [split_quote] in H; [discriminate|].
  destruct esc.
  - destruct (split_quote false t) as [[a' r']|] eqn:E; [|discriminate].
    injection H as _ Hr. subst r'. apply IH in E. cbn [length]. lia.
  - destruct (c =? 34).
    + injection H as _ Hr. subst r. cbn [length]. lia.
    + destruct (split_quote (c =? 92) t) as [[a' r']|] eqn:E; [|discriminate].
      injection H as _ Hr. subst r'. apply IH in E. cbn [length]. lia.
Qed.

Lemma gtf_parse_field_np : forall src, gtf_parse_field src <> Panic.
Proof.
  intro src. unfold gtf_parse_field. destruct (split_once 32 src) as [[k rest]|]; [|discriminate].
  destruct rest as [|c rest'].
  - destruct (split_once 59 []) as [[v r]|]; discriminate.
  - destruct (N.eq_dec c 34) as [E|E].
    + subst c. destruct (split_quote false rest') as [[v r]|]; discriminate.
    + assert (forall (X : res (list N * list N * list N)) Y,
               match c with 34 => X | _ => Y end = Y) as R.
      { intros X Y. destruct c as [|p]; [reflexivity|].
        do 6 (destruct p as [p|p|]; try reflexivity). all: try (exfalso; apply E; reflexivity).
        all: destruct p; reflexivity. }
      rewrite R. destruct (split_once 59 (c :: rest')) as [[v r]|]; discriminate.
Qed.

Lemma gtf_parse_field_shorter : forall src k raw rest,
  gtf_parse_field src = Ok (k, raw, rest) -> (length rest < length src)%nat.
Proof.
  intros src k raw rest H. unfold gtf_parse_field in H.
  destruct (split_once 32 src) as [[key r0]|] eqn:E; [|discriminate].
  apply split_once_shorter in E.
  assert (G : forall v r, (length r <= length r0)%nat ->
                          Ok (key, v, consume_terminator r) = Ok (k, raw, rest) ->
                          (length rest < length src)%nat).
  { intros v r Hr Hq. injection Hq as _ _ Hq. subst rest.
    pose proof (consume_terminator_le r). lia. }
  destruct r0 as [|c r1].
  - cbn [split_once] in H. injection H as _ _ Hr. subst rest. cbn [length]. lia.
  - destruct (N.eq_dec c 34) as [Ec|Ec].
    + subst c. destruct (split_quote false r1) as [[v r]|] eqn:Q; [|discriminate].
      apply split_quote_shorter in Q. eapply G; [|exact H]. cbn [length]. lia.
    + assert (R : forall (X Y : res (list N * list N * list N)),
                 match c with 34 => X | _ => Y end = Y).
      { intros X Y. destruct c as [|p]; [reflexivity|].
        do 6 (destruct p as [p|p|]; try reflexivity). all: try (exfalso; apply Ec; reflexivity).
        all: destruct p; reflexivity. }
      rewrite R in H. destruct (split_once 59 (c :: r1)) as [[v r]|] eqn:S.
      * apply split_once_shorter in S. eapply G; [|exact H]. cbn [length]. cbn [length] in S. lia.
      * injection H as _ _ Hr. subst rest. cbn [length]. lia.
Qed.

Lemma gtf_attrs_loop_total : forall fuel src m, (length src < fuel)%nat ->
  gtf_attrs_loop fuel src m <> Panic /\ gtf_attrs_loop fuel src m <> Err OutOfFuel.
Proof.
  induction fuel as [|f IH]; intros src m Hf; [lia|].
  cbn [gtf_attrs_loop]. destruct src as [|b t]; [split; discriminate|].
  destruct (gtf_parse_field (b :: t)) as [[[k raw] rest]|e|] eqn:E.
  - apply gtf_parse_field_shorter in E.
    destruct (gtf_unescape false raw) as [x|]; [|split; discriminate].
    apply IH. lia.
  - unfold gtf_parse_field in E. split; [discriminate|].
    destruct (split_once 32 (b :: t)) as [[key r0]|]; [|injection E as E; subst e; discriminate].
    destruct r0 as [|c r1].
    + cbn [split_once] in E. discriminate.
    + intro H. injection H as H. subst e.
      destruct c as [|p]; [destruct (split_once 59 (0 :: r1)) as [[? ?]|]; discriminate|].
      repeat (destruct p as [p|p|];
              try (destruct (split_once 59 _) as [[? ?]|]; discriminate);
              try (destruct (split_quote false r1) as [[? ?]|]; discriminate)).
  - exfalso. exact (gtf_parse_field_np _ E).
Qed.

Theorem gtf_attrs_parse_total : forall col,
  gtf_attrs_parse col <> Panic /\ gtf_attrs_parse col <> Err OutOfFuel.
Proof. intro col. unfold gtf_attrs_parse. apply gtf_attrs_loop_total. lia. Qed.

Lemma gtf_lazy_np : forall prs cs c9 l, gtf_lazy_of_columns prs cs c9 = GRec l -> lazy_np l.
Proof.
  intros prs cs c9 l H. unfold gtf_lazy_of_columns in H.
  destruct cs as [|c1 [|c2 [|c3 [|c4 [|c5 [|c6 [|c7 [|c8 [|x t]]]]]]]]]; try discriminate.
  injection H as Hl. subst l. unfold lazy_np. cbn [l_start l_end l_score l_strand l_phase l_attrs].
  repeat split; try apply parse_pos_np; try apply parse_score_np; try apply gtf_parse_strand_np;
    try apply parse_phase_np.
  intros r Hr. destruct (gtf_attrs_parse_total c9) as [N1 _].
  destruct (gtf_attrs_parse c9) as [m|e|]; cbn [snd] in Hr; [discriminate| |congruence].
  injection Hr as Hr. subst r. eexists; reflexivity.
Qed.

Theorem gtf_line_buf_total : forall prs line, gtf_line_buf prs line <> TBRecord Panic.
Proof.
  intros prs line. unfold gtf_line_buf. destruct (gtf_starts_with_hash line) eqn:K; [discriminate|].
  intro H. injection H as H. unfold gtf_parse_line in H. rewrite K in H.
  assert (A : forall r : res feature, as_invalid_data r = Panic -> r = Panic).
  { intros [a|e|]; cbn; congruence. }
  apply A in H.
  destruct (take_fields 8 line) as [[cs c9]|]; [|discriminate].
  destruct (gtf_lazy_of_columns prs cs c9) as [|e|l] eqn:E.
  - unfold gtf_lazy_of_columns in E.
    destruct cs as [|c1 [|c2 [|c3 [|c4 [|c5 [|c6 [|c7 [|c8 [|x t]]]]]]]]]; discriminate.
  - discriminate.
  - apply gtf_lazy_np in E. exact (owned_of_lazy_np l E H).
Qed.

Theorem gtf_file_line_bufs_total : forall prs text,
  Forall (fun b => b <> TBRecord Panic) (gtf_file_line_bufs prs text).
Proof.
  intros prs text. unfold gtf_file_line_bufs. apply Forall_forall. intros b Hb.
  apply in_map_iff in Hb. destruct Hb as (line & E & _). subst b. apply gtf_line_buf_total.
Qed.

Theorem gtf_classify_total : forall prs line, gtf_classify prs line <> TRecord GNotRecord.
Proof.
  intros prs line. unfold gtf_classify. destruct (gtf_starts_with_hash line) eqn:K; [discriminate|].
  intro H. injection H as H. unfold gtf_parse_line in H. rewrite K in H.
  destruct (take_fields 8 line) as [[cs c9]|]; [|discriminate].
  unfold gtf_lazy_of_columns in H.
  destruct cs as [|c1 [|c2 [|c3 [|c4 [|c5 [|c6 [|c7 [|c8 [|x t]]]]]]]]]; discriminate.
Qed.

(* ---- BED: the reader loop over ONE reused record, any input ---- *)

Lemma bed_read_res_np : forall n src old, ro_res (bed_read_record n src old) <> Panic.
Proof.
  intros n src old. unfold bed_read_record.
  destruct (read_required (n - 1) (skip_comments src) [] [] 0) as [[[[ok src1] dst1] ends] len].
  destruct ok; cbn [negb ro_res]; [|discriminate].
  destruct (read_field src1 dst1) as [[[dst2 n2] eol] src2].
  destruct eol; cbn [ro_res]; [discriminate|].
  destruct (read_others (S (length src2)) src2 dst2 [] (len + n2)) as [[[[src3 dst3] oth] len3]|];
    cbn [ro_res]; discriminate.
Qed.

Definition bed_item_ok (n : nat) (r : res bed_view) : Prop :=
  match r with
  | Ok v => view_no_panic v /\ bed_owned n v <> Panic
  | Err e => e <> OutOfFuel
  | Panic => False
  end.

Theorem bed_read_file_total : forall fuel n src old,
  (3 <= n)%nat -> length (bf_std old) = n ->
  Forall (bed_item_ok n) (bed_read_file fuel n src old).
Proof.
  induction fuel as [|f IH]; intros n src old Hn Hold; cbn [bed_read_file]; [constructor|].
  destruct (ro_res (bed_read_record n src old)) as [k|e|] eqn:E.
  - destruct k as [|k]; [constructor|].
    pose proof (bed_read_ok_no_panic n src old (S k) Hn Hold E) as Hv.
    pose proof (bed_read_ok_bounds n src old (S k) ltac:(lia) Hold E) as Hb.
    constructor; [exact Hv|]. apply IH; [exact Hn|]. exact (proj1 Hb).
  - constructor; [|constructor]. cbn [bed_item_ok]. intro H. subst e.
    exact (bed_read_never_out_of_fuel n src old E).
  - exfalso. exact (bed_read_res_np n src old E).
Qed.
