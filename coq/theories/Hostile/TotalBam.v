(* C15 totality, BAM record decoders (models owned by C05: NV.Bam.Decode = io/reader/record.rs +
   record/codec/decoder/**, NV.Bam.Lazy = record_ref.rs / record.rs accessors with their panics).

   The eager decoder's result type has no panic outcome (C05's correspondence check compares
   Ok/Err/Panic of the real decoder with it on arbitrary bodies), so what is left to prove for
   "every byte string" is that the fuel of its four loops (CIGAR ops, array elements, data fields,
   the lazy data iterator and get_raw_cigar) is never the reason of a result: any larger fuel gives
   the same answer.  The lazy accessors' panic outcomes are unreachable on every body that
   read_record accepted (validate = Ok): that is C05's theorem, restated here in one piece
   together with the framing of read_record.
   Proofs only; no new model function. *)
From Coq Require Import List NArith ZArith Bool Lia.
From Coq Require Import ZifyBool ZifyNat ZifyN.
From NV Require Import Bam.Record Bam.Encode Bam.Decode Bam.Lazy Bam.LazyProofs Bam.LazyDataProofs.
Import ListNotations.
Open Scope N_scope.

Lemma rdW_consumes : forall w bs v r, rdW w bs = Some (v, r) -> length bs = (w + length r)%nat.
Proof.
  induction w as [|w IH]; intros bs v r H; cbn [rdW] in H.
  - injection H as _ Hr. subst r. reflexivity.
  - destruct bs as [|b t]; [discriminate|]. destruct (rdW w t) as [[v' r']|] eqn:E; [|discriminate].
    injection H as _ Hr. subst r'. apply IH in E. cbn [length]. lia.
Qed.

Lemma rdW_nil : forall w, (1 <= w)%nat -> rdW w [] = None.
Proof. intros [|w] H; [lia|reflexivity]. Qed.

Lemma takeN_consumes : forall bs n a r, takeN n bs = Some (a, r) -> (length r <= length bs)%nat.
Proof.
  induction bs as [|b t IH]; intros n a r H.
  - cbn [takeN] in H. destruct (n =? 0); [|discriminate]. injection H as _ Hr. subst r. lia.
  - cbn [takeN] in H. destruct (n =? 0).
    + injection H as _ Hr. subst r. lia.
    + destruct (takeN (n - 1) t) as [[a' c]|] eqn:E; [|discriminate].
      injection H as _ Hr. subst c. apply IH in E. cbn [length]. lia.
Qed.

Lemma split_nul_consumes : forall bs s r, split_nul bs = Some (s, r) -> (length r < length bs)%nat.
Proof.
  induction bs as [|b t IH]; intros s r H; cbn [split_nul] in H; [discriminate|].
  destruct (b =? 0).
  - injection H as _ Hr. subst r. cbn [length]. lia.
  - destruct (split_nul t) as [[a c]|]; [|discriminate].
    injection H as _ Hr. subst c. specialize (IH a r eq_refl). cbn [length]. lia.
Qed.

(* ---- CIGAR ops: 4 bytes per step ---- *)
Theorem dec_ops_fuel : forall f1 f2 cnt bs, (length bs <= f1)%nat -> (length bs <= f2)%nat ->
  dec_ops f1 cnt bs = dec_ops f2 cnt bs.
Proof.
  induction f1 as [|f1 IH]; intros f2 cnt bs H1 H2.
  - destruct bs as [|b t]; [|cbn [length] in H1; lia].
    destruct f2 as [|f2]; [reflexivity|]. cbn [dec_ops]. destruct (cnt =? 0); reflexivity.
  - destruct f2 as [|f2].
    + destruct bs as [|b t]; [|cbn [length] in H2; lia].
      cbn [dec_ops]. destruct (cnt =? 0); reflexivity.
    + cbn [dec_ops]. destruct (cnt =? 0); [reflexivity|]. unfold rd.
      destruct (rdW 4 bs) as [[n r]|] eqn:E; cbn [bindr]; [|reflexivity].
      apply rdW_consumes in E. destruct (dec_op n) as [op|e]; cbn [bindr]; [|reflexivity].
      rewrite (IH f2 (cnt - 1) r); [reflexivity|lia|lia].
Qed.

(* ---- array elements: w >= 1 bytes per step ---- *)
Theorem dec_elems_fuel : forall w sg, (1 <= w)%nat ->
  forall f1 f2 cnt bs, (length bs <= f1)%nat -> (length bs <= f2)%nat ->
  dec_elems f1 w sg cnt bs = dec_elems f2 w sg cnt bs.
Proof.
  intros w sg Hw. induction f1 as [|f1 IH]; intros f2 cnt bs H1 H2.
  - destruct bs as [|b t]; [|cbn [length] in H1; lia].
    destruct f2 as [|f2]; [reflexivity|]. cbn [dec_elems]. destruct (cnt =? 0); [reflexivity|].
    unfold dec_num, rd. rewrite rdW_nil by exact Hw. reflexivity.
  - destruct f2 as [|f2].
    + destruct bs as [|b t]; [|cbn [length] in H2; lia].
      cbn [dec_elems]. destruct (cnt =? 0); [reflexivity|].
      unfold dec_num, rd. rewrite rdW_nil by exact Hw. reflexivity.
    + cbn [dec_elems]. destruct (cnt =? 0); [reflexivity|]. unfold dec_num, rd.
      destruct (rdW w bs) as [[n r]|] eqn:E; cbn [bindr]; [|reflexivity].
      apply rdW_consumes in E. rewrite (IH f2 (cnt - 1) r); [reflexivity|lia|lia].
Qed.

Lemma num_width_pos : forall ty w sg, num_width ty = Some (w, sg) -> (1 <= w)%nat.
Proof.
  intros ty w sg H. unfold num_width in H.
  repeat match type of H with (if ?c then _ else _) = _ => destruct c end;
    try discriminate; injection H as Hw _; subst w; lia.
Qed.

Lemma sub_width_pos : forall ty w sg, sub_width ty = Some (w, sg) -> (1 <= w)%nat.
Proof.
  intros ty w sg H. unfold sub_width in H. destruct (ty =? tyA); [discriminate|].
  eapply num_width_pos; exact H.
Qed.

Lemma dec_elems_consumes : forall w sg f cnt bs vs r,
  dec_elems f w sg cnt bs = Ok (vs, r) -> (length r <= length bs)%nat.
Proof.
  intros w sg. induction f as [|f IH]; intros cnt bs vs r H; cbn [dec_elems] in H.
  - destruct (cnt =? 0); [|discriminate]. injection H as _ Hr. subst r. lia.
  - destruct (cnt =? 0); [injection H as _ Hr; subst r; lia|].
    unfold dec_num, rd in H. destruct (rdW w bs) as [[n r0]|] eqn:E; cbn [bindr] in H; [|discriminate].
    apply rdW_consumes in E.
    destruct (dec_elems f w sg (cnt - 1) r0) as [[vs' r']|e] eqn:E2; cbn [bindr] in H; [|discriminate].
    injection H as _ Hr. subst r'. apply IH in E2. lia.
Qed.

(* a decoded value consumes at least one byte *)
Lemma dec_value_consumes : forall ty bs v r, dec_value ty bs = Ok (v, r) -> (length r < length bs)%nat.
Proof.
  intros ty bs v r H. unfold dec_value in H.
  destruct (num_width ty) as [[w sg]|] eqn:W.
  - unfold dec_num, rd in H. destruct (rdW w bs) as [[n r0]|] eqn:E; cbn [bindr] in H; [|discriminate].
    injection H as _ Hr. subst r0. apply rdW_consumes in E. apply num_width_pos in W. lia.
  - destruct ((ty =? tyZ) || (ty =? tyH)).
    + destruct (split_nul bs) as [[s r0]|] eqn:E; [|discriminate].
      injection H as _ Hr. subst r0. eapply split_nul_consumes; exact E.
    + destruct (ty =? tyB); [|discriminate]. unfold rd in H.
      destruct (rdW 1 bs) as [[sub r0]|] eqn:E; cbn [bindr] in H; [|discriminate].
      destruct (sub_width sub) as [[w sg]|]; [|discriminate].
      destruct (rdW 4 r0) as [[cnt r1]|] eqn:E1; cbn [bindr] in H; [|discriminate].
      destruct (dec_elems (length r1) w sg cnt r1) as [[vs r2]|e] eqn:E2; cbn [bindr] in H; [|discriminate].
      injection H as _ Hr. subst r2. apply rdW_consumes in E. apply rdW_consumes in E1.
      apply dec_elems_consumes in E2. lia.
Qed.

(* ---- data fields: >= 4 bytes per field ---- *)
Theorem dec_data_fuel : forall f1 f2 bs acc, (length bs <= f1)%nat -> (length bs <= f2)%nat ->
  dec_data f1 bs acc = dec_data f2 bs acc.
Proof.
  induction f1 as [|f1 IH]; intros f2 bs acc H1 H2.
  - destruct bs as [|b t]; [|cbn [length] in H1; lia]. destruct f2; reflexivity.
  - destruct f2 as [|f2].
    + destruct bs as [|b t]; [|cbn [length] in H2; lia]. reflexivity.
    + cbn [dec_data]. destruct bs as [|b t]; [reflexivity|]. unfold rd.
      destruct (rdW 1 (b :: t)) as [[t0 r0]|] eqn:E0; cbn [bindr]; [|reflexivity].
      destruct (rdW 1 r0) as [[t1 r1]|] eqn:E1; cbn [bindr]; [|reflexivity].
      destruct (rdW 1 r1) as [[ty r2]|] eqn:E2; cbn [bindr]; [|reflexivity].
      destruct (dec_value ty r2) as [[v r3]|e] eqn:E3; cbn [bindr]; [|reflexivity].
      destruct (existsb (fun p => tag_eqb (fst p) (t0, t1)) acc); [reflexivity|].
      apply rdW_consumes in E0, E1, E2. apply dec_value_consumes in E3.
      apply IH; lia.
Qed.

(* ---- the lazy data iterator and get_raw_cigar ---- *)
Lemma lz_value_consumes : forall ty bs v r, lz_value ty bs = Ok (v, r) -> (length r < length bs)%nat.
Proof.
  intros ty bs v r H. unfold lz_value in H. destruct (ty =? tyB).
  - destruct bs as [|sub r0]; [discriminate|].
    destruct (sub_width sub) as [[w sg]|]; [|discriminate].
    destruct (rdW 4 r0) as [[cnt r1]|] eqn:E1; [|discriminate].
    destruct (takeN (cnt * N.of_nat w) r1) as [[buf r2]|] eqn:E2; [|discriminate].
    destruct (dec_elems (length buf) w sg cnt buf) as [[vs x]|e]; cbn [bindr] in H; [|discriminate].
    injection H as _ Hr. subst r2. apply rdW_consumes in E1. apply takeN_consumes in E2.
    cbn [length]. lia.
  - destruct (num_width ty) as [[w sg]|] eqn:W.
    + unfold dec_num, rd in H. destruct (rdW w bs) as [[n r0]|] eqn:E; cbn [bindr] in H; [|discriminate].
      injection H as _ Hr. subst r0. apply rdW_consumes in E. apply num_width_pos in W. lia.
    + destruct ((ty =? tyZ) || (ty =? tyH)); [|discriminate].
      destruct (split_nul bs) as [[s r0]|] eqn:E; [|discriminate].
      injection H as _ Hr. subst r0. eapply split_nul_consumes; exact E.
Qed.

Theorem lz_fields_fuel : forall f1 f2 bs, (length bs <= f1)%nat -> (length bs <= f2)%nat ->
  lz_fields f1 bs = lz_fields f2 bs.
Proof.
  induction f1 as [|f1 IH]; intros f2 bs H1 H2.
  - destruct bs as [|b t]; [|cbn [length] in H1; lia]. destruct f2; reflexivity.
  - destruct f2 as [|f2].
    + destruct bs as [|b t]; [|cbn [length] in H2; lia]. reflexivity.
    + cbn [lz_fields]. destruct bs as [|t0 [|t1 [|ty r]]]; try reflexivity.
      destruct (lz_value ty r) as [[v r']|e] eqn:E; [|reflexivity].
      apply lz_value_consumes in E. cbn [length] in H1, H2.
      rewrite (IH f2 r'); [reflexivity|lia|lia].
Qed.

Theorem raw_cigar_fuel : forall f1 f2 bs, (length bs <= f1)%nat -> (length bs <= f2)%nat ->
  raw_cigar f1 bs = raw_cigar f2 bs.
Proof.
  induction f1 as [|f1 IH]; intros f2 bs H1 H2.
  - destruct bs as [|b t]; [|cbn [length] in H1; lia]. destruct f2; reflexivity.
  - destruct f2 as [|f2].
    + destruct bs as [|b t]; [|cbn [length] in H2; lia]. reflexivity.
    + cbn [raw_cigar]. destruct bs as [|t0 [|t1 [|ty r1]]]; try reflexivity.
      cbn [length] in H1, H2. destruct (ty =? tyB).
      * destruct r1 as [|sub r2]; [reflexivity|].
        destruct (sub_width sub) as [[w sg]|]; [|reflexivity].
        destruct (rdW 4 r2) as [[cnt r3]|] eqn:E1; [|reflexivity].
        destruct (takeN (cnt * N.of_nat w) r3) as [[buf r4]|] eqn:E2; [|reflexivity].
        destruct (tag_eqb (t0, t1) CG); [reflexivity|].
        apply rdW_consumes in E1. apply takeN_consumes in E2. cbn [length] in H1, H2.
        apply IH; lia.
      * destruct (num_width ty) as [[w sg]|] eqn:W.
        -- destruct (rdW w r1) as [[x r2]|] eqn:E; [|reflexivity].
           apply rdW_consumes in E. apply IH; lia.
        -- destruct ((ty =? tyZ) || (ty =? tyH)); [|reflexivity].
           destruct (split_nul r1) as [[s r2]|] eqn:E; [|reflexivity].
           apply split_nul_consumes in E. apply IH; lia.
Qed.

(* ---- read_record + every lazy accessor, any block ---- *)

(* [block] = the bytes of the stream from a record boundary on: block_size, body, whatever follows.
   Either read_record fails (framing / validate) or every modelled accessor of the record it
   returned is panic-free: the view exists, every slice is in range, cigar().iter() does not reach
   its unreachable!(), data().iter() and sequence().get(i) are defined for every i. *)
Theorem bam_read_record_accessors_total : forall block bs rest body tail,
  rdW 4 block = Some (bs, rest) -> takeN bs rest = Some (body, tail) -> validate body = Ok tt ->
  (exists v, lazy_view_of body = Some v /\
     v_name v <> None /\ v_cigar v <> None /\ v_seq v <> None /\ v_qual v <> None /\ v_data_raw v <> None)
  /\ (exists d, lzp_data body = Some d)
  /\ (forall i, exists x, lzp_seq_get body i = Some x).
Proof.
  intros block bs rest body tail _ _ Hv.
  destruct (lazy_slices_ok body Hv) as (H1 & H2 & H3 & H4 & H5 & H6 & _).
  destruct (lazy_cigar_no_panic body Hv) as [c Hc].
  destruct (lazy_detail_no_panic body Hv) as (D1 & _ & D3).
  split; [|split; [exact D1 | exact D3]].
  unfold lazy_view_of. rewrite H1. eexists. split; [reflexivity|].
  cbn [v_name v_cigar v_seq v_qual v_data_raw]. rewrite H2, H4, H5, H6, Hc.
  repeat split; discriminate.
Qed.
