(* C15 totality, binary side: BGZF reader, CRAM integer codings, gzi / BAI index readers
   (models owned by C01 / C08 / C04+C13 and tied to the crates by their correspondence checks).

   For EVERY byte string:
   - bgzf::io::Reader::read_to_end (NV.Bgzf.Reader) never reaches its Panic outcome (the only one
     is the fuel of the frame loop: every frame consumes >= 26 bytes), whatever the inflater; the
     frame parser itself has no panicking path;
   - read_itf8 / read_ltf8 / read_uint7 consume at least one byte when they succeed (no decoder
     loop built on them can spin) and, on bytes, return a value inside i32 / i64 / u32;
   - the gzi and BAI readers accept a count field only when the input really holds that many
     entries: the number of decoded items is bounded by the input length (no amplification).
   Proofs only; no new model function. *)
From Coq Require Import List Arith NArith ZArith Bool Lia.
From Coq Require Import ZifyBool ZifyNat ZifyN.
From NV Require Import Base.LE Bgzf.Crc32 Bgzf.Frame Bgzf.FrameProofs Bgzf.Reader
  Cram.Bytes Cram.Itf8 Cram.Ltf8 Cram.Vlq Index.Layout.
Import ListNotations.
Open Scope N_scope.

(* ---- BGZF ---- *)

Theorem parse_frame_total : forall src, parse_frame src <> Panic.
Proof.
  intro src. unfold parse_frame.
  repeat match goal with |- context [if ?b then _ else _] => destruct b end; discriminate.
Qed.

Section Bgzf.
  Variable inflate : list N -> N -> option (list N).

  Lemma read_frame_total : forall src, read_frame src <> Panic.
  Proof.
    intro src. unfold read_frame.
    repeat match goal with |- context [if ?b then _ else _] => destruct b end; discriminate.
  Qed.

  Lemma read_frame_shorter : forall src frame rest,
    read_frame src = Ok (Some (frame, rest)) -> (length rest < length src)%nat.
  Proof.
    intros src frame rest H. unfold read_frame in H.
    destruct (lenN src <? BGZF_HEADER_SIZE) eqn:E1; [discriminate|].
    set (bs := le_dec (slice src 16 18) + 1) in *.
    destruct (bs <? MIN_FRAME_SIZE) eqn:E2; [discriminate|].
    destruct (lenN src <? bs) eqn:E3; [discriminate|].
    injection H as _ Hr. subst rest. rewrite skipn_length.
    unfold lenN, MIN_FRAME_SIZE, BGZF_HEADER_SIZE in *. lia.
  Qed.

  Lemma parse_block_total : forall frame, parse_block inflate frame <> Panic.
  Proof.
    intro frame. unfold parse_block. pose proof (parse_frame_total frame) as P.
    destruct (parse_frame frame) as [[[[bs cdata] crc] isize]|e|]; [|discriminate|congruence].
    destruct (inflate cdata isize) as [d|]; [|discriminate].
    destruct (crc32 d =? crc); discriminate.
  Qed.

  Lemma read_blocks_total : forall fuel src, (length src < fuel)%nat ->
    snd (read_blocks inflate fuel src) <> Panic.
  Proof.
    induction fuel as [|f IH]; intros src Hf; [lia|].
    cbn [read_blocks]. pose proof (read_frame_total src) as RF.
    destruct (read_frame src) as [[[frame rest]|]|e|] eqn:E; cbn [snd]; try discriminate; [|congruence].
    pose proof (parse_block_total frame) as PB.
    destruct (parse_block inflate frame) as [[bs d]|e|]; cbn [snd]; try discriminate; [|congruence].
    apply read_frame_shorter in E. specialize (IH rest ltac:(lia)).
    destruct (read_blocks inflate f rest) as [bl r]. exact IH.
  Qed.

  (* every byte string, every inflater: read_to_end ends with Ok or an io::Error *)
  Theorem bgzf_read_to_end_total : forall src, snd (reader_read_to_end inflate src) <> Panic.
  Proof.
    intro src. unfold reader_read_to_end. pose proof (read_blocks_total (S (length src)) src ltac:(lia)) as H.
    destruct (read_blocks inflate (S (length src)) src) as [bs r]. exact H.
  Qed.

  (* more fuel never changes the result: the fuel is not the reason of any outcome *)
  Theorem bgzf_read_blocks_fuel : forall f1 f2 src, (length src < f1)%nat -> (length src < f2)%nat ->
    read_blocks inflate f1 src = read_blocks inflate f2 src.
  Proof.
    induction f1 as [|f1 IH]; intros f2 src H1 H2; [lia|]. destruct f2 as [|f2]; [lia|].
    cbn [read_blocks]. destruct (read_frame src) as [[[frame rest]|]|e|] eqn:E; try reflexivity.
    destruct (parse_block inflate frame) as [[bs d]|e|]; try reflexivity.
    apply read_frame_shorter in E. rewrite (IH f2 rest); [reflexivity|lia|lia].
  Qed.
End Bgzf.

(* ---- CRAM ITF8 / LTF8 / uint7 ---- *)

Lemma take_be_consumes : forall k acc bs v r, take_be k acc bs = Some (v, r) -> length bs = (k + length r)%nat.
Proof.
  induction k as [|k IH]; intros acc bs v r H; cbn [take_be] in H.
  - injection H as _ Hr. subst r. reflexivity.
  - destruct bs as [|b t]; [discriminate|]. apply IH in H. cbn [length]. lia.
Qed.

Lemma take_be_bound : forall k acc bs v r, bytes_ok bs -> take_be k acc bs = Some (v, r) ->
  v < (acc + 1) * 256 ^ N.of_nat k /\ bytes_ok r.
Proof.
  induction k as [|k IH]; intros acc bs v r Hb H; cbn [take_be] in H.
  - injection H as Hv Hr. subst v r. split; [cbn; lia | exact Hb].
  - destruct bs as [|b t]; [discriminate|]. inversion Hb as [|b' t' Hb1 Hb2]; subst.
    apply IH in H; [|exact Hb2]. destruct H as [H1 H2]. split; [|exact H2].
    unfold byte_ok in Hb1.
    replace (N.of_nat (S k)) with (N.succ (N.of_nat k)) by lia. rewrite N.pow_succ_r'.
    assert (P : 0 < 256 ^ N.of_nat k) by (apply N.neq_0_lt_0, N.pow_nonzero; lia).
    nia.
Qed.

(* a successful read consumes at least one byte *)
Theorem read_itf8_progress : forall bs z r, read_itf8 bs = Some (z, r) -> (length r < length bs)%nat.
Proof.
  intros bs z r H. unfold read_itf8 in H. destruct (itf8_dec bs) as [[u r']|] eqn:E; [|discriminate].
  injection H as _ Hr. subst r'. unfold itf8_dec in E. destruct bs as [|b0 t]; [discriminate|].
  cbn [length].
  repeat match type of E with
         | (if ?c then _ else _) = _ => destruct c
         | match take_be ?k ?a ?l with _ => _ end = _ =>
             let Q := fresh "Q" in destruct (take_be k a l) as [[? ?]|] eqn:Q; [|discriminate];
             apply take_be_consumes in Q
         end; injection E as _ Er; subst; lia.
Qed.

Theorem read_ltf8_progress : forall bs z r, read_ltf8 bs = Some (z, r) -> (length r < length bs)%nat.
Proof.
  intros bs z r H. unfold read_ltf8 in H. destruct (ltf8_dec bs) as [[u r']|] eqn:E; [|discriminate].
  injection H as _ Hr. subst r'. unfold ltf8_dec, with_prefix in E. destruct bs as [|b0 t]; [discriminate|].
  cbn [length].
  repeat match type of E with
         | (if ?c then _ else _) = _ => destruct c
         | match take_be ?k ?a ?l with _ => _ end = _ =>
             let Q := fresh "Q" in destruct (take_be k a l) as [[? ?]|] eqn:Q; [|discriminate];
             apply take_be_consumes in Q
         end; injection E as _ Er; subst; lia.
Qed.

Lemma read_uint7_go_progress : forall bs n k v r,
  read_uint7_go bs n k = U7Ok v r -> (length r < length bs)%nat.
Proof.
  induction bs as [|b t IH]; intros n k v r H; cbn [read_uint7_go] in H; [discriminate|].
  destruct (Nat.ltb 5 (S k)); [discriminate|].
  destruct (b <? 128).
  - injection H as _ Hr. subst r. cbn [length]. lia.
  - apply IH in H. cbn [length]. lia.
Qed.

Theorem read_uint7_progress : forall bs v r, read_uint7 bs = U7Ok v r -> (length r < length bs)%nat.
Proof. intros bs v r H. exact (read_uint7_go_progress bs 0 0%nat v r H). Qed.

Lemma read_uint7_go_range : forall bs n k v r,
  read_uint7_go bs n k = U7Ok v r -> v < 4294967296 + 128.
Proof.
  induction bs as [|b t IH]; intros n k v r H; cbn [read_uint7_go] in H; [discriminate|].
  destruct (Nat.ltb 5 (S k)); [discriminate|].
  assert (M : (n * 128) mod 4294967296 < 4294967296) by (apply N.mod_lt; lia).
  assert (B : b mod 128 < 128) by (apply N.mod_lt; lia).
  destruct (b <? 128).
  - injection H as Hv _. subst v. lia.
  - eapply IH; exact H.
Qed.

(* `n <<= 7` drops the bits shifted out of the u32 and `n |= b & 0x7f` cannot carry: the value
   stays a u32 (the model's + is the code's |, the low 7 bits of (n * 128) mod 2^32 are zero) *)
Theorem read_uint7_range : forall bs v r, read_uint7 bs = U7Ok v r -> v < 4294967296.
Proof.
  intros bs v r H. unfold read_uint7 in H. revert H. generalize 0 at 1. generalize 0%nat.
  induction bs as [|b t IH]; intros k n H; cbn [read_uint7_go] in H; [discriminate|].
  destruct (Nat.ltb 5 (S k)); [discriminate|].
  destruct (b <? 128).
  - injection H as Hv _. subst v.
    assert (E : (n * 128) mod 4294967296 = 128 * (n mod 33554432)).
    { replace 4294967296 with (128 * 33554432) by reflexivity. rewrite (N.mul_comm n 128).
      rewrite N.mul_mod_distr_l by lia. reflexivity. }
    rewrite E. assert (n mod 33554432 < 33554432) by (apply N.mod_lt; lia).
    assert (b mod 128 < 128) by (apply N.mod_lt; lia). lia.
  - eapply IH; exact H.
Qed.

(* ---- gzi / BAI: the decoded item count is bounded by the input length ---- *)

Lemma p_le_consumes : forall k bs v r, p_le k bs = Some (v, r) -> length bs = (k + length r)%nat.
Proof.
  intros k bs v r H. unfold p_le in H. destruct (k <=? length bs)%nat eqn:E; [|discriminate].
  injection H as _ Hr. subst r. rewrite skipn_length. apply Nat.leb_le in E. lia.
Qed.

Lemma p_repeat_consumes : forall A (p : parser A) (k : nat),
  (forall bs x r, p bs = Some (x, r) -> (k + length r <= length bs)%nat) ->
  forall n bs xs r, p_repeat n p bs = Some (xs, r) ->
    (n * k + length r <= length bs)%nat /\ length xs = n.
Proof.
  intros A p k Hp. induction n as [|n IH]; intros bs xs r H; cbn [p_repeat] in H.
  - injection H as Hx Hr. subst xs r. split; [lia|reflexivity].
  - destruct (p bs) as [[x rest]|] eqn:E; [|discriminate].
    destruct (p_repeat n p rest) as [[xs' rest']|] eqn:E2; [|discriminate].
    injection H as Hx Hr. subst xs r. apply Hp in E. apply IH in E2. destruct E2 as [E2 E3].
    split; [lia | cbn [length]; lia].
Qed.

Lemma p_chunk_consumes : forall bs x r, p_chunk bs = Some (x, r) -> (16 + length r <= length bs)%nat.
Proof.
  intros bs x r H. unfold p_chunk in H.
  destruct (p_le 8 bs) as [[a r1]|] eqn:E1; [|discriminate].
  destruct (p_le 8 r1) as [[b r2]|] eqn:E2; [|discriminate].
  injection H as _ Hr. subst r2. apply p_le_consumes in E1. apply p_le_consumes in E2. lia.
Qed.

(* gzi: accepted iff the file is exactly the count and that many 16-byte entries *)
Theorem read_gzi_bounded : forall bs l, read_gzi bs = Some l -> length bs = (8 + 16 * length l)%nat.
Proof.
  intros bs l H. unfold read_gzi in H. destruct (p_le 8 bs) as [[n r]|] eqn:E; [|discriminate].
  destruct (p_repeat (N.to_nat n) p_chunk r) as [[l' rest]|] eqn:E2; [|discriminate].
  destruct rest as [|x t]; [|discriminate]. injection H as Hl. subst l'.
  apply p_le_consumes in E.
  assert (X : forall n bs xs r, p_repeat n p_chunk bs = Some (xs, r) ->
              length bs = (16 * n + length r)%nat /\ length xs = n).
  { clear. induction n as [|n IH]; intros bs xs r H; cbn [p_repeat] in H.
    - injection H as Hx Hr. subst xs r. split; [lia|reflexivity].
    - destruct (p_chunk bs) as [[x rest]|] eqn:E; [|discriminate].
      destruct (p_repeat n p_chunk rest) as [[xs' rest']|] eqn:E2; [|discriminate].
      injection H as Hx Hr. subst xs r. apply IH in E2. destruct E2 as [E2 E3].
      unfold p_chunk in E. destruct (p_le 8 bs) as [[a r1]|] eqn:A1; [|discriminate].
      destruct (p_le 8 r1) as [[b r2]|] eqn:A2; [|discriminate].
      injection E as _ Er. subst r2. apply p_le_consumes in A1. apply p_le_consumes in A2.
      split; [lia | cbn [length]; lia]. }
  apply X in E2. destruct E2 as [E2 E3]. cbn [length] in E2. unfold chunkp in *. lia.
Qed.

Lemma p_chunks_consumes : forall bs cs r, p_chunks bs = Some (cs, r) ->
  (4 + 16 * length cs + length r <= length bs)%nat.
Proof.
  intros bs cs r H. unfold p_chunks in H. destruct (p_le 4 bs) as [[n r0]|] eqn:E; [|discriminate].
  destruct (n <? 2147483648); [|discriminate].
  apply (p_repeat_consumes _ p_chunk 16%nat p_chunk_consumes) in H. apply p_le_consumes in E. lia.
Qed.

Lemma p_intervals_consumes : forall bs iv r, p_intervals bs = Some (iv, r) ->
  (4 + 8 * length iv + length r <= length bs)%nat.
Proof.
  intros bs iv r H. unfold p_intervals in H. destruct (p_le 4 bs) as [[n r0]|] eqn:E; [|discriminate].
  apply (p_repeat_consumes _ (p_le 8) 8%nat) in H.
  - apply p_le_consumes in E. lia.
  - intros bs' x r' Hp. apply p_le_consumes in Hp. lia.
Qed.

Lemma p_metadata_consumes : forall bs m r, p_metadata_body bs = Some (m, r) -> (36 + length r <= length bs)%nat.
Proof.
  intros bs m r H. unfold p_metadata_body in H.
  destruct (p_le 4 bs) as [[n r0]|] eqn:E0; [|discriminate]. destruct (n =? 2); [|discriminate].
  destruct (p_le 8 r0) as [[a r1]|] eqn:E1; [|discriminate].
  destruct (p_le 8 r1) as [[b r2]|] eqn:E2; [|discriminate].
  destruct (p_le 8 r2) as [[c r3]|] eqn:E3; [|discriminate].
  destruct (p_le 8 r3) as [[d r4]|] eqn:E4; [|discriminate].
  injection H as _ Hr. subst r4.
  apply p_le_consumes in E0, E1, E2, E3, E4. lia.
Qed.

Definition chunks_of (bins : list binp) : nat := fold_right (fun b s => (length (snd b) + s)%nat) O bins.

Lemma chunks_of_rev_cons : forall acc b, chunks_of (rev (b :: acc)) = (length (snd b) + chunks_of (rev acc))%nat.
Proof.
  intros acc b. cbn [rev]. unfold chunks_of. rewrite fold_right_app. cbn [fold_right].
  generalize (rev acc). induction l as [|x l IH]; cbn [fold_right]; [lia|]. rewrite IH. lia.
Qed.

(* every bin costs >= 8 bytes and every chunk 16: counts are bounded by the input *)
Lemma p_bins_loop_consumes : forall n acc m bs bins m' r,
  p_bins_loop n acc m bs = Some ((bins, m'), r) ->
  (8 * n + 16 * chunks_of bins + length r <= length bs + 16 * chunks_of (rev acc))%nat
  /\ (length bins <= length acc + n)%nat.
Proof.
  induction n as [|n IH]; intros acc m bs bins m' r H; cbn [p_bins_loop] in H.
  - injection H as Hb _ Hr. subst bins r. rewrite rev_length. lia.
  - destruct (p_le 4 bs) as [[id r0]|] eqn:E; [|discriminate]. apply p_le_consumes in E.
    destruct (id =? bai_metadata_id).
    + destruct (p_metadata_body r0) as [[md r1]|] eqn:E1; [|discriminate].
      destruct m; [discriminate|]. apply p_metadata_consumes in E1. apply IH in H. lia.
    + destruct (p_chunks r0) as [[cs r1]|] eqn:E1; [|discriminate].
      destruct (existsb (fun b => fst b =? id) acc); [discriminate|].
      apply p_chunks_consumes in E1. apply IH in H. rewrite chunks_of_rev_cons in H.
      cbn [snd length] in H. lia.
Qed.

Definition ref_items (r : bai_ref) : nat :=
  (8 * length (br_bins r) + 16 * chunks_of (br_bins r) + 8 * length (br_intervals r))%nat.

Lemma p_bai_ref_consumes : forall bs x r, p_bai_ref bs = Some (x, r) ->
  (8 + length r <= length bs)%nat /\ (ref_items x + length r <= length bs)%nat.
Proof.
  intros bs x r H. unfold p_bai_ref in H.
  destruct (p_bins bs) as [[[bins m] r1]|] eqn:E; [|discriminate].
  destruct (p_intervals r1) as [[iv r2]|] eqn:E2; [|discriminate].
  injection H as Hx Hr. subst x r2. apply p_intervals_consumes in E2.
  unfold p_bins in E. destruct (p_le 4 bs) as [[n r0]|] eqn:E0; [|discriminate].
  apply p_le_consumes in E0. apply p_bins_loop_consumes in E. cbn [rev chunks_of fold_right length] in E.
  unfold ref_items. cbn [br_bins br_intervals]. lia.
Qed.

Fixpoint bai_items (refs : list bai_ref) : nat :=
  match refs with [] => O | r :: t => (ref_items r + bai_items t)%nat end.

Lemma p_refs_consumes : forall n bs refs r, p_repeat n p_bai_ref bs = Some (refs, r) ->
  (8 * n + length r <= length bs)%nat /\ (bai_items refs + length r <= length bs)%nat /\ length refs = n.
Proof.
  induction n as [|n IH]; intros bs refs r H; cbn [p_repeat] in H.
  - injection H as Hx Hr. subst refs r. cbn [bai_items length]. lia.
  - destruct (p_bai_ref bs) as [[x rest]|] eqn:E; [|discriminate].
    destruct (p_repeat n p_bai_ref rest) as [[xs rest']|] eqn:E2; [|discriminate].
    injection H as Hx Hr. subst refs r. apply p_bai_ref_consumes in E. apply IH in E2.
    cbn [bai_items length]. lia.
Qed.

(* BAI: whatever the n_ref / n_bin / n_chunk / n_intv fields say, an accepted index holds at most
   (input length) / 8 references, bins and intervals and (input length) / 16 chunks *)
Lemma read_bai_has_magic : forall bs i, read_bai bs = Some i -> exists r0, bs = bai_magic ++ r0.
Proof.
  intros bs i H. unfold read_bai in H.
  destruct bs as [|b0 [|b1 [|b2 [|b3 r0]]]];
    repeat (match type of H with context [match ?p with _ => _ end] => is_var p; destruct p end;
            try discriminate).
  - discriminate.
  - exists r0. reflexivity.
Qed.

Theorem read_bai_bounded : forall bs i, read_bai bs = Some i ->
  (8 + 8 * length (bi_refs i) <= length bs)%nat /\ (8 + bai_items (bi_refs i) <= length bs)%nat.
Proof.
  intros bs i H. destruct (read_bai_has_magic bs i H) as [r0 E]. subst bs.
  unfold read_bai, bai_magic in H. cbn [app] in H.
  destruct (p_le 4 r0) as [[n r1]|] eqn:E0; [|discriminate].
  destruct (p_repeat (N.to_nat n) p_bai_ref r1) as [[refs r2]|] eqn:E1; [|discriminate].
  assert (E2 : bi_refs i = refs).
  { destruct (p_le 8 r2) as [[c r3]|]; injection H as Hi; subst i; reflexivity. }
  apply p_le_consumes in E0. apply p_refs_consumes in E1. rewrite E2.
  unfold bai_magic. cbn [app length]. lia.
Qed.
