(* C15 totality, CSI and tabix index readers (NV.Index.CsiLayout, owned by C17/C04/C13 and tied to
   noodles-csi / noodles-tabix io/reader/index/** by their correspondence checks).

   The readers are structurally recursive option parsers (None = any io::Error), so "Ok or Err"
   holds by construction; what a hostile index can still attempt is a COUNT (n_ref, n_bin,
   n_chunk, n_intv, l_aux, l_nm) far larger than the file.  For EVERY byte string: an index is
   accepted only if the input really holds 4 bytes per CSI reference (8 per tabix reference),
   16 per CSI bin (8 per tabix bin), 16 per chunk and 8 per tabix interval -- the decoded item
   counts are bounded by the input length.
   Proofs only; no new model function. *)
From Coq Require Import List Arith NArith Bool Lia.
From Coq Require Import ZifyBool ZifyNat ZifyN.
From NV Require Import Base.LE Index.Bins Index.Chunks Index.Layout Index.CsiLayout Hostile.TotalBin.
Import ListNotations.
Open Scope N_scope.

Lemma p_i32_consumes : forall bs n r, p_i32_nonneg bs = Some (n, r) -> length bs = (4 + length r)%nat.
Proof.
  intros bs n r H. unfold p_i32_nonneg in H. destruct (p_le 4 bs) as [[v r0]|] eqn:E; [|discriminate].
  destruct (v <? 2147483648); [|discriminate]. injection H as _ Hr. subst r0.
  exact (p_le_consumes _ _ _ _ E).
Qed.

Lemma p_col_consumes : forall bs n r, p_col bs = Some (n, r) -> length bs = (4 + length r)%nat.
Proof.
  intros bs n r H. unfold p_col in H. destruct (p_le 4 bs) as [[v r0]|] eqn:E; [|discriminate].
  destruct ((1 <=? v) && (v <? 2147483648)); [|discriminate]. injection H as _ Hr. subst r0.
  exact (p_le_consumes _ _ _ _ E).
Qed.

Lemma p_format_consumes : forall bs f r, p_format bs = Some (f, r) -> length bs = (4 + length r)%nat.
Proof.
  intros bs f r H. unfold p_format in H. destruct (p_le 4 bs) as [[v r0]|] eqn:E; [|discriminate].
  apply p_le_consumes in E. cbn zeta in H.
  repeat match type of H with (if ?c then _ else _) = _ => destruct c end; try discriminate;
    injection H as _ Hr; subst r0; exact E.
Qed.

Lemma p_end_consumes : forall f bg bs e r, p_end f bg bs = Some (e, r) -> length bs = (4 + length r)%nat.
Proof.
  intros f bg bs e r H. unfold p_end in H. destruct (is_samvcf f).
  - destruct (p_le 4 bs) as [[v r0]|] eqn:E; [|discriminate]. destruct (v =? 0); [|discriminate].
    injection H as _ Hr. subst r0. exact (p_le_consumes _ _ _ _ E).
  - destruct (p_col bs) as [[i r0]|] eqn:E; [|discriminate]. apply p_col_consumes in E.
    destruct (i =? bg); injection H as _ Hr; subst r0; exact E.
Qed.

Lemma p_names_consumes : forall bs nm r, p_names bs = Some (nm, r) -> (4 + length r <= length bs)%nat.
Proof.
  intros bs nm r H. unfold p_names in H. destruct (p_i32_nonneg bs) as [[l r0]|] eqn:E; [|discriminate].
  apply p_i32_consumes in E.
  (* whatever checks follow, the rest is a skipn of what followed l_nm *)
  repeat match type of H with
         | (match ?x with _ => _ end) = _ => destruct x; try discriminate H
         | (if ?c then _ else _) = _ => destruct c; try discriminate H
         end.
  injection H as _ Hr. subst r. rewrite skipn_length. lia.
Qed.

(* the tabix header: six 4-byte fields, l_nm and at most the names block *)
Lemma p_header_consumes : forall bs h r, p_header bs = Some (h, r) -> (28 + length r <= length bs)%nat.
Proof.
  intros bs h r H. unfold p_header in H.
  destruct (p_format bs) as [[f r1]|] eqn:E1; [|discriminate].
  destruct (p_col r1) as [[sq r2]|] eqn:E2; [|discriminate].
  destruct (p_col r2) as [[bg r3]|] eqn:E3; [|discriminate].
  destruct (p_end f bg r3) as [[en r4]|] eqn:E4; [|discriminate].
  destruct (p_le 4 r4) as [[mt r5]|] eqn:E5; [|discriminate].
  destruct (256 <=? mt); [discriminate|].
  destruct (p_i32_nonneg r5) as [[sk r6]|] eqn:E6; [|discriminate].
  destruct (p_names r6) as [[nm r7]|] eqn:E7; [|discriminate].
  injection H as _ Hr. subst r7.
  apply p_format_consumes in E1. apply p_col_consumes in E2, E3. apply p_end_consumes in E4.
  apply p_le_consumes in E5. apply p_i32_consumes in E6. apply p_names_consumes in E7. lia.
Qed.

(* ---- tabix ---- *)
Lemma p_tbi_ref_consumes : forall bs x r, p_tbi_ref bs = Some (x, r) ->
  (8 + length r <= length bs)%nat /\ (ref_items x + length r <= length bs)%nat.
Proof.
  intros bs x r H. unfold p_tbi_ref in H.
  destruct (p_i32_nonneg bs) as [[n r0]|] eqn:E0; [|discriminate].
  destruct (p_bins_loop (N.to_nat n) [] None r0) as [[bm r1]|] eqn:E1; [|discriminate].
  destruct (p_i32_nonneg r1) as [[k r2]|] eqn:E2; [|discriminate].
  destruct (p_repeat (N.to_nat k) (p_le 8) r2) as [[iv r3]|] eqn:E3; [|discriminate].
  injection H as Hx Hr. subst x r3. destruct bm as [bins m].
  apply p_i32_consumes in E0, E2. apply p_bins_loop_consumes in E1.
  apply (p_repeat_consumes _ (p_le 8) 8%nat) in E3;
    [|intros b v q Hq; apply p_le_consumes in Hq; lia].
  cbn [rev chunks_of fold_right length] in E1. unfold ref_items. cbn [br_bins br_intervals fst snd]. lia.
Qed.

Lemma p_tbi_refs_consumes : forall n bs refs r, p_repeat n p_tbi_ref bs = Some (refs, r) ->
  (8 * n + length r <= length bs)%nat /\ (bai_items refs + length r <= length bs)%nat /\ length refs = n.
Proof.
  induction n as [|n IH]; intros bs refs r H; cbn [p_repeat] in H.
  - injection H as Hx Hr. subst refs r. cbn [bai_items length]. lia.
  - destruct (p_tbi_ref bs) as [[x rest]|] eqn:E; [|discriminate].
    destruct (p_repeat n p_tbi_ref rest) as [[xs rest']|] eqn:E2; [|discriminate].
    injection H as Hx Hr. subst refs r. apply p_tbi_ref_consumes in E. apply IH in E2.
    cbn [bai_items length]. lia.
Qed.

Lemma read_tbi_has_magic : forall bs i, read_tbi bs = Some i -> exists r0, bs = tbi_magic ++ r0.
Proof.
  intros bs i H. unfold read_tbi in H.
  destruct bs as [|b0 [|b1 [|b2 [|b3 r0]]]];
    repeat (match type of H with context [match ?p with _ => _ end] => is_var p; destruct p end;
            try discriminate).
  all: try discriminate.
  exists r0. reflexivity.
Qed.

Theorem read_tbi_bounded : forall bs i, read_tbi bs = Some i ->
  (36 + 8 * length (ti_refs i) <= length bs)%nat /\ (36 + bai_items (ti_refs i) <= length bs)%nat.
Proof.
  intros bs i H. destruct (read_tbi_has_magic bs i H) as [r0 E]. subst bs.
  unfold read_tbi, tbi_magic in H. cbn [app] in H.
  destruct (p_i32_nonneg r0) as [[n r1]|] eqn:E0; [|discriminate].
  destruct (p_header r1) as [[h r2]|] eqn:E1; [|discriminate].
  destruct (p_repeat (N.to_nat n) p_tbi_ref r2) as [[refs r3]|] eqn:E2; [|discriminate].
  injection H as Hi. subst i. cbn [ti_refs].
  apply p_i32_consumes in E0. apply p_header_consumes in E1. apply p_tbi_refs_consumes in E2.
  unfold tbi_magic. cbn [app length]. lia.
Qed.

(* ---- CSI ---- *)
Definition csi_chunks (bins : list csi_bin) : nat :=
  fold_right (fun b s => (length (snd b) + s)%nat) O bins.

Lemma csi_chunks_rev_cons : forall acc b,
  csi_chunks (rev (b :: acc)) = (length (snd b) + csi_chunks (rev acc))%nat.
Proof.
  intros acc b. cbn [rev]. unfold csi_chunks. rewrite fold_right_app. cbn [fold_right].
  generalize (rev acc). induction l as [|x l IH]; cbn [fold_right]; [lia|]. rewrite IH. lia.
Qed.

Lemma p_csi_bins_loop_consumes : forall n mid acc m bs bins m' r,
  p_csi_bins_loop n mid acc m bs = Some ((bins, m'), r) ->
  (16 * n + 16 * csi_chunks bins + length r <= length bs + 16 * csi_chunks (rev acc))%nat
  /\ (length bins <= length acc + n)%nat.
Proof.
  induction n as [|n IH]; intros mid acc m bs bins m' r H; cbn [p_csi_bins_loop] in H.
  - injection H as Hb _ Hr. subst bins r. rewrite rev_length. lia.
  - destruct (p_le 4 bs) as [[id r0]|] eqn:E; [|discriminate]. apply p_le_consumes in E.
    destruct (p_le 8 r0) as [[lo r1]|] eqn:E0; [|discriminate]. apply p_le_consumes in E0.
    destruct (id =? mid).
    + destruct (p_metadata_body r1) as [[md r2]|] eqn:E1; [|discriminate].
      destruct m; [discriminate|]. apply p_metadata_consumes in E1. apply IH in H. lia.
    + destruct (p_chunks r1) as [[cs r2]|] eqn:E1; [|discriminate].
      destruct (existsb (fun b => fst (fst b) =? id) acc); [discriminate|].
      apply p_chunks_consumes in E1. apply IH in H. rewrite csi_chunks_rev_cons in H.
      cbn [snd length] in H. unfold Chunks.chunk, chunkp in *. lia.
Qed.

(* one CSI reference: n_bin, then >= 16 bytes per bin and 16 per chunk *)
Lemma p_csi_ref_consumes : forall d bs x r, p_csi_ref d bs = Some (x, r) ->
  (4 + 16 * length (cr_bins x) + length r <= length bs)%nat.
Proof.
  intros d bs x r H. unfold p_csi_ref in H.
  destruct (p_i32_nonneg bs) as [[n r0]|] eqn:E0; [|discriminate].
  destruct (p_csi_bins_loop (N.to_nat n) (metadata_id d) [] None r0) as [[bm r1]|] eqn:E1; [|discriminate].
  injection H as Hx Hr. subst x r1. destruct bm as [bins m].
  apply p_i32_consumes in E0.
  (* every accepted bin was counted by n, and n bins cost 16 n bytes *)
  assert (G : forall n mid acc m bs bins m' r,
            p_csi_bins_loop n mid acc m bs = Some ((bins, m'), r) ->
            (16 * length bins + length r <= length bs + 16 * length acc)%nat).
  { clear. induction n as [|n IH]; intros mid acc m bs bins m' r H; cbn [p_csi_bins_loop] in H.
    - injection H as Hb _ Hr. subst bins r. rewrite rev_length. lia.
    - destruct (p_le 4 bs) as [[id r0]|] eqn:E; [|discriminate]. apply p_le_consumes in E.
      destruct (p_le 8 r0) as [[lo r1]|] eqn:E0; [|discriminate]. apply p_le_consumes in E0.
      destruct (id =? mid).
      + destruct (p_metadata_body r1) as [[md r2]|] eqn:E1; [|discriminate].
        destruct m; [discriminate|]. apply p_metadata_consumes in E1. apply IH in H. lia.
      + destruct (p_chunks r1) as [[cs r2]|] eqn:E1; [|discriminate].
        destruct (existsb (fun b => fst (fst b) =? id) acc); [discriminate|].
        apply p_chunks_consumes in E1. apply IH in H. cbn [length] in H. lia. }
  apply G in E1. cbn [cr_bins fst length] in *. rewrite map_length. unfold csi_bin in *. lia.
Qed.

Lemma p_csi_refs_consumes : forall d n bs refs r, p_repeat n (p_csi_ref d) bs = Some (refs, r) ->
  (4 * n + length r <= length bs)%nat /\ length refs = n.
Proof.
  intros d n bs refs r H.
  apply (p_repeat_consumes _ (p_csi_ref d) 4%nat) in H; [lia|].
  intros b x q Hq. apply p_csi_ref_consumes in Hq. lia.
Qed.

Lemma p_aux_consumes : forall bs h r, p_aux bs = Some (h, r) -> (4 + length r <= length bs)%nat.
Proof.
  intros bs h r H. unfold p_aux in H. destruct (p_i32_nonneg bs) as [[l r0]|] eqn:E; [|discriminate].
  apply p_i32_consumes in E. destruct (0 <? l).
  - destruct (p_header (firstn (N.to_nat l) r0)) as [[hd rr]|] eqn:E1; [|discriminate].
    injection H as _ Hr. subst r. apply p_header_consumes in E1.
    rewrite app_length, skipn_length. rewrite firstn_length in E1. lia.
  - injection H as _ Hr. subst r0. lia.
Qed.

Lemma read_csi_has_magic : forall bs i, read_csi bs = Some i -> exists r0, bs = [67; 83; 73; 1] ++ r0.
Proof.
  intros bs i H. unfold read_csi in H.
  destruct bs as [|b0 [|b1 [|b2 [|b3 r0]]]];
    repeat (match type of H with context [match ?p with _ => _ end] => is_var p; destruct p end;
            try discriminate).
  all: try discriminate.
  exists r0. reflexivity.
Qed.

Theorem read_csi_bounded : forall bs i, read_csi bs = Some i ->
  (20 + 4 * length (ci_refs i) <= length bs)%nat /\
  ci_ms i <> 0 /\ (ci_depth i <= 10)%nat.
Proof.
  intros bs i H. destruct (read_csi_has_magic bs i H) as [r0 E]. subst bs.
  unfold read_csi in H. cbn [app] in H.
  destruct (p_le 4 r0) as [[ms r1]|] eqn:E0; [|discriminate]. destruct (256 <=? ms); [discriminate|].
  destruct (p_le 4 r1) as [[d r2]|] eqn:E1; [|discriminate]. destruct (256 <=? d); [discriminate|].
  destruct (scheme_ok ms d) eqn:S; cbn [negb] in H; [|discriminate].
  destruct (p_aux r2) as [[h r3]|] eqn:E2; [|discriminate].
  destruct (p_i32_nonneg r3) as [[n r4]|] eqn:E3; [|discriminate].
  destruct (p_repeat (N.to_nat n) (p_csi_ref (N.to_nat d)) r4) as [[refs r5]|] eqn:E4; [|discriminate].
  injection H as Hi. subst i. cbn [ci_refs ci_ms ci_depth].
  apply p_le_consumes in E0, E1. apply p_aux_consumes in E2. apply p_i32_consumes in E3.
  apply p_csi_refs_consumes in E4. unfold scheme_ok in S. cbn [app length]. lia.
Qed.

(* ---- fai / crai (NV.Index.TextIndex): the fuel of the line loop is never the reason ---- *)
From NV Require Import Index.TextIndex.

Lemma break_at_shorter : forall sep bs l r, break_at sep bs = (l, Some r) -> (length r < length bs)%nat.
Proof.
  induction bs as [|b t IH]; intros l r H; cbn [break_at] in H; [discriminate|].
  destruct (b =? sep).
  - injection H as _ Hr. subst r. cbn [length]. lia.
  - destruct (break_at sep t) as [l' r'] eqn:E. injection H as _ Hr. subst r'.
    specialize (IH l' r eq_refl). cbn [length]. lia.
Qed.

(* for either line reader: Strings (crai, UTF-8 checked) or bytes (fai, since 24986d3) *)
Theorem read_lines_gen_fuel : forall A (check : list N -> bool) (parse : list N -> option A) f1 f2 bs,
  (length bs < f1)%nat -> (length bs < f2)%nat ->
  read_lines_gen check f1 parse bs = read_lines_gen check f2 parse bs.
Proof.
  intros A check parse. induction f1 as [|f1 IH]; intros f2 bs H1 H2; [lia|].
  destruct f2 as [|f2]; [lia|]. cbn [read_lines_gen]. destruct bs as [|b t]; [reflexivity|].
  destruct (break_at LF (b :: t)) as [raw rest] eqn:E.
  destruct (check raw); [|reflexivity].
  destruct rest as [rest'|]; [|reflexivity].
  apply break_at_shorter in E.
  destruct (parse (strip_cr raw)) as [r|]; [|reflexivity].
  rewrite (IH f2 rest'); [reflexivity|lia|lia].
Qed.

Theorem read_lines_fuel : forall A (parse : list N -> option A) f1 f2 bs,
  (length bs < f1)%nat -> (length bs < f2)%nat ->
  read_lines f1 parse bs = read_lines f2 parse bs.
Proof. intros A parse. apply read_lines_gen_fuel. Qed.

(* read_fai / read_crai: any larger fuel gives the same index or the same failure *)
Theorem read_fai_fuel : forall f bs, (length bs < f)%nat -> read_lines_bytes f parse_fai_rec bs = read_fai bs.
Proof. intros f bs H. unfold read_fai, read_lines_bytes. apply read_lines_gen_fuel; lia. Qed.
Theorem read_crai_fuel : forall f bs, (length bs < f)%nat -> read_lines f parse_crai_rec bs = read_crai bs.
Proof. intros f bs H. unfold read_crai. apply read_lines_fuel; lia. Qed.
