(* C15 totality, CRAM framing side: the container / block / slice parsers modelled by C13
   (NV.Trunc.Cram, NV.Trunc.CramBlocks) and the byte-level index walk of C19 (NV.CramIdx.Bytes);
   the models are owned by C13 / C19 and tied to the crates by their correspondence checks.

   These parsers have a three-way result (POk / PErr UnexpectedEof / PErr InvalidData) -- there is
   no panic outcome, which is faithful: the Rust reads with read_exact / split_off / try_from only.
   What a hostile input can still attack is (a) a COUNT field (landmarks, content ids, blocks of a
   slice) that drives a loop or an allocation, (b) a LENGTH field (container body, block data)
   and (c) the container loop itself.  For EVERY byte string (and every CRC function, every codec
   for compressed blocks) this file proves:
   - a parser that answers POk consumed what it declares: the count fields are bounded by the
     bytes present (one byte per landmark / content id, nine bytes per block of a slice), the
     container body and the block data are really there (no amplification);
   - no parser ever answers PErr OutOfFuel (the third error kind of the shared [ekind] type);
   - the container loop of the reader (read_stream over cram_read_container) and of the indexer /
     query (CramIdx.Bytes.walk) never ends because of the model's fuel: every container consumes
     at least 16 bytes, the results are independent of the fuel once it exceeds the input length.
   Proofs only; no new model function. *)
From Coq Require Import List Arith NArith ZArith Bool Lia.
From Coq Require Import ZifyBool ZifyNat ZifyN.
From NV Require Import Base.LE Trunc.Stream Trunc.StreamProofs Cram.Bytes Cram.Itf8 Cram.Ltf8 Bgzf.Crc32
  Trunc.Cram Trunc.CramBlocks.
From NV Require Hostile.TotalBin CramIdx.Bytes CramIdx.Multi CramIdx.Crai.
Import ListNotations.
Open Scope N_scope.

(* ---- a parser that succeeds consumed at least k bytes; a parser never reports OutOfFuel ---- *)

Definition consumes {A : Type} (k : nat) (p : rparser A) : Prop :=
  forall bs x r, p bs = POk x r -> (k + length r <= length bs)%nat.

Definition nofuel {A : Type} (p : rparser A) : Prop := forall bs, p bs <> PErr OutOfFuel.

Lemma consumes_weaken : forall A (p : rparser A) k k', (k' <= k)%nat -> consumes k p -> consumes k' p.
Proof. intros A p k k' Hk H bs x r E. specialize (H bs x r E). lia. Qed.

Lemma consumes_ret : forall A (x : A), consumes 0 (r_ret x).
Proof. intros A x bs y r E. unfold r_ret in E. injection E as _ Hr. subst r. lia. Qed.

Lemma consumes_fail : forall A e k, consumes k (@r_fail A e).
Proof. intros A e k bs x r E. discriminate E. Qed.

Lemma consumes_bind : forall A B (p : rparser A) (f : A -> rparser B) a b,
  consumes a p -> (forall x, consumes b (f x)) -> consumes (a + b) (r_bind p f).
Proof.
  intros A B p f a b Hp Hf bs y r E. unfold r_bind in E.
  destruct (p bs) as [x r1|e] eqn:E1; [|discriminate E].
  specialize (Hp bs x r1 E1). specialize (Hf x r1 y r E). lia.
Qed.

Lemma consumes_if : forall A (c : bool) (p q : rparser A) k,
  consumes k p -> consumes k q -> consumes k (if c then p else q).
Proof. intros A c p q k Hp Hq. destruct c; assumption. Qed.

Lemma nofuel_ret : forall A (x : A), nofuel (r_ret x).
Proof. intros A x bs. discriminate. Qed.

Lemma nofuel_fail : forall A e, e <> OutOfFuel -> nofuel (@r_fail A e).
Proof. intros A e He bs E. unfold r_fail in E. injection E as E. contradiction. Qed.

Lemma nofuel_bind : forall A B (p : rparser A) (f : A -> rparser B),
  nofuel p -> (forall x, nofuel (f x)) -> nofuel (r_bind p f).
Proof.
  intros A B p f Hp Hf bs E. unfold r_bind in E.
  destruct (p bs) as [x r1|e] eqn:E1; [exact (Hf x r1 E)|].
  apply (Hp bs). rewrite E1. injection E as E. subst e. reflexivity.
Qed.

Lemma nofuel_if : forall A (c : bool) (p q : rparser A), nofuel p -> nofuel q -> nofuel (if c then p else q).
Proof. intros A c p q Hp Hq. destruct c; assumption. Qed.

(* ---- the primitive readers ---- *)

Lemma r_take_exact : forall n bs h r, r_take n bs = POk h r ->
  length h = N.to_nat n /\ (length h + length r = length bs)%nat.
Proof.
  intros n bs h r E. unfold r_take in E. rewrite take_spec in E.
  destruct (N.of_nat (length bs) <? n) eqn:El; [discriminate E|].
  injection E as Hh Hr. subst h r. rewrite firstn_length, skipn_length. lia.
Qed.

Lemma consumes_take : forall n, consumes (N.to_nat n) (r_take n).
Proof. intros n bs h r E. destruct (r_take_exact n bs h r E) as [H1 H2]. lia. Qed.

Lemma nofuel_take : forall n, nofuel (r_take n).
Proof. intros n bs E. unfold r_take in E. destruct (take n bs) as [[h r]|]; discriminate E. Qed.

Lemma consumes_u32le : consumes 4 r_u32le.
Proof.
  unfold r_u32le. apply (consumes_bind _ _ _ _ 4%nat 0%nat); [exact (consumes_take 4)|].
  intro h. apply consumes_ret.
Qed.

Lemma nofuel_u32le : nofuel r_u32le.
Proof. unfold r_u32le. apply nofuel_bind; [apply nofuel_take|]. intro h. apply nofuel_ret. Qed.

Lemma consumes_len32 : consumes 4 r_len32.
Proof.
  unfold r_len32. apply (consumes_bind _ _ _ _ 4%nat 0%nat); [exact consumes_u32le|].
  intro u. apply consumes_if; [apply consumes_ret | apply consumes_fail].
Qed.

Lemma nofuel_len32 : nofuel r_len32.
Proof.
  unfold r_len32. apply nofuel_bind; [exact nofuel_u32le|]. intro u.
  apply nofuel_if; [apply nofuel_ret | apply nofuel_fail; discriminate].
Qed.

Lemma consumes_itf8 : consumes 1 r_itf8.
Proof.
  intros bs x r E. unfold r_itf8 in E. destruct (read_itf8 bs) as [[v r']|] eqn:E1; [|discriminate E].
  injection E as _ Hr. subst r'. pose proof (NV.Hostile.TotalBin.read_itf8_progress bs v r E1). lia.
Qed.

Lemma nofuel_itf8 : nofuel r_itf8.
Proof. intros bs E. unfold r_itf8 in E. destruct (read_itf8 bs) as [[v r']|]; discriminate E. Qed.

Lemma consumes_ltf8 : consumes 1 r_ltf8.
Proof.
  intros bs x r E. unfold r_ltf8 in E. destruct (read_ltf8 bs) as [[v r']|] eqn:E1; [|discriminate E].
  injection E as _ Hr. subst r'. pose proof (NV.Hostile.TotalBin.read_ltf8_progress bs v r E1). lia.
Qed.

Lemma nofuel_ltf8 : nofuel r_ltf8.
Proof. intros bs E. unfold r_ltf8 in E. destruct (read_ltf8 bs) as [[v r']|]; discriminate E. Qed.

Lemma consumes_itf8_as : consumes 1 r_itf8_as.
Proof.
  unfold r_itf8_as. apply (consumes_bind _ _ _ _ 1%nat 0%nat); [exact consumes_itf8|].
  intro v. apply consumes_if; [apply consumes_fail | apply consumes_ret].
Qed.

Lemma nofuel_itf8_as : nofuel r_itf8_as.
Proof.
  unfold r_itf8_as. apply nofuel_bind; [exact nofuel_itf8|]. intro v.
  apply nofuel_if; [apply nofuel_fail; discriminate | apply nofuel_ret].
Qed.

Lemma consumes_ltf8_as : consumes 1 r_ltf8_as.
Proof.
  unfold r_ltf8_as. apply (consumes_bind _ _ _ _ 1%nat 0%nat); [exact consumes_ltf8|].
  intro v. apply consumes_if; [apply consumes_fail | apply consumes_ret].
Qed.

Lemma nofuel_ltf8_as : nofuel r_ltf8_as.
Proof.
  unfold r_ltf8_as. apply nofuel_bind; [exact nofuel_ltf8|]. intro v.
  apply nofuel_if; [apply nofuel_fail; discriminate | apply nofuel_ret].
Qed.

(* ---- a count-driven loop: n items accepted only with k bytes for each ---- *)

Theorem r_repeat_bounded : forall A (p : rparser A) k, consumes k p ->
  forall n bs xs r, r_repeat n p bs = POk xs r -> length xs = n /\ (k * n + length r <= length bs)%nat.
Proof.
  intros A p k Hp n. induction n as [|n IH]; intros bs xs r E.
  - cbn [r_repeat] in E. unfold r_ret in E. injection E as Hx Hr. subst xs r. split; [reflexivity|lia].
  - cbn [r_repeat] in E. unfold r_bind in E.
    destruct (p bs) as [x r1|e] eqn:E1; [|discriminate E].
    destruct (r_repeat n p r1) as [xs' r2|e] eqn:E2; [|discriminate E].
    unfold r_ret in E. injection E as Hx Hr. subst xs r.
    specialize (Hp bs x r1 E1). destruct (IH r1 xs' r2 E2) as [H1 H2].
    split; [cbn [length]; lia | nia].
Qed.

Lemma nofuel_repeat : forall A (p : rparser A) n, nofuel p -> nofuel (r_repeat n p).
Proof.
  intros A p n Hp. induction n as [|n IH]; cbn [r_repeat]; [apply nofuel_ret|].
  apply nofuel_bind; [exact Hp|]. intro x. apply nofuel_bind; [exact IH|]. intro xs. apply nofuel_ret.
Qed.

(* read_landmarks: the count byte(s) and one byte at least per landmark *)
Theorem r_landmarks_bounded : forall bs l r,
  r_landmarks bs = POk l r -> (1 + length l + length r <= length bs)%nat.
Proof.
  intros bs l r E. unfold r_landmarks, r_bind in E.
  destruct (r_itf8_as bs) as [n r1|e] eqn:E1; [|discriminate E].
  pose proof (consumes_itf8_as bs n r1 E1) as H1.
  destruct (r_repeat_bounded _ _ 1%nat consumes_itf8_as _ _ _ _ E) as [H2 H3]. lia.
Qed.

Lemma nofuel_landmarks : nofuel r_landmarks.
Proof.
  unfold r_landmarks. apply nofuel_bind; [exact nofuel_itf8_as|]. intro n.
  apply nofuel_repeat. exact nofuel_itf8_as.
Qed.

(* ---- container headers ---- *)

(* 4 (length) + 3 (reference context) + 4 (record count, counter, bases, block count) + 1 (landmark
   count) = 12 bytes at least, plus one per landmark *)
Theorem dc_fields_bounded : forall bs h r,
  dc_fields bs = POk h r -> (12 + length (ch_landmarks h) + length r <= length bs)%nat.
Proof.
  intros bs h r E. unfold dc_fields, r_bind in E.
  destruct (r_len32 bs) as [len r1|e] eqn:E1; [|discriminate E].
  destruct (r_itf8 r1) as [rid r2|e] eqn:E2; [|discriminate E].
  destruct (r_itf8 r2) as [start r3|e] eqn:E3; [|discriminate E].
  destruct (r_itf8 r3) as [span r4|e] eqn:E4; [|discriminate E].
  destruct (negb (ctx_ok rid start span)); [discriminate E|].
  destruct (r_itf8_as r4) as [nrec r5|e] eqn:E5; [|discriminate E].
  destruct (r_ltf8_as r5) as [counter r6|e] eqn:E6; [|discriminate E].
  destruct (r_ltf8_as r6) as [bases r7|e] eqn:E7; [|discriminate E].
  destruct (r_itf8_as r7) as [nblocks r8|e] eqn:E8; [|discriminate E].
  destruct (r_landmarks r8) as [lms r9|e] eqn:E9; [|discriminate E].
  unfold r_ret in E. injection E as Hh Hr. subst h r. cbn [ch_landmarks].
  pose proof (consumes_len32 _ _ _ E1). pose proof (consumes_itf8 _ _ _ E2).
  pose proof (consumes_itf8 _ _ _ E3). pose proof (consumes_itf8 _ _ _ E4).
  pose proof (consumes_itf8_as _ _ _ E5). pose proof (consumes_ltf8_as _ _ _ E6).
  pose proof (consumes_ltf8_as _ _ _ E7). pose proof (consumes_itf8_as _ _ _ E8).
  pose proof (r_landmarks_bounded _ _ _ E9). lia.
Qed.

Lemma nofuel_dc_fields : nofuel dc_fields.
Proof.
  unfold dc_fields.
  apply nofuel_bind; [exact nofuel_len32|]. intro len.
  apply nofuel_bind; [exact nofuel_itf8|]. intro rid.
  apply nofuel_bind; [exact nofuel_itf8|]. intro start.
  apply nofuel_bind; [exact nofuel_itf8|]. intro span.
  apply nofuel_if; [apply nofuel_fail; discriminate|].
  apply nofuel_bind; [exact nofuel_itf8_as|]. intro nrec.
  apply nofuel_bind; [exact nofuel_ltf8_as|]. intro counter.
  apply nofuel_bind; [exact nofuel_ltf8_as|]. intro bases.
  apply nofuel_bind; [exact nofuel_itf8_as|]. intro nblocks.
  apply nofuel_bind; [exact nofuel_landmarks|]. intro lms. apply nofuel_ret.
Qed.

Lemma nofuel_hc_fields : nofuel hc_fields.
Proof.
  unfold hc_fields.
  apply nofuel_bind; [exact nofuel_len32|]. intro len.
  repeat (apply nofuel_bind; [first [exact nofuel_itf8 | exact nofuel_ltf8 | exact nofuel_itf8_as]|]; intro).
  apply nofuel_bind; [apply nofuel_repeat; exact nofuel_itf8|]. intro. apply nofuel_ret.
Qed.

Lemma consumes_repeat0 : forall A (p : rparser A) k n, consumes k p -> consumes 0 (r_repeat n p).
Proof.
  intros A p k n Hp bs xs r E. destruct (r_repeat_bounded _ p k Hp n bs xs r E) as [_ H]. lia.
Qed.

Lemma consumes_hc_fields : consumes 0 hc_fields.
Proof.
  unfold hc_fields.
  repeat (apply (consumes_bind _ _ _ _ 0%nat 0%nat);
          [first [ apply (consumes_weaken _ _ 4%nat); [lia | exact consumes_len32]
                 | apply (consumes_weaken _ _ 1%nat); [lia | first [exact consumes_itf8 | exact consumes_ltf8 | exact consumes_itf8_as]]
                 | apply (consumes_repeat0 _ _ 1%nat); exact consumes_itf8 ]
          | intro ]).
  apply consumes_ret.
Qed.

Section CRC.
  Variable crc : list N -> N.

  Lemma with_crc_consumes : forall A (p : rparser A) k, consumes k p -> consumes (k + 4) (with_crc crc p).
  Proof.
    intros A p k Hp bs y r E. unfold with_crc in E.
    destruct (p bs) as [x r1|e] eqn:E1; [|discriminate E].
    destruct (r_u32le r1) as [ex r2|e] eqn:E2; [|discriminate E].
    destruct (crc (firstn (length bs - length r1) bs) =? ex); [|discriminate E].
    injection E as _ Hr. subst r2. specialize (Hp bs x r1 E1). pose proof (consumes_u32le _ _ _ E2). lia.
  Qed.

  Lemma with_crc_nofuel : forall A (p : rparser A), nofuel p -> nofuel (with_crc crc p).
  Proof.
    intros A p Hp bs E. unfold with_crc in E.
    destruct (p bs) as [x r1|e] eqn:E1; [|apply (Hp bs); rewrite E1; injection E as E; subst e; reflexivity].
    destruct (r_u32le r1) as [ex r2|e] eqn:E2; [|apply (nofuel_u32le r1); rewrite E2; injection E as E; subst e; reflexivity].
    destruct (crc (firstn (length bs - length r1) bs) =? ex); discriminate E.
  Qed.

  (* container/header.rs read_header under the CrcReader: 16 bytes at least, one per landmark *)
  Theorem dc_read_header_bounded : forall bs h len r,
    dc_read_header crc bs = POk (h, len) r ->
    (16 + length (ch_landmarks h) + length r <= length bs)%nat /\ (len = 0 \/ len = ch_len h).
  Proof.
    intros bs h len r E. unfold dc_read_header, r_bind in E.
    destruct (with_crc crc dc_fields bs) as [[h' c] r1|e] eqn:E1; [|discriminate E].
    unfold r_ret in E. cbn [fst snd] in E. injection E as Hh Hl Hr. subst h' r1.
    split.
    - unfold with_crc in E1.
      destruct (dc_fields bs) as [x r1|e] eqn:E2; [|discriminate E1].
      destruct (r_u32le r1) as [ex r2|e] eqn:E3; [|discriminate E1].
      destruct (crc (firstn (length bs - length r1) bs) =? ex); [|discriminate E1].
      injection E1 as Hx _ Hr. subst x r2.
      pose proof (dc_fields_bounded _ _ _ E2). pose proof (consumes_u32le _ _ _ E3). lia.
    - destruct (is_eof h c); [left|right]; symmetry; exact Hl.
  Qed.

  Lemma nofuel_dc_read_header : nofuel (dc_read_header crc).
  Proof.
    unfold dc_read_header. apply nofuel_bind; [apply with_crc_nofuel; exact nofuel_dc_fields|].
    intro hc. apply nofuel_ret.
  Qed.

  (* container.rs read_container: a container is accepted only with its whole declared body in the
     input (the EOF container / a zero-length one: with the 15 bytes the reader consumes) *)
  Theorem cram_parse_container_bounded : forall bs h b e r,
    cram_parse_container crc bs = POk (h, b, e) r ->
    (16 + length (ch_landmarks h) + length b + length r <= length bs)%nat /\
    (e = true -> length b = 15%nat) /\ (e = false -> N.of_nat (length b) = ch_len h /\ b <> []).
  Proof.
    intros bs h b e r E. unfold cram_parse_container, r_bind in E.
    destruct (dc_read_header crc bs) as [[h' len] r1|er] eqn:E1; [|discriminate E].
    destruct (dc_read_header_bounded _ _ _ _ E1) as [H1 H2]. cbn [fst snd] in E.
    destruct (len =? 0) eqn:El.
    - destruct (r_take eof_length r1) as [b' r2|er] eqn:E2; [|discriminate E].
      unfold r_ret in E. injection E as Hh Hb He Hr. subst h' b' e r2.
      destruct (r_take_exact _ _ _ _ E2) as [H3 H4]. unfold eof_length in H3.
      split; [lia|]. split; [intros _; lia | discriminate].
    - destruct (r_take len r1) as [b' r2|er] eqn:E2; [|discriminate E].
      unfold r_ret in E. injection E as Hh Hb He Hr. subst h' b' e r2.
      destruct (r_take_exact _ _ _ _ E2) as [H3 H4].
      split; [lia|]. split; [discriminate|]. intros _.
      assert (Hl : len = ch_len h) by (destruct H2 as [H2|H2]; [lia|exact H2]).
      split; [lia|]. intro Hb. subst b. cbn [length] in H3. lia.
  Qed.

  Lemma nofuel_cram_parse_container : nofuel (cram_parse_container crc).
  Proof.
    unfold cram_parse_container. apply nofuel_bind; [exact nofuel_dc_read_header|]. intro hl.
    apply nofuel_if; (apply nofuel_bind; [apply nofuel_take|]; intro b; apply nofuel_ret).
  Qed.

  (* one step of the container loop: an Item leaves a strictly shorter input, a Stop is never the
     model's fuel *)
  Theorem cram_read_container_step : forall bs,
    match cram_read_container crc bs with
    | Item (h, b) rest => (16 + length b + length rest <= length bs)%nat
    | Stop s => s <> Err OutOfFuel
    end.
  Proof.
    intro bs. unfold cram_read_container.
    destruct (cram_parse_container crc bs) as [[[h b] e] r|er] eqn:E.
    - destruct (cram_parse_container_bounded _ _ _ _ _ E) as [H1 _].
      destruct e; [discriminate | lia].
    - intro Hs. injection Hs as Hs. subst er. exact (nofuel_cram_parse_container bs E).
  Qed.
End CRC.

(* ---- the generic reader loop: progress makes the fuel irrelevant ---- *)

Section Loop.
  Context {A : Type}.
  Variable rd : list N -> step A.
  Hypothesis rd_progress : forall bs x rest, rd bs = Item x rest -> (length rest < length bs)%nat.

  Lemma read_all_fuel : forall f1 f2 bs, (length bs < f1)%nat -> (length bs < f2)%nat ->
    read_all rd f1 bs = read_all rd f2 bs.
  Proof.
    induction f1 as [|f1 IH]; intros f2 bs H1 H2; [lia|].
    destruct f2 as [|f2]; [lia|]. cbn [read_all].
    destruct (rd bs) as [x rest|s] eqn:E; [|reflexivity].
    pose proof (rd_progress bs x rest E) as Hp.
    rewrite (IH f2 rest) by lia. reflexivity.
  Qed.

  Hypothesis rd_nofuel : forall bs, rd bs <> Stop (Err OutOfFuel).

  Lemma read_all_no_fuel : forall f bs, (length bs < f)%nat -> snd (read_all rd f bs) <> Err OutOfFuel.
  Proof.
    induction f as [|f IH]; intros bs H; [lia|]. cbn [read_all].
    destruct (rd bs) as [x rest|s] eqn:E.
    - pose proof (rd_progress bs x rest E) as Hp. specialize (IH rest ltac:(lia)).
      destruct (read_all rd f rest) as [xs s]. exact IH.
    - cbn [snd]. intro Hs. subst s. exact (rd_nofuel bs E).
  Qed.

  Lemma read_all_items_bounded : forall f bs, (length (fst (read_all rd f bs)) <= length bs)%nat.
  Proof.
    induction f as [|f IH]; intro bs; [cbn; lia|]. cbn [read_all].
    destruct (rd bs) as [x rest|s] eqn:E; [|cbn; lia].
    pose proof (rd_progress bs x rest E) as Hp. specialize (IH rest).
    destruct (read_all rd f rest) as [xs s]. cbn [fst length] in *. lia.
  Qed.
End Loop.

(* Reader::read_header + Records: for every CRC function, every header-body decoder that does not
   itself report the model's fuel, every file: the reader ends with the containers read so far and
   Eof, UnexpectedEof or InvalidData; it returns at most |file| / 16 containers *)
Theorem cram_read_total : forall crc hdr_body file,
  (forall b, hdr_body b <> Some OutOfFuel) ->
  snd (snd (cram_read crc hdr_body file)) <> Err OutOfFuel /\
  (16 * length (fst (snd (cram_read crc hdr_body file))) <= length file)%nat.
Proof.
  intros crc hdr_body file Hb. unfold cram_read.
  destruct (r_bind read_file_definition (fun _ => read_header_container crc hdr_body) file) as [u r|e] eqn:E.
  - cbn [snd fst]. unfold read_stream. split.
    + apply read_all_no_fuel; [| |lia].
      * intros bs [h b] rest Hi. pose proof (cram_read_container_step crc bs) as Hs. rewrite Hi in Hs. lia.
      * intros bs Hi. pose proof (cram_read_container_step crc bs) as Hs. rewrite Hi in Hs. apply Hs. reflexivity.
    + assert (Hr : (length r <= length file)%nat).
      { unfold r_bind in E. destruct (read_file_definition file) as [x r1|e1] eqn:E1; [|discriminate E].
        unfold read_header_container, r_bind in E.
        destruct (hc_read_header crc r1) as [len r2|e2] eqn:E2; [|discriminate E].
        destruct (hdr_body (firstn (N.to_nat len) r2)); [discriminate E|].
        injection E as _ Hr. subst r. rewrite skipn_length.
        assert (H1 : (length r1 <= length file)%nat).
        { unfold read_file_definition, r_bind in E1.
          destruct (r_take 4 file) as [m r3|e3] eqn:E3; [|discriminate E1].
          destruct (bytes_eqb m cram_magic); [|discriminate E1].
          destruct (r_take 2 r3) as [v r4|e4] eqn:E4; [|discriminate E1].
          destruct (r_take 20 r4) as [id r5|e5] eqn:E5; [|discriminate E1].
          unfold r_ret in E1. injection E1 as _ Hr. subst r5.
          pose proof (consumes_take _ _ _ _ E3). pose proof (consumes_take _ _ _ _ E4).
          pose proof (consumes_take _ _ _ _ E5). lia. }
        assert (H2 : (length r2 <= length r1)%nat).
        { unfold hc_read_header, r_bind in E2.
          destruct (with_crc crc hc_fields r1) as [[l c] r6|e6] eqn:E6; [|discriminate E2].
          unfold r_ret in E2. injection E2 as _ Hr. subst r6.
          pose proof (with_crc_consumes crc _ hc_fields 0%nat) as Hc.
          pose proof consumes_hc_fields as H0.
          specialize (Hc H0 r1 (l, c) r2 E6). lia. }
        lia. }
      (* sharper: 16 bytes per container *)
      assert (Hk : forall f bs, (16 * length (fst (read_all (cram_read_container crc) f bs)) <= length bs)%nat).
      { induction f as [|f IH]; intro bs; [cbn; lia|]. cbn [read_all].
        pose proof (cram_read_container_step crc bs) as Hs.
        destruct (cram_read_container crc bs) as [[h b] rest|s]; [|cbn; lia].
        specialize (IH rest). destruct (read_all (cram_read_container crc) f rest) as [xs s].
        cbn [fst length] in *. lia. }
      specialize (Hk (S (length r)) r). lia.
  - cbn [snd fst length]. split; [|lia]. intro H. injection H as H. subst e.
    revert E. apply nofuel_bind.
    + unfold read_file_definition. apply nofuel_bind; [apply nofuel_take|]. intro m.
      apply nofuel_if; [|apply nofuel_fail; discriminate].
      apply nofuel_bind; [apply nofuel_take|]. intro v.
      apply nofuel_bind; [apply nofuel_take|]. intro id. apply nofuel_ret.
    + intros _. unfold read_header_container. apply nofuel_bind.
      * unfold hc_read_header. apply nofuel_bind; [apply with_crc_nofuel; exact nofuel_hc_fields|].
        intro lc. apply nofuel_ret.
      * intros len bs E'. destruct (hdr_body (firstn (N.to_nat len) bs)) as [e'|] eqn:Eh; [|discriminate E'].
        injection E' as E'. subst e'. exact (Hb _ Eh).
Qed.

(* ---- blocks and slices inside a container body (NV.Trunc.CramBlocks) ---- *)

Section Blocks.
  Variable crc : list N -> N.
  Variable dec : blk -> ekind + list N.

  (* method, content type, content id, two sizes: 5 bytes at least, then the declared data *)
  Theorem blk_fields_bounded : forall bs b r,
    blk_fields bs = POk b r -> (5 + length (b_data b) + length r <= length bs)%nat.
  Proof.
    intros bs b r E. unfold blk_fields, r_code, r_bind in E.
    destruct (r_take 1 bs) as [h1 r1|e] eqn:E1; [|discriminate E].
    destruct (nth 0 h1 0 <? 9); [|discriminate E]. unfold r_ret at 1 in E.
    destruct (r_take 1 r1) as [h2 r2|e] eqn:E2; [|discriminate E].
    destruct (nth 0 h2 0 <? 6); [|discriminate E]. unfold r_ret at 1 in E.
    destruct (r_itf8 r2) as [cid r3|e] eqn:E3; [|discriminate E].
    destruct (r_itf8_as r3) as [cs r4|e] eqn:E4; [|discriminate E].
    destruct (r_itf8_as r4) as [us r5|e] eqn:E5; [|discriminate E].
    destruct (r_take cs r5) as [d r6|e] eqn:E6; [|discriminate E].
    unfold r_ret in E. injection E as Hb Hr. subst b r6. cbn [b_data].
    pose proof (consumes_take _ _ _ _ E1). pose proof (consumes_take _ _ _ _ E2).
    pose proof (consumes_itf8 _ _ _ E3). pose proof (consumes_itf8_as _ _ _ E4).
    pose proof (consumes_itf8_as _ _ _ E5). destruct (r_take_exact _ _ _ _ E6) as [H6 H7]. lia.
  Qed.

  Lemma consumes_decoded : forall ct, consumes 9 (r_decoded crc dec ct).
  Proof.
    intros ct bs [b d] r E. unfold r_decoded, read_block_as, r_bind in E.
    destruct (with_crc crc blk_fields bs) as [[b' c] r1|e] eqn:E1; [|discriminate E].
    cbn [fst] in E. destruct (b_ctype b' =? ct); [|discriminate E]. unfold r_ret at 1 in E.
    destruct (blk_content dec b') as [e|d']; [discriminate E|].
    unfold r_ret in E. injection E as _ _ Hr. subst r1.
    assert (Hc : consumes 5 blk_fields).
    { intros bs' x r' E'. pose proof (blk_fields_bounded _ _ _ E'). lia. }
    pose proof (with_crc_consumes crc _ _ _ Hc _ _ _ E1). lia.
  Qed.

  (* read_slice + decode_blocks: the slice header's block count is accepted only when the slice
     holds that many blocks (nine bytes at least each: the slice header, the core data block and
     n external ones) *)
  Theorem slice_blocks_bounded : forall src n r,
    slice_blocks crc dec src = POk n r -> (9 * (N.to_nat n + 2) + length r <= length src)%nat.
  Proof.
    intros src n r E. unfold slice_blocks, r_bind in E.
    destruct (read_slice_header crc dec src) as [nb r1|e] eqn:E1; [|discriminate E].
    destruct (r_decoded crc dec CT_CORE r1) as [c r2|e] eqn:E2; [|discriminate E].
    destruct (nb =? 0); [discriminate E|].
    destruct (r_repeat (N.to_nat (nb - 1)) (r_decoded crc dec CT_EXTERNAL) r2) as [ext r3|e] eqn:E3; [|discriminate E].
    unfold r_ret in E. injection E as Hn Hr. subst n r3.
    destruct (r_repeat_bounded _ _ 9%nat (consumes_decoded CT_EXTERNAL) _ _ _ _ E3) as [H3 H4].
    pose proof (consumes_decoded CT_CORE _ _ _ E2) as H2.
    assert (H1 : (9 + length r1 <= length src)%nat).
    { unfold read_slice_header, r_bind in E1.
      destruct (r_decoded crc dec CT_SLICE_HEADER src) as [bd r4|e] eqn:E4; [|discriminate E1].
      destruct (slice_header_fields (snd bd)) as [k r5|e]; [|discriminate E1].
      injection E1 as _ Hr. subst r4. exact (consumes_decoded CT_SLICE_HEADER _ _ _ E4). }
    rewrite Nat2N.id. lia.
  Qed.

  (* Container::slices: one slice per landmark at most, whatever the landmarks say *)
  Theorem container_slices_bounded : forall lms body,
    (length (fst (container_slices crc dec lms body)) <= length lms)%nat.
  Proof.
    induction lms as [|a rest IH]; intro body; [cbn; lia|]. cbn [container_slices].
    destruct (get_range a _ body) as [src|]; [|cbn; lia].
    destruct (slice_blocks crc dec src) as [n r|e]; [|cbn; lia].
    specialize (IH body). destruct (container_slices crc dec rest body) as [ns s]. cbn [fst length] in *. lia.
  Qed.

  (* a landmark outside the body is InvalidData, never a slice of something else *)
  Theorem get_range_inside : forall a b src s,
    get_range a b src = Some s -> a <= b /\ b <= N.of_nat (length src) /\ length s = N.to_nat (b - a).
  Proof.
    intros a b src s E. unfold get_range in E.
    destruct ((b <? a) || (N.of_nat (length src) <? b)) eqn:Ec; [discriminate E|].
    injection E as E. subst s. rewrite firstn_length, skipn_length. lia.
  Qed.
End Blocks.

(* ---- the byte-level index walk / query of C19 (NV.CramIdx.Bytes.walk) ---- *)

Section Walk.
  Import NV.CramIdx.Bytes.
  Variable crc : list N -> N.

  (* the container loop of index() / query over the bytes: the result does not depend on the fuel
     once it exceeds the number of bytes from the start position on (every container consumes at
     least 16 bytes) *)
  Theorem walk_fuel : forall f1 f2 pos file recs,
    (length (at_ pos file) < f1)%nat -> (length (at_ pos file) < f2)%nat ->
    walk crc f1 pos file recs = walk crc f2 pos file recs.
  Proof.
    induction f1 as [|f1 IH]; intros f2 pos file recs H1 H2; [lia|].
    destruct f2 as [|f2]; [lia|]. cbn [walk].
    destruct (cram_parse_container crc (at_ pos file)) as [[[h b] e] r|er] eqn:E; [|reflexivity].
    destruct e; [reflexivity|].
    destruct (consumed (at_ pos file) r <? N.of_nat (length b)) eqn:Eu; [reflexivity|].
    destruct (bslices crc b (ch_landmarks h)) as [shs|eb]; [|reflexivity].
    destruct (assign shs recs) as [ss recs'].
    destruct (cram_parse_container_bounded crc _ _ _ _ _ E) as [Hb _].
    assert (Hlen : (length (at_ (pos + consumed (at_ pos file) r) file) <= length r)%nat).
    { unfold at_, consumed in *. repeat rewrite skipn_length in *. lia. }
    rewrite (IH f2 (pos + consumed (at_ pos file) r) file recs') by lia. reflexivity.
  Qed.

  (* Container::slices(): a landmark pair outside the container body is InvalidData *)
  Theorem slice_bytes_inside : forall body a b s,
    slice_bytes body a b = Some s -> a <= b /\ b <= N.of_nat (length body) /\ length s = N.to_nat (b - a).
  Proof.
    intros body a b s E. unfold slice_bytes in E.
    destruct ((a <=? b) && (b <=? N.of_nat (length body))) eqn:Ec; [|discriminate E].
    injection E as E. subst s. rewrite firstn_length, skipn_length. lia.
  Qed.

  Theorem bslices_bounded : forall body lms shs,
    bslices crc body lms = BOk shs -> length shs = length lms.
  Proof.
    intros body lms. induction lms as [|lm t IH]; intros shs E.
    - cbn [bslices] in E. injection E as E. subst shs. reflexivity.
    - cbn [bslices] in E.
      destruct (slice_bytes body lm _) as [src|]; [|discriminate E].
      destruct (r_slice_header crc src) as [sh r|e]; [|discriminate E].
      destruct (bslices crc body t) as [l|e]; [|discriminate E].
      injection E as E. subst shs. cbn [length]. rewrite (IH l eq_refl). reflexivity.
  Qed.
End Walk.

(* ---- the query programs of C19 (NV.CramIdx.AsyncQuery): hostile index over a hostile file ---- *)

From NV Require CramIdx.AsyncQuery.

Section Query.
  Import NV.CramIdx.AsyncQuery.

  (* a read program only ever consumes: what is left afterwards is no longer than before *)
  Lemma run_pure_suffix : forall A (p : prog A) d a d', run_pure p d = POk a d' -> (length d' <= length d)%nat.
  Proof.
    intros A p. induction p as [a0|e|n k IH|n k IH]; intros d a d' E; cbn [run_pure] in E.
    - injection E as _ Hd. subst d'. lia.
    - discriminate E.
    - destruct (n <=? length d)%nat; [|discriminate E].
      specialize (IH _ _ _ _ E). rewrite skipn_length in IH. lia.
    - specialize (IH _ _ _ _ E). rewrite skipn_length in IH. lia.
  Qed.

  Lemma run_pure_read_progress : forall A n (k : list N -> prog A) d a d',
    run_pure (PRead n k) d = POk a d' -> (n + length d' <= length d)%nat.
  Proof.
    intros A n k d a d' E. cbn [run_pure] in E.
    destruct (n <=? length d)%nat eqn:En; [|discriminate E].
    pose proof (run_pure_suffix _ _ _ _ _ E) as H. rewrite skipn_length in H. lia.
  Qed.

  Variable crc : list N -> N.

  (* reading one container (header under the CrcReader, then the body) consumes >= 4 bytes *)
  Lemma p_read_container_progress : forall g d x d',
    run_pure (p_read_container crc g) d = POk x d' -> (4 + length d' <= length d)%nat.
  Proof.
    intros g d x d' E. unfold p_read_container, p_read_header, p_dc_fields in E.
    cbn [p_bind] in E. exact (run_pure_read_progress _ _ _ _ _ _ E).
  Qed.

  (* query_unmapped's container loop over the bytes, for EVERY start offset an index entry may
     name and EVERY file: the fuel is never the reason of a result *)
  Theorem records_p_fuel : forall f f1 f2 pos d, (length d < f1)%nat -> (length d < f2)%nat ->
    records_p crc f f1 pos d = records_p crc f f2 pos d.
  Proof.
    intros f. induction f1 as [|f1 IH]; intros f2 pos d H1 H2; [lia|].
    destruct f2 as [|f2]; [lia|]. cbn [records_p].
    destruct (run_pure (p_read_container crc false) d) as [[[[h hl] body] e] d'|er] eqn:E; [|reflexivity].
    destruct e; [reflexivity|].
    destruct (visit_all crc f pos h body) as [recs|eb]; [|reflexivity].
    pose proof (p_read_container_progress _ _ _ _ E) as Hp.
    rewrite (IH f2 _ d') by lia. reflexivity.
  Qed.
End Query.
