(* C15 — proofs about the totality-oriented models of Hostile/Panics.v *)

From Coq Require Import NArith List Bool Lia ZifyBool ZifyNat ZifyN.
From NV Require Import Hostile.Panics.
Import ListNotations.
Open Scope N_scope.

Arguments N.add : simpl never.
Arguments N.sub : simpl never.
Arguments N.mul : simpl never.
Arguments N.div : simpl never.
Arguments N.modulo : simpl never.
Arguments N.shiftr : simpl never.
Arguments N.pow : simpl never.

(* ------------------------------------------------------------------------------------------ *)
(* (1) BGZF data cursor                                                                        *)

Lemma data_as_ref_total : forall len pos, pos <= len -> is_panic (data_as_ref len pos) = false.
Proof.
  intros len pos H. unfold data_as_ref.
  destruct (pos <=? len) eqn:E; [reflexivity | lia].
Qed.

Lemma data_as_ref_panics_iff : forall len pos,
  is_panic (data_as_ref len pos) = true <-> len < pos.
Proof.
  intros len pos. unfold data_as_ref.
  destruct (pos <=? len) eqn:E; cbn [is_panic]; split; intro H; try lia; try reflexivity; discriminate.
Qed.

Lemma read_block_inv : forall frames c,
  fst c <= snd c -> fst (fst (read_block frames c)) <= snd (fst (read_block frames c)).
Proof.
  induction frames as [|l r IH]; intros c Hc; cbn [read_block].
  - exact Hc.
  - destruct (0 <? l) eqn:E.
    + cbn [fst snd]. lia.
    + apply IH. cbn [fst snd]. lia.
Qed.

Lemma fill_buf_total : forall c rest, fst c <= snd c -> is_panic (fill_buf c rest) = false.
Proof.
  intros [pos len] rest Hc. cbn [fst snd] in Hc. unfold fill_buf.
  destruct (pos <? len) eqn:E.
  - apply data_as_ref_total. exact Hc.
  - pose proof (read_block_inv rest (pos, len) Hc) as Hinv.
    destruct (read_block rest (pos, len)) as [[pos' len'] rest'] eqn:R.
    cbn [fst snd] in Hinv. apply data_as_ref_total. exact Hinv.
Qed.

Lemma read_exact1_total : forall c rest, fst c <= snd c -> is_panic (read_exact1 c rest) = false.
Proof.
  intros [pos len] rest Hc. pose proof (fill_buf_total (pos, len) rest Hc) as Hf.
  cbn [fst snd] in Hc. unfold read_exact1.
  pose proof (data_as_ref_total len pos Hc) as Ha.
  destruct (data_as_ref len pos) as [n| |s]; try reflexivity; try discriminate.
  destruct (1 <=? n); [reflexivity|].
  destruct (fill_buf (pos, len) rest) as [m| |s]; try reflexivity; try discriminate.
  destruct m; reflexivity.
Qed.

Lemma seek_with_inv : forall setp frames upos,
  (forall c p, fst c <= snd c -> fst (setp c p) <= snd (setp c p)) ->
  fst (fst (seek_with setp frames upos)) <= snd (fst (seek_with setp frames upos)).
Proof.
  intros setp frames upos Hs. unfold seek_with.
  pose proof (read_block_inv frames (0, 0)) as Hinv.
  destruct (read_block frames (0, 0)) as [c rest] eqn:R. cbn [fst snd] in *.
  apply Hs. destruct (snd c =? 0); cbn [fst snd]; [lia|]. apply Hinv. lia.
Qed.

(* after the repair: a read after a seek never panics, whatever the file layout, the frame sought
   to and the in-block offset *)
Theorem seek_then_total : forall frames k upos how, is_panic (seek_then frames k upos how) = false.
Proof.
  intros frames k upos how. unfold seek_then, seek_then_with.
  pose proof (seek_with_inv set_position (skipn k frames) upos) as Hinv.
  destruct (seek_with set_position (skipn k frames) upos) as [c rest] eqn:R. cbn [fst snd] in Hinv.
  assert (Hc : fst c <= snd c).
  { apply Hinv. intros c0 p H0. unfold set_position. cbn [fst snd]. lia. }
  destruct (how =? 0).
  - apply fill_buf_total. exact Hc.
  - apply read_exact1_total. exact Hc.
Qed.

(* before the repair: no panic when the offset is within the loaded block ... *)
Theorem seek_then_unclamped_total : forall frames k upos how,
  upos <= loaded_len (skipn k frames) -> is_panic (seek_then_unclamped frames k upos how) = false.
Proof.
  intros frames k upos how H. unfold seek_then_unclamped, seek_then_with, seek_with, loaded_len in *.
  destruct (read_block (skipn k frames) (0, 0)) as [[p len] rest] eqn:R. cbn [fst snd] in *.
  assert (Hc : fst (set_position_unclamped (if len =? 0 then (0, 0) else (p, len)) upos)
               <= snd (set_position_unclamped (if len =? 0 then (0, 0) else (p, len)) upos)).
  { unfold set_position_unclamped. destruct (len =? 0) eqn:E; cbn [fst snd]; lia. }
  destruct (how =? 0).
  - apply fill_buf_total. exact Hc.
  - apply read_exact1_total. exact Hc.
Qed.

(* ... and read_exact ALWAYS panicked beyond it (finding F12, now repaired) *)
Theorem seek_read_exact_unclamped_panics : forall frames k upos how,
  how <> 0 -> loaded_len (skipn k frames) < upos ->
  seek_then_unclamped frames k upos how = Panic S_DATA_SLICE.
Proof.
  intros frames k upos how Hh H. unfold seek_then_unclamped, seek_then_with, seek_with, loaded_len in *.
  destruct (read_block (skipn k frames) (0, 0)) as [[p len] rest] eqn:R. cbn [fst snd] in *.
  destruct (how =? 0) eqn:E; [lia|].
  unfold set_position_unclamped, read_exact1, data_as_ref.
  destruct (len =? 0) eqn:E0; cbn [fst snd].
  - destruct (upos <=? 0) eqn:E2; [lia | reflexivity].
  - destruct (upos <=? len) eqn:E2; [lia | reflexivity].
Qed.

Example seek_witness_read_exact_old : seek_then_unclamped [5] 0 6 1 = Panic S_DATA_SLICE.
Proof. vm_compute. reflexivity. Qed.
Example seek_read_exact_now : seek_then [5] 0 6 1 = Err.
Proof. vm_compute. reflexivity. Qed.
Example seek_fill_buf_now : seek_then [5; 0] 0 6 0 = Ok 0.
Proof. vm_compute. reflexivity. Qed.
Example seek_ok_example : seek_then [5; 7] 1 3 0 = Ok 4.
Proof. vm_compute. reflexivity. Qed.

(* ------------------------------------------------------------------------------------------ *)
(* (2) CSI query                                                                               *)

(* 8^l + 8^(l+1) + ... + 8^(l+n), with 8^j written 2^(j*3) as in the code *)
Fixpoint geo (n : nat) (l : N) : N :=
  match n with
  | O => 2 ^ (l * 3)
  | S n' => 2 ^ (l * 3) + geo n' (l + 1)
  end.

Lemma reg2bins_total : forall n l t s beg en nbits id sel,
  en < 2 ^ (s + l * 3) -> 3 * N.of_nat n <= s -> t + geo n l <= nbits ->
  is_panic (reg2bins n l t s beg en nbits id sel) = false.
Proof.
  induction n as [|n IH]; intros l t s beg en nbits id sel Hen Hs Ht.
  - cbn [reg2bins geo] in *.
    assert (Hq : N.shiftr en s < 2 ^ (l * 3)).
    { rewrite N.shiftr_div_pow2. apply N.div_lt_upper_bound.
      - apply N.pow_nonzero. lia.
      - rewrite <- N.pow_add_r. exact Hen. }
    destruct ((t + N.shiftr beg s <=? t + N.shiftr en s) && (nbits <=? t + N.shiftr en s)) eqn:E.
    + apply andb_true_iff in E. destruct E as [_ E]. lia.
    + reflexivity.
  - cbn [reg2bins]. cbn [geo] in Ht.
    assert (Hq : N.shiftr en s < 2 ^ (l * 3)).
    { rewrite N.shiftr_div_pow2. apply N.div_lt_upper_bound.
      - apply N.pow_nonzero. lia.
      - rewrite <- N.pow_add_r. exact Hen. }
    assert (Hg : 0 < geo n (l + 1)).
    { destruct n; cbn [geo]; pose proof (N.pow_nonzero 2 ((l + 1) * 3)); lia. }
    destruct ((t + N.shiftr beg s <=? t + N.shiftr en s) && (nbits <=? t + N.shiftr en s)) eqn:E.
    + apply andb_true_iff in E. destruct E as [_ E]. lia.
    + apply IH.
      * replace (s - 3 + (l + 1) * 3) with (s + l * 3) by lia. exact Hen.
      * lia.
      * lia.
Qed.

(* the geometric sum of all levels is exactly the bit-vector length, for every depth the code accepts *)
Lemma geo_bin_limit : forall depth, depth <= 10 ->
  bin_limit depth = Ok (geo (N.to_nat depth) 0).
Proof.
  intros depth H.
  assert (Hin : In depth [0;1;2;3;4;5;6;7;8;9;10]).
  { cbn [In]. lia. }
  cbn [In] in Hin.
  repeat (destruct Hin as [Hin|Hin]; [subst depth; vm_compute; reflexivity|]).
  contradiction.
Qed.

(* After the repairs: ReferenceSequence::query never panics — for EVERY min_shift, depth, bin id
   and region; no excluded class. *)
Theorem query_total : forall ms depth id s e, is_panic (query ms depth id s e) = false.
Proof.
  intros ms depth id s e.
  unfold query, resolve_interval, resolve_interval_with, max_position.
  destruct (ms =? 0) eqn:Hms; [reflexivity|].
  destruct (10 <? depth) eqn:Hd; [reflexivity|].
  destruct (64 <=? ms + 3 * depth) eqn:E64; [reflexivity|].
  destruct (2 ^ (ms + 3 * depth) - 1 <? s) eqn:Es; [reflexivity|].
  destruct (2 ^ (ms + 3 * depth) - 1 <? e) eqn:Ee; [reflexivity|].
  assert (Hd' : depth <= 10) by lia.
  rewrite (geo_bin_limit depth Hd').
  pose proof (reg2bins_total (N.to_nat depth) 0 0 (ms + depth * 3) (s - 1) (e - 1)
                (geo (N.to_nat depth) 0) id false) as HR.
  assert (Hpow : 2 ^ (ms + 3 * depth) <> 0) by (apply N.pow_nonzero; lia).
  assert (H1 : e - 1 < 2 ^ (ms + depth * 3 + 0 * 3)).
  { replace (ms + depth * 3 + 0 * 3) with (ms + 3 * depth) by lia. lia. }
  assert (H2 : 3 * N.of_nat (N.to_nat depth) <= ms + depth * 3) by lia.
  assert (H3 : 0 + geo (N.to_nat depth) 0 <= geo (N.to_nat depth) 0) by lia.
  specialize (HR H1 H2 H3).
  destruct (reg2bins (N.to_nat depth) 0 0 (ms + depth * 3) (s - 1) (e - 1)
              (geo (N.to_nat depth) 0) id false) as [sel| |x]; try reflexivity; discriminate.
Qed.

(* a hostile geometry is now an error, whatever the region and the bins *)
Theorem query_hostile_geometry_err : forall ms depth id s e,
  ms = 0 \/ 10 < depth \/ 64 <= ms + 3 * depth -> query ms depth id s e = Err.
Proof.
  intros ms depth id s e H. unfold query, resolve_interval, resolve_interval_with, max_position.
  destruct (ms =? 0) eqn:E0; [reflexivity|].
  destruct (10 <? depth) eqn:Ed; [reflexivity|].
  destruct (64 <=? ms + 3 * depth) eqn:E64; [reflexivity | lia].
Qed.

(* a bin id outside the scheme is never selected *)
Theorem query_hostile_bin_not_selected : forall ms depth id s e nbits,
  bin_limit depth = Ok nbits -> nbits <= id ->
  query ms depth id s e = Err \/ query ms depth id s e = Ok false.
Proof.
  intros ms depth id s e nbits Hb Hid.
  pose proof (query_total ms depth id s e) as HT. unfold query in *.
  destruct (resolve_interval ms depth s e) as [[s' e']| |x]; [|left; reflexivity|discriminate].
  rewrite Hb in *.
  destruct (reg2bins (N.to_nat depth) 0 0 (ms + depth * 3) (s' - 1) (e' - 1) nbits id false) as [sel| |x].
  - right. destruct (id <? nbits) eqn:E; [lia|]. rewrite andb_false_r. reflexivity.
  - left; reflexivity.
  - discriminate.
Qed.

Example query_now_min_shift_0 : query 0 5 0 1 1 = Err.
Proof. vm_compute. reflexivity. Qed.
Example query_now_shift_64 : query 200 5 0 1 1 = Err.
Proof. vm_compute. reflexivity. Qed.
Example query_now_depth_11 : query 14 11 0 1 1 = Err.
Proof. vm_compute. reflexivity. Qed.
Example query_now_depth_10 : query 14 10 0 1 1 = Ok true.
Proof. vm_compute. reflexivity. Qed.
Example query_now_bin_id : query 14 5 37449 1 1 = Ok false.
Proof. vm_compute. reflexivity. Qed.
Example query_ok_example : query 14 5 4681 1 16384 = Ok true.
Proof. vm_compute. reflexivity. Qed.
Example query_err_example : query 14 5 0 1 536870912 = Err.
Proof. vm_compute. reflexivity. Qed.

(* the code before the repairs: one witness per panic site (fixed findings) *)
Lemma query_v0_witnesses :
  query_v0 0 5 0 1 1 = Panic S_ASSERT_MIN_SHIFT /\
  query_v0 200 5 0 1 1 = Panic S_SHL_USIZE /\
  query_v0 1 30 0 1 1 = Panic S_SHL_USIZE /\
  query_v0 14 11 0 1 1 = Panic S_ASSERT_DEPTH /\
  query_v0 14 10 0 1 1 = Panic S_SHL_I32 /\
  query_v0 14 5 37449 1 1 = Panic S_BITVEC_INDEX.
Proof. repeat split; vm_compute; reflexivity. Qed.

(* ------------------------------------------------------------------------------------------ *)
(* (3) rANS 4x8 order-0 frequency table + one decoded symbol                                   *)

Definition zeros16 : list N := [0;0;128;0; 0;0;128;0; 0;0;128;0; 0;0;128;0; 0;0;0;0;0;0;0;0].

(* the code before the repairs: witnesses of the two arithmetic panics (finding F10) *)
Example rfreq_v0_witness_sym_overflow :
  rfreq_v0 ([254; 5; 255; 1; 1; 0] ++ zeros16) = Panic S_SYM_ADD.
Proof. vm_compute. reflexivity. Qed.
Example rfreq_v0_witness_cumulative_overflow :
  rfreq_v0 ([97; 192; 255; 255; 99; 1; 0] ++ zeros16) = Panic S_CUM_ADD.
Proof. vm_compute. reflexivity. Qed.
(* the same inputs are errors now *)
Example rfreq_now_sym_overflow : rfreq ([254; 5; 255; 1; 1; 0] ++ zeros16) = Err.
Proof. vm_compute. reflexivity. Qed.
Example rfreq_now_cumulative_overflow : rfreq ([97; 192; 255; 255; 99; 1; 0] ++ zeros16) = Err.
Proof. vm_compute. reflexivity. Qed.
Example rfreq_ok_example :
  rfreq ([97; 5; 98; 2; 2; 1; 1; 114; 2; 0] ++ zeros16) = Ok tt.
Proof. vm_compute. reflexivity. Qed.
Example rfreq_err_example : rfreq [97; 5] = Err.
Proof. vm_compute. reflexivity. Qed.

Lemma read_itf8_u16_no_panic : forall bs x, read_itf8_u16 bs <> Panic x.
Proof.
  intros bs x R. unfold read_itf8_u16 in R.
  repeat match type of R with
         | match ?l with _ => _ end = _ => destruct l
         | (if ?c then _ else _) = _ => destruct c
         end; discriminate.
Qed.

Lemma read_run_total : forall n bs sym F, is_panic (read_run true n bs sym F) = false.
Proof.
  induction n as [|n IH]; intros bs sym F; cbn [read_run].
  - reflexivity.
  - destruct (read_itf8_u16 bs) as [[f bs1]| |x] eqn:R.
    + destruct (sym =? 255); [reflexivity|]. apply IH.
    + reflexivity.
    + exfalso. exact (read_itf8_u16_no_panic _ _ R).
Qed.

Lemma read_freqs_total : forall fuel bs sym prev F, is_panic (read_freqs true fuel bs sym prev F) = false.
Proof.
  induction fuel as [|fu IH]; intros bs sym prev F; cbn [read_freqs].
  - reflexivity.
  - destruct (read_itf8_u16 bs) as [[f bs1]| |x] eqn:R.
    + destruct bs1 as [|sym' bs2]; [reflexivity|].
      destruct (sym' =? 0); [reflexivity|].
      destruct (sym' - 1 =? prev).
      * destruct bs2 as [|len bs3]; [reflexivity|].
        pose proof (read_run_total (N.to_nat len) bs3 sym' (upd F (N.to_nat sym) f)) as HR.
        destruct (read_run true (N.to_nat len) bs3 sym' (upd F (N.to_nat sym) f)) as [[[s2 F2] bs4]| |y].
        -- apply IH.
        -- reflexivity.
        -- discriminate.
      * apply IH.
    + reflexivity.
    + exfalso. exact (read_itf8_u16_no_panic _ _ R).
Qed.

Lemma cumulative_ok_bound : forall n F acc, acc + sumN F <= 65535 -> cumulative_ok n F acc = true.
Proof.
  induction n as [|n IH]; intros F acc H; cbn [cumulative_ok]; [reflexivity|].
  destruct F as [|g r]; [reflexivity|]. cbn [sumN] in H.
  destruct (acc + g <=? 65535) eqn:E; [|lia]. apply IH. lia.
Qed.

Lemma cum_at_le_sum : forall F k, cum_at F k <= sumN F.
Proof.
  induction F as [|g r IH]; intros k; destruct k; cbn [cum_at sumN]; try lia.
  specialize (IH k). lia.
Qed.

Lemma nth_le_sum : forall F k, nth k F 0 <= sumN F.
Proof.
  induction F as [|g r IH]; intros k; destruct k; cbn [nth sumN]; try lia.
  specialize (IH k). lia.
Qed.

Lemma cum_at_0 : forall F, cum_at F 0 = 0.
Proof. destruct F; reflexivity. Qed.

Lemma table_sym_inv : forall fuel F f sym, cum_at F sym <= f -> cum_at F (table_sym fuel F f sym) <= f.
Proof.
  induction fuel as [|fu IH]; intros F f sym H; cbn [table_sym]; [exact H|].
  destruct (Nat.ltb sym 255 && (cum_at F (S sym) <=? f)) eqn:E; [|exact H].
  apply andb_true_iff in E. destruct E as [_ E]. apply IH. lia.
Qed.

Lemma renorm_total : forall fuel s bs, is_panic (renorm fuel s bs) = false.
Proof.
  induction fuel as [|fu IH]; intros s bs; cbn [renorm]; [reflexivity|].
  destruct (s <? 8388608); [|reflexivity]. destruct bs; [reflexivity|]. apply IH.
Qed.

Lemma le32_bound : forall b0 b1 b2 b3, le32 b0 b1 b2 b3 < 4294967296.
Proof.
  intros. unfold le32.
  pose proof (N.mod_upper_bound b0 256). pose proof (N.mod_upper_bound b1 256).
  pose proof (N.mod_upper_bound b2 256). pose proof (N.mod_upper_bound b3 256). lia.
Qed.

(* After the repairs the decoder never panics while reading the table and decoding a symbol:
   for EVERY byte string. *)
Theorem rfreq_total : forall bs, is_panic (rfreq bs) = false.
Proof.
  intros bs. unfold rfreq, rfreq_with, read_frequencies_with.
  destruct bs as [|sym r]; [reflexivity|].
  pose proof (read_freqs_total (S (length (sym :: r))) r sym sym (repeat 0 256)) as HF.
  destruct (read_freqs true (S (length (sym :: r))) r sym sym (repeat 0 256)) as [[F rest]| |x];
    [|reflexivity|discriminate].
  cbn [andb]. destruct (4096 <? sumN F) eqn:Esum; [reflexivity|].
  assert (Hs : sumN F <= 4096) by lia.
  rewrite (cumulative_ok_bound 255 F 0) by lia.
  do 16 (destruct rest as [|? rest]; [reflexivity|]).
  set (s := le32 _ _ _ _).
  pose proof (le32_bound n n0 n1 n2) as Hb. fold s in Hb.
  set (f := s mod 4096). set (k := table_sym 255 F f 0).
  pose proof (nth_le_sum F k) as Hfr.
  pose proof (table_sym_inv 255 F f 0) as Hg. rewrite cum_at_0 in Hg. specialize (Hg ltac:(lia)). fold k in Hg.
  assert (Hf : f < 4096) by (apply N.mod_upper_bound; lia).
  assert (Hq : s / 4096 <= 1048575).
  { assert (s / 4096 < 1048576); [apply N.div_lt_upper_bound; lia | lia]. }
  assert (Ha : nth k F 0 * (s / 4096) <= 4096 * 1048575).
  { apply N.mul_le_mono; lia. }
  destruct (4294967295 <? nth k F 0 * (s / 4096)) eqn:E1; [lia|].
  destruct (4294967295 <? nth k F 0 * (s / 4096) + f) eqn:E2; [lia|].
  destruct (nth k F 0 * (s / 4096) + f <? cum_at F k) eqn:E3; [lia|].
  pose proof (renorm_total (S (length rest)) (nth k F 0 * (s / 4096) + f - cum_at F k) rest) as HR.
  destruct (renorm (S (length rest)) (nth k F 0 * (s / 4096) + f - cum_at F k) rest); try reflexivity; discriminate.
Qed.
