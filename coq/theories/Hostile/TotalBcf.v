(* C15 totality, BCF record decoder (model owned by C10: NV.Bcf.Record = io/reader/record.rs +
   record/codec/decoder/{info,samples}.rs as byte-block walkers; results are options, None = any
   error).

   For EVERY byte string: the eager record decoder accepts the counts of a record (l_shared,
   l_indiv, n_info, n_fmt) only when the input really holds that many bytes / fields -- every
   INFO / FORMAT field costs at least 3 bytes (key index: descriptor + value, typed value:
   descriptor), so a hostile count cannot make the decoder loop or produce more fields than a
   third of the block length.  (The LAZY bcf::Record iterators trust n_info / n_sample: those are
   the known classes hang-bcf-info-iter / hang-bcf-samples-iter.)
   NOT covered: the typed VALUE decoders of NV.Bcf.Typed / Strings / Genotype still carry RPanic
   branches of the pinned tree that the decoder repairs (246d8c3, e640bb5, c4a0a4d, b3f84bd) turned
   into errors; their owner's check never feeds them such bytes, so no totality theorem is stated
   about them.
   Proofs only; no new model function. *)
From Coq Require Import List NArith ZArith Bool Lia.
From Coq Require Import ZifyBool ZifyNat ZifyN.
From NV Require Import Bcf.Ints Bcf.Typed Bcf.StringMap Bcf.Record.
Import ListNotations.
Open Scope Z_scope.

Lemma take_len : forall k bs x r, take k bs = Some (x, r) -> length bs = (k + length r)%nat /\ length x = k.
Proof.
  intros k bs x r H. unfold take in H. destruct (k <=? length bs)%nat eqn:E; [|discriminate].
  injection H as Hx Hr. subst x r. apply Nat.leb_le in E. rewrite skipn_length, firstn_length. lia.
Qed.

Lemma dec_type_consumes : forall f bs c l r, dec_type f bs = Some (c, l, r) -> (length r < length bs)%nat.
Proof.
  induction f as [|f IH]; intros bs c l r H; cbn [dec_type] in H; [discriminate|].
  destruct bs as [|b t]; [discriminate|]. cbn zeta in H.
  destruct (Z.of_N b / 16 =? 15).
  - destruct (dec_type f t) as [[[c2 l2] r2]|] eqn:E; [|discriminate]. apply IH in E.
    destruct (width_of_code c2) as [w|]; [|discriminate]. destruct (l2 =? 1); [|discriminate].
    destruct (take (wbytes w) r2) as [[x r3]|] eqn:E3; [|discriminate]. apply take_len in E3.
    destruct (classify w (dec_int w x)); try discriminate.
    match type of H with (if ?c then _ else _) = _ => destruct c end; [|discriminate].
    injection H as _ _ Hr. subst r3. cbn [length]. lia.
  - destruct (valid_code (Z.of_N b mod 16)); [|discriminate].
    injection H as _ _ Hr. subst r. cbn [length]. lia.
Qed.

Lemma read_type_consumes : forall bs c l r, read_type bs = Some (c, l, r) -> (length r < length bs)%nat.
Proof. intros bs c l r H. exact (dec_type_consumes _ _ _ _ _ H). Qed.

Lemma wbytes_pos : forall w, (1 <= wbytes w)%nat.
Proof. intros [| |]; cbn; lia. Qed.

(* a key index: descriptor byte + at least one value byte *)
Lemma dec_index_consumes : forall bs i r, dec_index bs = Some (i, r) -> (2 + length r <= length bs)%nat.
Proof.
  intros bs i r H. unfold dec_index in H.
  destruct (read_type bs) as [[[c l] r0]|] eqn:E; [|discriminate]. apply read_type_consumes in E.
  destruct (width_of_code c) as [w|]; [|discriminate]. destruct (l =? 1); [|discriminate].
  destruct (take (wbytes w) r0) as [[x r1]|] eqn:E1; [|discriminate]. apply take_len in E1.
  destruct (classify w (dec_int w x)); try discriminate.
  match type of H with (if ?c then _ else _) = _ => destruct c end; [|discriminate].
  injection H as _ Hr. subst r1. pose proof (wbytes_pos w). lia.
Qed.

(* a typed value / series: at least its descriptor byte; the block and the rest partition bs *)
Lemma split_typed_consumes : forall series mult bs vb r,
  split_typed series mult bs = Some (vb, r) ->
  (1 + length r <= length bs)%nat /\ length bs = (length vb + length r)%nat.
Proof.
  intros series mult bs vb r H. unfold split_typed in H.
  destruct (read_type bs) as [[[c l] r0]|] eqn:E; [|discriminate]. apply read_type_consumes in E.
  match type of H with (if ?c then _ else _) = _ => destruct c end; [discriminate|].
  destruct (value_payload c l) as [k|]; [|discriminate].
  destruct (take (mult * k) r0) as [[x r1]|] eqn:E1; [|discriminate]. apply take_len in E1.
  apply take_len in H. lia.
Qed.

(* n fields cost >= 3 n bytes; the decoder returns exactly n fields *)
Theorem dec_fields_bounded : forall m mult dup n bs l r,
  dec_fields m mult dup n bs = Some (l, r) ->
  (3 * n + length r <= length bs)%nat /\ length l = n.
Proof.
  intros m mult dup. induction n as [|n IH]; intros bs l r H; cbn [dec_fields] in H.
  - injection H as Hl Hr. subst l r. split; [lia|reflexivity].
  - destruct (dec_index bs) as [[i r0]|] eqn:E0; [|discriminate]. apply dec_index_consumes in E0.
    destruct (get_index m (Z.to_nat i)) as [k|]; [|discriminate].
    destruct (split_typed (negb dup) mult r0) as [[vb r1]|] eqn:E1; [|discriminate].
    apply split_typed_consumes in E1.
    destruct (dec_fields m mult dup n r1) as [[l' r2]|] eqn:E2; [|discriminate]. apply IH in E2.
    destruct (dup && has_key k l'); [discriminate|].
    injection H as Hl Hr. subst l r. cbn [length]. lia.
Qed.

Lemma dec_frame_bounded : forall bs sb ib rest, dec_frame bs = Some (sb, ib, rest) ->
  length bs = (8 + length sb + length ib + length rest)%nat.
Proof.
  intros bs sb ib rest H. unfold dec_frame in H.
  destruct (take 4 bs) as [[a r1]|] eqn:E1; [|discriminate].
  destruct (le_val a =? 0); [discriminate|].
  destruct (take 4 r1) as [[b r2]|] eqn:E2; [|discriminate].
  destruct (take (Z.to_nat (le_val a)) r2) as [[sb' r3]|] eqn:E3; [|discriminate].
  destruct (take (Z.to_nat (le_val b)) r3) as [[ib' r4]|] eqn:E4; [|discriminate].
  injection H as Hs Hi Hr. subst sb' ib' r4.
  apply take_len in E1, E2, E3, E4. lia.
Qed.

(* whatever l_shared, l_indiv, n_info, n_fmt say: an accepted record has its blocks inside the
   input, exactly n_info INFO fields and n_fmt FORMAT series were decoded, and the FORMAT series
   number at most |individual block| / 3 (for INFO the same bound relative to the bytes left of the
   site block after FILTER is dec_fields_bounded) *)
Theorem dec_record_bounded : forall strings contigs bs h infos fmts rest,
  dec_record strings contigs bs = Some (h, infos, fmts, rest) ->
  (8 + 3 * length fmts + length rest <= length bs)%nat /\
  length infos = Z.to_nat (h_n_info h) /\ length fmts = Z.to_nat (h_n_fmt h).
Proof.
  intros strings contigs bs h infos fmts rest H. unfold dec_record in H.
  destruct (dec_frame bs) as [[[sb ib] rest']|] eqn:E0; [|discriminate]. apply dec_frame_bounded in E0.
  destruct (dec_head strings contigs sb) as [[h' info_bytes]|] eqn:E1; [|discriminate].
  destruct (dec_fields strings 1 true (Z.to_nat (h_n_info h')) info_bytes) as [[infos' r1]|] eqn:E2; [|discriminate].
  destruct (dec_fields strings (Z.to_nat (h_n_sample h')) false (Z.to_nat (h_n_fmt h')) ib) as [[fmts' r2]|] eqn:E3; [|discriminate].
  injection H as Hh Hi Hf Hr. subst h' infos' fmts' rest'.
  apply dec_fields_bounded in E2, E3. lia.
Qed.

(* ---- the recursion of read_type <-> read_value (finding stack-bcf-typed-length-nesting) ----
   In C10's model the recursion is [dec_type]'s fuel.  A descriptor made of n length-overflow
   bytes 0xf1, the scalar descriptor 0x11 and n value bytes 1 is ACCEPTED (type Int8, length 1)
   and needs recursion depth n + 1: with fuel n the model fails, with fuel n + 1 it succeeds.
   The real functions use one pair of stack frames per level, so the depth of the Rust recursion
   is linear in the input length -- a stack overflow for n ~ 10^5 (reproduced on the crates). *)
Lemma repeat_snoc : forall (A : Type) (x : A) n, repeat x (S n) = repeat x n ++ [x].
Proof. intros A x. induction n as [|n IH]; [reflexivity|]. cbn [repeat app] in *. now rewrite <- IH. Qed.

Theorem dec_type_nested_accepts : forall n rest,
  dec_type (S n) (repeat 241%N n ++ 17%N :: repeat 1%N n ++ rest) = Some (1, 1, rest).
Proof.
  induction n as [|n IH]; intro rest.
  - reflexivity.
  - rewrite repeat_snoc with (x := 1%N). rewrite <- app_assoc. cbn [app].
    change (repeat 241%N (S n)) with (241%N :: repeat 241%N n). cbn [app].
    remember (S n) as f eqn:Ef. cbn [dec_type]. cbn zeta.
    change (Z.of_N 241 / 16 =? 15) with true. cbv iota.
    rewrite IH. reflexivity.
Qed.

Theorem dec_type_nested_needs_depth : forall n rest,
  dec_type n (repeat 241%N n ++ 17%N :: repeat 1%N n ++ rest) = None.
Proof.
  induction n as [|n IH]; intro rest; [reflexivity|].
  rewrite repeat_snoc with (x := 1%N). rewrite <- app_assoc. cbn [app].
  change (repeat 241%N (S n)) with (241%N :: repeat 241%N n). cbn [app].
  cbn [dec_type]. cbn zeta. change (Z.of_N 241 / 16 =? 15) with true. cbv iota.
  rewrite IH. reflexivity.
Qed.
