(* C15 totality, BCF record decoder (model owned by C10: NV.Bcf.Record = io/reader/record.rs +
   record/codec/decoder/{info,samples}.rs as byte-block walkers; results are options, None = any
   error).

   For EVERY byte string: the eager record decoder accepts the counts of a record (l_shared,
   l_indiv, n_info, n_fmt) only when the input really holds that many bytes / fields -- every
   INFO / FORMAT field costs at least 3 bytes (key index: descriptor + value, typed value:
   descriptor), so a hostile count cannot make the decoder loop or produce more fields than a
   third of the block length.  (The LAZY bcf::Record iterators trust n_info / n_sample: those are
   the known classes hang-bcf-info-iter / hang-bcf-samples-iter.)
   The typed VALUE decoders (NV.Bcf.Typed / Strings / Genotype / RecordTyped) follow the repaired
   decoders since C10's update; their panic-freedom on every byte string is NV.Bcf.NeverPanics
   (re-exported in props/C15.v).  The descriptor reader's recursion (read_type <-> read_value) is
   one level deep since fix ea50dd5: fuel 2 always suffices (dec_type_depth_two).
   Proofs only; no new model function. *)
From Coq Require Import List NArith ZArith Bool Lia.
From Coq Require Import ZifyBool ZifyNat ZifyN.
From NV Require Import Bcf.Ints Bcf.Typed Bcf.StringMap Bcf.Record.
Import ListNotations.
Open Scope Z_scope.

Lemma take_len : forall k bs x r, take k bs = Some (x, r) -> length bs = (k + length r)%nat /\ length x = k.
Proof.
  intros k bs x r H. unfold take in H. destruct (k <=? length bs)%nat eqn:E; [|discriminate].
  injection H as Hx Hr. subst x r. apply Nat.leb_le in E. rewrite skipn_length, firstn_length. lia.
Qed.

(* peel one match / if off a hypothesis "... = Some _", keeping the equation of the scrutinee *)
Ltac peel H :=
  match type of H with
  | (match ?x with _ => _ end) = _ => destruct x eqn:?; try discriminate H
  | (if ?c then _ else _) = _ => destruct c eqn:?; try discriminate H
  end.
Ltac peel_all H := cbv zeta in H; repeat (peel H; cbv zeta in H).
Ltac take_facts :=
  repeat match goal with E : take _ _ = Some _ |- _ => apply take_len in E; destruct E end.

Lemma dec_type_consumes : forall f bs c l r, dec_type f bs = Some (c, l, r) -> (length r < length bs)%nat.
Proof.
  induction f as [|f IH]; intros bs c l r H; cbn [dec_type] in H; [discriminate|].
  destruct bs as [|b t]; [discriminate|]. cbv zeta in H.
  destruct (dec_type f t) as [[[c2 l2] r2]|] eqn:E.
  - apply IH in E. peel_all H; take_facts; injection H as _ _ Hr; subst; cbn [length]; lia.
  - peel_all H; injection H as _ _ Hr; subst; cbn [length]; lia.
Qed.

Lemma read_type_consumes : forall bs c l r, read_type bs = Some (c, l, r) -> (length r < length bs)%nat.
Proof. intros bs c l r H. exact (dec_type_consumes _ _ _ _ _ H). Qed.

Lemma wbytes_pos : forall w, (1 <= wbytes w)%nat.
Proof. intros [| |]; cbn; lia. Qed.

(* a key index: descriptor byte + at least one value byte *)
Lemma dec_index_consumes : forall bs i r, dec_index bs = Some (i, r) -> (2 + length r <= length bs)%nat.
Proof.
  intros bs i r H. unfold dec_index in H.
  destruct (read_type bs) as [[[c l] r0]|] eqn:E; [|discriminate]. apply read_type_consumes in E.
  destruct (width_of_code c) as [w|]; [|discriminate]. pose proof (wbytes_pos w).
  peel_all H; take_facts; injection H as _ Hr; subst; lia.
Qed.

(* a typed value / series: at least its descriptor byte; the block and the rest partition bs *)
Lemma split_typed_consumes : forall series mult bs vb r,
  split_typed series mult bs = Some (vb, r) ->
  (1 + length r <= length bs)%nat /\ length bs = (length vb + length r)%nat.
Proof.
  intros series mult bs vb r H. unfold split_typed in H.
  destruct (read_type bs) as [[[c l] r0]|] eqn:E; [|discriminate]. apply read_type_consumes in E.
  peel_all H. take_facts. lia.
Qed.

(* n fields cost >= 3 n bytes; the decoder returns exactly n fields *)
Theorem dec_fields_bounded : forall m mult dup n bs l r,
  dec_fields m mult dup n bs = Some (l, r) ->
  (3 * n + length r <= length bs)%nat /\ length l = n.
Proof.
  intros m mult dup. induction n as [|n IH]; intros bs l r H; cbn [dec_fields] in H.
  - injection H as Hl Hr. subst l r. split; [lia|reflexivity].
  - destruct (dec_index bs) as [[i r0]|] eqn:E0; [|discriminate]. apply dec_index_consumes in E0.
    peel H. destruct (split_typed (negb dup) mult r0) as [[vb r1]|] eqn:E1; [|discriminate].
    apply split_typed_consumes in E1.
    destruct (dec_fields m mult dup n r1) as [[l' r2]|] eqn:E2; [|discriminate]. apply IH in E2.
    peel H. injection H as Hl Hr. subst l r. cbn [length]. lia.
Qed.

Lemma dec_frame_bounded : forall bs sb ib rest, dec_frame bs = Some (sb, ib, rest) ->
  length bs = (8 + length sb + length ib + length rest)%nat.
Proof.
  intros bs sb ib rest H. unfold dec_frame in H. peel_all H.
  injection H as Hs Hi Hr. subst. take_facts. lia.
Qed.

(* whatever l_shared, l_indiv, n_info, n_fmt, n_sample say: an accepted record has its blocks inside
   the input, as many INFO fields and FORMAT series were decoded as the walker was asked for, the
   FORMAT series number at most |individual block| / 3 (for INFO the same bound relative to the
   bytes left of the site block after FILTER is dec_fields_bounded), and n_sample does not exceed
   the header's sample count *)
Theorem dec_record_bounded : forall strings contigs hs bs h infos fmts rest,
  dec_record strings contigs hs bs = Some (h, infos, fmts, rest) ->
  (8 + 3 * length fmts + length rest <= length bs)%nat /\ h_n_sample h <= hs.
Proof.
  intros strings contigs hs bs h infos fmts rest H. unfold dec_record in H.
  destruct (dec_frame bs) as [[[sb ib] rest']|] eqn:E0; [|discriminate]. apply dec_frame_bounded in E0.
  destruct (dec_head strings contigs sb) as [[h' info_bytes]|] eqn:E1; [|discriminate].
  destruct (hs <? h_n_sample h') eqn:S; [discriminate|].
  match type of H with
  | match dec_fields ?a ?b ?c ?d ?e with _ => _ end = _ =>
      destruct (dec_fields a b c d e) as [[infos' r1]|] eqn:E2; [|discriminate]
  end.
  match type of H with
  | match dec_fields ?a ?b ?c ?d ?e with _ => _ end = _ =>
      destruct (dec_fields a b c d e) as [[fmts' r2]|] eqn:E3; [|discriminate]
  end.
  injection H as Hh Hi Hf Hr. subst h' infos' fmts' rest'.
  apply dec_fields_bounded in E3. lia.
Qed.

(* ---- the recursion of read_type <-> read_value ----
   Before fix ea50dd5 the descriptor 0xf1^n 0x11 0x01^n was accepted with recursion depth n + 1
   (finding stack-bcf-typed-length-nesting, a stack overflow for n ~ 10^5).  Now the descriptor of
   a length value may not carry an overflow length itself: depth 2 is always enough -- any fuel
   >= 2 gives the result of fuel 2, for EVERY byte string. *)
Lemma dec_type_inner : forall f b t, Z.of_N b / 16 =? 15 = false ->
  dec_type (S f) (b :: t) = dec_type 1 (b :: t).
Proof. intros f b t H. cbn [dec_type]. cbv zeta. rewrite H. reflexivity. Qed.

Theorem dec_type_depth_two : forall f bs, dec_type (S (S f)) bs = dec_type 2 bs.
Proof.
  intros f bs. destruct bs as [|b r]; [reflexivity|].
  change (dec_type 2 (b :: r)) with (dec_type (S 1) (b :: r)).
  remember (S f) as g eqn:Eg. remember 1%nat as one eqn:E1.
  cbn [dec_type]. cbv zeta. destruct (Z.of_N b / 16 =? 15); [|reflexivity].
  destruct r as [|b2 t]; [subst; reflexivity|].
  destruct (Z.of_N b2 / 16 =? 15) eqn:E; [reflexivity|].
  subst g one. rewrite (dec_type_inner f b2 t E). reflexivity.
Qed.

Theorem read_type_depth_two : forall bs, read_type bs = dec_type 2 bs \/ bs = [].
Proof.
  intros [|b t]; [right; reflexivity|left]. unfold read_type. cbn [length].
  destruct t as [|b2 t2]; [|apply dec_type_depth_two].
  cbn [dec_type]. cbv zeta. destruct (Z.of_N b / 16 =? 15); reflexivity.
Qed.

(* the former witness of unbounded depth is now rejected *)
Theorem dec_type_nested_rejected : forall f n rest, (2 <= n)%nat ->
  dec_type f (repeat 241%N n ++ rest) = None.
Proof.
  intros f n rest Hn. destruct n as [|[|n]]; try lia. cbn [repeat app].
  destruct f as [|f]; [reflexivity|]. cbn [dec_type]. cbv zeta. reflexivity.
Qed.
