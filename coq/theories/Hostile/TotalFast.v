(* C15 totality, FASTA / FASTQ side: the record readers and indexers modelled by C11 (NV.Fasta.Reader,
   NV.Fasta.Indexer, NV.Fasta.Fastq; owned by C11 and tied to the crates by its correspondence check).

   The models have no panic outcome (the Rust reads with read_until / read_line into growing
   buffers and indexes nothing); what a hostile file can attack is the record LOOP.  For EVERY byte
   string this file proves that the four loops
     fasta::io::Reader::records,   fasta::fs::index (Indexer::index_record),
     fastq::io::Reader::records,   fastq::fs::index
   end because the input ends or a record is rejected -- never because of the model's fuel -- and
   that they return at most one record per line / per byte of input.
   Proofs only; no new model function. *)
From Coq Require Import List Arith NArith Bool Lia.
From Coq Require Import ZifyBool ZifyNat ZifyN.
From NV Require Import Fasta.Layout Fasta.Query Fasta.Reader Fasta.Indexer Fasta.Fastq
  Fasta.FastqGrammar Fasta.FastqGrammarProofs.
Import ListNotations.
Open Scope N_scope.

(* ---- FASTA reader ---- *)

Lemma read_seq_lines_rest : forall ls, (length (snd (read_seq_lines ls)) <= length ls)%nat.
Proof.
  induction ls as [|l rest IH]; [cbn; lia|]. cbn [read_seq_lines].
  destruct (drop_crlf l) as [|b t]; [cbn [length]; lia|].
  destruct (b =? GT); [cbn [snd length]; lia|].
  destruct (read_seq_lines rest) as [s r]. cbn [snd length] in *. lia.
Qed.

Theorem fasta_read_records_total : forall fuel ls, (length ls < fuel)%nat ->
  snd (read_records fuel ls) <> Some ROutOfFuel /\
  (length (fst (read_records fuel ls)) <= length ls)%nat.
Proof.
  induction fuel as [|fuel IH]; intros ls H; [lia|]. cbn [read_records].
  destruct ls as [|d r]; [cbn; split; [discriminate|lia]|].
  destruct (parse_def (def_content d)) as [[n desc]|]; [|cbn; split; [discriminate|lia]].
  pose proof (read_seq_lines_rest r) as Hr.
  destruct (read_seq_lines r) as [s rest]. cbn [snd] in Hr. cbn [length] in H.
  destruct (IH rest ltac:(lia)) as [H1 H2].
  destruct (read_records fuel rest) as [rs e]. cbn [fst snd length] in *. split; [exact H1|lia].
Qed.

Theorem fasta_read_file_total : forall f,
  snd (read_file f) <> Some ROutOfFuel /\ (length (fst (read_file f)) <= length (lines f))%nat.
Proof. intro f. unfold read_file. apply fasta_read_records_total. lia. Qed.

(* ---- FASTA indexer ---- *)

Lemma seq_loop_rest : forall elw elb ls bc off bc' off' rest,
  seq_loop elw elb ls bc off = inr (bc', off', rest) -> (length rest <= length ls)%nat.
Proof.
  intros elw elb ls. induction ls as [|l r IH]; intros bc off bc' off' rest E.
  - cbn [seq_loop] in E. injection E as _ _ Hr. subst rest. lia.
  - cbn [seq_loop] in E. destruct (is_def l).
    + injection E as _ _ Hr. subst rest. lia.
    + destruct (at_end r && (len l <=? elw) && (len (content l) <=? elb)).
      * injection E as _ _ Hr. subst rest. cbn [length]. lia.
      * destruct (negb (len (content l) =? elb)); [discriminate E|].
        destruct (negb (len l =? elw)); [discriminate E|].
        specialize (IH _ _ _ _ _ E). cbn [length]. lia.
Qed.

Lemma seq_loop_nofuel : forall elw elb ls bc off, seq_loop elw elb ls bc off <> inl EOutOfFuel.
Proof.
  intros elw elb ls. induction ls as [|l r IH]; intros bc off Es; cbn [seq_loop] in Es; [discriminate Es|].
  destruct (is_def l); [discriminate Es|].
  destruct (at_end r && (len l <=? elw) && (len (content l) <=? elb)); [discriminate Es|].
  destruct (negb (len (content l) =? elb)); [discriminate Es|].
  destruct (negb (len l =? elw)); [discriminate Es|]. exact (IH _ _ Es).
Qed.

Lemma index_record_progress : forall ls off r off' rest,
  index_record ls off = inr (Some (r, off', rest)) -> (length rest < length ls)%nat.
Proof.
  intros ls off r off' rest E. unfold index_record in E.
  destruct ls as [|d t]; [discriminate E|].
  destruct (parse_def_name (def_content d)) as [name|]; [|discriminate E].
  destruct (consume_sequence_line t) as [[lw lb] r1] eqn:Ec.
  assert (H1 : (length r1 <= length t)%nat).
  { unfold consume_sequence_line in Ec. destruct t as [|l t']; [injection Ec as _ _ Hr; subst r1; lia|].
    destruct (is_def l); injection Ec as _ _ Hr; subst r1; cbn [length]; lia. }
  destruct (lb =? 0); [discriminate E|].
  destruct (seq_loop lw lb r1 lb (off + len d + lw)) as [e|[[bc off3] rest']] eqn:Es; [discriminate E|].
  injection E as _ _ Hr. subst rest'. pose proof (seq_loop_rest _ _ _ _ _ _ _ _ Es). cbn [length]. lia.
Qed.

Theorem fasta_index_loop_total : forall fuel ls off, (length ls < fuel)%nat ->
  snd (index_loop fuel ls off) <> Some EOutOfFuel /\
  (length (fst (index_loop fuel ls off)) <= length ls)%nat.
Proof.
  induction fuel as [|fuel IH]; intros ls off H; [lia|]. cbn [index_loop].
  destruct (index_record ls off) as [e|[[[r off'] rest]|]] eqn:E.
  - cbn. split; [|lia]. intro Hc. injection Hc as Hc. subst e.
    unfold index_record in E. destruct ls as [|d t]; [discriminate E|].
    destruct (parse_def_name (def_content d)); [|discriminate E].
    destruct (consume_sequence_line t) as [[lw lb] r1].
    destruct (lb =? 0); [discriminate E|].
    destruct (seq_loop lw lb r1 lb (off + len d + lw)) as [e|[[bc off3] rest']] eqn:Es; [|discriminate E].
    injection E as E. subst e. exact (seq_loop_nofuel _ _ _ _ _ Es).
  - pose proof (index_record_progress _ _ _ _ _ E) as Hp.
    destruct (IH rest off' ltac:(lia)) as [H1 H2].
    destruct (index_loop fuel rest off') as [rs e]. cbn [fst snd length] in *. split; [exact H1|lia].
  - cbn. split; [discriminate|lia].
Qed.

Theorem fasta_index_file_total : forall f,
  snd (index_file f) <> Some EOutOfFuel /\ (length (fst (index_file f)) <= length (lines f))%nat.
Proof. intro f. unfold index_file. apply fasta_index_loop_total. lia. Qed.

(* ---- FASTQ reader: C11's grammar theorems give the three-way outcome directly ---- *)

Theorem fastq_read_file_total : forall f,
  snd (read_qfile f) = None \/ snd (read_qfile f) = Some QInvalidData \/ snd (read_qfile f) = Some QUnexpectedEof.
Proof.
  intro f. destruct (fq_accepts f) eqn:E.
  - left. apply accepts_iff. exact E.
  - right. exact (rejects_with f E).
Qed.

(* ---- FASTQ indexer ---- *)

Lemma take_line_rest : forall s, (length (snd (take_line s)) <= length s)%nat.
Proof.
  induction s as [|b t IH]; [cbn; lia|]. cbn [take_line].
  destruct (b =? LF); [cbn; lia|]. destruct (take_line t) as [l r]. cbn [snd length] in *. lia.
Qed.

Lemma scan_name_rest : forall s, (length (snd (scan_name s)) <= length s)%nat.
Proof.
  induction s as [|b t IH]; [cbn; lia|]. cbn [scan_name].
  destruct ((b =? SP) || (b =? HT) || (b =? LF)); [cbn; lia|].
  destruct (scan_name t) as [[n dl] r]. cbn [snd length] in *. lia.
Qed.

Lemma read_definition_progress : forall s n d r,
  read_definition s = inr (Some (n, d, r)) -> (length r < length s)%nat.
Proof.
  intros s n d r E. unfold read_definition in E. destruct s as [|b t]; [discriminate E|].
  destruct (negb (b =? AT)); [discriminate E|].
  pose proof (scan_name_rest t) as Hs. destruct (scan_name t) as [[n' dl] r'] eqn:En. cbn [snd] in Hs.
  destruct dl as [dc|].
  - destruct (dc =? LF).
    + injection E as _ _ Hr. subst r. cbn [length]. lia.
    + unfold read_line in E. pose proof (take_line_rest r') as Ht.
      destruct (take_line r') as [l r2]. cbn [snd] in Ht. injection E as _ _ Hr. subst r. cbn [length]. lia.
  - injection E as _ _ Hr. subst r. cbn [length]. lia.
Qed.

Lemma index_qrec_progress : forall s off r off' rest,
  index_qrec s off = inr (Some (r, off', rest)) -> (length rest < length s)%nat.
Proof.
  intros s off r off' rest E. unfold index_qrec in E.
  destruct (read_definition s) as [e|[[[n d] r1]|]] eqn:Ed; [discriminate E| |discriminate E].
  pose proof (read_definition_progress _ _ _ _ Ed) as H1.
  destruct (utf8_valid n); [|discriminate E].
  pose proof (take_line_rest r1) as H2. destruct (take_line r1) as [l1 r2]. cbn [snd] in H2.
  pose proof (take_line_rest r2) as H3. destruct (take_line r2) as [l2 r3]. cbn [snd] in H3.
  pose proof (take_line_rest r3) as H4. destruct (take_line r3) as [l3 r4]. cbn [snd] in H4.
  injection E as _ _ Hr. subst rest. lia.
Qed.

Lemma index_qrec_nofuel : forall s off, index_qrec s off <> inl QOutOfFuel.
Proof.
  intros s off E. unfold index_qrec in E.
  destruct (read_definition s) as [e|[[[n d] r1]|]] eqn:Ed; [| |discriminate E].
  - injection E as E. subst e. unfold read_definition in Ed. destruct s as [|b t]; [discriminate Ed|].
    destruct (negb (b =? AT)); [discriminate Ed|].
    destruct (scan_name t) as [[n' dl] r']. destruct dl as [dc|]; [|discriminate Ed].
    destruct (dc =? LF); [discriminate Ed|]. destruct (read_line r'); discriminate Ed.
  - destruct (utf8_valid n); [|discriminate E].
    destruct (take_line r1) as [l1 r2]. destruct (take_line r2) as [l2 r3]. destruct (take_line r3) as [l3 r4].
    discriminate E.
Qed.

Theorem fastq_index_qrecs_total : forall fuel s off, (length s < fuel)%nat ->
  snd (index_qrecs fuel s off) <> Some QOutOfFuel /\
  (length (fst (index_qrecs fuel s off)) <= length s)%nat.
Proof.
  induction fuel as [|fuel IH]; intros s off H; [lia|]. cbn [index_qrecs].
  destruct (index_qrec s off) as [e|[[[r off'] rest]|]] eqn:E.
  - cbn. split; [|lia]. intro Hc. injection Hc as Hc. subst e. exact (index_qrec_nofuel s off E).
  - pose proof (index_qrec_progress _ _ _ _ _ E) as Hp.
    destruct (IH rest off' ltac:(lia)) as [H1 H2].
    destruct (index_qrecs fuel rest off') as [rs e]. cbn [fst snd length] in *. split; [exact H1|lia].
  - cbn. split; [discriminate|lia].
Qed.

Theorem fastq_index_file_total : forall f,
  snd (index_qfile f) <> Some QOutOfFuel /\ (length (fst (index_qfile f)) <= length f)%nat.
Proof. intro f. unfold index_qfile. apply fastq_index_qrecs_total. lia. Qed.

(* the FASTQ record loop returns at most one record per byte *)
Lemma read_qrec_progress : forall s r rest, read_qrec s = inr (Some (r, rest)) -> (length rest < length s)%nat.
Proof.
  intros s r rest E. unfold read_qrec in E.
  destruct (read_definition s) as [e|[[[n d] r1]|]] eqn:Ed; [discriminate E| |discriminate E].
  pose proof (read_definition_progress _ _ _ _ Ed) as H1.
  unfold read_line in E.
  pose proof (take_line_rest r1) as H2. destruct (take_line r1) as [l1 r2]. cbn [snd] in H2.
  unfold consume_plus_line in E. destruct r2 as [|b t]; [discriminate E|].
  destruct (b =? PLUS); [|discriminate E].
  pose proof (take_line_rest t) as H3. destruct (take_line t) as [l2 r3]. cbn [snd] in H3. cbn [snd] in E.
  pose proof (take_line_rest r3) as H4. destruct (take_line r3) as [l3 r4]. cbn [snd] in H4.
  injection E as _ Hr. subst rest. cbn [length] in *. lia.
Qed.

Theorem fastq_read_qrecs_bounded : forall fuel s, (length (fst (read_qrecs fuel s)) <= length s)%nat.
Proof.
  induction fuel as [|fuel IH]; intro s; [cbn; lia|]. cbn [read_qrecs].
  destruct (read_qrec s) as [e|[[r rest]|]] eqn:E; [cbn; lia| |cbn; lia].
  pose proof (read_qrec_progress _ _ _ E) as Hp. specialize (IH rest).
  destruct (read_qrecs fuel rest) as [rs e]. cbn [fst length] in *. lia.
Qed.
