(* C15 model of the FUSED lazy iterators (repairs 700dd65 sam data, 83824ec bam data, f81811e gff
   attributes): `next` parses one item off the front of the remaining source; when the item parser
   fails, the remaining source is discarded (`*src = &[]`), so the error is yielded once and the
   next call returns None.  Definitions only.

   [fused_run parse fuel src] = the items a consumer that never stops on its own sees
   (`for x in it`, `count`, `last`): IOk a / IErr in order.  The GFF instance is the real
   record/attributes/field.rs::next + parse; the BAM instance reuses C05's lazy value decoder; the
   SAM field parser is not modelled (any parser: the Section variable). *)
From Coq Require Import List NArith Bool.
From NV Require Import Base.Percent Text.TextBase Text.Gff.
Import ListNotations.
Open Scope N_scope.

Inductive item (A : Type) := IOk (a : A) | IErr.
Arguments IOk {A} a.
Arguments IErr {A}.

Section Fused.
  Variable A : Type.
  (* the item parser on a non-empty source: None = Err (whatever it consumed is irrelevant) *)
  Variable parse : list N -> option (A * list N).

  Definition fused_next (src : list N) : option (item A * list N) :=
    match src with
    | [] => None
    | _ => match parse src with
           | Some (a, rest) => Some (IOk a, rest)
           | None => Some (IErr, [])
           end
    end.

  Fixpoint fused_run (fuel : nat) (src : list N) : list (item A) :=
    match fuel with
    | O => []
    | S f => match fused_next src with
             | None => []
             | Some (x, rest) => x :: fused_run f rest
             end
    end.
End Fused.
Arguments fused_next {A} parse src.
Arguments fused_run {A} parse fuel src.

(* record/attributes/field.rs: take_tag (split at '=', an error without one), take_value (up to
   ';' or the end), then parse_tag / parse_value *)
Definition gff_field_parse (src : list N) : option ((list N * value) * list N) :=
  match split_once 61 src with
  | None => None
  | Some (t, rest) =>
      let vr := match split_once 59 rest with Some (v, r) => (v, r) | None => (rest, []) end in
      Some ((pct_dec t, gff_parse_value (fst vr)), snd vr)
  end.

(* Record::attributes().iter() driven to its end; the column "." is the empty source *)
Definition gff_attr_run (col : list N) : list (item (list N * value)) :=
  if bytes_eqb col [46] then [] else fused_run gff_field_parse (S (length col)) col.
