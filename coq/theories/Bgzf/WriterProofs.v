(* Invariant of the writer model and the C01 theorems: whatever the script of write / write_all /
   flush calls and however the writer is disposed of, the sink is a sequence of well-formed
   frames of non-empty blocks whose concatenation is exactly the accepted bytes, followed by the
   EOF marker; the reader model gives those bytes back. *)
From Coq Require Import List Arith NArith Bool Lia ZifyBool ZifyNat ZifyN.
From NV Require Import Base.LE Bgzf.Crc32 Bgzf.Crc32Proofs Bgzf.Frame Bgzf.FrameProofs
  Bgzf.Writer Bgzf.Reader Bgzf.ReaderProofs.
Import ListNotations.
Open Scope N_scope.

Definition is_ok {A : Type} (r : res A) : Prop := match r with Ok _ => True | _ => False end.

Lemma frames_bytes_app : forall a b, frames_bytes (a ++ b) = frames_bytes a ++ frames_bytes b.
Proof. intros a b. unfold frames_bytes. rewrite map_app, concat_app. reflexivity. Qed.

Lemma frames_bytes_one : forall f, frames_bytes [f] = fbytes f.
Proof. intros f. unfold frames_bytes. cbn [map concat]. apply app_nil_r. Qed.

Section WriterProofs.
  Variable deflate : N -> list N -> list N.
  Variable lvl : N.
  (* level 0 (stored blocks) never expands a staging buffer by more than 15 bytes *)
  Hypothesis H_l0 : forall x, lenN x <= MAX_BUF_SIZE -> lenN (deflate 0 x) <= MAX_COMPRESSED_SIZE.

  (* the compressed data encode settles on *)
  Definition enc (x : list N) : list N :=
    if lenN (deflate lvl x) <=? MAX_COMPRESSED_SIZE then deflate lvl x else deflate 0 x.

  Definition wframe (b : list N) : list N * list N := (b, enc b).

  Definition good_block (b : list N) : Prop := b <> [] /\ lenN b <= MAX_BUF_SIZE.

  Lemma enc_bound : forall x, lenN x <= MAX_BUF_SIZE -> lenN (enc x) <= MAX_COMPRESSED_SIZE.
  Proof.
    intros x Hx. unfold enc.
    destruct (lenN (deflate lvl x) <=? MAX_COMPRESSED_SIZE) eqn:E; [lia|]. apply H_l0. exact Hx.
  Qed.

  (* c01_no_unreachable *)
  Lemma encode_ok :
    forall x, lenN x <= MAX_BUF_SIZE -> encode deflate lvl x = Ok (enc x, crc32 x).
  Proof.
    intros x Hx. unfold encode, enc.
    destruct (lenN (deflate lvl x) <=? MAX_COMPRESSED_SIZE) eqn:E; [reflexivity|].
    pose proof (H_l0 x Hx) as H0.
    destruct (lenN (deflate 0 x) <=? MAX_COMPRESSED_SIZE) eqn:E0; [reflexivity|lia].
  Qed.

  (* inv0: staging may be full (the state inside write before the flush); inv: between calls *)
  Definition inv0 (st : wstate) (blocks : list (list N)) : Prop :=
    w_sink st = frames_bytes (map wframe blocks) /\ w_pos st = lenN (w_sink st) /\
    lenN (w_staging st) <= MAX_BUF_SIZE /\ Forall good_block blocks /\ w_inner st = true.

  Definition inv (st : wstate) (blocks : list (list N)) : Prop :=
    inv0 st blocks /\ lenN (w_staging st) < MAX_BUF_SIZE.

  Definition content (st : wstate) (blocks : list (list N)) : list N :=
    concat blocks ++ w_staging st.

  Lemma inv_init : inv w_init [].
  Proof. unfold inv, inv0, w_init, MAX_BUF_SIZE. cbn. repeat split; try lia; constructor. Qed.

  Lemma flush_block_inv :
    forall st blocks, inv0 st blocks -> w_staging st <> [] ->
      exists st', flush_block deflate lvl st = (st', Ok tt) /\ inv st' (blocks ++ [w_staging st]) /\
                  w_staging st' = [].
  Proof.
    intros [pos stg sink inner] blocks (Hs & Hp & Hl & Hb & Hi) Hne. cbn [w_sink w_pos w_staging w_inner] in *.
    unfold flush_block. cbn [w_sink w_pos w_staging w_inner].
    rewrite (encode_ok stg Hl). pose proof (enc_bound stg Hl) as Hc.
    unfold MAX_BUF_SIZE, MAX_COMPRESSED_SIZE in *.
    rewrite write_frame_ok by lia.
    eexists. split; [reflexivity|]. split; [|reflexivity].
    unfold inv, inv0. cbn [w_sink w_pos w_staging w_inner]. unfold MAX_BUF_SIZE.
    split; [split; [|split; [|split; [|split]]]|].
    - rewrite map_app, frames_bytes_app. cbn [map]. rewrite frames_bytes_one. subst sink. reflexivity.
    - rewrite lenN_app, frame_bytes_lenN. lia.
    - cbn. lia.
    - apply Forall_app. split; [exact Hb|]. constructor; [|constructor].
      split; [exact Hne|exact Hl].
    - exact Hi.
    - cbn. lia.
  Qed.

  Lemma flush_inv :
    forall st blocks, inv0 st blocks ->
      exists st' blocks', flush deflate lvl st = (st', Ok tt) /\ inv st' blocks' /\
        w_staging st' = [] /\ concat blocks' = content st blocks.
  Proof.
    intros st blocks H0. unfold flush. destruct (w_staging st) as [|x stg] eqn:Es.
    - exists st, blocks. split; [reflexivity|]. split.
      + split; [exact H0|]. rewrite Es. cbn. unfold MAX_BUF_SIZE. lia.
      + split; [exact Es|]. unfold content. rewrite Es. symmetry. apply app_nil_r.
    - assert (Hne : w_staging st <> []) by (rewrite Es; discriminate).
      destruct (flush_block_inv st blocks H0 Hne) as (st' & Hf & Hinv & Hst).
      exists st', (blocks ++ [w_staging st]). split; [exact Hf|]. split; [exact Hinv|].
      split; [exact Hst|]. unfold content. rewrite concat_app. cbn [concat]. rewrite app_nil_r.
      reflexivity.
  Qed.

  Lemma lenN_firstn :
    forall (l : list N) n, n <= lenN l -> lenN (firstn (N.to_nat n) l) = n.
  Proof. intros l n Hn. unfold lenN in *. rewrite firstn_length. lia. Qed.

  Lemma write_inv :
    forall st blocks buf, inv st blocks ->
      exists st' blocks',
        let amt := N.min (MAX_BUF_SIZE - lenN (w_staging st)) (lenN buf) in
        write deflate lvl st buf = (st', Ok amt) /\ inv st' blocks' /\
        content st' blocks' = content st blocks ++ firstn (N.to_nat amt) buf.
  Proof.
    intros st blocks buf (H0 & Hlt). cbn zeta.
    set (amt := N.min (MAX_BUF_SIZE - lenN (w_staging st)) (lenN buf)).
    unfold write. fold amt.
    destruct (MAX_BUF_SIZE <? lenN (w_staging st)) eqn:E; [lia|].
    set (st1 := mk_wstate (w_pos st) (w_staging st ++ firstn (N.to_nat amt) buf) (w_sink st) (w_inner st)).
    assert (Hlen1 : lenN (w_staging st1) = lenN (w_staging st) + amt).
    { unfold st1. cbn [w_staging]. rewrite lenN_app, lenN_firstn by lia. reflexivity. }
    assert (H01 : inv0 st1 blocks).
    { destruct H0 as (Hs & Hp & Hl & Hb & Hi). unfold inv0, st1. cbn [w_sink w_pos w_staging w_inner].
      repeat split; try assumption. fold st1. change (w_staging st ++ firstn (N.to_nat amt) buf) with (w_staging st1).
      lia. }
    assert (Hc1 : content st1 blocks = content st blocks ++ firstn (N.to_nat amt) buf).
    { unfold content, st1. cbn [w_staging]. apply app_assoc. }
    destruct (lenN (w_staging st1) <? MAX_BUF_SIZE) eqn:E1.
    - exists st1, blocks. split; [reflexivity|]. split; [|exact Hc1]. split; [exact H01|lia].
    - destruct (flush_inv st1 blocks H01) as (st2 & blocks2 & Hf & Hinv2 & Hst2 & Hcat).
      rewrite Hf. exists st2, blocks2. split; [reflexivity|]. split; [exact Hinv2|].
      unfold content at 1. rewrite Hst2, app_nil_r, Hcat. exact Hc1.
  Qed.

  Lemma write_all_inv :
    forall fuel buf st blocks, (length buf < fuel)%nat -> inv st blocks ->
      exists st' blocks', write_all deflate fuel lvl st buf = (st', Ok tt) /\ inv st' blocks' /\
        content st' blocks' = content st blocks ++ buf.
  Proof.
    induction fuel as [|fuel IH]; intros buf st blocks Hfuel Hinv; [lia|].
    destruct buf as [|x buf'].
    - exists st, blocks. split; [reflexivity|]. split; [exact Hinv|]. symmetry. apply app_nil_r.
    - cbn [write_all]. remember (x :: buf') as buf eqn:Eb.
      destruct (write_inv st blocks buf Hinv) as (st1 & blocks1 & Hw & Hinv1 & Hc1). cbn zeta in Hw, Hc1.
      set (amt := N.min (MAX_BUF_SIZE - lenN (w_staging st)) (lenN buf)) in *.
      rewrite Hw.
      assert (Hpos : 0 < amt).
      { destruct Hinv as (_ & Hlt). assert (1 <= lenN buf) by (rewrite Eb, lenN_cons; lia). lia. }
      assert (Hle : amt <= lenN buf) by lia.
      destruct (amt =? 0) eqn:E0; [lia|].
      assert (Hsk : (length (skipn (N.to_nat amt) buf) < fuel)%nat).
      { rewrite skipn_length. unfold lenN in Hle. lia. }
      destruct (IH _ st1 blocks1 Hsk Hinv1) as (st2 & blocks2 & Hwa & Hinv2 & Hc2).
      exists st2, blocks2. split; [exact Hwa|]. split; [exact Hinv2|].
      rewrite Hc2, Hc1, <- app_assoc, firstn_skipn. reflexivity.
  Qed.

  Lemma step_inv :
    forall st blocks o, inv st blocks ->
      exists st' blocks' r, step deflate lvl st o = (st', r) /\ is_ok r /\ inv st' blocks' /\
        content st' blocks' = content st blocks ++ accepted_of o r.
  Proof.
    intros st blocks o Hinv. destruct o as [buf|buf|].
    - destruct (write_inv st blocks buf Hinv) as (st1 & blocks1 & Hw & Hinv1 & Hc1). cbn zeta in Hw, Hc1.
      cbn [step]. rewrite Hw. eexists st1, blocks1, _. split; [reflexivity|].
      split; [exact I|]. split; [exact Hinv1|]. cbn [accepted_of]. exact Hc1.
    - destruct (write_all_inv (S (length buf)) buf st blocks ltac:(lia) Hinv) as (st1 & blocks1 & Hw & Hinv1 & Hc1).
      cbn [step]. rewrite Hw. eexists st1, blocks1, _. split; [reflexivity|].
      split; [exact I|]. split; [exact Hinv1|]. cbn [accepted_of]. exact Hc1.
    - destruct Hinv as (H0 & Hlt).
      destruct (flush_inv st blocks H0) as (st1 & blocks1 & Hf & Hinv1 & Hst1 & Hcat).
      cbn [step]. rewrite Hf. eexists st1, blocks1, _. split; [reflexivity|].
      split; [exact I|]. split; [exact Hinv1|]. cbn [accepted_of]. rewrite app_nil_r.
      unfold content at 1. rewrite Hst1, app_nil_r. exact Hcat.
  Qed.

  Lemma run_ops_inv :
    forall ops st blocks, inv st blocks ->
      exists st' blocks' obs, run_ops deflate lvl st ops = (st', obs, false) /\ inv st' blocks' /\
        content st' blocks' = content st blocks ++ accepted ops obs /\
        Forall (fun o => is_ok (fst o)) obs /\ length obs = length ops.
  Proof.
    induction ops as [|o ops IH]; intros st blocks Hinv.
    - exists st, blocks, []. split; [reflexivity|]. split; [exact Hinv|].
      split; [cbn [accepted]; symmetry; apply app_nil_r|]. split; [constructor|reflexivity].
    - destruct (step_inv st blocks o Hinv) as (st1 & blocks1 & r & Hs & Hok & Hinv1 & Hc1).
      destruct (IH st1 blocks1 Hinv1) as (st2 & blocks2 & obs & Hr & Hinv2 & Hc2 & Hall & Hlen).
      cbn [run_ops]. rewrite Hs. destruct r as [v|e|]; [|contradiction|contradiction].
      rewrite Hr. eexists st2, blocks2, _. split; [reflexivity|]. split; [exact Hinv2|].
      split; [|split].
      + cbn [accepted]. rewrite Hc2, Hc1, <- app_assoc. reflexivity.
      + constructor; [exact I|exact Hall].
      + cbn [length]. rewrite Hlen. reflexivity.
  Qed.

  (* state after a successful try_finish: frames, then k EOF markers, nothing staged *)
  Definition finished (st : wstate) (blocks : list (list N)) (k : nat) : Prop :=
    w_sink st = frames_bytes (map wframe blocks) ++ concat (repeat eof_block k) /\
    w_pos st = lenN (w_sink st) /\ w_staging st = [] /\ Forall good_block blocks /\ w_inner st = true.

  Lemma try_finish_inv :
    forall st blocks, inv0 st blocks ->
      exists st' blocks', try_finish deflate lvl st = (st', Ok tt) /\ finished st' blocks' 1 /\
        concat blocks' = content st blocks.
  Proof.
    intros st blocks H0.
    destruct (flush_inv st blocks H0) as (st1 & blocks1 & Hf & ((Hs & Hp & Hl & Hb & Hi) & _) & Hst1 & Hcat).
    unfold try_finish. rewrite Hf. eexists _, blocks1. split; [reflexivity|]. split; [|exact Hcat].
    unfold finished. cbn [w_sink w_pos w_staging w_inner repeat concat]. rewrite app_nil_r.
    repeat split; try assumption.
    - rewrite Hs. reflexivity.
    - rewrite Hp, !lenN_app. reflexivity.
  Qed.

  Lemma try_finish_again :
    forall st blocks k, finished st blocks k ->
      exists st', try_finish deflate lvl st = (st', Ok tt) /\ finished st' blocks (S k).
  Proof.
    intros [pos stg sink inner] blocks k (Hs & Hp & Hst & Hb & Hi). cbn [w_sink w_pos w_staging w_inner] in *.
    subst stg. unfold try_finish, flush. cbn [w_sink w_pos w_staging w_inner].
    eexists. split; [reflexivity|]. unfold finished. cbn [w_sink w_pos w_staging w_inner].
    repeat split; try assumption.
    - rewrite Hs, <- app_assoc. f_equal.
      replace (S k) with (k + 1)%nat by lia. rewrite repeat_app, concat_app. cbn [repeat concat].
      rewrite app_nil_r. reflexivity.
    - rewrite Hp, lenN_app. reflexivity.
  Qed.

  (* ---- the file a script leaves behind ---- *)
  Definition n_eof (e : ending) : nat := match e with ETryFinishDrop => 2%nat | _ => 1%nat end.

  Theorem writer_wellformed :
    forall ops e,
      let o := run_script deflate lvl ops e in
      exists blocks,
        o_sink o = frames_bytes (map wframe blocks) ++ concat (repeat eof_block (n_eof e)) /\
        Forall good_block blocks /\
        concat blocks = accepted ops (o_results o) /\
        o_end o = Ok tt /\
        Forall (fun r => is_ok (fst r)) (o_results o) /\ length (o_results o) = length ops.
  Proof.
    intros ops e. cbn zeta. unfold run_script.
    destruct (run_ops_inv ops w_init [] inv_init) as (st & blocks & obs & Hr & (H0 & Hlt) & Hc & Hall & Hlen).
    rewrite Hr. unfold content in Hc. cbn [concat w_init w_staging app] in Hc.
    destruct (try_finish_inv st blocks H0) as (st1 & blocks1 & Htf & Hfin & Hcat).
    assert (Hacc : concat blocks1 = accepted ops obs) by (rewrite Hcat; exact Hc).
    destruct e; cbn [run_ending n_eof].
    - (* finish *)
      rewrite Htf. cbn [o_sink o_end o_results take_inner w_sink].
      destruct Hfin as (Hs & _ & _ & Hb & _). exists blocks1. repeat split; assumption.
    - (* try_finish + into_inner *)
      rewrite Htf. cbn [o_sink o_end o_results take_inner w_sink].
      destruct Hfin as (Hs & _ & _ & Hb & _). exists blocks1. repeat split; assumption.
    - (* drop *)
      unfold drop. destruct H0 as (Hs0 & Hp0 & Hl0 & Hb0 & Hi0). rewrite Hi0, Htf.
      cbn [fst o_sink o_end o_results].
      destruct Hfin as (Hs & _ & _ & Hb & _). exists blocks1. repeat split; assumption.
    - (* try_finish, then drop: a second EOF marker *)
      rewrite Htf. destruct (try_finish_again st1 blocks1 1 Hfin) as (st2 & Htf2 & Hfin2).
      unfold drop. destruct Hfin as (_ & _ & _ & _ & Hi1). rewrite Hi1, Htf2.
      cbn [fst o_sink o_end o_results].
      destruct Hfin2 as (Hs & _ & _ & Hb & _). exists blocks1. repeat split; assumption.
  Qed.

  (* what each emitted frame looks like *)
  Theorem wframe_wellformed :
    forall b, good_block b ->
      let f := fbytes (wframe b) in
      lenN f = 26 + lenN (enc b) /\ lenN f <= 65536 /\
      bsize_of f + 1 = lenN f /\
      firstn 16 f = header_prefix /\
      parse_frame f = Ok (lenN f, enc b, crc32 b, lenN b) /\
      0 < lenN b /\ lenN b <= 65536.
  Proof.
    intros b (Hne & Hl). cbn zeta. unfold fbytes, wframe. cbn [fst snd].
    pose proof (enc_bound b Hl) as Hc. unfold MAX_BUF_SIZE, MAX_COMPRESSED_SIZE in *.
    rewrite frame_bytes_lenN.
    split; [reflexivity|]. split; [|split; [|split; [|split; [|split]]]].
    - lia.
    - rewrite bsize_of_frame by lia. apply frame_bytes_lenN.
    - apply frame_bytes_header.
    - apply parse_frame_frame_bytes; [apply crc32_bound|lia].
    - destruct b as [|x b]; [contradiction|]. rewrite lenN_cons. lia.
    - lia.
  Qed.

  (* ---- read back ---- *)
  Variable inflate : list N -> N -> option (list N).
  Hypothesis H_rt : forall l x, lenN x <= BGZF_MAX_ISIZE -> inflate (deflate l x) (lenN x) = Some x.
  Hypothesis H_eof : inflate [3; 0] 0 = Some [].

  Lemma good_wframe : forall b, good_block b -> good_frame inflate (wframe b).
  Proof.
    intros b (Hne & Hl). unfold good_frame, wframe. cbn [fst snd].
    pose proof (enc_bound b Hl) as Hc. unfold MAX_BUF_SIZE, MAX_COMPRESSED_SIZE, BGZF_MAX_ISIZE in *.
    repeat split; [lia|lia|].
    unfold enc. destruct (lenN (deflate lvl b) <=? MAX_COMPRESSED_SIZE); apply H_rt;
      unfold BGZF_MAX_ISIZE; lia.
  Qed.

  (* every clause of "well-formed BGZF" for one emitted frame *)
  Definition frame_wf (b : list N) : Prop :=
    let f := fbytes (wframe b) in
    b <> [] /\ lenN b <= MAX_BUF_SIZE /\
    lenN f = 26 + lenN (enc b) /\ lenN f <= 65536 /\
    bsize_of f + 1 = lenN f /\
    firstn 16 f = header_prefix /\
    parse_frame f = Ok (lenN f, enc b, crc32 b, lenN b) /\
    inflate (enc b) (lenN b) = Some b.

  Lemma good_block_frame_wf : forall b, good_block b -> frame_wf b.
  Proof.
    intros b Hg. destruct (wframe_wellformed b Hg) as (H1 & H2 & H3 & H4 & H5 & H6 & H7).
    destruct (good_wframe b Hg) as (_ & _ & Hinf). cbn [wframe fst snd] in Hinf.
    destruct Hg as (Hne & Hl). unfold frame_wf. cbn zeta. repeat split; assumption.
  Qed.

  Theorem writer_wellformed_full :
    forall ops e,
      let o := run_script deflate lvl ops e in
      exists blocks,
        o_sink o = frames_bytes (map wframe blocks) ++ concat (repeat eof_block (n_eof e)) /\
        Forall frame_wf blocks /\
        concat blocks = accepted ops (o_results o) /\
        o_end o = Ok tt /\
        Forall (fun r => is_ok (fst r)) (o_results o) /\ length (o_results o) = length ops.
  Proof.
    intros ops e. cbn zeta.
    destruct (writer_wellformed ops e) as (blocks & Hs & Hb & Hacc & Hend & Hall & Hlen).
    exists blocks. split; [exact Hs|]. split.
    - eapply Forall_impl; [|exact Hb]. exact good_block_frame_wf.
    - repeat split; assumption.
  Qed.

  Lemma eofs_as_frames :
    forall k, concat (repeat eof_block k) = frames_bytes (repeat ([], [3; 0]) k).
  Proof.
    induction k as [|k IH]; [reflexivity|].
    cbn [repeat concat]. unfold frames_bytes in *. cbn [map concat]. rewrite <- IH, fbytes_eof.
    reflexivity.
  Qed.

  Theorem writer_reader_roundtrip :
    forall ops e,
      let o := run_script deflate lvl ops e in
      reader_read_to_end inflate (o_sink o) = (accepted ops (o_results o), Ok tt).
  Proof.
    intros ops e. cbn zeta.
    destruct (writer_wellformed ops e) as (blocks & Hs & Hb & Hacc & _).
    rewrite Hs, eofs_as_frames, <- frames_bytes_app.
    rewrite reader_read_to_end_frames.
    - rewrite map_app, concat_app, map_map. cbn [wframe fst].
      rewrite map_id, <- Hacc. f_equal.
      assert (Hnil : forall k, concat (map fst (repeat (@nil N, [3; 0]) k)) = []).
      { induction k as [|k IH]; [reflexivity|]. cbn [repeat map concat fst app]. exact IH. }
      rewrite Hnil. apply app_nil_r.
    - apply Forall_app. split.
      + rewrite Forall_map. eapply Forall_impl; [|exact Hb]. intros b Hgb. apply good_wframe. exact Hgb.
      + apply Forall_forall. intros f Hin. apply repeat_spec in Hin. subst f. apply good_eof. exact H_eof.
  Qed.
End WriterProofs.
