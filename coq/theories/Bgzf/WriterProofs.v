(* Invariant of the writer model and the C01 theorems: whatever the script of write / write_all /
   flush calls and however the writer is disposed of, the sink is a sequence of well-formed
   frames of non-empty blocks whose concatenation is exactly the accepted bytes, followed by the
   EOF marker; the reader model gives those bytes back. *)
From Coq Require Import List Arith NArith Bool Lia ZifyBool ZifyNat ZifyN.
From NV Require Import Base.LE Bgzf.Crc32 Bgzf.Crc32Proofs Bgzf.Frame Bgzf.FrameProofs
  Bgzf.Writer Bgzf.Reader Bgzf.ReaderProofs.
Import ListNotations.
Open Scope N_scope.

Definition is_ok {A : Type} (r : res A) : Prop := match r with Ok _ => True | _ => False end.

Lemma frames_bytes_app : forall a b, frames_bytes (a ++ b) = frames_bytes a ++ frames_bytes b.
Proof. intros a b. unfold frames_bytes. rewrite map_app, concat_app. reflexivity. Qed.

Lemma frames_bytes_one : forall f, frames_bytes [f] = fbytes f.
Proof. intros f. unfold frames_bytes. cbn [map concat]. apply app_nil_r. Qed.

Section WriterProofs.
  Variable deflate : N -> list N -> list N.
  Variable lvl : N.
  (* level 0 (stored blocks) never expands a staging buffer by more than 15 bytes *)
  Hypothesis H_l0 : forall x, lenN x <= MAX_BUF_SIZE -> lenN (deflate 0 x) <= MAX_COMPRESSED_SIZE.

  (* the compressed data encode settles on *)
  Definition enc (x : list N) : list N :=
    if lenN (deflate lvl x) <=? MAX_COMPRESSED_SIZE then deflate lvl x else deflate 0 x.

  Definition wframe (b : list N) : list N * list N := (b, enc b).

  Definition good_block (b : list N) : Prop := b <> [] /\ lenN b <= MAX_BUF_SIZE.

  Lemma enc_bound : forall x, lenN x <= MAX_BUF_SIZE -> lenN (enc x) <= MAX_COMPRESSED_SIZE.
  Proof.
    intros x Hx. unfold enc.
    destruct (lenN (deflate lvl x) <=? MAX_COMPRESSED_SIZE) eqn:E; [lia|]. apply H_l0. exact Hx.
  Qed.

  (* c01_no_unreachable *)
  Lemma encode_ok :
    forall x, lenN x <= MAX_BUF_SIZE -> encode deflate lvl x = Ok (enc x, crc32 x).
  Proof.
    intros x Hx. unfold encode, enc.
    destruct (lenN (deflate lvl x) <=? MAX_COMPRESSED_SIZE) eqn:E; [reflexivity|].
    pose proof (H_l0 x Hx) as H0.
    destruct (lenN (deflate 0 x) <=? MAX_COMPRESSED_SIZE) eqn:E0; [reflexivity|lia].
  Qed.

  (* The sink is a sequence of SEGMENTS, each a list of blocks followed by one EOF marker
     (closed by a try_finish), then the frames of the segment still open.  Only the first closed
     segment may be empty (try_finish on a fresh writer): two markers are never adjacent. *)
  Definition seg_bytes (seg : list (list N)) : list N :=
    frames_bytes (map wframe seg) ++ eof_block.
  Definition segs_bytes (segs : list (list (list N))) : list N := concat (map seg_bytes segs).
  Definition tail_nonempty (segs : list (list (list N))) : Prop :=
    match segs with [] => True | _ :: t => Forall (fun s => s <> []) t end.

  Definition base (st : wstate) (closed : list (list (list N))) (cur : list (list N)) : Prop :=
    w_sink st = segs_bytes closed ++ frames_bytes (map wframe cur) /\ w_pos st = lenN (w_sink st) /\
    Forall (Forall good_block) closed /\ Forall good_block cur /\ w_inner st = true /\
    tail_nonempty closed.

  (* is_finished <-> the last thing in the sink is a marker *)
  Definition flag (st : wstate) (closed : list (list (list N))) (cur : list (list N)) : Prop :=
    (w_finished st = true -> cur = [] /\ closed <> []) /\
    (w_finished st = false -> closed = [] \/ cur <> []).

  (* inv0: staging may be full (the state inside write before the flush); inv: between calls *)
  Definition inv0 st closed cur : Prop :=
    base st closed cur /\ flag st closed cur /\ lenN (w_staging st) <= MAX_BUF_SIZE.
  Definition inv st closed cur : Prop := inv0 st closed cur /\ lenN (w_staging st) < MAX_BUF_SIZE.

  Definition content (st : wstate) (closed : list (list (list N))) (cur : list (list N)) : list N :=
    concat (concat closed) ++ concat cur ++ w_staging st.

  Lemma inv_init : inv w_init [] [].
  Proof.
    unfold inv, inv0, base, flag, w_init, MAX_BUF_SIZE.
    cbn [w_sink w_pos w_staging w_inner w_finished].
    split; [split; [|split]|].
    - repeat split; constructor.
    - split; [discriminate|]. intros _. left. reflexivity.
    - cbn. lia.
    - cbn. lia.
  Qed.

  Lemma tail_nonempty_snoc :
    forall closed seg, tail_nonempty closed -> (closed = [] \/ seg <> []) -> tail_nonempty (closed ++ [seg]).
  Proof.
    intros closed seg Ht Hor. destruct closed as [|c closed]; [cbn; constructor|].
    cbn [app tail_nonempty] in *. apply Forall_app. split; [exact Ht|].
    constructor; [|constructor]. destruct Hor as [H|H]; [discriminate H|exact H].
  Qed.

  Lemma segs_bytes_snoc : forall closed seg, segs_bytes (closed ++ [seg]) = segs_bytes closed ++ seg_bytes seg.
  Proof.
    intros closed seg. unfold segs_bytes. rewrite map_app, concat_app. cbn [map concat].
    rewrite app_nil_r. reflexivity.
  Qed.

  Lemma flush_block_inv :
    forall st closed cur, inv0 st closed cur -> w_staging st <> [] ->
      exists st', flush_block deflate lvl st = (st', Ok tt) /\ inv st' closed (cur ++ [w_staging st]) /\
                  w_staging st' = [].
  Proof.
    intros [pos stg sink inner fin] closed cur ((Hs & Hp & Hgc & Hgb & Hi & Htn) & Hflag & Hl) Hne.
    cbn [w_sink w_pos w_staging w_inner w_finished] in *.
    unfold flush_block. cbn [w_sink w_pos w_staging w_inner w_finished].
    rewrite (encode_ok stg Hl). pose proof (enc_bound stg Hl) as Hc.
    unfold MAX_BUF_SIZE, MAX_COMPRESSED_SIZE in *.
    rewrite write_frame_ok by lia.
    eexists. split; [reflexivity|]. split; [|reflexivity].
    unfold inv, inv0, base, flag. cbn [w_sink w_pos w_staging w_inner w_finished]. unfold MAX_BUF_SIZE.
    split; [split; [split; [|split; [|split; [|split; [|split]]]]|split]|].
    - rewrite map_app, frames_bytes_app. cbn [map]. rewrite frames_bytes_one. subst sink.
      rewrite <- app_assoc. reflexivity.
    - rewrite lenN_app, frame_bytes_lenN. lia.
    - exact Hgc.
    - apply Forall_app. split; [exact Hgb|]. constructor; [|constructor].
      split; [exact Hne|exact Hl].
    - exact Hi.
    - exact Htn.
    - split; [discriminate|]. intros _. right. destruct cur; discriminate.
    - cbn. lia.
    - cbn. lia.
  Qed.

  Lemma flush_inv :
    forall st closed cur, inv0 st closed cur ->
      exists st' cur', flush deflate lvl st = (st', Ok tt) /\ inv st' closed cur' /\
        w_staging st' = [] /\ content st' closed cur' = content st closed cur.
  Proof.
    intros st closed cur H0. unfold flush. destruct (w_staging st) as [|x stg] eqn:Es.
    - exists st, cur. split; [reflexivity|]. split.
      + split; [exact H0|]. rewrite Es. cbn. unfold MAX_BUF_SIZE. lia.
      + split; [exact Es|reflexivity].
    - assert (Hne : w_staging st <> []) by (rewrite Es; discriminate).
      destruct (flush_block_inv st closed cur H0 Hne) as (st' & Hf & Hinv & Hst).
      exists st', (cur ++ [w_staging st]). split; [exact Hf|]. split; [exact Hinv|].
      split; [exact Hst|]. unfold content. rewrite Hst, concat_app. cbn [concat]. rewrite !app_nil_r.
      reflexivity.
  Qed.

  Lemma lenN_firstn :
    forall (l : list N) n, n <= lenN l -> lenN (firstn (N.to_nat n) l) = n.
  Proof. intros l n Hn. unfold lenN in *. rewrite firstn_length. lia. Qed.

  Lemma write_inv :
    forall st closed cur buf, inv st closed cur ->
      exists st' cur',
        let amt := N.min (MAX_BUF_SIZE - lenN (w_staging st)) (lenN buf) in
        write deflate lvl st buf = (st', Ok amt) /\ inv st' closed cur' /\
        content st' closed cur' = content st closed cur ++ firstn (N.to_nat amt) buf.
  Proof.
    intros st closed cur buf (H0 & Hlt). cbn zeta.
    set (amt := N.min (MAX_BUF_SIZE - lenN (w_staging st)) (lenN buf)).
    unfold write. fold amt.
    destruct (MAX_BUF_SIZE <? lenN (w_staging st)) eqn:E; [lia|].
    set (st1 := mk_wstate (w_pos st) (w_staging st ++ firstn (N.to_nat amt) buf) (w_sink st) (w_inner st) (w_finished st)).
    assert (Hlen1 : lenN (w_staging st1) = lenN (w_staging st) + amt).
    { unfold st1. cbn [w_staging]. rewrite lenN_app, lenN_firstn by lia. reflexivity. }
    assert (H01 : inv0 st1 closed cur).
    { destruct H0 as (Hb & Hf & Hl). unfold inv0. split; [exact Hb|]. split; [exact Hf|]. lia. }
    assert (Hc1 : content st1 closed cur = content st closed cur ++ firstn (N.to_nat amt) buf).
    { unfold content, st1. cbn [w_staging]. rewrite <- !app_assoc. reflexivity. }
    destruct (lenN (w_staging st1) <? MAX_BUF_SIZE) eqn:E1.
    - exists st1, cur. split; [reflexivity|]. split; [|exact Hc1]. split; [exact H01|lia].
    - destruct (flush_inv st1 closed cur H01) as (st2 & cur2 & Hf & Hinv2 & Hst2 & Hcat).
      rewrite Hf. exists st2, cur2. split; [reflexivity|]. split; [exact Hinv2|].
      rewrite Hcat. exact Hc1.
  Qed.

  Lemma write_all_inv :
    forall fuel buf st closed cur, (length buf < fuel)%nat -> inv st closed cur ->
      exists st' cur', write_all deflate fuel lvl st buf = (st', Ok tt) /\ inv st' closed cur' /\
        content st' closed cur' = content st closed cur ++ buf.
  Proof.
    induction fuel as [|fuel IH]; intros buf st closed cur Hfuel Hinv; [lia|].
    destruct buf as [|x buf'].
    - exists st, cur. split; [reflexivity|]. split; [exact Hinv|]. symmetry. apply app_nil_r.
    - cbn [write_all]. remember (x :: buf') as buf eqn:Eb.
      destruct (write_inv st closed cur buf Hinv) as (st1 & cur1 & Hw & Hinv1 & Hc1). cbn zeta in Hw, Hc1.
      set (amt := N.min (MAX_BUF_SIZE - lenN (w_staging st)) (lenN buf)) in *.
      rewrite Hw.
      assert (Hpos : 0 < amt).
      { destruct Hinv as (_ & Hlt). assert (1 <= lenN buf) by (rewrite Eb, lenN_cons; lia). lia. }
      assert (Hle : amt <= lenN buf) by lia.
      destruct (amt =? 0) eqn:E0; [lia|].
      assert (Hsk : (length (skipn (N.to_nat amt) buf) < fuel)%nat).
      { rewrite skipn_length. unfold lenN in Hle. lia. }
      destruct (IH _ st1 closed cur1 Hsk Hinv1) as (st2 & cur2 & Hwa & Hinv2 & Hc2).
      exists st2, cur2. split; [exact Hwa|]. split; [exact Hinv2|].
      rewrite Hc2, Hc1, <- app_assoc, firstn_skipn. reflexivity.
  Qed.

  (* try_finish: flush, then one marker unless the stream is already finished *)
  Lemma try_finish_inv :
    forall st closed cur, inv0 st closed cur ->
      exists st' closed', try_finish deflate lvl st = (st', Ok tt) /\ inv st' closed' [] /\
        w_finished st' = true /\ w_staging st' = [] /\
        content st' closed' [] = content st closed cur /\
        (closed = [] -> exists seg, closed' = [seg]).
  Proof.
    intros st closed cur H0.
    destruct (flush_inv st closed cur H0) as (st1 & cur1 & Hf & Hinv1 & Hst1 & Hcat).
    unfold try_finish. rewrite Hf.
    destruct Hinv1 as (((Hs & Hp & Hgc & Hgb & Hi & Htn) & (Hf1 & Hf2) & Hl) & Hlt).
    destruct (w_finished st1) eqn:Efin.
    - destruct (Hf1 eq_refl) as (Hcur & Hne). subst cur1.
      exists st1, closed. split; [reflexivity|]. split.
      + unfold inv, inv0, base, flag. rewrite Efin. repeat split; try assumption; try discriminate.
      + split; [exact Efin|]. split; [exact Hst1|]. split; [exact Hcat|].
        intros Hc. contradiction.
    - eexists _, (closed ++ [cur1]). split; [reflexivity|].
      pose proof (Hf2 eq_refl) as Hor.
      split; [|split; [reflexivity|split; [exact Hst1|split]]].
      + unfold inv, inv0, base, flag. cbn [w_sink w_pos w_staging w_inner w_finished].
        split; [split; [split; [|split; [|split; [|split; [|split]]]]|split]|].
        * rewrite Hs, segs_bytes_snoc. unfold seg_bytes. cbn [map]. unfold frames_bytes at 3.
          cbn [map concat]. rewrite app_nil_r, <- !app_assoc. reflexivity.
        * rewrite Hp, !lenN_app. reflexivity.
        * apply Forall_app. split; [exact Hgc|]. constructor; [exact Hgb|constructor].
        * constructor.
        * exact Hi.
        * apply tail_nonempty_snoc; assumption.
        * split; [|discriminate]. intros _. split; [reflexivity|]. destruct closed; discriminate.
        * rewrite Hst1. cbn. unfold MAX_BUF_SIZE. lia.
        * rewrite Hst1. cbn. unfold MAX_BUF_SIZE. lia.
      + rewrite <- Hcat. unfold content. cbn [w_staging concat app]. rewrite Hst1.
        rewrite concat_app, concat_app. cbn [concat]. rewrite !app_nil_r. reflexivity.
      + intros Hc. subst closed. exists cur1. reflexivity.
  Qed.

  Lemma try_finish_idem :
    forall st, w_finished st = true -> w_staging st = [] -> try_finish deflate lvl st = (st, Ok tt).
  Proof. intros st Hf Hs. unfold try_finish, flush. rewrite Hs, Hf. reflexivity. Qed.

  Lemma step_inv :
    forall st closed cur o, inv st closed cur ->
      exists st' closed' cur' r, step deflate lvl st o = (st', r) /\ is_ok r /\ inv st' closed' cur' /\
        content st' closed' cur' = content st closed cur ++ accepted_of o r /\
        (o <> OTryFinish -> closed' = closed).
  Proof.
    intros st closed cur o Hinv. destruct o as [buf|buf| |].
    - destruct (write_inv st closed cur buf Hinv) as (st1 & cur1 & Hw & Hinv1 & Hc1). cbn zeta in Hw, Hc1.
      cbn [step]. rewrite Hw. eexists st1, closed, cur1, _. split; [reflexivity|].
      split; [exact I|]. split; [exact Hinv1|]. split; [cbn [accepted_of]; exact Hc1|reflexivity].
    - destruct (write_all_inv (S (length buf)) buf st closed cur ltac:(lia) Hinv) as (st1 & cur1 & Hw & Hinv1 & Hc1).
      cbn [step]. rewrite Hw. eexists st1, closed, cur1, _. split; [reflexivity|].
      split; [exact I|]. split; [exact Hinv1|]. split; [cbn [accepted_of]; exact Hc1|reflexivity].
    - destruct Hinv as (H0 & Hlt).
      destruct (flush_inv st closed cur H0) as (st1 & cur1 & Hf & Hinv1 & Hst1 & Hcat).
      cbn [step]. rewrite Hf. eexists st1, closed, cur1, _. split; [reflexivity|].
      split; [exact I|]. split; [exact Hinv1|]. cbn [accepted_of]. rewrite app_nil_r.
      split; [exact Hcat|reflexivity].
    - destruct Hinv as (H0 & Hlt).
      destruct (try_finish_inv st closed cur H0) as (st1 & closed1 & Hf & Hinv1 & _ & _ & Hcat & _).
      cbn [step]. rewrite Hf. eexists st1, closed1, [], _. split; [reflexivity|].
      split; [exact I|]. split; [exact Hinv1|]. cbn [accepted_of]. rewrite app_nil_r.
      split; [exact Hcat|]. intros Hne. contradiction.
  Qed.

  Definition no_try_finish (ops : list op) : Prop := Forall (fun o => o <> OTryFinish) ops.

  Lemma run_ops_inv :
    forall ops st closed cur, inv st closed cur ->
      exists st' closed' cur' obs, run_ops deflate lvl st ops = (st', obs, false) /\ inv st' closed' cur' /\
        content st' closed' cur' = content st closed cur ++ accepted ops obs /\
        Forall (fun o => is_ok (fst o)) obs /\ length obs = length ops /\
        (no_try_finish ops -> closed' = closed).
  Proof.
    induction ops as [|o ops IH]; intros st closed cur Hinv.
    - exists st, closed, cur, []. split; [reflexivity|]. split; [exact Hinv|].
      split; [cbn [accepted]; symmetry; apply app_nil_r|]. split; [constructor|]. split; reflexivity.
    - destruct (step_inv st closed cur o Hinv) as (st1 & closed1 & cur1 & r & Hs & Hok & Hinv1 & Hc1 & Hcl1).
      destruct (IH st1 closed1 cur1 Hinv1) as (st2 & closed2 & cur2 & obs & Hr & Hinv2 & Hc2 & Hall & Hlen & Hcl2).
      cbn [run_ops]. rewrite Hs. destruct r as [v|e|]; [|contradiction|contradiction].
      rewrite Hr. eexists st2, closed2, cur2, _. split; [reflexivity|]. split; [exact Hinv2|].
      split; [|split; [|split]].
      + cbn [accepted]. rewrite Hc2, Hc1, <- app_assoc. reflexivity.
      + constructor; [exact I|exact Hall].
      + cbn [length]. rewrite Hlen. reflexivity.
      + intros Hno. inversion Hno as [|? ? Ho Hrest]; subst.
        rewrite (Hcl2 Hrest). apply Hcl1. exact Ho.
  Qed.

  (* ---- the file a script leaves behind ---- *)
  Theorem writer_wellformed :
    forall ops e,
      let o := run_script deflate lvl ops e in
      exists segs,
        o_sink o = segs_bytes segs /\ segs <> [] /\ tail_nonempty segs /\
        Forall (Forall good_block) segs /\
        concat (concat segs) = accepted ops (o_results o) /\
        o_end o = Ok tt /\
        Forall (fun r => is_ok (fst r)) (o_results o) /\ length (o_results o) = length ops /\
        (no_try_finish ops -> exists blocks, segs = [blocks]).
  Proof.
    intros ops e. cbn zeta. unfold run_script.
    destruct (run_ops_inv ops w_init [] [] inv_init) as (st & closed & cur & obs & Hr & (H0 & Hlt) & Hc & Hall & Hlen & Hcl).
    rewrite Hr. unfold content in Hc. cbn [concat w_init w_staging app] in Hc.
    destruct (try_finish_inv st closed cur H0) as (st1 & segs & Htf & Hinv1 & Hfin1 & Hst1 & Hcat & Hone).
    assert (Hidem : try_finish deflate lvl st1 = (st1, Ok tt)) by (apply try_finish_idem; assumption).
    destruct Hinv1 as (((Hs & Hp & Hgc & Hgb & Hi & Htn) & (Hf1 & Hf2) & Hl) & Hlt1).
    destruct (Hf1 Hfin1) as (_ & Hne).
    assert (Hsink : w_sink st1 = segs_bytes segs).
    { rewrite Hs. unfold frames_bytes. cbn [map concat]. apply app_nil_r. }
    assert (Hacc : concat (concat segs) = accepted ops obs).
    { rewrite <- Hc. unfold content in Hcat. rewrite Hst1 in Hcat. cbn [concat app] in Hcat.
      rewrite !app_nil_r in Hcat. rewrite Hcat. unfold content. rewrite app_assoc. reflexivity. }
    assert (Hsimple : no_try_finish ops -> exists blocks, segs = [blocks]).
    { intros Hno. apply Hone. apply Hcl. exact Hno. }
    assert (Hinner : w_inner st = true) by (destruct H0 as ((_ & _ & _ & _ & Hi0 & _) & _); exact Hi0).
    destruct e; cbn [run_ending].
    - rewrite Htf. cbn [o_sink o_end o_results take_inner w_sink].
      exists segs. repeat split; assumption.
    - rewrite Htf. cbn [o_sink o_end o_results take_inner w_sink].
      exists segs. repeat split; assumption.
    - unfold drop. rewrite Hinner, Htf. cbn [fst o_sink o_end o_results].
      exists segs. repeat split; assumption.
    - rewrite Htf. unfold drop. rewrite Hi, Hidem. cbn [fst o_sink o_end o_results].
      exists segs. repeat split; assumption.
  Qed.

  (* what each emitted frame looks like *)
  Theorem wframe_wellformed :
    forall b, good_block b ->
      let f := fbytes (wframe b) in
      lenN f = 26 + lenN (enc b) /\ lenN f <= 65536 /\
      bsize_of f + 1 = lenN f /\
      firstn 16 f = header_prefix /\
      parse_frame f = Ok (lenN f, enc b, crc32 b, lenN b) /\
      0 < lenN b /\ lenN b <= 65536.
  Proof.
    intros b (Hne & Hl). cbn zeta. unfold fbytes, wframe. cbn [fst snd].
    pose proof (enc_bound b Hl) as Hc. unfold MAX_BUF_SIZE, MAX_COMPRESSED_SIZE in *.
    rewrite frame_bytes_lenN.
    split; [reflexivity|]. split; [|split; [|split; [|split; [|split]]]].
    - lia.
    - rewrite bsize_of_frame by lia. apply frame_bytes_lenN.
    - apply frame_bytes_header.
    - apply parse_frame_frame_bytes; [apply crc32_bound|lia].
    - destruct b as [|x b]; [contradiction|]. rewrite lenN_cons. lia.
    - lia.
  Qed.

  (* ---- read back ---- *)
  Variable inflate : list N -> N -> option (list N).
  Hypothesis H_rt : forall l x, lenN x <= BGZF_MAX_ISIZE -> inflate (deflate l x) (lenN x) = Some x.
  Hypothesis H_eof : inflate [3; 0] 0 = Some [].

  Lemma good_wframe : forall b, good_block b -> good_frame inflate (wframe b).
  Proof.
    intros b (Hne & Hl). unfold good_frame, wframe. cbn [fst snd].
    pose proof (enc_bound b Hl) as Hc. unfold MAX_BUF_SIZE, MAX_COMPRESSED_SIZE, BGZF_MAX_ISIZE in *.
    repeat split; [lia|lia|].
    unfold enc. destruct (lenN (deflate lvl b) <=? MAX_COMPRESSED_SIZE); apply H_rt;
      unfold BGZF_MAX_ISIZE; lia.
  Qed.

  (* every clause of "well-formed BGZF" for one emitted frame *)
  Definition frame_wf (b : list N) : Prop :=
    let f := fbytes (wframe b) in
    b <> [] /\ lenN b <= MAX_BUF_SIZE /\
    lenN f = 26 + lenN (enc b) /\ lenN f <= 65536 /\
    bsize_of f + 1 = lenN f /\
    firstn 16 f = header_prefix /\
    parse_frame f = Ok (lenN f, enc b, crc32 b, lenN b) /\
    inflate (enc b) (lenN b) = Some b.

  Lemma good_block_frame_wf : forall b, good_block b -> frame_wf b.
  Proof.
    intros b Hg. destruct (wframe_wellformed b Hg) as (H1 & H2 & H3 & H4 & H5 & H6 & H7).
    destruct (good_wframe b Hg) as (_ & _ & Hinf). cbn [wframe fst snd] in Hinf.
    destruct Hg as (Hne & Hl). unfold frame_wf. cbn zeta. repeat split; assumption.
  Qed.

  Theorem writer_wellformed_full :
    forall ops e,
      let o := run_script deflate lvl ops e in
      exists segs,
        o_sink o = segs_bytes segs /\ segs <> [] /\ tail_nonempty segs /\
        Forall (Forall frame_wf) segs /\
        concat (concat segs) = accepted ops (o_results o) /\
        o_end o = Ok tt /\
        Forall (fun r => is_ok (fst r)) (o_results o) /\ length (o_results o) = length ops /\
        (no_try_finish ops -> exists blocks, segs = [blocks]).
  Proof.
    intros ops e. cbn zeta.
    destruct (writer_wellformed ops e) as (segs & Hs & Hne & Htn & Hb & Hacc & Hend & Hall & Hlen & Hone).
    exists segs. split; [exact Hs|]. split; [exact Hne|]. split; [exact Htn|]. split.
    - eapply Forall_impl; [|exact Hb]. intros seg Hseg.
      eapply Forall_impl; [|exact Hseg]. exact good_block_frame_wf.
    - repeat split; assumption.
  Qed.

  (* scripts of write / write_all / flush only: ONE marker, whatever the ending (finish,
     try_finish + into_inner, drop, try_finish then drop) *)
  Theorem writer_wellformed_single :
    forall ops e, no_try_finish ops ->
      let o := run_script deflate lvl ops e in
      exists blocks,
        o_sink o = frames_bytes (map wframe blocks) ++ eof_block /\
        Forall frame_wf blocks /\
        concat blocks = accepted ops (o_results o) /\
        o_end o = Ok tt /\
        Forall (fun r => is_ok (fst r)) (o_results o) /\ length (o_results o) = length ops.
  Proof.
    intros ops e Hno. cbn zeta.
    destruct (writer_wellformed_full ops e) as (segs & Hs & _ & _ & Hb & Hacc & Hend & Hall & Hlen & Hone).
    destruct (Hone Hno) as (blocks & Hsegs). subst segs. exists blocks.
    split; [rewrite Hs; unfold segs_bytes, seg_bytes; cbn [map concat]; apply app_nil_r|].
    split; [inversion Hb; assumption|].
    split; [rewrite <- Hacc; cbn [concat]; rewrite app_nil_r; reflexivity|].
    repeat split; assumption.
  Qed.

  (* a segment as a list of (block, cdata) frames *)
  Definition eof_item : list N * list N := ([], [3; 0]).
  Definition seg_items (seg : list (list N)) : list (list N * list N) := map wframe seg ++ [eof_item].

  Lemma seg_bytes_items : forall seg, seg_bytes seg = frames_bytes (seg_items seg).
  Proof.
    intros seg. unfold seg_bytes, seg_items. rewrite frames_bytes_app, frames_bytes_one.
    unfold eof_item. rewrite fbytes_eof. reflexivity.
  Qed.

  Lemma segs_bytes_items : forall segs, segs_bytes segs = frames_bytes (concat (map seg_items segs)).
  Proof.
    induction segs as [|seg segs IH]; [reflexivity|].
    unfold segs_bytes in *. cbn [map concat]. rewrite frames_bytes_app, <- IH, seg_bytes_items.
    reflexivity.
  Qed.

  Lemma seg_items_data : forall seg, concat (map fst (seg_items seg)) = concat seg.
  Proof.
    intros seg. unfold seg_items. rewrite map_app, concat_app, map_map. cbn [wframe fst map concat eof_item].
    rewrite map_id. apply app_nil_r.
  Qed.

  Lemma segs_items_data :
    forall segs, concat (map fst (concat (map seg_items segs))) = concat (concat segs).
  Proof.
    induction segs as [|seg segs IH]; [reflexivity|].
    cbn [map concat]. rewrite map_app, !concat_app, IH, seg_items_data. reflexivity.
  Qed.

  Theorem writer_reader_roundtrip :
    forall ops e,
      let o := run_script deflate lvl ops e in
      reader_read_to_end inflate (o_sink o) = (accepted ops (o_results o), Ok tt).
  Proof.
    intros ops e. cbn zeta.
    destruct (writer_wellformed ops e) as (segs & Hs & _ & _ & Hb & Hacc & _).
    rewrite Hs, segs_bytes_items, reader_read_to_end_frames.
    - rewrite segs_items_data, Hacc. reflexivity.
    - apply Forall_concat. rewrite Forall_map. eapply Forall_impl; [|exact Hb].
      intros seg Hseg. unfold seg_items. apply Forall_app. split.
      + rewrite Forall_map. eapply Forall_impl; [|exact Hseg]. intros b Hgb. apply good_wframe. exact Hgb.
      + constructor; [apply good_eof; exact H_eof|constructor].
  Qed.
End WriterProofs.
