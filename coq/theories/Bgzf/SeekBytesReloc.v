(* C02 wave 10: the RELOCATION form of the shift theorem (byte-level reader, SeekBytes):
   a successful seek to v = (c, u) on the bytes fb, and all the read calls after it, are the seek to
   (0, u) on the bytes from c on (a file of its own) and the read calls after THAT, with every told
   position moved by c (and the 2^48 assert of Block::virtual_position evaluated on the moved
   position): the reader state after the first seek is the state after the second with
   Reader::position and the block position moved by c. *)
From Coq Require Import List PeanoNat NArith Bool Lia ZifyBool ZifyNat ZifyN.
From NV Require Import Base.LE Bgzf.Vpos Bgzf.VposProofs Bgzf.ReaderOps Bgzf.SeekBytes Bgzf.SeekBytesProofs
  Bgzf.SeekBytesShift.
From NV Require Bgzf.Frame Bgzf.Reader Bgzf.Crc32 Bgzf.Inflate.
Import ListNotations.
Open Scope N_scope.

Definition shb (c : N) (b : blk) : blk := mkBlk (k_pos b + c) (k_size b) (k_len b) (k_cur b).

(* a told position moved by c compressed bytes *)
Definition sht (c : N) (r : res N) : res N :=
  match r with
  | Ok v => if vcomp v + c <=? MAX_COMPRESSED_POSITION then Ok (pack (vcomp v + c) (vuncomp v)) else Panic
  | r => r
  end.

Lemma bytes_from_0 : forall l, bytes_from l 0 = l.
Proof.
  intros l. unfold bytes_from, Frame.lenN. destruct (N.of_nat (length l) <=? 0) eqn:E; [|reflexivity].
  destruct l; [reflexivity|cbn [length] in E; lia].
Qed.

Lemma blk_vpos_shift : forall c b, blk_vpos (shb c b) = sht c (blk_vpos b).
Proof.
  intros c b. unfold blk_vpos, shb, sht, MAX_UNCOMPRESSED_POSITION. cbn [k_pos k_size k_len k_cur].
  destruct (k_cur b <? k_len b).
  - destruct (N.leb_spec (k_cur b) 65535) as [Hu|Hu].
    + destruct (N.leb_spec (k_pos b) MAX_COMPRESSED_POSITION) as [Hp|Hp]; cbn [andb].
      * rewrite vcomp_pack, vuncomp_pack by lia. rewrite andb_true_r. reflexivity.
      * destruct (N.leb_spec (k_pos b + c) MAX_COMPRESSED_POSITION); [lia|reflexivity].
    + rewrite !andb_false_r. reflexivity.
  - destruct (N.leb_spec (k_pos b + k_size b) MAX_COMPRESSED_POSITION) as [Hp|Hp].
    + rewrite vcomp_pack, vuncomp_pack by lia.
      replace (k_pos b + c + k_size b) with (k_pos b + k_size b + c) by lia. reflexivity.
    + destruct (N.leb_spec (k_pos b + c + k_size b) MAX_COMPRESSED_POSITION); [lia|reflexivity].
Qed.

Section Reloc.
  Variable inflate : list N -> N -> option (list N).

  Definition shs (c : N) (s : bst) : bst := mkBst (s_src s) (s_position s + c) (shb c (s_blk s)).

  Lemma rnbs_shift : forall c f src pos b,
    rnbs inflate f src (pos + c) (shb c b) =
    let '(s, p, b', r) := rnbs inflate f src pos b in (s, p + c, shb c b', r).
  Proof.
    intros c. induction f as [|f IH]; intros src pos b; cbn [rnbs]; [reflexivity|].
    destruct (Reader.read_frame src) as [[[fr rest]|]|e|]; try reflexivity.
    - destruct (Frame.parse_frame fr) as [[[[bs cdata] crc] isize]|e|]; try reflexivity.
      destruct (inflate cdata isize) as [d|]; [|reflexivity].
      destruct (Crc32.crc32 d =? crc); [|reflexivity].
      destruct (0 <? isize).
      + replace (pos + c + bs) with (pos + bs + c) by lia. reflexivity.
      + replace (pos + c + bs) with (pos + bs + c) by lia.
        exact (IH rest (pos + bs) (mkBlk pos bs isize 0)).
    - destruct e; reflexivity.
  Qed.

  Lemma read_b_shift : forall c s n,
    read_b inflate (shs c s) n = let '(s', x) := read_b inflate s n in (shs c s', x).
  Proof.
    intros c s n. unfold read_b, shs. cbn [s_src s_position s_blk shb k_pos k_size k_len k_cur].
    destruct (k_cur (s_blk s) <? k_len (s_blk s)); [reflexivity|].
    pose proof (rnbs_shift c (S (length (s_src s))) (s_src s) (s_position s) (s_blk s)) as H.
    rewrite H.
    destruct (rnbs inflate (S (length (s_src s))) (s_src s) (s_position s) (s_blk s)) as [[[s1 p1] b1] r1].
    destruct r1; reflexivity.
  Qed.

  Definition shrow (c : N) (p : res N * res N) : res N * res N := (fst p, sht c (snd p)).

  Lemma reads_b_shift : forall c ns s,
    reads_b inflate (shs c s) ns = map (shrow c) (reads_b inflate s ns).
  Proof.
    intros c. induction ns as [|n ns IH]; intros s; [reflexivity|]. cbn [reads_b map].
    rewrite read_b_shift. destruct (read_b inflate s n) as [s' x]. rewrite IH.
    unfold shrow at 1. cbn [fst snd]. unfold shs at 1. cbn [s_blk]. rewrite blk_vpos_shift. reflexivity.
  Qed.

  Theorem seek_reloc : forall fb s v s',
    seek_b inflate fb s v = (s', Ok v) ->
    exists s'', seek_b inflate (bytes_from fb (vcomp v)) s (pack 0 (vuncomp v)) = (s'', Ok (pack 0 (vuncomp v)))
                /\ s' = shs (vcomp v) s''.
  Proof.
    intros fb s v s' H. unfold seek_b in *. pose proof (vuncomp_lt v) as Hu.
    rewrite vcomp_pack, vuncomp_pack by lia. rewrite bytes_from_0.
    set (c := vcomp v) in *. set (u := vuncomp v) in *. set (src := bytes_from fb c) in *.
    pose proof (rnbs_two inflate (S (length src)) src c (s_blk s) (shb c (s_blk s))) as H2.
    pose proof (rnbs_shift c (S (length src)) src 0 (s_blk s)) as H3. rewrite N.add_0_l in H3.
    rewrite H3 in H2. clear H3.
    destruct (rnbs inflate (S (length src)) src 0 (s_blk s)) as [[[s2 p2] b2] r2].
    destruct (rnbs inflate (S (length src)) src c (s_blk s)) as [[[s1 p1] b1] r1].
    destruct H2 as (-> & -> & -> & _ & Hpos).
    destruct r2 as [m| | | |]; try (injection H as _ H; discriminate).
    injection H as <-. eexists. split; [reflexivity|].
    destruct (N.eqb_spec m 0) as [->|Hm].
    - unfold shs, shb. cbn [s_src s_position s_blk k_pos k_size k_len k_cur]. try rewrite N.add_0_l. reflexivity.
    - rewrite (Hpos m eq_refl) by lia. unfold shs, shb.
      cbn [s_src s_position s_blk k_pos k_size k_len k_cur]. reflexivity.
  Qed.

  (* THE RELOCATION THEOREM *)
  Theorem seek_then_reads_reloc : forall fb s v s' ns,
    seek_b inflate fb s v = (s', Ok v) ->
    let fb' := bytes_from fb (vcomp v) in
    let v' := pack 0 (vuncomp v) in
    snd (seek_b inflate fb' s v') = Ok v' /\
    reads_b inflate s' ns = map (shrow (vcomp v)) (reads_b inflate (fst (seek_b inflate fb' s v')) ns).
  Proof.
    intros fb s v s' ns H fb' v'. destruct (seek_reloc fb s v s' H) as (s'' & Hk & ->).
    fold fb' v' in Hk. rewrite Hk. cbn [fst snd]. split; [reflexivity|apply reads_b_shift].
  Qed.
End Reloc.

Section Reloc2.
  Variable inflate : list N -> N -> option (list N).

  (* a successful seek does not depend on the state of the reader that makes it *)
  Lemma seek_b_ok_any_state : forall fb s t v s',
    seek_b inflate fb s v = (s', Ok v) -> seek_b inflate fb t v = (s', Ok v).
  Proof.
    intros fb s t v s' H. unfold seek_b in *.
    set (src := bytes_from fb (vcomp v)) in *.
    pose proof (rnbs_two inflate (S (length src)) src (vcomp v) (s_blk s) (s_blk t)) as H2.
    destruct (rnbs inflate (S (length src)) src (vcomp v) (s_blk s)) as [[[s1 p1] b1] r1].
    destruct (rnbs inflate (S (length src)) src (vcomp v) (s_blk t)) as [[[s2 p2] b2] r2].
    destruct H2 as (<- & <- & <- & _ & Hpos).
    destruct r1 as [m| | | |]; try (injection H as _ H; discriminate).
    injection H as <-. destruct (N.eqb_spec m 0) as [->|Hm]; [reflexivity|].
    rewrite <- (Hpos m eq_refl) by lia. reflexivity.
  Qed.

  (* the relocation theorem against a FRESH reader over the bytes from the block offset on *)
  Theorem seek_then_reads_reloc_fresh : forall fb s v s' ns,
    seek_b inflate fb s v = (s', Ok v) ->
    let fb' := bytes_from fb (vcomp v) in
    let v' := pack 0 (vuncomp v) in
    let k := seek_b inflate fb' (mkBst fb' 0 (mkBlk 0 0 0 0)) v' in
    snd k = Ok v' /\ reads_b inflate s' ns = map (shrow (vcomp v)) (reads_b inflate (fst k) ns).
  Proof.
    intros fb s v s' ns H fb' v' k.
    destruct (seek_then_reads_reloc inflate fb s v s' ns H) as [H1 H2]. fold fb' v' in H1, H2.
    destruct (seek_b inflate fb' s v') as [s'' x] eqn:E. cbn [fst snd] in H1, H2. subst x.
    subst k. rewrite (seek_b_ok_any_state fb' s (mkBst fb' 0 (mkBlk 0 0 0 0)) v' s'' E).
    cbn [fst snd]. split; [reflexivity|exact H2].
  Qed.
End Reloc2.

(* the correspondence-check entry (kind hreloc): reader B = fresh over fb, the history mid, seek(v),
   the reads ns; reader C = fresh over the bytes of fb from the block offset of v on, seek((0, u)),
   the same reads.  Result: B's seek result, told position and rows; C's seek result, told position
   and rows; C's told position and rows moved by the block offset *)
Definition hreloc_run (fb : list N) (mid : list bop) (v : N) (ns : list N) :=
  let s0 := mkBst fb 0 (mkBlk 0 0 0 0) in
  let '(s', x) := seek_b Inflate.inflate fb (state_b Inflate.inflate fb s0 mid) v in
  let fb' := bytes_from fb (vcomp v) in
  let '(s'', x') := seek_b Inflate.inflate fb' (mkBst fb' 0 (mkBlk 0 0 0 0)) (pack 0 (vuncomp v)) in
  let rowsC := reads_b Inflate.inflate s'' ns in
  ((x, blk_vpos (s_blk s'), reads_b Inflate.inflate s' ns),
   (x', blk_vpos (s_blk s''), rowsC),
   (sht (vcomp v) (blk_vpos (s_blk s'')), map (shrow (vcomp v)) rowsC)).

Theorem hreloc_run_reloc : forall fb mid v ns x t rowsB x' t' rowsC tm rowsM,
  hreloc_run fb mid v ns = ((x, t, rowsB), (x', t', rowsC), (tm, rowsM)) ->
  x = Ok v -> x' = Ok (pack 0 (vuncomp v)) /\ t = tm /\ rowsB = rowsM.
Proof.
  intros fb mid v ns x t rowsB x' t' rowsC tm rowsM H Hx. unfold hreloc_run in H.
  destruct (seek_b Inflate.inflate fb _ v) as [s' x0] eqn:E1.
  destruct (seek_b Inflate.inflate (bytes_from fb (vcomp v)) _ _) as [s'' x0'] eqn:E2.
  injection H as <- <- <- <- <- <- <- <-. subst x0.
  pose proof (seek_then_reads_reloc_fresh Inflate.inflate fb _ v s' ns E1) as [H1 H2].
  rewrite E2 in H1, H2. cbn [fst snd] in H1, H2. split; [exact H1|]. split; [|exact H2].
  destruct (seek_reloc Inflate.inflate fb _ v s' E1) as (s3 & Hk & ->).
  subst x0'. rewrite (seek_b_ok_any_state Inflate.inflate _ _ (mkBst (bytes_from fb (vcomp v)) 0 (mkBlk 0 0 0 0)) _ _ Hk) in E2.
  injection E2 as <-. unfold shs. cbn [s_blk]. apply blk_vpos_shift.
Qed.
