(* The exact binary search of core::slice (GziBs.partition_point_bs) equals the prefix form
   (Gzi.partition_point) on every slice partitioned by the predicate; a gzi index sorted by
   uncompressed offset is partitioned for every query; the index of a file is sorted.  Hence every
   existing theorem about gzi_query / run transfers to gzi_query_bs / run_bs unchanged. *)
From Coq Require Import List NArith ZArith Bool Arith Lia ZifyBool ZifyNat ZifyN Sorting.Sorted.
From NV Require Import Bgzf.Vpos Bgzf.Gzi Bgzf.ReaderOps Bgzf.FlatRef Bgzf.ReaderOpsProofs Bgzf.GziBs.
Import ListNotations.
Open Scope N_scope.

Ltac Zify.zify_post_hook ::= Z.div_mod_to_equations.

Section BinarySearch.
  Context {A : Type} (p : A -> bool) (l : list A) (k : nat).
  Hypothesis Hk : forall i, (i < length l)%nat -> pred_at p l i = (i <? k)%nat.

  Lemma pp_loop_inv : forall fuel base size,
    (size <= fuel)%nat -> (1 <= size)%nat -> (base + size <= length l)%nat ->
    (base = 0 \/ base < k)%nat -> (k <= base + size)%nat ->
    let b := pp_loop fuel p l base size in
    ((b = 0 \/ b < k) /\ k <= b + 1 /\ b < length l)%nat.
  Proof.
    induction fuel as [|fuel IH]; intros base size Hf H1 Hn Hb Hks; [lia|].
    cbn [pp_loop]. destruct (size <=? 1)%nat eqn:E1.
    - cbv zeta. lia.
    - assert (Hh : Nat.div2 size = (size / 2)%nat) by apply Nat.div2_div.
      rewrite Hh. set (half := (size / 2)%nat) in *.
      assert (Hhalf : (1 <= half /\ half <= size - half /\ half < size)%nat) by (subst half; lia).
      assert (Hm : (base + half < length l)%nat) by lia.
      rewrite (Hk _ Hm).
      destruct (base + half <? k)%nat eqn:E2; apply IH; lia.
  Qed.

  Lemma partition_point_bs_is : (k <= length l)%nat -> partition_point_bs p l = k.
  Proof.
    intros Hkn. unfold partition_point_bs.
    pose proof (pp_loop_inv (length l) 0 (length l)) as H. cbv zeta in H.
    pose proof Hk as Hk'.
    destruct (length l) as [|n] eqn:En in |- *; [lia|].
    rewrite <- En.
    destruct H as (Ha & Hb & Hc); try lia.
    rewrite (Hk' _ Hc).
    destruct (pp_loop (length l) p l 0 (length l) <? k)%nat eqn:E; lia.
  Qed.

  (* the fuel is never the reason the loop stops *)
  Lemma pp_loop_fuel : forall fuel fuel' base size,
    (size <= fuel)%nat -> (size <= fuel')%nat ->
    pp_loop fuel p l base size = pp_loop fuel' p l base size.
  Proof.
    induction fuel as [|fuel IH]; intros fuel' base size Hf Hf'.
    - destruct fuel'; [reflexivity|]. cbn [pp_loop].
      destruct (size <=? 1)%nat eqn:E; [reflexivity|lia].
    - destruct fuel' as [|fuel']; cbn [pp_loop].
      + destruct (size <=? 1)%nat eqn:E; [reflexivity|lia].
      + destruct (size <=? 1)%nat eqn:E; [reflexivity|].
        rewrite Nat.div2_div. apply IH; lia.
  Qed.
End BinarySearch.

(* ---- partitioned slices ---------------------------------------------------------------- *)

Definition partitioned {A : Type} (p : A -> bool) (l : list A) : Prop :=
  forall i x, nth_error l i = Some x -> (partition_point p l <= i)%nat -> p x = false.

Lemma partition_point_le : forall {A : Type} (p : A -> bool) l, (partition_point p l <= length l)%nat.
Proof.
  intros A p l. induction l as [|x r IH]; cbn [partition_point length]; [lia|].
  destruct (p x); lia.
Qed.

Lemma partition_point_prefix : forall {A : Type} (p : A -> bool) l i x,
  nth_error l i = Some x -> (i < partition_point p l)%nat -> p x = true.
Proof.
  intros A p l. induction l as [|y r IH]; intros i x Hn Hi; cbn [partition_point] in Hi; [lia|].
  destruct (p y) eqn:Ey; [|lia].
  destruct i as [|i]; cbn [nth_error] in Hn.
  - injection Hn as Hn. subst x. exact Ey.
  - apply (IH i x Hn). lia.
Qed.

Theorem partition_point_bs_sorted : forall {A : Type} (p : A -> bool) l,
  partitioned p l -> partition_point_bs p l = partition_point p l.
Proof.
  intros A p l Hp. apply partition_point_bs_is; [|apply partition_point_le].
  intros i Hi. unfold pred_at.
  destruct (nth_error l i) as [x|] eqn:En.
  - destruct (i <? partition_point p l)%nat eqn:E.
    + apply (partition_point_prefix p l i x En). lia.
    + apply (Hp i x En). lia.
  - apply nth_error_None in En. lia.
Qed.

(* the binary search never leaves the slice and its result is a valid split index, on EVERY slice *)
Lemma pp_loop_bound : forall {A : Type} (p : A -> bool) l fuel base size,
  (1 <= size)%nat -> (base + size <= length l)%nat -> (pp_loop fuel p l base size < length l)%nat.
Proof.
  intros A p l. induction fuel as [|fuel IH]; intros base size H1 Hn; cbn [pp_loop]; [lia|].
  destruct (size <=? 1)%nat eqn:E; [lia|].
  rewrite Nat.div2_div. destruct (pred_at p l (base + size / 2)); apply IH; lia.
Qed.

Lemma partition_point_bs_le : forall {A : Type} (p : A -> bool) l,
  (partition_point_bs p l <= length l)%nat.
Proof.
  intros A p l. unfold partition_point_bs. destruct (length l) as [|n] eqn:En; [lia|].
  rewrite <- En. pose proof (pp_loop_bound p l (length l) 0 (length l)) as H.
  destruct (pred_at p l _); lia.
Qed.

(* ---- gzi ------------------------------------------------------------------------------- *)

Definition u_le (a b : N * N) : Prop := snd a <= snd b.
Definition sorted_u (idx : gzi_index) : Prop := StronglySorted u_le idx.

Lemma sorted_partitioned : forall idx pos, sorted_u idx -> partitioned (fun r => snd r <=? pos) idx.
Proof.
  intros idx pos Hs. induction Hs as [|a r Hs IH Hall]; intros i x Hn Hi.
  - destruct i; discriminate.
  - cbn [partition_point] in Hi. destruct (snd a <=? pos) eqn:Ea.
    + destruct i as [|i]; [lia|]. cbn [nth_error] in Hn. apply (IH i x Hn). lia.
    + destruct i as [|i]; cbn [nth_error] in Hn.
      * injection Hn as Hn. subst x. exact Ea.
      * apply nth_error_In in Hn. rewrite Forall_forall in Hall. specialize (Hall x Hn).
        unfold u_le in Hall. lia.
Qed.

Lemma gzi_entry_bs_sorted : forall idx pos, sorted_u idx -> gzi_entry_bs idx pos = gzi_entry idx pos.
Proof.
  intros idx pos Hs. unfold gzi_entry_bs, gzi_entry.
  rewrite (partition_point_bs_sorted _ _ (sorted_partitioned idx pos Hs)). reflexivity.
Qed.

Lemma gzi_entry_le : forall idx pos, snd (gzi_entry idx pos) <= pos.
Proof.
  intros idx pos. unfold gzi_entry.
  destruct (partition_point (fun r => snd r <=? pos) idx) as [|j] eqn:E; [cbn; lia|].
  destruct (nth_error idx j) as [x|] eqn:En.
  - rewrite (nth_error_nth _ _ _ En).
    pose proof (partition_point_prefix (fun r => snd r <=? pos) idx j x En) as H.
    cbv beta in H. rewrite E in H. specialize (H ltac:(lia)). lia.
  - apply nth_error_None in En.
    pose proof (partition_point_le (fun r => snd r <=? pos) idx). lia.
Qed.

(* on a sorted index the exact query is the prefix-form query: no underflow, same entry *)
Theorem gzi_query_bs_sorted : forall idx pos, sorted_u idx -> gzi_query_bs idx pos = gzi_query idx pos.
Proof.
  intros idx pos Hs. unfold gzi_query_bs, gzi_query. rewrite (gzi_entry_bs_sorted idx pos Hs).
  pose proof (gzi_entry_le idx pos) as Hle.
  destruct (gzi_entry idx pos) as [c u]. cbn [snd] in Hle.
  destruct (pos <? u) eqn:E; [lia|reflexivity].
Qed.

(* ... and on EVERY index, sorted or not: the entry the binary search selects satisfies the
   predicate (when the loop ends with base > 0, base was a probed mid with pred true, and the final
   comparison probes base again), so `pos - uncompressed_pos` never underflows: Index::query
   does not panic on hostile indexes. *)
Lemma pp_loop_pred : forall {A : Type} (p : A -> bool) l fuel base size,
  pp_loop fuel p l base size = base \/ pred_at p l (pp_loop fuel p l base size) = true.
Proof.
  intros A p l. induction fuel as [|fuel IH]; intros base size; cbn [pp_loop]; [left; reflexivity|].
  destruct (size <=? 1)%nat; [left; reflexivity|].
  destruct (pred_at p l (base + Nat.div2 size)) eqn:E.
  - destruct (IH (base + Nat.div2 size)%nat (size - Nat.div2 size)%nat) as [H|H].
    + right. rewrite H. exact E.
    + right. exact H.
  - apply IH.
Qed.

Lemma partition_point_bs_pred : forall {A : Type} (p : A -> bool) l j,
  partition_point_bs p l = S j -> pred_at p l j = true.
Proof.
  intros A p l j H. unfold partition_point_bs in H. destruct (length l) as [|n] eqn:En; [discriminate|].
  rewrite <- En in H.
  destruct (pred_at p l (pp_loop (length l) p l 0 (length l))) eqn:E.
  - injection H as H. rewrite <- H. exact E.
  - destruct (pp_loop_pred p l (length l) 0%nat (length l)) as [H0|H0]; [|congruence].
    rewrite H0 in H. discriminate.
Qed.

Lemma gzi_entry_bs_le : forall idx pos, snd (gzi_entry_bs idx pos) <= pos.
Proof.
  intros idx pos. unfold gzi_entry_bs.
  destruct (partition_point_bs (fun r => snd r <=? pos) idx) as [|j] eqn:E; [cbn; lia|].
  pose proof (partition_point_bs_pred _ _ _ E) as H. unfold pred_at in H.
  destruct (nth_error idx j) as [x|] eqn:En; [|discriminate].
  rewrite (nth_error_nth _ _ _ En). lia.
Qed.

Theorem gzi_query_bs_no_panic : forall idx pos, gzi_query_bs idx pos <> Panic.
Proof.
  intros idx pos. unfold gzi_query_bs. pose proof (gzi_entry_bs_le idx pos) as Hle.
  destruct (gzi_entry_bs idx pos) as [c u]. cbn [snd] in Hle.
  destruct (pos <? u) eqn:E; [lia|].
  destruct (65536 <=? pos - u); [discriminate|].
  destruct (vpos_try_from c (pos - u)); discriminate.
Qed.

(* what the exact query returns on ANY index: some entry of the index (or the implicit (0,0))
   whose uncompressed offset is <= pos, and the offset relative to it; InvalidData exactly when
   that relative offset does not fit u16 or the compressed offset does not fit 48 bits *)
Theorem gzi_query_bs_spec : forall idx pos,
  let e := gzi_entry_bs idx pos in
  (e = (0, 0) \/ In e idx) /\ snd e <= pos /\
  gzi_query_bs idx pos =
    if (pos - snd e <? 65536) && (fst e <=? MAX_COMPRESSED_POSITION)
    then Ok (pack (fst e) (pos - snd e)) else Err InvalidData.
Proof.
  intros idx pos e. pose proof (gzi_entry_bs_le idx pos) as Hle. fold e in Hle.
  split; [|split; [exact Hle|]].
  - subst e. unfold gzi_entry_bs.
    destruct (partition_point_bs (fun r => snd r <=? pos) idx) as [|j] eqn:E; [left; reflexivity|].
    pose proof (partition_point_bs_pred _ _ _ E) as H. unfold pred_at in H.
    destruct (nth_error idx j) as [x|] eqn:En; [|discriminate].
    right. rewrite (nth_error_nth _ _ _ En). exact (nth_error_In _ _ En).
  - unfold gzi_query_bs. fold e. destruct e as [c u]. cbn [fst snd] in *.
    destruct (pos <? u) eqn:E; [lia|].
    unfold vpos_try_from.
    destruct (65536 <=? pos - u) eqn:E1; destruct (pos - u <? 65536) eqn:E2; try lia; cbn [andb]; [reflexivity|].
    destruct (c <=? MAX_COMPRESSED_POSITION); reflexivity.
Qed.

Lemma step_bs_sorted : forall fx f idx st o, sorted_u idx -> step_bs fx f idx st o = step fx f idx st o.
Proof.
  intros fx f idx st o Hs. destruct o; try reflexivity.
  cbn [step_bs step]. unfold seek_by_uncompressed_position_bs, seek_by_uncompressed_position.
  rewrite (gzi_query_bs_sorted idx pos Hs). reflexivity.
Qed.

Theorem run_bs_sorted : forall fx f idx ops st, sorted_u idx -> run_bs fx f idx st ops = run fx f idx st ops.
Proof.
  intros fx f idx ops. induction ops as [|o r IH]; intros st Hs; [reflexivity|].
  cbn [run_bs run]. rewrite (step_bs_sorted fx f idx st o Hs).
  destruct (step fx f idx st o) as [st' x]. rewrite (IH st' Hs). reflexivity.
Qed.

(* the index of a file is sorted *)
Lemma gzi_entries_lb : forall fs c d, Forall (fun e => d <= snd e) (gzi_entries fs c d).
Proof.
  induction fs as [|b r IH]; intros c d; cbn [gzi_entries]; constructor.
  - cbn. lia.
  - specialize (IH (c + csize b) (d + flen b)).
    eapply Forall_impl; [|exact IH]. intros e He. cbv beta in He. lia.
Qed.

Lemma gzi_entries_sorted : forall fs c d, sorted_u (gzi_entries fs c d).
Proof.
  induction fs as [|b r IH]; intros c d; cbn [gzi_entries]; constructor.
  - apply IH.
  - pose proof (gzi_entries_lb r (c + csize b) (d + flen b)) as H.
    eapply Forall_impl; [|exact H]. intros e He. unfold u_le. cbn [snd]. cbv beta in He. lia.
Qed.

Lemma gzi_of_sorted : forall f, sorted_u (gzi_of f).
Proof.
  intros f. destruct f as [|b r]; cbn [gzi_of]; [constructor|apply gzi_entries_sorted].
Qed.

(* ---- the C02 theorems over the exact query --------------------------------------------- *)

Theorem reader_refines_flat_bs : forall f ops,
  wf f -> total_csize f <= MAX_COMPRESSED_POSITION -> ops_valid f ops ->
  exists fl, frun f (mkF 0 0) ops = Some fl /\
             Forall2 (agrees f) (run_bs true f (gzi_of f) (init f) ops) fl.
Proof.
  intros f ops Hwf Hmax Hv. rewrite (run_bs_sorted true f (gzi_of f) ops (init f) (gzi_of_sorted f)).
  exact (reader_refines_flat_repaired f ops Hwf Hmax Hv).
Qed.

Theorem gzi_lands_bs : forall f p, wf f -> total_csize f <= MAX_COMPRESSED_POSITION ->
  p <= total_dlen f /\ (p = total_dlen f -> forall q b, f = q ++ [b] -> flen b < 65536) ->
  exists v, gzi_query_bs (gzi_of f) p = Ok v /\ denote f v = Some p.
Proof.
  intros f p Hwf Hmax Hp. rewrite (gzi_query_bs_sorted (gzi_of f) p (gzi_of_sorted f)).
  exact (gzi_lands f p Hwf Hmax Hp).
Qed.

(* the two forms really differ on unsorted indexes: the prefix form stops at the first entry
   beyond the offset, the binary search probes the middle; and the underflow is reachable *)
Example bs_differs_unsorted :
  gzi_query [(100, 50); (200, 10); (300, 20)] 30 = Ok (pack 0 30) /\
  gzi_query_bs [(100, 50); (200, 10); (300, 20)] 30 = Ok (pack 300 10).
Proof. split; vm_compute; reflexivity. Qed.
