(* A second compressor inverted by the inflater, through the Huffman path: [deflate_fixed_lit] emits
   one final fixed-Huffman block (BTYPE = 1) that codes every byte as a literal with the code of RFC
   1951 3.2.6, then end-of-block, packed LSB-first into bytes.  For every byte string x:
   inflate (deflate_fixed_lit x) |x| = Some x. *)
From Coq Require Import List Arith NArith Bool Lia ZifyBool ZifyNat ZifyN.
From NV Require Import Base.LE Bgzf.Frame Bgzf.FrameProofs Bgzf.Inflate Bgzf.InflateProofs
  Bgzf.InflateFuel Bgzf.InflateHuffman.
Import ListNotations.
Open Scope N_scope.

(* ---- bit writer ---- *)

Fixpoint bits_val (l : list bool) : N :=
  match l with
  | [] => 0
  | b :: t => N.b2n b + 2 * bits_val t
  end.

(* LSB-first packing, the last byte padded with zero bits; fuel = number of bits *)
Fixpoint pack_bits (fuel : nat) (bits : list bool) : list N :=
  match fuel with
  | O => []
  | S f =>
      match bits with
      | [] => []
      | _ :: _ => bits_val (firstn 8 bits) :: pack_bits f (skipn 8 bits)
      end
  end.

Definition lit_code (sym : N) : list bool :=
  match find_path fixed_lt sym with Some p => p | None => [] end.

Definition deflate_fixed_bits (x : list N) : list bool :=
  [true; true; false] ++ flat_map lit_code x ++ lit_code 256.

Definition deflate_fixed_lit (x : list N) : list N :=
  let bits := deflate_fixed_bits x in pack_bits (length bits) bits.

(* ---- packing is read back by the bit reader ---- *)

Lemma bits_of_zero : forall k, bits_of k 0 = repeat false k.
Proof. induction k as [|k IH]; cbn [bits_of repeat]; [reflexivity|]. cbn [N.odd N.div2]. now rewrite IH. Qed.

Lemma bits_of_val : forall k l, (length l <= k)%nat ->
  bits_of k (bits_val l) = l ++ repeat false (k - length l).
Proof.
  induction k as [|k IH]; intros l Hl.
  - destruct l; [reflexivity|cbn [length] in Hl; lia].
  - destruct l as [|b t].
    + cbn [bits_val app length]. rewrite bits_of_zero. reflexivity.
    + cbn [bits_val bits_of app length]. cbn [length] in Hl.
      rewrite <- N.bit0_odd, N.add_b2n_double_bit0.
      rewrite N.div2_div, N.add_b2n_double_div2.
      rewrite IH by lia. reflexivity.
Qed.

Lemma pack_bits_read : forall f bits, (length bits <= f)%nat ->
  exists pad, flat_map (bits_of 8) (pack_bits f bits) = bits ++ pad.
Proof.
  induction f as [|f IH]; intros bits Hl.
  - destruct bits; [exists []; reflexivity|cbn [length] in Hl; lia].
  - destruct bits as [|b t]; [exists []; reflexivity|].
    cbn [pack_bits flat_map]. set (bits := b :: t) in *.
    assert (Hf : (length (firstn 8 bits) <= 8)%nat) by (rewrite firstn_length; lia).
    rewrite (bits_of_val 8 _ Hf).
    destruct (IH (skipn 8 bits)) as [pad Hp].
    { rewrite skipn_length. unfold bits in *. cbn [length] in *. lia. }
    rewrite Hp.
    destruct (Nat.le_gt_cases 8 (length bits)) as [Hge|Hlt].
    + exists pad. rewrite firstn_length. replace (8 - Nat.min 8 (length bits))%nat with O by lia.
      cbn [repeat]. rewrite app_nil_r, app_assoc, firstn_skipn. reflexivity.
    + exists (repeat false (8 - length bits) ++ pad).
      rewrite firstn_all2 by lia. rewrite skipn_all2 by lia. cbn [app]. rewrite <- app_assoc. reflexivity.
Qed.

(* ---- every literal and the end-of-block symbol have a code in the fixed tree ---- *)

Lemma fixed_codes_exist :
  forallb (fun k => match find_path fixed_lt (N.of_nat k) with Some _ => true | None => false end)
          (seq 0 257) = true.
Proof. vm_compute. reflexivity. Qed.

Lemma lit_code_path : forall b, b <= 256 -> path_to fixed_lt (lit_code b) b.
Proof.
  intros b Hb. pose proof fixed_codes_exist as H. rewrite forallb_forall in H.
  specialize (H (N.to_nat b)). rewrite N2Nat.id in H. unfold lit_code.
  destruct (find_path fixed_lt b) as [p|] eqn:E.
  - apply find_path_sound. exact E.
  - assert (Hin : In (N.to_nat b) (seq 0 257)) by (apply in_seq; lia).
    specialize (H Hin). discriminate.
Qed.

(* ---- the block body ---- *)

Lemma bits_left_bits_all : forall s, bits_left s = length (bits_all s).
Proof.
  intros [bs rest]. unfold bits_left, bits_all. cbn [fst snd]. rewrite app_length. f_equal.
  induction rest as [|x r IH]; cbn [flat_map length]; [reflexivity|].
  rewrite app_length, bits_of_length. lia.
Qed.

Lemma codes_literals : forall x f limit s o rest,
  Forall (fun b => b < 256) x ->
  bits_all s = flat_map lit_code x ++ lit_code 256 ++ rest ->
  (bits_left s < f)%nat -> ob_len o + lenN x <= limit ->
  exists s', codes f limit fixed_lt fixed_dt s o = Some (s', push_list x o) /\ bits_all s' = rest.
Proof.
  induction x as [|b x IH]; intros f limit s o rest Hx Hs Hf Hl.
  - destruct f as [|f]; [lia|]. cbn [flat_map app] in Hs. cbn [codes push_list].
    destruct (hdecode_path _ _ _ (lit_code_path 256 ltac:(lia)) s rest Hs) as [s' [Hd Hr]].
    rewrite Hd. exists s'. split; [reflexivity|exact Hr].
  - destruct f as [|f]; [lia|]. cbn [flat_map] in Hs. rewrite <- app_assoc in Hs.
    inversion Hx as [|? ? Hb Hx']; subst.
    destruct (hdecode_path _ _ _ (lit_code_path b ltac:(lia)) s _ Hs) as [s1 [Hd Hr]].
    cbn [codes push_list]. rewrite Hd.
    destruct (b <? 256) eqn:E1; [|lia].
    rewrite lenN_cons in Hl.
    destruct (limit <=? ob_len o) eqn:E2; [lia|].
    apply IH; [exact Hx'|exact Hr| |cbn [push ob_len]; lia].
    pose proof (hdecode_bits_strict _ _ _ _ fixed_lt_not_leaf Hd). lia.
Qed.

(* ---- the whole stream ---- *)

Theorem inflate_fixed_lit_correct : forall x, Forall (fun b => b < 256) x ->
  inflate (deflate_fixed_lit x) (lenN x) = Some x.
Proof.
  intros x Hx. unfold inflate, inflate_raw, deflate_fixed_lit. cbv zeta.
  set (src := pack_bits _ _).
  destruct (pack_bits_read (length (deflate_fixed_bits x)) (deflate_fixed_bits x) (le_n _)) as [pad Hp].
  fold src in Hp.
  assert (Hs0 : bits_all ([], src) = deflate_fixed_bits x ++ pad) by exact Hp.
  unfold deflate_fixed_bits in Hs0. cbn [app] in Hs0.
  set (F := S (8 * length src)).
  assert (HF : (bits_left ([], src) < F)%nat) by (unfold bits_left, F; cbn [fst snd length]; lia).
  (* BFINAL *)
  pose proof (getbit_spec ([], src)) as G1.
  destruct (getbit ([], src)) as [[b1 s1]|] eqn:E1; [|rewrite Hs0 in G1; discriminate].
  rewrite Hs0 in G1. injection G1 as Hb1 G1. subst b1.
  pose proof (getbit_bits _ _ _ E1) as B1.
  (* BTYPE = 1 *)
  pose proof (getbit_spec s1) as G2.
  destruct (getbit s1) as [[b2 s2]|] eqn:E2; [|rewrite <- G1 in G2; discriminate].
  rewrite <- G1 in G2. injection G2 as Hb2 G2. subst b2.
  pose proof (getbit_bits _ _ _ E2) as B2.
  pose proof (getbit_spec s2) as G3.
  destruct (getbit s2) as [[b3 s3]|] eqn:E3; [|rewrite <- G2 in G3; discriminate].
  rewrite <- G2 in G3. injection G3 as Hb3 G3. subst b3.
  pose proof (getbit_bits _ _ _ E3) as B3.
  assert (Hblk : blocks F F (lenN x) ([], src) ob_empty
                 = match codes F (lenN x) fixed_lt fixed_dt s3 ob_empty with
                   | Some (s4, o4) => Some (s4, o4) | None => None end).
  { unfold F at 1. cbn [blocks getbits]. rewrite E1, E2, E3. reflexivity. }
  rewrite Hblk.
  rewrite <- app_assoc in G3.
  destruct (codes_literals x F (lenN x) s3 ob_empty pad Hx (eq_sym G3)) as [s' [Hc _]].
  { lia. }
  { cbn [ob_empty ob_len]. lia. }
  rewrite Hc. rewrite push_list_rev. cbn [ob_empty ob_rev].
  rewrite app_nil_r, rev_append_rev, app_nil_r, rev_involutive, N.eqb_refl. reflexivity.
Qed.
