(* The reader model on a concatenation of well-formed frames returns the concatenation of their
   blocks. *)
From Coq Require Import List Arith NArith Bool Lia ZifyBool ZifyNat ZifyN.
From NV Require Import Base.LE Bgzf.Crc32 Bgzf.Crc32Proofs Bgzf.Frame Bgzf.FrameProofs Bgzf.Reader.
Import ListNotations.
Open Scope N_scope.

(* a frame described by (block, cdata) *)
Definition fbytes (f : list N * list N) : list N :=
  frame_bytes (snd f) (crc32 (fst f)) (lenN (fst f)).

Definition frames_bytes (fs : list (list N * list N)) : list N := concat (map fbytes fs).

Section ReaderProofs.
  Variable inflate : list N -> N -> option (list N).

  Definition good_frame (f : list N * list N) : Prop :=
    lenN (snd f) <= 65510 /\ lenN (fst f) <= 65536 /\ inflate (snd f) (lenN (fst f)) = Some (fst f).

  Lemma read_frame_nil : read_frame [] = Ok None.
  Proof. reflexivity. Qed.

  Lemma read_frame_app :
    forall c crc isz rest, lenN c <= 65510 ->
      read_frame (frame_bytes c crc isz ++ rest) = Ok (Some (frame_bytes c crc isz, rest)).
  Proof.
    intros c crc isz rest Hc. unfold read_frame.
    change (le_dec (slice (frame_bytes c crc isz ++ rest) 16 18))
      with (bsize_of (frame_bytes c crc isz ++ rest)).
    rewrite (bsize_of_frame_app c crc isz rest Hc).
    pose proof (frame_bytes_lenN c crc isz) as HL.
    rewrite lenN_app. unfold BGZF_HEADER_SIZE, MIN_FRAME_SIZE.
    destruct (lenN (frame_bytes c crc isz) + lenN rest <? 18) eqn:E1; [lia|].
    destruct (lenN (frame_bytes c crc isz) <? 26) eqn:E2; [lia|].
    destruct (lenN (frame_bytes c crc isz) + lenN rest <? lenN (frame_bytes c crc isz)) eqn:E3; [lia|].
    rewrite to_nat_lenN.
    rewrite (firstn_app_exact N (frame_bytes c crc isz) rest _ eq_refl).
    rewrite (skipn_app_exact N (frame_bytes c crc isz) rest _ eq_refl).
    reflexivity.
  Qed.

  Lemma parse_block_good :
    forall f, good_frame f -> parse_block inflate (fbytes f) = Ok (26 + lenN (snd f), fst f).
  Proof.
    intros [d c] (Hc & Hd & Hinf). cbn [fst snd] in *. unfold parse_block, fbytes. cbn [fst snd].
    rewrite parse_frame_frame_bytes; [|apply crc32_bound|exact Hd].
    rewrite Hinf, N.eqb_refl. reflexivity.
  Qed.

  Lemma read_blocks_frames :
    forall fs fuel, Forall good_frame fs -> (length fs < fuel)%nat ->
      read_blocks inflate fuel (frames_bytes fs) = (map fst fs, Ok tt).
  Proof.
    induction fs as [|f fs IH]; intros fuel Hg Hfuel.
    - destruct fuel as [|fuel]; [cbn in Hfuel; lia|]. reflexivity.
    - destruct fuel as [|fuel]; [lia|].
      inversion Hg as [|? ? Hf Hfs]; subst.
      unfold frames_bytes. cbn [map concat]. fold (frames_bytes fs).
      cbn [read_blocks]. unfold fbytes at 1.
      destruct Hf as (Hc & Hd & Hinf).
      rewrite (read_frame_app _ _ _ _ Hc). fold (fbytes f).
      rewrite (parse_block_good f (conj Hc (conj Hd Hinf))).
      rewrite (IH fuel Hfs); [reflexivity|]. cbn [length] in Hfuel. lia.
  Qed.

  Lemma frames_bytes_length_ge : forall fs, (length fs <= length (frames_bytes fs))%nat.
  Proof.
    induction fs as [|f fs IH]; [cbn; lia|].
    unfold frames_bytes in *. cbn [map concat length]. rewrite app_length.
    unfold fbytes at 1. rewrite frame_bytes_length. lia.
  Qed.

  Theorem reader_read_to_end_frames :
    forall fs, Forall good_frame fs ->
      reader_read_to_end inflate (frames_bytes fs) = (concat (map fst fs), Ok tt).
  Proof.
    intros fs Hg. unfold reader_read_to_end.
    rewrite (read_blocks_frames fs _ Hg); [reflexivity|].
    pose proof (frames_bytes_length_ge fs). lia.
  Qed.

  (* c01_eof: the EOF marker alone reads as the empty stream, given that the inflater maps the
     two-byte stream 03 00 to the empty string *)
  Lemma good_eof : inflate [3; 0] 0 = Some [] -> good_frame ([], [3; 0]).
  Proof. intros H. unfold good_frame. cbn [fst snd]. repeat split; [cbn; lia|cbn; lia|exact H]. Qed.

  Lemma fbytes_eof : fbytes ([], [3; 0]) = eof_block.
  Proof. vm_compute. reflexivity. Qed.

  Lemma read_eof_block :
    inflate [3; 0] 0 = Some [] -> reader_read_to_end inflate eof_block = ([], Ok tt).
  Proof.
    intros H. rewrite <- fbytes_eof.
    replace (fbytes ([], [3; 0])) with (frames_bytes [([], [3; 0])])
      by (unfold frames_bytes; cbn [map concat]; apply app_nil_r).
    rewrite reader_read_to_end_frames; [reflexivity|].
    constructor; [apply good_eof; exact H|constructor].
  Qed.
End ReaderProofs.
