(* Proofs about NV.Bgzf.MtReaderOps: for every pool size and every schedule of the reader thread /
   inflate pool / ticket channel the MultithreadedReader produces the op results and virtual
   positions of the single-threaded reader model NV.Bgzf.ReaderOps.  (The proof of the pull lemma
   follows NV.Async.ReaderProofs of property C16, which is not imported.) *)
From Coq Require Import List NArith PeanoNat Lia Bool ZifyBool ZifyNat ZifyN.
From NV Require Import Bgzf.Vpos Bgzf.Gzi Bgzf.ReaderOps.
From NV Require Import Io.Sched Io.SchedProofs Bgzf.MtReaderOps.
Import ListNotations.
Open Scope N_scope.
Arguments N.add : simpl never.
Arguments N.sub : simpl never.
Arguments N.mul : simpl never.
Arguments N.min : simpl never.
Arguments N.ltb : simpl never.
Arguments N.leb : simpl never.
Arguments N.eqb : simpl never.
Arguments N.to_nat : simpl never.
Arguments N.of_nat : simpl never.
Arguments firstn : simpl never.
Arguments skipn : simpl never.
Arguments pack : simpl never.

(* ---- small facts (self-contained: the proof files of C02 are not imported) ---------------- *)

Definition all_empty (es : list frame) : Prop := Forall (fun b => flen b = 0) es.
Definition total_csize (f : list frame) : N := fold_right (fun b a => csize b + a) 0 f.
Lemma csum_nil : total_csize [] = 0. Proof. reflexivity. Qed.
Lemma csum_cons : forall b r, total_csize (b :: r) = csize b + total_csize r.
Proof. reflexivity. Qed.

Lemma len_nil : forall A, @len A [] = 0.
Proof. reflexivity. Qed.
Lemma len_app : forall A (a b : list A), len (a ++ b) = len a + len b.
Proof. intros. unfold len. rewrite app_length. lia. Qed.

Lemma skipn_len : forall A (d : list A), skipn (N.to_nat (len d)) d = [].
Proof. intros. unfold len. rewrite Nnat.Nat2N.id. apply skipn_all. Qed.

Lemma buf_write_firstn : forall bf d, firstn (length d) (buf_write bf d) = d.
Proof.
  intros. unfold buf_write. rewrite firstn_app, Nat.sub_diag, firstn_O, app_nil_r.
  apply firstn_all2. lia.
Qed.

Lemma buf_slice_loaded : forall bf d c, firstn (length d) bf = d -> c <= len d ->
  buf_slice bf c (len d) = skipn (N.to_nat c) d.
Proof.
  intros bf d c Hf Hc. unfold buf_slice, len in *.
  assert (Hl : (length d <= length bf)%nat).
  { rewrite <- Hf at 1. rewrite firstn_length. lia. }
  rewrite firstn_app, skipn_length.
  replace (N.to_nat (N.of_nat (length d) - c) - (length bf - N.to_nat c))%nat with O by lia.
  rewrite firstn_O, app_nil_r.
  rewrite <- Hf at 2.
  replace (N.to_nat (N.of_nat (length d) - c)) with (length d - N.to_nat c)%nat by lia.
  symmetry. apply skipn_firstn_comm.
Qed.

Lemma buf_slice_empty : forall bf c, buf_slice bf c c = [].
Proof. intros. unfold buf_slice. rewrite N.sub_diag. change (N.to_nat 0) with O. apply firstn_O. Qed.

(* ---- next_nonempty over a run of empty frames ------------------------------------------- *)

Lemma nn_data : forall es b rm pos, all_empty es -> 0 < flen b ->
  next_nonempty (es ++ b :: rm) pos
  = Some (b, pos + total_csize es, rm, pos + total_csize es + csize b).
Proof.
  induction es as [|e es IH]; intros b rm pos He Hb.
  - cbn [app next_nonempty]. rewrite csum_nil, N.add_0_r.
    destruct (N.ltb_spec 0 (flen b)); [reflexivity|lia].
  - inversion He as [|? ? He1 He2]; subst. cbn [app next_nonempty].
    destruct (N.ltb_spec 0 (flen e)); [lia|].
    rewrite (IH b rm (pos + csize e) He2 Hb), csum_cons, !N.add_assoc. reflexivity.
Qed.

Lemma nn_last_empty : forall es b pos, all_empty es -> flen b = 0 ->
  next_nonempty (es ++ [b]) pos
  = Some (b, pos + total_csize es, [], pos + total_csize es + csize b).
Proof.
  induction es as [|e es IH]; intros b pos He Hb.
  - cbn [app next_nonempty]. rewrite csum_nil, N.add_0_r.
    destruct (N.ltb_spec 0 (flen b)); [lia|reflexivity].
  - inversion He as [|? ? He1 He2]; subst. cbn [app next_nonempty].
    destruct (N.ltb_spec 0 (flen e)); [lia|].
    rewrite (IH b (pos + csize e) He2 Hb), csum_cons, !N.add_assoc. reflexivity.
Qed.

(* ---- the consumer over a run of empty frames -------------------------------------------- *)

Lemma eat_empties : forall es c, all_empty es ->
  r_position (fold_left rd_step es c) = r_position c + total_csize es /\
  pulls (fold_left rd_step es c) = pulls c.
Proof.
  induction es as [|e es IH]; intros c He.
  - cbn [fold_left]. rewrite csum_nil, N.add_0_r. split; reflexivity.
  - inversion He as [|? ? He1 He2]; subst. cbn [fold_left].
    destruct (IH (rd_step c e) He2) as [I1 I2]. rewrite I1, I2, csum_cons.
    cbn [rd_step r_position pulls]. split; [lia|reflexivity].
Qed.

(* what the reader holds when a pull is over, in terms of the sync reader's next_nonempty *)
Lemma consumed_spec : forall cn rm c0, want c0 = true -> all_empty (removelast cn) ->
  (rd_stopped (fold_left rd_step cn c0) = true \/ rm = []) ->
  match next_nonempty (cn ++ rm) (r_position c0) with
  | None => cn = [] /\ rm = []
  | Some (b, p, r, np) =>
      r = rm /\
      fold_left rd_step cn c0 = mkRdr (flen b =? 0) np (mkBlk p (csize b) (fdata b) 0) (pulls c0)
  end.
Proof.
  intros cn rm c0 Hw He Hf.
  assert (Hc : cn = [] \/ exists es b, cn = es ++ [b]).
  { destruct cn as [|x0 cn0]; [left; reflexivity|right].
    destruct (@exists_last _ (x0 :: cn0)) as [es [b Hcn]]; [discriminate|]. exists es, b. exact Hcn. }
  destruct Hc as [Hn|[es [b Hcn]]].
  - subst cn. cbn [fold_left] in Hf. unfold rd_stopped in Hf. rewrite Hw in Hf.
    destruct Hf as [Hf|Hf]; [discriminate|]. subst rm. cbn [app next_nonempty]. split; reflexivity.
  - subst cn. rewrite removelast_last in He. rewrite fold_left_app in *. cbn [fold_left] in *.
    destruct (eat_empties es c0 He) as [E1 E2].
    destruct (N.ltb_spec 0 (flen b)) as [Hb|Hb].
    + rewrite <- app_assoc. cbn [app]. rewrite (nn_data es b rm _ He Hb).
      split; [reflexivity|]. unfold rd_step at 1. rewrite E1, E2. reflexivity.
    + unfold rd_stopped, rd_step in Hf. cbn [want] in Hf.
      destruct Hf as [Hf|Hf]; [destruct (N.eqb_spec (flen b) 0); [discriminate|lia]|].
      subst rm. rewrite app_nil_r. rewrite (nn_last_empty es b _ He); [|lia].
      split; [reflexivity|]. unfold rd_step at 1. rewrite E1, E2. reflexivity.
Qed.

(* ---- the pipeline during one pull -------------------------------------------------------- *)

Section Pull.
  Variable P : nat.
  Hypothesis HP : (0 < P)%nat.

  Notation swf := (SchedProofs.wf frame rdr).
  Notation sview := (SchedProofs.view frame rdr).

  (* c0 = the reader when the pull started *)
  Definition pinv (c0 : rdr) (s : pst) : Prop :=
    cs s = fold_left rd_step (Sched.cons s) c0 /\ all_empty (removelast (Sched.cons s)).

  Lemma want_all_empty : forall c0 s, pinv c0 s -> want (cs s) = true -> all_empty (Sched.cons s).
  Proof.
    intros c0 s [Hc He] Hw.
    assert (Hx : Sched.cons s = [] \/ exists es b, Sched.cons s = es ++ [b]).
    { destruct (Sched.cons s) as [|x0 cn0]; [left; reflexivity|right].
      destruct (@exists_last _ (x0 :: cn0)) as [es [b Hcn]]; [discriminate|]. exists es, b. exact Hcn. }
    destruct Hx as [Hn|[es [b Hcn]]].
    - rewrite Hn. constructor.
    - rewrite Hcn in *. rewrite removelast_last in He. rewrite fold_left_app in Hc. cbn [fold_left] in Hc.
      rewrite Hc in Hw. unfold rd_step in Hw. cbn [want] in Hw.
      apply Forall_app. split; [exact He|]. constructor; [|constructor].
      destruct (N.eqb_spec (flen b) 0); [assumption|discriminate].
  Qed.

  Lemma pstep_pinv : forall c0 s a, pinv c0 s -> pinv c0 (pstep P s a).
  Proof.
    intros c0 s a H. unfold pstep, Sched.step.
    destruct (Sched.enabled rd_stopped (can_sub P) P s a) eqn:E; [|exact H].
    pose proof (want_all_empty c0 s H) as HA.
    destruct s as [td n ch h p r d co c]. unfold pinv in *. cbn [cs Sched.cons] in *.
    destruct a as [| |t| |]; cbn [todo chan hold Sched.cons cs pending].
    - destruct td as [|x xs]; exact H.
    - destruct p; exact H.
    - exact H.
    - destruct ch; exact H.
    - destruct h as [[t x]|]; [|exact H]. cbn [cs Sched.cons].
      cbn [Sched.enabled hold done cs] in E. apply andb_prop in E. destruct E as [_ E].
      unfold rd_stopped in E. rewrite negb_involutive in E.
      destruct H as [Hc He]. split.
      + rewrite fold_left_app. cbn [fold_left]. rewrite <- Hc. reflexivity.
      + rewrite removelast_last. apply HA. exact E.
  Qed.

  (* the three facts carried through a pull *)
  Definition pI (fs : list frame) (c0 : rdr) (s : pst) : Prop :=
    sview s = fs /\ pinv c0 s /\ swf s.

  Lemma pstep_pI : forall fs c0 s a, pI fs c0 s -> pI fs c0 (pstep P s a).
  Proof.
    intros fs c0 s a (Hv & Hp & Hw). unfold pI. split; [|split].
    - unfold pstep. rewrite step_view. exact Hv.
    - apply pstep_pinv. exact Hp.
    - unfold pstep. apply step_wf. exact Hw.
  Qed.

  Lemma fold_pI : forall fs c0 seg s, pI fs c0 s -> pI fs c0 (fold_left (pstep P) seg s).
  Proof.
    induction seg as [|a seg IH]; intros s H; cbn [fold_left]; [exact H|].
    apply IH. apply pstep_pI. exact H.
  Qed.

  Lemma iter_pI : forall fs c0 pick n s, pI fs c0 s ->
    pI fs c0 (Sched.iter (fun b : frame => b) (fun _ => false) rd_step rd_stopped (can_sub P) P pick n s).
  Proof.
    induction n as [|n IH]; intros s H; cbn [Sched.iter]; [exact H|].
    destruct (Sched.final rd_stopped s); [exact H|]. apply IH. apply (pstep_pI fs c0 s (pick s) H).
  Qed.

  Lemma can_sub_empty : can_sub P 0 false = true.
  Proof. unfold can_sub. apply Nat.ltb_lt. lia. Qed.

  Lemma pcomplete_final : forall s, swf s -> pfinal (pcomplete P s) = true.
  Proof.
    intros s Hw. unfold pfinal, pcomplete.
    apply iter_reaches_final; [exact HP| |exact Hw|lia].
    intros s' Hw' Hf. apply default_pick_enabled; [exact HP|exact can_sub_empty|exact Hw'|exact Hf].
  Qed.

  (* a pull that is already over when the explicit segment ends needs no canonical completion *)
  Lemma pull_complete_schedule : forall seg s,
    pfinal (fold_left (pstep P) seg (start_pull s)) = true ->
    pull_with P seg s = fold_left (pstep P) seg (start_pull s).
  Proof. intros seg s H. unfold pull_with, pcomplete. apply final_iter. exact H. Qed.

  (* MAIN LEMMA: whatever the schedule, a pull leaves the reader exactly where the sync reader's
     read_nonempty_block loop leaves it *)
  Lemma pull_spec : forall seg s, swf s ->
    let s' := pull_with P seg s in
    swf s' /\
    match next_nonempty (remaining s) (r_position (cs s)) with
    | None =>
        remaining s' = [] /\
        cs s' = mkRdr true (r_position (cs s)) (r_blk (cs s)) (S (pulls (cs s)))
    | Some (b, p, r, np) =>
        remaining s' = r /\
        cs s' = mkRdr (flen b =? 0) np (mkBlk p (csize b) (fdata b) 0) (S (pulls (cs s)))
    end.
  Proof.
    intros seg s Hw. cbn zeta.
    set (c0 := mkRdr true (r_position (cs s)) (r_blk (cs s)) (S (pulls (cs s)))).
    assert (H0 : pI (remaining s) c0 (start_pull s)).
    { unfold pI, pinv, start_pull, SchedProofs.view. cbn [Sched.cons hold chan todo cs fold_left app removelast].
      split; [reflexivity|]. split; [split; [reflexivity|constructor]|].
      intros t Ht. apply (Hw t). exact Ht. }
    pose proof (fold_pI _ _ seg _ H0) as H1.
    set (s1 := fold_left (pstep P) seg (start_pull s)) in *.
    pose proof (iter_pI _ _ (Sched.default_pick rd_stopped (can_sub P) P) (Sched.measure s1) _ H1) as H2.
    pose proof (pcomplete_final s1 (proj2 (proj2 H1))) as HF.
    unfold pull_with. fold s1. unfold pcomplete in *.
    set (s2 := Sched.iter _ _ _ _ _ _ _ _ s1) in *.
    destruct H2 as (Hv & [Hc He] & Hw2). split; [exact Hw2|].
    unfold SchedProofs.view in Hv. fold (remaining s2) in Hv.
    assert (Hfin : rd_stopped (fold_left rd_step (Sched.cons s2) c0) = true \/ remaining s2 = []).
    { unfold pfinal, Sched.final in HF. apply orb_true_iff in HF. destruct HF as [HF|HF].
      - left. rewrite <- Hc. exact HF.
      - right. unfold Sched.drained in HF. unfold remaining.
        destruct (todo s2); [|discriminate]. destruct (chan s2); [|discriminate].
        destruct (hold s2); [discriminate|]. reflexivity. }
    pose proof (consumed_spec (Sched.cons s2) (remaining s2) c0 eq_refl He Hfin) as HS.
    rewrite Hv in HS. change (r_position c0) with (r_position (cs s)) in HS.
    destruct (next_nonempty (remaining s) (r_position (cs s))) as [[[[b p] r] np]|].
    - destruct HS as [Hr Hcs]. split; [symmetry; exact Hr|]. rewrite Hc. exact Hcs.
    - destruct HS as [Hcn Hr]. split; [exact Hr|]. rewrite Hc, Hcn. reflexivity.
  Qed.
End Pull.

(* ---- simulation: MultithreadedReader state vs single-threaded reader state ---------------- *)

Definition wfile (fs : list frame) : Prop := Forall (fun b => 0 < csize b /\ flen b <= 65536) fs.

Lemma nn_none : forall fs p, next_nonempty fs p = None -> fs = [].
Proof.
  intros [|b r] p H; [reflexivity|]. cbn [next_nonempty] in H.
  destruct (0 <? flen b); [discriminate|].
  destruct (next_nonempty r (p + csize b)) as [[[[? ?] ?] ?]|]; discriminate.
Qed.

Lemma nn_split : forall fs p b q r np, next_nonempty fs p = Some (b, q, r, np) ->
  (exists pre, fs = pre ++ b :: r) /\ p <= q /\ np = q + csize b.
Proof.
  induction fs as [|b0 r0 IH]; intros p b q r np H; [discriminate|].
  cbn [next_nonempty] in H. destruct (0 <? flen b0).
  - inversion H; subst. split; [exists []; reflexivity|]. split; [lia|reflexivity].
  - destruct (next_nonempty r0 (p + csize b0)) as [[[[b1 q1] r1] np1]|] eqn:E.
    + inversion H; subst. destruct (IH _ _ _ _ _ E) as [[pre Hp] [Hq Hn]].
      split; [exists (b0 :: pre); rewrite Hp; reflexivity|]. split; [lia|exact Hn].
    + inversion H; subst. split; [exists []; reflexivity|]. split; [lia|reflexivity].
Qed.

Lemma drop_to_wfile : forall fs at_ c r, wfile fs -> drop_to fs at_ c = Some r -> wfile r.
Proof.
  induction fs as [|b fs IH]; intros at_ c r Hs H; cbn [drop_to] in H.
  - inversion H; subst. constructor.
  - destruct (c =? at_); [inversion H; subst; exact Hs|].
    destruct (c <? at_ + csize b); [discriminate|].
    inversion Hs; subst. eapply IH; eassumption.
Qed.

Definition m_wf (m : mstate) : Prop :=
  match m with
  | MPaused _ _ => True
  | MRunning s => SchedProofs.wf frame rdr s
  | MDone _ => False
  end.

Record R (m : mstate) (st : state) : Prop := mkR {
  R_rest : rest st = m_ahead m;
  R_pos : position st = r_position (m_rd m);
  R_b : (bpos st = k_pos (r_blk (m_rd m)) /\ bsize st = k_size (r_blk (m_rd m)))
        \/ (cur st = blen st /\ bpos st + bsize st = k_pos (r_blk (m_rd m)) + k_size (r_blk (m_rd m)));
  R_blen : blen st = len (k_data (r_blk (m_rd m)));
  R_cur : cur st = k_cur (r_blk (m_rd m));
  R_le : k_cur (r_blk (m_rd m)) <= len (k_data (r_blk (m_rd m)));
  R_buf : firstn (length (k_data (r_blk (m_rd m)))) (buf st) = k_data (r_blk (m_rd m)) \/ cur st = blen st;
  R_wf : m_wf m;
  R_small : wfile (m_ahead m)
}.

Definition sim {A : Type} (x : mstate * A) (y : state * A) : Prop :=
  R (fst x) (fst y) /\ snd x = snd y.

Lemma m_rd_with : forall m c, m_rd (m_with_rdr m c) = c.
Proof. intros [fs c0|s|c0] c; reflexivity. Qed.

Lemma m_ahead_with : forall m c, m_ahead (m_with_rdr m c) = m_ahead m.
Proof. intros [fs c0|s|c0] c; reflexivity. Qed.

Lemma m_wf_with : forall m c, m_wf m -> m_wf (m_with_rdr m c).
Proof.
  intros [fs c0|s|c0] c H; cbn [m_with_rdr m_wf] in *; [exact I| |exact H].
  intros t Ht. apply (H t). exact Ht.
Qed.

Section Sim.
  Variables (P : nat) (sch : nat -> list act).
  Hypothesis HP : (0 < P)%nat.

  Notation pull := (pull P sch).

  Lemma has_remaining_R : forall m st, R m st -> has_remaining st = a_has_remaining (m_rd m).
  Proof. intros m st H. unfold has_remaining, a_has_remaining. rewrite (R_cur _ _ H), (R_blen _ _ H). reflexivity. Qed.

  Lemma as_ref_R : forall m st, R m st -> as_ref st = Ok (a_as_ref (m_rd m)).
  Proof.
    intros m st H. unfold as_ref, a_as_ref. pose proof (R_le _ _ H) as Hle.
    rewrite (R_cur _ _ H), (R_blen _ _ H).
    destruct (N.leb_spec (k_cur (r_blk (m_rd m))) (len (k_data (r_blk (m_rd m))))); [|lia].
    f_equal. destruct (R_buf _ _ H) as [Hb|Hb].
    - apply buf_slice_loaded; assumption.
    - rewrite (R_cur _ _ H), (R_blen _ _ H) in Hb. rewrite Hb. rewrite buf_slice_empty.
      unfold len. rewrite Nnat.Nat2N.id. symmetry. apply skipn_all.
  Qed.

  Lemma vpos_R : forall m st, R m st -> virtual_position st = m_virtual_position (m_rd m).
  Proof.
    intros m st H. unfold virtual_position, m_virtual_position.
    rewrite (has_remaining_R _ _ H), (R_cur _ _ H).
    destruct (a_has_remaining (m_rd m)) eqn:E.
    - destruct (R_b _ _ H) as [[B1 B2]|[B1 B2]].
      + rewrite B1. reflexivity.
      + unfold a_has_remaining in E. rewrite (R_cur _ _ H), (R_blen _ _ H) in B1. lia.
    - destruct (R_b _ _ H) as [[B1 B2]|[B1 B2]].
      + rewrite B1, B2. reflexivity.
      + rewrite B2. reflexivity.
  Qed.

  (* read_block(), seen from the single-threaded state: whatever the state of the reader
     (paused or running) and whatever the schedule, it returns Ok and leaves the application
     where read_nonempty_block leaves the single-threaded reader *)
  Lemma read_block_spec : forall m st, R m st ->
    exists m1, m_read_block P sch m = (m1, Ok tt) /\ m_wf m1 /\
    match next_nonempty (rest st) (position st) with
    | None =>
        rest st = [] /\ m_ahead m1 = [] /\
        r_position (m_rd m1) = r_position (m_rd m) /\ r_blk (m_rd m1) = r_blk (m_rd m)
    | Some (b, p, r, np) =>
        m_ahead m1 = r /\ wfile r /\ flen b <= 65536 /\ 0 < csize b /\
        position st <= p /\ np = p + csize b /\
        r_position (m_rd m1) = np /\ r_blk (m_rd m1) = mkBlk p (csize b) (fdata b) 0
    end.
  Proof.
    intros m st H.
    assert (Hs : exists s, resume m = Some s /\ SchedProofs.wf frame rdr s /\
                           remaining s = m_ahead m /\ cs s = m_rd m).
    { destruct m as [fs c|s|c].
      - exists (Sched.init c fs). split; [reflexivity|]. split; [apply init_wf|]. split; reflexivity.
      - exists s. split; [reflexivity|]. split; [exact (R_wf _ _ H)|]. split; reflexivity.
      - destruct (R_wf _ _ H). }
    destruct Hs as (s & Hres & Hw & Hrem & Hcs).
    unfold m_read_block. rewrite Hres. exists (MRunning (pull s)). split; [reflexivity|].
    pose proof (pull_spec P HP (sch (pulls (cs s))) s Hw) as HS.
    cbn zeta in HS. fold (pull s) in HS. destruct HS as [Hw1 HS]. split; [exact Hw1|].
    rewrite (R_rest _ _ H), (R_pos _ _ H), <- Hrem, <- Hcs. cbn [m_ahead m_rd].
    destruct (next_nonempty (remaining s) (r_position (cs s))) as [[[[b p] r] np]|] eqn:E.
    - destruct HS as [Hr Hc]. destruct (nn_split _ _ _ _ _ _ E) as [[pre Hp] [Hq Hn]].
      pose proof (R_small _ _ H) as Hsm. rewrite <- Hrem, Hp in Hsm.
      apply Forall_app in Hsm. destruct Hsm as [_ Hsm].
      inversion Hsm as [|? ? [Hb1 Hb2] Hsm']; subst. rewrite Hc. cbn [r_position r_blk].
      repeat split; try assumption; reflexivity.
    - destruct HS as [Hr Hc]. rewrite Hc. cbn [r_position r_blk].
      apply nn_none in E. repeat split; assumption.
  Qed.

  Lemma load_parse_R : forall m st, R m st ->
    exists m1, m_read_block P sch m = (m1, Ok tt) /\ R m1 (fst (read_nonempty_block Parse st)).
  Proof.
    intros m st H. destruct (read_block_spec m st H) as (m1 & Hrb & Hw & HS).
    exists m1. split; [exact Hrb|]. unfold read_nonempty_block.
    destruct (next_nonempty (rest st) (position st)) as [[[[b p] r] np]|].
    - destruct HS as (Hr & Hs & Hb & Hc & Hq & Hn & Hp & Hk). cbn [fst].
      constructor; cbn [rest position bpos bsize blen cur buf]; rewrite ?Hk, ?Hp, ?Hr; cbn [k_pos k_size k_data k_cur].
      + reflexivity.
      + reflexivity.
      + left. split; reflexivity.
      + reflexivity.
      + reflexivity.
      + unfold flen. lia.
      + left. apply buf_write_firstn.
      + exact Hw.
      + exact Hs.
    - destruct HS as (Hn & Hr & Hp & Hk). cbn [fst].
      constructor; rewrite ?Hk, ?Hp, ?Hr; try (apply H); try assumption.
      constructor.
  Qed.

  Lemma fill_sim : forall m st, R m st -> sim (m_fill_buf P sch m) (fill_buf st).
  Proof.
    intros m st H. unfold m_fill_buf, fill_buf, sim.
    rewrite (has_remaining_R _ _ H). destruct (a_has_remaining (m_rd m)).
    - cbn [fst snd]. split; [exact H|]. symmetry. apply as_ref_R. exact H.
    - destruct (load_parse_R m st H) as (m1 & Hrb & H1). rewrite Hrb. cbn [fst snd].
      split; [exact H1|]. symmetry. apply as_ref_R. exact H1.
  Qed.

  Lemma consume_R : forall m st n, R m st -> R (m_consume m n) (consume st n).
  Proof.
    intros m st n H. unfold m_consume, consume.
    constructor; rewrite ?m_rd_with, ?m_ahead_with;
      cbn [rest position bpos bsize blen cur buf r_position r_blk k_pos k_size k_data k_cur].
    - apply H.
    - apply H.
    - destruct (R_b _ _ H) as [B|[B1 B2]]; [left; exact B|right]. split; [rewrite B1; lia|exact B2].
    - apply H.
    - rewrite (R_cur _ _ H), (R_blen _ _ H). reflexivity.
    - lia.
    - destruct (R_buf _ _ H) as [Hb|Hb]; [left; exact Hb|right]. rewrite Hb. lia.
    - apply m_wf_with. apply H.
    - apply H.
  Qed.

  Lemma consume0_R : forall m st, R m st -> R m (consume st 0).
  Proof.
    intros m st H. pose proof (R_le _ _ H) as Hle. unfold consume.
    assert (E : N.min (cur st + 0) (blen st) = cur st).
    { rewrite (R_cur _ _ H), (R_blen _ _ H). lia. }
    constructor; cbn [rest position bpos bsize blen cur buf]; rewrite ?E; try (apply H).
  Qed.

  Lemma read_sim : forall m st n, R m st -> sim (m_read P sch m n) (read true st n).
  Proof.
    intros m st n H. unfold read.
    destruct (negb (has_remaining st) && (65536 <=? n)) eqn:D.
    - (* the single-threaded reader inflates straight into the caller's buffer *)
      apply andb_prop in D. destruct D as [D1 D2]. apply negb_true_iff in D1.
      unfold m_read, m_fill_buf. rewrite <- (has_remaining_R _ _ H), D1.
      destruct (read_block_spec m st H) as (m1 & Hrb & Hw & HS). rewrite Hrb.
      unfold read_nonempty_block.
      pose proof (R_le _ _ H) as Hle.
      assert (Hfull : k_cur (r_blk (m_rd m)) = len (k_data (r_blk (m_rd m)))).
      { unfold has_remaining in D1. rewrite (R_cur _ _ H), (R_blen _ _ H) in D1. lia. }
      destruct (next_nonempty (rest st) (position st)) as [[[[b p] r] np]|].
      + destruct HS as (Hr & Hs & Hb & Hc & Hq & Hn & Hp & Hk).
        unfold a_as_ref. rewrite Hk. cbn [k_cur k_data]. change (N.to_nat 0) with O. rewrite skipn_O.
        assert (Hout : firstn (N.to_nat n) (fdata b) = fdata b).
        { apply firstn_all2. unfold flen, len in Hb. lia. }
        rewrite Hout. unfold sim. cbn [fst snd]. split; [|reflexivity].
        unfold m_consume. rewrite Hk, Hp.
        constructor; rewrite ?m_rd_with, ?m_ahead_with;
          cbn [rest position bpos bsize blen cur buf r_position r_blk k_pos k_size k_data k_cur].
        * symmetry. exact Hr.
        * reflexivity.
        * left. split; reflexivity.
        * reflexivity.
        * unfold flen. lia.
        * lia.
        * right. reflexivity.
        * apply m_wf_with. exact Hw.
        * rewrite Hr. exact Hs.
      + destruct HS as (Hn & Hr & Hp & Hk).
        unfold a_as_ref. rewrite Hk, Hfull. rewrite skipn_len.
        rewrite firstn_nil. unfold sim. cbn [fst snd repeat]. change (N.to_nat 0) with O. cbn [repeat].
        split; [|reflexivity].
        unfold m_consume. rewrite Hk, Hp.
        constructor; rewrite ?m_rd_with, ?m_ahead_with;
          cbn [rest position bpos bsize blen cur buf r_position r_blk k_pos k_size k_data k_cur].
        * rewrite Hr. exact Hn.
        * apply H.
        * apply H.
        * apply H.
        * rewrite len_nil, (R_cur _ _ H). lia.
        * lia.
        * apply H.
        * apply m_wf_with. exact Hw.
        * rewrite Hr. constructor.
    - unfold m_read. destruct (fill_sim m st H) as [H1 H2].
      destruct (m_fill_buf P sch m) as [m1 ra]. destruct (fill_buf st) as [st1 rs].
      cbn [fst snd] in H1, H2. subst rs. unfold sim.
      destruct ra as [src|e| | |]; cbn [fst snd]; try (split; [exact H1|reflexivity]).
      split; [|reflexivity]. apply consume_R. exact H1.
  Qed.

  Lemma exact_loop_sim : forall fuel m st rem acc, R m st ->
    sim (m_read_exact_loop P sch fuel m rem acc) (default_read_exact true fuel st rem acc).
  Proof.
    induction fuel as [|k IH]; intros m st rem acc H; cbn [m_read_exact_loop default_read_exact].
    - split; [exact H|reflexivity].
    - destruct (rem =? 0); [split; [exact H|reflexivity]|].
      destruct (read_sim m st rem H) as [H1 H2].
      destruct (m_read P sch m rem) as [m1 ra]. destruct (read true st rem) as [st1 rs].
      cbn [fst snd] in H1, H2. subst rs.
      destruct ra as [bs|e| | |]; try (split; [exact H1|reflexivity]).
      destruct (len bs =? 0); [split; [exact H1|reflexivity]|]. apply IH. exact H1.
  Qed.

  Lemma read_exact_std_sim : forall m st n, R m st ->
    sim (m_read_exact_std P sch m n) (read_exact_std true st n).
  Proof. intros. unfold m_read_exact_std, read_exact_std. apply exact_loop_sim. assumption. Qed.

  Lemma read_exact_sim : forall m st n, R m st ->
    sim (m_read_exact P sch m n) (read_exact true st n).
  Proof.
    intros m st n H. unfold m_read_exact, read_exact. rewrite (as_ref_R _ _ H).
    destruct (n <=? len (a_as_ref (m_rd m))).
    - split; [|reflexivity]. cbn [fst]. apply consume_R. exact H.
    - apply read_exact_std_sim. exact H.
  Qed.

  Lemma all_loop_sim : forall fuel m st n acc, R m st ->
    sim (m_read_all_loop P sch fuel m n acc) (read_all_loop true fuel st n acc).
  Proof.
    induction fuel as [|k IH]; intros m st n acc H; cbn [m_read_all_loop read_all_loop].
    - split; [exact H|reflexivity].
    - destruct (read_sim m st n H) as [H1 H2].
      destruct (m_read P sch m n) as [m1 ra]. destruct (read true st n) as [st1 rs].
      cbn [fst snd] in H1, H2. subst rs.
      destruct ra as [bs|e| | |]; try (split; [exact H1|reflexivity]).
      destruct (len bs =? 0); [split; [exact H1|reflexivity]|]. apply IH. exact H1.
  Qed.

  Lemma read_all_sim : forall m st n, R m st -> sim (m_read_all P sch m n) (read_all true st n).
  Proof.
    intros m st n H. unfold m_read_all, read_all.
    replace (m_data_ahead m) with (data_ahead st); [apply all_loop_sim; exact H|].
    unfold m_data_ahead, data_ahead. rewrite (R_blen _ _ H), (R_rest _ _ H). reflexivity.
  Qed.

  (* pause() never panics on a live reader, and keeps the application side *)
  Lemma pause_R : forall m st, R m st -> exists inner, pause P m = Some (inner, m_rd m).
  Proof.
    intros m st H. destruct m as [fs c|s|c]; cbn [pause m_rd].
    - exists fs. reflexivity.
    - eexists. reflexivity.
    - destruct (R_wf _ _ H).
  Qed.

  Lemma seek_sim : forall f m st v, wfile f -> R m st -> sim (m_seek P sch f m v) (seek true f st v).
  Proof.
    intros f m st v Hf H. unfold m_seek, seek.
    destruct (pause_R m st H) as [inner Hpa]. rewrite Hpa.
    destruct (drop_to f 0 (vcomp v)) as [r|] eqn:Ed; [|split; [exact H|reflexivity]].
    set (m0 := MPaused r (mkRdr false (vcomp v) (r_blk (m_rd m)) (pulls (m_rd m)))).
    set (st1 := mkState r (vcomp v) (bpos st) (bsize st) (blen st) (cur st) (buf st)).
    assert (H0 : R m0 st1).
    { constructor; try (apply H); try reflexivity; try exact I.
      exact (drop_to_wfile _ _ _ _ Hf Ed). }
    destruct (read_block_spec m0 st1 H0) as (m2 & Hrb & Hw & HS). rewrite Hrb.
    unfold read_nonempty_block.
    destruct (next_nonempty (rest st1) (position st1)) as [[[[b p] r'] np]|].
    - destruct HS as (Hr & Hs & Hb & Hc & Hq & Hn & Hp & Hk).
      cbn [position st1] in Hq.
      assert (Hne : (r_position (m_rd m2) =? vcomp v) = false).
      { apply N.eqb_neq. lia. }
      rewrite Hne, Hk, Hp.
      destruct (N.eqb_spec (flen b) 0) as [Hz|Hz]; cbn [andb];
        (split; [|reflexivity]); cbn [fst];
        constructor; rewrite ?m_rd_with, ?m_ahead_with;
        cbn [rest position bpos bsize blen cur buf r_position r_blk k_pos k_size k_data k_cur].
      + symmetry. exact Hr.
      + reflexivity.
      + right. split; [lia|lia].
      + unfold flen in Hz. lia.
      + unfold flen in Hz. lia.
      + lia.
      + right. lia.
      + apply m_wf_with. exact Hw.
      + rewrite Hr. exact Hs.
      + symmetry. exact Hr.
      + reflexivity.
      + left. split; reflexivity.
      + reflexivity.
      + reflexivity.
      + lia.
      + left. apply buf_write_firstn.
      + apply m_wf_with. exact Hw.
      + rewrite Hr. exact Hs.
    - destruct HS as (Hn & Hr & Hp & Hk).
      assert (He : (r_position (m_rd m2) =? vcomp v) = true).
      { apply N.eqb_eq. rewrite Hp. reflexivity. }
      rewrite He, Hp. cbn [andb].
      (split; [|reflexivity]); cbn [fst];
        constructor; rewrite ?m_rd_with, ?m_ahead_with;
        cbn [rest position bpos bsize blen cur buf r_position r_blk k_pos k_size k_data k_cur m0 m_rd st1].
      + rewrite Hr. exact Hn.
      + reflexivity.
      + left. split; reflexivity.
      + reflexivity.
      + rewrite len_nil. reflexivity.
      + lia.
      + left. reflexivity.
      + apply m_wf_with. exact Hw.
      + rewrite Hr. constructor.
  Qed.

  Lemma seeku_sim : forall f idx m st p, wfile f -> R m st ->
    sim (m_seek_with_index P sch f idx m p) (seek_by_uncompressed_position true f idx st p).
  Proof.
    intros f idx m st p Hf H. unfold m_seek_with_index, seek_by_uncompressed_position.
    destruct (gzi_query idx p) as [v|e| | |]; try (split; [exact H|reflexivity]).
    destruct (seek_sim f m st v Hf H) as [H1 H2].
    destruct (m_seek P sch f m v) as [m1 ra]. destruct (seek true f st v) as [st1 rs].
    cbn [fst snd] in H1, H2. subst rs.
    destruct ra as [x|e| | |]; split; try exact H1; reflexivity.
  Qed.

  Lemma step_sim : forall f idx m st o, wfile f -> R m st ->
    sim (m_step P sch f idx m (MOp o)) (ReaderOps.step true f idx st o).
  Proof.
    intros f idx m st o Hf H. destruct o as [n|n|n| |n|v|p|n]; cbn [m_step ReaderOps.step].
    - destruct (read_sim m st n H) as [H1 H2].
      destruct (m_read P sch m n), (read true st n). cbn [fst snd] in *. subst. split; [exact H1|reflexivity].
    - destruct (read_exact_sim m st n H) as [H1 H2].
      destruct (m_read_exact P sch m n), (read_exact true st n). cbn [fst snd] in *. subst. split; [exact H1|reflexivity].
    - destruct (read_exact_std_sim m st n H) as [H1 H2].
      destruct (m_read_exact_std P sch m n), (read_exact_std true st n). cbn [fst snd] in *. subst. split; [exact H1|reflexivity].
    - destruct (fill_sim m st H) as [H1 H2].
      destruct (m_fill_buf P sch m), (fill_buf st). cbn [fst snd] in *. subst. split; [exact H1|reflexivity].
    - cbn [fst snd]. split; [apply consume_R; exact H|reflexivity].
    - destruct (seek_sim f m st v Hf H) as [H1 H2].
      destruct (m_seek P sch f m v), (seek true f st v). cbn [fst snd] in *. subst. split; [exact H1|reflexivity].
    - destruct (seeku_sim f idx m st p Hf H) as [H1 H2].
      destruct (m_seek_with_index P sch f idx m p), (seek_by_uncompressed_position true f idx st p).
      cbn [fst snd] in *. subst. split; [exact H1|reflexivity].
    - destruct (read_all_sim m st n H) as [H1 H2].
      destruct (m_read_all P sch m n), (read_all true st n). cbn [fst snd] in *. subst. split; [exact H1|reflexivity].
  Qed.

  Lemma run_sim : forall f idx ops m st, wfile f -> R m st ->
    m_run P sch f idx m (map MOp ops) = ReaderOps.run true f idx st ops.
  Proof.
    induction ops as [|o ops IH]; intros m st Hf H; cbn [map m_run ReaderOps.run]; [reflexivity|].
    destruct (step_sim f idx m st o Hf H) as [H1 H2].
    destruct (m_step P sch f idx m (MOp o)) as [m1 x]. destruct (ReaderOps.step true f idx st o) as [st1 y].
    cbn [fst snd] in H1, H2. subst y. rewrite (vpos_R _ _ H1). f_equal. apply IH; assumption.
  Qed.

  Lemma init_R : forall f, wfile f -> R (m_init f) (ReaderOps.init f).
  Proof.
    intros f Hf. constructor; cbn [m_init m_rd m_ahead m_wf ReaderOps.init rest position bpos bsize blen cur buf
                                    r_position r_blk blk0 k_pos k_size k_data k_cur].
    - reflexivity.
    - reflexivity.
    - left. split; reflexivity.
    - reflexivity.
    - reflexivity.
    - rewrite len_nil. lia.
    - left. reflexivity.
    - exact I.
    - exact Hf.
  Qed.

  (* MAIN THEOREM *)
  Theorem mt_reader_equals_st : forall f idx ops, wfile f ->
    m_run P sch f idx (m_init f) (map MOp ops) = ReaderOps.run true f idx (ReaderOps.init f) ops.
  Proof. intros f idx ops Hf. apply run_sim; [exact Hf|apply init_R; exact Hf]. Qed.
  (* ---- histories that end with finish(), or contain get_mut() ---------------------------- *)

  Lemma run_sim_app : forall f idx ops tail m st, wfile f -> R m st ->
    exists m' st', R m' st' /\
      m_run P sch f idx m (map MOp ops ++ tail)
      = ReaderOps.run true f idx st ops ++ m_run P sch f idx m' tail.
  Proof.
    induction ops as [|o ops IH]; intros tail m st Hf H; cbn [map app m_run ReaderOps.run].
    - exists m, st. split; [exact H|reflexivity].
    - destruct (step_sim f idx m st o Hf H) as [H1 H2].
      destruct (m_step P sch f idx m (MOp o)) as [m1 x]. destruct (ReaderOps.step true f idx st o) as [st1 y].
      cbn [fst snd] in H1, H2. subst y. rewrite (vpos_R _ _ H1).
      destruct (IH tail m1 st1 Hf H1) as (m' & st' & HR & E). exists m', st'. split; [exact HR|].
      rewrite E. reflexivity.
  Qed.

  (* finish() after any history returns (it never panics on a live reader, and the join it waits
     for is [drain], which ends) and hands the inner reader back; what was delivered before is
     what the single-threaded reader delivers *)
  Theorem finish_returns : forall f idx ops, wfile f ->
    exists off vp,
      m_run P sch f idx (m_init f) (map MOp ops ++ [Finish])
      = ReaderOps.run true f idx (ReaderOps.init f) ops ++ [(OPos (Ok off), vp)] /\ off <= csum f.
  Proof.
    intros f idx ops Hf.
    destruct (run_sim_app f idx ops [Finish] (m_init f) (ReaderOps.init f) Hf (init_R f Hf))
      as (m' & st' & HR & E).
    destruct (pause_R m' st' HR) as [inner Hpa].
    exists (csum f - csum inner). eexists. rewrite E. split; [|lia].
    f_equal. cbn [m_run m_step]. unfold m_finish. rewrite Hpa. reflexivity.
  Qed.

  (* get_mut() directly before a seek changes nothing: the seek pauses the reader anyway *)
  Lemma get_mut_then_seek : forall f m v, drop_to f 0 (vcomp v) <> None ->
    m_seek P sch f (fst (m_get_mut P f m)) v = m_seek P sch f m v.
  Proof.
    intros f m v Hd. destruct m as [fs c|s|c]; unfold m_get_mut, m_seek; cbn [pause fst].
    - reflexivity.
    - destruct (drop_to f 0 (vcomp v)) as [r|]; [reflexivity|contradiction].
    - reflexivity.
  Qed.

  (* the read-ahead a pause leaves behind: the inner reader is at most worker_count + 2 frames
     past what the application has taken (the buffers bound it) *)
  Lemma drain_spec : forall fuel s,
    exists k, todo (drain P fuel s) = skipn k (todo s) /\
      (k = 0 \/ k + length (chan s) + (if Sched.is_some (hold s) then 1 else 0) <= P + 2)%nat.
  Proof.
    induction fuel as [|fuel IH]; intros s; cbn [drain].
    - exists O. split; [reflexivity|left; reflexivity].
    - destruct (penabled P s Submit) eqn:E.
      + assert (Hs : exists x, todo s = x :: todo (pstep P s Submit) /\
                       length (chan (pstep P s Submit)) = S (length (chan s)) /\
                       hold (pstep P s Submit) = hold s /\
                       (length (chan s) + (if Sched.is_some (hold s) then 1 else 0) < P + 2)%nat).
        { unfold pstep, Sched.step. unfold penabled in E. rewrite E.
          destruct s as [td n ch h p r d co c]. cbn [Sched.enabled todo chan hold cs] in *.
          destruct td as [|x xs]; [discriminate|]. exists x. cbn [todo chan hold].
          rewrite app_length. cbn [length].
          apply andb_prop in E. destruct E as [E _]. unfold can_sub in E. apply Nat.ltb_lt in E.
          repeat split; try reflexivity; lia. }
        destruct Hs as (x & Ht & Hc & Hh & Hlt).
        destruct (IH (pstep P s Submit)) as [k [Hk Hb]].
        exists (S k). rewrite Ht. cbn [skipn]. split; [exact Hk|]. right.
        rewrite Hc, Hh in Hb. destruct Hb as [Hb|Hb]; [subst k; lia|lia].
      + exists O. split; [reflexivity|left; reflexivity].
  Qed.
End Sim.

(* ---- op histories with get_mut ------------------------------------------------------------ *)

(* every get_mut is directly followed by a seek to a frame boundary; no finish *)
Fixpoint guarded (f : file) (ops : list mop) : Prop :=
  match ops with
  | [] => True
  | MOp _ :: r => guarded f r
  | GetMut :: r =>
      match r with
      | MOp (Seek v) :: _ => drop_to f 0 (vcomp v) <> None
      | _ => False
      end /\ guarded f r
  | Finish :: _ => False
  end.

Fixpoint strip (ops : list mop) : list op :=
  match ops with
  | [] => []
  | MOp o :: r => o :: strip r
  | _ :: r => strip r
  end.

(* the outputs of the ops both readers have *)
Fixpoint sel (ops : list mop) (outs : list (out * res N)) : list (out * res N) :=
  match ops, outs with
  | MOp _ :: r, x :: xs => x :: sel r xs
  | _ :: r, _ :: xs => sel r xs
  | _, _ => []
  end.

Section Guarded.
  Variables (P : nat) (sch : nat -> list act).
  Hypothesis HP : (0 < P)%nat.

  Lemma guarded_sim : forall f idx ops m st, wfile f -> R m st -> guarded f ops ->
    sel ops (m_run P sch f idx m ops) = ReaderOps.run true f idx st (strip ops).
  Proof.
    induction ops as [|o ops IH]; intros m st Hf H G; [reflexivity|].
    destruct o as [o| |].
    - cbn [guarded] in G. cbn [m_run strip ReaderOps.run].
      destruct (step_sim P sch HP f idx m st o Hf H) as [H1 H2].
      destruct (m_step P sch f idx m (MOp o)) as [m1 x]. destruct (ReaderOps.step true f idx st o) as [st1 y].
      cbn [fst snd] in H1, H2. subst y. cbn [sel]. rewrite (vpos_R P sch HP _ _ H1). f_equal.
      apply IH; assumption.
    - cbn [guarded] in G. destruct G as [G1 G2]. cbn [strip].
      destruct ops as [|o2 ops2]; [contradiction|].
      destruct o2 as [o2| |]; try contradiction.
      destruct o2 as [n|n|n| |n|v|p|n]; try contradiction.
      rewrite <- (IH m st Hf H G2).
      cbn [m_run]. cbn [m_step].
      pose proof (get_mut_then_seek P sch f m v G1) as E.
      destruct (m_get_mut P f m) as [m' x]. cbn [fst] in E. cbn [sel]. rewrite E. reflexivity.
    - destruct G.
  Qed.

  Theorem mt_reader_get_mut_before_seek : forall f idx ops, wfile f -> guarded f ops ->
    sel ops (m_run P sch f idx (m_init f) ops)
    = ReaderOps.run true f idx (ReaderOps.init f) (strip ops).
  Proof. intros f idx ops Hf G. apply guarded_sim; [exact Hf|eapply init_R; eassumption|exact G]. Qed.
End Guarded.
