(* C03 -- ONE reader model.  NV.Bgzf.MtReaderOps (round 2) describes the MultithreadedReader over
   parsed WELL-FORMED files; NV.Bgzf.MtReaderErr (round 6) describes it over files whose frames
   carry a parse / inflate / framing outcome.  This file embeds the first into the second: a
   well-formed file is the error-model file all of whose frames are [SGood], and every state of
   the older model (application side, pipeline, Paused / Running / Done) is a state of the error
   model.  MtReaderBridgeProofs shows that the embedding commutes with every operation under every
   schedule, so MtReaderOps is the restriction of MtReaderErr to all-good files and its theorems
   are corollaries; the correspondence check runs the `rh` histories (well-formed files) through
   the ERROR model by [c03_mt_reader_case_via_err] below. *)
From Coq Require Import List NArith Bool Arith.
From NV Require Import Bgzf.Vpos Bgzf.Gzi Bgzf.ReaderOps Io.Sched Bgzf.MtReaderOps Bgzf.MtReaderErr.
Import ListNotations.
Open Scope N_scope.

(* a frame that reads, parses, inflates and checks *)
Definition good (b : frame) : eframe := mkE b SGood.
Definition goods (f : file) : efile := map good f.

(* the application side: no error pending *)
Definition emb_rdr (c : rdr) : erdr := mkER (want c) (r_position c) (r_blk c) (pulls c) None.

(* a pipeline state, item by item (generic in the item / consumer maps) *)
Definition map_tk {A B : Type} (g : A -> B) (q : nat * A) : nat * B := (fst q, g (snd q)).

Definition map_st {A B C D : Type} (g : A -> B) (h : C -> D) (s : Sched.st A C) : Sched.st B D :=
  Sched.mk (map g (todo s)) (next s) (map (map_tk g) (chan s)) (option_map (map_tk g) (hold s))
           (pending s) (running s) (done s) (map g (Sched.cons s)) (h (cs s)).

Definition emb_pst (s : pst) : epst := map_st good emb_rdr s.

Definition emb (m : mstate) : emstate :=
  match m with
  | MPaused fs c => EPaused (goods fs) (emb_rdr c)
  | MRunning s => ERunning (emb_pst s)
  | MDone c => EDone (emb_rdr c)
  end.

(* ---- entry point of the correspondence driver: the well-formed histories (kind rh) run through
        the error model ---- *)
Definition c03_mt_reader_case_via_err (P : nat) (segs : list (list nat)) (f : file) (idx : gzi_index)
  (ops : list mop) : list (out * res N) :=
  em_run P (sch_of segs) (goods f) idx (em_init (goods f)) ops.

(* the single-threaded error-path reader of the tree as it is on the embedded file (kind rhstv) *)
Definition c03_st_reader_case_via_err (f : file) (idx : gzi_index) (ops : list op) : list (out * res N) :=
  e_run pinned_err_repaired (goods f) idx (e_init (goods f)) ops.

(* ---- "no call ever runs out of fuel" as a predicate on a history's observations ---- *)
Definition fuel_free (x : out * res N) : Prop :=
  match fst x with
  | OBytes OutOfFuel => False
  | OPos OutOfFuel => False
  | _ => True
  end /\ snd x <> OutOfFuel.

(* ---- Reader::position / MultithreadedReader::position count GOOD frames only: the compressed
        bytes of the frames a read_block call has taken and that parsed ---- *)
Definition gsum (fs : list eframe) : N :=
  fold_right (fun x a => match es x with SGood => csize (eb x) + a | _ => a end) 0 fs.
