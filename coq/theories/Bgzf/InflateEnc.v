(* The executable encoder [enc_stream] / [deflate_blocks] of InflateSpec produces streams of the
   specification: for every list of valid blocks its output is a stream that [stream_denotes] the
   concatenated meaning of the blocks, hence (InflateStream) the inflater decodes
   [deflate_blocks bs] to [stream_out bs []].  [deflate_blocks] is the function the correspondence
   run (kind ms) compares byte for byte with an independent Rust encoder whose output the real
   reader (zlib-rs) decodes: this ties the declarative specification to the implementation. *)
From Coq Require Import List Arith NArith ZArith Bool Lia ZifyBool ZifyNat ZifyN.
From NV Require Import Base.LE Bgzf.Frame Bgzf.FrameProofs Bgzf.Inflate Bgzf.InflateProofs
  Bgzf.InflateFuel Bgzf.InflateHuffman Bgzf.InflateFixed Bgzf.InflateTokens Bgzf.InflateBody
  Bgzf.InflateDynamic Bgzf.InflateSpec Bgzf.InflateStream.
Import ListNotations.
Open Scope N_scope.

Lemma bits_val_lt : forall l, bits_val l < 2 ^ N.of_nat (length l).
Proof.
  induction l as [|b t IH]; [cbn; lia|].
  cbn [bits_val length]. rewrite Nat2N.inj_succ, N.pow_succ_r'. destruct b; cbn [N.b2n]; lia.
Qed.

(* ---- tokens ---- *)

Definition token_valid (t : token) : Prop :=
  match t with TLit b => b < 256 | TMatch len dist => 3 <= len <= 258 /\ 1 <= dist <= 32768 end.

Lemma enc_token_denotes : forall lt dt t, token_valid t -> token_coded lt dt t ->
  token_bits lt dt t (enc_token_in lt dt t).
Proof.
  intros lt dt [b|len dist] Hv Hc; cbn [enc_token_in token_coded token_valid] in *.
  - constructor. apply code_in_path. exact Hc.
  - destruct Hv as [Hl Hd]. destruct Hc as [HcL HcD].
    pose proof (len_ok_all len Hl) as LK. pose proof (dist_ok_all dist Hd) as DK.
    unfold len_ok in LK. unfold dist_ok in DK. cbv zeta in LK, DK.
    set (i := slot len_base len) in *. set (j := slot dist_base dist) in *.
    apply andb_prop in LK. destruct LK as [LK _]. apply andb_prop in LK. destruct LK as [LK L3].
    apply andb_prop in LK. destruct LK as [L1 L2].
    apply andb_prop in DK. destruct DK as [DK _]. apply andb_prop in DK. destruct DK as [DK D3].
    apply andb_prop in DK. destruct DK as [D1 D2].
    apply N.eqb_eq in L3. apply N.eqb_eq in D3.
    apply (tb_match lt dt len dist i (len - nth i len_base 0) j (dist - nth j dist_base 0)).
    + split; [lia|]. split; [|lia].
      rewrite <- L3 at 1. pose proof (bits_val_lt (bits_of (nth i len_extra O) (len - nth i len_base 0))) as B.
      rewrite bits_of_length in B. exact B.
    + split; [lia|]. split; [|lia].
      rewrite <- D3 at 1. pose proof (bits_val_lt (bits_of (nth j dist_extra O) (dist - nth j dist_base 0))) as B.
      rewrite bits_of_length in B. exact B.
    + apply code_in_path. exact HcL.
    + apply code_in_path. exact HcD.
Qed.

Lemma tokens_ok_valid : forall ts out, tokens_ok ts out -> Forall token_valid ts.
Proof.
  induction ts as [|t ts IH]; intros out H; [constructor|].
  cbn [tokens_ok] in H. destruct H as [H1 H2]. constructor; [|exact (IH _ H2)].
  destruct t as [b|len dist]; cbn [token_valid]; [exact H1|]. destruct H1 as [A [B _]]. split; assumption.
Qed.

Lemma enc_body_denotes : forall lt dt ts,
  Forall token_valid ts -> Forall (token_coded lt dt) ts -> has_code lt 256 ->
  body_bits lt dt ts (enc_body lt dt ts).
Proof.
  intros lt dt ts Hv Hc He. unfold enc_body. induction ts as [|t ts IH]; cbn [flat_map app].
  - constructor. apply code_in_path. exact He.
  - inversion Hv; subst. inversion Hc; subst. rewrite <- app_assoc.
    constructor; [apply enc_token_denotes; assumption|apply IH; assumption].
Qed.

(* the fixed code has a code for every symbol a valid token needs *)
Lemma fixed_token_coded : forall t, token_valid t -> token_coded fixed_lt fixed_dt t.
Proof.
  intros [b|len dist] Hv; cbn [token_valid token_coded] in *.
  - exact (find_path_complete _ _ _ (lit_code_path b ltac:(lia))).
  - destruct Hv as [Hl Hd].
    pose proof (len_ok_all len Hl) as LK. pose proof (dist_ok_all dist Hd) as DK.
    unfold len_ok in LK. unfold dist_ok in DK. cbv zeta in LK, DK.
    apply andb_prop in LK. destruct LK as [_ L4]. apply andb_prop in DK. destruct DK as [_ D4].
    unfold has_code. split.
    + destruct (find_path fixed_lt _); [discriminate|discriminate L4].
    + destruct (find_path fixed_dt _); [discriminate|discriminate D4].
Qed.

(* ---- the dynamic header ---- *)

Definition item_sym (it : cl_item) : N :=
  match it with CLen l => N.of_nat l | CRep16 _ => 16 | CRep17 _ => 17 | CRep18 _ => 18 end.

Lemma enc_items_denotes : forall clt items,
  Forall (fun it => has_code clt (item_sym it)) items ->
  items_bits clt items (flat_map (enc_item clt) items).
Proof.
  intros clt items H. induction H as [|it r Hi Hr IH]; cbn [flat_map]; [constructor|].
  constructor; [|exact IH].
  destruct it as [l|n|n|n]; cbn [enc_item item_sym] in *; constructor; apply code_in_path; exact Hi.
Qed.

(* ---- blocks ---- *)

Definition block_valid (b : block) (out : list N) : Prop :=
  match b with
  | BStored _ chunk => lenN chunk <= 65535 /\ Forall is_byte chunk
  | BFixed ts => tokens_ok ts out
  | BDynamic h ts =>
      dyn_hdr_ok h /\ Forall (fun it => has_code (dh_clt h) (item_sym it)) (dh_items h) /\
      tokens_ok ts out /\ Forall (token_coded (dh_lt h) (dh_dt h)) ts
  end.

(* the encoder pads stored blocks with zero bits *)
Definition norm_block (off : nat) (b : block) : block :=
  match b with BStored _ chunk => BStored (repeat false (pad_len off)) chunk | _ => b end.

Lemma norm_block_out : forall off b out, block_out (norm_block off b) out = block_out b out.
Proof. intros off [pad chunk|ts|h ts] out; reflexivity. Qed.

Lemma enc_block_denotes : forall off b out, block_valid b out ->
  block_bits off (norm_block off b) out (enc_block off b).
Proof.
  intros off [pad chunk|ts|h ts] out Hv; cbn [block_valid norm_block enc_block] in *.
  - destruct Hv as [Hc Hb]. constructor; try assumption; rewrite repeat_length; unfold pad_len.
    + apply Nat.mod_upper_bound. lia.
    + Zify.zify. Z.div_mod_to_equations. lia.
  - constructor; [exact Hv|].
    pose proof (tokens_ok_valid _ _ Hv) as Hvt.
    apply enc_body_denotes; [exact Hvt| |exact (find_path_complete _ _ _ (lit_code_path 256 ltac:(lia)))].
    rewrite Forall_forall in *. intros t Ht. apply fixed_token_coded. apply Hvt. exact Ht.
  - destruct Hv as [Hh [Hi [Hok Hc]]].
    apply (bk_dynamic off h ts out (enc_hdr h) (enc_body (dh_lt h) (dh_dt h) ts)); try assumption.
    + exists (flat_map (enc_item (dh_clt h)) (dh_items h)). split; [|reflexivity].
      apply enc_items_denotes. exact Hi.
    + apply enc_body_denotes; [exact (tokens_ok_valid _ _ Hok)|exact Hc|].
      destruct Hh as [K1 K2 K3 K4 K5 K6 K7 K8 K9 K10].
      change 256 with (N.of_nat 256). apply mk_tree_codes_all.
      * exact (code_ok_snd _ _ K9).
      * rewrite firstn_length. lia.
      * assert (Hn : nth 256 (dh_ll h) O = nth 256 (dh_lens h) O).
        { rewrite <- (firstn_skipn (dh_nlen h) (dh_lens h)) at 2. rewrite app_nth1; [reflexivity|].
          rewrite firstn_length. lia. }
        rewrite Hn. split; [lia|].
        (* every length the items describe is < 16 *)
        assert (Hall : forall items acc, items_ok items acc -> Forall (fun l => (l < 16)%nat) acc ->
                  Forall (fun l => (l < 16)%nat) (cl_expand items acc)).
        { induction items as [|it r IH]; intros acc Hok' Ha; cbn [cl_expand]; [exact Ha|].
          cbn [items_ok] in Hok'. destruct Hok' as [Hr Hok'']. apply IH; [exact Hok''|].
          apply Forall_app. split; [exact Ha|].
          destruct it as [l|n|n|n]; cbn [item_lens].
          - constructor; [exact Hr|constructor].
          - rewrite Forall_forall. intros x Hx. apply repeat_spec in Hx. subst x.
            destruct Hr as [_ Hne]. destruct (exists_last Hne) as [a [z Ez]]. subst acc.
            rewrite last_last. rewrite Forall_forall in Ha. apply Ha. apply in_or_app. right. left. reflexivity.
          - rewrite Forall_forall. intros x Hx. apply repeat_spec in Hx. lia.
          - rewrite Forall_forall. intros x Hx. apply repeat_spec in Hx. lia. }
        specialize (Hall _ _ K6 (Forall_nil _)). rewrite Forall_forall in Hall.
        assert (Hlt : (256 < length (dh_lens h))%nat) by lia.
        specialize (Hall _ (nth_In _ O Hlt)). lia.
Qed.

Lemma enc_block_norm : forall off b, enc_block off (norm_block off b) = enc_block off b.
Proof. intros off [pad chunk|ts|h ts]; reflexivity. Qed.

(* ---- streams ---- *)

Fixpoint stream_valid (off : nat) (bs : list block) (out : list N) : Prop :=
  match bs with
  | [] => True
  | b :: r => block_valid b out /\ stream_valid (off + 1 + length (enc_block off b)) r (block_out b out)
  end.

Fixpoint norm_stream (off : nat) (bs : list block) : list block :=
  match bs with
  | [] => []
  | b :: r => norm_block off b :: norm_stream (off + 1 + length (enc_block off b)) r
  end.

Theorem enc_stream_denotes : forall bs off out, bs <> [] -> stream_valid off bs out ->
  stream_denotes off (enc_stream off bs) out (norm_stream off bs) (stream_out bs out).
Proof.
  induction bs as [|b r IH]; intros off out Hne Hv; [contradiction|].
  cbn [stream_valid] in Hv. destruct Hv as [Hb Hr].
  cbn [enc_stream norm_stream stream_out].
  pose proof (enc_block_denotes off b out Hb) as Hd.
  destruct r as [|b2 r].
  - cbn [norm_stream stream_out]. rewrite <- (norm_block_out off b out). constructor. exact Hd.
  - cbv zeta. apply (sd_more off (norm_block off b) _ out (enc_block off b)); [exact Hd|].
    rewrite norm_block_out. apply IH; [discriminate|exact Hr].
Qed.

Lemma pack_bits_bytes : forall f bits, Forall is_byte (pack_bits f bits).
Proof.
  induction f as [|f IH]; intros bits; cbn [pack_bits]; [constructor|].
  destruct bits as [|b t]; [constructor|]. constructor; [|apply IH].
  unfold is_byte. pose proof (bits_val_lt (firstn 8 (b :: t))) as H.
  assert (Hl : (length (firstn 8 (b :: t)) <= 8)%nat) by (rewrite firstn_length; lia).
  assert (Hp : 2 ^ N.of_nat (length (firstn 8 (b :: t))) <= 2 ^ 8).
  { apply N.pow_le_mono_r; lia. }
  change (2 ^ 8) with 256 in Hp. lia.
Qed.

(* the encoder's output is inflated to the meaning of the blocks *)
Theorem inflate_deflate_blocks : forall bs, bs <> [] -> stream_valid 0 bs [] ->
  deflate_denotes (deflate_blocks bs) (stream_out bs []) /\
  inflate (deflate_blocks bs) (lenN (stream_out bs [])) = Some (stream_out bs []).
Proof.
  intros bs Hne Hv.
  assert (Hd : deflate_denotes (deflate_blocks bs) (stream_out bs [])).
  { unfold deflate_blocks. cbv zeta.
    destruct (pack_bits_read (length (enc_stream 0 bs)) (enc_stream 0 bs) (le_n _)) as [pad Hp].
    exists (norm_stream 0 bs), (enc_stream 0 bs), pad. split; [|exact Hp].
    apply enc_stream_denotes; assumption. }
  split; [exact Hd|]. apply inflate_complete; [apply pack_bits_bytes|exact Hd].
Qed.

