(* The DEFLATE premises of the C01 theorems discharged for a concrete codec: the stored-block
   compressor [deflate_stored] (as [deflate_l0], the same stream at every level) and the executable
   inflater [inflate] of NV.Bgzf.Inflate.  The writer/reader theorems of WriterProofs instantiated
   with it have no hypothesis left. *)
From Coq Require Import List Arith NArith Bool Lia ZifyBool ZifyNat ZifyN.
From NV Require Import Base.LE Bgzf.Crc32 Bgzf.Frame Bgzf.FrameProofs Bgzf.Writer Bgzf.Reader
  Bgzf.ReaderProofs Bgzf.WriterProofs Bgzf.Inflate Bgzf.InflateProofs.
Import ListNotations.
Open Scope N_scope.

(* level 0 expands a staging buffer by 5 bytes (<= the 15 the writer budgets for) *)
Lemma l0_bound : forall x, lenN x <= MAX_BUF_SIZE -> lenN (deflate_l0 0 x) <= MAX_COMPRESSED_SIZE.
Proof.
  intros x Hx. unfold deflate_l0, MAX_BUF_SIZE, MAX_COMPRESSED_SIZE in *.
  destruct (deflate_stored_single x) as [_ Hl]; lia.
Qed.

Lemma l0_roundtrip : forall (l : N) x, lenN x <= BGZF_MAX_ISIZE ->
  inflate (deflate_l0 l x) (lenN x) = Some x.
Proof. intros l x _. unfold deflate_l0. apply inflate_stored_correct. Qed.

(* any codec whose level 0 is the stored-block compressor satisfies the level-0 premise *)
Lemma l0_bound_of_stored : forall deflate : N -> list N -> list N,
  (forall x, lenN x <= MAX_BUF_SIZE -> deflate 0 x = deflate_stored x) ->
  forall x, lenN x <= MAX_BUF_SIZE -> lenN (deflate 0 x) <= MAX_COMPRESSED_SIZE.
Proof.
  intros deflate H x Hx. rewrite (H x Hx). exact (l0_bound x Hx).
Qed.

Theorem roundtrip_level0 : forall lvl ops e,
  let o := run_script deflate_l0 lvl ops e in
  reader_read_to_end inflate (o_sink o) = (accepted ops (o_results o), Ok tt).
Proof.
  intros lvl. exact (writer_reader_roundtrip deflate_l0 lvl l0_bound inflate l0_roundtrip inflate_eof_cdata).
Qed.

Theorem wellformed_level0 : forall lvl ops e, no_try_finish ops ->
  let o := run_script deflate_l0 lvl ops e in
  exists blocks,
    o_sink o = frames_bytes (map (wframe deflate_l0 lvl) blocks) ++ eof_block /\
    Forall (frame_wf deflate_l0 lvl inflate) blocks /\
    concat blocks = accepted ops (o_results o) /\
    o_end o = Ok tt /\
    Forall (fun r => is_ok (fst r)) (o_results o) /\ length (o_results o) = length ops.
Proof.
  intros lvl. exact (writer_wellformed_single deflate_l0 lvl l0_bound inflate l0_roundtrip).
Qed.

Theorem wellformed_segments_level0 : forall lvl ops e,
  let o := run_script deflate_l0 lvl ops e in
  exists segs,
    o_sink o = segs_bytes deflate_l0 lvl segs /\ segs <> [] /\ tail_nonempty segs /\
    Forall (Forall (frame_wf deflate_l0 lvl inflate)) segs /\
    concat (concat segs) = accepted ops (o_results o) /\
    o_end o = Ok tt /\
    Forall (fun r => is_ok (fst r)) (o_results o) /\ length (o_results o) = length ops /\
    (no_try_finish ops -> exists blocks, segs = [blocks]).
Proof.
  intros lvl. exact (writer_wellformed_full deflate_l0 lvl l0_bound inflate l0_roundtrip).
Qed.

Theorem no_unreachable_level0 : forall lvl x, lenN x <= 65495 ->
  encode deflate_l0 lvl x = Ok (enc deflate_l0 lvl x, crc32 x).
Proof. intros lvl. exact (encode_ok deflate_l0 lvl l0_bound). Qed.

(* the level-0 fallback of deflate.rs::encode always fits: for ANY first attempt (any codec at the
   requested level), provided only that level 0 of that codec is the stored-block compressor *)
Theorem no_unreachable_stored_fallback : forall (deflate : N -> list N -> list N) lvl,
  (forall x, lenN x <= MAX_BUF_SIZE -> deflate 0 x = deflate_stored x) ->
  forall x, lenN x <= 65495 -> encode deflate lvl x = Ok (enc deflate lvl x, crc32 x).
Proof.
  intros deflate lvl H. exact (encode_ok deflate lvl (l0_bound_of_stored deflate H)).
Qed.

(* the cdata of every frame written with the level-0 codec: one stored block, |block| + 5 bytes *)
Theorem enc_level0 : forall lvl b, lenN b <= 65495 ->
  enc deflate_l0 lvl b = stored_block true b /\ lenN (enc deflate_l0 lvl b) = lenN b + 5.
Proof.
  intros lvl b Hb. unfold enc, deflate_l0.
  destruct (deflate_stored_single b) as [He Hl]; [lia|].
  destruct (lenN (deflate_stored b) <=? MAX_COMPRESSED_SIZE); split; assumption.
Qed.

(* what the reader model accepts has exactly ISIZE bytes: a frame whose CDATA inflate to any
   other length is rejected (InvalidData), whatever its CRC field says *)
Theorem parse_block_isize : forall frame bs cdata crc isize bs' d,
  parse_frame frame = Ok (bs, cdata, crc, isize) ->
  parse_block inflate frame = Ok (bs', d) -> lenN d = isize /\ lenN d <= 65536 /\ crc32 d = crc.
Proof.
  intros frame bs cdata crc isize bs' d Hp Hb. unfold parse_block in Hb. rewrite Hp in Hb.
  destruct (inflate cdata isize) as [d0|] eqn:E; [|discriminate].
  destruct (crc32 d0 =? crc) eqn:Ec; [|discriminate].
  injection Hb as H1 H2. subst d0.
  pose proof (inflate_exact_length _ _ _ E) as Hl.
  split; [exact Hl|]. split; [|lia].
  unfold parse_frame in Hp.
  destruct (lenN frame <? MIN_FRAME_SIZE); [discriminate|].
  destruct (negb _); [discriminate|].
  destruct (_ <=? BGZF_MAX_ISIZE) eqn:Ei; [|discriminate].
  injection Hp as _ _ _ Hi. unfold BGZF_MAX_ISIZE in Ei.
  change (le_dec (skipn 4 (skipn (length frame - 8) frame)) = isize) in Hi. lia.
Qed.

(* ... where "inflate to" is the limit-free meaning: whatever limit L the stream was inflated
   under, if the result has another length than ISIZE the frame is rejected; if it has length
   ISIZE the frame is accepted exactly when the CRC matches *)
Theorem parse_block_rejects_length_mismatch : forall frame bs cdata crc isize L out rest,
  parse_frame frame = Ok (bs, cdata, crc, isize) ->
  inflate_raw L cdata = Some (out, rest) -> lenN out <> isize ->
  parse_block inflate frame = Err InvalidData.
Proof.
  intros frame bs cdata crc isize L out rest Hp Hr Hn. unfold parse_block. rewrite Hp.
  rewrite (inflate_spec L cdata out rest Hr isize).
  destruct (lenN out =? isize) eqn:E; [lia|reflexivity].
Qed.

Theorem parse_block_accepts : forall frame bs cdata crc isize L out rest,
  parse_frame frame = Ok (bs, cdata, crc, isize) ->
  inflate_raw L cdata = Some (out, rest) -> lenN out = isize ->
  parse_block inflate frame = if crc32 out =? crc then Ok (bs, out) else Err InvalidData.
Proof.
  intros frame bs cdata crc isize L out rest Hp Hr Hn. unfold parse_block. rewrite Hp.
  rewrite (inflate_spec L cdata out rest Hr isize).
  destruct (lenN out =? isize) eqn:E; [reflexivity|lia].
Qed.
