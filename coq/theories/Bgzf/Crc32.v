(* CRC-32 (IEEE 802.3, reflected, polynomial 0xEDB88320) as used by gzip; byte-at-a-time with the
   table entry recomputed by eight shift/xor steps.  zlib-rs' crc32::crc32(0, src) computes the
   same function (compared on every block of every C01 case through the frame trailers). *)
From Coq Require Import List NArith.
Import ListNotations.
Open Scope N_scope.

Definition crc_poly : N := 3988292384. (* 0xEDB88320 *)

Definition crc_step (c : N) : N :=
  if N.odd c then N.lxor (N.shiftr c 1) crc_poly else N.shiftr c 1.

Definition crc_tbl (i : N) : N :=
  crc_step (crc_step (crc_step (crc_step (crc_step (crc_step (crc_step (crc_step i))))))).

Definition crc_update (c b : N) : N :=
  N.lxor (crc_tbl (N.land (N.lxor c b) 255)) (N.shiftr c 8).

Definition crc32 (l : list N) : N :=
  N.lxor (fold_left crc_update l 4294967295) 4294967295.
