(* Reader::seek(v) for ARBITRARY (hostile) virtual positions, over the BYTES of the file.

   ReaderOps.seek works on an already parsed frame list and gives up (Unmodelled) when the block
   offset of v is not a frame boundary.  Here the file is its byte string and the frame at the
   target offset is read exactly as io/reader.rs + io/reader/frame.rs do it, with C01's models of
   read_frame_into (NV.Bgzf.Reader.read_frame), parse_frame (NV.Bgzf.Frame.parse_frame), the
   CRC-32 and the inflater (a section variable; the driver instantiates it with C01's
   NV.Bgzf.Inflate.inflate):

     seek:   inner.seek(Start(c)); position = c;
             if read_block()? == 0 { block := empty block at position }
             block.data.set_position(u)            // clamps to the data length
     read_block = read_nonempty_block_with(parse_block):
             while read_frame_into()?.is_some() {  // < 18 bytes left: clean end
                 parse_block(frame, block)?;       // parse_frame (block untouched on Err), then
                                                   // block_initialize (size, data pos 0, data len),
                                                   // inflate + CRC; on their failure (fix da5f8c7)
                                                   // block_invalidate: size and data length of the
                                                   // PREVIOUS block restored, cursor = that length
                                                   // (the block is left exhausted)
                 block.pos = position; position += block.size;
                 if block.data.len > 0 { return len } }
             return 0

   What is modelled is the call itself and what virtual_position() tells after it (also after an
   Err: `?` leaves the block as it was when the error occurred, i.e. untouched, or exhausted by
   block_invalidate); [reads_b] continues a byte-level reader after errors (kind hread). *)
From Coq Require Import List NArith Bool.
From NV Require Import Base.LE Bgzf.Vpos Bgzf.Gzi Bgzf.ReaderOps.
From NV Require Bgzf.Frame Bgzf.Reader Bgzf.Crc32 Bgzf.Inflate.
Import ListNotations.
Open Scope N_scope.

(* Block { pos, size, data { len, pos } } *)
Record blk := mkBlk { k_pos : N; k_size : N; k_len : N; k_cur : N }.

Definition blk_of (st : state) : blk := mkBlk (bpos st) (bsize st) (blen st) (cur st).

Definition cv_err (e : Frame.error) : err :=
  match e with
  | Frame.InvalidData => InvalidData
  | Frame.UnexpectedEof => UnexpectedEof
  | Frame.InvalidInput => InvalidInput
  | Frame.WriteZero => InvalidInput
  end.

(* Block::virtual_position, with its asserts *)
Definition blk_vpos (b : blk) : res N :=
  if k_cur b <? k_len b then
    if (k_pos b <=? MAX_COMPRESSED_POSITION) && (k_cur b <=? MAX_UNCOMPRESSED_POSITION)
    then Ok (pack (k_pos b) (k_cur b)) else Panic
  else
    if k_pos b + k_size b <=? MAX_COMPRESSED_POSITION
    then Ok (pack (k_pos b + k_size b) 0) else Panic.

Section SeekBytes.
  Variable inflate : list N -> N -> option (list N).

  (* read_nonempty_block_with(parse_block) over the bytes ahead of the inner stream:
     (Reader::position, the block, Ok data length / the error) *)
  Fixpoint rnb (fuel : nat) (src : list N) (pos : N) (b : blk) : N * blk * res N :=
    match fuel with
    | O => (pos, b, OutOfFuel)
    | S k =>
        match Reader.read_frame src with
        | Frame.Ok None => (pos, b, Ok 0)
        | Frame.Err e => (pos, b, Err (cv_err e))
        | Frame.Panic => (pos, b, Panic)
        | Frame.Ok (Some (fr, rest)) =>
            match Frame.parse_frame fr with
            | Frame.Err e => (pos, b, Err (cv_err e))
            | Frame.Panic => (pos, b, Panic)
            | Frame.Ok (bs, cdata, crc, isize) =>
                (* block_invalidate after a failed inflate / CRC check *)
                let b1 := mkBlk (k_pos b) (k_size b) (k_len b) (k_len b) in
                match inflate cdata isize with
                | None => (pos, b1, Err InvalidData)
                | Some d =>
                    if Crc32.crc32 d =? crc then
                      let b2 := mkBlk pos bs isize 0 in
                      if 0 <? isize then (pos + bs, b2, Ok isize)
                      else rnb k rest (pos + bs) b2
                    else (pos, b1, Err InvalidData)
                end
            end
        end
    end.


  (* ---- a byte-level reader that goes on after errors ------------------------------------- *)

  (* rnb, also returning the bytes still ahead of the inner Cursor.  After a failed read_exact
     std's Cursor is at the end of its data; a frame whose BSIZE is too small has consumed its
     18-byte header only; a frame that fails in parse_frame / inflate / CRC was read completely.
     Reader::position is not advanced by a failed frame. *)
  Fixpoint rnbs (fuel : nat) (src : list N) (pos : N) (b : blk) : list N * N * blk * res N :=
    match fuel with
    | O => (src, pos, b, OutOfFuel)
    | S k =>
        match Reader.read_frame src with
        | Frame.Ok None => ([], pos, b, Ok 0)
        | Frame.Err Frame.UnexpectedEof => ([], pos, b, Err UnexpectedEof)
        | Frame.Err e => (skipn 18 src, pos, b, Err (cv_err e))
        | Frame.Panic => (src, pos, b, Panic)
        | Frame.Ok (Some (fr, rest)) =>
            match Frame.parse_frame fr with
            | Frame.Err e => (rest, pos, b, Err (cv_err e))
            | Frame.Panic => (rest, pos, b, Panic)
            | Frame.Ok (bs, cdata, crc, isize) =>
                let b1 := mkBlk (k_pos b) (k_size b) (k_len b) (k_len b) in
                match inflate cdata isize with
                | None => (rest, pos, b1, Err InvalidData)
                | Some d =>
                    if Crc32.crc32 d =? crc then
                      let b2 := mkBlk pos bs isize 0 in
                      if 0 <? isize then (rest, pos + bs, b2, Ok isize)
                      else rnbs k rest (pos + bs) b2
                    else (rest, pos, b1, Err InvalidData)
                end
            end
        end
    end.

  Record bst := mkBst { s_src : list N; s_position : N; s_blk : blk }.

  (* Read::read with a buffer of n < 65536 bytes (fill_buf + copy + consume): how many bytes it
     delivers, or the error of read_block *)
  Definition read_b (s : bst) (n : N) : bst * res N :=
    let b := s_blk s in
    if k_cur b <? k_len b then
      let k := N.min n (k_len b - k_cur b) in
      (mkBst (s_src s) (s_position s) (mkBlk (k_pos b) (k_size b) (k_len b) (k_cur b + k)), Ok k)
    else
      match rnbs (S (length (s_src s))) (s_src s) (s_position s) b with
      | (src', pos', b', Ok _) =>
          let k := N.min n (k_len b' - k_cur b') in
          (mkBst src' pos' (mkBlk (k_pos b') (k_size b') (k_len b') (k_cur b' + k)), Ok k)
      | (src', pos', b', r) => (mkBst src' pos' b', r)
      end.

  (* a sequence of read calls: per call (result, position told afterwards) *)
  Fixpoint reads_b (s : bst) (ns : list N) : list (res N * res N) :=
    match ns with
    | [] => []
    | n :: r => let '(s', x) := read_b s n in (x, blk_vpos (s_blk s')) :: reads_b s' r
    end.

  (* Cursor::seek(Start(c)): any c is accepted, reads beyond the end deliver nothing *)
  Definition bytes_from (fb : list N) (c : N) : list N :=
    if Frame.lenN fb <=? c then [] else skipn (N.to_nat c) fb.

  (* (what seek returns, what virtual_position() tells afterwards) *)
  Definition seek_bytes (fb : list N) (b0 : blk) (v : N) : res N * res N :=
    let c := vcomp v in
    let u := vuncomp v in
    let src := bytes_from fb c in
    match rnb (S (length src)) src c b0 with
    | (pos, b, Ok n) =>
        let b1 := if n =? 0 then mkBlk pos 0 0 0 else b in
        let b2 := mkBlk (k_pos b1) (k_size b1) (k_len b1) (N.min u (k_len b1)) in
        (Ok v, blk_vpos b2)
    | (_, b, Err e) => (Err e, blk_vpos b)
    | (_, b, Panic) => (Panic, blk_vpos b)
    | (_, b, OutOfFuel) => (OutOfFuel, blk_vpos b)
    | (_, b, Unmodelled) => (Unmodelled, blk_vpos b)
    end.
  (* ---- seeks that are part of a history (wave 9): Reader::seek on the byte-level reader state,
     so that calls can follow it.  inner.seek(Start(c)); position = c; read_block()?: on Err the
     `?` returns and leaves the inner cursor wherever the failing frame left it, the position where
     the loop had got to (c, or beyond the empty frames skipped) and the block as rnbs leaves it
     (the previous block, untouched or invalidated, or a skipped empty frame); on Ok(0) an empty
     block at the position; then set_position(u) (clamped). *)
  Definition seek_b (fb : list N) (s : bst) (v : N) : bst * res N :=
    let c := vcomp v in
    let u := vuncomp v in
    let src := bytes_from fb c in
    match rnbs (S (length src)) src c (s_blk s) with
    | (src', pos', b', Ok n) =>
        let b1 := if n =? 0 then mkBlk pos' 0 0 0 else b' in
        (mkBst src' pos' (mkBlk (k_pos b1) (k_size b1) (k_len b1) (N.min u (k_len b1))), Ok v)
    | (src', pos', b', r) => (mkBst src' pos' b', r)
    end.

  Inductive bop := BRead (n : N) | BSeek (v : N).

  Definition step_b (fb : list N) (s : bst) (o : bop) : bst * res N :=
    match o with
    | BRead n => read_b s n
    | BSeek v => seek_b fb s v
    end.

  (* a history of read and seek calls that goes on after errors and after seeks to arbitrary
     positions: per call (result: byte count / the position sought, position told afterwards) *)
  Fixpoint hops_b (fb : list N) (s : bst) (ops : list bop) : list (res N * res N) :=
    match ops with
    | [] => []
    | o :: r => let '(s', x) := step_b fb s o in (x, blk_vpos (s_blk s')) :: hops_b fb s' r
    end.

  Fixpoint state_b (fb : list N) (s : bst) (ops : list bop) : bst :=
    match ops with
    | [] => s
    | o :: r => state_b fb (fst (step_b fb s o)) r
    end.
End SeekBytes.

(* the correspondence-check entry: a valid history on the parsed file (frame-level model), then
   one seek anywhere in the bytes of the same file, with C01's inflater *)
Definition hseek_run (f : file) (fb : list N) (ops : list op) (v : N) : res N * res N :=
  seek_bytes Inflate.inflate fb (blk_of (run_state true f (gzi_of f) (init f) ops)) v.

(* a fresh reader over arbitrary bytes, then read calls that go on after errors *)
Definition hread_run (fb : list N) (ns : list N) : list (res N * res N) :=
  reads_b Inflate.inflate (mkBst fb 0 (mkBlk 0 0 0 0)) ns.

(* a fresh reader over arbitrary bytes, then read AND seek calls that go on after errors, after
   failed seeks and after seeks onto bytes that merely parse as a frame *)
Definition hrs_run (fb : list N) (ops : list bop) : list (res N * res N) :=
  hops_b Inflate.inflate fb (mkBst fb 0 (mkBlk 0 0 0 0)) ops.
