(* C03 -- ONE writer model.  NV.Bgzf.MtWriter (round 1) describes MultithreadedWriter with an
   abstract chunk type and a sink that fails at ONE call index; property C14's NV.Sinks.Mt
   describes it over byte frames and a sink with an arbitrary fault script.  Both are instances of
   the same ticket pipeline NV.Io.Sched with the same window guard and pool.  This file embeds
   C03's sink into C14's:  chunks are byte lists, the frame of a block is the list of the non-empty
   pieces write_frame hands to write_all (writer/frame.rs: 11 header pieces, CDATA, CRC32, ISIZE),
   "the sink fails at call j" is the script  Full^j ++ [Fail e]  (every write_all of a non-empty
   piece on such a sink is exactly one inner write call).  MtWriterBridgeProofs shows that under
   this embedding the two models run in lock step under EVERY schedule. *)
From Coq Require Import List NArith Arith Bool.
From NV Require Import Io.Sched Bgzf.MtWriter Sinks.Sink Sinks.Mt.
Import ListNotations.

Definition nonempty (p : list byte) : bool := match p with [] => false | _ :: _ => true end.

(* the write_all calls of write_frame that reach the sink *)
Definition pieces (f : list byte) : list (list byte) := filter nonempty (frame_pieces f).

Section Emb.
  Variable e : errk.                 (* the error kind of the failing call *)
  Variable fail_at : option nat.

  (* what is left of the script  Full^j ++ [Fail e]  after [calls] inner calls *)
  Definition script_from (calls : nat) : list fault :=
    match fail_at with
    | Some j => if j <? calls then [] else repeat Full (j - calls) ++ [Fail e]
    | None => []
    end.

  (* C03's sink state (accepted chunks, call count, error flag) as C14's writer-thread state *)
  Definition emb_sink (k : MtWriter.sink (list byte)) : mtc :=
    if serr k then mkMtc (mkSink (concat (acc k)) [] (calls k)) (Err e)
    else mkMtc (mkSink (concat (acc k)) (script_from (calls k)) (calls k)) Ok.
End Emb.

(* the intermediate pipeline both models are images of: items = (block index, block) *)
Definition ix_items (bs : list blk) : list (nat * blk) := combine (seq 0 (length bs)) bs.

(* C03's operations as C14's *)
Definition mop_of (o : op) : mop :=
  match o with WriteAll n => MWriteAll (N.to_nat n) | Flush => MFlush end.

(* ---- entry point of the correspondence kind `wbr`: C03's OWN writer model (NV.Bgzf.MtWriter under
        the canonical schedule), instantiated with the real frames' pieces and pushed through the
        embedding -- result code of the last call (0 = Ok, 10 + kind = Err), inner write calls,
        sink bytes.  Ties [pieces], [emb_sink], [script_from] and the instantiation used by
        MtStageBridgeProofs.writer_models_one to noodles-bgzf. ---- *)
Fixpoint index_of (b : blk) (bs : list blk) : nat :=
  match bs with
  | [] => 0
  | x :: r => if (N.eqb (fst x) (fst b) && N.eqb (snd x) (snd b))%bool then 0 else S (index_of b r)
  end.

Definition c03_writer_bridge_case (P : nat) (frames : list (list byte)) (e : errk) (fa : option nat)
  (ops : list op) : option (N * nat * list byte) :=
  let bs := stage ops in
  let fr := fun b => nth (index_of b bs) frames [] in
  let s := iter (fun b => pieces (fr b)) w_ready (write_frame fa) serr (w_can_submit P) P
                (default_pick serr (w_can_submit P) P) (5 * length bs) (init sink0 bs) in
  if final serr s then
    let c := emb_sink e fa (finish_sink (list byte) BGZF_EOF fa (cs s)) in
    Some (match mt_res c with Ok => 0%N | OutOfFuel => 1%N | Err k => (10 + k)%N end,
          scalls (mt_sink c), sbytes (mt_sink c))
  else None.
