(* C02 wave 9: the byte-level reader continued PAST a seek (SeekBytes.seek_b / hops_b): what a seek
   inside a history returns and tells is what the one-seek model seek_bytes says (so every theorem
   about seek_bytes is a theorem about seeks inside histories); the state a FAILED seek leaves; a
   successful seek and everything read after it depend only on the bytes from the block offset on
   (a seek onto bytes that merely parse as a frame is indistinguishable from a seek to a frame). *)
From Coq Require Import List NArith Bool Lia ZifyBool ZifyNat ZifyN.
From NV Require Import Bgzf.Vpos Bgzf.ReaderOps Bgzf.SeekBytes Bgzf.SeekBytesProofs.
Import ListNotations.
Open Scope N_scope.

Section H.
  Variable inflate : list N -> N -> option (list N).

  Theorem seek_b_seek_bytes : forall fb s v,
    (snd (seek_b inflate fb s v), blk_vpos (s_blk (fst (seek_b inflate fb s v))))
    = seek_bytes inflate fb (s_blk s) v.
  Proof.
    intros fb s v. unfold seek_b, seek_bytes.
    pose proof (rnbs_rnb inflate (S (length (bytes_from fb (vcomp v)))) (bytes_from fb (vcomp v)) (vcomp v) (s_blk s)) as Hp.
    destruct (rnbs inflate (S (length (bytes_from fb (vcomp v)))) (bytes_from fb (vcomp v)) (vcomp v) (s_blk s))
      as [[[src' pos'] b'] r].
    rewrite Hp. destruct r; reflexivity.
  Qed.

  (* a failed seek: the block is the previous block (untouched if anything of it is still
     readable), and if the previous block was exhausted the position told is unchanged or has
     advanced over well-formed empty frames only *)
  Theorem seek_b_err : forall fb s v s' e,
    seek_b inflate fb s v = (s', Err e) ->
    (k_cur (s_blk s') < k_len (s_blk s') -> s_blk s' = s_blk s) /\
    (k_len (s_blk s) <= k_cur (s_blk s) ->
     blk_vpos (s_blk s') = blk_vpos (s_blk s) \/
     exists p sz, s_blk s' = mkBlk p sz 0 0 /\ s_position s' = p + sz).
  Proof.
    intros fb s v s' e H. unfold seek_b in H.
    pose proof (rnbs_rnb inflate (S (length (bytes_from fb (vcomp v)))) (bytes_from fb (vcomp v)) (vcomp v) (s_blk s)) as Hp.
    destruct (rnbs inflate (S (length (bytes_from fb (vcomp v)))) (bytes_from fb (vcomp v)) (vcomp v) (s_blk s))
      as [[[src' pos'] b'] r].
    destruct r as [a|e0| | |]; try discriminate.
    injection H as Hs He. subst s' e0. cbn [s_blk s_position].
    exact (failed_block_not_current _ _ _ _ _ _ _ _ Hp).
  Qed.

  (* ... and the reads that follow are served from that previous block first, although the inner
     stream has moved: its remaining bytes are delivered before anything at the new offset *)
  Theorem failed_seek_serves_previous_block : forall fb s v s' e,
    seek_b inflate fb s v = (s', Err e) ->
    k_cur (s_blk s') < k_len (s_blk s') ->
    s_blk s' = s_blk s /\
    forall n, snd (read_b inflate s' n) = Ok (N.min n (k_len (s_blk s) - k_cur (s_blk s))).
  Proof.
    intros fb s v s' e H Hlt. destruct (seek_b_err _ _ _ _ _ H) as [H1 _].
    specialize (H1 Hlt). split; [exact H1|]. intros n. unfold read_b.
    destruct (N.ltb_spec (k_cur (s_blk s')) (k_len (s_blk s'))) as [_|Hbad]; [|lia].
    cbn [snd]. rewrite H1. reflexivity.
  Qed.

  (* a seek, and the whole history of reads after it, see the file only through the bytes from
     the block offset on *)
  Theorem seek_b_suffix : forall fb fb' s v,
    bytes_from fb (vcomp v) = bytes_from fb' (vcomp v) ->
    seek_b inflate fb s v = seek_b inflate fb' s v.
  Proof. intros fb fb' s v E. unfold seek_b. rewrite E. reflexivity. Qed.

  Lemma hops_reads : forall fb s ns, hops_b inflate fb s (map BRead ns) = reads_b inflate s ns.
  Proof.
    intros fb s ns. revert s. induction ns as [|n r IH]; intros s; [reflexivity|].
    cbn [map hops_b reads_b step_b]. destruct (read_b inflate s n) as [s' x]. rewrite IH. reflexivity.
  Qed.

  Theorem seek_then_reads_suffix : forall fb fb' s v ns,
    bytes_from fb (vcomp v) = bytes_from fb' (vcomp v) ->
    hops_b inflate fb s (BSeek v :: map BRead ns) = hops_b inflate fb' s (BSeek v :: map BRead ns).
  Proof.
    intros fb fb' s v ns E. cbn [hops_b step_b]. rewrite (seek_b_suffix fb fb' s v E).
    destruct (seek_b inflate fb' s v) as [s' x]. rewrite !hops_reads. reflexivity.
  Qed.

  (* the history runner is the composition of its steps (used by the correspondence check) *)
  Lemma hops_b_app : forall fb s a b,
    hops_b inflate fb s (a ++ b) = hops_b inflate fb s a ++ hops_b inflate fb (state_b inflate fb s a) b.
  Proof.
    intros fb s a. revert s. induction a as [|o a IH]; intros s b; [reflexivity|].
    cbn [app hops_b state_b]. destruct (step_b inflate fb s o) as [s' x]. cbn [fst].
    rewrite IH. reflexivity.
  Qed.
End H.
