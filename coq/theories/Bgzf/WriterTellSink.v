(* C02, writer side over a FAILING destination: bgzf::io::Writer (noodles-bgzf/src/io/writer.rs:
   write, flush, flush_block, try_finish, finish, Drop, position, virtual_position; std's
   Write::write_all; writer/frame.rs write_frame = 14 write_all calls on the inner writer with the
   two integer conversions in between) over C14's sink with a fault script (NV.Sinks.Sink,
   imported read-only = harness/src/adversary.rs::FaultySink): what the writer tells after a call
   that returned Err.

   State = position, staging buffer (the bytes themselves), the sink, is_finished.  DEFLATE is a
   parameter (C01's [Writer.encode] is reused).  Error kinds are numbers: C14's two codes
   (0 Interrupted, 1 WriteZero) plus 2 = InvalidInput; any other number is whatever the script
   injects.

   [fxe] is a behaviour switch for ONE statement of try_finish:
       let result = inner.write_all(&BGZF_EOF);  self.position += BGZF_EOF.len() as u64;
   fxe = false: as pinned - the position advances by 28 even when the EOF block was NOT written;
   fxe = true : `if result.is_ok() { self.position += 28 }` (proposed repair).
   [pinned_writer_repaired] says which one /repo currently is (the driver runs the model with it). *)
From Coq Require Import List NArith Bool.
From NV Require Import Base.LE Bgzf.Crc32 Bgzf.Frame Bgzf.Writer.
From NV Require Sinks.Sink Bgzf.Vpos Bgzf.ReaderOps Bgzf.FlatRef Bgzf.WriterTell Bgzf.Reader.
Import ListNotations.
Open Scope N_scope.

Definition pinned_writer_repaired : bool := true.

Definition e_invalid_input : N := 2.

Inductive fres (A : Type) : Type :=
| FOk (a : A)
| FErr (e : N)
| FPanic.
Arguments FOk {A} a.
Arguments FErr {A} e.
Arguments FPanic {A}.

Record fstate := mkF {
  f_pos : N;                (* position *)
  f_stg : list N;           (* staging_buf *)
  f_snk : Sink.sink;        (* the inner writer: bytes accepted so far + the rest of its fault script *)
  f_fin : bool              (* is_finished *)
}.

Definition f_init (script : list Sink.fault) : fstate :=
  mkF 0 [] (Sink.mkSink [] script 0) false.

(* write_header up to XLEN/SI1/SI2/SLEN: ten write_all calls *)
Definition hdr_calls : list Sink.call :=
  map Sink.CWrite [[31; 139]; [8]; [4]; [0; 0; 0; 0]; [0]; [255]; [6; 0]; [66]; [67]; [2; 0]].

(* writer/frame.rs write_frame over the faulty sink *)
Definition f_write_frame (cdata : list N) (crc isize : N) (s : Sink.sink) : fres N * Sink.sink :=
  let bs := BGZF_HEADER_SIZE + lenN cdata + TRAILER_SIZE in
  match Sink.run_calls hdr_calls s with
  | (Sink.Ok, s1) =>
      if bs - 1 <=? 65535 then                                  (* u16::try_from(block_size - 1) *)
        match Sink.run_calls [Sink.CWrite (le16 (bs - 1)); Sink.CWrite cdata; Sink.CWrite (le32 crc)] s1 with
        | (Sink.Ok, s2) =>
            if isize <=? 4294967295 then                        (* u32::try_from(uncompressed_size) *)
              match Sink.write_all (le32 isize) s2 with
              | (Sink.Ok, s3) => (FOk bs, s3)
              | (Sink.Err e, s3) => (FErr e, s3)
              | (Sink.OutOfFuel, s3) => (FPanic, s3)
              end
            else (FErr e_invalid_input, s2)
        | (Sink.Err e, s2) => (FErr e, s2)
        | (Sink.OutOfFuel, s2) => (FPanic, s2)
        end
      else (FErr e_invalid_input, s1)
  | (Sink.Err e, s1) => (FErr e, s1)
  | (Sink.OutOfFuel, s1) => (FPanic, s1)
  end.

(* the sink splits into frames (BSIZE walk as in WriterTell.sink_file) that take up all of it, each
   with ISIZE <= 65536: the condition under which the file left behind is looked at *)
Fixpoint frames_sane (fuel : nat) (src : list N) : bool :=
  match fuel with
  | O => false
  | S k =>
      match src with
      | [] => true
      | _ :: _ =>
          match Reader.read_frame src with
          | Ok (Some (fr, rest)) =>
              (le_dec (skipn (length fr - 4) fr) <=? BGZF_MAX_ISIZE) && frames_sane k rest
          | _ => false
          end
      end
  end.

Section FW.
  Variable deflate : N -> list N -> list N.
  Variable fxe : bool.
  Variable lvl : N.

  Definition f_flush_block (st : fstate) : fstate * fres unit :=
    match Writer.encode deflate lvl (f_stg st) with
    | Ok (cdata, crc) =>
        let '(r, s') := f_write_frame cdata crc (lenN (f_stg st)) (f_snk st) in
        match r with
        | FOk bs => (mkF (f_pos st + bs) [] s' false, FOk tt)
        | FErr e => (mkF (f_pos st) (f_stg st) s' false, FErr e)
        | FPanic => (mkF (f_pos st) (f_stg st) s' false, FPanic)
        end
    | _ => (st, FPanic)
    end.

  Definition f_flush (st : fstate) : fstate * fres unit :=
    match f_stg st with
    | [] => (st, FOk tt)
    | _ :: _ => f_flush_block st
    end.

  (* Write::write; third component = the bytes taken into the staging buffer (also when the call
     then fails in flush) *)
  Definition f_write (st : fstate) (buf : list N) : fstate * fres N * list N :=
    if MAX_BUF_SIZE <? lenN (f_stg st) then (st, FPanic, [])
    else
      let amt := N.min (MAX_BUF_SIZE - lenN (f_stg st)) (lenN buf) in
      let tk := firstn (N.to_nat amt) buf in
      let st1 := mkF (f_pos st) (f_stg st ++ tk) (f_snk st) (f_fin st) in
      if lenN (f_stg st1) <? MAX_BUF_SIZE then (st1, FOk amt, tk)
      else
        match f_flush st1 with
        | (st2, FOk _) => (st2, FOk amt, tk)
        | (st2, FErr e) => (st2, FErr e, tk)
        | (st2, FPanic) => (st2, FPanic, tk)
        end.

  (* std::io::Write::write_all on the BGZF writer: Ok(0) -> WriteZero, Err(Interrupted) -> retry *)
  Fixpoint f_write_all (fuel : nat) (st : fstate) (buf : list N) : fstate * fres unit * list N :=
    match buf with
    | [] => (st, FOk tt, [])
    | _ :: _ =>
        match fuel with
        | O => (st, FPanic, [])
        | S fuel' =>
            match f_write st buf with
            | (st1, FOk amt, tk) =>
                if amt =? 0 then (st1, FErr Sink.e_write_zero, tk)
                else let '(st2, r, tk2) := f_write_all fuel' st1 (skipn (N.to_nat amt) buf) in
                     (st2, r, tk ++ tk2)
            | (st1, FErr e, tk) =>
                if e =? Sink.e_interrupted
                then let '(st2, r, tk2) := f_write_all fuel' st1 buf in (st2, r, tk ++ tk2)
                else (st1, FErr e, tk)
            | (st1, FPanic, tk) => (st1, FPanic, tk)
            end
        end
    end.

  Definition f_try_finish (st : fstate) : fstate * fres unit :=
    match f_flush st with
    | (st1, FOk _) =>
        if f_fin st1 then (st1, FOk tt)
        else
          let '(r, s2) := Sink.write_all eof_block (f_snk st1) in
          match r with
          | Sink.Ok => (mkF (f_pos st1 + 28) (f_stg st1) s2 true, FOk tt)
          | Sink.Err e =>
              (mkF (if fxe then f_pos st1 else f_pos st1 + 28) (f_stg st1) s2 false, FErr e)
          | Sink.OutOfFuel => (mkF (f_pos st1) (f_stg st1) s2 false, FPanic)
          end
    | other => other
    end.

  Definition f_vpos (st : fstate) : res N :=
    if f_pos st <=? MAX_COMPRESSED_POSITION
    then Ok (f_pos st * 65536 + lenN (f_stg st) mod 65536)
    else Panic.

  Definition f_step (st : fstate) (o : op) : fstate * fres (option N) * list N :=
    match o with
    | OWrite buf =>
        match f_write st buf with
        | (st1, FOk amt, tk) => (st1, FOk (Some amt), tk)
        | (st1, FErr e, tk) => (st1, FErr e, tk)
        | (st1, FPanic, tk) => (st1, FPanic, tk)
        end
    | OWriteAll buf =>
        match f_write_all (S (S (length buf))) st buf with
        | (st1, FOk _, tk) => (st1, FOk None, tk)
        | (st1, FErr e, tk) => (st1, FErr e, tk)
        | (st1, FPanic, tk) => (st1, FPanic, tk)
        end
    | OFlush =>
        match f_flush st with
        | (st1, FOk _) => (st1, FOk None, [])
        | (st1, FErr e) => (st1, FErr e, [])
        | (st1, FPanic) => (st1, FPanic, [])
        end
    | OTryFinish =>
        match f_try_finish st with
        | (st1, FOk _) => (st1, FOk None, [])
        | (st1, FErr e) => (st1, FErr e, [])
        | (st1, FPanic) => (st1, FPanic, [])
        end
    end.

  (* observation of one call: result, position told after it, inner.len() after it *)
  Definition fobs := (fres (option N) * res N * N)%type.

  (* run a script; the calls GO ON after an Err; a panic ends the script.  Result: final state,
     the observations, all bytes taken, panicked? *)
  Fixpoint f_run_ops (st : fstate) (ops : list op) : fstate * list fobs * list N * bool :=
    match ops with
    | [] => (st, [], [], false)
    | o :: rest =>
        let '(st1, r, tk) := f_step st o in
        match r with
        | FPanic => (st1, [(r, Panic, lenN (Sink.sbytes (f_snk st1)))], tk, true)
        | _ =>
            let '(st2, obs, tk2, p) := f_run_ops st1 rest in
            (st2, (r, f_vpos st1, lenN (Sink.sbytes (f_snk st1))) :: obs, tk ++ tk2, p)
        end
    end.

  (* the ending: finish(self) (on Err the writer is dropped with the inner writer in place: Drop
     calls try_finish once more and discards its result) or flush() + into_inner() *)
  Definition f_end (fin : bool) (st : fstate) : fstate * fres unit :=
    if fin then
      match f_try_finish st with
      | (st1, FErr e) => (fst (f_try_finish st1), FErr e)
      | other => other
      end
    else f_flush st.

  (* the composition the property talks about: run the script over the faulty sink, end it, and -
     when the ending returned Ok and the sink splits into frames (BSIZE walk) that take up all of
     it and all of the bytes taken - look every told position up in the file left behind: seek a
     fresh reader model there, read to the end *)
  Definition told_rows (F : ReaderOps.file) (n : N) (ts : list (res N))
    : list (res N * Vpos.res N * Vpos.res (list N)) :=
    map (fun t =>
           match t with
           | Ok v =>
               match ReaderOps.seek true F (ReaderOps.init F) v with
               | (st1, Vpos.Ok w) => (t, Vpos.Ok w, snd (ReaderOps.read_all true st1 n))
               | (_, r) => (t, r, Vpos.Unmodelled)
               end
           | _ => (t, Vpos.Unmodelled, Vpos.Unmodelled)
           end) ts.

  Definition fwtell_run (script : list Sink.fault) (ops : list op) (fin : bool) (n : N)
    : list fobs * fres unit * N * N * option (list (res N * Vpos.res N * Vpos.res (list N))) :=
    let '(st, obs, D, p) := f_run_ops (f_init script) ops in
    if p then (obs, FPanic, f_pos st, lenN (Sink.sbytes (f_snk st)), None)
    else
      let '(stf, rf) := f_end fin st in
      let sb := Sink.sbytes (f_snk stf) in
      let rows :=
        match rf with
        | FOk _ =>
            if frames_sane (S (length sb)) sb then
              let F := WriterTell.sink_file (S (length sb)) sb D in
              if (FlatRef.total_csize F =? lenN sb) && (FlatRef.total_dlen F =? lenN D) then
                Some (told_rows F n (f_vpos (f_init script) :: map (fun o => snd (fst o)) obs))
              else None
            else None
        | _ => None
        end in
      (obs, rf, f_pos stf, lenN sb, rows).
End FW.
