(* Proofs about NV.Bgzf.MtReaderErr: op histories over files with corrupt blocks and a broken last
   frame, CONTINUING AFTER THE ERROR.  For every pool size and every schedule the
   MultithreadedReader produces, op by op, the results (errors included) and virtual positions of
   the single-threaded reader after the repair of str-failed-block-stays-current-after-inflate-error
   ([fxe] = true), on every history in which no seek runs into a late-failing block while the
   current block still has unread data ([e_safe]); and the single-threaded reader of the tree as it
   is ([fxe] = false) is that reader on every file without a late-failing block. *)
From Coq Require Import List NArith PeanoNat Lia Bool ZifyBool ZifyNat ZifyN.
From NV Require Import Bgzf.Vpos Bgzf.Gzi Bgzf.ReaderOps.
From NV Require Import Io.Sched Io.SchedProofs Bgzf.MtReaderOps Bgzf.MtReaderOpsProofs Bgzf.MtReaderErr.
Import ListNotations.
Open Scope N_scope.
Arguments N.add : simpl never.
Arguments N.sub : simpl never.
Arguments N.mul : simpl never.
Arguments N.min : simpl never.
Arguments N.ltb : simpl never.
Arguments N.leb : simpl never.
Arguments N.eqb : simpl never.
Arguments N.to_nat : simpl never.
Arguments N.of_nat : simpl never.
Arguments firstn : simpl never.
Arguments skipn : simpl never.
Arguments pack : simpl never.

(* ---- the in-order consumer as a sequential loop (generic) --------------------------------- *)

Section SeqRun.
  Variables (item cst : Type) (cstep : cst -> item -> cst) (stopped : cst -> bool).

  (* feed items until the consumer stops; what is left *)
  Fixpoint seq_run (c : cst) (fs : list item) : cst * list item :=
    match fs with
    | [] => (c, [])
    | x :: r => let c1 := cstep c x in if stopped c1 then (c1, r) else seq_run c1 r
    end.

  (* every proper prefix of [cn] leaves the consumer running *)
  Definition npre (c0 : cst) (cn : list item) : Prop :=
    forall p q, cn = p ++ q -> q <> [] -> stopped (fold_left cstep p c0) = false.

  Lemma npre_nil : forall c0, npre c0 [].
  Proof. intros c0 p q H Hq. destruct p; destruct q; try discriminate. contradiction. Qed.

  Lemma npre_snoc : forall c0 cn x, npre c0 cn -> stopped (fold_left cstep cn c0) = false ->
    npre c0 (cn ++ [x]).
  Proof.
    intros c0 cn x Hn Hs p q H Hq.
    destruct (@exists_last _ q Hq) as [q' [y Hy]]. subst q.
    rewrite app_assoc in H. apply app_inj_tail in H. destruct H as [H1 H2]. subst cn.
    destruct q' as [|z q'].
    - rewrite app_nil_r in Hs. exact Hs.
    - apply (Hn p (z :: q') eq_refl). discriminate.
  Qed.

  Lemma seq_split : forall cn rm c0, npre c0 cn -> stopped c0 = false ->
    (stopped (fold_left cstep cn c0) = true \/ rm = []) ->
    seq_run c0 (cn ++ rm) = (fold_left cstep cn c0, rm).
  Proof.
    induction cn as [|x cn IH]; intros rm c0 Hn H0 Hf.
    - cbn [fold_left] in *. destruct Hf as [Hf|Hf]; [congruence|]. subst rm. reflexivity.
    - cbn [app seq_run fold_left] in *. destruct (stopped (cstep c0 x)) eqn:E.
      + destruct cn as [|y cn]; [reflexivity|].
        pose proof (Hn [x] (y :: cn) eq_refl) as Hx. cbn [fold_left] in Hx.
        rewrite Hx in E; [discriminate|discriminate].
      + apply IH; [|exact E|exact Hf].
        intros p q Hp Hq. apply (Hn (x :: p) q); [rewrite Hp; reflexivity|exact Hq].
  Qed.

  Lemma seq_run_suffix : forall fs c c' rm, seq_run c fs = (c', rm) -> exists pre, fs = pre ++ rm.
  Proof.
    induction fs as [|x r IH]; intros c c' rm H; cbn [seq_run] in H.
    - inversion H; subst. exists []. reflexivity.
    - destruct (stopped (cstep c x)).
      + inversion H; subst. exists [x]. reflexivity.
      + destruct (IH _ _ _ H) as [pre Hp]. exists (x :: pre). rewrite Hp. reflexivity.
  Qed.
End SeqRun.
Arguments seq_run {item cst}.
Arguments npre {item cst}.

(* ---- the pipeline during one pull ---------------------------------------------------------- *)

Section EPull.
  Variable P : nat.
  Hypothesis HP : (0 < P)%nat.

  Notation swf := (SchedProofs.wf eframe erdr).
  Notation sview := (SchedProofs.view eframe erdr).

  Definition epinv (c0 : erdr) (s : epst) : Prop :=
    cs s = fold_left erd_step (Sched.cons s) c0 /\ npre erd_step erd_stopped c0 (Sched.cons s).

  Lemma epstep_pinv : forall c0 s a, epinv c0 s -> epinv c0 (epstep P s a).
  Proof.
    intros c0 s a H. unfold epstep, Sched.step.
    destruct (Sched.enabled erd_stopped (can_sub P) P s a) eqn:E; [|exact H].
    destruct s as [td n ch h p r d co c]. unfold epinv in *. cbn [cs Sched.cons] in *.
    destruct a as [| |t| |]; cbn [todo chan hold Sched.cons cs pending].
    - destruct td as [|x xs]; [exact H|]. destruct (e_ready x); exact H.
    - destruct p; exact H.
    - exact H.
    - destruct ch; exact H.
    - destruct h as [[t x]|]; [|exact H]. cbn [cs Sched.cons].
      cbn [Sched.enabled hold done cs] in E. apply andb_prop in E. destruct E as [_ E].
      apply negb_true_iff in E. destruct H as [Hc Hn]. split.
      + rewrite fold_left_app. cbn [fold_left]. rewrite <- Hc. reflexivity.
      + apply npre_snoc; [exact Hn|]. rewrite <- Hc. exact E.
  Qed.

  Definition epI (fs : list eframe) (c0 : erdr) (s : epst) : Prop :=
    sview s = fs /\ epinv c0 s /\ swf s.

  Lemma epstep_pI : forall fs c0 s a, epI fs c0 s -> epI fs c0 (epstep P s a).
  Proof.
    intros fs c0 s a (Hv & Hp & Hw). unfold epI. split; [|split].
    - unfold epstep. rewrite step_view. exact Hv.
    - apply epstep_pinv. exact Hp.
    - unfold epstep. apply step_wf. exact Hw.
  Qed.

  Lemma efold_pI : forall fs c0 seg s, epI fs c0 s -> epI fs c0 (fold_left (epstep P) seg s).
  Proof.
    induction seg as [|a seg IH]; intros s H; cbn [fold_left]; [exact H|].
    apply IH. apply epstep_pI. exact H.
  Qed.

  Lemma eiter_pI : forall fs c0 pick n s, epI fs c0 s ->
    epI fs c0 (Sched.iter (fun x : eframe => x) e_ready erd_step erd_stopped (can_sub P) P pick n s).
  Proof.
    induction n as [|n IH]; intros s H; cbn [Sched.iter]; [exact H|].
    destruct (Sched.final erd_stopped s); [exact H|]. apply IH. apply (epstep_pI fs c0 s (pick s) H).
  Qed.

  Lemma epcomplete_final : forall s, swf s -> epfinal (epcomplete P s) = true.
  Proof.
    intros s Hw. unfold epfinal, epcomplete.
    apply iter_reaches_final; [exact HP| |exact Hw|lia].
    intros s' Hw' Hf. apply default_pick_enabled; [exact HP|apply can_sub_empty; exact HP|exact Hw'|exact Hf].
  Qed.

  Lemma epull_complete_schedule : forall seg s,
    epfinal (fold_left (epstep P) seg (estart_pull s)) = true ->
    epull_with P seg s = fold_left (epstep P) seg (estart_pull s).
  Proof. intros seg s H. unfold epull_with, epcomplete. apply final_iter. exact H. Qed.

  (* MAIN LEMMA: whatever the schedule, a pull leaves the application where the sequential loop
     over the frames ahead leaves it: results are taken in file order, up to and including the
     first block with data or the first error *)
  Lemma epull_spec : forall seg s, swf s ->
    let s' := epull_with P seg s in
    swf s' /\
    (cs s', eremaining s')
    = seq_run erd_step erd_stopped
              (mkER true (er_position (cs s)) (er_blk (cs s)) (S (epulls (cs s))) None) (eremaining s).
  Proof.
    intros seg s Hw. cbn zeta.
    set (c0 := mkER true (er_position (cs s)) (er_blk (cs s)) (S (epulls (cs s))) None).
    assert (H0 : epI (eremaining s) c0 (estart_pull s)).
    { unfold epI, epinv, estart_pull, SchedProofs.view. cbn [Sched.cons hold chan todo cs fold_left app].
      split; [reflexivity|]. split; [split; [reflexivity|apply npre_nil]|].
      intros t Ht. apply (Hw t). exact Ht. }
    pose proof (efold_pI _ _ seg _ H0) as H1.
    set (s1 := fold_left (epstep P) seg (estart_pull s)) in *.
    pose proof (eiter_pI _ _ (Sched.default_pick erd_stopped (can_sub P) P) (Sched.measure s1) _ H1) as H2.
    pose proof (epcomplete_final s1 (proj2 (proj2 H1))) as HF.
    unfold epull_with. fold s1. unfold epcomplete in *.
    set (s2 := Sched.iter _ _ _ _ _ _ _ _ s1) in *.
    destruct H2 as (Hv & [Hc Hn] & Hw2). split; [exact Hw2|].
    unfold SchedProofs.view in Hv. fold (eremaining s2) in Hv.
    assert (Hfin : erd_stopped (fold_left erd_step (Sched.cons s2) c0) = true \/ eremaining s2 = []).
    { unfold epfinal, Sched.final in HF. apply orb_true_iff in HF. destruct HF as [HF|HF].
      - left. rewrite <- Hc. exact HF.
      - right. unfold Sched.drained in HF. unfold eremaining.
        destruct (todo s2); [|discriminate]. destruct (chan s2); [|discriminate].
        destruct (hold s2); [discriminate|]. reflexivity. }
    rewrite <- Hv. rewrite (seq_split _ _ erd_step erd_stopped (Sched.cons s2) (eremaining s2) c0 Hn eq_refl Hfin).
    rewrite Hc. reflexivity.
  Qed.
End EPull.

(* ---- the single-threaded loop against the sequential consumer ------------------------------ *)

Definition ewf (fs : list eframe) : Prop :=
  Forall (fun x => 0 < csize (eb x) /\ flen (eb x) <= 65536) fs.

(* block and position of the two readers agree (cf. MtReaderOpsProofs.R) *)
Record Rc (c : erdr) (st : estate) : Prop := mkRc {
  C_pos : e_position st = er_position c;
  C_b : (e_bpos st = k_pos (er_blk c) /\ e_bsize st = k_size (er_blk c))
        \/ (e_cur st = e_blen st /\ e_bpos st + e_bsize st = k_pos (er_blk c) + k_size (er_blk c));
  C_blen : e_blen st = len (k_data (er_blk c));
  C_cur : e_cur st = k_cur (er_blk c);
  C_le : k_cur (er_blk c) <= len (k_data (er_blk c));
  C_buf : firstn (length (k_data (er_blk c))) (e_buf st) = k_data (er_blk c) \/ e_cur st = e_blen st
}.

Lemma Rc_ext : forall c c' st, er_position c' = er_position c -> er_blk c' = er_blk c -> Rc c st -> Rc c' st.
Proof. intros c c' st Hp Hb H. destruct H. constructor; rewrite ?Hp, ?Hb; assumption. Qed.

Definition exhausted (c : erdr) : Prop := k_cur (er_blk c) = len (k_data (er_blk c)).

Lemma len0_nil : forall A (l : list A), len l = 0 -> l = [].
Proof. intros A [|a l] H; [reflexivity|]. unfold len in H. cbn [length] in H. lia. Qed.

(* what read_block leaves behind, in both readers *)
Definition loop_post (m : rmode) (c c' : erdr) (st' : estate) (r : res (option frame)) : Prop :=
  match r with
  | Err e => er_err c' = Some e /\ Rc c' st'
  | Ok None =>
      er_err c' = None /\ Rc c' st' /\
      ((er_position c' = er_position c /\ er_blk c' = er_blk c)
       \/ (k_data (er_blk c') = [] /\ k_pos (er_blk c') + k_size (er_blk c') = er_position c'))
  | Ok (Some b) =>
      er_err c' = None /\ er_position c < er_position c' /\ 0 < flen b /\ flen b <= 65536 /\
      er_blk c' = mkBlk (e_bpos st') (csize b) (fdata b) 0 /\
      e_position st' = er_position c' /\ e_bsize st' = csize b /\ e_blen st' = flen b /\
      match m with
      | Parse => e_cur st' = 0 /\ firstn (length (fdata b)) (e_buf st') = fdata b
      | IntoBuf => e_cur st' = flen b
      end
  | _ => False
  end.

Lemma loop_sim : forall m fs c st, ewf fs -> Rc c st -> er_err c = None ->
  (exhausted c \/ hits_late fs = false) ->
  forall c' rm st' r,
    seq_run erd_step erd_stopped c fs = (c', rm) -> e_loop true m fs st = (st', r) ->
    e_rest st' = rm /\ epulls c' = epulls c /\ loop_post m c c' st' r.
Proof.
  intros m. induction fs as [|x fs IH]; intros c st Hwf HR He Hx c' rm st' r Hs Hl.
  - cbn [seq_run e_loop] in *. inversion Hs; subst. inversion Hl; subst. cbn [e_rest loop_post].
    split; [reflexivity|]. split; [reflexivity|]. split; [exact He|]. split.
    + destruct HR. constructor; assumption.
    + left. split; reflexivity.
  - inversion Hwf as [|? ? [Hc Hf] Hwf']; subst.
    cbn [e_loop hits_late] in *.
    change (seq_run erd_step erd_stopped c (x :: fs))
      with (if erd_stopped (erd_step c x) then (erd_step c x, fs)
            else seq_run erd_step erd_stopped (erd_step c x) fs) in Hs.
    destruct (es x) as [| |isz g|e] eqn:Es;
      (assert (Hc1 : erd_step c x = _) by (unfold erd_step; rewrite Es; reflexivity); rewrite Hc1 in Hs; clear Hc1).
    + (* a good frame *)
      unfold erd_stopped at 1 in Hs. cbn [ewant] in Hs.
      destruct (N.ltb_spec 0 (flen (eb x))) as [Hlt|Hge].
      * destruct (N.eqb_spec (flen (eb x)) 0) as [Hz|Hz]; [lia|]. cbn [negb] in Hs.
        inversion Hs; subst. inversion Hl; subst. cbn [e_rest epulls loop_post].
        split; [reflexivity|]. split; [reflexivity|].
        cbn [er_err er_position er_blk e_bpos e_position e_bsize e_blen e_cur e_buf].
        rewrite (C_pos _ _ HR).
        repeat split; try reflexivity; try assumption; try lia.
        destruct m; [split; [reflexivity|apply buf_write_firstn]|reflexivity].
      * destruct (N.eqb_spec (flen (eb x)) 0) as [Hz|Hz]; [|lia]. cbn [negb] in Hs.
        set (c1 := mkER true (er_position c + csize (eb x))
                        (mkBlk (er_position c) (csize (eb x)) (fdata (eb x)) 0) (epulls c) None) in *.
        match type of Hl with e_loop _ _ _ ?s = _ => set (st1 := s) in * end.
        assert (Hd : fdata (eb x) = []) by (apply len0_nil; exact Hz).
        assert (HR1 : Rc c1 st1).
        { constructor; cbn [c1 st1 e_position e_bpos e_bsize e_blen e_cur e_buf er_position er_blk k_pos k_size k_data k_cur].
          - rewrite (C_pos _ _ HR). reflexivity.
          - left. rewrite (C_pos _ _ HR). split; reflexivity.
          - reflexivity.
          - destruct m; [reflexivity|exact Hz].
          - rewrite Hd. rewrite len_nil. lia.
          - left. rewrite Hd. apply firstn_O. }
        assert (Hx1 : exhausted c1 \/ hits_late fs = false).
        { left. unfold exhausted. cbn [c1 er_blk k_cur k_data]. rewrite Hd, len_nil. reflexivity. }
        destruct (IH c1 st1 Hwf' HR1 eq_refl Hx1 c' rm st' r Hs Hl) as (I1 & I2 & I3).
        split; [exact I1|]. split; [exact I2|].
        destruct r as [[b|]|e| | |]; cbn [loop_post] in *; try contradiction.
        -- destruct I3 as (J1 & J2 & J3). split; [exact J1|]. split; [|exact J3].
           cbn [c1 er_position] in J2. lia.
        -- destruct I3 as (J1 & J2 & J3). split; [exact J1|]. split; [exact J2|]. right.
           destruct J3 as [[K1 K2]|K]; [|exact K].
           rewrite K1, K2. cbn [c1 er_blk er_position k_data k_pos k_size]. split; [exact Hd|reflexivity].
        -- exact I3.
    + (* parse_frame fails: nothing is touched *)
      unfold erd_stopped at 1 in Hs. cbn [ewant negb] in Hs. inversion Hs; subst. inversion Hl; subst.
      cbn [e_rest epulls loop_post er_err]. split; [reflexivity|]. split; [reflexivity|]. split; [reflexivity|].
      destruct HR. constructor; assumption.
    + (* inflate / CRC fails: the repaired reader leaves its block exhausted *)
      unfold erd_stopped at 1 in Hs. cbn [ewant negb] in Hs. inversion Hs; subst. inversion Hl; subst.
      cbn [e_rest epulls loop_post er_err]. split; [reflexivity|]. split; [reflexivity|]. split; [reflexivity|].
      destruct Hx as [Hx|Hx]; [|discriminate]. unfold exhausted in Hx.
      constructor; cbn [e_position e_bpos e_bsize e_blen e_cur e_buf er_position er_blk].
      * apply HR.
      * destruct (C_b _ _ HR) as [B|[B1 B2]]; [left; exact B|right; split; [reflexivity|exact B2]].
      * apply HR.
      * rewrite (C_blen _ _ HR). symmetry. exact Hx.
      * apply HR.
      * right. reflexivity.
    + (* read_frame_into fails *)
      unfold erd_stopped at 1 in Hs. cbn [ewant negb] in Hs. inversion Hs; subst. inversion Hl; subst.
      cbn [e_rest epulls loop_post er_err]. split; [reflexivity|]. split; [reflexivity|]. split; [reflexivity|].
      destruct HR. constructor; assumption.
Qed.

(* ---- simulation: MultithreadedReader state vs single-threaded reader state ---------------- *)

Definition em_wf (m : emstate) : Prop :=
  match m with
  | EPaused _ _ => True
  | ERunning s => SchedProofs.wf eframe erdr s
  | EDone _ => False
  end.

Record ER (m : emstate) (st : estate) : Prop := mkERel {
  ER_rest : e_rest st = em_ahead m;
  ER_c : Rc (em_rd m) st;
  ER_wf : em_wf m;
  ER_small : ewf (em_ahead m)
}.

Definition esim {A : Type} (x : emstate * A) (y : estate * A) : Prop :=
  ER (fst x) (fst y) /\ snd x = snd y.

Lemma em_rd_with : forall m c, em_rd (em_with_rdr m c) = c.
Proof. intros [fs c0|s|c0] c; reflexivity. Qed.

Lemma em_ahead_with : forall m c, em_ahead (em_with_rdr m c) = em_ahead m.
Proof. intros [fs c0|s|c0] c; reflexivity. Qed.

Lemma em_wf_with : forall m c, em_wf m -> em_wf (em_with_rdr m c).
Proof.
  intros [fs c0|s|c0] c H; cbn [em_with_rdr em_wf] in *; [exact I| |exact H].
  intros t Ht. apply (H t). exact Ht.
Qed.

Lemma ewf_app_r : forall a b, ewf (a ++ b) -> ewf b.
Proof. intros a b H. apply Forall_app in H. apply H. Qed.

Lemma e_drop_to_wf : forall fs at_ c r, ewf fs -> e_drop_to fs at_ c = Some r -> ewf r.
Proof.
  induction fs as [|x fs IH]; intros at_ c r Hs H; cbn [e_drop_to] in H.
  - inversion H; subst. constructor.
  - destruct (c =? at_); [inversion H; subst; exact Hs|].
    destruct (c <? at_ + csize (eb x)); [discriminate|].
    inversion Hs; subst. eapply IH; eassumption.
Qed.

Section ESim.
  Variables (P : nat) (sch : nat -> list act).
  Hypothesis HP : (0 < P)%nat.

  Lemma e_has_remaining_R : forall c st, Rc c st -> e_has_remaining st = ea_has_remaining c.
  Proof. intros c st H. unfold e_has_remaining, ea_has_remaining. rewrite (C_cur _ _ H), (C_blen _ _ H). reflexivity. Qed.

  Lemma e_as_ref_R : forall c st, Rc c st -> e_as_ref st = Ok (ea_as_ref c).
  Proof.
    intros c st H. unfold e_as_ref, ea_as_ref. pose proof (C_le _ _ H) as Hle.
    rewrite (C_cur _ _ H), (C_blen _ _ H).
    destruct (N.leb_spec (k_cur (er_blk c)) (len (k_data (er_blk c)))); [|lia].
    f_equal. destruct (C_buf _ _ H) as [Hb|Hb].
    - apply buf_slice_loaded; assumption.
    - rewrite (C_cur _ _ H), (C_blen _ _ H) in Hb. rewrite Hb. rewrite buf_slice_empty.
      unfold len. rewrite Nnat.Nat2N.id. symmetry. apply skipn_all.
  Qed.

  Lemma e_vpos_R : forall c st, Rc c st -> e_virtual_position st = em_virtual_position c.
  Proof.
    intros c st H. unfold e_virtual_position, em_virtual_position.
    rewrite (e_has_remaining_R _ _ H), (C_cur _ _ H).
    destruct (ea_has_remaining c) eqn:E.
    - destruct (C_b _ _ H) as [[B1 B2]|[B1 B2]].
      + rewrite B1. reflexivity.
      + unfold ea_has_remaining in E. rewrite (C_cur _ _ H), (C_blen _ _ H) in B1. lia.
    - destruct (C_b _ _ H) as [[B1 B2]|[B1 B2]].
      + rewrite B1, B2. reflexivity.
      + rewrite B2. reflexivity.
  Qed.

  Lemma not_remaining_exhausted : forall c st, Rc c st -> ea_has_remaining c = false -> exhausted c.
  Proof. intros c st H E. unfold ea_has_remaining in E. pose proof (C_le _ _ H). unfold exhausted. lia. Qed.

  (* read_block() of the two readers, whatever the state of the multithreaded one (paused or
     running) and whatever the schedule *)
  Lemma read_block_sim : forall md m st, ER m st ->
    (exhausted (em_rd m) \/ hits_late (e_rest st) = false) ->
    exists m1 st1 r,
      e_read_block true md st = (st1, r) /\
      em_read_block P sch m = (m1, match r with Ok _ => Ok tt | Err e => Err e | Panic => Panic
                                            | OutOfFuel => OutOfFuel | Unmodelled => Unmodelled end) /\
      em_wf m1 /\ e_rest st1 = em_ahead m1 /\ ewf (em_ahead m1) /\
      loop_post md (em_rd m) (em_rd m1) st1 r.
  Proof.
    intros md m st H Hx.
    assert (Hs : exists s, eresume m = Some s /\ SchedProofs.wf eframe erdr s /\
                           eremaining s = em_ahead m /\ cs s = em_rd m).
    { destruct m as [fs c|s|c].
      - exists (Sched.init c fs). split; [reflexivity|]. split; [apply init_wf|]. split; reflexivity.
      - exists s. split; [reflexivity|]. split; [exact (ER_wf _ _ H)|]. split; reflexivity.
      - destruct (ER_wf _ _ H). }
    destruct Hs as (s & Hres & Hw & Hrem & Hcs).
    pose proof (epull_spec P HP (sch (epulls (cs s))) s Hw) as HS. cbn zeta in HS.
    fold (epull P sch s) in HS. destruct HS as [Hw1 HS].
    set (c0 := mkER true (er_position (cs s)) (er_blk (cs s)) (S (epulls (cs s))) None) in *.
    destruct (e_loop true md (e_rest st) st) as [st1 r] eqn:El.
    assert (HR0 : Rc c0 st).
    { apply (Rc_ext (em_rd m)); [rewrite <- Hcs; reflexivity|rewrite <- Hcs; reflexivity|exact (ER_c _ _ H)]. }
    assert (Hx0 : exhausted c0 \/ hits_late (e_rest st) = false).
    { destruct Hx as [Hx|Hx]; [left|right; exact Hx]. unfold exhausted in *. cbn [c0 er_blk]. rewrite Hcs. exact Hx. }
    assert (Hwf0 : ewf (e_rest st)) by (rewrite (ER_rest _ _ H); exact (ER_small _ _ H)).
    symmetry in HS. rewrite Hrem, <- (ER_rest _ _ H) in HS.
    destruct (loop_sim md (e_rest st) c0 st Hwf0 HR0 eq_refl Hx0 _ _ _ _ HS El) as (L1 & L2 & L3).
    exists (ERunning (epull P sch s)), st1, r. split; [exact El|]. split.
    - unfold em_read_block. rewrite Hres. f_equal.
      destruct r as [[b|]|e| | |]; cbn [loop_post] in L3; try contradiction.
      + destruct L3 as [L3 _]. rewrite L3. reflexivity.
      + destruct L3 as [L3 _]. rewrite L3. reflexivity.
      + destruct L3 as [L3 _]. rewrite L3. reflexivity.
    - split; [exact Hw1|]. split; [exact L1|]. split.
      + cbn [em_ahead]. destruct (seq_run_suffix _ _ _ _ _ _ _ _ HS) as [pre Hp].
        rewrite Hp in Hwf0. exact (ewf_app_r _ _ Hwf0).
      + cbn [em_rd]. destruct r as [[b|]|e| | |]; cbn [loop_post] in *; try contradiction.
        * rewrite <- Hcs. exact L3.
        * rewrite <- Hcs. exact L3.
        * exact L3.
  Qed.

  Lemma fill_sim : forall m st, ER m st -> esim (em_fill_buf P sch m) (e_fill_buf true st).
  Proof.
    intros m st H. unfold em_fill_buf, e_fill_buf, esim.
    rewrite (e_has_remaining_R _ _ (ER_c _ _ H)). destruct (ea_has_remaining (em_rd m)) eqn:E.
    - cbn [fst snd]. split; [exact H|]. symmetry. apply e_as_ref_R. exact (ER_c _ _ H).
    - pose proof (not_remaining_exhausted _ _ (ER_c _ _ H) E) as Hex.
      destruct (read_block_sim Parse m st H (or_introl Hex)) as (m1 & st1 & r & E1 & E2 & Hw & Hr & Hs & HL).
      rewrite E1, E2.
      destruct r as [[b|]|e| | |]; cbn [loop_post] in HL; try contradiction; cbn [fst snd].
      + destruct HL as (L1 & L2 & L3 & L4 & L5 & L6 & L7 & L8 & L9 & L10).
        assert (HRc : Rc (em_rd m1) st1).
        { constructor; rewrite ?L5; cbn [k_pos k_size k_data k_cur].
          - exact L6.
          - left. split; [reflexivity|exact L7].
          - exact L8.
          - exact L9.
          - lia.
          - left. exact L10. }
        split; [constructor; assumption|]. symmetry. apply e_as_ref_R. exact HRc.
      + destruct HL as (L1 & L2 & L3).
        split; [constructor; assumption|]. symmetry. apply e_as_ref_R. exact L2.
      + destruct HL as (L1 & L2). split; [constructor; assumption|reflexivity].
  Qed.

  Lemma consume_Rc : forall c st n, Rc c st ->
    Rc (mkER (ewant c) (er_position c)
             (mkBlk (k_pos (er_blk c)) (k_size (er_blk c)) (k_data (er_blk c))
                    (N.min (k_cur (er_blk c) + n) (len (k_data (er_blk c))))) (epulls c) (er_err c))
       (e_consume st n).
  Proof.
    intros c st n H. unfold e_consume.
    constructor; cbn [e_position e_bpos e_bsize e_blen e_cur e_buf er_position er_blk k_pos k_size k_data k_cur].
    - apply H.
    - destruct (C_b _ _ H) as [B|[B1 B2]]; [left; exact B|right]. split; [rewrite B1; lia|exact B2].
    - apply H.
    - rewrite (C_cur _ _ H), (C_blen _ _ H). reflexivity.
    - lia.
    - destruct (C_buf _ _ H) as [Hb|Hb]; [left; exact Hb|right]. rewrite Hb. lia.
  Qed.

  Lemma consume_R : forall m st n, ER m st -> ER (em_consume m n) (e_consume st n).
  Proof.
    intros m st n H. unfold em_consume. constructor; rewrite ?em_rd_with, ?em_ahead_with.
    - cbn [e_consume e_rest]. apply H.
    - apply consume_Rc. apply H.
    - apply em_wf_with. apply H.
    - apply H.
  Qed.

  Lemma consume0_R : forall m st, ER m st -> ER (em_consume m 0) st.
  Proof.
    intros m st H. pose proof (consume_R m st 0 H) as H0.
    assert (E : e_consume st 0 = st).
    { unfold e_consume. pose proof (C_le _ _ (ER_c _ _ H)) as Hle.
      replace (N.min (e_cur st + 0) (e_blen st)) with (e_cur st).
      - destruct st; reflexivity.
      - rewrite (C_cur _ _ (ER_c _ _ H)), (C_blen _ _ (ER_c _ _ H)). lia. }
    rewrite E in H0. exact H0.
  Qed.

  Lemma read_sim : forall m st n, ER m st -> esim (em_read P sch m n) (e_read true st n).
  Proof.
    intros m st n H. unfold e_read.
    destruct (negb (e_has_remaining st) && (65536 <=? n)) eqn:D.
    - apply andb_prop in D. destruct D as [D1 D2]. apply negb_true_iff in D1.
      rewrite (e_has_remaining_R _ _ (ER_c _ _ H)) in D1.
      pose proof (not_remaining_exhausted _ _ (ER_c _ _ H) D1) as Hex.
      unfold em_read, em_fill_buf. rewrite D1.
      destruct (read_block_sim IntoBuf m st H (or_introl Hex)) as (m1 & st1 & r & E1 & E2 & Hw & Hr & Hs & HL).
      rewrite E1, E2.
      destruct r as [[b|]|e| | |]; cbn [loop_post] in HL; try contradiction.
      + destruct HL as (L1 & L2 & L3 & L4 & L5 & L6 & L7 & L8 & L9).
        unfold ea_as_ref. rewrite L5. cbn [k_cur k_data]. change (N.to_nat 0) with O. rewrite skipn_O.
        assert (Hout : firstn (N.to_nat n) (fdata b) = fdata b).
        { apply firstn_all2. unfold flen, len in L4. lia. }
        rewrite Hout. split; [|reflexivity]. cbn [fst].
        unfold em_consume. constructor; rewrite ?em_rd_with, ?em_ahead_with; try assumption.
        * rewrite L5. constructor; cbn [er_position er_blk k_pos k_size k_data k_cur].
          -- exact L6.
          -- left. split; [reflexivity|exact L7].
          -- exact L8.
          -- rewrite L9. unfold flen. lia.
          -- lia.
          -- right. rewrite L9, L8. reflexivity.
        * apply em_wf_with. exact Hw.
      + destruct HL as (L1 & L2 & L3).
        assert (Hnil : ea_as_ref (em_rd m1) = []).
        { unfold ea_as_ref. destruct L3 as [[K1 K2]|[K1 K2]].
          - rewrite K2. unfold exhausted in Hex. rewrite Hex. apply skipn_len.
          - rewrite K1. apply skipn_nil. }
        rewrite Hnil. rewrite firstn_nil. split; [|reflexivity]. cbn [fst]. rewrite len_nil.
        apply consume0_R. constructor; assumption.
      + destruct HL as (L1 & L2). split; [constructor; assumption|reflexivity].
    - unfold em_read. destruct (fill_sim m st H) as [H1 H2].
      destruct (em_fill_buf P sch m) as [m1 ra]. destruct (e_fill_buf true st) as [st1 rs].
      cbn [fst snd] in H1, H2. subst rs. unfold esim.
      destruct ra as [src|e| | |]; cbn [fst snd]; try (split; [exact H1|reflexivity]).
      split; [|reflexivity]. apply consume_R. exact H1.
  Qed.

  Lemma exact_loop_sim : forall fuel m st rem acc, ER m st ->
    esim (em_read_exact_loop P sch fuel m rem acc) (e_read_exact_loop true fuel st rem acc).
  Proof.
    induction fuel as [|k IH]; intros m st rem acc H; cbn [em_read_exact_loop e_read_exact_loop].
    - split; [exact H|reflexivity].
    - destruct (rem =? 0); [split; [exact H|reflexivity]|].
      destruct (read_sim m st rem H) as [H1 H2].
      destruct (em_read P sch m rem) as [m1 ra]. destruct (e_read true st rem) as [st1 rs].
      cbn [fst snd] in H1, H2. subst rs.
      destruct ra as [bs|e| | |]; try (split; [exact H1|reflexivity]).
      destruct (len bs =? 0); [split; [exact H1|reflexivity]|]. apply IH. exact H1.
  Qed.

  Lemma read_exact_std_sim : forall m st n, ER m st ->
    esim (em_read_exact_std P sch m n) (e_read_exact_std true st n).
  Proof. intros. unfold em_read_exact_std, e_read_exact_std. apply exact_loop_sim. assumption. Qed.

  Lemma read_exact_sim : forall m st n, ER m st ->
    esim (em_read_exact P sch m n) (e_read_exact true st n).
  Proof.
    intros m st n H. unfold em_read_exact, e_read_exact. rewrite (e_as_ref_R _ _ (ER_c _ _ H)).
    destruct (n <=? len (ea_as_ref (em_rd m))).
    - split; [|reflexivity]. cbn [fst]. apply consume_R. exact H.
    - apply read_exact_std_sim. exact H.
  Qed.

  Lemma all_loop_sim : forall fuel m st n acc, ER m st ->
    esim (em_read_all_loop P sch fuel m n acc) (e_read_all_loop true fuel st n acc).
  Proof.
    induction fuel as [|k IH]; intros m st n acc H; cbn [em_read_all_loop e_read_all_loop].
    - split; [exact H|reflexivity].
    - destruct (read_sim m st n H) as [H1 H2].
      destruct (em_read P sch m n) as [m1 ra]. destruct (e_read true st n) as [st1 rs].
      cbn [fst snd] in H1, H2. subst rs.
      destruct ra as [bs|e| | |]; try (split; [exact H1|reflexivity]).
      destruct (len bs =? 0); [split; [exact H1|reflexivity]|]. apply IH. exact H1.
  Qed.

  Lemma read_all_sim : forall m st n, ER m st -> esim (em_read_all P sch m n) (e_read_all true st n).
  Proof.
    intros m st n H. unfold em_read_all, e_read_all.
    rewrite (C_blen _ _ (ER_c _ _ H)), (ER_rest _ _ H). apply all_loop_sim. exact H.
  Qed.

  Lemma epause_R : forall m st, ER m st -> exists inner, epause P m = Some (inner, em_rd m).
  Proof.
    intros m st H. destruct m as [fs c|s|c]; cbn [epause em_rd].
    - exists fs. reflexivity.
    - eexists. reflexivity.
    - destruct (ER_wf _ _ H).
  Qed.

  Lemma seek_sim : forall f m st v, ewf f -> ER m st -> e_seek_ok f st v = true ->
    esim (em_seek P sch f m v) (e_seek true f st v).
  Proof.
    intros f m st v Hf H Hok. unfold em_seek, e_seek.
    destruct (epause_R m st H) as [inner Hpa]. rewrite Hpa.
    unfold e_seek_ok in Hok.
    destruct (e_drop_to f 0 (vcomp v)) as [r|] eqn:Ed; [|split; [exact H|reflexivity]].
    set (m0 := EPaused r (mkER false (vcomp v) (er_blk (em_rd m)) (epulls (em_rd m)) None)).
    set (st1 := mkES r (vcomp v) (e_bpos st) (e_bsize st) (e_blen st) (e_cur st) (e_buf st)).
    assert (H0 : ER m0 st1).
    { constructor; cbn [m0 st1 e_rest em_ahead em_rd em_wf]; try reflexivity; try exact I.
      - pose proof (ER_c _ _ H) as HR. destruct HR. constructor; cbn [e_position e_bpos e_bsize e_blen e_cur e_buf er_position er_blk]; try assumption. reflexivity.
      - exact (e_drop_to_wf _ _ _ _ Hf Ed). }
    assert (Hx : exhausted (em_rd m0) \/ hits_late (e_rest st1) = false).
    { apply orb_true_iff in Hok. destruct Hok as [Hok|Hok].
      - left. apply negb_true_iff in Hok. rewrite (e_has_remaining_R _ _ (ER_c _ _ H)) in Hok.
        exact (not_remaining_exhausted _ _ (ER_c _ _ H) Hok).
      - right. apply negb_true_iff in Hok. exact Hok. }
    destruct (read_block_sim Parse m0 st1 H0 Hx) as (m2 & st2 & rr & E1 & E2 & Hw & Hr & Hs & HL).
    rewrite E1, E2.
    destruct rr as [[b|]|e| | |]; cbn [loop_post] in HL; try contradiction.
    - destruct HL as (L1 & L2 & L3 & L4 & L5 & L6 & L7 & L8 & L9 & L10).
      cbn [m0 em_rd er_position] in L2.
      assert (Hne : (er_position (em_rd m2) =? vcomp v) = false) by (apply N.eqb_neq; lia).
      rewrite Hne. split; [|reflexivity]. cbn [fst].
      constructor; rewrite ?em_rd_with, ?em_ahead_with; cbn [e_rest]; try assumption.
      + rewrite L5. constructor; cbn [e_position e_bpos e_bsize e_blen e_cur e_buf er_position er_blk k_pos k_size k_data k_cur].
        * exact L6.
        * left. split; [reflexivity|exact L7].
        * exact L8.
        * rewrite L8. reflexivity.
        * lia.
        * left. exact L10.
      + apply em_wf_with. exact Hw.
    - destruct HL as (L1 & L2 & L3). split; [|reflexivity]. cbn [fst].
      constructor; rewrite ?em_rd_with, ?em_ahead_with; cbn [e_rest]; try assumption.
      + pose proof (C_pos _ _ L2) as Hp.
        destruct (N.eqb_spec (er_position (em_rd m2)) (vcomp v)) as [Heq|Hneq].
        * constructor; cbn [e_position e_bpos e_bsize e_blen e_cur e_buf er_position er_blk k_pos k_size k_data k_cur].
          -- exact Hp.
          -- left. split; [rewrite Hp; exact Heq|reflexivity].
          -- rewrite len_nil. reflexivity.
          -- rewrite len_nil. reflexivity.
          -- lia.
          -- left. reflexivity.
        * destruct L3 as [[K1 K2]|[K1 K2]]; [cbn [m0 em_rd er_position] in K1; contradiction|].
          constructor; cbn [e_position e_bpos e_bsize e_blen e_cur e_buf er_position er_blk k_pos k_size k_data k_cur].
          -- exact Hp.
          -- right. split; [lia|]. rewrite K2. rewrite Hp. lia.
          -- rewrite K1, len_nil. reflexivity.
          -- rewrite K1, len_nil. reflexivity.
          -- lia.
          -- left. rewrite K1. reflexivity.
      + apply em_wf_with. exact Hw.
    - destruct HL as (L1 & L2). split; [constructor; assumption|reflexivity].
  Qed.
End ESim.

Section ERun.
  Variables (P : nat) (sch : nat -> list act).
  Hypothesis HP : (0 < P)%nat.

  Definition op_ok (f : efile) (idx : gzi_index) (st : estate) (o : op) : bool :=
    match o with
    | Seek v => e_seek_ok f st v
    | SeekU p => match gzi_query idx p with Ok v => e_seek_ok f st v | _ => true end
    | _ => true
    end.

  Lemma e_safe_cons : forall f idx st o r,
    e_safe f idx st (o :: r) = op_ok f idx st o && e_safe f idx (fst (e_step true f idx st o)) r.
  Proof. intros. destruct o; reflexivity. Qed.

  Lemma seeku_sim : forall f idx m st p, ewf f -> ER m st -> op_ok f idx st (SeekU p) = true ->
    esim (em_seek_with_index P sch f idx m p) (e_seek_u true f idx st p).
  Proof.
    intros f idx m st p Hf H Hok. unfold em_seek_with_index, e_seek_u. cbn [op_ok] in Hok.
    destruct (gzi_query idx p) as [v|e| | |]; try (split; [exact H|reflexivity]).
    destruct (seek_sim P sch HP f m st v Hf H Hok) as [H1 H2].
    destruct (em_seek P sch f m v) as [m1 ra]. destruct (e_seek true f st v) as [st1 rs].
    cbn [fst snd] in H1, H2. subst rs.
    destruct ra as [x|e| | |]; split; try exact H1; reflexivity.
  Qed.

  Lemma step_sim : forall f idx m st o, ewf f -> ER m st -> op_ok f idx st o = true ->
    esim (em_step P sch f idx m (MOp o)) (e_step true f idx st o).
  Proof.
    intros f idx m st o Hf H Hok. destruct o as [n|n|n| |n|v|p|n]; cbn [em_step e_step].
    - destruct (read_sim P sch HP m st n H) as [H1 H2].
      destruct (em_read P sch m n), (e_read true st n). cbn [fst snd] in *. subst. split; [exact H1|reflexivity].
    - destruct (read_exact_sim P sch HP m st n H) as [H1 H2].
      destruct (em_read_exact P sch m n), (e_read_exact true st n). cbn [fst snd] in *. subst. split; [exact H1|reflexivity].
    - destruct (read_exact_std_sim P sch HP m st n H) as [H1 H2].
      destruct (em_read_exact_std P sch m n), (e_read_exact_std true st n). cbn [fst snd] in *. subst. split; [exact H1|reflexivity].
    - destruct (fill_sim P sch HP m st H) as [H1 H2].
      destruct (em_fill_buf P sch m), (e_fill_buf true st). cbn [fst snd] in *. subst. split; [exact H1|reflexivity].
    - cbn [fst snd]. split; [apply (consume_R P sch HP); exact H|reflexivity].
    - destruct (seek_sim P sch HP f m st v Hf H Hok) as [H1 H2].
      destruct (em_seek P sch f m v), (e_seek true f st v). cbn [fst snd] in *. subst. split; [exact H1|reflexivity].
    - destruct (seeku_sim f idx m st p Hf H Hok) as [H1 H2].
      destruct (em_seek_with_index P sch f idx m p), (e_seek_u true f idx st p).
      cbn [fst snd] in *. subst. split; [exact H1|reflexivity].
    - destruct (read_all_sim P sch HP m st n H) as [H1 H2].
      destruct (em_read_all P sch m n), (e_read_all true st n). cbn [fst snd] in *. subst. split; [exact H1|reflexivity].
  Qed.

  Lemma run_sim_app : forall f idx ops tail m st, ewf f -> ER m st -> e_safe f idx st ops = true ->
    exists m' st', ER m' st' /\
      em_run P sch f idx m (map MOp ops ++ tail)
      = e_run true f idx st ops ++ em_run P sch f idx m' tail.
  Proof.
    induction ops as [|o ops IH]; intros tail m st Hf H Hs.
    - exists m, st. split; [exact H|reflexivity].
    - rewrite e_safe_cons in Hs. apply andb_prop in Hs. destruct Hs as [Hs1 Hs2].
      cbn [map app em_run e_run].
      destruct (step_sim f idx m st o Hf H Hs1) as [H1 H2].
      destruct (em_step P sch f idx m (MOp o)) as [m1 x]. destruct (e_step true f idx st o) as [st1 y].
      cbn [fst snd] in H1, H2, Hs2. subst y. rewrite (e_vpos_R P sch HP _ _ (ER_c _ _ H1)).
      destruct (IH tail m1 st1 Hf H1 Hs2) as (m' & st' & HR & E). exists m', st'. split; [exact HR|].
      rewrite E. reflexivity.
  Qed.

  Lemma init_ER : forall f, ewf f -> ER (em_init f) (e_init f).
  Proof.
    intros f Hf. constructor; cbn [em_init em_rd em_ahead em_wf e_init e_rest]; try reflexivity; try exact I; try exact Hf.
    constructor; cbn [e_position e_bpos e_bsize e_blen e_cur e_buf er_position er_blk blk0 k_pos k_size k_data k_cur].
    - reflexivity.
    - left. split; reflexivity.
    - reflexivity.
    - reflexivity.
    - rewrite len_nil. lia.
    - left. reflexivity.
  Qed.

  (* MAIN THEOREM: histories over files with corrupt blocks / a broken last frame, continuing
     after the errors *)
  Theorem mt_err_equals_st : forall f idx ops, ewf f -> e_safe f idx (e_init f) ops = true ->
    em_run P sch f idx (em_init f) (map MOp ops) = e_run true f idx (e_init f) ops.
  Proof.
    intros f idx ops Hf Hs.
    destruct (run_sim_app f idx ops [] (em_init f) (e_init f) Hf (init_ER f Hf) Hs) as (m' & st' & _ & E).
    rewrite app_nil_r in E. rewrite E. cbn [em_run]. apply app_nil_r.
  Qed.

  (* finish() after any such history returns and hands back the inner reader *)
  Theorem mt_err_finish_returns : forall f idx ops, ewf f -> e_safe f idx (e_init f) ops = true ->
    exists off vp,
      em_run P sch f idx (em_init f) (map MOp ops ++ [Finish])
      = e_run true f idx (e_init f) ops ++ [(OPos (Ok off), vp)] /\ off <= ecsum f.
  Proof.
    intros f idx ops Hf Hs.
    destruct (run_sim_app f idx ops [Finish] (em_init f) (e_init f) Hf (init_ER f Hf) Hs) as (m' & st' & HR & E).
    destruct (epause_R P m' st' HR) as [inner Hpa].
    exists (ecsum f - ecsum inner). eexists. rewrite E. split; [|lia].
    f_equal. cbn [em_run em_step]. unfold em_finish. rewrite Hpa. reflexivity.
  Qed.
End ERun.

(* ---- the reader of the tree as it is --------------------------------------------------------
   [fxe] only matters when a block fails late *)

Definition no_late (fs : list eframe) : Prop :=
  Forall (fun x => match es x with SLate _ _ => False | _ => True end) fs.

Lemma no_late_hits : forall fs, no_late fs -> hits_late fs = false.
Proof.
  induction fs as [|x fs IH]; intros H; [reflexivity|]. inversion H as [|? ? H1 H2]; subst.
  cbn [hits_late]. destruct (es x); try reflexivity; [|contradiction].
  destruct (0 <? flen (eb x)); [reflexivity|apply IH; exact H2].
Qed.

Lemma e_loop_fxe : forall m fs st, no_late fs ->
  e_loop false m fs st = e_loop true m fs st /\ no_late (e_rest (fst (e_loop true m fs st))).
Proof.
  intros m. induction fs as [|x fs IH]; intros st H.
  - split; [reflexivity|constructor].
  - inversion H as [|? ? H1 H2]; subst. cbn [e_loop].
    destruct (es x); try contradiction; try (split; [reflexivity|exact H2]).
    destruct (0 <? flen (eb x)); [split; [reflexivity|exact H2]|]. apply IH. exact H2.
Qed.

Lemma e_drop_to_no_late : forall fs at_ c r, no_late fs -> e_drop_to fs at_ c = Some r -> no_late r.
Proof.
  induction fs as [|x fs IH]; intros at_ c r Hs H; cbn [e_drop_to] in H.
  - inversion H; subst. constructor.
  - destruct (c =? at_); [inversion H; subst; exact Hs|].
    destruct (c <? at_ + csize (eb x)); [discriminate|].
    inversion Hs; subst. eapply IH; eassumption.
Qed.

Definition agree {A : Type} (x y : estate * A) : Prop := x = y /\ no_late (e_rest (fst y)).

Lemma fill_fxe : forall st, no_late (e_rest st) -> agree (e_fill_buf false st) (e_fill_buf true st).
Proof.
  intros st H. unfold e_fill_buf, e_read_block. destruct (e_has_remaining st); [split; [reflexivity|exact H]|].
  destruct (e_loop_fxe Parse (e_rest st) st H) as [E1 E2]. rewrite E1.
  destruct (e_loop true Parse (e_rest st) st) as [st1 r]. cbn [fst] in E2.
  destruct r; split; try reflexivity; exact E2.
Qed.

Lemma read_fxe : forall st n, no_late (e_rest st) -> agree (e_read false st n) (e_read true st n).
Proof.
  intros st n H. unfold e_read. destruct (negb (e_has_remaining st) && (65536 <=? n)).
  - unfold e_read_block. destruct (e_loop_fxe IntoBuf (e_rest st) st H) as [E1 E2]. rewrite E1.
    destruct (e_loop true IntoBuf (e_rest st) st) as [st1 r]. cbn [fst] in E2.
    destruct r as [[b|]|e| | |]; split; try reflexivity; exact E2.
  - destruct (fill_fxe st H) as [E1 E2]. rewrite E1.
    destruct (e_fill_buf true st) as [st1 r]. cbn [fst] in E2.
    destruct r; split; try reflexivity; exact E2.
Qed.

Lemma exact_loop_fxe : forall fuel st rem acc, no_late (e_rest st) ->
  agree (e_read_exact_loop false fuel st rem acc) (e_read_exact_loop true fuel st rem acc).
Proof.
  induction fuel as [|k IH]; intros st rem acc H; cbn [e_read_exact_loop]; [split; [reflexivity|exact H]|].
  destruct (rem =? 0); [split; [reflexivity|exact H]|].
  destruct (read_fxe st rem H) as [E1 E2]. rewrite E1.
  destruct (e_read true st rem) as [st1 r]. cbn [fst] in E2.
  destruct r as [bs|e| | |]; try (split; [reflexivity|exact E2]).
  destruct (len bs =? 0); [split; [reflexivity|exact E2]|]. apply IH. exact E2.
Qed.

Lemma all_loop_fxe : forall fuel st n acc, no_late (e_rest st) ->
  agree (e_read_all_loop false fuel st n acc) (e_read_all_loop true fuel st n acc).
Proof.
  induction fuel as [|k IH]; intros st n acc H; cbn [e_read_all_loop]; [split; [reflexivity|exact H]|].
  destruct (read_fxe st n H) as [E1 E2]. rewrite E1.
  destruct (e_read true st n) as [st1 r]. cbn [fst] in E2.
  destruct r as [bs|e| | |]; try (split; [reflexivity|exact E2]).
  destruct (len bs =? 0); [split; [reflexivity|exact E2]|]. apply IH. exact E2.
Qed.

Lemma seek_fxe : forall f st v, no_late f -> no_late (e_rest st) ->
  agree (e_seek false f st v) (e_seek true f st v).
Proof.
  intros f st v Hf H. unfold e_seek. destruct (e_drop_to f 0 (vcomp v)) as [r|] eqn:Ed; [|split; [reflexivity|exact H]].
  pose proof (e_drop_to_no_late _ _ _ _ Hf Ed) as Hr. unfold e_read_block. cbn [e_rest].
  match goal with |- context [e_loop true Parse r ?s] => destruct (e_loop_fxe Parse r s Hr) as [E1 E2]; rewrite E1;
    destruct (e_loop true Parse r s) as [st2 rr] end.
  cbn [fst] in E2. destruct rr as [[b|]|e| | |]; split; try reflexivity; cbn [fst e_rest]; exact E2.
Qed.

Lemma step_fxe : forall f idx st o, no_late f -> no_late (e_rest st) ->
  agree (e_step false f idx st o) (e_step true f idx st o).
Proof.
  intros f idx st o Hf H. destruct o as [n|n|n| |n|v|p|n]; cbn [e_step].
  - destruct (read_fxe st n H) as [E1 E2]. rewrite E1. destruct (e_read true st n). split; [reflexivity|exact E2].
  - unfold e_read_exact. destruct (e_as_ref st); try (split; [reflexivity|exact H]).
    destruct (n <=? len a); [split; [reflexivity|exact H]|].
    unfold e_read_exact_std. destruct (exact_loop_fxe (S (N.to_nat n)) st n [] H) as [E1 E2]. rewrite E1.
    destruct (e_read_exact_loop true (S (N.to_nat n)) st n []). split; [reflexivity|exact E2].
  - unfold e_read_exact_std. destruct (exact_loop_fxe (S (N.to_nat n)) st n [] H) as [E1 E2]. rewrite E1.
    destruct (e_read_exact_loop true (S (N.to_nat n)) st n []). split; [reflexivity|exact E2].
  - destruct (fill_fxe st H) as [E1 E2]. rewrite E1. destruct (e_fill_buf true st). split; [reflexivity|exact E2].
  - split; [reflexivity|exact H].
  - destruct (seek_fxe f st v Hf H) as [E1 E2]. rewrite E1. destruct (e_seek true f st v). split; [reflexivity|exact E2].
  - unfold e_seek_u. destruct (gzi_query idx p) as [v|e| | |]; try (split; [reflexivity|exact H]).
    destruct (seek_fxe f st v Hf H) as [E1 E2]. rewrite E1. destruct (e_seek true f st v) as [s1 r1].
    cbn [fst] in E2. destruct r1; split; try reflexivity; exact E2.
  - unfold e_read_all. match goal with |- context [e_read_all_loop true ?k st n []] =>
      destruct (all_loop_fxe k st n [] H) as [E1 E2]; rewrite E1; destruct (e_read_all_loop true k st n []) end.
    split; [reflexivity|exact E2].
Qed.

(* a file without a late-failing block: the reader as it is IS the repaired reader *)
Theorem st_pinned_is_repaired : forall f idx ops st, no_late f -> no_late (e_rest st) ->
  e_run false f idx st ops = e_run true f idx st ops.
Proof.
  intros f idx. induction ops as [|o ops IH]; intros st Hf H; cbn [e_run]; [reflexivity|].
  destruct (step_fxe f idx st o Hf H) as [E1 E2]. rewrite E1.
  destruct (e_step true f idx st o) as [st1 x]. cbn [fst] in E2. rewrite (IH st1 Hf E2). reflexivity.
Qed.

Lemma no_late_safe : forall f idx ops st, no_late f -> e_safe f idx st ops = true.
Proof.
  intros f idx. induction ops as [|o ops IH]; intros st Hf; [reflexivity|].
  rewrite e_safe_cons. rewrite (IH _ Hf), andb_true_r.
  assert (Hk : forall v, e_seek_ok f st v = true).
  { intros v. unfold e_seek_ok. destruct (e_drop_to f 0 (vcomp v)) as [r|] eqn:Ed; [|apply orb_true_r].
    rewrite (no_late_hits r (e_drop_to_no_late _ _ _ _ Hf Ed)). apply orb_true_r. }
  destruct o; cbn [op_ok]; try reflexivity; [apply Hk|].
  destruct (gzi_query idx pos); try reflexivity. apply Hk.
Qed.

(* header / ISIZE-range / frame-level errors only: the multithreaded reader equals the
   single-threaded reader of the tree as it is, on every history, under every schedule *)
Theorem mt_err_equals_st_pinned : forall P sch f idx ops, (0 < P)%nat -> ewf f -> no_late f ->
  em_run P sch f idx (em_init f) (map MOp ops) = e_run false f idx (e_init f) ops.
Proof.
  intros P sch f idx ops HP Hf Hn.
  rewrite (st_pinned_is_repaired f idx ops (e_init f) Hn Hn).
  apply mt_err_equals_st; [exact HP|exact Hf|apply no_late_safe; exact Hn].
Qed.

(* ---- the statement against the reader of the tree as it is, and its refutation --------------- *)

Definition err_full_statement : Prop :=
  forall (P : nat) (sch : nat -> list act) (f : efile) (idx : gzi_index) (ops : list op),
    (0 < P)%nat -> ewf f ->
    em_run P sch f idx (em_init f) (map MOp ops) = e_run false f idx (e_init f) ops.

(* data, a block with a flipped CRC bit, data, EOF marker; read 5, read 100, read 100: the
   single-threaded reader reports position 0:0 after the error and then hands out the 7 unverified
   bytes; the multithreaded reader stays at 33:0 and goes on with the third block *)
Theorem err_full_statement_refuted : ~ err_full_statement.
Proof.
  intro H.
  specialize (H 1%nat (fun _ => [])
    [mkE (mkFrame 33 [10; 11; 12; 13; 14]) SGood;
     mkE (mkFrame 35 [20; 21; 22; 23; 24; 25; 26]) (SLate 7 [20; 21; 22; 23; 24; 25; 26]);
     mkE (mkFrame 31 [40; 41; 42]) SGood; mkE (mkFrame 28 []) SGood]
    [] [Read 5; Read 100; Read 100]).
  assert (H1 : (0 < 1)%nat) by constructor.
  specialize (H H1). clear H1.
  match type of H with ?A -> _ => assert (H2 : A) end.
  { repeat constructor; vm_compute; congruence. }
  specialize (H H2). vm_compute in H. discriminate.
Qed.
