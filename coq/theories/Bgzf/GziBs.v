(* gzi::Index::query with slice::partition_point modelled EXACTLY as core::slice does it
   (library/core/src/slice/mod.rs, binary_search_by since Rust 1.82, unchanged in the 1.95 / 1.97
   toolchains of this machine):

       let mut size = self.len();
       if size == 0 { return Err(0); }
       let mut base = 0usize;
       while size > 1 {
           let half = size / 2;
           let mid = base + half;
           let cmp = f(self[mid]);                       // here: pred -> Less, !pred -> Greater
           base = if cmp == Greater { base } else { mid };
           size -= half;
       }
       let cmp = f(self[base]);
       ... Err(base + (cmp == Less) as usize)            // partition_point = that index

   On a slice that is NOT partitioned by the predicate (an unsorted or otherwise hostile gzi index)
   this differs from NV.Bgzf.Gzi.partition_point (the longest prefix satisfying the predicate);
   on partitioned slices both agree (GziBsProofs.partition_point_bs_sorted), which is why the
   existing theorems keep their statements.

   The entry selected at index i - 1 of an unsorted index need not satisfy the predicate (the
   element before `base` is never probed when the last comparison is Greater), so
   `pos - uncompressed_pos` can underflow: with overflow checks on (debug builds, and the release
   profile of the harness) that is a panic; it is modelled as such. *)
From Coq Require Import List NArith Bool Arith.
From NV Require Import Bgzf.Vpos Bgzf.Gzi Bgzf.ReaderOps.
Import ListNotations.
Open Scope N_scope.

(* pred(&self[i]); never evaluated out of range (proved), false there *)
Definition pred_at {A : Type} (p : A -> bool) (l : list A) (i : nat) : bool :=
  match nth_error l i with Some x => p x | None => false end.

(* the while loop; [size] at least halves... it drops by size/2 >= 1 per iteration, so [size]
   units of fuel are enough (GziBsProofs.pp_loop_fuel) *)
Fixpoint pp_loop {A : Type} (fuel : nat) (p : A -> bool) (l : list A) (base size : nat) : nat :=
  match fuel with
  | O => base
  | S k =>
      if (size <=? 1)%nat then base
      else
        let half := Nat.div2 size in
        let mid := (base + half)%nat in
        pp_loop k p l (if pred_at p l mid then mid else base) (size - half)
  end.

Definition partition_point_bs {A : Type} (p : A -> bool) (l : list A) : nat :=
  match length l with
  | O => O
  | size =>
      let base := pp_loop size p l 0 size in
      if pred_at p l base then S base else base
  end.

Definition gzi_entry_bs (idx : gzi_index) (pos : N) : N * N :=
  match partition_point_bs (fun r => snd r <=? pos) idx with
  | O => (0, 0)
  | S j => nth j idx (0, 0)
  end.

(* Index::query; `pos - uncompressed_pos` on u64 with overflow checks *)
Definition gzi_query_bs (idx : gzi_index) (pos : N) : res N :=
  let '(c, u) := gzi_entry_bs idx pos in
  if pos <? u then Panic
  else
    let d := pos - u in
    if 65536 <=? d then Err InvalidData
    else match vpos_try_from c d with
         | Some v => Ok v
         | None => Err InvalidData
         end.

(* Reader::seek_by_uncompressed_position / the history runner over the exact query *)
Definition seek_by_uncompressed_position_bs (fx : bool) (f : file) (idx : gzi_index) (st : state) (pos : N)
  : state * res N :=
  match gzi_query_bs idx pos with
  | Ok v => match seek fx f st v with
            | (st', Ok _) => (st', Ok pos)
            | r => r
            end
  | Err e => (st, Err e)
  | Panic => (st, Panic)
  | OutOfFuel => (st, OutOfFuel)
  | Unmodelled => (st, Unmodelled)
  end.

Definition step_bs (fx : bool) (f : file) (idx : gzi_index) (st : state) (o : op) : state * out :=
  match o with
  | SeekU p => let '(s, r) := seek_by_uncompressed_position_bs fx f idx st p in (s, OPos r)
  | _ => step fx f idx st o
  end.

Fixpoint run_bs (fx : bool) (f : file) (idx : gzi_index) (st : state) (ops : list op)
  : list (out * res N) :=
  match ops with
  | [] => []
  | o :: r =>
      let '(st', x) := step_bs fx f idx st o in
      (x, virtual_position st') :: run_bs fx f idx st' r
  end.
