(* bgzf::io::Reader::read_to_end over an in-memory source: noodles-bgzf/src/io/reader/frame.rs
   (read_frame_into, parse_block, inflate) and reader.rs (read_nonempty_block_with, read,
   fill_buf).  INFLATE is a section variable: inflate cdata n = the n bytes zlib-rs writes for the
   raw DEFLATE stream cdata when it ends exactly with the stream, None otherwise. *)
From Coq Require Import List Arith NArith Bool.
From NV Require Import Base.LE Bgzf.Crc32 Bgzf.Frame.
Import ListNotations.
Open Scope N_scope.

Section Reader.
  Variable inflate : list N -> N -> option (list N).

  (* read_frame_into: Ok None = clean end of input (fewer than 18 bytes left, even if > 0) *)
  Definition read_frame (src : list N) : res (option (list N * list N)) :=
    if lenN src <? BGZF_HEADER_SIZE then Ok None
    else
      let bsize := le_dec (slice src 16 18) in
      let block_size := bsize + 1 in
      if block_size <? MIN_FRAME_SIZE then Err InvalidData
      else if lenN src <? block_size then Err UnexpectedEof
      else Ok (Some (firstn (N.to_nat block_size) src, skipn (N.to_nat block_size) src)).

  (* parse_block: (block size, uncompressed data) *)
  Definition parse_block (frame : list N) : res (N * list N) :=
    match parse_frame frame with
    | Err e => Err e
    | Panic => Panic
    | Ok (bs, cdata, crc, isize) =>
        match inflate cdata isize with
        | None => Err InvalidData
        | Some d => if crc32 d =? crc then Ok (bs, d) else Err InvalidData
        end
    end.

  (* the blocks delivered before the end of input or the first error; empty blocks are skipped by
     read_nonempty_block_with and contribute nothing.  fuel: every frame consumes >= 26 bytes. *)
  Fixpoint read_blocks (fuel : nat) (src : list N) : list (list N) * res unit :=
    match fuel with
    | O => ([], Panic)
    | S fuel' =>
        match read_frame src with
        | Err e => ([], Err e)
        | Panic => ([], Panic)
        | Ok None => ([], Ok tt)
        | Ok (Some (frame, rest)) =>
            match parse_block frame with
            | Err e => ([], Err e)
            | Panic => ([], Panic)
            | Ok (_, d) =>
                let '(bs, r) := read_blocks fuel' rest in (d :: bs, r)
            end
        end
    end.

  (* read_to_end: (bytes appended to the caller's buffer, result) *)
  Definition reader_read_to_end (src : list N) : list N * res unit :=
    let '(bs, r) := read_blocks (S (length src)) src in (concat bs, r).
End Reader.
