(* Proofs about NV.Bgzf.ReaderOps against the flat reference NV.Bgzf.FlatRef. *)
From Coq Require Import List NArith PeanoNat Lia Bool ZifyBool ZifyNat ZifyN.
From NV Require Import Bgzf.Vpos Bgzf.VposProofs Bgzf.Gzi Bgzf.ReaderOps Bgzf.FlatRef.
Import ListNotations.
Open Scope N_scope.
Arguments N.add : simpl never.
Arguments N.sub : simpl never.
Arguments N.mul : simpl never.
Arguments N.min : simpl never.
Arguments N.ltb : simpl never.
Arguments N.leb : simpl never.
Arguments N.eqb : simpl never.
Arguments N.to_nat : simpl never.
Arguments N.of_nat : simpl never.
Arguments firstn : simpl never.
Arguments skipn : simpl never.
Arguments pack : simpl never.

(* ---- lists and lengths ---------------------------------------------------------------- *)

Lemma len_nil : forall A, @len A [] = 0.
Proof. reflexivity. Qed.

Lemma len_cons : forall A (x : A) l, len (x :: l) = 1 + len l.
Proof. intros. unfold len. cbn [length]. lia. Qed.

Lemma len_app : forall A (a b : list A), len (a ++ b) = len a + len b.
Proof. intros. unfold len. rewrite app_length. lia. Qed.

Lemma csum_app : forall a b, total_csize (a ++ b) = total_csize a + total_csize b.
Proof. unfold total_csize. induction a as [|x a IH]; intros b; cbn [app fold_right]; [lia|]. rewrite IH. lia. Qed.

Lemma dsum_app : forall a b, total_dlen (a ++ b) = total_dlen a + total_dlen b.
Proof. unfold total_dlen. induction a as [|x a IH]; intros b; cbn [app fold_right]; [lia|]. rewrite IH. lia. Qed.

Lemma csum_cons : forall b r, total_csize (b :: r) = csize b + total_csize r.
Proof. reflexivity. Qed.
Lemma dsum_cons : forall b r, total_dlen (b :: r) = flen b + total_dlen r.
Proof. reflexivity. Qed.
Lemma csum_nil : total_csize [] = 0. Proof. reflexivity. Qed.
Lemma dsum_nil : total_dlen [] = 0. Proof. reflexivity. Qed.

Lemma chunks_app : forall a b, chunks (a ++ b) = chunks a ++ chunks b.
Proof. intros. unfold chunks. apply map_app. Qed.

Lemma len_concat_chunks : forall f, len (concat (chunks f)) = total_dlen f.
Proof.
  induction f as [|b f IH]; [reflexivity|].
  unfold chunks in *. cbn [map concat]. rewrite len_app, IH, dsum_cons. reflexivity.
Qed.

Definition all_empty (es : list frame) : Prop := Forall (fun b => flen b = 0) es.
Definition wf (f : file) : Prop := Forall (fun b => 0 < csize b /\ flen b <= 65536) f.
(* the file is empty or its last frame holds no data (e.g. the EOF marker) *)
Definition trailing_empty (f : file) : Prop := forall p b, f = p ++ [b] -> flen b = 0.

Lemma wf_app : forall a b, wf (a ++ b) <-> wf a /\ wf b.
Proof. intros. unfold wf. apply Forall_app. Qed.

Lemma all_empty_dsum : forall es, all_empty es -> total_dlen es = 0.
Proof. induction 1 as [|b es Hb _ IH]; [reflexivity|]. rewrite dsum_cons. lia. Qed.

Lemma flen_nil_data : forall b, flen b = 0 -> fdata b = [].
Proof. intros b H. unfold flen, len in H. destruct (fdata b); [reflexivity|cbn [length] in H; lia]. Qed.

Lemma all_empty_concat : forall es, all_empty es -> concat (chunks es) = [].
Proof.
  induction 1 as [|b es Hb _ IH]; [reflexivity|].
  unfold chunks in *. cbn [map concat]. rewrite IH, (flen_nil_data b Hb). reflexivity.
Qed.

(* ---- slices --------------------------------------------------------------------------- *)

Lemma slice_app_skip : forall (a b : list N) i n,
  slice (a ++ b) (len a + i) n = slice b i n.
Proof.
  intros. unfold slice. f_equal.
  replace (N.to_nat (len a + i)) with (length a + N.to_nat i)%nat by (unfold len; lia).
  rewrite skipn_app. rewrite skipn_all2 by lia.
  replace (length a + N.to_nat i - length a)%nat with (N.to_nat i) by lia. reflexivity.
Qed.

Lemma slice_head : forall (a b : list N) c,
  c <= len a -> slice (a ++ b) c (len a - c) = skipn (N.to_nat c) a.
Proof.
  intros a b c Hc. unfold slice. unfold len in *.
  rewrite skipn_app.
  rewrite firstn_app. rewrite skipn_length.
  replace (N.to_nat (N.of_nat (length a) - c) - (length a - N.to_nat c))%nat with O by lia.
  rewrite firstn_O, app_nil_r. apply firstn_all2. rewrite skipn_length. lia.
Qed.

Lemma slice_zero : forall D i, slice D i 0 = [].
Proof. intros. unfold slice. change (N.to_nat 0) with O. apply firstn_O. Qed.

Lemma len_slice : forall D i n, i + n <= len D -> len (slice D i n) = n.
Proof.
  intros D i n H. unfold slice, len in *. rewrite firstn_length, skipn_length. lia.
Qed.

Lemma firstn_slice : forall D i n m, firstn (N.to_nat m) (slice D i n) = slice D i (N.min m n).
Proof.
  intros. unfold slice. rewrite firstn_firstn. f_equal; lia.
Qed.

(* data of frame b inside the file *)
Lemma slice_frame : forall p b q c, c <= flen b ->
  slice (concat (chunks (p ++ b :: q))) (total_dlen p + c) (flen b - c) = skipn (N.to_nat c) (fdata b).
Proof.
  intros p b q c Hc. rewrite chunks_app, concat_app.
  rewrite <- len_concat_chunks, slice_app_skip.
  unfold chunks. cbn [map concat]. apply slice_head. exact Hc.
Qed.

(* ---- the block buffer ----------------------------------------------------------------- *)

Lemma buf_write_firstn : forall bf d, firstn (length d) (buf_write bf d) = d.
Proof.
  intros. unfold buf_write. rewrite firstn_app, Nat.sub_diag, firstn_O, app_nil_r.
  apply firstn_all2. lia.
Qed.

Lemma buf_slice_loaded : forall bf d c, firstn (length d) bf = d -> c <= len d ->
  buf_slice bf c (len d) = skipn (N.to_nat c) d.
Proof.
  intros bf d c Hf Hc. unfold buf_slice, len in *.
  assert (Hl : (length d <= length bf)%nat).
  { rewrite <- Hf at 1. rewrite firstn_length. lia. }
  rewrite firstn_app, skipn_length.
  replace (N.to_nat (N.of_nat (length d) - c) - (length bf - N.to_nat c))%nat with O by lia.
  rewrite firstn_O, app_nil_r.
  rewrite <- Hf at 2.
  replace (N.to_nat (N.of_nat (length d) - c)) with (length d - N.to_nat c)%nat by lia.
  symmetry. apply skipn_firstn_comm.
Qed.

Lemma buf_slice_empty : forall bf c, buf_slice bf c c = [].
Proof. intros. unfold buf_slice. rewrite N.sub_diag. change (N.to_nat 0) with O. apply firstn_O. Qed.

Ltac splits := repeat match goal with |- _ /\ _ => split end.
Ltac fin := first [ reflexivity | assumption | constructor; fail
                  | rewrite ?csum_nil, ?dsum_nil, ?csum_cons, ?dsum_cons in *; lia | idtac ].

(* ---- frames: loading, naming, windows --------------------------------------------------- *)

Lemma next_nonempty_none : forall fs p, next_nonempty fs p = None -> fs = [].
Proof.
  intros [|b r] p H; [reflexivity|]. cbn [next_nonempty] in H.
  destruct (0 <? flen b); [discriminate|].
  destruct (next_nonempty r (p + csize b)) as [[[[? ?] ?] ?]|]; discriminate.
Qed.

Lemma next_nonempty_some : forall fs p b q r np,
  next_nonempty fs p = Some (b, q, r, np) ->
  exists es, all_empty es /\ fs = es ++ b :: r /\ q = p + total_csize es /\
             np = q + csize b /\ (flen b = 0 -> r = []).
Proof.
  induction fs as [|b0 r0 IH]; intros p b q r np H; [discriminate|].
  cbn [next_nonempty] in H.
  destruct (N.ltb_spec 0 (flen b0)) as [Hpos|Hz].
  - inversion H; subst. exists []. splits; fin.
  - destruct (next_nonempty r0 (p + csize b0)) as [[[[b1 q1] r1] np1]|] eqn:E.
    + inversion H; subst. destruct (IH _ _ _ _ _ E) as (es & Hes & Hfs & Hq & Hnp & Hl).
      exists (b0 :: es). splits; fin.
      * constructor; [lia | exact Hes].
      * rewrite Hfs. reflexivity.
    + inversion H; subst. apply next_nonempty_none in E. subst.
      exists []. splits; fin.
Qed.

Definition hdlen (q : list frame) : N := match q with [] => 0 | b :: _ => flen b end.

Lemma frame_start_prefix : forall p q ca da, wf p ->
  frame_start (p ++ q) ca da (ca + total_csize p) = Some (da + total_dlen p, hdlen q).
Proof.
  induction p as [|a p IH]; intros q ca da Hwf.
  - rewrite csum_nil, dsum_nil, !N.add_0_r. cbn [app].
    destruct q as [|b r]; cbn [frame_start hdlen]; rewrite N.eqb_refl; reflexivity.
  - inversion Hwf as [|? ? [Ha _] Hp]; subst.
    cbn [app frame_start]. rewrite csum_cons, dsum_cons.
    destruct (N.eqb_spec (ca + (csize a + total_csize p)) ca) as [E|_]; [lia|].
    replace (ca + (csize a + total_csize p)) with ((ca + csize a) + total_csize p) by lia.
    rewrite IH by exact Hp. f_equal. f_equal; lia.
Qed.

Lemma frame_start_ge : forall fs ca da c r, frame_start fs ca da c = Some r -> ca <= c.
Proof.
  induction fs as [|b fs IH]; intros ca da c r H; cbn [frame_start] in H.
  - destruct (N.eqb_spec c ca); [lia | discriminate].
  - destruct (N.eqb_spec c ca); [lia|]. apply IH in H. lia.
Qed.

(* a named frame start is a split of the file, and seeking the inner stream there works *)
Lemma frame_start_split : forall fs ca da c s0 l,
  frame_start fs ca da c = Some (s0, l) ->
  exists p q, fs = p ++ q /\ c = ca + total_csize p /\ s0 = da + total_dlen p /\ l = hdlen q /\
              drop_to fs ca c = Some q.
Proof.
  induction fs as [|b fs IH]; intros ca da c s0 l H; cbn [frame_start] in H.
  - destruct (N.eqb_spec c ca) as [E|]; [|discriminate]. inversion H; subst.
    exists [], []. splits; fin.
  - cbn [drop_to]. destruct (N.eqb_spec c ca) as [E|Hne].
    + inversion H; subst. exists [], (b :: fs). splits; fin.
    + pose proof (frame_start_ge _ _ _ _ _ H) as Hge.
      destruct (IH _ _ _ _ _ H) as (p & q & Hfs & Hc & Hs & Hl & Hd).
      exists (b :: p), q. subst fs. splits; fin.
      destruct (N.ltb_spec c (ca + csize b)); [lia | exact Hd].
Qed.

Lemma win_at_prefix : forall p q i,
  win_at (chunks (p ++ q)) (total_dlen p + i) = win_at (chunks q) i.
Proof.
  induction p as [|a p IH]; intros q i.
  - rewrite dsum_nil. cbn [app]. f_equal; lia.
  - cbn [app]. unfold chunks at 1. cbn [map win_at]. fold (chunks (p ++ q)).
    rewrite dsum_cons. fold (flen a).
    destruct (N.ltb_spec (flen a + total_dlen p + i) (flen a)); [lia|].
    replace (flen a + total_dlen p + i - flen a) with (total_dlen p + i) by lia. apply IH.
Qed.

Lemma win_at_empties : forall es q i, all_empty es ->
  win_at (chunks (es ++ q)) i = win_at (chunks q) i.
Proof.
  intros es q i H. rewrite <- (win_at_prefix es q i). rewrite all_empty_dsum by exact H.
  f_equal; lia.
Qed.

Lemma win_at_head : forall b r i, i < flen b -> win_at (chunks (b :: r)) i = flen b - i.
Proof.
  intros b r i H. unfold chunks. cbn [map win_at]. fold (flen b).
  destruct (N.ltb_spec i (flen b)); [reflexivity | lia].
Qed.

Lemma win_at_nil : forall i, win_at (chunks []) i = 0.
Proof. reflexivity. Qed.

(* window at the flat start of a loaded frame *)
Lemma win_at_loaded : forall p es b r, all_empty es -> (flen b = 0 -> r = []) ->
  win_at (chunks (p ++ es ++ b :: r)) (total_dlen p) = flen b.
Proof.
  intros p es b r Hes Hl.
  replace (total_dlen p) with (total_dlen p + 0) by lia.
  rewrite win_at_prefix, win_at_empties by exact Hes.
  destruct (N.eq_dec (flen b) 0) as [Hz|Hnz].
  - rewrite (Hl Hz). unfold chunks. cbn [map win_at]. fold (flen b).
    destruct (N.ltb_spec 0 (flen b)); lia.
  - rewrite win_at_head by lia. lia.
Qed.

Lemma csum_prefix_le : forall p q, total_csize p <= total_csize (p ++ q).
Proof. intros. rewrite csum_app. lia. Qed.

Lemma wf_csum_pos : forall q, wf q -> q <> [] -> 0 < total_csize q.
Proof.
  intros [|b r] H Hne; [congruence|]. inversion H as [|? ? [Hb _] _]; subst. rewrite csum_cons. lia.
Qed.

(* the flat offset named by a position at a frame boundary *)
Lemma denote_boundary : forall p q u, wf p -> u <= hdlen q -> u < 65536 ->
  denote (p ++ q) (pack (total_csize p) u) = Some (total_dlen p + u).
Proof.
  intros p q u Hwf Hu Hlt. unfold denote. rewrite vcomp_pack, vuncomp_pack by exact Hlt.
  pose proof (frame_start_prefix p q 0 0 Hwf) as H. rewrite !N.add_0_l in H. rewrite H.
  destruct (N.leb_spec u (hdlen q)); [reflexivity | lia].
Qed.

(* ---- the refinement invariant ----------------------------------------------------------- *)

Definition Inv (f : file) (st : state) (s : fstate) : Prop :=
  exists pre,
    f = pre ++ rest st /\ position st = total_csize pre /\
    cur st <= blen st /\ blen st <= 65536 /\
    win s = blen st - cur st /\ off s + win s = total_dlen pre /\
    bpos st + bsize st <= total_csize f /\
    (cur st < blen st ->
       exists pre0 b, pre = pre0 ++ [b] /\ bpos st = total_csize pre0 /\ bsize st = csize b /\
                      blen st = flen b /\ firstn (length (fdata b)) (buf st) = fdata b) /\
    (cur st = blen st -> denote f (pack (bpos st + bsize st) 0) = Some (off s)) /\
    (trailing_empty f -> rest st = [] -> blen st = 0).

Lemma Inv_ext : forall f st s s', Inv f st s -> off s' = off s -> win s' = win s -> Inv f st s'.
Proof. intros f st [o w] [o' w'] H Ho Hw. cbn [off win] in *. subst. exact H. Qed.

Lemma inv_init : forall f, wf f -> Inv f (init f) (mkF 0 0).
Proof.
  intros f Hwf. exists []. unfold init. cbn [rest position cur blen bpos bsize buf off win app].
  splits; fin; try lia.
  - intros _. change (0 + 0) with 0.
    pose proof (denote_boundary [] f 0) as H. rewrite csum_nil, dsum_nil in H.
    cbn [app] in H. apply H; [constructor | lia | lia].
Qed.

Lemma as_ref_spec : forall f st s, Inv f st s ->
  as_ref st = Ok (slice (concat (chunks f)) (off s) (win s)).
Proof.
  intros f st s (pre & Hf & Hpos & Hcur & Hbl & Hwin & Hoff & Hb & Hload & Hex & Htr).
  unfold as_ref. destruct (N.leb_spec (cur st) (blen st)); [|lia]. f_equal.
  destruct (N.eq_dec (cur st) (blen st)) as [E|Hne].
  - rewrite E, buf_slice_empty. replace (win s) with 0 by lia. symmetry. apply slice_zero.
  - destruct Hload as (pre0 & b & Hpre & Hbp & Hbs & Hbl' & Hbuf); [lia|].
    rewrite Hwin, Hbl'. unfold flen.
    rewrite buf_slice_loaded by (try exact Hbuf; fold (flen b); lia).
    subst pre. rewrite <- app_assoc in Hf. cbn [app] in Hf. rewrite Hf.
    fold (flen b). rewrite <- slice_frame with (p := pre0) (q := rest st) by lia.
    f_equal. rewrite dsum_app, dsum_cons, dsum_nil in Hoff. lia.
Qed.

(* Inv holds for a block that has just been loaded with cursor c *)
Lemma inv_loaded : forall f pre1 b r c bf,
  wf f -> f = pre1 ++ b :: r -> c <= flen b ->
  (c < flen b -> firstn (length (fdata b)) bf = fdata b) ->
  (flen b = 0 -> r = []) ->
  Inv f (mkState r (total_csize pre1 + csize b) (total_csize pre1) (csize b) (flen b) c bf)
        (mkF (total_dlen pre1 + c) (flen b - c)).
Proof.
  intros f pre1 b r c bf Hwf Hf Hc Hbuf Hl.
  assert (Hf' : f = (pre1 ++ [b]) ++ r) by (rewrite <- app_assoc; exact Hf).
  assert (Hwfp : wf (pre1 ++ [b])) by (rewrite Hf' in Hwf; apply wf_app in Hwf; tauto).
  assert (Hb : flen b <= 65536).
  { apply wf_app in Hwfp. destruct Hwfp as [_ Hb]. inversion Hb as [|? ? [_ Hb'] _]; exact Hb'. }
  exists (pre1 ++ [b]).
  cbn [rest position cur blen bpos bsize buf off win].
  splits; fin.
  - rewrite csum_app, csum_cons, csum_nil. lia.
  - rewrite dsum_app, dsum_cons, dsum_nil. lia.
  - rewrite Hf, csum_app, csum_cons. lia.
  - intros Hlt. exists pre1, b. splits; fin. apply Hbuf. exact Hlt.
  - intros E.
    pose proof (denote_boundary (pre1 ++ [b]) r 0 Hwfp) as H.
    rewrite <- Hf', csum_app, csum_cons, csum_nil, dsum_app, dsum_cons, dsum_nil in H.
    rewrite N.add_0_r in H. rewrite H by lia. f_equal. lia.
  - intros Htr Hr. subst r. apply (Htr pre1 b). exact Hf.
Qed.

Lemma inv_consume : forall f st s n, wf f -> Inv f st s -> Inv f (consume st n) (f_consume s n).
Proof.
  intros f st s n Hwf (pre & Hf & Hpos & Hcur & Hbl & Hwin & Hoff & Hb & Hload & Hex & Htr).
  exists pre. unfold consume, f_consume, f_advance.
  cbn [rest position cur blen bpos bsize buf off win].
  splits; fin; try lia.
  - intros Hlt. destruct Hload as (pre0 & b & H); [lia|]. exists pre0, b. exact H.
  - intros E. destruct (N.eq_dec (cur st) (blen st)) as [E0|Hne].
    + rewrite Hex by exact E0. f_equal. lia.
    + destruct Hload as (pre0 & b & Hpre & Hbp & Hbs & Hbl' & Hbuf); [lia|].
      subst pre. rewrite Hbp, Hbs.
      assert (Hwfp : wf (pre0 ++ [b])) by (rewrite Hf in Hwf; apply wf_app in Hwf; tauto).
      pose proof (denote_boundary (pre0 ++ [b]) (rest st) 0 Hwfp) as H.
      rewrite <- Hf, csum_app, csum_cons, csum_nil in H.
      rewrite N.add_0_r in H. rewrite H by lia. f_equal. lia.
Qed.

Lemma Inv_bound : forall f st s, Inv f st s -> off s + win s <= total_dlen f.
Proof.
  intros f st s (pre & Hf & _ & _ & _ & _ & Hoff & _). rewrite Hoff, Hf, dsum_app. lia.
Qed.

Lemma Inv_cur : forall f st s, Inv f st s -> cur st <= blen st /\ win s = blen st - cur st /\ blen st <= 65536.
Proof. intros f st s (pre & _ & _ & Hc & Hb & Hw & _). auto. Qed.

(* ---- loading the next block when the current one is exhausted ------------------------- *)

Lemma load_none : forall f st s, Inv f st s -> cur st = blen st ->
  next_nonempty (rest st) (position st) = None ->
  rest st = [] /\ win_at (chunks f) (off s) = 0.
Proof.
  intros f st s (pre & Hf & Hpos & Hcur & Hbl & Hwin & Hoff & _) Hex Hn.
  apply next_nonempty_none in Hn. split; [exact Hn|].
  rewrite Hf, Hn. replace (off s) with (total_dlen pre + 0) by lia.
  rewrite win_at_prefix. reflexivity.
Qed.

Lemma load_some : forall f st s b p r np, Inv f st s -> cur st = blen st ->
  next_nonempty (rest st) (position st) = Some (b, p, r, np) ->
  exists pre1, f = pre1 ++ b :: r /\ p = total_csize pre1 /\ np = total_csize pre1 + csize b /\
               total_dlen pre1 = off s /\ win_at (chunks f) (off s) = flen b /\
               (flen b = 0 -> r = []).
Proof.
  intros f st s b p r np (pre & Hf & Hpos & Hcur & Hbl & Hwin & Hoff & _) Hex Hn.
  destruct (next_nonempty_some _ _ _ _ _ _ Hn) as (es & Hes & Hr & Hp & Hnp & Hl).
  exists (pre ++ es).
  assert (Hd : total_dlen (pre ++ es) = off s) by (rewrite dsum_app, (all_empty_dsum es Hes); lia).
  splits.
  - rewrite Hf, Hr, app_assoc. reflexivity.
  - rewrite csum_app. lia.
  - rewrite csum_app. lia.
  - exact Hd.
  - rewrite Hf, Hr. replace (off s) with (total_dlen pre) by lia.
    apply win_at_loaded; assumption.
  - exact Hl.
Qed.

Lemma fill_refines : forall f st s, wf f -> Inv f st s ->
  snd (fill_buf st) = snd (f_fill (chunks f) s) /\
  Inv f (fst (fill_buf st)) (fst (f_fill (chunks f) s)).
Proof.
  intros f st s Hwf HI. destruct (Inv_cur _ _ _ HI) as (Hc & Hw & Hb).
  unfold fill_buf, f_fill, refill, has_remaining. cbn [fst snd].
  destruct (N.ltb_spec (cur st) (blen st)) as [Hlt|Hge].
  - destruct (N.ltb_spec 0 (win s)); [|lia]. split; [apply as_ref_spec|]; exact HI.
  - destruct (N.ltb_spec 0 (win s)); [lia|].
    assert (Hex : cur st = blen st) by lia.
    unfold read_nonempty_block.
    destruct (next_nonempty (rest st) (position st)) as [[[[b p] r] np]|] eqn:E; cbn [fst snd].
    + destruct (load_some _ _ _ _ _ _ _ HI Hex E) as (pre1 & Hf & Hp & Hnp & Hd & Hwa & Hl).
      assert (HI' : Inv f (mkState r np p (csize b) (flen b) 0 (buf_write (buf st) (fdata b)))
                         (mkF (off s) (win_at (chunks f) (off s)))).
      { subst p np. eapply Inv_ext.
        - apply (inv_loaded f pre1 b r 0 (buf_write (buf st) (fdata b))); fin; try lia.
          intros _. apply buf_write_firstn.
        - cbn [off]. lia.
        - cbn [win]. lia. }
      split; [apply (as_ref_spec _ _ _ HI') | exact HI'].
    + destruct (load_none _ _ _ HI Hex E) as (Hr & Hwa).
      assert (HI' : Inv f st (mkF (off s) (win_at (chunks f) (off s)))).
      { eapply Inv_ext; [exact HI | reflexivity | cbn [win]; lia]. }
      split; [apply (as_ref_spec _ _ _ HI') | exact HI'].
Qed.

(* the known class direct-read-at-eof-stale-len *)
Definition stale_direct (fx : bool) (st : state) (n : N) : Prop :=
  fx = false /\ 65536 <= n /\ cur st = blen st /\ rest st = [] /\ blen st <> 0.

Lemma read_refines : forall fx f st s n, wf f -> Inv f st s -> ~ stale_direct fx st n ->
  snd (read fx st n) = snd (f_read (chunks f) s n) /\
  Inv f (fst (read fx st n)) (fst (f_read (chunks f) s n)).
Proof.
  intros fx f st s n Hwf HI Hns. destruct (Inv_cur _ _ _ HI) as (Hc & Hw & Hb).
  unfold read.
  destruct (negb (has_remaining st) && (65536 <=? n)) eqn:Ed.
  - (* direct path *)
    apply andb_prop in Ed. destruct Ed as [Eh En]. unfold has_remaining in Eh.
    assert (Hex : cur st = blen st) by lia. assert (Hn : 65536 <= n) by lia.
    unfold f_read, refill. destruct (N.ltb_spec 0 (win s)); [lia|]. cbn [off win fst snd].
    unfold read_nonempty_block.
    destruct (next_nonempty (rest st) (position st)) as [[[[b p] r] np]|] eqn:E; cbn [fst snd].
    + destruct (load_some _ _ _ _ _ _ _ HI Hex E) as (pre1 & Hf & Hp & Hnp & Hd & Hwa & Hl).
      assert (Hfb : flen b <= 65536).
      { rewrite Hf in Hwf. apply wf_app in Hwf. destruct Hwf as [_ Hq].
        inversion Hq as [|? ? [_ Hb'] _]; exact Hb'. }
      rewrite Hwa. replace (N.min n (flen b)) with (flen b) by lia. split.
      * f_equal. rewrite Hf at 1. rewrite <- Hd.
        pose proof (slice_frame pre1 b r 0) as Hs.
        rewrite N.add_0_r, N.sub_0_r in Hs. rewrite Hs by lia. reflexivity.
      * subst p np. eapply Inv_ext.
        -- apply (inv_loaded f pre1 b r (flen b) (buf st)); fin; try lia.
        -- unfold f_advance. cbn [off]. lia.
        -- unfold f_advance. cbn [win]. lia.
    + destruct (load_none _ _ _ HI Hex E) as (Hr & Hwa).
      assert (Hz : (if fx then 0 else blen st) = 0).
      { destruct fx; [reflexivity|].
        destruct (N.eq_dec (blen st) 0) as [Z|NZ]; [exact Z|]. exfalso. apply Hns.
        unfold stale_direct. auto. }
      rewrite Hwa, Hz. replace (N.min n 0) with 0 by lia. rewrite slice_zero.
      split; [reflexivity|].
      eapply Inv_ext; [exact HI | unfold f_advance; cbn [off]; lia | unfold f_advance; cbn [win]; lia].
  - (* through the block buffer *)
    destruct (fill_refines f st s Hwf HI) as [Hr HI1].
    destruct (fill_buf st) as [st1 r1]. cbn [fst snd] in Hr, HI1.
    unfold f_fill in Hr, HI1. cbn [fst snd] in Hr, HI1. subst r1.
    unfold f_read. set (s1 := refill (chunks f) s) in *. cbn [fst snd].
    pose proof (Inv_bound _ _ _ HI1) as Hbd.
    assert (Hlen : len (firstn (N.to_nat n) (slice (concat (chunks f)) (off s1) (win s1))) = N.min n (win s1)).
    { rewrite firstn_slice. apply len_slice. rewrite len_concat_chunks. lia. }
    rewrite Hlen. rewrite firstn_slice. split; [reflexivity|].
    pose proof (inv_consume f st1 s1 (N.min n (win s1)) Hwf HI1) as HI2.
    eapply Inv_ext; [exact HI2 | |]; unfold f_consume, f_advance; cbn [off win]; lia.
Qed.

Lemma Inv_trailing : forall f st s, Inv f st s -> trailing_empty f -> rest st = [] -> blen st = 0.
Proof. intros f st s (pre & H). intros Ht Hr. apply H; assumption. Qed.

Definition exact_ok (fx : bool) (f : file) (n : N) : Prop :=
  fx = true \/ n < 65536 \/ trailing_empty f.

Lemma not_stale : forall fx f st s n, Inv f st s -> exact_ok fx f n -> ~ stale_direct fx st n.
Proof.
  intros fx f st s n HI [Hfx|[Hn|Ht]] (H0 & H1 & H2 & H3 & H4); [congruence|lia|].
  apply H4. eapply Inv_trailing; eassumption.
Qed.

(* ---- read_exact ----------------------------------------------------------------------- *)

Lemma loop_refines : forall fx f, wf f -> forall fuel st s rem acc,
  Inv f st s -> exact_ok fx f rem ->
  snd (default_read_exact fx fuel st rem acc) = snd (f_read_loop (chunks f) fuel s rem acc) /\
  Inv f (fst (default_read_exact fx fuel st rem acc)) (fst (f_read_loop (chunks f) fuel s rem acc)).
Proof.
  intros fx f Hwf. induction fuel as [|k IH]; intros st s rem acc HI Hok.
  - cbn [default_read_exact f_read_loop fst snd]. split; [reflexivity | exact HI].
  - cbn [default_read_exact f_read_loop].
    destruct (rem =? 0); [cbn [fst snd]; split; [reflexivity | exact HI]|].
    destruct (read_refines fx f st s rem Hwf HI (not_stale _ _ _ _ _ HI Hok)) as [Hr HI1].
    destruct (read fx st rem) as [st1 r1]. cbn [fst snd] in Hr, HI1.
    unfold f_read in *. cbn [fst snd] in *. subst r1.
    set (bs := slice (concat (chunks f)) (off (refill (chunks f) s)) (N.min rem (win (refill (chunks f) s)))) in *.
    destruct (len bs =? 0); [cbn [fst snd]; split; [reflexivity | exact HI1]|].
    apply IH; [exact HI1|]. destruct Hok as [Hfx|[Hn|Ht]]; [left; exact Hfx | right; left; lia | right; right; exact Ht].
Qed.

Lemma read_exact_std_refines : forall fx f st s n, wf f -> Inv f st s ->
  exact_ok fx f n ->
  snd (read_exact_std fx st n) = snd (f_read_exact_std (chunks f) s n) /\
  Inv f (fst (read_exact_std fx st n)) (fst (f_read_exact_std (chunks f) s n)).
Proof. intros. unfold read_exact_std, f_read_exact_std. apply loop_refines; assumption. Qed.

Lemma read_exact_refines : forall fx f st s n, wf f -> Inv f st s ->
  exact_ok fx f n ->
  snd (read_exact fx st n) = snd (f_read_exact (chunks f) s n) /\
  Inv f (fst (read_exact fx st n)) (fst (f_read_exact (chunks f) s n)).
Proof.
  intros fx f st s n Hwf HI Hok. unfold read_exact, f_read_exact.
  rewrite (as_ref_spec _ _ _ HI).
  pose proof (Inv_bound _ _ _ HI) as Hbd.
  rewrite len_slice by (rewrite len_concat_chunks; lia).
  destruct (N.leb_spec n (win s)) as [Hle|Hgt].
  - cbn [fst snd]. rewrite firstn_slice. replace (N.min n (win s)) with n by lia.
    split; [reflexivity|].
    pose proof (inv_consume f st s n Hwf HI) as HI2.
    eapply Inv_ext; [exact HI2 | |]; unfold f_consume, f_advance; cbn [off win]; lia.
  - apply read_exact_std_refines; assumption.
Qed.

(* ---- read to the end -------------------------------------------------------------------- *)

Lemma win_at_le : forall cs i, win_at cs i <= len (concat cs) - i.
Proof.
  induction cs as [|c r IH]; intros i; cbn [win_at concat].
  - lia.
  - rewrite len_app. destruct (N.ltb_spec i (len c)); [lia|]. specialize (IH (i - len c)). lia.
Qed.

Lemma win_at_zero : forall cs i, win_at cs i = 0 -> len (concat cs) <= i.
Proof.
  induction cs as [|c r IH]; intros i H; cbn [win_at concat] in *.
  - rewrite len_nil. lia.
  - rewrite len_app. destruct (N.ltb_spec i (len c)); [lia|]. specialize (IH _ H). lia.
Qed.

Lemma skipn_add : forall (A : Type) (a b : nat) (l : list A), skipn a (skipn b l) = skipn (a + b) l.
Proof.
  intros A a b. induction b as [|b IH]; intros l.
  - rewrite skipn_O. f_equal. lia.
  - destruct l as [|x l]; [rewrite !skipn_nil; reflexivity|].
    replace (a + S b)%nat with (S (a + b)) by lia. rewrite !skipn_cons. apply IH.
Qed.

Lemma slice_skipn : forall D i k,
  slice D i k ++ skipn (N.to_nat (i + k)) D = skipn (N.to_nat i) D.
Proof.
  intros. unfold slice.
  replace (N.to_nat (i + k)) with (N.to_nat k + N.to_nat i)%nat by lia.
  rewrite <- skipn_add. apply firstn_skipn.
Qed.

(* the loop of read_all on the flat reference (an auxiliary: the reference itself is the closed
   form f_read_all) *)
Fixpoint f_read_all_loop (cs : list (list N)) (fuel : nat) (s : fstate) (n : N) (acc : list N)
  : fstate * res (list N) :=
  match fuel with
  | O => (s, OutOfFuel)
  | S k =>
      match f_read cs s n with
      | (s', Ok bs) =>
          if len bs =? 0 then (s', Ok acc) else f_read_all_loop cs k s' n (acc ++ bs)
      | (s', e) => (s', e)
      end
  end.

Lemma all_loop_refines : forall fx f n, wf f -> exact_ok fx f n -> forall fuel st s acc,
  Inv f st s ->
  snd (read_all_loop fx fuel st n acc) = snd (f_read_all_loop (chunks f) fuel s n acc) /\
  Inv f (fst (read_all_loop fx fuel st n acc)) (fst (f_read_all_loop (chunks f) fuel s n acc)).
Proof.
  intros fx f n Hwf Hok. induction fuel as [|k IH]; intros st s acc HI.
  - cbn [read_all_loop f_read_all_loop fst snd]. split; [reflexivity | exact HI].
  - cbn [read_all_loop f_read_all_loop].
    destruct (read_refines fx f st s n Hwf HI (not_stale _ _ _ _ _ HI Hok)) as [Hr HI1].
    destruct (read fx st n) as [st1 r1]. cbn [fst snd] in Hr, HI1.
    unfold f_read in *. cbn [fst snd] in *. subst r1.
    set (bs := slice (concat (chunks f)) (off (refill (chunks f) s)) (N.min n (win (refill (chunks f) s)))) in *.
    destruct (len bs =? 0); [cbn [fst snd]; split; [reflexivity | exact HI1]|].
    apply IH. exact HI1.
Qed.

Lemma refill_bound : forall cs s, off s + win s <= len (concat cs) ->
  off (refill cs s) + win (refill cs s) <= len (concat cs).
Proof.
  intros cs s H. unfold refill. destruct (0 <? win s); [exact H|]. cbn [off win].
  pose proof (win_at_le cs (off s)). lia.
Qed.

Lemma f_all_loop_closed : forall cs n, 0 < n -> forall fuel s acc,
  off s + win s <= len (concat cs) ->
  (N.to_nat (len (concat cs) - off s) < fuel)%nat ->
  f_read_all_loop cs fuel s n acc
  = (mkF (len (concat cs)) 0, Ok (acc ++ skipn (N.to_nat (off s)) (concat cs))).
Proof.
  intros cs n Hn. induction fuel as [|k IH]; intros s acc Hb Hf; [lia|].
  cbn [f_read_all_loop]. unfold f_read.
  pose proof (refill_bound cs s Hb) as Hb1.
  assert (Ho1 : off (refill cs s) = off s).
  { unfold refill. destruct (0 <? win s); reflexivity. }
  set (s1 := refill cs s) in *.
  rewrite len_slice by lia.
  destruct (N.eqb_spec (N.min n (win s1)) 0) as [Ez|Enz].
  - assert (Hw1 : win s1 = 0) by lia.
    assert (Hend : off s = len (concat cs)).
    { subst s1. unfold refill in Hw1. destruct (N.ltb_spec 0 (win s)) as [Hp|Hz]; [lia|].
      cbn [win] in Hw1. apply win_at_zero in Hw1. lia. }
    rewrite Ez. unfold f_advance. rewrite Ho1, Hw1, Hend.
    replace (len (concat cs) + 0) with (len (concat cs)) by lia. replace (0 - 0) with 0 by lia.
    f_equal. f_equal. unfold len. rewrite Nat2N.id, skipn_all, app_nil_r. reflexivity.
  - rewrite IH.
    + unfold f_advance. cbn [off]. f_equal. f_equal. rewrite <- app_assoc. f_equal.
      rewrite Ho1. apply slice_skipn.
    + unfold f_advance. cbn [off win]. lia.
    + unfold f_advance. cbn [off]. lia.
Qed.

Lemma data_ahead_spec : forall st, N.of_nat (data_ahead st) = blen st + total_dlen (rest st).
Proof.
  intros st. unfold data_ahead. pose proof (len_concat_chunks (rest st)) as H.
  unfold len, chunks in H. lia.
Qed.

Lemma read_all_refines : forall fx f st s n, wf f -> Inv f st s -> exact_ok fx f n ->
  snd (read_all fx st n) = snd (f_read_all (chunks f) s n) /\
  Inv f (fst (read_all fx st n)) (fst (f_read_all (chunks f) s n)).
Proof.
  intros fx f st s n Hwf HI Hok. unfold read_all.
  pose proof (all_loop_refines fx f n Hwf Hok (S (data_ahead st)) st s [] HI) as Href.
  unfold f_read_all. destruct (N.eqb_spec n 0) as [Ez|Enz].
  - subst n. cbn [f_read_all_loop] in Href. unfold f_read in *. cbn [fst snd] in *.
    replace (N.min 0 (win (refill (chunks f) s))) with 0 in * by lia.
    rewrite slice_zero in Href. cbn [len length N.of_nat] in Href. rewrite N.eqb_refl in Href.
    cbn [fst snd] in Href. exact Href.
  - pose proof (Inv_bound _ _ _ HI) as Hbd. rewrite <- len_concat_chunks in Hbd.
    rewrite f_all_loop_closed in Href; [| lia | exact Hbd |].
    + cbn [fst snd app] in Href. replace (N.max (off s) (len (concat (chunks f)))) with (len (concat (chunks f))) by lia.
      exact Href.
    + pose proof (data_ahead_spec st) as Hda.
      destruct HI as (pre & Hf & _ & Hcur & _ & Hwin & Hoff & _).
      rewrite len_concat_chunks. rewrite Hf at 1. rewrite dsum_app. lia.
Qed.

(* ---- seek ------------------------------------------------------------------------------ *)

(* fx = false only (the pinned reader's class seek-eof-stale-block): a seek to the end-of-file
   position is covered only when the buffered block is an empty block whose end names the end
   of the data.  For the repaired reader (fx = true) there is no condition. *)
Definition seek_ok (fx : bool) (f : file) (st : state) (v : N) : Prop :=
  fx = false -> vcomp v = total_csize f ->
  blen st = 0 /\ denote f (pack (bpos st + bsize st) 0) = Some (total_dlen f).

Lemma all_empty_hdlen : forall es b r, all_empty es -> hdlen (es ++ b :: r) <= flen b.
Proof.
  intros [|e es] b r H; cbn [app hdlen]; [lia|]. inversion H; subst. lia.
Qed.

(* the state the repaired seek leaves when there is no data at or after the target *)
Lemma inv_at_eof : forall f bf, wf f ->
  Inv f (mkState [] (total_csize f) (total_csize f) 0 0 0 bf) (mkF (total_dlen f) 0).
Proof.
  intros f bf Hwf. exists f. cbn [rest position cur blen bpos bsize buf off win].
  splits; fin; try lia.
  - rewrite app_nil_r. reflexivity.
  - intros _. rewrite N.add_0_r.
    pose proof (denote_boundary f [] 0 Hwf) as H. rewrite app_nil_r, N.add_0_r in H.
    apply H; cbn [hdlen]; lia.
Qed.

Lemma win_at_end : forall f, win_at (chunks f) (total_dlen f) = 0.
Proof. intros f. pose proof (win_at_prefix f [] 0) as H. rewrite app_nil_r, N.add_0_r in H. exact H. Qed.

Lemma seek_refines : forall fx f st s v s0 l, wf f -> Inv f st s ->
  frame_start f 0 0 (vcomp v) = Some (s0, l) -> vuncomp v <= l -> seek_ok fx f st v ->
  snd (seek fx f st v) = Ok v /\
  Inv f (fst (seek fx f st v)) (f_seek (chunks f) s0 (vuncomp v)).
Proof.
  intros fx f st s v s0 l Hwf HI Hfs Hu Hok.
  destruct (frame_start_split _ _ _ _ _ _ Hfs) as (p & q & Hf & Hc & Hs0 & Hl & Hd).
  rewrite N.add_0_l in Hc, Hs0.
  unfold seek. rewrite Hd. unfold read_nonempty_block. cbn [rest position].
  destruct (next_nonempty q (vcomp v)) as [[[[b p1] r] np]|] eqn:E.
  - split; [reflexivity|]. cbn [fst].
    destruct (next_nonempty_some _ _ _ _ _ _ E) as (es & Hes & Hq & Hp1 & Hnp & Hlast).
    assert (Hub : vuncomp v <= flen b).
    { subst l q. pose proof (all_empty_hdlen es b r Hes). lia. }
    assert (Hf' : f = (p ++ es) ++ b :: r) by (rewrite Hf, Hq, app_assoc; reflexivity).
    assert (Hp1' : p1 = total_csize (p ++ es)) by (rewrite csum_app; lia).
    assert (Hnp' : np = total_csize (p ++ es) + csize b) by (rewrite csum_app; lia).
    assert (Hwl : win_at (chunks f) s0 = flen b).
    { subst s0. rewrite Hf, Hq. apply win_at_loaded; assumption. }
    destruct (fx && (flen b =? 0)) eqn:Ereset; cbn [rest position bpos bsize blen buf cur].
    + (* repaired reader, only empty frames up to the end: empty block at the new position *)
      apply andb_prop in Ereset. destruct Ereset as [Efx Ez]. subst fx.
      assert (Hz : flen b = 0) by lia. specialize (Hlast Hz). subst r.
      assert (Hnpf : np = total_csize f).
      { rewrite Hnp'. rewrite Hf'. rewrite !csum_app, csum_cons, csum_nil. lia. }
      assert (Hdf : total_dlen f = s0).
      { rewrite Hf', !dsum_app, dsum_cons, dsum_nil, (all_empty_dsum es Hes). lia. }
      replace (N.min (vuncomp v) 0) with 0 by lia. rewrite Hnpf.
      eapply Inv_ext; [apply (inv_at_eof f _ Hwf) | |]; unfold f_seek; cbn [off win]; lia.
    + replace (if fx then N.min (vuncomp v) (flen b) else vuncomp v) with (vuncomp v)
        by (destruct fx; lia).
      rewrite Hp1', Hnp'.
      eapply Inv_ext.
      * apply (inv_loaded f (p ++ es) b r (vuncomp v)); fin.
        intros _. apply buf_write_firstn.
      * unfold f_seek. cbn [off]. rewrite dsum_app, (all_empty_dsum es Hes). lia.
      * unfold f_seek. cbn [win]. lia.
  - split; [reflexivity|]. cbn [fst].
    apply next_nonempty_none in E. subst q. rewrite app_nil_r in Hf. subst p.
    cbn [hdlen] in Hl. pose proof (win_at_end f) as Hwa.
    destruct fx; cbn [andb rest position bpos bsize blen buf cur].
    + replace (N.min (vuncomp v) 0) with 0 by lia. rewrite Hc. subst s0.
      eapply Inv_ext; [apply (inv_at_eof f _ Hwf) | |]; unfold f_seek; cbn [off win]; lia.
    + destruct (Hok eq_refl Hc) as [Hb0 Hden].
      destruct HI as (pre & Hf0 & Hpos & Hcur & Hbl & Hwin & Hoff & Hb & Hload & Hex & Htr).
      exists f. unfold f_seek. cbn [rest position cur blen bpos bsize buf off win].
      subst s0. rewrite Hwa.
      splits; fin; try lia.
      * rewrite app_nil_r. reflexivity.
      * intros _. rewrite Hden. f_equal; lia.
Qed.

(* ---- gzi -------------------------------------------------------------------------------- *)

Fixpoint sel (cand : N * N) (idx : gzi_index) (p : N) : N * N :=
  match idx with
  | [] => cand
  | e :: r => if snd e <=? p then sel e r p else cand
  end.

Lemma gzi_entry_sel : forall idx p cand d,
  match partition_point (fun r => snd r <=? p) idx with O => cand | S j => nth j idx d end
  = sel cand idx p.
Proof.
  induction idx as [|e r IH]; intros p cand d; [reflexivity|].
  cbn [partition_point sel]. destruct (snd e <=? p); [|reflexivity].
  specialize (IH p e d).
  destruct (partition_point (fun r0 => snd r0 <=? p) r) as [|j]; cbn [nth]; exact IH.
Qed.

Lemma sel_frames : forall r b c d p, d <= p -> p <= d + total_dlen (b :: r) ->
  exists pre' b' post, b :: r = pre' ++ b' :: post /\
    sel (c, d) (gzi_entries r (c + csize b) (d + flen b)) p
      = (c + total_csize pre', d + total_dlen pre') /\
    d + total_dlen pre' <= p /\
    (p < d + total_dlen pre' + flen b' \/ (post = [] /\ p = d + total_dlen pre' + flen b')).
Proof.
  induction r as [|b1 r1 IH]; intros b c d p Hlo Hhi.
  - exists [], b, []. cbn [gzi_entries sel app]. rewrite dsum_cons, dsum_nil in Hhi.
    rewrite csum_nil, dsum_nil. splits; fin; try (f_equal; lia).
    destruct (N.eq_dec p (d + flen b)); [right; split; [reflexivity | lia] | left; lia].
  - cbn [gzi_entries sel snd].
    destruct (N.leb_spec (d + flen b) p) as [Hge|Hlt].
    + rewrite (dsum_cons b) in Hhi.
      destruct (IH b1 (c + csize b) (d + flen b) p Hge ltac:(lia)) as (pre' & b' & post & He & Hs & H1 & H2).
      exists (b :: pre'), b', post. rewrite He, Hs, csum_cons, dsum_cons. cbn [app].
      splits; fin; try (f_equal; lia). destruct H2 as [H2|[H2 H3]]; [left; lia | right; split; [exact H2 | lia]].
    + exists [], b, (b1 :: r1). rewrite csum_nil, dsum_nil. cbn [app].
      splits; fin; try (f_equal; lia).
Qed.

Lemma gzi_query_spec : forall f p, wf f -> total_csize f <= MAX_COMPRESSED_POSITION ->
  p <= total_dlen f ->
  (p = total_dlen f -> forall q b, f = q ++ [b] -> flen b < 65536) ->
  exists v s0 l, gzi_query (gzi_of f) p = Ok v /\
     frame_start f 0 0 (vcomp v) = Some (s0, l) /\ vuncomp v <= l /\ s0 + vuncomp v = p /\
     win_at (chunks f) s0 - vuncomp v = win_at (chunks f) p /\
     (vcomp v = total_csize f -> f = []).
Proof.
  intros f p Hwf Hmax Hp Hlast. destruct f as [|b r].
  - rewrite dsum_nil in Hp. assert (p = 0) by lia. subst p.
    exists (pack 0 0), 0, 0. unfold gzi_query, gzi_entry, gzi_of. cbn [partition_point].
    rewrite N.sub_0_r. change (65536 <=? 0) with false. cbv iota.
    unfold vpos_try_from. change (0 <=? MAX_COMPRESSED_POSITION) with true. cbv iota.
    rewrite vcomp_pack, vuncomp_pack by lia. cbn [frame_start]. rewrite N.eqb_refl.
    splits; fin; try lia.
  - unfold gzi_query, gzi_entry. rewrite gzi_entry_sel. unfold gzi_of.
    destruct (sel_frames r b 0 0 p ltac:(lia) ltac:(lia)) as (pre' & b' & post & He & Hs & H1 & H2).
    rewrite !N.add_0_l in *. rewrite Hs.
    assert (Hwf' : wf pre' /\ wf (b' :: post)) by (rewrite He in Hwf; apply wf_app in Hwf; exact Hwf).
    destruct Hwf' as [Hwp Hwq].
    assert (Hb' : 0 < csize b' /\ flen b' <= 65536) by (inversion Hwq; assumption).
    set (dd := p - total_dlen pre').
    assert (Hdd : dd <= flen b' /\ dd < 65536).
    { subst dd. destruct H2 as [H2|[H2 H3]]; [lia|].
      subst post. specialize (Hlast ltac:(rewrite He, dsum_app, dsum_cons, dsum_nil; lia) pre' b' He). lia. }
    destruct (N.leb_spec 65536 dd); [lia|].
    unfold vpos_try_from.
    assert (Hc : total_csize pre' <= MAX_COMPRESSED_POSITION).
    { rewrite He, csum_app in Hmax. lia. }
    destruct (N.leb_spec (total_csize pre') MAX_COMPRESSED_POSITION); [|lia].
    exists (pack (total_csize pre') dd), (total_dlen pre'), (flen b').
    rewrite vcomp_pack, vuncomp_pack by lia.
    pose proof (frame_start_prefix pre' (b' :: post) 0 0 Hwp) as Hfs.
    rewrite !N.add_0_l in Hfs. rewrite <- He in Hfs. cbn [hdlen] in Hfs.
    splits; fin; try (subst dd; lia).
    + rewrite He. replace p with (total_dlen pre' + dd) by (subst dd; lia).
      replace (total_dlen pre') with (total_dlen pre' + 0) at 1 by lia.
      rewrite !win_at_prefix.
      destruct (N.eq_dec dd (flen b')) as [Ee|Ne].
      * destruct H2 as [H2|[H2 H3]]; [subst dd; lia|]. subst post.
        destruct (N.eq_dec (flen b') 0) as [Z|NZ].
        -- rewrite Ee, Z. lia.
        -- rewrite win_at_head by lia. unfold chunks. cbn [map win_at]. fold (flen b').
           destruct (N.ltb_spec dd (flen b')); lia.
      * rewrite !win_at_head by lia. lia.
    + intros Hcc. exfalso. rewrite He, csum_app, csum_cons in Hcc. lia.
Qed.

Definition seeku_ok (f : file) (p : N) : Prop :=
  p <= total_dlen f /\ (p = total_dlen f -> forall q b, f = q ++ [b] -> flen b < 65536).

Lemma trailing_empty_nil : trailing_empty [].
Proof. intros p b H. destruct p; discriminate. Qed.

Lemma seeku_refines : forall fx f st s p, wf f -> total_csize f <= MAX_COMPRESSED_POSITION ->
  Inv f st s -> seeku_ok f p ->
  snd (seek_by_uncompressed_position fx f (gzi_of f) st p) = Ok p /\
  Inv f (fst (seek_by_uncompressed_position fx f (gzi_of f) st p)) (f_seek_flat (chunks f) p).
Proof.
  intros fx f st s p Hwf Hmax HI [Hp Hlast].
  destruct (gzi_query_spec f p Hwf Hmax Hp Hlast) as (v & s0 & l & Hq & Hfs & Hu & Hsum & Hwa & Heof).
  unfold seek_by_uncompressed_position. rewrite Hq.
  assert (Hok : seek_ok fx f st v).
  { intros _ Hc. specialize (Heof Hc). subst f.
    destruct HI as (pre & Hf0 & _ & _ & _ & _ & _ & Hb & _ & _ & Htr).
    symmetry in Hf0. apply app_eq_nil in Hf0. destruct Hf0 as [_ Hr].
    rewrite csum_nil in Hb. split; [apply Htr; [apply trailing_empty_nil | exact Hr]|].
    replace (bpos st + bsize st) with 0 by lia.
    unfold denote. rewrite vcomp_pack, vuncomp_pack by lia. reflexivity. }
  destruct (seek_refines fx f st s v s0 l Hwf HI Hfs Hu Hok) as [Hr HI'].
  destruct (seek fx f st v) as [st' r]. cbn [fst snd] in *. subst r. cbn [fst snd].
  split; [reflexivity|].
  eapply Inv_ext; [exact HI' | |]; unfold f_seek, f_seek_flat; cbn [off win]; lia.
Qed.

(* ---- what the reader tells -------------------------------------------------------------- *)

Lemma vpos_denote : forall f st s, wf f -> total_csize f <= MAX_COMPRESSED_POSITION -> Inv f st s ->
  exists v, virtual_position st = Ok v /\ denote f v = Some (off s).
Proof.
  intros f st s Hwf Hmax (pre & Hf & Hpos & Hcur & Hbl & Hwin & Hoff & Hb & Hload & Hex & Htr).
  unfold virtual_position, has_remaining.
  destruct (N.ltb_spec (cur st) (blen st)) as [Hlt|Hge].
  - destruct (Hload Hlt) as (pre0 & b & Hpre & Hbp & Hbs & Hbl' & Hbuf).
    assert (Hf' : f = pre0 ++ b :: rest st) by (rewrite Hf, Hpre, <- app_assoc; reflexivity).
    assert (Hwp : wf pre0) by (rewrite Hf' in Hwf; apply wf_app in Hwf; tauto).
    assert (Hc : bpos st <= MAX_COMPRESSED_POSITION).
    { rewrite Hf', csum_app in Hmax. lia. }
    unfold MAX_UNCOMPRESSED_POSITION.
    destruct (N.leb_spec (bpos st) MAX_COMPRESSED_POSITION); [|lia].
    destruct (N.leb_spec (cur st) 65535); [|lia]. cbn [andb].
    exists (pack (bpos st) (cur st)). split; [reflexivity|].
    rewrite Hbp, Hf'. rewrite denote_boundary by (try exact Hwp; cbn [hdlen]; lia).
    f_equal. rewrite Hpre, dsum_app, dsum_cons, dsum_nil in Hoff. lia.
  - destruct (N.leb_spec (bpos st + bsize st) MAX_COMPRESSED_POSITION); [|lia].
    exists (pack (bpos st + bsize st) 0). split; [reflexivity|]. apply Hex. lia.
Qed.

(* ---- one step, whole histories ------------------------------------------------------------ *)

Definition op_ok (fx : bool) (f : file) (st : state) (o : op) : Prop :=
  match o with
  | Read n => ~ stale_direct fx st n
  | ReadExact n | ReadExactStd n => exact_ok fx f n
  | FillBuf | Consume _ => True
  | Seek v => (exists j, denote f v = Some j) /\ seek_ok fx f st v
  | SeekU p => seeku_ok f p
  | ReadAll n => exact_ok fx f n
  end.

Lemma step_refines : forall fx f st s o, wf f -> total_csize f <= MAX_COMPRESSED_POSITION ->
  Inv f st s -> op_ok fx f st o ->
  exists s' fo, fstep f s o = Some (s', fo) /\
    out_eq (snd (step fx f (gzi_of f) st o)) fo /\ Inv f (fst (step fx f (gzi_of f) st o)) s'.
Proof.
  intros fx f st s o Hwf Hmax HI Hok. destruct o as [n|n|n| |n|v|p|n]; cbn [op_ok] in Hok; cbn [step fstep].
  - destruct (read_refines fx f st s n Hwf HI Hok) as [Hr HI'].
    destruct (read fx st n) as [st' r]. destruct (f_read (chunks f) s n) as [s' fr]. cbn [fst snd] in *.
    exists s', (FBytes fr). splits; fin.
  - destruct (read_exact_refines fx f st s n Hwf HI Hok) as [Hr HI'].
    destruct (read_exact fx st n) as [st' r]. destruct (f_read_exact (chunks f) s n) as [s' fr]. cbn [fst snd] in *.
    exists s', (FBytes fr). splits; fin.
  - destruct (read_exact_std_refines fx f st s n Hwf HI Hok) as [Hr HI'].
    destruct (read_exact_std fx st n) as [st' r]. destruct (f_read_exact_std (chunks f) s n) as [s' fr]. cbn [fst snd] in *.
    exists s', (FBytes fr). splits; fin.
  - destruct (fill_refines f st s Hwf HI) as [Hr HI'].
    destruct (fill_buf st) as [st' r]. destruct (f_fill (chunks f) s) as [s' fr]. cbn [fst snd] in *.
    exists s', (FBytes fr). splits; fin.
  - exists (f_consume s n), FUnit. cbn [fst snd out_eq]. splits; fin. apply inv_consume; assumption.
  - destruct Hok as [[j Hj] Hsk]. unfold denote in Hj.
    destruct (frame_start f 0 0 (vcomp v)) as [[s0 l]|] eqn:Hfs; [|discriminate].
    destruct (N.leb_spec (vuncomp v) l) as [Hu|]; [|discriminate].
    destruct (seek_refines fx f st s v s0 l Hwf HI Hfs Hu Hsk) as [Hr HI'].
    destruct (seek fx f st v) as [st' r]. cbn [fst snd] in *.
    exists (f_seek (chunks f) s0 (vuncomp v)), (FPos (Ok v)). splits; fin.
  - destruct (seeku_refines fx f st s p Hwf Hmax HI Hok) as [Hr HI'].
    destruct (seek_by_uncompressed_position fx f (gzi_of f) st p) as [st' r]. cbn [fst snd] in *.
    destruct Hok as [Hp _]. destruct (N.leb_spec p (total_dlen f)); [|lia].
    exists (f_seek_flat (chunks f) p), (FPos (Ok p)). splits; fin.
  - destruct (read_all_refines fx f st s n Hwf HI Hok) as [Hr HI'].
    destruct (read_all fx st n) as [st' r]. destruct (f_read_all (chunks f) s n) as [s' fr]. cbn [fst snd] in *.
    exists s', (FBytes fr). splits; fin.
Qed.

(* the flat reference run: per op its result and the flat offset afterwards *)
Fixpoint frun (f : file) (s : fstate) (ops : list op) : option (list (fout * N)) :=
  match ops with
  | [] => Some []
  | o :: r =>
      match fstep f s o with
      | None => None
      | Some (s', x) =>
          match frun f s' r with
          | None => None
          | Some l => Some ((x, off s') :: l)
          end
      end
  end.

(* every op of the history is outside the two known classes and every seek is valid *)
Fixpoint ops_ok (fx : bool) (f : file) (idx : gzi_index) (st : state) (ops : list op) : Prop :=
  match ops with
  | [] => True
  | o :: r => op_ok fx f st o /\ ops_ok fx f idx (fst (step fx f idx st o)) r
  end.

Definition agrees (f : file) (x : out * res N) (y : fout * N) : Prop :=
  out_eq (fst x) (fst y) /\ exists v, snd x = Ok v /\ denote f v = Some (snd y).

Lemma run_refines : forall fx f, wf f -> total_csize f <= MAX_COMPRESSED_POSITION ->
  forall ops st s, Inv f st s -> ops_ok fx f (gzi_of f) st ops ->
  exists fl, frun f s ops = Some fl /\ Forall2 (agrees f) (run fx f (gzi_of f) st ops) fl.
Proof.
  intros fx f Hwf Hmax. induction ops as [|o r IH]; intros st s HI Hok.
  - exists []. split; [reflexivity | constructor].
  - destruct Hok as [Ho Hr].
    destruct (step_refines fx f st s o Hwf Hmax HI Ho) as (s' & fo & Hfs & Heq & HI').
    cbn [run frun]. rewrite Hfs.
    destruct (step fx f (gzi_of f) st o) as [st' x] eqn:Es. cbn [fst snd] in *.
    destruct (IH st' s' HI' Hr) as (fl & Hfl & Hall). rewrite Hfl.
    exists ((fo, off s') :: fl). split; [reflexivity|]. constructor; [|exact Hall].
    split; [exact Heq|]. cbn [fst snd]. apply vpos_denote; assumption.
Qed.

Theorem reader_refines_flat : forall fx f ops, wf f -> total_csize f <= MAX_COMPRESSED_POSITION ->
  ops_ok fx f (gzi_of f) (init f) ops ->
  exists fl, frun f (mkF 0 0) ops = Some fl /\
             Forall2 (agrees f) (run fx f (gzi_of f) (init f) ops) fl.
Proof.
  intros fx f ops Hwf Hmax Hok. apply (run_refines fx f Hwf Hmax ops (init f) (mkF 0 0)); [|exact Hok].
  apply inv_init. exact Hwf.
Qed.

(* ---- gzi lands on the byte ------------------------------------------------------------- *)

Theorem gzi_lands : forall f p, wf f -> total_csize f <= MAX_COMPRESSED_POSITION ->
  seeku_ok f p ->
  exists v, gzi_query (gzi_of f) p = Ok v /\ denote f v = Some p.
Proof.
  intros f p Hwf Hmax [Hp Hlast].
  destruct (gzi_query_spec f p Hwf Hmax Hp Hlast) as (v & s0 & l & Hq & Hfs & Hu & Hsum & _).
  exists v. split; [exact Hq|]. unfold denote. rewrite Hfs.
  destruct (N.leb_spec (vuncomp v) l); [f_equal; exact Hsum | lia].
Qed.

(* ---- the flat reference hands out the stream, in order ---------------------------------- *)

Lemma refill_off : forall cs s, off (refill cs s) = off s.
Proof. intros. unfold refill. destruct (0 <? win s); reflexivity. Qed.

Lemma f_read_shape : forall cs s n,
  exists k, k <= n /\ snd (f_read cs s n) = Ok (slice (concat cs) (off s) k) /\
            off (fst (f_read cs s n)) = off s + k.
Proof.
  intros. unfold f_read. cbn [fst snd]. exists (N.min n (win (refill cs s))).
  rewrite refill_off. unfold f_advance. cbn [off]. rewrite refill_off. splits; fin; lia.
Qed.

Lemma f_loop_mono : forall cs fuel s rem acc, off s <= off (fst (f_read_loop cs fuel s rem acc)).
Proof.
  induction fuel as [|k IH]; intros s rem acc; cbn [f_read_loop fst]; [lia|].
  destruct (rem =? 0); [cbn [fst]; lia|].
  destruct (f_read_shape cs s rem) as (k0 & _ & Hs & Ho).
  destruct (f_read cs s rem) as [s1 r1]. cbn [fst snd] in *. subst r1.
  destruct (len _ =? 0); [cbn [fst]; lia|].
  eapply N.le_trans; [|apply IH]. lia.
Qed.

Definition is_seek (o : op) : bool :=
  match o with Seek _ | SeekU _ => true | _ => false end.

Lemma fstep_mono : forall f s o s' x, is_seek o = false -> fstep f s o = Some (s', x) -> off s <= off s'.
Proof.
  intros f s o s' x Hns H. destruct o as [n|n|n| |n|v|p|n]; try discriminate; cbn [fstep] in H.
  - destruct (f_read_shape (chunks f) s n) as (k & _ & _ & Ho).
    destruct (f_read (chunks f) s n) as [s1 r1]. inversion H; subst. cbn [fst] in Ho. lia.
  - unfold f_read_exact in H. destruct (n <=? win s).
    + inversion H; subst. unfold f_advance. cbn [off]. lia.
    + pose proof (f_loop_mono (chunks f) (S (N.to_nat n)) s n []) as Hm.
      unfold f_read_exact_std in H.
      destruct (f_read_loop (chunks f) (S (N.to_nat n)) s n []) as [s1 r1]. inversion H; subst. exact Hm.
  - pose proof (f_loop_mono (chunks f) (S (N.to_nat n)) s n []) as Hm.
    unfold f_read_exact_std in H.
    destruct (f_read_loop (chunks f) (S (N.to_nat n)) s n []) as [s1 r1]. inversion H; subst. exact Hm.
  - unfold f_fill in H. inversion H; subst. rewrite refill_off. lia.
  - inversion H; subst. unfold f_consume, f_advance. cbn [off]. lia.
  - unfold f_read_all in H. destruct (n =? 0).
    + injection H as Hs' _. rewrite <- Hs'. unfold f_advance. cbn [off]. rewrite refill_off. lia.
    + injection H as Hs' _. rewrite <- Hs'. cbn [off]. lia.
Qed.

Fixpoint nondecr (start : N) (l : list N) : Prop :=
  match l with [] => True | x :: r => start <= x /\ nondecr x r end.

Lemma frun_mono : forall f ops s fl, forallb (fun o => negb (is_seek o)) ops = true ->
  frun f s ops = Some fl -> nondecr (off s) (map snd fl).
Proof.
  induction ops as [|o r IH]; intros s fl Hns H; cbn [frun] in H.
  - inversion H; subst. exact I.
  - cbn [forallb] in Hns. apply andb_prop in Hns. destruct Hns as [Ho Hr].
    destruct (fstep f s o) as [[s' x]|] eqn:E; [|discriminate].
    destruct (frun f s' r) as [l|] eqn:E2; [|discriminate]. inversion H; subst.
    cbn [map snd nondecr]. split; [|apply IH; assumption].
    eapply fstep_mono; [|exact E]. destruct (is_seek o); [discriminate | reflexivity].
Qed.

(* ---- the repaired reader: no exclusions --------------------------------------------------- *)

(* every seek of the history names a byte boundary (resp. an offset the index can express) *)
Definition ops_valid (f : file) (ops : list op) : Prop :=
  Forall (fun o => match o with
                   | Seek v => exists j, denote f v = Some j
                   | SeekU p => seeku_ok f p
                   | _ => True end) ops.

Lemma ops_valid_ok : forall f ops st, ops_valid f ops -> ops_ok true f (gzi_of f) st ops.
Proof.
  intros f. induction ops as [|o r IH]; intros st Hv; [exact I|].
  inversion Hv as [|? ? Ho Hr]; subst. cbn [ops_ok]. split; [|apply IH; exact Hr].
  destruct o as [n|n|n| |n|v|p|n]; cbn [op_ok]; try exact I.
  - intros (H & _). discriminate.
  - left. reflexivity.
  - left. reflexivity.
  - split; [exact Ho|]. intros H. discriminate.
  - exact Ho.
  - left. reflexivity.
Qed.

Theorem reader_refines_flat_repaired : forall f ops,
  wf f -> total_csize f <= MAX_COMPRESSED_POSITION -> ops_valid f ops ->
  exists fl, frun f (mkF 0 0) ops = Some fl /\
             Forall2 (agrees f) (run true f (gzi_of f) (init f) ops) fl.
Proof.
  intros f ops Hwf Hmax Hv. apply reader_refines_flat; try assumption. apply ops_valid_ok. exact Hv.
Qed.

Theorem tell_monotone_flat : forall f ops,
  wf f -> total_csize f <= MAX_COMPRESSED_POSITION -> ops_valid f ops ->
  forallb (fun o => negb (is_seek o)) ops = true ->
  exists fl, Forall2 (agrees f) (run true f (gzi_of f) (init f) ops) fl /\ nondecr 0 (map snd fl).
Proof.
  intros f ops Hwf Hmax Hok Hns.
  destruct (reader_refines_flat_repaired f ops Hwf Hmax Hok) as (fl & Hfl & Hall).
  exists fl. split; [exact Hall|]. apply (frun_mono f ops (mkF 0 0) fl Hns Hfl).
Qed.

Theorem flat_seek_then_read : forall f s v j s1 x n,
  fstep f s (Seek v) = Some (s1, x) -> denote f v = Some j ->
  off s1 = j /\
  exists k, k <= n /\ snd (f_read (chunks f) s1 n) = Ok (slice (concat (chunks f)) j k).
Proof.
  intros f s v j s1 x n Hs Hd. cbn [fstep] in Hs. unfold denote in Hd.
  destruct (frame_start f 0 0 (vcomp v)) as [[s0 l]|]; [|discriminate].
  destruct (vuncomp v <=? l); [|discriminate]. inversion Hs; subst. inversion Hd; subst.
  split; [reflexivity|].
  destruct (f_read_shape (chunks f) (f_seek (chunks f) s0 (vuncomp v)) n) as (k & Hk & Hr & _).
  exists k. split; [exact Hk | exact Hr].
Qed.

(* ---- the reader as it was before the repair (fx = false): witnesses of the two classes ---- *)

Definition wit_file : file := [mkFrame 33 [104; 101; 108; 108; 111]; mkFrame 28 []].
Definition wit_noeof : file := [mkFrame 33 [104; 101; 108; 108; 111]].

(* seek-eof-stale-block: read "hello", seek to (61,0) = end of file, read again -> "hello" again *)
Lemma seek_eof_stale_witness :
  run false wit_file (gzi_of wit_file) (init wit_file) [Read 5; Seek (pack 61 0); Read 5]
  = [ (OBytes (Ok [104; 101; 108; 108; 111]), Ok (pack 33 0));
      (OPos (Ok (pack 61 0)), Ok (pack 0 0));
      (OBytes (Ok [104; 101; 108; 108; 111]), Ok (pack 33 0)) ].
Proof. vm_compute. reflexivity. Qed.

(* direct-read-at-eof-stale-len: without EOF marker, a 64 KiB read at the end reports 5 bytes *)
Lemma direct_read_stale_witness :
  run false wit_noeof (gzi_of wit_noeof) (init wit_noeof) [Read 65536; Read 65536]
  = [ (OBytes (Ok [104; 101; 108; 108; 111]), Ok (pack 33 0));
      (OBytes (Ok [170; 170; 170; 170; 170]), Ok (pack 33 0)) ].
Proof. vm_compute. reflexivity. Qed.

(* the same histories on the repaired reader *)
Lemma repaired_witnesses :
  run true wit_file (gzi_of wit_file) (init wit_file) [Read 5; Seek (pack 61 0); Read 5]
  = [ (OBytes (Ok [104; 101; 108; 108; 111]), Ok (pack 33 0));
      (OPos (Ok (pack 61 0)), Ok (pack 61 0));
      (OBytes (Ok []), Ok (pack 61 0)) ] /\
  run true wit_noeof (gzi_of wit_noeof) (init wit_noeof) [Read 65536; Read 65536]
  = [ (OBytes (Ok [104; 101; 108; 108; 111]), Ok (pack 33 0));
      (OBytes (Ok []), Ok (pack 33 0)) ].
Proof. split; vm_compute; reflexivity. Qed.

Definition old_full_statement : Prop := forall f ops,
  wf f -> total_csize f <= MAX_COMPRESSED_POSITION -> ops_valid f ops ->
  exists fl, frun f (mkF 0 0) ops = Some fl /\
             Forall2 (agrees f) (run false f (gzi_of f) (init f) ops) fl.

Lemma wf_wit : wf wit_file.
Proof. repeat constructor; vm_compute; congruence. Qed.

Theorem old_full_statement_refuted : ~ old_full_statement.
Proof.
  intros H.
  destruct (H wit_file [Read 5; Seek (pack 61 0); Read 5] wf_wit) as (fl & Hfl & Hall).
  - vm_compute. congruence.
  - repeat constructor. exists 5. vm_compute. reflexivity.
  - rewrite seek_eof_stale_witness in Hall. vm_compute in Hfl. inversion Hfl; subst fl. clear Hfl.
    inversion Hall as [|? ? ? ? _ Hall1]; subst. inversion Hall1 as [|? ? ? ? Hag _]; subst.
    destruct Hag as [_ (v & Hv & Hden)]. cbn [snd] in Hv, Hden. inversion Hv; subst v.
    vm_compute in Hden. discriminate.
Qed.

Lemma example_valid :
  wf wit_file /\ total_csize wit_file <= MAX_COMPRESSED_POSITION /\
  ops_valid wit_file
         [Read 3; Seek (pack 0 5); FillBuf; Seek (pack 61 0); Read 70000; SeekU 2; ReadExact 3; Read 70000].
Proof.
  split; [exact wf_wit|]. split; [vm_compute; congruence|].
  unfold ops_valid, seeku_ok. repeat constructor;
    try (exists 5; vm_compute; reflexivity);
    try (vm_compute; intros H; discriminate H);
    try (intros H; vm_compute in H; discriminate).
Qed.
