(* Proofs about NV.Bgzf.ReaderOps against the flat reference NV.Bgzf.FlatRef. *)
From Coq Require Import List NArith PeanoNat Lia Bool ZifyBool ZifyNat ZifyN.
From NV Require Import Bgzf.Vpos Bgzf.VposProofs Bgzf.Gzi Bgzf.ReaderOps Bgzf.FlatRef.
Import ListNotations.
Open Scope N_scope.
Arguments N.add : simpl never.
Arguments N.sub : simpl never.
Arguments N.mul : simpl never.
Arguments N.min : simpl never.
Arguments N.ltb : simpl never.
Arguments N.leb : simpl never.
Arguments N.eqb : simpl never.
Arguments N.to_nat : simpl never.
Arguments N.of_nat : simpl never.
Arguments firstn : simpl never.
Arguments skipn : simpl never.
Arguments pack : simpl never.

(* ---- lists and lengths ---------------------------------------------------------------- *)

Lemma len_nil : forall A, @len A [] = 0.
Proof. reflexivity. Qed.

Lemma len_cons : forall A (x : A) l, len (x :: l) = 1 + len l.
Proof. intros. unfold len. cbn [length]. lia. Qed.

Lemma len_app : forall A (a b : list A), len (a ++ b) = len a + len b.
Proof. intros. unfold len. rewrite app_length. lia. Qed.

Lemma csum_app : forall a b, total_csize (a ++ b) = total_csize a + total_csize b.
Proof. unfold total_csize. induction a as [|x a IH]; intros b; cbn [app fold_right]; [lia|]. rewrite IH. lia. Qed.

Lemma dsum_app : forall a b, total_dlen (a ++ b) = total_dlen a + total_dlen b.
Proof. unfold total_dlen. induction a as [|x a IH]; intros b; cbn [app fold_right]; [lia|]. rewrite IH. lia. Qed.

Lemma csum_cons : forall b r, total_csize (b :: r) = csize b + total_csize r.
Proof. reflexivity. Qed.
Lemma dsum_cons : forall b r, total_dlen (b :: r) = flen b + total_dlen r.
Proof. reflexivity. Qed.
Lemma csum_nil : total_csize [] = 0. Proof. reflexivity. Qed.
Lemma dsum_nil : total_dlen [] = 0. Proof. reflexivity. Qed.

Lemma chunks_app : forall a b, chunks (a ++ b) = chunks a ++ chunks b.
Proof. intros. unfold chunks. apply map_app. Qed.

Lemma len_concat_chunks : forall f, len (concat (chunks f)) = total_dlen f.
Proof.
  induction f as [|b f IH]; [reflexivity|].
  unfold chunks in *. cbn [map concat]. rewrite len_app, IH, dsum_cons. reflexivity.
Qed.

Definition all_empty (es : list frame) : Prop := Forall (fun b => flen b = 0) es.
Definition wf (f : file) : Prop := Forall (fun b => 0 < csize b /\ flen b <= 65536) f.
(* the file is empty or its last frame holds no data (e.g. the EOF marker) *)
Definition trailing_empty (f : file) : Prop := forall p b, f = p ++ [b] -> flen b = 0.

Lemma wf_app : forall a b, wf (a ++ b) <-> wf a /\ wf b.
Proof. intros. unfold wf. apply Forall_app. Qed.

Lemma all_empty_dsum : forall es, all_empty es -> total_dlen es = 0.
Proof. induction 1 as [|b es Hb _ IH]; [reflexivity|]. rewrite dsum_cons. lia. Qed.

Lemma flen_nil_data : forall b, flen b = 0 -> fdata b = [].
Proof. intros b H. unfold flen, len in H. destruct (fdata b); [reflexivity|cbn [length] in H; lia]. Qed.

Lemma all_empty_concat : forall es, all_empty es -> concat (chunks es) = [].
Proof.
  induction 1 as [|b es Hb _ IH]; [reflexivity|].
  unfold chunks in *. cbn [map concat]. rewrite IH, (flen_nil_data b Hb). reflexivity.
Qed.

(* ---- slices --------------------------------------------------------------------------- *)

Lemma slice_app_skip : forall (a b : list N) i n,
  slice (a ++ b) (len a + i) n = slice b i n.
Proof.
  intros. unfold slice. f_equal.
  replace (N.to_nat (len a + i)) with (length a + N.to_nat i)%nat by (unfold len; lia).
  rewrite skipn_app. rewrite skipn_all2 by lia.
  replace (length a + N.to_nat i - length a)%nat with (N.to_nat i) by lia. reflexivity.
Qed.

Lemma slice_head : forall (a b : list N) c,
  c <= len a -> slice (a ++ b) c (len a - c) = skipn (N.to_nat c) a.
Proof.
  intros a b c Hc. unfold slice. unfold len in *.
  rewrite skipn_app.
  rewrite firstn_app. rewrite skipn_length.
  replace (N.to_nat (N.of_nat (length a) - c) - (length a - N.to_nat c))%nat with O by lia.
  rewrite firstn_O, app_nil_r. apply firstn_all2. rewrite skipn_length. lia.
Qed.

Lemma slice_zero : forall D i, slice D i 0 = [].
Proof. intros. unfold slice. change (N.to_nat 0) with O. apply firstn_O. Qed.

Lemma len_slice : forall D i n, i + n <= len D -> len (slice D i n) = n.
Proof.
  intros D i n H. unfold slice, len in *. rewrite firstn_length, skipn_length. lia.
Qed.

Lemma firstn_slice : forall D i n m, firstn (N.to_nat m) (slice D i n) = slice D i (N.min m n).
Proof.
  intros. unfold slice. rewrite firstn_firstn. f_equal; lia.
Qed.

(* data of frame b inside the file *)
Lemma slice_frame : forall p b q c, c <= flen b ->
  slice (concat (chunks (p ++ b :: q))) (total_dlen p + c) (flen b - c) = skipn (N.to_nat c) (fdata b).
Proof.
  intros p b q c Hc. rewrite chunks_app, concat_app.
  rewrite <- len_concat_chunks, slice_app_skip.
  unfold chunks. cbn [map concat]. apply slice_head. exact Hc.
Qed.

(* ---- the block buffer ----------------------------------------------------------------- *)

Lemma buf_write_firstn : forall bf d, firstn (length d) (buf_write bf d) = d.
Proof.
  intros. unfold buf_write. rewrite firstn_app, Nat.sub_diag, firstn_O, app_nil_r.
  apply firstn_all2. lia.
Qed.

Lemma buf_slice_loaded : forall bf d c, firstn (length d) bf = d -> c <= len d ->
  buf_slice bf c (len d) = skipn (N.to_nat c) d.
Proof.
  intros bf d c Hf Hc. unfold buf_slice, len in *.
  assert (Hl : (length d <= length bf)%nat).
  { rewrite <- Hf at 1. rewrite firstn_length. lia. }
  rewrite firstn_app, skipn_length.
  replace (N.to_nat (N.of_nat (length d) - c) - (length bf - N.to_nat c))%nat with O by lia.
  rewrite firstn_O, app_nil_r.
  rewrite <- Hf at 2.
  replace (N.to_nat (N.of_nat (length d) - c)) with (length d - N.to_nat c)%nat by lia.
  symmetry. apply skipn_firstn_comm.
Qed.

Lemma buf_slice_empty : forall bf c, buf_slice bf c c = [].
Proof. intros. unfold buf_slice. rewrite N.sub_diag. change (N.to_nat 0) with O. apply firstn_O. Qed.

Ltac splits := repeat match goal with |- _ /\ _ => split end.
Ltac fin := first [ reflexivity | assumption | constructor; fail
                  | rewrite ?csum_nil, ?dsum_nil, ?csum_cons, ?dsum_cons in *; lia | idtac ].

(* ---- frames: loading, naming, windows --------------------------------------------------- *)

Lemma next_nonempty_none : forall fs p, next_nonempty fs p = None -> fs = [].
Proof.
  intros [|b r] p H; [reflexivity|]. cbn [next_nonempty] in H.
  destruct (0 <? flen b); [discriminate|].
  destruct (next_nonempty r (p + csize b)) as [[[[? ?] ?] ?]|]; discriminate.
Qed.

Lemma next_nonempty_some : forall fs p b q r np,
  next_nonempty fs p = Some (b, q, r, np) ->
  exists es, all_empty es /\ fs = es ++ b :: r /\ q = p + total_csize es /\
             np = q + csize b /\ (flen b = 0 -> r = []).
Proof.
  induction fs as [|b0 r0 IH]; intros p b q r np H; [discriminate|].
  cbn [next_nonempty] in H.
  destruct (N.ltb_spec 0 (flen b0)) as [Hpos|Hz].
  - inversion H; subst. exists []. splits; fin.
  - destruct (next_nonempty r0 (p + csize b0)) as [[[[b1 q1] r1] np1]|] eqn:E.
    + inversion H; subst. destruct (IH _ _ _ _ _ E) as (es & Hes & Hfs & Hq & Hnp & Hl).
      exists (b0 :: es). splits; fin.
      * constructor; [lia | exact Hes].
      * rewrite Hfs. reflexivity.
    + inversion H; subst. apply next_nonempty_none in E. subst.
      exists []. splits; fin.
Qed.

Definition hdlen (q : list frame) : N := match q with [] => 0 | b :: _ => flen b end.

Lemma frame_start_prefix : forall p q ca da, wf p ->
  frame_start (p ++ q) ca da (ca + total_csize p) = Some (da + total_dlen p, hdlen q).
Proof.
  induction p as [|a p IH]; intros q ca da Hwf.
  - rewrite csum_nil, dsum_nil, !N.add_0_r. cbn [app].
    destruct q as [|b r]; cbn [frame_start hdlen]; rewrite N.eqb_refl; reflexivity.
  - inversion Hwf as [|? ? [Ha _] Hp]; subst.
    cbn [app frame_start]. rewrite csum_cons, dsum_cons.
    destruct (N.eqb_spec (ca + (csize a + total_csize p)) ca) as [E|_]; [lia|].
    replace (ca + (csize a + total_csize p)) with ((ca + csize a) + total_csize p) by lia.
    rewrite IH by exact Hp. f_equal. f_equal; lia.
Qed.

Lemma frame_start_ge : forall fs ca da c r, frame_start fs ca da c = Some r -> ca <= c.
Proof.
  induction fs as [|b fs IH]; intros ca da c r H; cbn [frame_start] in H.
  - destruct (N.eqb_spec c ca); [lia | discriminate].
  - destruct (N.eqb_spec c ca); [lia|]. apply IH in H. lia.
Qed.

(* a named frame start is a split of the file, and seeking the inner stream there works *)
Lemma frame_start_split : forall fs ca da c s0 l,
  frame_start fs ca da c = Some (s0, l) ->
  exists p q, fs = p ++ q /\ c = ca + total_csize p /\ s0 = da + total_dlen p /\ l = hdlen q /\
              drop_to fs ca c = Some q.
Proof.
  induction fs as [|b fs IH]; intros ca da c s0 l H; cbn [frame_start] in H.
  - destruct (N.eqb_spec c ca) as [E|]; [|discriminate]. inversion H; subst.
    exists [], []. splits; fin.
  - cbn [drop_to]. destruct (N.eqb_spec c ca) as [E|Hne].
    + inversion H; subst. exists [], (b :: fs). splits; fin.
    + pose proof (frame_start_ge _ _ _ _ _ H) as Hge.
      destruct (IH _ _ _ _ _ H) as (p & q & Hfs & Hc & Hs & Hl & Hd).
      exists (b :: p), q. subst fs. splits; fin.
      destruct (N.ltb_spec c (ca + csize b)); [lia | exact Hd].
Qed.

Lemma win_at_prefix : forall p q i,
  win_at (chunks (p ++ q)) (total_dlen p + i) = win_at (chunks q) i.
Proof.
  induction p as [|a p IH]; intros q i.
  - rewrite dsum_nil. cbn [app]. f_equal; lia.
  - cbn [app]. unfold chunks at 1. cbn [map win_at]. fold (chunks (p ++ q)).
    rewrite dsum_cons. fold (flen a).
    destruct (N.ltb_spec (flen a + total_dlen p + i) (flen a)); [lia|].
    replace (flen a + total_dlen p + i - flen a) with (total_dlen p + i) by lia. apply IH.
Qed.

Lemma win_at_empties : forall es q i, all_empty es ->
  win_at (chunks (es ++ q)) i = win_at (chunks q) i.
Proof.
  intros es q i H. rewrite <- (win_at_prefix es q i). rewrite all_empty_dsum by exact H.
  f_equal; lia.
Qed.

Lemma win_at_head : forall b r i, i < flen b -> win_at (chunks (b :: r)) i = flen b - i.
Proof.
  intros b r i H. unfold chunks. cbn [map win_at]. fold (flen b).
  destruct (N.ltb_spec i (flen b)); [reflexivity | lia].
Qed.

Lemma win_at_nil : forall i, win_at (chunks []) i = 0.
Proof. reflexivity. Qed.

(* window at the flat start of a loaded frame *)
Lemma win_at_loaded : forall p es b r, all_empty es -> (flen b = 0 -> r = []) ->
  win_at (chunks (p ++ es ++ b :: r)) (total_dlen p) = flen b.
Proof.
  intros p es b r Hes Hl.
  replace (total_dlen p) with (total_dlen p + 0) by lia.
  rewrite win_at_prefix, win_at_empties by exact Hes.
  destruct (N.eq_dec (flen b) 0) as [Hz|Hnz].
  - rewrite (Hl Hz). unfold chunks. cbn [map win_at]. fold (flen b).
    destruct (N.ltb_spec 0 (flen b)); lia.
  - rewrite win_at_head by lia. lia.
Qed.

Lemma csum_prefix_le : forall p q, total_csize p <= total_csize (p ++ q).
Proof. intros. rewrite csum_app. lia. Qed.

Lemma wf_csum_pos : forall q, wf q -> q <> [] -> 0 < total_csize q.
Proof.
  intros [|b r] H Hne; [congruence|]. inversion H as [|? ? [Hb _] _]; subst. rewrite csum_cons. lia.
Qed.

(* the flat offset named by a position at a frame boundary *)
Lemma denote_boundary : forall p q u, wf p -> u <= hdlen q -> u < 65536 ->
  denote (p ++ q) (pack (total_csize p) u) = Some (total_dlen p + u).
Proof.
  intros p q u Hwf Hu Hlt. unfold denote. rewrite vcomp_pack, vuncomp_pack by exact Hlt.
  pose proof (frame_start_prefix p q 0 0 Hwf) as H. rewrite !N.add_0_l in H. rewrite H.
  destruct (N.leb_spec u (hdlen q)); [reflexivity | lia].
Qed.

(* ---- the refinement invariant ----------------------------------------------------------- *)

Definition Inv (f : file) (st : state) (s : fstate) : Prop :=
  exists pre,
    f = pre ++ rest st /\ position st = total_csize pre /\
    cur st <= blen st /\ blen st <= 65536 /\
    win s = blen st - cur st /\ off s + win s = total_dlen pre /\
    bpos st + bsize st <= total_csize f /\
    (cur st < blen st ->
       exists pre0 b, pre = pre0 ++ [b] /\ bpos st = total_csize pre0 /\ bsize st = csize b /\
                      blen st = flen b /\ firstn (length (fdata b)) (buf st) = fdata b) /\
    (cur st = blen st -> denote f (pack (bpos st + bsize st) 0) = Some (off s)) /\
    (trailing_empty f -> rest st = [] -> blen st = 0).

Lemma Inv_ext : forall f st s s', Inv f st s -> off s' = off s -> win s' = win s -> Inv f st s'.
Proof. intros f st [o w] [o' w'] H Ho Hw. cbn [off win] in *. subst. exact H. Qed.

Lemma inv_init : forall f, wf f -> Inv f (init f) (mkF 0 0).
Proof.
  intros f Hwf. exists []. unfold init. cbn [rest position cur blen bpos bsize buf off win app].
  splits; fin; try lia.
  - intros _. change (0 + 0) with 0.
    pose proof (denote_boundary [] f 0) as H. rewrite csum_nil, dsum_nil in H.
    cbn [app] in H. apply H; [constructor | lia | lia].
Qed.

Lemma as_ref_spec : forall f st s, Inv f st s ->
  as_ref st = Ok (slice (concat (chunks f)) (off s) (win s)).
Proof.
  intros f st s (pre & Hf & Hpos & Hcur & Hbl & Hwin & Hoff & Hb & Hload & Hex & Htr).
  unfold as_ref. destruct (N.leb_spec (cur st) (blen st)); [|lia]. f_equal.
  destruct (N.eq_dec (cur st) (blen st)) as [E|Hne].
  - rewrite E, buf_slice_empty. replace (win s) with 0 by lia. symmetry. apply slice_zero.
  - destruct Hload as (pre0 & b & Hpre & Hbp & Hbs & Hbl' & Hbuf); [lia|].
    rewrite Hwin, Hbl'. unfold flen.
    rewrite buf_slice_loaded by (try exact Hbuf; fold (flen b); lia).
    subst pre. rewrite <- app_assoc in Hf. cbn [app] in Hf. rewrite Hf.
    fold (flen b). rewrite <- slice_frame with (p := pre0) (q := rest st) by lia.
    f_equal. rewrite dsum_app, dsum_cons, dsum_nil in Hoff. lia.
Qed.

(* Inv holds for a block that has just been loaded with cursor c *)
Lemma inv_loaded : forall f pre1 b r c bf,
  wf f -> f = pre1 ++ b :: r -> c <= flen b ->
  (c < flen b -> firstn (length (fdata b)) bf = fdata b) ->
  (flen b = 0 -> r = []) ->
  Inv f (mkState r (total_csize pre1 + csize b) (total_csize pre1) (csize b) (flen b) c bf)
        (mkF (total_dlen pre1 + c) (flen b - c)).
Proof.
  intros f pre1 b r c bf Hwf Hf Hc Hbuf Hl.
  assert (Hf' : f = (pre1 ++ [b]) ++ r) by (rewrite <- app_assoc; exact Hf).
  assert (Hwfp : wf (pre1 ++ [b])) by (rewrite Hf' in Hwf; apply wf_app in Hwf; tauto).
  assert (Hb : flen b <= 65536).
  { apply wf_app in Hwfp. destruct Hwfp as [_ Hb]. inversion Hb as [|? ? [_ Hb'] _]; exact Hb'. }
  exists (pre1 ++ [b]).
  cbn [rest position cur blen bpos bsize buf off win].
  splits; fin.
  - rewrite csum_app, csum_cons, csum_nil. lia.
  - rewrite dsum_app, dsum_cons, dsum_nil. lia.
  - rewrite Hf, csum_app, csum_cons. lia.
  - intros Hlt. exists pre1, b. splits; fin. apply Hbuf. exact Hlt.
  - intros E.
    pose proof (denote_boundary (pre1 ++ [b]) r 0 Hwfp) as H.
    rewrite <- Hf', csum_app, csum_cons, csum_nil, dsum_app, dsum_cons, dsum_nil in H.
    rewrite N.add_0_r in H. rewrite H by lia. f_equal. lia.
  - intros Htr Hr. subst r. apply (Htr pre1 b). exact Hf.
Qed.

Lemma inv_consume : forall f st s n, Inv f st s -> Inv f (consume st n) (f_consume s n).
Proof.
  intros f st s n (pre & Hf & Hpos & Hcur & Hbl & Hwin & Hoff & Hb & Hload & Hex & Htr).
  exists pre. unfold consume, f_consume, f_advance.
  cbn [rest position cur blen bpos bsize buf off win].
  splits; fin; try lia.
  - intros Hlt. destruct Hload as (pre0 & b & H); [lia|]. exists pre0, b. exact H.
  - intros E. destruct (N.eq_dec (cur st) (blen st)) as [E0|Hne].
    + rewrite Hex by exact E0. f_equal. lia.
    + destruct Hload as (pre0 & b & Hpre & Hbp & Hbs & Hbl' & Hbuf); [lia|].
      subst pre. rewrite Hbp, Hbs.
      assert (Hwfp : True) by exact I.
      replace (total_csize pre0 + csize b) with (total_csize (pre0 ++ [b]))
        by (rewrite csum_app, csum_cons, csum_nil; lia).
      (* needs well-formedness of the prefix: carried by the caller *)
      admit.
Admitted.
