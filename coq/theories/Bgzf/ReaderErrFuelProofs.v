(* OutOfFuel is unreachable in the SINGLE-THREADED error-path reader model of NV.Bgzf.MtReaderErr
   (both [fxe]): for every file, index, STATE and history no result and no virtual position is
   OutOfFuel.  (The multithreaded side is MtReaderBridgeProofs.em_run_fuel_free.) *)
From Coq Require Import List NArith PeanoNat Lia Bool ZifyBool ZifyNat ZifyN.
From NV Require Import Bgzf.Vpos Bgzf.Gzi Bgzf.ReaderOps.
From NV Require Import Io.Sched Bgzf.MtReaderOps Bgzf.MtReaderErr Bgzf.MtReaderBridge Bgzf.MtReaderBridgeProofs.
Import ListNotations.
Open Scope N_scope.
Arguments N.add : simpl never.
Arguments N.sub : simpl never.
Arguments N.min : simpl never.
Arguments N.ltb : simpl never.
Arguments N.leb : simpl never.
Arguments N.eqb : simpl never.
Arguments N.to_nat : simpl never.
Arguments N.of_nat : simpl never.
Arguments firstn : simpl never.
Arguments skipn : simpl never.

Definition unread (st : estate) : nat := (N.to_nat (e_blen st) - N.to_nat (e_cur st))%nat.
Definition smu (st : estate) : nat := (unread st + e_bytes_ahead (e_rest st))%nat.

Definition extra (m : rmode) (r : res (option frame)) : nat :=
  match m, r with IntoBuf, Ok (Some b) => length (fdata b) | _, _ => O end.

Lemma bytes_cons : forall x r, e_bytes_ahead (x :: r)
  = (length (fdata (eb x)) + match es x with SLate isz _ => N.to_nat isz | _ => O end + e_bytes_ahead r)%nat.
Proof. reflexivity. Qed.

Lemma e_loop_ok : forall fxe m fs st st' r, e_loop fxe m fs st = (st', r) ->
  not_fuel r /\ (unread st' + extra m r + e_bytes_ahead (e_rest st') <= unread st + e_bytes_ahead fs)%nat.
Proof.
  intros fxe m. induction fs as [|x fs IH]; intros st st' r H; cbn [e_loop] in H.
  - inversion H; subst. split; [discriminate|]. unfold unread. cbn [e_blen e_cur e_rest].
    destruct m; cbn [extra]; lia.
  - rewrite bytes_cons. destruct (es x) as [| |isz g|e] eqn:Es.
    + destruct (N.ltb_spec 0 (flen (eb x))) as [Hlt|Hge].
      * inversion H; subst. split; [discriminate|]. unfold unread, flen, len in *.
        cbn [e_blen e_cur e_rest]. destruct m; cbn [extra]; lia.
      * destruct (IH _ _ _ H) as [I1 I2]. split; [exact I1|].
        unfold unread, flen, len in *. cbn [e_blen e_cur e_rest] in I2. destruct m; lia.
    + inversion H; subst. split; [discriminate|]. unfold unread. cbn [e_blen e_cur e_rest].
      destruct m; cbn [extra]; lia.
    + destruct fxe; inversion H; subst; (split; [discriminate|]); unfold unread;
        cbn [e_blen e_cur e_rest]; destruct m; cbn [extra]; lia.
    + inversion H; subst. split; [discriminate|]. unfold unread. cbn [e_blen e_cur e_rest].
      destruct m; cbn [extra]; lia.
Qed.

Lemma slice_length : forall bf c e, length (buf_slice bf c e) = N.to_nat (e - c).
Proof.
  intros. unfold buf_slice. rewrite firstn_length, app_length, repeat_length. lia.
Qed.

Lemma e_as_ref_ok : forall st, e_as_ref st <> OutOfFuel /\
  match e_as_ref st with Ok src => length src = unread st | _ => True end.
Proof.
  intros st. unfold e_as_ref. destruct (e_cur st <=? e_blen st) eqn:E; split; try discriminate; try exact I.
  rewrite slice_length. unfold unread. lia.
Qed.

Lemma e_fill_ok : forall fxe st st1 r, e_fill_buf fxe st = (st1, r) ->
  not_fuel r /\ (smu st1 <= smu st)%nat /\ match r with Ok src => length src = unread st1 | _ => True end.
Proof.
  intros fxe st st1 r H. unfold e_fill_buf in H. destruct (e_has_remaining st).
  - inversion H; subst. destruct (e_as_ref_ok st1) as [A1 A2]. split; [exact A1|]. split; [lia|exact A2].
  - unfold e_read_block in H. destruct (e_loop fxe Parse (e_rest st) st) as [st2 r2] eqn:E.
    destruct (e_loop_ok _ _ _ _ _ _ E) as [L1 L2].
    assert (Hmu : (smu st2 <= smu st)%nat) by (unfold smu; destruct r2 as [[b|]| | | |]; cbn [extra] in L2; lia).
    destruct r2 as [o|e| | |]; inversion H; subst; clear H.
    + destruct (e_as_ref_ok st1) as [A1 A2]. split; [exact A1|]. split; [exact Hmu|exact A2].
    + split; [discriminate|]. split; [exact Hmu|exact I].
    + split; [discriminate|]. split; [exact Hmu|exact I].
    + exfalso. apply L1. reflexivity.
    + split; [discriminate|]. split; [exact Hmu|exact I].
Qed.

Lemma smu_consume : forall st n, (N.to_nat n <= unread st)%nat -> (smu (e_consume st n) + N.to_nat n = smu st)%nat.
Proof. intros st n H. unfold smu, unread, e_consume in *. cbn [e_blen e_cur e_rest]. lia. Qed.

Lemma e_read_ok : forall fxe st n st1 r, e_read fxe st n = (st1, r) ->
  not_fuel r /\ match r with Ok bs => (smu st1 + length bs <= smu st)%nat | _ => (smu st1 <= smu st)%nat end.
Proof.
  intros fxe st n st1 r H. unfold e_read in H.
  destruct (negb (e_has_remaining st) && (65536 <=? n)).
  - unfold e_read_block in H. destruct (e_loop fxe IntoBuf (e_rest st) st) as [st2 r2] eqn:E.
    destruct (e_loop_ok _ _ _ _ _ _ E) as [L1 L2]. unfold smu.
    destruct r2 as [[b|]|e| | |]; inversion H; subst; clear H; cbn [extra] in L2; cbn [length];
      try (split; [discriminate|lia]).
    exfalso. apply L1. reflexivity.
  - destruct (e_fill_buf fxe st) as [st2 r2] eqn:E.
    destruct (e_fill_ok _ _ _ _ E) as (F1 & F2 & F3).
    destruct r2 as [src|e| | |]; inversion H; subst; clear H; try (split; [assumption || discriminate|exact F2]).
    split; [discriminate|].
    set (out := firstn (N.to_nat n) src) in *.
    assert (Hl : (length out <= length src)%nat) by (unfold out; rewrite firstn_length; lia).
    assert (Hn : N.to_nat (len out) = length out) by (unfold len; apply Nnat.Nat2N.id).
    pose proof (smu_consume st2 (len out)) as Hc. rewrite Hn in Hc.
    assert (Hle : (length out <= unread st2)%nat) by (rewrite <- F3; exact Hl).
    specialize (Hc Hle). lia.
Qed.

Lemma e_all_loop_ok : forall fxe fuel st n acc st1 r, (smu st < fuel)%nat ->
  e_read_all_loop fxe fuel st n acc = (st1, r) -> not_fuel r.
Proof.
  intros fxe. induction fuel as [|k IH]; intros st n acc st1 r Hf H; [lia|]. cbn [e_read_all_loop] in H.
  destruct (e_read fxe st n) as [st2 r2] eqn:E. destruct (e_read_ok _ _ _ _ _ E) as [K1 K2].
  destruct r2 as [bs|e| | |]; try (inversion H; subst; exact K1).
  destruct (N.eqb_spec (len bs) 0) as [Hz|Hz]; [inversion H; subst; discriminate|].
  apply (IH st2 n (acc ++ bs) st1 r); [|exact H]. unfold len in Hz. lia.
Qed.

Lemma e_exact_loop_ok : forall fxe fuel st rem acc st1 r, (N.to_nat rem < fuel)%nat ->
  e_read_exact_loop fxe fuel st rem acc = (st1, r) -> not_fuel r.
Proof.
  intros fxe. induction fuel as [|k IH]; intros st rem acc st1 r Hf H; [lia|]. cbn [e_read_exact_loop] in H.
  destruct (N.eqb_spec rem 0) as [Hr|Hr]; [inversion H; subst; discriminate|].
  destruct (e_read fxe st rem) as [st2 r2] eqn:E. destruct (e_read_ok _ _ _ _ _ E) as [K1 K2].
  destruct r2 as [bs|e| | |]; try (inversion H; subst; exact K1).
  destruct (N.eqb_spec (len bs) 0) as [Hz|Hz]; [inversion H; subst; discriminate|].
  apply (IH st2 (rem - len bs) (acc ++ bs) st1 r); [|exact H]. lia.
Qed.

Lemma e_seek_ok_fuel : forall fxe f st v st1 r, e_seek fxe f st v = (st1, r) -> not_fuel r.
Proof.
  intros fxe f st v st1 r H. unfold e_seek in H.
  destruct (e_drop_to f 0 (vcomp v)) as [rr|]; [|inversion H; subst; discriminate].
  unfold e_read_block in H. cbn [e_rest] in H.
  match type of H with context [e_loop fxe Parse rr ?s] =>
    destruct (e_loop fxe Parse rr s) as [st2 r2] eqn:E; destruct (e_loop_ok _ _ _ _ _ _ E) as [L1 _] end.
  destruct r2 as [o|e| | |]; inversion H; subst; try discriminate. exfalso. apply L1. reflexivity.
Qed.

Lemma e_step_ok : forall fxe f idx st o st1 x, e_step fxe f idx st o = (st1, x) -> out_ok x.
Proof.
  intros fxe f idx st o st1 x H. destruct o as [n|n|n| |n|v|p|n]; cbn [e_step] in H.
  - destruct (e_read fxe st n) as [s r] eqn:E. inversion H; subst.
    apply out_ok_bytes. exact (proj1 (e_read_ok _ _ _ _ _ E)).
  - unfold e_read_exact in H. destruct (e_as_ref st) as [src|e| | |] eqn:Ea;
      try (inversion H; subst; exact I).
    + destruct (n <=? len src); [inversion H; subst; exact I|].
      unfold e_read_exact_std in H. destruct (e_read_exact_loop fxe (S (N.to_nat n)) st n []) as [s r] eqn:E.
      inversion H; subst. apply out_ok_bytes. apply (e_exact_loop_ok _ _ _ _ _ _ _ (Nat.lt_succ_diag_r _) E).
    + exfalso. apply (proj1 (e_as_ref_ok st)). exact Ea.
  - unfold e_read_exact_std in H. destruct (e_read_exact_loop fxe (S (N.to_nat n)) st n []) as [s r] eqn:E.
    inversion H; subst. apply out_ok_bytes. apply (e_exact_loop_ok _ _ _ _ _ _ _ (Nat.lt_succ_diag_r _) E).
  - destruct (e_fill_buf fxe st) as [s r] eqn:E. inversion H; subst.
    apply out_ok_bytes. exact (proj1 (e_fill_ok _ _ _ _ E)).
  - inversion H; subst. exact I.
  - destruct (e_seek fxe f st v) as [s r] eqn:E. inversion H; subst.
    apply out_ok_pos. exact (e_seek_ok_fuel _ _ _ _ _ _ E).
  - unfold e_seek_u in H. destruct (gzi_query idx p) as [v|e| | |] eqn:Eq; try (inversion H; subst; exact I).
    + destruct (e_seek fxe f st v) as [s r] eqn:E. pose proof (e_seek_ok_fuel _ _ _ _ _ _ E) as K.
      destruct r; inversion H; subst; try exact I. apply K. reflexivity.
    + unfold gzi_query in Eq. destruct (gzi_entry idx p) as [c u].
      destruct (65536 <=? p - u); [discriminate|]. destruct (vpos_try_from c (p - u)); discriminate.
  - unfold e_read_all in H.
    match type of H with context [e_read_all_loop fxe ?k st n []] =>
      destruct (e_read_all_loop fxe k st n []) as [s r] eqn:E end.
    inversion H; subst. apply out_ok_bytes. refine (e_all_loop_ok _ _ _ _ _ _ _ _ E).
    unfold smu, unread. lia.
Qed.

Lemma e_vpos_not_fuel : forall st, e_virtual_position st <> OutOfFuel.
Proof.
  intros st. unfold e_virtual_position. destruct (e_has_remaining st).
  - destruct ((e_bpos st <=? MAX_COMPRESSED_POSITION) && (e_cur st <=? MAX_UNCOMPRESSED_POSITION)); discriminate.
  - destruct (e_bpos st + e_bsize st <=? MAX_COMPRESSED_POSITION); discriminate.
Qed.

(* THEOREM: whatever the file, the index, the state and the history, for both [fxe] *)
Theorem e_run_fuel_free : forall fxe f idx ops st, Forall fuel_free (e_run fxe f idx st ops).
Proof.
  intros fxe f idx. induction ops as [|o ops IH]; intros st; cbn [e_run]; [constructor|].
  destruct (e_step fxe f idx st o) as [st1 x] eqn:E. pose proof (e_step_ok _ _ _ _ _ _ _ E) as K.
  constructor; [|apply IH]. unfold fuel_free. cbn [fst snd]. split; [|apply e_vpos_not_fuel].
  destruct x as [[a|e| | |]| |[a|e| | |]]; try exact I; exact K.
Qed.
