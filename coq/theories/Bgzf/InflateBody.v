(* The body of a Huffman-coded block for ARBITRARY code trees (the fixed ones, or whatever a dynamic
   header described): if every symbol the token sequence uses has a code in the literal/length
   tree [lt] resp. the distance tree [dt], then [codes] decodes the encoding of the tokens under
   those trees, followed by the end-of-block code, to the LZ77 expansion -- consuming exactly the
   encoding.  (InflateTokens is the instance lt = fixed_lt, dt = fixed_dt plus the block header.) *)
From Coq Require Import List Arith NArith Bool Lia ZifyBool ZifyNat ZifyN.
From NV Require Import Base.LE Bgzf.Frame Bgzf.FrameProofs Bgzf.Inflate Bgzf.InflateProofs
  Bgzf.InflateFuel Bgzf.InflateHuffman Bgzf.InflateFixed Bgzf.InflateTokens.
Import ListNotations.
Open Scope N_scope.

Section Body.
  Variable lt : htree.
  Variable dt : htree.

  Definition code_in (t : htree) (sym : N) : list bool :=
    match find_path t sym with Some p => p | None => [] end.

  Definition has_code (t : htree) (sym : N) : Prop := find_path t sym <> None.

  Definition enc_token_in (t : token) : list bool :=
    match t with
    | TLit b => code_in lt b
    | TMatch len dist =>
        let i := slot len_base len in
        let j := slot dist_base dist in
        code_in lt (257 + N.of_nat i) ++ bits_of (nth i len_extra O) (len - nth i len_base 0)
          ++ code_in dt (N.of_nat j) ++ bits_of (nth j dist_extra O) (dist - nth j dist_base 0)
    end.

  Definition token_coded (t : token) : Prop :=
    match t with
    | TLit b => has_code lt b
    | TMatch len dist =>
        has_code lt (257 + N.of_nat (slot len_base len)) /\ has_code dt (N.of_nat (slot dist_base dist))
    end.

  Lemma code_in_path : forall t sym, has_code t sym -> path_to t (code_in t sym) sym.
  Proof.
    intros t sym H. unfold code_in, has_code in *.
    destruct (find_path t sym) as [p|] eqn:E; [|congruence]. apply find_path_sound. exact E.
  Qed.

  Lemma codes_tokens_in : forall ts f limit s o rest,
    not_leaf lt -> has_code lt 256 -> Forall token_coded ts ->
    win_ok o -> tokens_ok ts (ob_list o) ->
    bits_all s = flat_map enc_token_in ts ++ code_in lt 256 ++ rest ->
    (bits_left s < f)%nat -> lenN (expand ts (ob_list o)) <= limit ->
    exists s' o', codes f limit lt dt s o = Some (s', o') /\
      win_ok o' /\ ob_list o' = expand ts (ob_list o) /\ bits_all s' = rest.
  Proof.
    induction ts as [|t ts IH]; intros f limit s o rest Hnl Heob Hc Hw Hok Hs Hf Hl.
    - destruct f as [|f]; [lia|]. cbn [flat_map app] in Hs. cbn [codes expand].
      destruct (hdecode_path _ _ _ (code_in_path lt 256 Heob) s rest Hs) as [s' [Hd Hr]].
      rewrite Hd. exists s', o. repeat split; try assumption. apply Hw. apply Hw.
    - destruct f as [|f]; [lia|]. cbn [flat_map] in Hs. rewrite <- app_assoc in Hs.
      cbn [tokens_ok] in Hok. destruct Hok as [Ht Hok]. cbn [expand] in Hl |- *.
      inversion Hc as [|? ? Hc1 Hc2]; subst.
      pose proof (win_ok_len o Hw) as Hlen.
      pose proof (expand_length_mono ts (expand1 t (ob_list o))) as Hmono.
      rewrite expand1_length in Hmono.
      destruct t as [b|len dist].
      + cbn [enc_token_in] in Hs. cbn [token_coded] in Hc1.
        destruct (hdecode_path _ _ _ (code_in_path lt b Hc1) s _ Hs) as [s1 [Hd Hr]].
        cbn [codes]. rewrite Hd.
        destruct (b <? 256) eqn:E1; [|lia].
        destruct (limit <=? ob_len o) eqn:E2; [unfold lenN in *; lia|].
        cbn [expand1] in *. rewrite <- ob_list_push in Hok, Hl |- *.
        apply IH; try assumption; [apply win_ok_push; exact Hw|].
        pose proof (hdecode_bits_strict _ _ _ _ Hnl Hd). lia.
      + destruct Ht as [Hlen3 [Hd1 Hd2]]. cbn [token_coded] in Hc1. destruct Hc1 as [HcL HcD].
        pose proof (len_ok_all len Hlen3) as LK. pose proof (dist_ok_all dist Hd1) as DK.
        unfold len_ok in LK. unfold dist_ok in DK. cbv zeta in LK, DK.
        set (i := slot len_base len) in *. set (j := slot dist_base dist) in *.
        apply andb_prop in LK. destruct LK as [LK _]. apply andb_prop in LK. destruct LK as [LK L3].
        apply andb_prop in LK. destruct LK as [L1 L2].
        apply andb_prop in DK. destruct DK as [DK _]. apply andb_prop in DK. destruct DK as [DK D3].
        apply andb_prop in DK. destruct DK as [D1 D2].
        cbn [enc_token_in] in Hs. fold i j in Hs. rewrite <- !app_assoc in Hs.
        destruct (hdecode_path _ _ _ (code_in_path lt _ HcL) s _ Hs) as [s1 [H1 R1]].
        destruct (getbits_spec (nth i len_extra O) s1 _ _ (bits_of_length _ _) R1) as [s2 [H2 R2]].
        destruct (hdecode_path _ _ _ (code_in_path dt _ HcD) s2 _ R2) as [s3 [H3 R3]].
        destruct (getbits_spec (nth j dist_extra O) s3 _ _ (bits_of_length _ _) R3) as [s4 [H4 R4]].
        apply N.eqb_eq in L3. apply N.eqb_eq in D3. rewrite L3 in H2. rewrite D3 in H4.
        cbn [codes]. rewrite H1.
        destruct (257 + N.of_nat i <? 256) eqn:E1; [lia|].
        destruct (257 + N.of_nat i =? 256) eqn:E2; [lia|].
        cbv zeta.
        replace (N.to_nat (257 + N.of_nat i - 257)) with i by lia.
        destruct (29 <=? i)%nat eqn:E3; [lia|].
        rewrite H2, H3. rewrite Nat2N.id.
        destruct (30 <=? j)%nat eqn:E4; [lia|].
        rewrite H4.
        replace (nth i len_base 0 + (len - nth i len_base 0)) with len by lia.
        replace (nth j dist_base 0 + (dist - nth j dist_base 0)) with dist by lia.
        destruct (ob_len o <? dist) eqn:E5; [lia|].
        destruct (limit <? ob_len o + len) eqn:E6; [unfold lenN in *; lia|].
        destruct (copy_match_spec (N.to_nat len) (ob_len o - dist) o Hw) as [Hw' Hl']; [lia|].
        assert (Hex : ob_list (copy_match (N.to_nat len) (ob_len o - dist) o)
                      = expand1 (TMatch len dist) (ob_list o)).
        { rewrite Hl'. cbn [expand1]. f_equal. rewrite (ob_list_length o (proj1 Hw)). lia. }
        rewrite <- Hex in Hok, Hl |- *.
        apply IH; try assumption.
        pose proof (hdecode_bits_strict _ _ _ _ Hnl H1).
        pose proof (getbits_bits _ _ _ _ H2). pose proof (hdecode_bits _ _ _ _ H3).
        pose proof (getbits_bits _ _ _ _ H4). lia.
  Qed.
End Body.

(* for trees built from code lengths: every symbol with a non-zero length has a code *)
Lemma mk_tree_has_code : forall lens len sym,
  snd (mk_tree lens) = [] -> In (len, sym) (sorted_syms lens) ->
  exists p, path_to (fst (mk_tree lens)) p sym /\ length p = len.
Proof.
  intros lens len sym Hr Hin. destruct (mk_tree_decodes lens len sym Hr Hin) as [code [Hl [Hp _]]].
  exists code. split; assumption.
Qed.

Lemma find_path_complete : forall t p x, path_to t p x -> has_code t x.
Proof.
  unfold has_code. induction 1 as [x|l r p x Hp IH|l r p x Hp IH]; cbn [find_path].
  - rewrite N.eqb_refl. discriminate.
  - destruct (find_path l x); [discriminate|congruence].
  - destruct (find_path l x); [discriminate|]. destruct (find_path r x); [discriminate|congruence].
Qed.

Lemma index_from_In : forall lens i k, (k < length lens)%nat ->
  In (nth k lens O, i + N.of_nat k) (index_from i lens).
Proof.
  induction lens as [|l t IH]; intros i k Hk; cbn [length] in Hk; [lia|].
  cbn [index_from]. destruct k as [|k].
  - left. cbn [nth]. f_equal. lia.
  - right. cbn [nth]. replace (i + N.of_nat (S k)) with (i + 1 + N.of_nat k) by lia. apply IH. lia.
Qed.

Lemma sorted_syms_In : forall lens k, (k < length lens)%nat -> (1 <= nth k lens O <= 15)%nat ->
  In (nth k lens O, N.of_nat k) (sorted_syms lens).
Proof.
  intros lens k Hk Hl. unfold sorted_syms. apply in_flat_map. exists (nth k lens O). split.
  - apply in_seq. lia.
  - apply filter_In. split; [exact (index_from_In lens 0 k Hk)|]. cbn [fst]. apply Nat.eqb_refl.
Qed.

(* every symbol to which a (not over-subscribed) description gives a length 1..15 has a code *)
Theorem mk_tree_codes_all : forall lens k,
  snd (mk_tree lens) = [] -> (k < length lens)%nat -> (1 <= nth k lens O <= 15)%nat ->
  has_code (fst (mk_tree lens)) (N.of_nat k).
Proof.
  intros lens k Hr Hk Hl.
  destruct (mk_tree_has_code lens _ _ Hr (sorted_syms_In lens k Hk Hl)) as [p [Hp _]].
  exact (find_path_complete _ _ _ Hp).
Qed.
