(* A declarative specification of the DEFLATE stream syntax of RFC 1951 -- ANY sequence of stored,
   fixed-Huffman and dynamic-Huffman blocks, BFINAL on the last one only -- as a relation
   [stream_denotes off bits out bs out'] between a bit string, a list of blocks (stored bytes or LZ77
   tokens + the full dynamic header: HLIT, HDIST, HCLEN of 4..19, the code-length code lengths in
   the permuted order, the literal/length and distance code lengths run-length coded with the
   repeat codes 16 / 17 / 18) and the bytes the stream stands for.

   Nothing here mentions the inflater.  A Huffman-coded symbol is "a path to a leaf labelled with
   the symbol in the canonical tree of the code lengths" ([path_to], [mk_tree]: proved to be the
   canonical code of 3.2.2 in InflateHuffman); lengths and distances are (symbol, extra bits) pairs
   with base + extra = value (3.2.5; the relation admits every such pair, e.g. length 258 as symbol
   284 + 31, which zlib accepts as well); stored data start at the next byte boundary, counted
   from the bit offset [off] of the block in the stream (3.2.4).

   InflateStream proves the inflater COMPLETE for this specification (every stream it describes is
   decoded to the bytes it denotes), InflateSound proves it SOUND (every stream the inflater accepts
   is described by it), InflateEnc gives an executable encoder into it (compared with an independent
   Rust encoder and read by the real reader in the correspondence run, kind ms). *)
From Coq Require Import List Arith NArith Bool Lia ZifyBool ZifyNat ZifyN.
From NV Require Import Base.LE Bgzf.Frame Bgzf.FrameProofs Bgzf.Inflate Bgzf.InflateProofs
  Bgzf.InflateFuel Bgzf.InflateHuffman Bgzf.InflateFixed Bgzf.InflateTokens Bgzf.InflateBody.
Import ListNotations.
Open Scope N_scope.

Definition bytes_bits (l : list N) : list bool := flat_map (bits_of 8) l.
Definition is_byte (b : N) : Prop := b < 256.

(* ---- 3.2.5: lengths and distances as (symbol, extra bits) ---- *)

Definition len_coding (len : N) (i : nat) (e : N) : Prop :=
  (i < 29)%nat /\ e < 2 ^ N.of_nat (nth i len_extra O) /\ len = nth i len_base 0 + e.
Definition dist_coding (dist : N) (j : nat) (e : N) : Prop :=
  (j < 30)%nat /\ e < 2 ^ N.of_nat (nth j dist_extra O) /\ dist = nth j dist_base 0 + e.

(* the bits of one token under the literal/length tree lt and the distance tree dt *)
Inductive token_bits (lt dt : htree) : token -> list bool -> Prop :=
| tb_lit : forall b p, path_to lt p b -> token_bits lt dt (TLit b) p
| tb_match : forall len dist i e j e2 p1 p2,
    len_coding len i e -> dist_coding dist j e2 ->
    path_to lt p1 (257 + N.of_nat i) -> path_to dt p2 (N.of_nat j) ->
    token_bits lt dt (TMatch len dist)
      (p1 ++ bits_of (nth i len_extra O) e ++ p2 ++ bits_of (nth j dist_extra O) e2).

(* the tokens, then the end-of-block symbol 256 *)
Inductive body_bits (lt dt : htree) : list token -> list bool -> Prop :=
| bb_end : forall p, path_to lt p 256 -> body_bits lt dt [] p
| bb_tok : forall t ts b1 b2, token_bits lt dt t b1 -> body_bits lt dt ts b2 ->
    body_bits lt dt (t :: ts) (b1 ++ b2).

(* ---- 3.2.7: the code lengths, run-length coded ---- *)

Inductive cl_item :=
| CLen (l : nat)        (* symbol 0..15: one code length *)
| CRep16 (n : nat)      (* symbol 16: copy the previous length 3..6 times *)
| CRep17 (n : nat)      (* symbol 17: 3..10 zeros *)
| CRep18 (n : nat).     (* symbol 18: 11..138 zeros *)

Definition item_lens (it : cl_item) (prev : nat) : list nat :=
  match it with
  | CLen l => [l]
  | CRep16 n => repeat prev n
  | CRep17 n => repeat O n
  | CRep18 n => repeat O n
  end.

(* meaning of a list of items after the lengths acc (in order) *)
Fixpoint cl_expand (items : list cl_item) (acc : list nat) : list nat :=
  match items with
  | [] => acc
  | it :: r => cl_expand r (acc ++ item_lens it (last acc O))
  end.

Fixpoint items_ok (items : list cl_item) (acc : list nat) : Prop :=
  match items with
  | [] => True
  | it :: r =>
      match it with
      | CLen l => (l < 16)%nat
      | CRep16 n => (3 <= n <= 6)%nat /\ acc <> []
      | CRep17 n => (3 <= n <= 10)%nat
      | CRep18 n => (11 <= n <= 138)%nat
      end /\ items_ok r (acc ++ item_lens it (last acc O))
  end.

Inductive item_bits (clt : htree) : cl_item -> list bool -> Prop :=
| ib_len : forall l p, path_to clt p (N.of_nat l) -> item_bits clt (CLen l) p
| ib_16 : forall n p, path_to clt p 16 -> item_bits clt (CRep16 n) (p ++ bits_of 2 (N.of_nat (n - 3)))
| ib_17 : forall n p, path_to clt p 17 -> item_bits clt (CRep17 n) (p ++ bits_of 3 (N.of_nat (n - 3)))
| ib_18 : forall n p, path_to clt p 18 -> item_bits clt (CRep18 n) (p ++ bits_of 7 (N.of_nat (n - 11))).

Inductive items_bits (clt : htree) : list cl_item -> list bool -> Prop :=
| ibs_nil : items_bits clt [] []
| ibs_cons : forall it r b1 b2, item_bits clt it b1 -> items_bits clt r b2 ->
    items_bits clt (it :: r) (b1 ++ b2).

(* the header of a dynamic block *)
Record dyn_hdr := mk_dyn_hdr {
  dh_nlen : nat;             (* HLIT + 257 *)
  dh_ndist : nat;            (* HDIST + 1 *)
  dh_clvals : list nat;      (* HCLEN + 4 code lengths of the code-length code, in the order 16 17 18 0 8 .. *)
  dh_items : list cl_item    (* the dh_nlen + dh_ndist code lengths *)
}.

(* (abbreviations, not constants: the kernel never has to decide in which order to unfold them) *)
Notation dh_cll h := (cl_lens (dh_clvals h)).
Notation dh_clt h := (fst (mk_tree (cl_lens (dh_clvals h)))).
Notation dh_lens h := (cl_expand (dh_items h) []).
Notation dh_ll h := (firstn (dh_nlen h) (cl_expand (dh_items h) [])).
Notation dh_dl h := (skipn (dh_nlen h) (cl_expand (dh_items h) [])).
Notation dh_lt h := (fst (mk_tree (firstn (dh_nlen h) (cl_expand (dh_items h) [])))).
Notation dh_dt h := (fst (mk_tree (skipn (dh_nlen h) (cl_expand (dh_items h) [])))).

(* acceptable descriptions: zlib's rules (code_ok: not over-subscribed; complete, except a single
   1-bit code / the empty distance code; the code-length code complete), an end-of-block code *)
Record dyn_hdr_ok (h : dyn_hdr) : Prop := {
  ho_nlen : (257 <= dh_nlen h <= 286)%nat;
  ho_ndist : (1 <= dh_ndist h <= 30)%nat;
  ho_ncl : (4 <= length (dh_clvals h) <= 19)%nat;
  ho_clsmall : Forall (fun v => (v < 8)%nat) (dh_clvals h);
  ho_cl_ok : code_ok true (mk_tree (dh_cll h)) = true;
  ho_items : items_ok (dh_items h) [];
  ho_total : length (dh_lens h) = (dh_nlen h + dh_ndist h)%nat;
  ho_eob : nth 256 (dh_lens h) O <> O;
  ho_ll_ok : code_ok false (mk_tree (dh_ll h)) = true;
  ho_dl_ok : code_ok false (mk_tree (dh_dl h)) = true
}.

Definition hdr_fields (h : dyn_hdr) : list bool :=
  bits_of 5 (N.of_nat (dh_nlen h - 257)) ++ bits_of 5 (N.of_nat (dh_ndist h - 1))
    ++ bits_of 4 (N.of_nat (length (dh_clvals h) - 4))
    ++ flat_map (fun v => bits_of 3 (N.of_nat v)) (dh_clvals h).

Definition hdr_bits (h : dyn_hdr) (bits : list bool) : Prop :=
  exists ib, items_bits (dh_clt h) (dh_items h) ib /\ bits = hdr_fields h ++ ib.

(* ---- blocks ---- *)

Inductive block :=
| BStored (pad : list bool) (chunk : list N)   (* pad: the ignored bits up to the byte boundary *)
| BFixed (ts : list token)
| BDynamic (h : dyn_hdr) (ts : list token).

Definition block_out (b : block) (out : list N) : list N :=
  match b with
  | BStored _ chunk => out ++ chunk
  | BFixed ts => expand ts out
  | BDynamic _ ts => expand ts out
  end.

Definition stored_bytes (chunk : list N) : list N :=
  le16 (lenN chunk) ++ le16 (MAX_STORED - lenN chunk) ++ chunk.

(* [block_bits off b out bits]: bits = BTYPE and everything up to the end of block b, which starts
   (with its BFINAL bit) at bit offset off of the stream and is decoded after the output out *)
Inductive block_bits (off : nat) : block -> list N -> list bool -> Prop :=
| bk_stored : forall pad chunk out,
    (length pad < 8)%nat -> ((off + 3 + length pad) mod 8 = 0)%nat ->
    lenN chunk <= 65535 -> Forall is_byte chunk ->
    block_bits off (BStored pad chunk) out ([false; false] ++ pad ++ bytes_bits (stored_bytes chunk))
| bk_fixed : forall ts out bb,
    tokens_ok ts out -> body_bits fixed_lt fixed_dt ts bb ->
    block_bits off (BFixed ts) out ([true; false] ++ bb)
| bk_dynamic : forall h ts out hb bb,
    dyn_hdr_ok h -> hdr_bits h hb -> tokens_ok ts out -> body_bits (dh_lt h) (dh_dt h) ts bb ->
    block_bits off (BDynamic h ts) out ([false; true] ++ hb ++ bb).

(* [stream_denotes off bits out bs out']: bits is exactly the blocks bs, the first one at bit offset
   off, BFINAL set on the last one only; decoded after out they give out' *)
Inductive stream_denotes : nat -> list bool -> list N -> list block -> list N -> Prop :=
| sd_last : forall off b out bits,
    block_bits off b out bits -> stream_denotes off (true :: bits) out [b] (block_out b out)
| sd_more : forall off b bs out bits rest out',
    block_bits off b out bits ->
    stream_denotes (off + 1 + length bits) rest (block_out b out) bs out' ->
    stream_denotes off (false :: bits ++ rest) out (b :: bs) out'.

(* a byte string is a DEFLATE stream for [out]: its bits (LSB first, 3.1.1) begin with a stream of
   blocks denoting out; what follows the final block is not part of the stream *)
Definition deflate_denotes (c : list N) (out : list N) : Prop :=
  exists bs bits trail, stream_denotes 0 bits [] bs out /\ bytes_bits c = bits ++ trail.

(* ---- an executable encoder into the specification (canonical choices: the code found in the
   tree, the first symbol whose range holds the value, zero padding) ---- *)

Definition enc_item (clt : htree) (it : cl_item) : list bool :=
  match it with
  | CLen l => code_in clt (N.of_nat l)
  | CRep16 n => code_in clt 16 ++ bits_of 2 (N.of_nat (n - 3))
  | CRep17 n => code_in clt 17 ++ bits_of 3 (N.of_nat (n - 3))
  | CRep18 n => code_in clt 18 ++ bits_of 7 (N.of_nat (n - 11))
  end.

Definition enc_hdr (h : dyn_hdr) : list bool :=
  hdr_fields h ++ flat_map (enc_item (dh_clt h)) (dh_items h).

Definition enc_body (lt dt : htree) (ts : list token) : list bool :=
  flat_map (enc_token_in lt dt) ts ++ code_in lt 256.

Definition pad_len (off : nat) : nat := ((8 - (off + 3) mod 8) mod 8)%nat.

Definition enc_block (off : nat) (b : block) : list bool :=
  match b with
  | BStored _ chunk => [false; false] ++ repeat false (pad_len off) ++ bytes_bits (stored_bytes chunk)
  | BFixed ts => [true; false] ++ enc_body fixed_lt fixed_dt ts
  | BDynamic h ts => [false; true] ++ enc_hdr h ++ enc_body (dh_lt h) (dh_dt h) ts
  end.

Fixpoint enc_stream (off : nat) (bs : list block) : list bool :=
  match bs with
  | [] => []
  | b :: r =>
      let e := enc_block off b in
      match r with
      | [] => true :: e
      | _ :: _ => false :: e ++ enc_stream (off + 1 + length e) r
      end
  end.

Definition deflate_blocks (bs : list block) : list N :=
  let bits := enc_stream 0 bs in pack_bits (length bits) bits.

Fixpoint stream_out (bs : list block) (out : list N) : list N :=
  match bs with
  | [] => out
  | b :: r => stream_out r (block_out b out)
  end.
